(* Model of omap/omap.go (creachadair/mds).  DEFINITIONS ONLY.

   A Map[T,U] is a struct holding one pointer m.m to a stree.Tree[KV[T,U]]: [None] is the zero Map
   (m.m == nil), [Some t] a Map made by New/NewFunc.  Copies of a Map hold the same pointer, i.e.
   they are the same state (that they really share is an aliasing fact: correspondence).  The
   tree is the model of StreeModel.v over pairs compared by key only (KV.Compare), with the balance
   factor of Gen/OmapConst.v; the iterator's cursor is the model of CursorModel.v.  An Iter is its
   cursor (the tree pointer it.m is the map's).  Constants and nil-guard results come from
   Gen/OmapConst.v, regenerated from omap.go on every run. *)
From Coq Require Import ZArith List Bool.
Import ListNotations.
From Mds Require Import Gen.OmapConst Stree.StreeModel Stree.CursorModel.
Local Open Scope Z_scope.

Section Omap.
Variables K V : Type.
Variable kcmp : K -> K -> Z.           (* the comparison given to NewFunc *)
Variable limit : Z -> Z -> Z.          (* the tree's depth limit (StreeModel): contents never depend on it *)
Variable zk : K.                       (* zero values *)
Variable zv : V.

Definition kv : Type := (K * V)%type.
(* KV.Compare(cf) *)
Definition kvcmp (a b : kv) : Z := kcmp (fst a) (fst b).
Definition zkv : kv := (zk, zv).

Definition omap : Type := option (Tree kv).

(* NewFunc: Map{m: stree.New(250, kv{}.Compare(cf))} *)
Definition new_func : res omap := bind (New kvcmp omap_beta [] []) (fun t => Ok (Some t)).
Definition zero_map : omap := None.

Definition mtree (m : omap) : tree kv := match m with Some t => root t | None => Leaf end.

(* Set: m.m.Replace(...) — on the zero Map a nil *Tree is dereferenced *)
Definition mset (m : omap) (k : K) (v : V) : res (omap * bool) :=
  match m with
  | None => Panic
  | Some t => bind (Replace kvcmp limit t (k, v)) (fun '(t', b) => Ok (Some t', b))
  end.

Definition mdelete (m : omap) (k : K) : res (omap * bool) :=
  match m with
  | None => Ok (None, omap_delete_nil)
  | Some t => bind (Remove kvcmp t (k, zv)) (fun '(t', b) => Ok (Some t', b))
  end.

Definition mclear (m : omap) : omap :=
  match m with None => None | Some t => Some (Clear t) end.

Definition mlen (m : omap) : Z :=
  match m with None => omap_len_nil | Some t => Len t end.

Definition mget_ok (m : omap) (k : K) : V * bool :=
  match m with
  | Some t =>
    match Get kvcmp t (k, zv) with
    | Some e => (snd e, omap_getok_found)
    | None => (zv, omap_getok_missing)
    end
  | None => (zv, omap_getok_missing)
  end.

Definition mget (m : omap) (k : K) : V := fst (mget_ok m k).

(* Keys: None is the nil slice *)
Definition mkeys (m : omap) : res (option (list K)) :=
  match m with
  | None => if omap_keys_nil true 0 then Ok None else Panic        (* ranging over a nil tree *)
  | Some t =>
    if omap_keys_nil false (Len t) then Ok None
    else Ok (Some (map fst (rev (fst (Inorder t (fun (acc : list kv) x => (x :: acc, true)) [])))))
  end.

(* First / Last: it.c = m.m.Root().Min() / .Max() when m.m != nil *)
Definition mfirst (m : omap) : res cursor :=
  match m with None => Ok CNil | Some t => cmin (root t) (tree_root (root t)) end.
Definition mlast (m : omap) : res cursor :=
  match m with None => Ok CNil | Some t => cmax (root t) (tree_root (root t)) end.

(* Iter.Seek: it.c = nil; if it.m != nil { for kv := range it.m.InorderAfter(KV{Key: key}) { it.c = it.m.Cursor(kv); break } } *)
Definition iseek (m : omap) (k : K) : res cursor :=
  match m with
  | None => Ok CNil
  | Some t =>
    bind (InorderAfter kvcmp t (k, zv) (fun (s : option kv) x => (Some x, false)) None) (fun '(s, _) =>
    match s with
    | None => Ok CNil
    | Some e => tree_cursor kvcmp (root t) e
    end)
  end.

(* Map.Seek: m.First().Seek(key) *)
Definition mseek (m : omap) (k : K) : res cursor := bind (mfirst m) (fun _ => iseek m k).

Definition inext (m : omap) (c : cursor) : res cursor := next (mtree m) c.
Definition iprev (m : omap) (c : cursor) : res cursor := prev (mtree m) c.
Definition ivalid (c : cursor) : bool := valid c.
Definition ikey (m : omap) (c : cursor) : res K := bind (key zkv (mtree m) c) (fun e => Ok (fst e)).
Definition ivalue (m : omap) (c : cursor) : res V := bind (key zkv (mtree m) c) (fun e => Ok (snd e)).

(* String: for it := m.First(); it.IsValid(); it.Next() { print it.Key(), it.Value() };
   the entries printed, None for the literal of the nil branch *)
Fixpoint iter_loop (m : omap) (fuel : nat) (c : cursor) (acc : list kv) : res (list kv) :=
  if ivalid c then
    match fuel with
    | O => OutOfFuel
    | S fuel' =>
      bind (ikey m c) (fun k =>
      bind (ivalue m c) (fun v =>
      bind (inext m c) (fun c' => iter_loop m fuel' c' ((k, v) :: acc))))
    end
  else Ok (rev acc).

Definition mto_string (m : omap) : res (option (list kv)) :=
  match m with
  | None => Ok None
  | Some t =>
    bind (mfirst m) (fun c =>
    bind (iter_loop m (S (count (root t))) c []) (fun l => Ok (Some l)))
  end.

(* ------------------------------------------------------------------ histories *)

Inductive istart : Type := IFirst | ILast | ISeek (k : K).
Inductive imove : Type := INext | IPrev | IReseek (k : K).

Inductive op : Type :=
| OSet (k : K) (v : V)
| ODelete (k : K)
| OClear
| OGetOK (k : K)
| OLen
| OKeys
| OString
| OIter (s : istart) (ms : list imove).      (* a fresh iterator, moved; observed after every step *)

Inductive out : Type :=
| RUnit
| RBool (b : bool)
| RGet (v : V) (ok : bool)
| RInt (z : Z)
| RKeys (ks : option (list K))
| RString (es : option (list kv))
| RIter (obs : list (bool * K * V))       (* IsValid, Key, Value after the start and after each move *)
| RFail (what : res unit).

Definition fail_of {A : Type} (r : res A) : out :=
  RFail (match r with Ok _ => Ok tt | Panic => Panic | OutOfFuel => OutOfFuel | BadOracle => BadOracle end).

Definition istart_run (m : omap) (s : istart) : res cursor :=
  match s with IFirst => mfirst m | ILast => mlast m | ISeek k => mseek m k end.

Definition imove_run (m : omap) (c : cursor) (mv : imove) : res cursor :=
  match mv with INext => inext m c | IPrev => iprev m c | IReseek k => iseek m k end.

Definition iobs (m : omap) (c : cursor) : res (bool * K * V) :=
  bind (ikey m c) (fun k => bind (ivalue m c) (fun v => Ok (ivalid c, k, v))).

Fixpoint imoves_run (m : omap) (c : cursor) (ms : list imove) : res (list (bool * K * V)) :=
  match ms with
  | [] => Ok []
  | mv :: ms' =>
    bind (imove_run m c mv) (fun c' =>
    bind (iobs m c') (fun o =>
    bind (imoves_run m c' ms') (fun os => Ok (o :: os))))
  end.

Definition iter_run (m : omap) (s : istart) (ms : list imove) : res (list (bool * K * V)) :=
  bind (istart_run m s) (fun c =>
  bind (iobs m c) (fun o =>
  bind (imoves_run m c ms) (fun os => Ok (o :: os)))).

(* a failing op leaves the map as it was *)
Definition step (m : omap) (o : op) : omap * out :=
  match o with
  | OSet k v => match mset m k v with Ok (m', b) => (m', RBool b) | r => (m, fail_of r) end
  | ODelete k => match mdelete m k with Ok (m', b) => (m', RBool b) | r => (m, fail_of r) end
  | OClear => (mclear m, RUnit)
  | OGetOK k => let '(v, ok) := mget_ok m k in (m, RGet v ok)
  | OLen => (m, RInt (mlen m))
  | OKeys => (m, match mkeys m with Ok ks => RKeys ks | r => fail_of r end)
  | OString => (m, match mto_string m with Ok es => RString es | r => fail_of r end)
  | OIter s ms => (m, match iter_run m s ms with Ok os => RIter os | r => fail_of r end)
  end.

Fixpoint run_from (m : omap) (ops : list op) : list out :=
  match ops with
  | [] => []
  | o :: r => let '(m', x) := step m o in x :: run_from m' r
  end.

End Omap.

Arguments OSet {K V} k v.
Arguments ODelete {K V} k.
Arguments OClear {K V}.
Arguments OGetOK {K V} k.
Arguments OLen {K V}.
Arguments OKeys {K V}.
Arguments OString {K V}.
Arguments OIter {K V} s ms.
Arguments IFirst {K}.
Arguments ILast {K}.
Arguments ISeek {K} k.
Arguments INext {K}.
Arguments IPrev {K}.
Arguments IReseek {K} k.
Arguments RUnit {K V}.
Arguments RBool {K V} b.
Arguments RGet {K V} v ok.
Arguments RInt {K V} z.
Arguments RKeys {K V} ks.
Arguments RString {K V} es.
Arguments RIter {K V} obs.
Arguments RFail {K V} what.
