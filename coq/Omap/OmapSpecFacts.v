(* The reference of C04 (OmapSpec.v) says what the property text says: laws of Set/Delete/Get on
   an ascending association list, a_seek is the least entry not less than the target, and the
   iterators enumerate exactly the entries, up from First or a seek position and down from Last,
   and then fall off.  Nothing here mentions the model. *)
From Coq Require Import ZArith List Bool Arith Lia.
Import ListNotations.
From Mds Require Import Stree.StreeModel Stree.StreeSpec Stree.StreeProofsSet Omap.OmapModel Omap.OmapSpec
  Omap.OmapProofs.
Local Open Scope Z_scope.

Section Facts.
Variables K V : Type.
Variable kcmp : K -> K -> Z.
Hypothesis HK : total_preorder kcmp.
Variable zk : K.
Variable zv : V.

Notation kv := (OmapModel.kv K V).
Notation cmpkv := (kvcmp K V kcmp).
Notation asorted := (sorted cmpkv).

(* what an iterator shows on an entry / off the entries *)
Definition ent (e : kv) : bool * K * V := (true, fst e, snd e).
Definition inval : bool * K * V := (false, zk, zv).

Lemma kflip : forall a b, (kcmp a b < 0 <-> kcmp b a > 0) /\ (kcmp a b = 0 <-> kcmp b a = 0) /\ (kcmp a b > 0 <-> kcmp b a < 0).
Proof. apply (StreeProofsSet.flip K kcmp HK). Qed.

Lemma krefl : forall a, kcmp a a = 0.
Proof. apply (StreeProofsSet.cmp_refl K kcmp HK). Qed.

Lemma keq_trans : forall a b c, kcmp a b = 0 -> kcmp b c = 0 -> kcmp a c = 0.
Proof.
  intros a b c H1 H2. destruct HK as [_ Tr].
  pose proof (Tr a b c ltac:(lia) ltac:(lia)).
  pose proof (kflip a b). pose proof (kflip b c). pose proof (kflip a c).
  pose proof (Tr c b a ltac:(lia) ltac:(lia)). lia.
Qed.

Lemma get_none_above : forall k (r : list kv), (forall y, In y r -> kcmp k (fst y) < 0) -> a_get K V kcmp zv k r = (zv, false).
Proof.
  intros k r H. unfold a_get. induction r as [|e r IH]; [reflexivity|]. cbn [find].
  pose proof (H e (or_introl eq_refl)). destruct (Z.eqb_spec (kcmp k (fst e)) 0); [lia|].
  apply IH. intros y Hy. apply H. right. exact Hy.
Qed.

(* ---- Set *)
Lemma a_set_get : forall k v l, a_get K V kcmp zv k (fst (a_set K V kcmp k v l)) = (v, true).
Proof.
  intros k v. induction l as [|e r IH]; cbn [a_set].
  - cbn [fst]. unfold a_get. cbn [find fst]. rewrite krefl. reflexivity.
  - destruct (Z.ltb_spec (kcmp k (fst e)) 0).
    + cbn [fst]. unfold a_get. cbn [find fst]. rewrite krefl. reflexivity.
    + destruct (Z.eqb_spec (kcmp k (fst e)) 0).
      * cbn [fst]. unfold a_get. cbn [find fst]. rewrite krefl. reflexivity.
      * destruct (a_set K V kcmp k v r) as [r' b] eqn:E. cbn [fst] in *. unfold a_get in *. cbn [find].
        destruct (Z.eqb_spec (kcmp k (fst e)) 0); [lia|]. exact IH.
Qed.

Lemma a_set_new : forall k v l, asorted l ->
  snd (a_set K V kcmp k v l) = negb (snd (a_get K V kcmp zv k l)).
Proof.
  intros k v. induction l as [|e r IH]; intros S; [reflexivity|]. destruct S as [S1 S2]. cbn [a_set].
  destruct (Z.ltb_spec (kcmp k (fst e)) 0).
  - rewrite get_none_above; [reflexivity|]. intros y [<-|Hy]; [assumption|].
    pose proof (S1 y Hy) as Hy'. unfold kvcmp in Hy'.
    apply (StreeProofsSet.lt_trans K kcmp HK k (fst e) (fst y)); assumption.
  - destruct (Z.eqb_spec (kcmp k (fst e)) 0) as [E0|N0].
    + unfold a_get. cbn [find]. rewrite E0. reflexivity.
    + destruct (a_set K V kcmp k v r) as [r' b] eqn:E. cbn [snd] in *. rewrite (IH S2).
      unfold a_get. cbn [find]. destruct (Z.eqb_spec (kcmp k (fst e)) 0); [lia|reflexivity].
Qed.

Lemma a_set_other : forall k v k' l, kcmp k' k <> 0 ->
  a_get K V kcmp zv k' (fst (a_set K V kcmp k v l)) = a_get K V kcmp zv k' l.
Proof.
  intros k v k' l N. induction l as [|e r IH]; cbn [a_set].
  - cbn [fst]. unfold a_get. cbn [find fst]. destruct (Z.eqb_spec (kcmp k' k) 0); [lia|reflexivity].
  - destruct (Z.ltb_spec (kcmp k (fst e)) 0).
    + cbn [fst]. unfold a_get. cbn [find fst]. destruct (Z.eqb_spec (kcmp k' k) 0); [lia|reflexivity].
    + destruct (Z.eqb_spec (kcmp k (fst e)) 0) as [E0|N0].
      * cbn [fst]. unfold a_get. cbn [find fst]. destruct (Z.eqb_spec (kcmp k' k) 0); [lia|].
        destruct (Z.eqb_spec (kcmp k' (fst e)) 0) as [E1|]; [|reflexivity].
        exfalso. apply N. apply (keq_trans k' (fst e) k E1). apply kflip. exact E0.
      * destruct (a_set K V kcmp k v r) as [r' b] eqn:E. cbn [fst] in *. unfold a_get in *. cbn [find].
        destruct (kcmp k' (fst e) =? 0); [reflexivity|exact IH].
Qed.

Lemma a_set_sorted : forall k v l, asorted l -> asorted (fst (a_set K V kcmp k v l)).
Proof.
  intros k v l S. rewrite (a_set_insert K V kcmp k v l).
  apply (StreeProofsSet.s_insert_sorted kv cmpkv (HP K V kcmp HK)). exact S.
Qed.

(* ---- Delete *)
Lemma a_delete_get : forall k l, asorted l -> a_get K V kcmp zv k (fst (a_delete K V kcmp k l)) = (zv, false).
Proof.
  intros k. induction l as [|e r IH]; intros S; [reflexivity|]. destruct S as [S1 S2]. cbn [a_delete].
  destruct (Z.ltb_spec (kcmp k (fst e)) 0).
  - cbn [fst]. apply get_none_above. intros y [<-|Hy]; [assumption|].
    pose proof (S1 y Hy) as Hy'. unfold kvcmp in Hy'.
    apply (StreeProofsSet.lt_trans K kcmp HK k (fst e) (fst y)); assumption.
  - destruct (Z.eqb_spec (kcmp k (fst e)) 0) as [E0|N0].
    + cbn [fst]. apply get_none_above. intros y Hy. pose proof (S1 y Hy) as Hy'. unfold kvcmp in Hy'.
      apply (StreeProofsSet.le_lt_trans K kcmp HK k (fst e) (fst y)); [lia|assumption].
    + destruct (a_delete K V kcmp k r) as [r' b] eqn:E. cbn [fst] in *. unfold a_get in *. cbn [find].
      destruct (Z.eqb_spec (kcmp k (fst e)) 0); [lia|]. apply IH. exact S2.
Qed.

Lemma a_delete_present : forall k l, asorted l ->
  snd (a_delete K V kcmp k l) = snd (a_get K V kcmp zv k l).
Proof.
  intros k. induction l as [|e r IH]; intros S; [reflexivity|]. destruct S as [S1 S2]. cbn [a_delete].
  destruct (Z.ltb_spec (kcmp k (fst e)) 0).
  - rewrite get_none_above; [reflexivity|]. intros y [<-|Hy]; [assumption|].
    pose proof (S1 y Hy) as Hy'. unfold kvcmp in Hy'.
    apply (StreeProofsSet.lt_trans K kcmp HK k (fst e) (fst y)); assumption.
  - destruct (Z.eqb_spec (kcmp k (fst e)) 0) as [E0|N0].
    + unfold a_get. cbn [find]. rewrite E0. reflexivity.
    + destruct (a_delete K V kcmp k r) as [r' b] eqn:E. cbn [snd] in *. rewrite (IH S2).
      unfold a_get. cbn [find]. destruct (Z.eqb_spec (kcmp k (fst e)) 0); [lia|reflexivity].
Qed.

Lemma a_delete_other : forall k k' l, kcmp k' k <> 0 ->
  a_get K V kcmp zv k' (fst (a_delete K V kcmp k l)) = a_get K V kcmp zv k' l.
Proof.
  intros k k' l N. induction l as [|e r IH]; [reflexivity|]. cbn [a_delete].
  destruct (Z.ltb_spec (kcmp k (fst e)) 0); [reflexivity|].
  destruct (Z.eqb_spec (kcmp k (fst e)) 0) as [E0|N0].
  - cbn [fst]. unfold a_get. cbn [find].
    destruct (Z.eqb_spec (kcmp k' (fst e)) 0) as [E1|]; [|reflexivity].
    exfalso. apply N. apply (keq_trans k' (fst e) k E1). apply kflip. exact E0.
  - destruct (a_delete K V kcmp k r) as [r' b] eqn:E. cbn [fst] in *. unfold a_get in *. cbn [find].
    destruct (kcmp k' (fst e) =? 0); [reflexivity|exact IH].
Qed.

(* ---- Seek: the least entry not less than k *)
Lemma a_seek_from_least : forall k (l : list kv) i,
  match a_seek_from K V kcmp k l i with
  | Some j => (i <= j)%nat /\ (exists e, nth_error l (j - i) = Some e /\ ~ kcmp (fst e) k < 0) /\
              (forall n e, (n < j - i)%nat -> nth_error l n = Some e -> kcmp (fst e) k < 0)
  | None => forall e, In e l -> kcmp (fst e) k < 0
  end.
Proof.
  intros k. induction l as [|e r IH]; intros i; cbn [a_seek_from].
  - intros e [].
  - destruct (Z.ltb_spec (kcmp (fst e) k) 0) as [Lt|Ge].
    + specialize (IH (S i)). destruct (a_seek_from K V kcmp k r (S i)) as [j|].
      * destruct IH as (H1 & (x & Hx & Hx') & H3). split; [lia|]. split.
        -- exists x. replace (j - i)%nat with (S (j - S i)) by lia. cbn [nth_error]. auto.
        -- intros n y Hn Hy. destruct n as [|n]; cbn [nth_error] in Hy.
           ++ inversion Hy; subst. exact Lt.
           ++ apply (H3 n y); [lia|exact Hy].
      * intros y [<-|Hy]; [exact Lt|apply IH; exact Hy].
    + split; [lia|]. rewrite Nat.sub_diag. split.
      * exists e. split; [reflexivity|lia].
      * intros n y Hn. lia.
Qed.

Theorem a_seek_least : forall k (l : list kv),
  match a_seek K V kcmp k l with
  | Some j => (exists e, nth_error l j = Some e /\ ~ kcmp (fst e) k < 0) /\
              (forall n e, (n < j)%nat -> nth_error l n = Some e -> kcmp (fst e) k < 0)
  | None => forall e, In e l -> kcmp (fst e) k < 0
  end.
Proof.
  intros k l. unfold a_seek. pose proof (a_seek_from_least k l 0) as H.
  destruct (a_seek_from K V kcmp k l 0) as [j|]; [|exact H].
  rewrite Nat.sub_0_r in H. destruct H as (_ & H2 & H3). split; assumption.
Qed.

(* ---- enumeration *)
Lemma skipn_nth : forall (A : Type) (l : list A) j e, nth_error l j = Some e -> skipn j l = e :: skipn (S j) l.
Proof.
  intros A l j. revert l. induction j as [|j IH]; intros [|a l] e H; try discriminate.
  - inversion H; subst. reflexivity.
  - cbn [nth_error] in H. cbn [skipn]. apply IH. exact H.
Qed.

Lemma firstn_S_nth : forall (A : Type) (l : list A) j e, nth_error l j = Some e -> firstn (S j) l = firstn j l ++ [e].
Proof.
  intros A l j. revert l. induction j as [|j IH]; intros [|a l] e H; try discriminate.
  - inversion H; subst. reflexivity.
  - cbn [nth_error] in H. cbn [firstn app]. f_equal. apply IH. exact H.
Qed.

Lemma a_obs_at : forall (l : list kv) j e, nth_error l j = Some e -> a_obs K V zk zv l (Some j) = ent e.
Proof. intros l j e H. cbn [a_obs]. rewrite H. reflexivity. Qed.

(* from index j, Next until the end shows the entries j.. in order, then invalid *)
Lemma upward : forall (l : list kv) d j, (j < length l)%nat -> d = (length l - j)%nat ->
  a_obs K V zk zv l (Some j) :: a_moves K V kcmp zk zv l (Some j) (repeat INext d) = map ent (skipn j l) ++ [inval].
Proof.
  intros l. induction d as [|d IH]; intros j Hj Hd; [lia|].
  destruct (nth_error l j) as [e|] eqn:E; [|apply nth_error_None in E; lia].
  rewrite (a_obs_at l j e E), (skipn_nth _ l j e E). cbn [repeat a_moves a_move a_next map app]. f_equal.
  destruct (Nat.ltb_spec (S j) (length l)) as [Lt|Ge].
  - apply IH; lia.
  - assert (d = 0)%nat by lia. subst d. cbn [repeat a_moves a_obs]. rewrite skipn_all2 by lia. reflexivity.
Qed.

(* from index j, Prev until the start shows the entries j, j-1, .., 0, then invalid *)
Lemma downward : forall (l : list kv) j, (j < length l)%nat ->
  a_obs K V zk zv l (Some j) :: a_moves K V kcmp zk zv l (Some j) (repeat IPrev (S j)) =
  map ent (rev (firstn (S j) l)) ++ [inval].
Proof.
  intros l. induction j as [|j IH]; intros Hj.
  - destruct (nth_error l 0) as [e|] eqn:E; [|apply nth_error_None in E; lia].
    rewrite (a_obs_at l 0 e E). destruct l as [|a l]; [discriminate|]. cbn in E. inversion E; subst. reflexivity.
  - destruct (nth_error l (S j)) as [e|] eqn:E; [|apply nth_error_None in E; lia].
    rewrite (a_obs_at l (S j) e E), (firstn_S_nth _ l (S j) e E), rev_app_distr.
    cbn [rev app map]. f_equal.
    change (repeat IPrev (S (S j))) with (@IPrev K :: repeat IPrev (S j)).
    cbn [a_moves a_move a_prev]. apply IH. lia.
Qed.

(* First, then Next as often as there are entries: exactly the entries in ascending order, then invalid *)
Theorem iter_forward : forall l : list kv,
  a_iter K V kcmp zk zv l IFirst (repeat INext (length l)) = map ent l ++ [inval].
Proof.
  intros [|e r]; [reflexivity|]. unfold a_iter. cbn [a_start a_first].
  apply (upward (e :: r) (length (e :: r)) 0); cbn [length]; lia.
Qed.

(* Last, then Prev as often as there are entries: exactly the entries in descending order, then invalid *)
Theorem iter_backward : forall l : list kv,
  a_iter K V kcmp zk zv l ILast (repeat IPrev (length l)) = map ent (rev l) ++ [inval].
Proof.
  intros [|e r]; [reflexivity|]. unfold a_iter. cbn [a_start a_last length pred].
  rewrite (downward (e :: r) (length r)) by (cbn [length]; lia).
  change (S (length r)) with (length (e :: r)). rewrite firstn_all. reflexivity.
Qed.

(* Seek k, then Next to the end: exactly the entries from the least one not less than k, ascending,
   then invalid; invalid at once when every key is less than k.  Prev from the seek position walks
   down from that entry through all smaller ones. *)
Theorem iter_from_seek : forall k (l : list kv),
  match a_seek K V kcmp k l with
  | Some j =>
    (j < length l)%nat /\
    a_iter K V kcmp zk zv l (ISeek k) (repeat INext (length l - j)) = map ent (skipn j l) ++ [inval] /\
    a_iter K V kcmp zk zv l (ISeek k) (repeat IPrev (S j)) = map ent (rev (firstn (S j) l)) ++ [inval]
  | None => a_iter K V kcmp zk zv l (ISeek k) [] = [inval]
  end.
Proof.
  intros k l. pose proof (a_seek_least k l) as H. unfold a_iter. cbn [a_start].
  destruct (a_seek K V kcmp k l) as [j|]; [|reflexivity].
  destruct H as ((e & He & _) & _).
  assert (Hj : (j < length l)%nat) by (apply nth_error_Some; congruence).
  split; [exact Hj|]. split; [apply upward; [exact Hj|reflexivity]|apply downward; exact Hj].
Qed.

(* the laws bundled as they are stated in Props/C04.v *)
Theorem ref_set : forall k v l, asorted l ->
  snd (a_set K V kcmp k v l) = negb (snd (a_get K V kcmp zv k l)) /\
  a_get K V kcmp zv k (fst (a_set K V kcmp k v l)) = (v, true) /\
  (forall k', kcmp k' k <> 0 -> a_get K V kcmp zv k' (fst (a_set K V kcmp k v l)) = a_get K V kcmp zv k' l) /\
  asorted (fst (a_set K V kcmp k v l)).
Proof.
  intros k v l S. split; [apply a_set_new; assumption|]. split; [apply a_set_get|].
  split; [intros; apply a_set_other; assumption|apply a_set_sorted; assumption].
Qed.

Theorem ref_delete : forall k l, asorted l ->
  snd (a_delete K V kcmp k l) = snd (a_get K V kcmp zv k l) /\
  a_get K V kcmp zv k (fst (a_delete K V kcmp k l)) = (zv, false) /\
  (forall k', kcmp k' k <> 0 -> a_get K V kcmp zv k' (fst (a_delete K V kcmp k l)) = a_get K V kcmp zv k' l).
Proof.
  intros k l S. split; [apply a_delete_present; assumption|]. split; [apply a_delete_get; assumption|].
  intros; apply a_delete_other; assumption.
Qed.

Theorem ref_enumerate : forall l : list kv,
  a_iter K V kcmp zk zv l IFirst (repeat INext (length l)) = map ent l ++ [inval] /\
  a_iter K V kcmp zk zv l ILast (repeat IPrev (length l)) = map ent (rev l) ++ [inval].
Proof. intros. split; [apply iter_forward|apply iter_backward]. Qed.

End Facts.
