(* The omaptrace line format, interpreted in Gallina.  DEFINITIONS ONLY.

   bin/incoq-cursor turns sampled omaptrace lines (input and the IMPLEMENTATION's recorded output)
   into goals  [run_trace_int cmp zero ops = <recorded items>]  decided by vm_compute inside Coq, so
   that the omap model is compared with the Go package without extraction, OCaml or the driver in
   between.  The register machine mirrors harness/cmd/omaptrace: up to four iterator registers; an
   iterator op on a register positioned before the last edit is not executed ("stale"), except
   Iter.Seek, which re-synchronizes; a panic (Set on the zero Map) ends the case.
   Two instances: Map[int,int] (keys, values : Z) and Map[string,string] (byte lists). *)
From Coq Require Import ZArith List Bool.
Import ListNotations.
From Mds Require Import Stree.StreeModel Stree.HeightModel Stree.CursorModel Stree.CursorTrace Omap.OmapModel.
Local Open Scope Z_scope.

Section Trace.
Variables K V : Type.
Variable kcmp : K -> K -> Z.
Variable limit : Z -> Z -> Z.          (* the tree's depth limit; the replay instances use HeightModel.limit_capped *)
Variable zk : K.
Variable zv : V.

Inductive top : Type :=
| TSet (k : K) (v : V) | TDelete (k : K) | TClear | TGet (k : K) | TLen | TKeys | TString
| TFirst (r : nat) | TLast (r : nat) | TSeek (r : nat) (k : K) | TReseek (r : nat) (k : K)
| TNext (r : nat) | TPrev (r : nat) | TSweepNext (r : nat) | TSweepPrev (r : nat).

Inductive titem : Type :=
| XBool (b : bool) | XUnit | XGet (get : V) (v : V) (ok : bool) | XLen (n : Z)
| XKeys (ks : option (list K)) | XString (es : list (K * V))
| XRegs (rs : list (option (bool * K * V))) | XSweep (es : list (K * V)) (still_valid : bool)
| XStale | XPanic | XFail.

Notation omap := (OmapModel.omap K V).
Record mstate : Type := mkM { mm : omap; regs : list (option cursor); fresh : list bool; used : nat }.

Fixpoint set_nth {A : Type} (r : nat) (a : A) (l : list A) : list A :=
  match r, l with
  | O, _ :: rest => a :: rest
  | S r', x :: rest => x :: set_nth r' a rest
  | _, [] => []
  end.

Definition obs1 (m : omap) (c : option cursor) (f : bool) : res (option (bool * K * V)) :=
  match c, f with
  | Some cu, true =>
    bind (ikey K V zk zv m cu) (fun k => bind (ivalue K V zk zv m cu) (fun v => Ok (Some (ivalid cu, k, v))))
  | _, _ => Ok None
  end.

Fixpoint obs_all (m : omap) (cs : list (option cursor)) (fs : list bool) : res (list (option (bool * K * V))) :=
  match cs, fs with
  | c :: cr, f :: fr => bind (obs1 m c f) (fun o => bind (obs_all m cr fr) (fun os => Ok (o :: os)))
  | _, _ => Ok []
  end.

Definition state (s : mstate) : res titem :=
  bind (obs_all (mm s) (firstn (used s) (regs s)) (firstn (used s) (fresh s))) (fun os => Ok (XRegs os)).

Definition no_fresh : list bool := [false; false; false; false].
(* after an edit every register is stale *)
Definition all_stale (fs : list bool) : list bool := map (fun _ => false) fs.

(* for step := 0; it.IsValid() && step < Len+2; step++ { es = append(es, (Key, Value)); it.Next()/Prev() } *)
Fixpoint sweep (m : omap) (fwd : bool) (fuel : nat) (c : cursor) (acc : list (K * V)) : res (cursor * list (K * V)) :=
  match fuel with
  | O => Ok (c, rev acc)
  | S fuel' =>
    if ivalid c then
      bind (ikey K V zk zv m c) (fun k => bind (ivalue K V zk zv m c) (fun v =>
      bind (if fwd then inext K V m c else iprev K V m c) (fun c' => sweep m fwd fuel' c' ((k, v) :: acc))))
    else Ok (c, rev acc)
  end.

(* place a freshly positioned iterator in register r (F, L, S touch the register; e does not) *)
Definition place (s : mstate) (r : nat) (touch : bool) (c : cursor) : res (mstate * titem) :=
  let s' := mkM (mm s) (set_nth r (Some c) (regs s)) (set_nth r true (fresh s))
                (if touch then Nat.max (used s) (S r) else used s) in
  bind (state s') (fun it => Ok (s', it)).

(* None: the case ends here (panic) *)
Definition do_op (s : mstate) (o : top) : res (option mstate * titem) :=
  let m := mm s in
  match o with
  | TSet k v =>
    match mset K V kcmp limit m k v with
    | Ok (m', b) => Ok (Some (mkM m' (regs s) (all_stale (fresh s)) (used s)), XBool b)
    | Panic => Ok (None, XPanic)
    | OutOfFuel => OutOfFuel
    | BadOracle => BadOracle
    end
  | TDelete k =>
    bind (mdelete K V kcmp zv m k) (fun '(m', b) => Ok (Some (mkM m' (regs s) (all_stale (fresh s)) (used s)), XBool b))
  | TClear => Ok (Some (mkM (mclear K V m) (regs s) (all_stale (fresh s)) (used s)), XUnit)
  | TGet k => let '(v, ok) := mget_ok K V kcmp zv m k in Ok (Some s, XGet (mget K V kcmp zv m k) v ok)
  | TLen => Ok (Some s, XLen (mlen K V m))
  | TKeys => bind (mkeys K V m) (fun ks => Ok (Some s, XKeys ks))
  | TString => bind (mto_string K V zk zv m) (fun es => Ok (Some s, XString (match es with Some l => l | None => [] end)))
  | TFirst r => bind (mfirst K V m) (fun c => bind (place s r true c) (fun '(s', it) => Ok (Some s', it)))
  | TLast r => bind (mlast K V m) (fun c => bind (place s r true c) (fun '(s', it) => Ok (Some s', it)))
  | TSeek r k => bind (mseek K V kcmp zv m k) (fun c => bind (place s r true c) (fun '(s', it) => Ok (Some s', it)))
  | TReseek r k =>
    match nth r (regs s) None with
    | None => Ok (Some s, XStale)
    | Some _ => bind (iseek K V kcmp zv m k) (fun c => bind (place s r false c) (fun '(s', it) => Ok (Some s', it)))
    end
  | TNext r | TPrev r =>
    match nth r (regs s) None, nth r (fresh s) false with
    | Some cu, true =>
      bind (match o with TNext _ => inext K V m cu | _ => iprev K V m cu end) (fun c =>
      let s' := mkM m (set_nth r (Some c) (regs s)) (fresh s) (used s) in
      bind (state s') (fun it => Ok (Some s', it)))
    | _, _ => Ok (Some s, XStale)
    end
  | TSweepNext r | TSweepPrev r =>
    match nth r (regs s) None, nth r (fresh s) false with
    | Some cu, true =>
      bind (sweep m (match o with TSweepNext _ => true | _ => false end) (Z.to_nat (mlen K V m) + 2) cu []) (fun '(c, es) =>
      Ok (Some (mkM m (set_nth r (Some c) (regs s)) (fresh s) (used s)), XSweep es (ivalid c)))
    | _, _ => Ok (Some s, XStale)
    end
  end.

Fixpoint run_ops (s : mstate) (ops : list top) : list titem :=
  match ops with
  | [] => []
  | o :: rest =>
    match do_op s o with
    | Ok (Some s', it) => it :: run_ops s' rest
    | Ok (None, it) => [it]
    | _ => [XFail]
    end
  end.

Definition run_trace (zero : bool) (ops : list top) : list titem :=
  match (if zero then Ok (zero_map K V) else new_func K V kcmp) with
  | Ok m => run_ops (mkM m [None; None; None; None] no_fresh O) ops
  | _ => [XFail]
  end.

End Trace.

Arguments TSet {K V} k v.
Arguments TDelete {K V} k.
Arguments TClear {K V}.
Arguments TGet {K V} k.
Arguments TLen {K V}.
Arguments TKeys {K V}.
Arguments TString {K V}.
Arguments TFirst {K V} r.
Arguments TLast {K V} r.
Arguments TSeek {K V} r k.
Arguments TReseek {K V} r k.
Arguments TNext {K V} r.
Arguments TPrev {K V} r.
Arguments TSweepNext {K V} r.
Arguments TSweepPrev {K V} r.
Arguments XBool {K V} b.
Arguments XUnit {K V}.
Arguments XGet {K V} get v ok.
Arguments XLen {K V} n.
Arguments XKeys {K V} ks.
Arguments XString {K V} es.
Arguments XRegs {K V} rs.
Arguments XSweep {K V} es still_valid.
Arguments XStale {K V}.
Arguments XPanic {K V}.
Arguments XFail {K V}.

(* ------------------------------------------------------------------ the two instances *)

Definition icmp_of := CursorTrace.cmp_of.
Definition run_trace_int (cmp : Z -> Z -> Z) (zero : bool) (ops : list (top Z Z)) : list (titem Z Z) :=
  run_trace Z Z cmp HeightModel.limit_capped 0 0 zero ops.

(* strings are byte lists; Go compares strings byte-wise *)
Definition bytes : Type := list Z.

Fixpoint bytewise (a b : bytes) : Z :=
  match a, b with
  | [], [] => 0
  | [], _ :: _ => - Z.of_nat (length b)
  | _ :: _, [] => Z.of_nat (length a)
  | x :: a', y :: b' => if x =? y then bytewise a' b' else x - y
  end.

Definition first_byte (a : bytes) : Z := match a with [] => 0 | x :: _ => x end.
Definition blen (a : bytes) : Z := Z.of_nat (length a).

Inductive scmpcode : Type := SCmpN | SCmpR | SCmpL | SCmpLr | SCmpB | SCmpBr | SCmpF.

Definition scmp_of (c : scmpcode) (a b : bytes) : Z :=
  match c with
  | SCmpN => Z.sgn (bytewise a b)
  | SCmpR => Z.sgn (bytewise b a)
  | SCmpL => blen a - blen b
  | SCmpLr => blen b - blen a
  | SCmpB => bytewise a b
  | SCmpBr => bytewise b a
  | SCmpF => first_byte a - first_byte b
  end.

Definition run_trace_str (cmp : bytes -> bytes -> Z) (zero : bool) (ops : list (top bytes bytes)) : list (titem bytes bytes) :=
  run_trace bytes bytes cmp HeightModel.limit_capped [] [] zero ops.
