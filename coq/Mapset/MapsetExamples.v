(* Helpers for the worked Examples of Props/C18.v (definitions only).  The examples are there to
   show that the hypotheses of the theorems are satisfiable by concrete non-trivial states, so
   they must not pin choices the Go source is free to make differently (which operand a loop
   ranges over, in which order keys are stored): iteration orders are computed by the model
   itself ([canon_ops], [intersect_order], [intersects_order]) and results are compared through
   order-insensitive summaries ([out_summary]). *)
From Coq Require Import ZArith List Bool.
Import ListNotations.
From Mds Require Import Mapset.MapsetModel.
Local Open Scope Z_scope.

Section Canon.
Variable T : Type.
Variable eqb : T -> T -> bool.
Variable zero : T.

(* the history with every iteration order filled in by a legal one (the key list of whatever the
   model ranges over in the state the operation is executed in) *)
Fixpoint canon_ops (st : store T) (next : positive) (ops : list (op T)) : list (op T) :=
  match ops with
  | [] => []
  | o :: r => let o' := canonical_order T st o in o' :: canon_ops (fst (step T eqb zero st next o')) (bump next) r
  end.

Definition intersect_order (ss : list (gomap T)) : list T :=
  match intersect_operand T ss with Ok m => m_keys T m | _ => [] end.
Definition intersects_order (s t : gomap T) : list T := m_keys T (fst (intersects_operands T s t)).
End Canon.

Fixpoint zinsert (x : Z) (l : list Z) : list Z :=
  match l with [] => [x] | y :: r => if Z.leb x y then x :: l else y :: zinsert x r end.
Definition zsort (l : list Z) : list Z := fold_right zinsert [] l.

(* kind tag, then the contents sorted: independent of stored key order and of addresses *)
Definition out_summary (o : out Z) : list Z :=
  match o with
  | RSet _ None => [0]
  | RSet _ (Some (_, l)) => 1 :: zsort l
  | RBool _ b => [2; b2z b]
  | RInt _ z => [3; z]
  | RElem _ x => [4; x]
  | RSlice _ None => [5]
  | RSlice _ (Some l) => 6 :: zsort l
  | RPanicNilFunc _ => [7]
  | RBadOrder _ => [-1]
  | _ => [-2]
  end.
Definition keys_sorted (m : gomap Z) : list Z := zsort (m_keys Z m).
Definition is_badorder (o : out Z) : bool := match o with RBadOrder _ => true | _ => false end.
