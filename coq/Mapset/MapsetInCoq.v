(* Support for bin/incoq-mapset (definitions only): the observations of one trace line computed
   inside Coq — [trace_obs] from the model (orders filled in exactly as ocaml/mapset_driver.ml
   does), [ref_obs] from the reference on mathematical sets alone — as lists of integers that the
   script compares, by vm_compute, with the same encoding of the implementation's recorded
   output.  No extracted code is involved. *)
From Coq Require Import ZArith List Bool.
Import ListNotations.
From Mds Require Import Mapset.MapsetModel Mapset.MapsetSpec Mapset.MapsetExamples.
Local Open Scope Z_scope.

Definition fill (st : store Z) (o : op Z) : op Z :=
  match o with
  | OPop _ i (x :: _) =>
    OPop Z i (match m_keys Z (st i) with [] => [] | keys => x :: filter (fun y => negb (Z.eqb y x)) keys end)
  | OSlice _ _ _ | OAppend _ _ _ _ => o
  | _ => canonical_order Z st o
  end.

Fixpoint find_var (st : store Z) (p : Z) (j k : nat) : Z :=     (* the first of v_j … v_(j+k-1) at address p, else -3 (old) *)
  match k with
  | O => -3
  | S k' => if Z.eqb (m_ptr Z (st j)) p then Z.of_nat j else find_var st p (S j) k'
  end.
(* -1 nil, -2 new, -3 old, j: the map variable j held before the call *)
Definition ident_code (k : nat) (st0 : store Z) (next : positive) (m : gomap Z) : Z :=
  match m with
  | None => -1
  | Some (p, _) => if Z.leb (Zpos next) (Zpos p) then -2 else find_var st0 (Zpos p) 0 k
  end.

Definition target_of (o : op Z) : nat := target Z o.
Definition prefix_len (o : op Z) : nat := match o with OAppend _ _ vs _ => length (sl_elems Z vs) | _ => 0%nat end.

Definition res_obs (k : nat) (st0 : store Z) (next : positive) (st1 : store Z) (o : op Z) (x : out Z) : list Z :=
  match x with
  | RSet _ m => [10; ident_code k st0 next m; b2z (Z.eqb (m_ptr Z (st1 (target_of o))) (m_ptr Z m))]
  | RBool _ b => [11; b2z b]
  | RInt _ z => [12; z]
  | RElem _ e => [13; e]
  | RSlice _ None => [14]
  | RSlice _ (Some l) => 15 :: Z.of_nat (prefix_len o) :: firstn (prefix_len o) l ++ zsort (skipn (prefix_len o) l)
  | RPanicNilFunc _ => [16]
  | RBadOrder _ => [-1]
  | _ => [-2]
  end.

Definition unres {A : Type} (d : A) (r : res A) : A := match r with Ok a => a | _ => d end.

(* nil: [0]; else 1, Len, IsEmpty, the first variable sharing the map, Has over 0..7, sorted keys *)
Definition dump_obs (st : store Z) (i : nat) : list Z :=
  match st i with
  | None => [0]
  | Some (p, l) =>
    [1; unres (-1) (Len Z (st i)); b2z (unres false (IsEmpty Z (st i))); find_var st (Zpos p) 0 (S i)]
    ++ map (fun x => b2z (unres false (Has Z Z.eqb (st i) x))) [0;1;2;3;4;5;6;7] ++ zsort l
  end.

Fixpoint trace_obs (k : nat) (st : store Z) (next : positive) (ops : list (op Z)) : list (list Z * list (list Z)) :=
  match ops with
  | [] => []
  | o :: r =>
    let o' := fill st o in
    let '(st1, x) := step Z Z.eqb 0 st next o' in
    (res_obs k st next st1 o' x, map (dump_obs st1) (seq 0 k)) :: trace_obs k st1 (bump next) r
  end.

(* the reference's side: results without identity, variables as sorted member lists *)
Definition sres_obs (so : sout Z) : list Z :=
  match so with
  | SSet _ _ => [10]
  | SBool _ b => [11; b2z b]
  | SInt _ z => [12; z]
  | SElem _ e => [13; e]
  | SList _ pre A => 15 :: Z.of_nat (length pre) :: pre ++ zsort A
  | SBadChoice _ => [-1]
  | SPanicNilFunc _ => [16]
  end.
Fixpoint ref_obs (k : nat) (sst : sstore Z) (ops : list (op Z)) : list (list Z * list (list Z)) :=
  match ops with
  | [] => []
  | o :: r =>
    let '(sst1, so) := sstep Z Z.eqb 0 sst o in
    (sres_obs so, map (fun i => zsort (sst1 i)) (seq 0 k)) :: ref_obs k sst1 r
  end.
