(* Proofs about MapsetModel, part 2: the mutators, Pop, Append/Slice, Intersect and the
   collecting constructors, again for every iteration order and all nil/empty operands. *)
From Coq Require Import ZArith List Bool Lia Permutation.
Import ListNotations.
From Mds Require Import Gen.MapsetFacts Mapset.MapsetModel Mapset.MapsetProofs.
Local Open Scope Z_scope.

Section ProofsMut.
Variable T : Type.
Variable eqb : T -> T -> bool.
Variable zero : T.
Hypothesis eqb_spec : forall x y, eqb x y = true <-> x = y.

Notation gomap := (gomap T).
Notation m_keys := (m_keys T).
Notation m_len := (m_len T).
Notation wf := (wf T).
Notation has := (has T).

(* AddAll: the receiver's address (the fresh one for a nil receiver, never the argument's), the union *)
Theorem AddAll_spec : forall s t fresh ord, wf s -> wf t ->
  match AddAll T eqb s t fresh ord with
  | Ok r => exists l, r = Some (addr_or T s fresh, l) /\ NoDup l /\ forall y, In y l <-> has s y \/ has t y
  | BadOrder => s <> None /\ valid_order T eqb ord t = false
  | _ => False
  end.
Proof.
  intros s t fresh ord Hs Ht. unfold AddAll. rewrite guarded_ok by reflexivity. unfold addall_nil, m_range.
  destruct s as [[p l0]|]; cbn [m_ptr nil_ptr Z.eqb addr_or].
  - destruct (valid_order T eqb ord t) eqn:V; [|split; [discriminate | reflexivity]].
    destruct (valid_order_sound T eqb eqb_spec _ _ Ht V) as [_ [M _]].
    destruct (add_loop_spec T eqb eqb_spec ord p l0) as [l [E [M1 N1]]]. rewrite E. cbn [bind]. rewrite ret2_fst by reflexivity.
    exists l. split; [reflexivity|]. split; [apply N1; exact Hs|].
    intro y. rewrite M1, M. unfold MapsetProofs.has. cbn [MapsetModel.m_keys]. tauto.
  - rewrite ret2_fst by reflexivity. rewrite Clone_spec. cbn [bind]. rewrite ret2_fst by reflexivity.
    exists (m_keys t). split; [reflexivity|].
    split; [exact Ht|]. intro y. unfold MapsetProofs.has. cbn [MapsetModel.m_keys In]. tauto.
Qed.

Lemma m_delete_ptr : forall s x, m_ptr T (m_delete T eqb s x) = m_ptr T s.
Proof. intros s x. destruct s as [[p l]|]; reflexivity. Qed.

Lemma remove_loop_spec : forall items s,
  (forall y, has (remove_loop T eqb s items) y <-> has s y /\ ~ In y items) /\
  (wf s -> wf (remove_loop T eqb s items)) /\
  (remove_loop T eqb s items = None <-> s = None) /\
  m_ptr T (remove_loop T eqb s items) = m_ptr T s.
Proof.
  induction items as [|x r IH]; intro s; cbn [remove_loop].
  - split; [|split; [|split]]; [intro y; cbn [In]; tauto | auto | tauto | reflexivity].
  - unfold remove_break, remove_ncalls_delete, called. cbn [Z.eqb Pos.eqb].
    destruct (Z.eqb (m_len s) 0) eqn:E.
    + apply (m_len_zero T) in E. split; [|split; [|split]]; [|auto|tauto|reflexivity].
      intro y. unfold MapsetProofs.has. rewrite E. cbn [In]. tauto.
    + destruct (IH (m_delete T eqb s x)) as [M [W [N P]]].
      destruct (m_delete_spec T eqb eqb_spec s x) as [M1 [W1 N1]].
      split; [|split; [|split]]; [| | |rewrite P; apply m_delete_ptr].
      * intro y. rewrite M, M1. cbn [In]. split.
        -- intros [[H1 H2] H3]. split; [exact H1|]. intros [H|H]; [subst; apply H2; reflexivity | contradiction].
        -- intros [H1 H2]. split; [split; [exact H1|]|]; intro H; apply H2; [left; subst; reflexivity | right; exact H].
      * intro H. apply W. apply W1. exact H.
      * rewrite N. exact N1.
Qed.

(* Remove: returns its receiver (same address; nil stays nil) without the items *)
Theorem Remove_spec : forall s items, exists r, Remove T eqb s items = Ok r /\
  (forall y, has r y <-> has s y /\ ~ In y items) /\
  (wf s -> wf r) /\ (r = None <-> s = None) /\ m_ptr T r = m_ptr T s.
Proof.
  intros. unfold Remove. rewrite guarded_ok by reflexivity. rewrite ret1_ok by reflexivity.
  eexists. split; [reflexivity|]. apply remove_loop_spec.
Qed.

(* the loop of RemoveAll, whether or not the two operands are one map: an item that is no
   longer in s is skipped (alias) or deleted without effect (no alias) — the same thing *)
Lemma m_delete_absent : forall s x, wf s -> ~ has s x -> m_delete T eqb s x = s.
Proof.
  intros s x W H. destruct s as [[p l]|]; [|reflexivity]. cbn [m_delete]. f_equal. f_equal.
  unfold MapsetProofs.has in H. cbn [MapsetModel.m_keys] in H. clear W.
  induction l as [|a r IH]; [reflexivity|]. cbn [filter].
  destruct (eqb x a) eqn:E; cbn [negb].
  - apply eqb_spec in E. subst. exfalso. apply H. left. reflexivity.
  - f_equal. apply IH. intro K. apply H. right. exact K.
Qed.

Lemma removeall_loop_eq : forall alias items s, wf s -> removeall_loop T eqb alias s items = remove_loop T eqb s items.
Proof.
  intros alias. induction items as [|x r IH]; intros s W; cbn [removeall_loop remove_loop]; [reflexivity|].
  change (removeall_break (m_len s)) with (remove_break (m_len s)).
  change removeall_ncalls_delete with remove_ncalls_delete.
  destruct (alias && negb (m_get T eqb s x)) eqn:A.
  - apply andb_true_iff in A. destruct A as [_ A]. apply negb_true_iff in A.
    assert (Hx : ~ has s x) by (intro K; apply (m_get_has T eqb eqb_spec) in K; congruence).
    destruct (remove_break (m_len s)) eqn:B.
    + (* the map is empty: the rest of the loop deletes nothing *)
      clear IH. unfold remove_break in B. apply (m_len_zero T) in B.
      assert (G : forall items' , removeall_loop T eqb alias s items' = s).
      { induction items' as [|y r' IH']; cbn [removeall_loop]; [reflexivity|].
        destruct (alias && negb (m_get T eqb s y)); [exact IH'|].
        unfold removeall_break. replace (Z.eqb (m_len s) 0) with true; [reflexivity|]. symmetry. apply (m_len_zero T). exact B. }
      apply G.
    + unfold called. cbn [Z.eqb Pos.eqb]. rewrite (m_delete_absent s x W Hx). apply IH. exact W.
  - destruct (remove_break (m_len s)); [reflexivity|]. apply IH.
    unfold called. cbn [Z.eqb Pos.eqb]. apply (m_delete_spec T eqb eqb_spec). exact W.
Qed.

(* RemoveAll: returns its receiver (same address) without the members of t — also when t IS s *)
Theorem RemoveAll_spec : forall s t ord, wf s -> wf t ->
  match RemoveAll T eqb s t ord with
  | Ok r => (forall y, has r y <-> has s y /\ ~ has t y) /\ wf r /\ (r = None <-> s = None) /\ m_ptr T r = m_ptr T s
  | BadOrder => valid_order T eqb ord t = false
  | _ => False
  end.
Proof.
  intros s t ord Hs Ht. unfold RemoveAll. rewrite guarded_ok by reflexivity. unfold m_range.
  destruct (valid_order T eqb ord t) eqn:V; [|reflexivity].
  destruct (valid_order_sound T eqb eqb_spec _ _ Ht V) as [_ [M _]].
  rewrite ret2_fst by reflexivity.
  rewrite removeall_loop_eq by exact Hs. destruct (remove_loop_spec ord s) as [M1 [W1 [N1 P1]]].
  split; [|split; [apply W1; exact Hs | split; assumption]]. intro y. rewrite M1, M. tauto.
Qed.

Lemma filter_remove_length : forall (l : list T) x, NoDup l -> In x l ->
  (length (filter (fun y => negb (eqb x y)) l) + 1 = length l)%nat.
Proof.
  induction l as [|a r IH]; intros x Hnd Hin; [destruct Hin|].
  inversion Hnd as [|? ? Hna Hr]; subst. cbn [filter length].
  destruct Hin as [E|Hin].
  - subst a. rewrite (eqb_refl T eqb eqb_spec). cbn [negb].
    assert (F : filter (fun y => negb (eqb x y)) r = r).
    { clear IH Hnd. induction r as [|b r' IH']; [reflexivity|]. cbn [filter].
      inversion Hr; subst.
      destruct (eqb x b) eqn:E; cbn [negb].
      - apply eqb_spec in E. subst. exfalso. apply Hna. left. reflexivity.
      - f_equal. apply IH'; [|assumption]. intro H. apply Hna. right. exact H. }
    rewrite F. lia.
  - destruct (eqb x a) eqn:E; cbn [negb].
    + apply eqb_spec in E. subst. contradiction.
    + cbn [length]. rewrite <- (IH x Hr Hin). lia.
Qed.

(* Pop: on an empty (or nil) set nothing changes and the zero value is returned; otherwise exactly
   one element that was a member is removed and returned. *)
Theorem Pop_spec : forall s ord, wf s ->
  match Pop T eqb zero s ord with
  | Ok (s', x) =>
      ((m_keys s = [] /\ s' = s /\ x = zero /\ ord = []) \/
       (has s x /\ (forall y, has s' y <-> has s y /\ y <> x) /\ m_len s' = m_len s - 1 /\ exists r, ord = x :: r))
      /\ wf s' /\ (s' = None <-> s = None) /\ m_ptr T s' = m_ptr T s
  | BadOrder => valid_order T eqb ord s = false
  | _ => False
  end.
Proof.
  intros s ord Hs. unfold Pop. rewrite guarded_ok by reflexivity. unfold m_range, pop_ncalls_delete, called. cbn [Z.eqb Pos.eqb].
  destruct (valid_order T eqb ord s) eqn:V; [|reflexivity].
  destruct (valid_order_sound T eqb eqb_spec _ _ Hs V) as [_ [M L]].
  destruct ord as [|x r].
  - rewrite ret2_snd by reflexivity. cbn [bind].
    split; [|split; [exact Hs | split; [tauto | reflexivity]]]. left. cbn [length] in L.
    split; [|split; [|split]; reflexivity]. destruct (m_keys s); [reflexivity | discriminate].
  - rewrite ret2_fst by reflexivity. cbn [bind].
    destruct (m_delete_spec T eqb eqb_spec s x) as [M1 [W1 N1]].
    split; [|split; [apply W1; exact Hs | split; [exact N1 | apply m_delete_ptr]]]. right.
    assert (Hx : has s x) by (apply M; left; reflexivity).
    split; [exact Hx|]. split; [exact M1|]. split; [|exists r; reflexivity].
    unfold MapsetModel.m_len. destruct s as [[p l]|]; [|destruct Hx].
    cbn [m_delete MapsetModel.m_keys]. unfold MapsetProofs.has, MapsetProofs.wf in *. cbn [MapsetModel.m_keys] in *.
    pose proof (filter_remove_length l x Hs Hx). lia.
Qed.

Lemma append_loop_spec : forall items vs,
  sl_elems T (append_loop T vs items) = sl_elems T vs ++ items /\
  (items <> [] -> append_loop T vs items <> None) /\ (items = [] -> append_loop T vs items = vs).
Proof.
  induction items as [|x r IH]; intro vs; cbn [append_loop].
  - rewrite app_nil_r. split; [reflexivity|]. split; [congruence | reflexivity].
  - unfold append_ncalls_append, called. cbn [Z.eqb Pos.eqb].
    destruct (IH (sl_append T vs x)) as [E [N _]]. split; [|split; [|discriminate]].
    + rewrite E. unfold sl_append. cbn [sl_elems]. rewrite <- app_assoc. reflexivity.
    + intros _. destruct r as [|y r'].
      * cbn [append_loop]. discriminate.
      * apply N. discriminate.
Qed.

(* Append: the given prefix, then every member exactly once *)
Theorem Append_spec : forall s vs ord, wf s ->
  match Append T eqb s vs ord with
  | Ok r => exists l, sl_elems T r = sl_elems T vs ++ l /\ Permutation l (m_keys s) /\ (m_keys s = [] -> r = vs)
  | BadOrder => valid_order T eqb ord s = false
  | _ => False
  end.
Proof.
  intros s vs ord Hs. unfold Append. rewrite guarded_ok by reflexivity. unfold append_empty, m_range.
  destruct (Z.eqb (m_len s) 0) eqn:E.
  - rewrite ret2_snd by reflexivity.
    apply (m_len_zero T) in E. exists []. rewrite app_nil_r, E. split; [reflexivity|]. split; [constructor | reflexivity].
  - destruct (valid_order T eqb ord s) eqn:V; [|reflexivity].
    rewrite ret2_snd by reflexivity.
    exists ord. destruct (append_loop_spec ord vs) as [E1 _]. split; [exact E1|].
    split; [apply (valid_order_perm T eqb eqb_spec); assumption|].
    intro H. apply (m_len_zero T) in H. congruence.
Qed.

(* Slice: every member exactly once; nil exactly when the set is empty *)
Theorem Slice_spec : forall s ord, wf s ->
  match Slice T eqb zero s ord with
  | Ok r => Permutation (sl_elems T r) (m_keys s) /\ NoDup (sl_elems T r) /\ (r = None <-> m_keys s = [])
  | BadOrder => valid_order T eqb ord s = false
  | _ => False
  end.
Proof.
  intros s ord Hs. unfold Slice. rewrite guarded_ok by reflexivity. unfold slice_empty.
  destruct (Z.eqb (m_len s) 0) eqn:E.
  - rewrite ret1_ok by reflexivity.
    apply (m_len_zero T) in E. rewrite E. cbn [sl_elems]. split; [constructor|]. split; [constructor | tauto].
  - rewrite ret1_ok by reflexivity. unfold Append. rewrite guarded_ok by reflexivity. unfold append_empty, m_range, slice_buf_len. rewrite E.
    destruct (valid_order T eqb ord s) eqn:V; [|reflexivity].
    rewrite ret2_snd by reflexivity.
    cbn [Z.to_nat repeat].
    destruct (append_loop_spec ord (Some [])) as [E1 [N1 _]]. rewrite E1. cbn [sl_elems app].
    pose proof (valid_order_perm T eqb eqb_spec _ _ Hs V) as P.
    split; [exact P|]. split; [apply (Permutation_NoDup (Permutation_sym P)); exact Hs|].
    assert (K : m_keys s <> []) by (intro H; apply (m_len_zero T) in H; congruence).
    split; [|contradiction]. intro H. exfalso. apply N1; [|exact H].
    intro H0. subst ord. apply Permutation_nil in P. congruence.
Qed.

(* ---- Intersect *)
Lemma intersect_min_In : forall rest m, In (intersect_min T m rest) (m :: rest).
Proof.
  induction rest as [|s r IH]; intro m; cbn [intersect_min].
  - left. reflexivity.
  - destruct (intersect_smaller (m_len s) (m_len m)).
    + right. apply IH.
    + destruct (IH m) as [H|H]; [left; exact H | right; right; exact H].
Qed.

Lemma intersect_inner_spec : forall ss v, intersect_inner T eqb ss v = true <-> forall s, In s ss -> has s v.
Proof.
  induction ss as [|s r IH]; intro v; cbn [intersect_inner].
  - split; [intros _ s [] | reflexivity].
  - unfold intersect_miss. destruct (Has_raw T eqb s v) eqn:E; cbn [negb].
    + rewrite IH. apply (Has_has T eqb eqb_spec) in E. split.
      * intros H s' [Hs|Hs]; [subst; exact E | auto].
      * intros H s' Hs. apply H. right. exact Hs.
    + apply (Has_false T eqb eqb_spec) in E. split; [discriminate|]. intro H. exfalso. apply E. apply H. left. reflexivity.
Qed.

Lemma intersect_loop_spec : forall ss fresh p items lo, NoDup lo -> exists l,
  intersect_loop T eqb ss items (Some (p, lo)) fresh = Ok (Some (p, l)) /\ NoDup l /\
  forall y, In y l <-> In y lo \/ (In y items /\ forall s, In s ss -> has s y).
Proof.
  intros ss fresh p. induction items as [|v r IH]; intros lo Hlo; cbn [intersect_loop].
  - exists lo. split; [reflexivity|]. split; [exact Hlo|]. intro y. cbn [In]. tauto.
  - destruct (intersect_inner T eqb ss v) eqn:E.
    + unfold intersect_ncalls_add, called. cbn [Z.eqb Pos.eqb].
      destruct (Add_spec T eqb eqb_spec (Some (p, lo)) fresh [v] Hlo) as [l1 [E1 [N1 M1]]]. rewrite E1. cbn [bind addr_or].
      destruct (IH l1 N1) as [l [E2 [N2 M2]]]. exists l. split; [exact E2|]. split; [exact N2|].
      pose proof (proj1 (intersect_inner_spec ss v) E) as E'.
      intro y. rewrite M2, M1. unfold MapsetProofs.has. cbn [MapsetModel.m_keys In]. split.
      * intros [[H|[H|[]]]|[H1 H2]]; [left; exact H | subst; right; split; [left; reflexivity | exact E'] | right; split; [right; exact H1 | exact H2]].
      * intros [H|[[H|H] H2]]; [left; left; exact H | subst; left; right; left; reflexivity | right; split; assumption].
    + destruct (IH lo Hlo) as [l [E2 [N2 M2]]]. exists l. split; [exact E2|]. split; [exact N2|].
      intro y. rewrite M2. cbn [In]. split.
      * intros [H|[H1 H2]]; [left; exact H | right; split; [right; exact H1 | exact H2]].
      * intros [H|[[H|H] H2]]; [left; exact H | | right; split; assumption].
        subst. exfalso. pose proof (proj2 (intersect_inner_spec ss y) H2). congruence.
Qed.

(* Intersect: non-nil, and exactly the elements common to all operands (none for no operands),
   for every number of operands, nil/empty ones included, and every order *)
Theorem Intersect_spec : forall ss fresh ord, Forall wf ss ->
  match Intersect T eqb ss fresh ord with
  | Ok r => exists l, r = Some (fresh, l) /\ NoDup l /\ forall y, In y l <-> (ss <> [] /\ forall s, In s ss -> has s y)
  | BadOrder => exists min, intersect_operand T ss = Ok min /\ valid_order T eqb ord min = false
  | _ => False
  end.
Proof.
  intros ss fresh ord Hwf. unfold Intersect. rewrite guarded_ok by reflexivity. unfold intersect_noargs.
  destruct ss as [|s0 rest].
  - cbn [length Z.of_nat Z.eqb]. rewrite ret1_ok by reflexivity.
    exists []. split; [reflexivity|]. split; [constructor|]. intro y. cbn [In]. split; [tauto | intros [H _]; congruence].
  - assert (E0 : Z.eqb (Z.of_nat (length (s0 :: rest))) 0 = false) by (apply Z.eqb_neq; cbn [length]; lia).
    rewrite E0. unfold intersect_operand, intersect_first_idx, intersect_rest_lo.
    change (Z.to_nat 0) with 0%nat. change (Z.to_nat 1) with 1%nat. cbn [nth_error skipn].
    assert (E1 : Z.gtb 1 (Z.of_nat (length (s0 :: rest))) = false).
    { destruct (Z.gtb 1 (Z.of_nat (length (s0 :: rest)))) eqn:G; [|reflexivity]. rewrite Z.gtb_lt in G. cbn [length] in G. lia. }
    rewrite E1. cbn [bind]. unfold m_range.
    set (min := intersect_min T s0 rest).
    assert (Hin : In min (s0 :: rest)) by apply intersect_min_In.
    assert (Hmin : wf min) by (rewrite Forall_forall in Hwf; apply Hwf; exact Hin).
    destruct (valid_order T eqb ord min) eqn:V; [|exists min; split; reflexivity || exact V].
    destruct (valid_order_sound T eqb eqb_spec _ _ Hmin V) as [_ [M _]].
    unfold m_make. destruct (intersect_loop_spec (s0 :: rest) (Pos.succ fresh) fresh ord [] (NoDup_nil T)) as [l [E [N ML]]].
    rewrite E. cbn [bind]. rewrite ret2_fst by reflexivity. exists l. split; [reflexivity|]. split; [exact N|].
    intro y. rewrite ML. cbn [In]. split.
    + intros [[]|[_ H]]. split; [discriminate | exact H].
    + intros [_ H]. right. split; [|exact H]. apply M. apply H. exact Hin.
Qed.

(* ---- Range / Keys / Values *)
Lemma collect_loop_spec : forall fresh p items lo, NoDup lo -> exists l,
  collect_loop T eqb 1 (Some (p, lo)) fresh items = Ok (Some (p, l)) /\ NoDup l /\ forall y, In y l <-> In y lo \/ In y items.
Proof.
  intros fresh p. induction items as [|v r IH]; intros lo Hlo; cbn [collect_loop].
  - exists lo. split; [reflexivity|]. split; [exact Hlo|]. intro y. cbn [In]. tauto.
  - unfold called. cbn [Z.eqb Pos.eqb].
    destruct (Add_spec T eqb eqb_spec (Some (p, lo)) fresh [v] Hlo) as [l1 [E1 [N1 M1]]]. rewrite E1. cbn [bind addr_or].
    destruct (IH l1 N1) as [l [E2 [N2 M2]]]. exists l. split; [exact E2|]. split; [exact N2|].
    intro y. rewrite M2, M1. unfold MapsetProofs.has. cbn [MapsetModel.m_keys In]. tauto.
Qed.

(* Range / Keys / Values: a map at the fresh address holding exactly the values produced *)
Theorem Range_spec : forall items fresh, exists l, Range T eqb (Some items) fresh = Ok (Some (fresh, l)) /\ NoDup l /\ forall y, In y l <-> In y items.
Proof.
  intros items fresh. unfold Range. rewrite guarded_ok by reflexivity.
  change (called range_ncalls_make (m_make T fresh) None) with (Some (fresh, @nil T)). change range_ncalls_add with 1.
  destruct (collect_loop_spec (Pos.succ fresh) fresh items [] (NoDup_nil T)) as [l [E [N M]]]. rewrite E. cbn [bind]. rewrite ret1_ok by reflexivity.
  exists l. split; [reflexivity|]. split; [exact N|]. intro y. rewrite M. cbn [In]. tauto.
Qed.

(* ranging over the nil iterator function panics (the only panic of the package) *)
Theorem Range_nil : forall fresh, Range T eqb None fresh = PanicNilFunc.
Proof. intro fresh. unfold Range. rewrite guarded_ok by reflexivity. reflexivity. Qed.

Theorem Keys_spec : forall keys fresh, exists l, Keys T eqb keys fresh = Ok (Some (fresh, l)) /\ NoDup l /\ forall y, In y l <-> In y keys.
Proof.
  intros items fresh. unfold Keys. rewrite guarded_ok by reflexivity.
  change (called keys_ncalls_make (m_make T fresh) None) with (Some (fresh, @nil T)). change keys_ncalls_add with 1.
  destruct (collect_loop_spec (Pos.succ fresh) fresh items [] (NoDup_nil T)) as [l [E [N M]]]. rewrite E. cbn [bind]. rewrite ret1_ok by reflexivity.
  exists l. split; [reflexivity|]. split; [exact N|]. intro y. rewrite M. cbn [In]. tauto.
Qed.

Theorem Values_spec : forall vals fresh, exists l, Values T eqb vals fresh = Ok (Some (fresh, l)) /\ NoDup l /\ forall y, In y l <-> In y vals.
Proof.
  intros items fresh. unfold Values. rewrite guarded_ok by reflexivity.
  change (called values_ncalls_make (m_make T fresh) None) with (Some (fresh, @nil T)). change values_ncalls_add with 1.
  destruct (collect_loop_spec (Pos.succ fresh) fresh items [] (NoDup_nil T)) as [l [E [N M]]]. rewrite E. cbn [bind]. rewrite ret1_ok by reflexivity.
  exists l. split; [reflexivity|]. split; [exact N|]. intro y. rewrite M. cbn [In]. tauto.
Qed.

End ProofsMut.
