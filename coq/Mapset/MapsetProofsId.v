(* Storage identity over histories.  Every map value of the model carries the address it was
   allocated at (MapsetModel: [m_make], [maps_clone] take it from the allocator, everything else
   keeps it), and which expression each function returns is read from the source (ret1/ret2).
   Two set values alias iff they have the same address.  Proved here, for every history from a
   state in which no two variables share a map ([ids_ok]):
   - New, NewSize, Clone, Intersect, Range, Keys, Values — and Add/AddAll on a nil receiver —
     return a map at an address the allocator had not handed out before the call: it differs
     from the address of every variable (the arguments among them) and of every map that ever
     existed ("does not alias its arguments" as a theorem, not only as a test);
   - Add/AddAll on a non-nil receiver, Remove, RemoveAll, Clear return their receiver (same
     address, nil for a nil receiver of the last three); Pop keeps the receiver's address;
   - no operation ever makes two variables share a map, so [ids_ok] holds again. *)
From Coq Require Import ZArith List Bool Lia Permutation.
Import ListNotations.
From Mds Require Import Gen.MapsetFacts Mapset.MapsetModel Mapset.MapsetSpec Mapset.MapsetProofs Mapset.MapsetProofsMut Mapset.MapsetProofsHist.
Local Open Scope Z_scope.

Section Id.
Variable T : Type.
Variable eqb : T -> T -> bool.
Variable zero : T.
Hypothesis eqb_spec : forall x y, eqb x y = true <-> x = y.

Notation gomap := (gomap T).
Notation m_ptr := (m_ptr T).
Notation wf := (wf T).

(* all addresses in use are below the allocator's frontier, and no two variables hold the same map *)
Definition ids_ok (st : store T) (next : positive) : Prop :=
  (forall i, m_ptr (st i) < Zpos next) /\
  (forall i j, st i <> None -> m_ptr (st i) = m_ptr (st j) -> i = j).

(* x is a non-nil set at an address handed out by this very call *)
Definition fresh_out (next : positive) (x : out T) : Prop :=
  match x with RSet _ (Some (p, _)) => Zpos next <= Zpos p < Zpos (bump next) | _ => False end.
(* x is the set s itself (same address; nil iff s is nil) *)
Definition same_out (s : gomap) (x : out T) : Prop :=
  match x with RSet _ m => m_ptr m = m_ptr s | _ => False end.

Definition identity_ok (st : store T) (next : positive) (o : op T) (x : out T) (st1 : store T) : Prop :=
  x = RBadOrder T \/
  match o with
  | ONew _ _ _ | ONewSize _ _ _ | OClone _ _ _ | OIntersect _ _ _ _ | ORange _ _ (Some _) | OKeys _ _ _ | OValues _ _ _ => fresh_out next x
  | ORange _ _ None => x = RPanicNilFunc T /\ st1 = st
  | ONil _ _ => x = RSet T None
  | OAdd _ i _ | OAddAll _ i _ _ => match st i with None => fresh_out next x | Some _ => same_out (st i) x end
  | ORemove _ i _ | ORemoveAll _ i _ _ | OClear _ i => same_out (st i) x
  | OPop _ i _ => m_ptr (st1 i) = m_ptr (st i)
  | _ => st1 = st
  end.

Lemma ptr_pos : forall m : gomap, m <> None -> 0 < m_ptr m.
Proof. intros [[p l]|] H; [reflexivity | congruence]. Qed.
Lemma ptr_none : forall m : gomap, m_ptr m = 0 -> m = None.
Proof. intros [[p l]|] H; [discriminate H | reflexivity]. Qed.

Lemma ids_ok0 : ids_ok (store0 T) next0.
Proof. split; [intro i; reflexivity | intros i j H; exfalso; apply H; reflexivity]. Qed.

Lemma bump_gt : forall next, Zpos next < Zpos (bump next).
Proof. intro. unfold bump. lia. Qed.

Lemma ids_ok_mono : forall st next, ids_ok st next -> ids_ok st (bump next).
Proof. intros st next [H1 H2]. split; [|exact H2]. intro i. pose proof (H1 i). pose proof (bump_gt next). lia. Qed.

(* storing into v_i nil, the map v_i already held, or a map allocated by this call keeps [ids_ok] *)
Lemma ids_ok_upd : forall st next i (m : gomap), ids_ok st next ->
  (m = None \/ m_ptr m = m_ptr (st i) \/ Zpos next <= m_ptr m < Zpos (bump next)) ->
  ids_ok (upd T st i m) (bump next).
Proof.
  intros st next i m [H1 H2] Hm. pose proof (bump_gt next) as B. split.
  - intro k. unfold upd. destruct (Nat.eqb k i).
    + destruct Hm as [Hm|[Hm|Hm]]; [subst; unfold MapsetModel.m_ptr, nil_ptr; lia | rewrite Hm; pose proof (H1 i); lia | lia].
    + pose proof (H1 k). lia.
  - intros a b. unfold upd.
    destruct (Nat.eqb_spec a i) as [Ea|Ea]; destruct (Nat.eqb_spec b i) as [Eb|Eb].
    + intros _ _. congruence.
    + intros Hn He. subst a. pose proof (ptr_pos m Hn) as P.
      destruct Hm as [Hm|[Hm|Hm]]; [congruence | | pose proof (H1 b); lia].
      apply H2; [|congruence]. intro K. rewrite K in Hm. unfold MapsetModel.m_ptr at 2, nil_ptr in Hm. lia.
    + intros Hn He. subst b. pose proof (ptr_pos _ Hn) as P.
      destruct Hm as [Hm|[Hm|Hm]]; [subst m; unfold MapsetModel.m_ptr at 2, nil_ptr in He; lia | | pose proof (H1 a); lia].
      apply H2; [exact Hn | congruence].
    + apply H2.
Qed.

Lemma fresh_range : forall next, Zpos next <= Zpos next < Zpos (bump next).
Proof. intro. unfold bump. lia. Qed.

(* ONE STEP *)
Theorem step_identity : forall st next sst o, R T st sst -> ids_ok st next ->
  identity_ok st next o (snd (step T eqb zero st next o)) (fst (step T eqb zero st next o)) /\
  ids_ok (fst (step T eqb zero st next o)) (bump next).
Proof.
  intros st next sst o HR Hid. pose proof (fresh_range next) as F.
  assert (Same : forall i, ids_ok (upd T st i (st i)) (bump next)) by (intro i; apply ids_ok_upd; [exact Hid | right; left; reflexivity]).
  unfold identity_ok.
  destruct o as [i items|i n|i|i items|i j ord|i items|i j ord|i ord|i|i j|i js ord|i [items|]|i keys|i vals
                |i x|i ts|i ts|i|i|i j ord|i j ord|i j ord|i ord|i vs ord]; cbn [step].
  - destruct (New_spec T eqb eqb_spec next items) as [l [E _]]. rewrite E. cbn [assign fst snd fresh_out].
    split; [right; exact F | apply ids_ok_upd; [exact Hid | right; right; exact F]].
  - rewrite NewSize_spec. cbn [assign fst snd fresh_out].
    split; [right; exact F | apply ids_ok_upd; [exact Hid | right; right; exact F]].
  - cbn [assign fst snd]. split; [right; reflexivity | apply ids_ok_upd; [exact Hid | left; reflexivity]].
  - destruct (HR i) as [W _]. destruct (Add_spec T eqb eqb_spec (st i) next items W) as [l [E _]]. rewrite E. cbn [assign fst snd].
    destruct (st i) as [[p l0]|] eqn:Ei; cbn [addr_or].
    + split; [right; reflexivity | apply ids_ok_upd; [exact Hid | right; left; rewrite Ei; reflexivity]].
    + split; [right; exact F | apply ids_ok_upd; [exact Hid | right; right; exact F]].
  - destruct (HR i) as [W _]. destruct (HR j) as [Wj _].
    pose proof (AddAll_spec T eqb eqb_spec (st i) (st j) next ord W Wj) as H.
    destruct (AddAll T eqb (st i) (st j) next ord) as [r| | | | |]; try contradiction; cbn [assign fail_out fst snd].
    + destruct H as [l [E _]]. subst r. destruct (st i) as [[p l0]|] eqn:Ei; cbn [addr_or].
      * split; [right; reflexivity | apply ids_ok_upd; [exact Hid | right; left; rewrite Ei; reflexivity]].
      * split; [right; exact F | apply ids_ok_upd; [exact Hid | right; right; exact F]].
    + split; [left; reflexivity | apply ids_ok_mono; exact Hid].
  - destruct (Remove_spec T eqb eqb_spec (st i) items) as [r [E [_ [_ [_ P]]]]]. rewrite E. cbn [assign fst snd same_out].
    split; [right; exact P | apply ids_ok_upd; [exact Hid | right; left; exact P]].
  - destruct (HR i) as [W _]. destruct (HR j) as [Wj _].
    pose proof (RemoveAll_spec T eqb eqb_spec (st i) (st j) ord W Wj) as H.
    destruct (RemoveAll T eqb (st i) (st j) ord) as [r| | | | |]; try contradiction; cbn [assign fail_out fst snd same_out].
    + destruct H as [_ [_ [_ P]]]. split; [right; exact P | apply ids_ok_upd; [exact Hid | right; left; exact P]].
    + split; [left; reflexivity | apply ids_ok_mono; exact Hid].
  - destruct (HR i) as [W _].
    pose proof (Pop_spec T eqb zero eqb_spec (st i) ord W) as H.
    destruct (Pop T eqb zero (st i) ord) as [[s' x]| | | | |]; try contradiction; cbn [fail_out fst snd].
    + destruct H as [_ [_ [_ P]]]. split; [|apply ids_ok_upd; [exact Hid | right; left; exact P]].
      right. unfold upd. rewrite Nat.eqb_refl. exact P.
    + split; [left; reflexivity | apply ids_ok_mono; exact Hid].
  - destruct (Clear_spec T (st i)) as [r [E [_ [P _]]]]. rewrite E. cbn [assign fst snd same_out].
    split; [right; exact P | apply ids_ok_upd; [exact Hid | right; left; exact P]].
  - rewrite Clone_spec. cbn [assign fst snd fresh_out].
    split; [right; exact F | apply ids_ok_upd; [exact Hid | right; right; exact F]].
  - assert (HW : Forall wf (map st js)).
    { apply Forall_forall. intros s Hs. apply in_map_iff in Hs. destruct Hs as [j [E _]]. subst s. apply (HR j). }
    pose proof (Intersect_spec T eqb eqb_spec (map st js) next ord HW) as H.
    destruct (Intersect T eqb (map st js) next ord) as [r| | | | |]; try contradiction; cbn [assign fail_out fst snd].
    + destruct H as [l [E _]]. subst r. cbn [fresh_out].
      split; [right; exact F | apply ids_ok_upd; [exact Hid | right; right; exact F]].
    + split; [left; reflexivity | apply ids_ok_mono; exact Hid].
  - destruct (Range_spec T eqb eqb_spec items next) as [l [E _]]. rewrite E. cbn [assign fst snd fresh_out].
    split; [right; exact F | apply ids_ok_upd; [exact Hid | right; right; exact F]].
  - rewrite Range_nil. cbn [assign fail_out fst snd]. split; [right; split; reflexivity | apply ids_ok_mono; exact Hid].
  - destruct (Keys_spec T eqb eqb_spec keys next) as [l [E _]]. rewrite E. cbn [assign fst snd fresh_out].
    split; [right; exact F | apply ids_ok_upd; [exact Hid | right; right; exact F]].
  - destruct (Values_spec T eqb eqb_spec vals next) as [l [E _]]. rewrite E. cbn [assign fst snd fresh_out].
    split; [right; exact F | apply ids_ok_upd; [exact Hid | right; right; exact F]].
  - destruct (Has_spec T eqb eqb_spec (st i) x) as [b [E _]]. rewrite E. cbn [observe fst snd].
    split; [right; reflexivity | apply ids_ok_mono; exact Hid].
  - destruct (HasAll_spec T eqb eqb_spec (st i) ts) as [b [E _]]. rewrite E. cbn [observe fst snd].
    split; [right; reflexivity | apply ids_ok_mono; exact Hid].
  - destruct (HasAny_spec T eqb eqb_spec (st i) ts) as [b [E _]]. rewrite E. cbn [observe fst snd].
    split; [right; reflexivity | apply ids_ok_mono; exact Hid].
  - rewrite Len_spec. cbn [observe fst snd]. split; [right; reflexivity | apply ids_ok_mono; exact Hid].
  - destruct (IsEmpty_spec T (st i)) as [b [E _]]. rewrite E. cbn [observe fst snd].
    split; [right; reflexivity | apply ids_ok_mono; exact Hid].
  - unfold observe. destruct (Intersects T eqb (st i) (st j) ord); cbn [fst snd]; (split; [right; reflexivity | apply ids_ok_mono; exact Hid]).
  - unfold observe. destruct (IsSubset T eqb (st i) (st j) ord); cbn [fst snd]; (split; [right; reflexivity | apply ids_ok_mono; exact Hid]).
  - unfold observe. destruct (Equals T eqb (st i) (st j) ord); cbn [fst snd]; (split; [right; reflexivity | apply ids_ok_mono; exact Hid]).
  - unfold observe. destruct (Slice T eqb zero (st i) ord); cbn [fst snd]; (split; [right; reflexivity | apply ids_ok_mono; exact Hid]).
  - unfold observe. destruct (Append T eqb (st i) vs ord); cbn [fst snd]; (split; [right; reflexivity | apply ids_ok_mono; exact Hid]).
Qed.

(* WHOLE HISTORIES: at every step the identity facts hold and no two variables share a map *)
Fixpoint hist_ids (st : store T) (next : positive) (ops : list (op T)) : Prop :=
  match ops with
  | [] => True
  | o :: r =>
    let st1 := fst (step T eqb zero st next o) in
    identity_ok st next o (snd (step T eqb zero st next o)) st1 /\ ids_ok st1 (bump next) /\ hist_ids st1 (bump next) r
  end.

Theorem identity_history : forall ops st next sst, R T st sst -> ids_ok st next -> hist_ids st next ops.
Proof.
  induction ops as [|o r IH]; intros st next sst HR Hid; cbn [hist_ids]; [exact I|].
  destruct (step_identity st next sst o HR Hid) as [H1 H2]. split; [exact H1|]. split; [exact H2|].
  destruct (step_refines T eqb zero eqb_spec st next sst o HR) as [B|[HR1 _]].
  - rewrite (step_badorder_state T eqb zero st next o B). apply (IH st (bump next) sst HR).
    rewrite <- (step_badorder_state T eqb zero st next o B). exact H2.
  - apply (IH _ (bump next) _ HR1 H2).
Qed.

Corollary identity_history_from_nil : forall ops, hist_ids (store0 T) next0 ops.
Proof. intro ops. apply (identity_history ops _ _ (sstore0 T)); [apply R0 | apply ids_ok0]. Qed.

(* the property's own wording: what a constructor returns aliases no variable of the state it
   was called in — its arguments in particular — and is not nil *)
Definition constructor (o : op T) : bool :=
  match o with
  | ONew _ _ _ | ONewSize _ _ _ | OClone _ _ _ | OIntersect _ _ _ _ | ORange _ _ (Some _) | OKeys _ _ _ | OValues _ _ _ => true
  | _ => false
  end.

Theorem constructor_result_fresh : forall st next sst o, R T st sst -> ids_ok st next -> constructor o = true ->
  match snd (step T eqb zero st next o) with
  | RSet _ m => m <> None /\ (forall k, m_ptr m <> m_ptr (st k)) /\ Zpos next <= m_ptr m
  | RBadOrder _ => True
  | _ => False
  end.
Proof.
  intros st next sst o HR Hid Hc. destruct (step_identity st next sst o HR Hid) as [H _].
  unfold identity_ok in H. destruct H as [H|H]; [rewrite H; exact I|].
  assert (G : fresh_out next (snd (step T eqb zero st next o))).
  { destruct o as [i items|i n|i|i items|i j ord|i items|i j ord|i ord|i|i j|i js ord|i [items|]|i keys|i vals
                  |i x|i ts|i ts|i|i|i j ord|i j ord|i j ord|i ord|i vs ord]; try discriminate Hc; exact H. }
  destruct (snd (step T eqb zero st next o)) as [[[p l]|]| | | | | | | | |]; try contradiction.
  cbn [fresh_out] in G. split; [discriminate|]. split; [|cbn; lia].
  intro k. destruct Hid as [H1 _]. pose proof (H1 k). cbn [MapsetModel.m_ptr]. lia.
Qed.

(* a pointer-receiver method on a nil receiver (Add, AddAll) allocates: the receiver then holds a
   map that is not the argument's nor any other variable's *)
Theorem nil_receiver_result_fresh : forall st next sst o i, R T st sst -> ids_ok st next ->
  (exists items, o = OAdd T i items) \/ (exists j ord, o = OAddAll T i j ord) -> st i = None ->
  match snd (step T eqb zero st next o) with
  | RSet _ m => m <> None /\ (forall k, m_ptr m <> m_ptr (st k)) /\ Zpos next <= m_ptr m
  | RBadOrder _ => True
  | _ => False
  end.
Proof.
  intros st next sst o i HR Hid Ho Hi. destruct (step_identity st next sst o HR Hid) as [H _].
  unfold identity_ok in H. destruct H as [H|H]; [rewrite H; exact I|].
  assert (G : fresh_out next (snd (step T eqb zero st next o))).
  { destruct Ho as [[items Eo]|[j [ord Eo]]]; subst o; rewrite Hi in H; exact H. }
  destruct (snd (step T eqb zero st next o)) as [[[p l]|]| | | | | | | | |]; try contradiction.
  cbn [fresh_out] in G. split; [discriminate|]. split; [|cbn; lia].
  intro k. destruct Hid as [H1 _]. pose proof (H1 k). cbn [MapsetModel.m_ptr]. lia.
Qed.

(* the mutators return their receiver *)
Theorem mutator_returns_receiver : forall st next sst o i, R T st sst ->
  ((exists items, o = OAdd T i items) \/ (exists j ord, o = OAddAll T i j ord)) /\ st i <> None \/
  (exists items, o = ORemove T i items) \/ (exists j ord, o = ORemoveAll T i j ord) \/ o = OClear T i ->
  match snd (step T eqb zero st next o) with
  | RSet _ m => m_ptr m = m_ptr (st i) /\ fst (step T eqb zero st next o) i = m
  | RBadOrder _ => True
  | _ => False
  end.
Proof.
  intros st next sst o i HR Ho.
  assert (U : forall m, upd T st i m i = m) by (intro m; unfold upd; rewrite Nat.eqb_refl; reflexivity).
  destruct Ho as [[[[items Eo]|[j [ord Eo]]] Hn]|[[items Eo]|[[j [ord Eo]]|Eo]]]; subst o; cbn [step].
  - destruct (HR i) as [W _]. destruct (Add_spec T eqb eqb_spec (st i) next items W) as [l [E _]]. rewrite E. cbn [assign fst snd].
    split; [|apply U]. destruct (st i) as [[p l0]|]; [reflexivity | congruence].
  - destruct (HR i) as [W _]. destruct (HR j) as [Wj _].
    pose proof (AddAll_spec T eqb eqb_spec (st i) (st j) next ord W Wj) as H.
    destruct (AddAll T eqb (st i) (st j) next ord) as [r| | | | |]; try contradiction; cbn [assign fail_out fst snd]; [|exact I].
    destruct H as [l [E _]]. subst r. split; [|apply U]. destruct (st i) as [[p l0]|]; [reflexivity | congruence].
  - destruct (Remove_spec T eqb eqb_spec (st i) items) as [r [E [_ [_ [_ P]]]]]. rewrite E. cbn [assign fst snd]. split; [exact P | apply U].
  - destruct (HR i) as [W _]. destruct (HR j) as [Wj _].
    pose proof (RemoveAll_spec T eqb eqb_spec (st i) (st j) ord W Wj) as H.
    destruct (RemoveAll T eqb (st i) (st j) ord) as [r| | | | |]; try contradiction; cbn [assign fail_out fst snd]; [|exact I].
    destruct H as [_ [_ [_ P]]]. split; [exact P | apply U].
  - destruct (Clear_spec T (st i)) as [r [E [_ [P _]]]]. rewrite E. cbn [assign fst snd]. split; [exact P | apply U].
Qed.

(* RemoveAll of a set from itself — the map is deleted from while it is ranged over — empties
   it, for every order, and still returns the receiver *)
Theorem removeall_self : forall s ord, wf s ->
  match RemoveAll T eqb s s ord with
  | Ok r => m_keys T r = [] /\ m_ptr r = m_ptr s
  | BadOrder => valid_order T eqb ord s = false
  | _ => False
  end.
Proof.
  intros s ord W. pose proof (RemoveAll_spec T eqb eqb_spec s s ord W W) as H.
  destruct (RemoveAll T eqb s s ord) as [r| | | | |]; try contradiction; [|exact H].
  destruct H as [M [_ [_ P]]]. split; [|exact P].
  destruct (m_keys T r) as [|x l] eqn:E; [reflexivity|]. exfalso.
  assert (Hx : has T r x) by (unfold has; rewrite E; left; reflexivity). apply M in Hx. tauto.
Qed.

(* …and in that call the alias rule really fires: the iteration never meets an entry that is
   already gone (each entry is deleted when it is reached, not before), so all of [ord] is
   produced — the run is the same as on two separate maps with equal keys *)
Theorem removeall_self_all_produced : forall items s, wf s -> NoDup items -> (forall x, In x items -> has T s x) ->
  removeall_loop T eqb true s items = removeall_loop T eqb false s items /\
  (forall x, In x items -> m_get T eqb s x = true).
Proof.
  intros items s W N H. split.
  - rewrite !(removeall_loop_eq T eqb eqb_spec) by exact W. reflexivity.
  - intros x Hx. apply (m_get_has T eqb eqb_spec). apply H. exact Hx.
Qed.

(* AddAll of a set to itself creates no entry: the map ranged over does not change *)
Theorem addall_self : forall s fresh ord, wf s -> s <> None ->
  match AddAll T eqb s s fresh ord with
  | Ok r => m_ptr r = m_ptr s /\ (forall y, has T r y <-> has T s y) /\ m_len T r = m_len T s
  | BadOrder => valid_order T eqb ord s = false
  | _ => False
  end.
Proof.
  intros s fresh ord W Hn. pose proof (AddAll_spec T eqb eqb_spec s s fresh ord W W) as H.
  destruct (AddAll T eqb s s fresh ord) as [r| | | | |]; try contradiction; [|apply H].
  destruct H as [l [E [N M]]]. subst r. destruct s as [[p l0]|]; [|congruence]. cbn [addr_or].
  split; [reflexivity|]. split; [intro y; unfold has; cbn [MapsetModel.m_keys]; rewrite M; unfold has; cbn [MapsetModel.m_keys]; tauto|].
  unfold MapsetModel.m_len. cbn [MapsetModel.m_keys]. f_equal. apply Permutation_length. apply NoDup_Permutation; [exact N | exact W|].
  intro y. rewrite M. unfold has. cbn [MapsetModel.m_keys]. tauto.
Qed.

End Id.
