(* Model of /repo/mapset/mapset.go: definitions only.

   A Go map[T]struct{} is [gomap] = option (positive * list T): None is the nil map, Some (p, l)
   the map allocated at address p whose keys are l (kept duplicate-free by [m_set]).  A Go map
   value IS a pointer, so the address travels with the value exactly as in Go: [m_make] and
   [maps_clone] take the fresh address from the allocator, every other built-in keeps the address
   of the map it works on.  Two values alias iff they carry the same address; histories never
   put one address into two variables (MapsetProofsId.ids_ok, a theorem), which is what makes
   carrying the keys next to the address sound.  The one place where a call sees the same map
   twice (s.RemoveAll(s): deleting from the map being ranged over) is modelled with the Go rule
   for it (an entry removed before it is reached is not produced).

   The order of l is NOT the iteration order: every `for … := range m` takes the order the runtime
   chose as an extra argument [ord], which [m_range] accepts iff it is a duplicate-free enumeration
   of exactly the keys (the Go specification of map iteration) and otherwise answers [BadOrder].

   What is regenerated from the Go source into Gen/MapsetFacts.v on every run:
   - every condition (early exits, nil tests, smaller-operand choices), every boolean constant
     returned, index/slice bounds: used as the conditions of this model;
   - which expression every `return`/assignment of a map hands on (receiver, argument, fresh map):
     used through [ret1]/[ret2], so the address a function returns is the one the source returns;
   - how many times make/clear/delete/append/maps.Clone/out.Add are called: used through [called];
   - the rest of each statement skeleton: for the mutators (Clear, Add, add, AddAll, Remove,
     RemoveAll, Pop) the whole statement structure as one number (<fn>_shape: one hexadecimal digit
     per statement, 1 if 3 range 4 return 5 assignment 6 expression statement 7 break 9 declaration
     e '{' f '}'), so that a new guard around a delete, a dropped break or a moved statement is
     noticed; for all functions what is ranged over, what is deleted from what, what is looked
     up, which helper gets which argument, that no further len() is consulted: checked by
     the tripwire lists [<fn>_tw] through [guarded]: if one differs from what this hand-written
     skeleton assumes the function answers [Unmodelled], which every theorem excludes.
   Writing to a nil map is [PanicNilMap], ranging over a nil iterator function [PanicNilFunc]. *)
From Coq Require Import ZArith List Bool.
Import ListNotations.
From Mds Require Import Gen.MapsetFacts.
Local Open Scope Z_scope.

Inductive res (A : Type) : Type :=
| Ok (a : A)
| PanicNilMap      (* assignment to an entry of a nil map *)
| PanicIndex       (* slice index/bounds out of range *)
| PanicNilFunc     (* call of a nil function value (range over a nil iter.Seq) *)
| BadOrder         (* the iteration order handed in is not an enumeration of the map's keys *)
| Unmodelled.      (* the statement skeleton of the source is not the one this model was written for *)
Arguments Ok {A} a.
Arguments PanicNilMap {A}.
Arguments PanicIndex {A}.
Arguments PanicNilFunc {A}.
Arguments BadOrder {A}.
Arguments Unmodelled {A}.

Definition bind {A B : Type} (r : res A) (f : A -> res B) : res B :=
  match r with
  | Ok a => f a
  | PanicNilMap => PanicNilMap | PanicIndex => PanicIndex | PanicNilFunc => PanicNilFunc
  | BadOrder => BadOrder | Unmodelled => Unmodelled
  end.

(* [called n yes no]: the statement containing a call that occurs n times in the source (n read
   from the source): performed when n = 1, skipped otherwise. *)
Definition called {A : Type} (n : Z) (yes no : A) : A := if Z.eqb n 1 then yes else no.

(* [ret1 f a] / [ret2 f a b]: f is the generated reading of an expression of the source as a
   function of the one/two things it may denote (probed with 1 and 2); the model hands on that
   one, and does not know what to do when the expression is neither. *)
Definition ret1 {A : Type} (f : Z -> Z) (a : res A) : res A := if Z.eqb (f 1) 1 then a else Unmodelled.
Definition ret2 {A : Type} (f : Z -> Z -> Z) (a b : res A) : res A :=
  if Z.eqb (f 1 2) 1 then a else if Z.eqb (f 1 2) 2 then b else Unmodelled.

(* tripwires: (what the source says, what this skeleton assumes) *)
Definition b2z (b : bool) : Z := if b then 1 else 0.
Definition intact (tw : list (Z * Z)) : bool := forallb (fun p => Z.eqb (fst p) (snd p)) tw.
Definition guarded {A : Type} (tw : list (Z * Z)) (r : res A) : res A := if intact tw then r else Unmodelled.

(* s.Has(t): `_, ok := s[t]; return ok` — looks up t itself and returns ok itself *)
Definition has_tw : list (Z * Z) := [(has_index 7, 7); (b2z (has_ret true), 1); (b2z (has_ret false), 0)].
(* s.add(items): ranges over items, stores item, consults no length, deletes nothing *)
Definition addh_tw : list (Z * Z) := [(addh_shape, 0xe3e5f4f); (addh_range 7, 7); (addh_index 7, 7); (addh_ncalls_len, 0); (addh_ncalls_delete, 0)].
(* New: make(Set[T], len(items)) then m.add(items) *)
Definition new_tw : list (Z * Z) := [(new_make_hint 7, 7); (new_ncalls_add, 1); (new_add_arg 7, 7); (new_ncalls_len, 1)] ++ addh_tw.
Definition newsize_tw : list (Z * Z) := [].
Definition isempty_tw : list (Z * Z) := [(isempty_ncalls_len, 1)].
Definition len_tw : list (Z * Z) := [(len_ncalls_len, 1)].
Definition clear_tw : list (Z * Z) := [(clear_shape, 0xe64f); (clear_arg 7, 7)].
Definition clone_tw : list (Z * Z) := [(clone_mapsclone_arg 7, 7)].
Definition add_tw : list (Z * Z) := [(add_shape, 0xe1e5f4f); (add_ncalls_add, 1); (add_add_arg 7, 7)] ++ addh_tw.
(* AddAll: ranges over t, stores item into *s, consults no length, deletes nothing *)
Definition addall_tw : list (Z * Z) := [(addall_shape, 0xe1e54f3e5f4f); (addall_range 7 8, 8); (addall_index 7, 7); (addall_ncalls_len, 0); (addall_ncalls_delete, 0)] ++ clone_tw.
(* Remove: ranges over items, delete(s, item), one len (the break test) *)
Definition remove_tw : list (Z * Z) := [(remove_shape, 0xe3e1e7f6f4f); (remove_range 7 8, 8); (remove_delete_map 7 8, 7); (remove_delete_key 7 8, 8); (remove_ncalls_len, 1)].
Definition removeall_tw : list (Z * Z) := [(removeall_shape, 0xe3e1e7f6f4f); (removeall_range 7 8, 8); (removeall_delete_map 7 8 9, 7); (removeall_delete_key 7 8 9, 9); (removeall_ncalls_len, 1)].
(* Pop: ranges over s, delete(s, item), consults NO length (nothing guards the delete) *)
Definition pop_tw : list (Z * Z) := [(pop_shape, 0xe3e64f94f); (pop_range 7, 7); (pop_delete_map 7 8, 7); (pop_delete_key 7 8, 8); (pop_ncalls_len, 0)].
(* Intersects: lo, hi := s, t; lo, hi = hi, lo; range lo; hi.Has(item) *)
Definition intersects_tw : list (Z * Z) :=
  [(intersects_lo0 7 8, 7); (intersects_hi0 7 8, 8); (intersects_lo1 7 8, 8); (intersects_hi1 7 8, 7); (intersects_range 7 8, 7); (intersects_has_arg 7, 7)] ++ has_tw.
Definition hasall_tw : list (Z * Z) := [(hasall_range 7, 7); (hasall_has_arg 7, 7)] ++ has_tw.
Definition hasany_tw : list (Z * Z) := [(hasany_range 7, 7); (hasany_has_arg 7, 7)] ++ has_tw.
Definition issubset_tw : list (Z * Z) := [(issubset_range 7 8, 7); (issubset_has_arg 7, 7)] ++ has_tw.
Definition equals_tw : list (Z * Z) := [(equals_range 7 8, 7); (equals_has_arg 7, 7)] ++ has_tw.
(* Append: ranges over s; vs = append(vs, item) *)
Definition append_tw : list (Z * Z) := [(append_range 7 8, 7); (append_assign 7, 7); (append_arg_slice 7 8, 7); (append_arg_item 7 8, 8)].
(* Slice: s.Append(make([]T, 0, len(s))) *)
Definition slice_tw : list (Z * Z) := [(slice_append_arg 7, 7); (slice_buf_cap 7, 7)] ++ append_tw.
(* Intersect: min := ss[0]; range ss[1:] { min = s }; two makes (one per path); range min; range ss; s.Has(v); out.Add(v) *)
Definition intersect_tw : list (Z * Z) :=
  [(intersect_ncalls_make, 2); (intersect_min0 7, 7); (intersect_min1 7 8, 7); (intersect_range_scan 7, 7); (intersect_range_min 7 8, 7);
   (intersect_range_all 7 8, 8); (intersect_has_arg 7, 7); (intersect_add_arg 7, 7)] ++ has_tw.
Definition range_tw : list (Z * Z) := [(range_range 7, 7); (range_add_arg 7, 7)].
Definition keys_tw : list (Z * Z) := [(keys_range 7, 7); (keys_add_arg 7 8, 7)].
Definition values_tw : list (Z * Z) := [(values_range 7, 7); (values_add_arg 7 8, 8)].

Section Mapset.
Variable T : Type.
Variable eqb : T -> T -> bool.     (* Go's == on the comparable element type *)
Variable zero : T.                 (* the zero value of T *)

Definition gomap := option (positive * list T).   (* None = nil; Some (address, keys) *)
Definition goslice := option (list T).            (* None = nil slice *)

Definition mem (x : T) (l : list T) : bool := existsb (eqb x) l.
Fixpoint nodupb (l : list T) : bool :=
  match l with [] => true | x :: r => negb (mem x r) && nodupb r end.

(* ---- the built-in map operations *)
Definition m_make (p : positive) : gomap := Some (p, []).                   (* make(Set[T], hint) at the fresh address p *)
Definition m_keys (m : gomap) : list T := match m with None => [] | Some (_, l) => l end.
Definition m_len (m : gomap) : Z := Z.of_nat (length (m_keys m)).
Definition nil_ptr : Z := 0.
Definition m_ptr (m : gomap) : Z := match m with None => nil_ptr | Some (p, _) => Zpos p end.
Definition m_get (m : gomap) (x : T) : bool := mem x (m_keys m).          (* _, ok := m[x] *)
Definition m_set (m : gomap) (x : T) : res gomap :=                          (* m[x] = struct{}{} *)
  match m with
  | None => PanicNilMap
  | Some (p, l) => Ok (Some (p, if mem x l then l else l ++ [x]))
  end.
Definition m_delete (m : gomap) (x : T) : gomap :=                           (* delete(m, x) *)
  match m with None => None | Some (p, l) => Some (p, filter (fun y => negb (eqb x y)) l) end.
Definition m_clear (m : gomap) : gomap :=                                    (* clear(m) *)
  match m with None => None | Some (p, _) => Some (p, []) end.
(* maps.Clone: nil for nil, else a new map (at the fresh address p) with the same keys *)
Definition maps_clone (p : positive) (m : gomap) : gomap :=
  match m with None => None | Some (_, l) => Some (p, l) end.
(* do two map values denote the same allocated map? *)
Definition same_map (s t : gomap) : bool := negb (Z.eqb (m_ptr s) nil_ptr) && Z.eqb (m_ptr s) (m_ptr t).

Definition valid_order (ord : list T) (m : gomap) : bool :=
  Nat.eqb (length ord) (length (m_keys m)) && nodupb ord && forallb (m_get m) ord.
Definition m_range {A : Type} (m : gomap) (ord : list T) (body : list T -> res A) : res A :=
  if valid_order ord m then body ord else BadOrder.

(* ---- slices *)
Definition sl_elems (s : goslice) : list T := match s with None => [] | Some l => l end.
Definition sl_append (s : goslice) (x : T) : goslice := Some (sl_elems s ++ [x]).

(* func (s Set[T]) Has(t T) bool { _, ok := s[t]; return ok } — as called by the other methods *)
Definition Has_raw (s : gomap) (t : T) : bool := has_ret (m_get s t).
Definition Has (s : gomap) (t : T) : res bool := guarded has_tw (Ok (Has_raw s t)).

(* ---- func (s Set[T]) add(items []T) Set[T] *)
Fixpoint add_loop (s : gomap) (items : list T) : res gomap :=
  match items with
  | [] => Ok s
  | item :: r => bind (m_set s item) (fun s' => add_loop s' r)
  end.
Definition add_helper (s : gomap) (items : list T) : res gomap :=
  bind (add_loop s items) (fun s' => ret1 addh_ret (Ok s')).                 (* return s *)

(* func New(items ...T): m := make(Set[T], len(items)); return m.add(items) *)
Definition New (fresh : positive) (items : list T) : res gomap :=
  guarded new_tw (ret1 new_ret (add_helper (called new_ncalls_make (m_make fresh) None) items)).
(* func NewSize(n int): return make(Set[T], n); n is only a capacity hint (negative: no panic, as the runtime treats it as 0) *)
Definition NewSize (fresh : positive) (n : Z) : res gomap :=
  guarded newsize_tw (ret1 newsize_ret (Ok (called newsize_ncalls_make (m_make fresh) None))).

Definition IsEmpty (s : gomap) : res bool := guarded isempty_tw (Ok (isempty_ret (m_len s))).
Definition Len (s : gomap) : res Z := guarded len_tw (Ok (len_ret (m_len s))).
(* clear(s); return s *)
Definition Clear (s : gomap) : res gomap :=
  guarded clear_tw (ret1 clear_ret (Ok (called clear_ncalls_clear (m_clear s) s))).

(* if s == nil { return make(Set[T]) }; return maps.Clone(s) *)
Definition Clone (s : gomap) (fresh : positive) : res gomap :=
  guarded clone_tw (
    let made := Ok (called clone_ncalls_make (m_make fresh) None) in
    let cloned := Ok (called clone_ncalls_mapsclone (maps_clone fresh s) None) in
    if clone_nil (m_ptr s) nil_ptr then ret2 clone_ret_nil made cloned else ret2 clone_ret made cloned).

(* func (s *Set[T]) Add(items ...T): the result is both the new *s and the value returned *)
Definition Add (s : gomap) (fresh : positive) (items : list T) : res gomap :=
  guarded add_tw (
    bind (if add_nil (m_ptr s) nil_ptr then ret1 add_assign (Ok (called add_ncalls_make (m_make fresh) None)) else Ok s) (fun s1 =>
    ret1 add_ret (add_helper s1 items))).

(* func (s *Set[T]) AddAll(t Set[T]); ord: order of `range t`.  With s and t the same map every
   item is already a key, so the loop creates no entry and the map ranged over does not change. *)
Definition AddAll (s t : gomap) (fresh : positive) (ord : list T) : res gomap :=
  guarded addall_tw (
    if addall_nil (m_ptr s) nil_ptr then
      bind (ret2 addall_assign (Clone t fresh) (Ok t)) (fun s1 =>      (* *s = t.Clone() *)
      ret2 addall_ret_nil (Ok s1) (Ok t))                               (* return *s *)
    else m_range t ord (fun items => bind (add_loop s items) (fun s' => ret2 addall_ret (Ok s') (Ok t)))).

Fixpoint remove_loop (s : gomap) (items : list T) : gomap :=
  match items with
  | [] => s
  | item :: r =>
    if remove_break (m_len s) then s
    else remove_loop (called remove_ncalls_delete (m_delete s item) s) r
  end.
Definition Remove (s : gomap) (items : list T) : res gomap :=
  guarded remove_tw (ret1 remove_ret (Ok (remove_loop s items))).

(* for item := range t { if len(s) == 0 { break }; delete(s, item) }.  [alias]: s and t are the
   same map, so t shrinks while it is ranged over; Go: an entry removed before the iteration
   reaches it is not produced. *)
Fixpoint removeall_loop (alias : bool) (s : gomap) (items : list T) : gomap :=
  match items with
  | [] => s
  | item :: r =>
    if alias && negb (m_get s item) then removeall_loop alias s r
    else if removeall_break (m_len s) then s
    else removeall_loop alias (called removeall_ncalls_delete (m_delete s item) s) r
  end.
Definition RemoveAll (s t : gomap) (ord : list T) : res gomap :=
  guarded removeall_tw (m_range t ord (fun items => ret2 removeall_ret (Ok (removeall_loop (same_map s t) s items)) (Ok t))).

(* Pop: the first element of the runtime's order is deleted and returned *)
Definition Pop (s : gomap) (ord : list T) : res (gomap * T) :=
  guarded pop_tw (m_range s ord (fun items =>
    match items with
    | item :: _ => bind (ret2 pop_ret_found (Ok item) (Ok zero)) (fun x => Ok (called pop_ncalls_delete (m_delete s item) s, x))
    | [] => bind (ret2 pop_ret_empty Unmodelled (Ok zero)) (fun x => Ok (s, x))
    end)).

Fixpoint intersects_loop (hi : gomap) (items : list T) : bool :=
  match items with
  | [] => intersects_end_ret
  | item :: r => if intersects_hit (Has_raw hi item) then intersects_hit_ret else intersects_loop hi r
  end.
(* lo, hi := s, t; if len(s) > len(t) { lo, hi = hi, lo } *)
Definition intersects_operands (s t : gomap) : gomap * gomap :=
  if intersects_swap (m_len s) (m_len t) then (t, s) else (s, t).
Definition Intersects (s t : gomap) (ord : list T) : res bool :=
  guarded intersects_tw (
    let '(lo, hi) := intersects_operands s t in
    m_range lo ord (fun items => Ok (intersects_loop hi items))).

Fixpoint hasall_loop (s : gomap) (ts : list T) : bool :=
  match ts with
  | [] => hasall_end_ret
  | t :: r => if hasall_miss (Has_raw s t) then hasall_miss_ret else hasall_loop s r
  end.
Definition HasAll (s : gomap) (ts : list T) : res bool :=
  guarded hasall_tw (Ok (if hasall_empty (m_len s) then hasall_empty_ret (Z.of_nat (length ts)) else hasall_loop s ts)).

Fixpoint hasany_loop (s : gomap) (ts : list T) : bool :=
  match ts with
  | [] => hasany_end_ret
  | t :: r => if hasany_hit (Has_raw s t) then hasany_hit_ret else hasany_loop s r
  end.
Definition HasAny (s : gomap) (ts : list T) : res bool :=
  guarded hasany_tw (Ok (if hasany_empty (m_len s) then hasany_empty_ret else hasany_loop s ts)).

Fixpoint issubset_loop (t : gomap) (items : list T) : bool :=
  match items with
  | [] => issubset_end_ret
  | item :: r => if issubset_miss (Has_raw t item) then issubset_miss_ret else issubset_loop t r
  end.
Definition IsSubset (s t : gomap) (ord : list T) : res bool :=
  guarded issubset_tw (
    if issubset_empty (m_len s) then Ok issubset_empty_ret
    else if issubset_bigger (m_len s) (m_len t) then Ok issubset_bigger_ret
    else m_range s ord (fun items => Ok (issubset_loop t items))).

Fixpoint equals_loop (t : gomap) (items : list T) : bool :=
  match items with
  | [] => equals_end_ret
  | item :: r => if equals_miss (Has_raw t item) then equals_miss_ret else equals_loop t r
  end.
Definition Equals (s t : gomap) (ord : list T) : res bool :=
  guarded equals_tw (
    if equals_len_ne (m_len s) (m_len t) then Ok equals_len_ne_ret
    else m_range s ord (fun items => Ok (equals_loop t items))).

Fixpoint append_loop (vs : goslice) (items : list T) : goslice :=
  match items with
  | [] => vs
  | item :: r => append_loop (called append_ncalls_append (sl_append vs item) vs) r
  end.
Definition Append (s : gomap) (vs : goslice) (ord : list T) : res goslice :=
  guarded append_tw (
    if append_empty (m_len s) then ret2 append_ret_empty Unmodelled (Ok vs)
    else m_range s ord (fun items => ret2 append_ret Unmodelled (Ok (append_loop vs items)))).
Definition Slice (s : gomap) (ord : list T) : res goslice :=
  guarded slice_tw (
    if slice_empty (m_len s) then ret1 slice_ret_empty (Ok None)
    else ret1 slice_ret (Append s (Some (repeat zero (Z.to_nat slice_buf_len))) ord)).

(* func Intersect(ss ...Set[T]); ord: order of `range min` *)
Fixpoint intersect_min (min : gomap) (rest : list gomap) : gomap :=
  match rest with
  | [] => min
  | s :: r => intersect_min (if intersect_smaller (m_len s) (m_len min) then s else min) r
  end.
Fixpoint intersect_inner (ss : list gomap) (v : T) : bool :=   (* false = continue nextElt *)
  match ss with
  | [] => true
  | s :: r => if intersect_miss (Has_raw s v) then false else intersect_inner r v
  end.
Fixpoint intersect_loop (ss : list gomap) (items : list T) (out : gomap) (fresh : positive) : res gomap :=
  match items with
  | [] => Ok out
  | v :: r =>
    if intersect_inner ss v
    then bind (called intersect_ncalls_add (Add out fresh [v]) (Ok out)) (fun out' => intersect_loop ss r out' fresh)
    else intersect_loop ss r out fresh
  end.
(* min := ss[0]; for _, s := range ss[1:] { if len(s) < len(min) { min = s } } *)
Definition intersect_operand (ss : list gomap) : res gomap :=
  match nth_error ss (Z.to_nat intersect_first_idx) with
  | None => PanicIndex
  | Some min0 =>
    if Z.gtb intersect_rest_lo (Z.of_nat (length ss)) then PanicIndex
    else Ok (intersect_min min0 (skipn (Z.to_nat intersect_rest_lo) ss))
  end.
Definition Intersect (ss : list gomap) (fresh : positive) (ord : list T) : res gomap :=
  guarded intersect_tw (
    if intersect_noargs (Z.of_nat (length ss)) then ret1 intersect_ret_noargs (Ok (m_make fresh))
    else bind (intersect_operand ss) (fun min =>
      m_range min ord (fun items =>
        bind (intersect_loop ss items (m_make fresh) (Pos.succ fresh)) (fun out =>     (* out := make(Set[T], len(min)) *)
        ret2 intersect_ret (Ok out) (Ok min))))).

(* Range / Keys / Values: out := make(Set); for v := range <sequence> { out.Add(v) }; return out.
   The argument is the sequence in the order it is produced (for Keys/Values: the keys resp.
   values of the argument map in the runtime's order — an input here, so every order is covered
   by quantifying over the list; a nil map is the empty sequence).  Range's argument is a
   function value: None = the nil function, whose call panics. *)
Fixpoint collect_loop (ncalls : Z) (out : gomap) (fresh : positive) (items : list T) : res gomap :=
  match items with
  | [] => Ok out
  | v :: r => bind (called ncalls (Add out fresh [v]) (Ok out)) (fun out' => collect_loop ncalls out' fresh r)
  end.
Definition Range (it : option (list T)) (fresh : positive) : res gomap :=
  guarded range_tw (
    match it with
    | None => PanicNilFunc
    | Some items =>
      bind (collect_loop range_ncalls_add (called range_ncalls_make (m_make fresh) None) (Pos.succ fresh) items) (fun out =>
      ret1 range_ret (Ok out))
    end).
Definition Keys (keys : list T) (fresh : positive) : res gomap :=
  guarded keys_tw (
    bind (collect_loop keys_ncalls_add (called keys_ncalls_make (m_make fresh) None) (Pos.succ fresh) keys) (fun out =>
    ret1 keys_ret (Ok out))).
Definition Values (vals : list T) (fresh : positive) : res gomap :=
  guarded values_tw (
    bind (collect_loop values_ncalls_add (called values_ncalls_make (m_make fresh) None) (Pos.succ fresh) vals) (fun out =>
    ret1 values_ret (Ok out))).

(* ---- histories over several named set variables (all nil initially).  [next] is the
   allocator's frontier: every address handed out so far is below it; one operation uses at most
   the addresses next and next+1. *)
Definition store := nat -> gomap.
Definition store0 : store := fun _ => None.
Definition next0 : positive := 1%positive.
Definition bump (next : positive) : positive := (next + 2)%positive.
Definition upd (st : store) (i : nat) (m : gomap) : store :=
  fun k => if Nat.eqb k i then m else st k.

Inductive op : Type :=
| ONew (i : nat) (items : list T)            (* v_i = New(items...) *)
| ONewSize (i : nat) (n : Z)
| ONil (i : nat)                             (* v_i = nil *)
| OAdd (i : nat) (items : list T)            (* v_i.Add(items...) *)
| OAddAll (i j : nat) (ord : list T)         (* v_i.AddAll(v_j) *)
| ORemove (i : nat) (items : list T)
| ORemoveAll (i j : nat) (ord : list T)
| OPop (i : nat) (ord : list T)
| OClear (i : nat)
| OClone (i j : nat)                         (* v_i = v_j.Clone() *)
| OIntersect (i : nat) (js : list nat) (ord : list T)   (* v_i = Intersect(v_j1, v_j2, …) *)
| ORange (i : nat) (it : option (list T))    (* v_i = Range(it); None: it is the nil function *)
| OKeys (i : nat) (keys : list T)
| OValues (i : nat) (vals : list T)
| OHas (i : nat) (x : T)
| OHasAll (i : nat) (ts : list T)
| OHasAny (i : nat) (ts : list T)
| OLen (i : nat)
| OIsEmpty (i : nat)
| OIntersects (i j : nat) (ord : list T)
| OIsSubset (i j : nat) (ord : list T)
| OEquals (i j : nat) (ord : list T)
| OSlice (i : nat) (ord : list T)
| OAppend (i : nat) (vs : goslice) (ord : list T).

Inductive out : Type :=
| RSet (m : gomap)         (* the set returned (for mutators: the receiver after the call) *)
| RBool (b : bool)
| RInt (z : Z)
| RElem (x : T)
| RSlice (s : goslice)
| RPanicNilMap
| RPanicIndex
| RPanicNilFunc
| RBadOrder
| RUnmodelled.

Definition fail_out {A : Type} (r : res A) : out :=
  match r with
  | Ok _ => RUnmodelled
  | PanicNilMap => RPanicNilMap | PanicIndex => RPanicIndex | PanicNilFunc => RPanicNilFunc
  | BadOrder => RBadOrder | Unmodelled => RUnmodelled
  end.

(* a call that stores its result in v_i *)
Definition assign (st : store) (i : nat) (r : res gomap) : store * out :=
  match r with Ok m => (upd st i m, RSet m) | _ => (st, fail_out r) end.
Definition observe {A : Type} (st : store) (r : res A) (f : A -> out) : store * out :=
  match r with Ok a => (st, f a) | _ => (st, fail_out r) end.

Definition step (st : store) (next : positive) (o : op) : store * out :=
  match o with
  | ONew i items => assign st i (New next items)
  | ONewSize i n => assign st i (NewSize next n)
  | ONil i => assign st i (Ok None)
  | OAdd i items => assign st i (Add (st i) next items)
  | OAddAll i j ord => assign st i (AddAll (st i) (st j) next ord)
  | ORemove i items => assign st i (Remove (st i) items)
  | ORemoveAll i j ord => assign st i (RemoveAll (st i) (st j) ord)
  | OPop i ord =>
    match Pop (st i) ord with
    | Ok (s', x) => (upd st i s', RElem x)
    | r => (st, fail_out r)
    end
  | OClear i => assign st i (Clear (st i))
  | OClone i j => assign st i (Clone (st j) next)
  | OIntersect i js ord => assign st i (Intersect (map st js) next ord)
  | ORange i it => assign st i (Range it next)
  | OKeys i keys => assign st i (Keys keys next)
  | OValues i vals => assign st i (Values vals next)
  | OHas i x => observe st (Has (st i) x) RBool
  | OHasAll i ts => observe st (HasAll (st i) ts) RBool
  | OHasAny i ts => observe st (HasAny (st i) ts) RBool
  | OLen i => observe st (Len (st i)) RInt
  | OIsEmpty i => observe st (IsEmpty (st i)) RBool
  | OIntersects i j ord => observe st (Intersects (st i) (st j) ord) RBool
  | OIsSubset i j ord => observe st (IsSubset (st i) (st j) ord) RBool
  | OEquals i j ord => observe st (Equals (st i) (st j) ord) RBool
  | OSlice i ord => observe st (Slice (st i) ord) RSlice
  | OAppend i vs ord => observe st (Append (st i) vs ord) RSlice
  end.

Fixpoint run (st : store) (next : positive) (ops : list op) : store * list out :=
  match ops with
  | [] => (st, [])
  | o :: r => let '(st1, x) := step st next o in let '(st2, xs) := run st1 (bump next) r in (st2, x :: xs)
  end.

(* the same, also returning the store after every step (what the harness dumps) *)
Fixpoint run_trace (st : store) (next : positive) (ops : list op) : list (out * store) :=
  match ops with
  | [] => []
  | o :: r => let '(st1, x) := step st next o in (x, st1) :: run_trace st1 (bump next) r
  end.

(* a legal order for every operation: the key list of whatever it ranges over (used to state that
   legal orders exist, by the worked examples and by bin/incoq-mapset) *)
Definition canonical_order (st : store) (o : op) : op :=
  match o with
  | OAddAll i j _ => OAddAll i j (m_keys (st j))
  | ORemoveAll i j _ => ORemoveAll i j (m_keys (st j))
  | OPop i _ => OPop i (m_keys (st i))
  | OIntersect i js _ =>
    OIntersect i js (match intersect_operand (map st js) with Ok m => m_keys m | _ => [] end)
  | OIntersects i j _ => OIntersects i j (m_keys (fst (intersects_operands (st i) (st j))))
  | OIsSubset i j _ => OIsSubset i j (m_keys (st i))
  | OEquals i j _ => OEquals i j (m_keys (st i))
  | OSlice i _ => OSlice i (m_keys (st i))
  | OAppend i vs _ => OAppend i vs (m_keys (st i))
  | o' => o'
  end.


(* the variable an operation may assign: every other variable keeps its value *)
Definition target (o : op) : nat :=
  match o with
  | ONew i _ | ONewSize i _ | ONil i | OAdd i _ | OAddAll i _ _ | ORemove i _ | ORemoveAll i _ _
  | OPop i _ | OClear i | OClone i _ | OIntersect i _ _ | ORange i _ | OKeys i _ | OValues i _
  | OHas i _ | OHasAll i _ | OHasAny i _ | OLen i | OIsEmpty i | OIntersects i _ _
  | OIsSubset i _ _ | OEquals i _ _ | OSlice i _ | OAppend i _ _ => i
  end.
Definition observer (o : op) : bool :=
  match o with
  | OHas _ _ | OHasAll _ _ | OHasAny _ _ | OLen _ | OIsEmpty _ | OIntersects _ _ _
  | OIsSubset _ _ _ | OEquals _ _ _ | OSlice _ _ | OAppend _ _ _ => true
  | _ => false
  end.


End Mapset.
