(* Model of /repo/mapset/mapset.go: definitions only.

   A Go map[T]struct{} is [gomap] = option (list T): None is the nil map, Some l an allocated
   map whose keys are l (kept duplicate-free by [m_set]).  The order of l is NOT the iteration
   order: every `for … := range m` takes the order the runtime chose as an extra argument [ord],
   which [m_range] accepts iff it is a duplicate-free enumeration of exactly the keys (the Go
   specification of map iteration) and otherwise answers [BadOrder].  Early exits, the choice of
   the smaller operand and all nil tests are the conditions of the Go source, regenerated into
   Gen/MapsetFacts.v on every run.  Writing to a nil map is the explicit result [PanicNilMap]. *)
From Coq Require Import ZArith List Bool.
Import ListNotations.
From Mds Require Import Gen.MapsetFacts.
Local Open Scope Z_scope.

Inductive res (A : Type) : Type :=
| Ok (a : A)
| PanicNilMap      (* assignment to an entry of a nil map *)
| PanicIndex       (* slice index/bounds out of range *)
| BadOrder.        (* the iteration order handed in is not an enumeration of the map's keys *)
Arguments Ok {A} a.
Arguments PanicNilMap {A}.
Arguments PanicIndex {A}.
Arguments BadOrder {A}.

Definition bind {A B : Type} (r : res A) (f : A -> res B) : res B :=
  match r with Ok a => f a | PanicNilMap => PanicNilMap | PanicIndex => PanicIndex | BadOrder => BadOrder end.

(* [called n yes no]: the statement containing a call that occurs n times in the source (n read
   from the source): performed when n = 1, skipped otherwise. *)
Definition called {A : Type} (n : Z) (yes no : A) : A := if Z.eqb n 1 then yes else no.

Section Mapset.
Variable T : Type.
Variable eqb : T -> T -> bool.     (* Go's == on the comparable element type *)
Variable zero : T.                 (* the zero value of T *)

Definition gomap := option (list T).
Definition goslice := option (list T).    (* None = nil slice *)

Definition mem (x : T) (l : list T) : bool := existsb (eqb x) l.
Fixpoint nodupb (l : list T) : bool :=
  match l with [] => true | x :: r => negb (mem x r) && nodupb r end.

(* ---- the built-in map operations *)
Definition m_make : gomap := Some [].
Definition m_keys (m : gomap) : list T := match m with None => [] | Some l => l end.
Definition m_len (m : gomap) : Z := Z.of_nat (length (m_keys m)).
Definition nil_ptr : Z := 0.
Definition m_ptr (m : gomap) : Z := match m with None => nil_ptr | Some _ => 1 end.
Definition m_get (m : gomap) (x : T) : bool := mem x (m_keys m).          (* _, ok := m[x] *)
Definition m_set (m : gomap) (x : T) : res gomap :=                          (* m[x] = struct{}{} *)
  match m with
  | None => PanicNilMap
  | Some l => Ok (Some (if mem x l then l else l ++ [x]))
  end.
Definition m_delete (m : gomap) (x : T) : gomap :=                           (* delete(m, x) *)
  match m with None => None | Some l => Some (filter (fun y => negb (eqb x y)) l) end.
Definition m_clear (m : gomap) : gomap :=                                    (* clear(m) *)
  match m with None => None | Some _ => Some [] end.
Definition maps_clone (m : gomap) : gomap := m.    (* maps.Clone: nil for nil, else a fresh map with the same keys *)

Definition valid_order (ord : list T) (m : gomap) : bool :=
  Nat.eqb (length ord) (length (m_keys m)) && nodupb ord && forallb (m_get m) ord.
Definition m_range {A : Type} (m : gomap) (ord : list T) (body : list T -> res A) : res A :=
  if valid_order ord m then body ord else BadOrder.

(* ---- slices *)
Definition sl_elems (s : goslice) : list T := match s with None => [] | Some l => l end.
Definition sl_append (s : goslice) (x : T) : goslice := Some (sl_elems s ++ [x]).

(* ---- func (s Set[T]) add(items []T) Set[T] *)
Fixpoint add_loop (s : gomap) (items : list T) : res gomap :=
  match items with
  | [] => Ok s
  | item :: r => bind (m_set s item) (fun s' => add_loop s' r)
  end.

(* func New(items ...T): m := make(Set[T], len(items)); return m.add(items) *)
Definition New (items : list T) : res gomap := add_loop m_make items.
(* func NewSize(n int) (n >= 0: a capacity hint) *)
Definition NewSize (n : Z) : gomap := m_make.

Definition IsEmpty (s : gomap) : bool := isempty_ret (m_len s).
Definition Len (s : gomap) : Z := len_ret (m_len s).
Definition Clear (s : gomap) : gomap := called clear_ncalls_clear (m_clear s) s.

Definition Clone (s : gomap) : gomap :=
  if clone_nil (m_ptr s) nil_ptr then called clone_ncalls_make m_make None
  else called clone_ncalls_mapsclone (maps_clone s) None.

Definition Has (s : gomap) (t : T) : bool := m_get s t.

(* func (s *Set[T]) Add(items ...T): the result is both the new *s and the value returned *)
Definition Add (s : gomap) (items : list T) : res gomap :=
  let s1 := if add_nil (m_ptr s) nil_ptr then called add_ncalls_make m_make s else s in
  add_loop s1 items.

(* func (s *Set[T]) AddAll(t Set[T]); ord: order of `range t` *)
Definition AddAll (s t : gomap) (ord : list T) : res gomap :=
  if addall_nil (m_ptr s) nil_ptr then Ok (called addall_ncalls_clone (Clone t) t)
  else m_range t ord (fun items => add_loop s items).

Fixpoint remove_loop (s : gomap) (items : list T) : gomap :=
  match items with
  | [] => s
  | item :: r =>
    if remove_break (m_len s) then s
    else remove_loop (called remove_ncalls_delete (m_delete s item) s) r
  end.
Definition Remove (s : gomap) (items : list T) : gomap := remove_loop s items.

Fixpoint removeall_loop (s : gomap) (items : list T) : gomap :=
  match items with
  | [] => s
  | item :: r =>
    if removeall_break (m_len s) then s
    else removeall_loop (called removeall_ncalls_delete (m_delete s item) s) r
  end.
Definition RemoveAll (s t : gomap) (ord : list T) : res gomap :=
  m_range t ord (fun items => Ok (removeall_loop s items)).

(* Pop: the first element of the runtime's order is deleted and returned *)
Definition Pop (s : gomap) (ord : list T) : res (gomap * T) :=
  m_range s ord (fun items =>
    match items with
    | item :: _ => Ok (called pop_ncalls_delete (m_delete s item) s, item)
    | [] => Ok (s, zero)
    end).

Fixpoint intersects_loop (hi : gomap) (items : list T) : bool :=
  match items with
  | [] => intersects_end_ret
  | item :: r => if intersects_hit (Has hi item) then intersects_hit_ret else intersects_loop hi r
  end.
(* lo, hi := s, t; if len(s) > len(t) { lo, hi = hi, lo } *)
Definition intersects_operands (s t : gomap) : gomap * gomap :=
  if intersects_swap (m_len s) (m_len t) then (t, s) else (s, t).
Definition Intersects (s t : gomap) (ord : list T) : res bool :=
  let '(lo, hi) := intersects_operands s t in
  m_range lo ord (fun items => Ok (intersects_loop hi items)).

Fixpoint hasall_loop (s : gomap) (ts : list T) : bool :=
  match ts with
  | [] => hasall_end_ret
  | t :: r => if hasall_miss (Has s t) then hasall_miss_ret else hasall_loop s r
  end.
Definition HasAll (s : gomap) (ts : list T) : bool :=
  if hasall_empty (m_len s) then hasall_empty_ret (Z.of_nat (length ts)) else hasall_loop s ts.

Fixpoint hasany_loop (s : gomap) (ts : list T) : bool :=
  match ts with
  | [] => hasany_end_ret
  | t :: r => if hasany_hit (Has s t) then hasany_hit_ret else hasany_loop s r
  end.
Definition HasAny (s : gomap) (ts : list T) : bool :=
  if hasany_empty (m_len s) then hasany_empty_ret else hasany_loop s ts.

Fixpoint issubset_loop (t : gomap) (items : list T) : bool :=
  match items with
  | [] => issubset_end_ret
  | item :: r => if issubset_miss (Has t item) then issubset_miss_ret else issubset_loop t r
  end.
Definition IsSubset (s t : gomap) (ord : list T) : res bool :=
  if issubset_empty (m_len s) then Ok issubset_empty_ret
  else if issubset_bigger (m_len s) (m_len t) then Ok issubset_bigger_ret
  else m_range s ord (fun items => Ok (issubset_loop t items)).

Fixpoint equals_loop (t : gomap) (items : list T) : bool :=
  match items with
  | [] => equals_end_ret
  | item :: r => if equals_miss (Has t item) then equals_miss_ret else equals_loop t r
  end.
Definition Equals (s t : gomap) (ord : list T) : res bool :=
  if equals_len_ne (m_len s) (m_len t) then Ok equals_len_ne_ret
  else m_range s ord (fun items => Ok (equals_loop t items)).

Fixpoint append_loop (vs : goslice) (items : list T) : goslice :=
  match items with
  | [] => vs
  | item :: r => append_loop (called append_ncalls_append (sl_append vs item) vs) r
  end.
Definition Append (s : gomap) (vs : goslice) (ord : list T) : res goslice :=
  if append_empty (m_len s) then Ok vs
  else m_range s ord (fun items => Ok (append_loop vs items)).
Definition Slice (s : gomap) (ord : list T) : res goslice :=
  if slice_empty (m_len s) then Ok None
  else Append s (Some (repeat zero (Z.to_nat slice_buf_len))) ord.

(* func Intersect(ss ...Set[T]); ord: order of `range min` *)
Fixpoint intersect_min (min : gomap) (rest : list gomap) : gomap :=
  match rest with
  | [] => min
  | s :: r => intersect_min (if intersect_smaller (m_len s) (m_len min) then s else min) r
  end.
Fixpoint intersect_inner (ss : list gomap) (v : T) : bool :=   (* false = continue nextElt *)
  match ss with
  | [] => true
  | s :: r => if intersect_miss (Has s v) then false else intersect_inner r v
  end.
Fixpoint intersect_loop (ss : list gomap) (items : list T) (out : gomap) : res gomap :=
  match items with
  | [] => Ok out
  | v :: r =>
    if intersect_inner ss v
    then bind (called intersect_ncalls_add (Add out [v]) (Ok out)) (fun out' => intersect_loop ss r out')
    else intersect_loop ss r out
  end.
(* min := ss[0]; for _, s := range ss[1:] { if len(s) < len(min) { min = s } } *)
Definition intersect_operand (ss : list gomap) : res gomap :=
  match nth_error ss (Z.to_nat intersect_first_idx) with
  | None => PanicIndex
  | Some min0 =>
    if Z.gtb intersect_rest_lo (Z.of_nat (length ss)) then PanicIndex
    else Ok (intersect_min min0 (skipn (Z.to_nat intersect_rest_lo) ss))
  end.
Definition Intersect (ss : list gomap) (ord : list T) : res gomap :=
  if intersect_noargs (Z.of_nat (length ss)) then Ok m_make
  else bind (intersect_operand ss) (fun min =>
    m_range min ord (fun items => intersect_loop ss items m_make)).

(* Range / Keys / Values: out := make(Set); for v := range <sequence> { out.Add(v) }.  The
   argument is the sequence in the order it is produced (for Keys/Values: the keys resp. values
   of the argument map in the runtime's order — an input here, so every order is covered by
   quantifying over the list). *)
Fixpoint collect_loop (ncalls : Z) (out : gomap) (items : list T) : res gomap :=
  match items with
  | [] => Ok out
  | v :: r => bind (called ncalls (Add out [v]) (Ok out)) (fun out' => collect_loop ncalls out' r)
  end.
Definition Range (items : list T) : res gomap := collect_loop range_ncalls_add m_make items.
Definition Keys (keys : list T) : res gomap := collect_loop keys_ncalls_add m_make keys.
Definition Values (vals : list T) : res gomap := collect_loop values_ncalls_add m_make vals.

(* ---- histories over several named set variables (all nil initially) *)
Definition store := nat -> gomap.
Definition store0 : store := fun _ => None.
Definition upd (st : store) (i : nat) (m : gomap) : store :=
  fun k => if Nat.eqb k i then m else st k.

Inductive op : Type :=
| ONew (i : nat) (items : list T)            (* v_i = New(items...) *)
| ONewSize (i : nat) (n : Z)
| ONil (i : nat)                             (* v_i = nil *)
| OAdd (i : nat) (items : list T)            (* v_i.Add(items...) *)
| OAddAll (i j : nat) (ord : list T)         (* v_i.AddAll(v_j) *)
| ORemove (i : nat) (items : list T)
| ORemoveAll (i j : nat) (ord : list T)
| OPop (i : nat) (ord : list T)
| OClear (i : nat)
| OClone (i j : nat)                         (* v_i = v_j.Clone() *)
| OIntersect (i : nat) (js : list nat) (ord : list T)   (* v_i = Intersect(v_j1, v_j2, …) *)
| ORange (i : nat) (items : list T)
| OKeys (i : nat) (keys : list T)
| OValues (i : nat) (vals : list T)
| OHas (i : nat) (x : T)
| OHasAll (i : nat) (ts : list T)
| OHasAny (i : nat) (ts : list T)
| OLen (i : nat)
| OIsEmpty (i : nat)
| OIntersects (i j : nat) (ord : list T)
| OIsSubset (i j : nat) (ord : list T)
| OEquals (i j : nat) (ord : list T)
| OSlice (i : nat) (ord : list T)
| OAppend (i : nat) (vs : goslice) (ord : list T).

Inductive out : Type :=
| RSet (m : gomap)         (* the set returned (for mutators: the receiver after the call) *)
| RBool (b : bool)
| RInt (z : Z)
| RElem (x : T)
| RSlice (s : goslice)
| RPanicNilMap
| RPanicIndex
| RBadOrder.

Definition fail_out {A : Type} (r : res A) : out :=
  match r with Ok _ => RPanicIndex | PanicNilMap => RPanicNilMap | PanicIndex => RPanicIndex | BadOrder => RBadOrder end.

(* a call that stores its result in v_i *)
Definition assign (st : store) (i : nat) (r : res gomap) : store * out :=
  match r with Ok m => (upd st i m, RSet m) | _ => (st, fail_out r) end.
Definition observe {A : Type} (st : store) (r : res A) (f : A -> out) : store * out :=
  match r with Ok a => (st, f a) | _ => (st, fail_out r) end.

Definition step (st : store) (o : op) : store * out :=
  match o with
  | ONew i items => assign st i (New items)
  | ONewSize i n => assign st i (Ok (NewSize n))
  | ONil i => assign st i (Ok None)
  | OAdd i items => assign st i (Add (st i) items)
  | OAddAll i j ord => assign st i (AddAll (st i) (st j) ord)
  | ORemove i items => assign st i (Ok (Remove (st i) items))
  | ORemoveAll i j ord => assign st i (RemoveAll (st i) (st j) ord)
  | OPop i ord =>
    match Pop (st i) ord with
    | Ok (s', x) => (upd st i s', RElem x)
    | r => (st, fail_out r)
    end
  | OClear i => assign st i (Ok (Clear (st i)))
  | OClone i j => assign st i (Ok (Clone (st j)))
  | OIntersect i js ord => assign st i (Intersect (map st js) ord)
  | ORange i items => assign st i (Range items)
  | OKeys i keys => assign st i (Keys keys)
  | OValues i vals => assign st i (Values vals)
  | OHas i x => (st, RBool (Has (st i) x))
  | OHasAll i ts => (st, RBool (HasAll (st i) ts))
  | OHasAny i ts => (st, RBool (HasAny (st i) ts))
  | OLen i => (st, RInt (Len (st i)))
  | OIsEmpty i => (st, RBool (IsEmpty (st i)))
  | OIntersects i j ord => observe st (Intersects (st i) (st j) ord) RBool
  | OIsSubset i j ord => observe st (IsSubset (st i) (st j) ord) RBool
  | OEquals i j ord => observe st (Equals (st i) (st j) ord) RBool
  | OSlice i ord => observe st (Slice (st i) ord) RSlice
  | OAppend i vs ord => observe st (Append (st i) vs ord) RSlice
  end.

Fixpoint run (st : store) (ops : list op) : store * list out :=
  match ops with
  | [] => (st, [])
  | o :: r => let '(st1, x) := step st o in let '(st2, xs) := run st1 r in (st2, x :: xs)
  end.

(* the same, also returning the store after every step (what the harness dumps) *)
Fixpoint run_trace (st : store) (ops : list op) : list (out * store) :=
  match ops with
  | [] => []
  | o :: r => let '(st1, x) := step st o in (x, st1) :: run_trace st1 r
  end.

End Mapset.
