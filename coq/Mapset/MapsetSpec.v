(* The reference: mathematical finite sets, as duplicate-free lists read up to order, and the
   set-theoretic meaning of every mapset operation on them.  No nil, no sizes, no early exits, no
   iteration orders (except the two places where the property itself speaks of a choice: which
   member Pop removes, and the order in which Slice/Append list the members), no addresses.
   The only panic of the package on any input is Range applied to the nil function.  The lemmas at the
   end of MapsetProofs.v ([s_adds_In] …) say in terms of membership what each function means. *)
From Coq Require Import ZArith List Bool.
Import ListNotations.
From Mds Require Import Mapset.MapsetModel.
Local Open Scope Z_scope.

Section MapsetSpec.
Variable T : Type.
Variable eqb : T -> T -> bool.
Variable zero : T.

Definition rset := list T.

Definition s_mem (x : T) (A : rset) : bool := existsb (eqb x) A.
Definition s_add (A : rset) (x : T) : rset := if s_mem x A then A else x :: A.
Definition s_adds (A : rset) (items : list T) : rset := fold_left s_add items A.       (* A ∪ items *)
Definition s_del (A : rset) (x : T) : rset := filter (fun y => negb (eqb x y)) A.
Definition s_dels (A : rset) (items : list T) : rset := fold_left s_del items A.       (* A \ items *)
Definition s_inter (A B : rset) : rset := filter (fun x => s_mem x B) A.               (* A ∩ B *)
Definition s_subset (A B : rset) : bool := forallb (fun x => s_mem x B) A.             (* A ⊆ B *)
Definition s_equal (A B : rset) : bool := s_subset A B && s_subset B A.                (* A = B *)
Definition s_meets (A B : rset) : bool := existsb (fun x => s_mem x B) A.              (* A ∩ B ≠ ∅ *)
Definition s_inter_all (As : list rset) : rset :=                                      (* ⋂ As; ∅ for no operands *)
  match As with [] => [] | A :: r => fold_left s_inter r A end.
Definition s_card (A : rset) : Z := Z.of_nat (length A).

(* reference outputs *)
Inductive sout : Type :=
| SSet (A : rset)                       (* a set with exactly these members *)
| SBool (b : bool)
| SInt (z : Z)
| SElem (x : T)
| SList (prefix : list T) (A : rset)    (* the prefix followed by each member of A exactly once, in some order *)
| SBadChoice                            (* the element said to have been popped is not a member *)
| SPanicNilFunc.                        (* Range of the nil iterator function: the call of a nil function panics *)

Definition sstore := nat -> rset.
Definition sstore0 : sstore := fun _ => [].
Definition supd (st : sstore) (i : nat) (A : rset) : sstore := fun k => if Nat.eqb k i then A else st k.
Definition sassign (st : sstore) (i : nat) (A : rset) : sstore * sout := (supd st i A, SSet A).

Definition sstep (st : sstore) (o : op T) : sstore * sout :=
  match o with
  | ONew _ i items => sassign st i (s_adds [] items)
  | ONewSize _ i _ => sassign st i []
  | ONil _ i => sassign st i []
  | OAdd _ i items => sassign st i (s_adds (st i) items)
  | OAddAll _ i j _ => sassign st i (s_adds (st i) (st j))
  | ORemove _ i items => sassign st i (s_dels (st i) items)
  | ORemoveAll _ i j _ => sassign st i (s_dels (st i) (st j))
  | OPop _ i ord =>
    match st i with
    | [] => (st, SElem zero)                                  (* empty: the zero value, nothing changes *)
    | _ => match ord with
           | x :: _ => if s_mem x (st i) then (supd st i (s_del (st i) x), SElem x) else (st, SBadChoice)
           | [] => (st, SBadChoice)
           end
    end
  | OClear _ i => sassign st i []
  | OClone _ i j => sassign st i (st j)
  | OIntersect _ i js _ => sassign st i (s_inter_all (map st js))
  | ORange _ i (Some items) => sassign st i (s_adds [] items)
  | ORange _ i None => (st, SPanicNilFunc)
  | OKeys _ i keys => sassign st i (s_adds [] keys)
  | OValues _ i vals => sassign st i (s_adds [] vals)
  | OHas _ i x => (st, SBool (s_mem x (st i)))
  | OHasAll _ i ts => (st, SBool (forallb (fun x => s_mem x (st i)) ts))
  | OHasAny _ i ts => (st, SBool (existsb (fun x => s_mem x (st i)) ts))
  | OLen _ i => (st, SInt (s_card (st i)))
  | OIsEmpty _ i => (st, SBool (Z.eqb (s_card (st i)) 0))
  | OIntersects _ i j _ => (st, SBool (s_meets (st i) (st j)))
  | OIsSubset _ i j _ => (st, SBool (s_subset (st i) (st j)))
  | OEquals _ i j _ => (st, SBool (s_equal (st i) (st j)))
  | OSlice _ i _ => (st, SList [] (st i))
  | OAppend _ i vs _ => (st, SList (sl_elems T vs) (st i))
  end.

Fixpoint srun (st : sstore) (ops : list (op T)) : sstore * list sout :=
  match ops with
  | [] => (st, [])
  | o :: r => let '(st1, x) := sstep st o in let '(st2, xs) := srun st1 r in (st2, x :: xs)
  end.

End MapsetSpec.
