(* Proofs about MapsetModel: what every method computes, in terms of membership, for every
   iteration order the runtime may choose and every combination of nil / empty / non-empty
   operands. *)
From Coq Require Import ZArith List Bool Lia Permutation.
Import ListNotations.
From Mds Require Import Gen.MapsetFacts Mapset.MapsetModel.
Local Open Scope Z_scope.

(* ---- the tripwires and return selectors hold of the source as generated on this run: each
   [by reflexivity] below re-checks one list against Gen/MapsetFacts.v *)
Lemma guarded_ok : forall (A : Type) (tw : list (Z * Z)) (r : res A), intact tw = true -> guarded tw r = r.
Proof. intros A tw r H. unfold guarded. rewrite H. reflexivity. Qed.
Lemma ret1_ok : forall (A : Type) (f : Z -> Z) (a : res A), f 1 = 1 -> ret1 f a = a.
Proof. intros A f a H. unfold ret1. rewrite H. reflexivity. Qed.
Lemma ret2_fst : forall (A : Type) (f : Z -> Z -> Z) (a b : res A), f 1 2 = 1 -> ret2 f a b = a.
Proof. intros A f a b H. unfold ret2. rewrite H. reflexivity. Qed.
Lemma ret2_snd : forall (A : Type) (f : Z -> Z -> Z) (a b : res A), f 1 2 = 2 -> ret2 f a b = b.
Proof. intros A f a b H. unfold ret2. rewrite H. reflexivity. Qed.

(* every tripwire of every modelled function at once: the statement skeletons of mapset.go are
   the ones MapsetModel.v was written for (what is ranged over, deleted from what, looked up,
   handed to which helper; that Pop, add and AddAll consult no length) *)
Definition all_tripwires : list (Z * Z) :=
  has_tw ++ addh_tw ++ new_tw ++ newsize_tw ++ isempty_tw ++ len_tw ++ clear_tw ++ clone_tw ++ add_tw ++ addall_tw ++ remove_tw ++
  removeall_tw ++ pop_tw ++ intersects_tw ++ hasall_tw ++ hasany_tw ++ issubset_tw ++ equals_tw ++ append_tw ++ slice_tw ++
  intersect_tw ++ range_tw ++ keys_tw ++ values_tw.
Lemma skeleton_intact : intact all_tripwires = true /\ (0 < length all_tripwires)%nat.
Proof. split; [reflexivity | cbn; lia]. Qed.

Section Proofs.
Variable T : Type.
Variable eqb : T -> T -> bool.
Variable zero : T.
Hypothesis eqb_spec : forall x y, eqb x y = true <-> x = y.

Notation gomap := (gomap T).
Notation mem := (mem T eqb).
Notation m_keys := (m_keys T).
Notation m_len := (m_len T).
Notation m_get := (m_get T eqb).

(* the representation invariant of a map value: keys are distinct *)
Definition wf (m : gomap) : Prop := NoDup (m_keys m).
Definition is_nil (m : gomap) : Prop := m = None.
(* x is a member of m *)
Definition has (m : gomap) (x : T) : Prop := In x (m_keys m).

Lemma eqb_refl : forall x, eqb x x = true.
Proof. intro x. apply eqb_spec. reflexivity. Qed.

Lemma eqb_false : forall x y, eqb x y = false <-> x <> y.
Proof.
  intros x y. split.
  - intros H E. apply eqb_spec in E. congruence.
  - intro H. destruct (eqb x y) eqn:E; [apply eqb_spec in E; contradiction | reflexivity].
Qed.

Lemma mem_In : forall x l, mem x l = true <-> In x l.
Proof.
  intros x l. unfold MapsetModel.mem. rewrite existsb_exists. split.
  - intros [y [Hy E]]. apply eqb_spec in E. subst. exact Hy.
  - intro H. exists x. split; [exact H | apply eqb_refl].
Qed.

Lemma mem_false : forall x l, mem x l = false <-> ~ In x l.
Proof.
  intros x l. rewrite <- mem_In. destruct (mem x l); split; congruence.
Qed.

Lemma nodupb_NoDup : forall l, nodupb T eqb l = true <-> NoDup l.
Proof.
  induction l as [|x r IH]; cbn [nodupb].
  - split; [constructor | reflexivity].
  - rewrite andb_true_iff, negb_true_iff, mem_false, IH. split.
    + intros [H1 H2]. constructor; assumption.
    + intro H. inversion H; subst. split; assumption.
Qed.

Lemma m_get_has : forall m x, m_get m x = true <-> has m x.
Proof. intros. unfold MapsetModel.m_get, has. apply mem_In. Qed.

Lemma Has_has : forall m x, Has_raw T eqb m x = true <-> has m x.
Proof. intros. apply m_get_has. Qed.

Lemma Has_false : forall m x, Has_raw T eqb m x = false <-> ~ has m x.
Proof. intros. rewrite <- Has_has. destruct (Has_raw T eqb m x); split; congruence. Qed.

Theorem Has_spec : forall m x, exists b, Has T eqb m x = Ok b /\ (b = true <-> has m x).
Proof. intros m x. unfold Has. rewrite guarded_ok by reflexivity. eexists. split; [reflexivity | apply Has_has]. Qed.

Lemma m_len_nonneg : forall m, 0 <= m_len m.
Proof. intro. unfold MapsetModel.m_len. lia. Qed.

Lemma m_len_zero : forall m, Z.eqb (m_len m) 0 = true <-> m_keys m = [].
Proof.
  intro m. unfold MapsetModel.m_len. rewrite Z.eqb_eq. destruct (m_keys m); cbn [length]; split; intro H; try reflexivity; try lia; discriminate.
Qed.

Lemma m_len_zero_false : forall m, Z.eqb (m_len m) 0 = false -> m_keys m <> [].
Proof. intros m H E. apply m_len_zero in E. congruence. Qed.

Lemma wf_nil : wf None.
Proof. constructor. Qed.
Lemma wf_make : forall p, wf (m_make T p).
Proof. constructor. Qed.

(* ---- iteration orders: [valid_order] accepts exactly the enumerations of the keys *)
Lemma valid_order_sound : forall ord m, wf m -> valid_order T eqb ord m = true ->
  NoDup ord /\ (forall x, In x ord <-> has m x) /\ length ord = length (m_keys m).
Proof.
  intros ord m Hwf H. unfold valid_order in H.
  apply andb_true_iff in H. destruct H as [H H3]. apply andb_true_iff in H. destruct H as [H1 H2].
  apply Nat.eqb_eq in H1. apply nodupb_NoDup in H2. rewrite forallb_forall in H3.
  assert (Hincl : incl ord (m_keys m)).
  { intros x Hx. apply m_get_has. apply H3. exact Hx. }
  split; [exact H2|]. split; [|exact H1].
  intro x. split; [apply Hincl|].
  apply (NoDup_length_incl H2); [lia | exact Hincl].
Qed.

Lemma valid_order_complete : forall ord m, Permutation ord (m_keys m) -> wf m -> valid_order T eqb ord m = true.
Proof.
  intros ord m HP Hwf. unfold valid_order.
  rewrite (Permutation_length HP), Nat.eqb_refl. cbn [andb].
  apply andb_true_iff. split.
  - apply nodupb_NoDup. apply (Permutation_NoDup (Permutation_sym HP)). exact Hwf.
  - apply forallb_forall. intros x Hx. apply m_get_has. unfold has. apply (Permutation_in _ HP). exact Hx.
Qed.

Lemma valid_order_keys : forall m, wf m -> valid_order T eqb (m_keys m) m = true.
Proof. intros. apply valid_order_complete; [apply Permutation_refl | assumption]. Qed.

Lemma valid_order_perm : forall ord m, wf m -> valid_order T eqb ord m = true -> Permutation ord (m_keys m).
Proof.
  intros ord m Hwf H. destruct (valid_order_sound _ _ Hwf H) as [H1 [H2 _]].
  apply NoDup_Permutation; [exact H1 | exact Hwf | exact H2].
Qed.

(* ---- built-in map operations *)
Lemma m_set_spec : forall p l x, exists l',
  m_set T eqb (Some (p, l)) x = Ok (Some (p, l')) /\ (forall y, In y l' <-> In y l \/ y = x) /\ (NoDup l -> NoDup l').
Proof.
  intros p l x. cbn [m_set]. destruct (mem x l) eqn:E.
  - exists l. split; [reflexivity|]. split; [|auto].
    intro y. split; [auto|]. intros [H|H]; [exact H | subst; apply mem_In; exact E].
  - exists (l ++ [x]). split; [reflexivity|]. split.
    + intro y. rewrite in_app_iff. cbn [In]. split; intros [H|H]; auto. destruct H as [H|[]]. auto.
    + intro H. apply mem_false in E.
      apply (Permutation_NoDup (l := x :: l)); [|constructor; assumption].
      apply Permutation_cons_append.
Qed.

Lemma m_delete_spec : forall m x,
  (forall y, has (m_delete T eqb m x) y <-> has m y /\ y <> x) /\ (wf m -> wf (m_delete T eqb m x)) /\
  (m_delete T eqb m x = None <-> m = None).
Proof.
  intros m x. destruct m as [[p l]|]; cbn [m_delete]; unfold has, wf; cbn [MapsetModel.m_keys].
  - split; [|split].
    + intro y. rewrite filter_In, negb_true_iff, eqb_false. split; intros [H1 H2]; split; auto.
    + apply NoDup_filter.
    + split; discriminate.
  - split; [|split]; [intro y; cbn [In]; tauto | auto | tauto].
Qed.

(* ---- Set.add / New / Add *)
Lemma add_loop_spec : forall items p l, exists l',
  add_loop T eqb (Some (p, l)) items = Ok (Some (p, l')) /\ (forall y, In y l' <-> In y l \/ In y items) /\ (NoDup l -> NoDup l').
Proof.
  induction items as [|x r IH]; intros p l; cbn [add_loop].
  - exists l. split; [reflexivity|]. split; [|auto]. intro y. cbn [In]. tauto.
  - destruct (m_set_spec p l x) as [l1 [E1 [M1 N1]]]. rewrite E1. cbn [bind].
    destruct (IH p l1) as [l2 [E2 [M2 N2]]]. exists l2. split; [exact E2|]. split; [|auto].
    intro y. rewrite M2, M1. cbn [In]. intuition.
Qed.

(* s.add(items) returns s itself: same address, the items added *)
Lemma add_helper_spec : forall items p l, exists l',
  add_helper T eqb (Some (p, l)) items = Ok (Some (p, l')) /\ (forall y, In y l' <-> In y l \/ In y items) /\ (NoDup l -> NoDup l').
Proof.
  intros items p l. destruct (add_loop_spec items p l) as [l' [E H]]. exists l'. split; [|exact H].
  unfold add_helper. rewrite E. cbn [bind]. apply ret1_ok. reflexivity.
Qed.

(* New: a map at the fresh address holding exactly the items *)
Theorem New_spec : forall fresh items, exists l,
  New T eqb fresh items = Ok (Some (fresh, l)) /\ NoDup l /\ (forall y, In y l <-> In y items).
Proof.
  intros fresh items. unfold New. rewrite guarded_ok by reflexivity. rewrite ret1_ok by reflexivity.
  change (called new_ncalls_make (m_make T fresh) None) with (Some (fresh, @nil T)).
  destruct (add_helper_spec items fresh []) as [l [E [M N]]].
  exists l. split; [exact E|]. split; [apply N; constructor|]. intro y. rewrite M. cbn [In]. tauto.
Qed.

Theorem NewSize_spec : forall fresh n, NewSize T fresh n = Ok (Some (fresh, [])).
Proof. intros. unfold NewSize. rewrite guarded_ok by reflexivity. rewrite ret1_ok by reflexivity. reflexivity. Qed.

Lemma ptr_nil : forall m : gomap, Z.eqb (m_ptr T m) (nil_ptr) = true <-> m = None.
Proof. intro m. destruct m as [[p l]|]; cbn; split; congruence. Qed.

(* the address a pointer-receiver method leaves in *s: the old one, or the fresh one for a nil receiver *)
Definition addr_or (s : gomap) (fresh : positive) : positive := match s with None => fresh | Some (p, _) => p end.

Theorem Add_spec : forall s fresh items, wf s -> exists l,
  Add T eqb s fresh items = Ok (Some (addr_or s fresh, l)) /\ NoDup l /\ (forall y, In y l <-> has s y \/ In y items).
Proof.
  intros s fresh items Hwf. unfold Add. rewrite guarded_ok by reflexivity. unfold add_nil.
  destruct s as [[p l0]|]; cbn [m_ptr nil_ptr Z.eqb addr_or bind].
  - destruct (add_helper_spec items p l0) as [l [E [M N]]]. exists l. split; [exact E|]. split; [apply N; exact Hwf|]. exact M.
  - rewrite ret1_ok by reflexivity. change (called add_ncalls_make (m_make T fresh) None) with (Some (fresh, @nil T)). cbn [bind].
    destruct (add_helper_spec items fresh []) as [l [E [M N]]]. exists l. split; [exact E|].
    split; [apply N; constructor|]. intro y. rewrite M. unfold has. cbn [MapsetModel.m_keys In]. tauto.
Qed.

(* ---- Clone / Clear / Len / IsEmpty *)
(* Clone: never nil, the same keys, at the fresh address *)
Theorem Clone_spec : forall s fresh, Clone T s fresh = Ok (Some (fresh, m_keys s)).
Proof.
  intros s fresh. unfold Clone. rewrite guarded_ok by reflexivity. unfold clone_nil.
  destruct s as [[p l0]|]; cbn [m_ptr nil_ptr Z.eqb].
  - rewrite ret2_snd by reflexivity. reflexivity.
  - rewrite ret2_fst by reflexivity. reflexivity.
Qed.

(* Clear: returns its receiver (same address, nil stays nil), emptied *)
Theorem Clear_spec : forall s, exists r, Clear T s = Ok r /\ m_keys r = [] /\ m_ptr T r = m_ptr T s /\ (r = None <-> s = None).
Proof.
  intro s. unfold Clear. rewrite guarded_ok by reflexivity. rewrite ret1_ok by reflexivity.
  eexists. split; [reflexivity|]. destruct s as [[p l]|]; cbn; (split; [reflexivity|]); (split; [reflexivity|]); split; congruence.
Qed.

Theorem Len_spec : forall s, Len T s = Ok (Z.of_nat (length (m_keys s))).
Proof. intro s. unfold Len. rewrite guarded_ok by reflexivity. reflexivity. Qed.

Theorem IsEmpty_spec : forall s, exists b, IsEmpty T s = Ok b /\ b = Z.eqb (m_len s) 0 /\ (b = true <-> (forall x, ~ has s x)).
Proof.
  intro s. unfold IsEmpty. rewrite guarded_ok by reflexivity. eexists. split; [reflexivity|]. split; [reflexivity|].
  unfold isempty_ret. rewrite m_len_zero. unfold has. split.
  - intros E x. rewrite E. auto.
  - intro H. destruct (m_keys s) as [|x r]; [reflexivity|]. exfalso. apply (H x). left. reflexivity.
Qed.

(* ---- the predicates *)
Lemma intersects_loop_spec : forall hi items,
  intersects_loop T eqb hi items = true <-> exists x, In x items /\ has hi x.
Proof.
  intros hi. induction items as [|x r IH]; cbn [intersects_loop].
  - unfold intersects_end_ret. split; [discriminate | intros [x [[] _]]].
  - unfold intersects_hit, intersects_hit_ret. destruct (Has_raw T eqb hi x) eqn:E.
    + split; [|reflexivity]. intros _. exists x. split; [left; reflexivity | apply Has_has; exact E].
    + rewrite IH. apply Has_false in E. split.
      * intros [y [H1 H2]]. exists y. split; [right; exact H1 | exact H2].
      * intros [y [[H1|H1] H2]]; [subst; contradiction | exists y; auto].
Qed.

(* Intersects: for every order, on every pair of operands (nil, empty or not) *)
Theorem Intersects_spec : forall s t ord, wf s -> wf t ->
  match Intersects T eqb s t ord with
  | Ok b => b = true <-> exists x, has s x /\ has t x
  | BadOrder => valid_order T eqb ord (fst (intersects_operands T s t)) = false
  | _ => False
  end.
Proof.
  intros s t ord Hs Ht. unfold Intersects. rewrite guarded_ok by reflexivity. unfold intersects_operands, m_range.
  destruct (intersects_swap (m_len s) (m_len t)); cbn [fst].
  - destruct (valid_order T eqb ord t) eqn:V; [|reflexivity].
    destruct (valid_order_sound _ _ Ht V) as [_ [M _]].
    rewrite intersects_loop_spec. split; intros [x [H1 H2]]; exists x; rewrite M in *; tauto.
  - destruct (valid_order T eqb ord s) eqn:V; [|reflexivity].
    destruct (valid_order_sound _ _ Hs V) as [_ [M _]].
    rewrite intersects_loop_spec. split; intros [x [H1 H2]]; exists x; rewrite M in *; tauto.
Qed.

Lemma hasall_loop_spec : forall s ts, hasall_loop T eqb s ts = true <-> forall x, In x ts -> has s x.
Proof.
  intros s. induction ts as [|x r IH]; cbn [hasall_loop].
  - unfold hasall_end_ret. split; [intros _ x [] | reflexivity].
  - unfold hasall_miss, hasall_miss_ret. destruct (Has_raw T eqb s x) eqn:E; cbn [negb].
    + rewrite IH. apply Has_has in E. split.
      * intros H y [Hy|Hy]; [subst; exact E | auto].
      * intros H y Hy. apply H. right. exact Hy.
    + apply Has_false in E. split; [discriminate|]. intro H. exfalso. apply E. apply H. left. reflexivity.
Qed.

Theorem HasAll_spec : forall s ts, exists b, HasAll T eqb s ts = Ok b /\ (b = true <-> forall x, In x ts -> has s x).
Proof.
  intros s ts. unfold HasAll. rewrite guarded_ok by reflexivity. eexists. split; [reflexivity|]. unfold hasall_empty, hasall_empty_ret.
  destruct (Z.eqb (m_len s) 0) eqn:E.
  - apply m_len_zero in E. unfold has. rewrite E. rewrite Z.eqb_eq. destruct ts as [|x r]; cbn [length].
    + split; [intros _ x [] | reflexivity].
    + split; [lia|]. intro H. destruct (H x). left. reflexivity.
  - apply hasall_loop_spec.
Qed.

Lemma hasany_loop_spec : forall s ts, hasany_loop T eqb s ts = true <-> exists x, In x ts /\ has s x.
Proof.
  intros s. induction ts as [|x r IH]; cbn [hasany_loop].
  - unfold hasany_end_ret. split; [discriminate | intros [x [[] _]]].
  - unfold hasany_hit, hasany_hit_ret. destruct (Has_raw T eqb s x) eqn:E.
    + split; [|reflexivity]. intros _. exists x. split; [left; reflexivity | apply Has_has; exact E].
    + rewrite IH. apply Has_false in E. split.
      * intros [y [H1 H2]]. exists y. split; [right; exact H1 | exact H2].
      * intros [y [[H1|H1] H2]]; [subst; contradiction | exists y; auto].
Qed.

Theorem HasAny_spec : forall s ts, exists b, HasAny T eqb s ts = Ok b /\ (b = true <-> exists x, In x ts /\ has s x).
Proof.
  intros s ts. unfold HasAny. rewrite guarded_ok by reflexivity. eexists. split; [reflexivity|]. unfold hasany_empty, hasany_empty_ret.
  destruct (Z.eqb (m_len s) 0) eqn:E.
  - apply m_len_zero in E. unfold has. rewrite E. split; [discriminate | intros [x [_ []]]].
  - apply hasany_loop_spec.
Qed.

Lemma issubset_loop_spec : forall t items, issubset_loop T eqb t items = true <-> forall x, In x items -> has t x.
Proof.
  intros t. induction items as [|x r IH]; cbn [issubset_loop].
  - unfold issubset_end_ret. split; [intros _ x [] | reflexivity].
  - unfold issubset_miss, issubset_miss_ret. destruct (Has_raw T eqb t x) eqn:E; cbn [negb].
    + rewrite IH. apply Has_has in E. split.
      * intros H y [Hy|Hy]; [subst; exact E | auto].
      * intros H y Hy. apply H. right. exact Hy.
    + apply Has_false in E. split; [discriminate|]. intro H. exfalso. apply E. apply H. left. reflexivity.
Qed.

Theorem IsSubset_spec : forall s t ord, wf s -> wf t ->
  match IsSubset T eqb s t ord with
  | Ok b => b = true <-> forall x, has s x -> has t x
  | BadOrder => valid_order T eqb ord s = false
  | _ => False
  end.
Proof.
  intros s t ord Hs Ht. unfold IsSubset. rewrite guarded_ok by reflexivity. unfold issubset_empty, issubset_empty_ret, issubset_bigger, issubset_bigger_ret, m_range.
  destruct (Z.eqb (m_len s) 0) eqn:E.
  - apply m_len_zero in E. unfold has. rewrite E. split; [intros _ x [] | reflexivity].
  - destruct (Z.gtb (m_len s) (m_len t)) eqn:G.
    + split; [discriminate|]. intro H. exfalso.
      assert (L : (length (m_keys s) <= length (m_keys t))%nat) by (apply NoDup_incl_length; [exact Hs | exact H]).
      unfold MapsetModel.m_len in G. rewrite Z.gtb_lt in G. lia.
    + destruct (valid_order T eqb ord s) eqn:V; [|reflexivity].
      destruct (valid_order_sound _ _ Hs V) as [_ [M _]].
      rewrite issubset_loop_spec. split; intros H x Hx; apply H; apply M; exact Hx.
Qed.

Lemma equals_loop_spec : forall t items, equals_loop T eqb t items = true <-> forall x, In x items -> has t x.
Proof.
  intros t. induction items as [|x r IH]; cbn [equals_loop].
  - unfold equals_end_ret. split; [intros _ x [] | reflexivity].
  - unfold equals_miss, equals_miss_ret. destruct (Has_raw T eqb t x) eqn:E; cbn [negb].
    + rewrite IH. apply Has_has in E. split.
      * intros H y [Hy|Hy]; [subst; exact E | auto].
      * intros H y Hy. apply H. right. exact Hy.
    + apply Has_false in E. split; [discriminate|]. intro H. exfalso. apply E. apply H. left. reflexivity.
Qed.

Theorem Equals_spec : forall s t ord, wf s -> wf t ->
  match Equals T eqb s t ord with
  | Ok b => b = true <-> forall x, has s x <-> has t x
  | BadOrder => valid_order T eqb ord s = false
  | _ => False
  end.
Proof.
  intros s t ord Hs Ht. unfold Equals. rewrite guarded_ok by reflexivity. unfold equals_len_ne, equals_len_ne_ret, m_range.
  destruct (Z.eqb (m_len s) (m_len t)) eqn:E; cbn [negb].
  - destruct (valid_order T eqb ord s) eqn:V; [|reflexivity].
    destruct (valid_order_sound _ _ Hs V) as [_ [M _]].
    rewrite equals_loop_spec. apply Z.eqb_eq in E. unfold MapsetModel.m_len in E.
    split.
    + intros H x. split; [intro Hx; apply H; apply M; exact Hx|].
      apply (NoDup_length_incl Hs); [lia|]. intros y Hy. apply H. apply M. exact Hy.
    + intros H x Hx. apply H. apply M. exact Hx.
  - split; [discriminate|]. intro H. exfalso. apply Z.eqb_neq in E. apply E. unfold MapsetModel.m_len.
    f_equal. apply Permutation_length. apply NoDup_Permutation; [exact Hs | exact Ht | exact H].
Qed.

End Proofs.
