(* Refinement over histories: every run of the model over several named set variables, with
   whatever legal iteration orders the runtime chose, produces the outputs of the reference
   (mathematical sets, MapsetSpec) and keeps every variable equal, as a set, to its reference. *)
From Coq Require Import ZArith List Bool Lia Permutation.
Import ListNotations.
From Mds Require Import Gen.MapsetFacts Mapset.MapsetModel Mapset.MapsetSpec Mapset.MapsetProofs Mapset.MapsetProofsMut.
Local Open Scope Z_scope.

Section Hist.
Variable T : Type.
Variable eqb : T -> T -> bool.
Variable zero : T.
Hypothesis eqb_spec : forall x y, eqb x y = true <-> x = y.

Notation gomap := (gomap T).
Notation m_keys := (m_keys T).
Notation wf := (wf T).
Notation has := (has T).
Notation rset := (rset T).
Notation canonical_order := (canonical_order T).
Notation target := (target T).
Notation observer := (observer T).

(* ---- what the reference functions mean, in terms of membership *)
Lemma s_mem_In : forall x (A : rset), s_mem T eqb x A = true <-> In x A.
Proof. exact (mem_In T eqb eqb_spec). Qed.

Lemma s_add_spec : forall (A : rset) x,
  (forall y, In y (s_add T eqb A x) <-> In y A \/ y = x) /\ (NoDup A -> NoDup (s_add T eqb A x)).
Proof.
  intros A x. unfold s_add. destruct (s_mem T eqb x A) eqn:E.
  - apply s_mem_In in E. split; [|auto]. intro y. split; [auto|]. intros [H|H]; [exact H | subst; exact E].
  - assert (N : ~ In x A) by (intro H; apply s_mem_In in H; congruence).
    split.
    + intro y. cbn [In]. split; intros [H|H]; auto.
    + intro H. constructor; assumption.
Qed.

Lemma s_adds_In : forall items (A : rset),
  (forall y, In y (s_adds T eqb A items) <-> In y A \/ In y items) /\ (NoDup A -> NoDup (s_adds T eqb A items)).
Proof.
  unfold s_adds. induction items as [|x r IH]; intro A; cbn [fold_left].
  - split; [|auto]. intro y. cbn [In]. tauto.
  - destruct (IH (s_add T eqb A x)) as [M N]. destruct (s_add_spec A x) as [M1 N1]. split.
    + intro y. rewrite M, M1. cbn [In]. intuition.
    + intro H. apply N. apply N1. exact H.
Qed.

Lemma s_del_spec : forall (A : rset) x,
  (forall y, In y (s_del T eqb A x) <-> In y A /\ y <> x) /\ (NoDup A -> NoDup (s_del T eqb A x)).
Proof.
  intros A x. unfold s_del. split; [|apply NoDup_filter].
  intro y. rewrite filter_In, negb_true_iff, (eqb_false T eqb eqb_spec). split; intros [H1 H2]; split; auto.
Qed.

Lemma s_dels_In : forall items (A : rset),
  (forall y, In y (s_dels T eqb A items) <-> In y A /\ ~ In y items) /\ (NoDup A -> NoDup (s_dels T eqb A items)).
Proof.
  unfold s_dels. induction items as [|x r IH]; intro A; cbn [fold_left].
  - split; [|auto]. intro y. cbn [In]. tauto.
  - destruct (IH (s_del T eqb A x)) as [M N]. destruct (s_del_spec A x) as [M1 N1]. split.
    + intro y. rewrite M, M1. cbn [In]. split.
      * intros [[H1 H2] H3]. split; [exact H1|]. intros [H|H]; [subst; apply H2; reflexivity | contradiction].
      * intros [H1 H2]. split; [split; [exact H1|]|]; intro H; apply H2; [left; subst; reflexivity | right; exact H].
    + intro H. apply N. apply N1. exact H.
Qed.

Lemma s_inter_In : forall (A B : rset),
  (forall y, In y (s_inter T eqb A B) <-> In y A /\ In y B) /\ (NoDup A -> NoDup (s_inter T eqb A B)).
Proof.
  intros A B. unfold s_inter. split; [|apply NoDup_filter].
  intro y. rewrite filter_In, s_mem_In. tauto.
Qed.

Lemma s_inter_fold : forall (r : list rset) (A : rset),
  (forall y, In y (fold_left (s_inter T eqb) r A) <-> In y A /\ forall B, In B r -> In y B) /\
  (NoDup A -> NoDup (fold_left (s_inter T eqb) r A)).
Proof.
  induction r as [|B r IH]; intro A; cbn [fold_left].
  - split; [|auto]. intro y. split; [intro H; split; [exact H | intros B []] | tauto].
  - destruct (IH (s_inter T eqb A B)) as [M N]. destruct (s_inter_In A B) as [M1 N1]. split.
    + intro y. rewrite M, M1. cbn [In]. split.
      * intros [[H1 H2] H3]. split; [exact H1|]. intros B' [E|H]; [subst; exact H2 | apply H3; exact H].
      * intros [H1 H2]. split; [split; [exact H1 | apply H2; left; reflexivity]|]. intros B' H. apply H2. right. exact H.
    + intro H. apply N. apply N1. exact H.
Qed.

Lemma s_inter_all_In : forall (As : list rset), Forall (@NoDup T) As ->
  (forall y, In y (s_inter_all T eqb As) <-> As <> [] /\ forall B, In B As -> In y B) /\ NoDup (s_inter_all T eqb As).
Proof.
  intros As H. destruct As as [|A r]; cbn [s_inter_all].
  - split; [|constructor]. intro y. cbn [In]. split; [tauto | intros [E _]; congruence].
  - destruct (s_inter_fold r A) as [M N]. inversion H as [|? ? HA Hr]; subst. split; [|apply N; exact HA].
    intro y. rewrite M. cbn [In]. split.
    + intros [H1 H2]. split; [discriminate|]. intros B [E|HB]; [subst; exact H1 | apply H2; exact HB].
    + intros [_ H1]. split; [apply H1; left; reflexivity|]. intros B HB. apply H1. right. exact HB.
Qed.

Lemma s_subset_spec : forall (A B : rset), s_subset T eqb A B = true <-> forall x, In x A -> In x B.
Proof.
  intros A B. unfold s_subset. rewrite forallb_forall. split; intros H x Hx; [apply s_mem_In | apply s_mem_In]; apply H; exact Hx.
Qed.

Lemma s_equal_spec : forall (A B : rset), s_equal T eqb A B = true <-> forall x, In x A <-> In x B.
Proof.
  intros A B. unfold s_equal. rewrite andb_true_iff, !s_subset_spec. split.
  - intros [H1 H2] x. split; auto.
  - intro H. split; intros x Hx; apply H; exact Hx.
Qed.

Lemma s_meets_spec : forall (A B : rset), s_meets T eqb A B = true <-> exists x, In x A /\ In x B.
Proof.
  intros A B. unfold s_meets. rewrite existsb_exists. split; intros [x [H1 H2]]; exists x; (split; [exact H1|]); apply s_mem_In; exact H2.
Qed.

(* ---- the refinement relation *)
Definition rel (m : gomap) (A : rset) : Prop := NoDup (m_keys m) /\ NoDup A /\ forall x, In x (m_keys m) <-> In x A.
Definition R (st : store T) (sst : sstore T) : Prop := forall i, rel (st i) (sst i).

Definition out_ok (o : out T) (so : sout T) : Prop :=
  match o, so with
  | RSet _ m, SSet _ A => rel m A
  | RBool _ b, SBool _ b' => b = b'
  | RInt _ z, SInt _ z' => z = z'
  | RElem _ x, SElem _ x' => x = x'
  | RSlice _ s, SList _ pre A => exists l, sl_elems T s = pre ++ l /\ Permutation l A
  | RPanicNilFunc _, SPanicNilFunc _ => True       (* Range of the nil function: both say it panics *)
  | _, _ => False
  end.

Lemma rel_perm : forall m A, rel m A -> Permutation (m_keys m) A.
Proof. intros m A [H1 [H2 H3]]. apply NoDup_Permutation; assumption. Qed.

Lemma rel_length : forall m A, rel m A -> length (m_keys m) = length A.
Proof. intros. apply Permutation_length. apply rel_perm. assumption. Qed.

Lemma rel_nil : forall m A, rel m A -> (m_keys m = [] <-> A = []).
Proof.
  intros m A H. pose proof (rel_length _ _ H) as L. split; intro E; rewrite E in L; cbn [length] in L.
  - destruct A; [reflexivity | discriminate].
  - destruct (m_keys m); [reflexivity | discriminate].
Qed.

Lemma R0 : R (store0 T) (sstore0 T).
Proof. intro i. split; [constructor|]. split; [constructor|]. intro x. cbn. tauto. Qed.

Lemma R_upd : forall st sst i m A, R st sst -> rel m A -> R (upd T st i m) (supd T sst i A).
Proof.
  intros st sst i m A HR Hrel k. unfold upd, supd. destruct (Nat.eqb k i); [exact Hrel | apply HR].
Qed.

Lemma bool_eq : forall (b b' : bool) (P : Prop), (b = true <-> P) -> (b' = true <-> P) -> b = b'.
Proof.
  intros b b' P H H'. destruct b, b'; try reflexivity.
  - assert (HP : P) by (apply H; reflexivity). apply H' in HP. discriminate.
  - assert (HP : P) by (apply H'; reflexivity). apply H in HP. discriminate.
Qed.

Lemma assign_ok : forall st sst i m A, R st sst -> rel m A ->
  R (fst (assign T st i (Ok m))) (fst (sassign T sst i A)) /\ out_ok (snd (assign T st i (Ok m))) (snd (sassign T sst i A)).
Proof.
  intros. cbn [assign sassign fst snd]. split; [apply R_upd; assumption | assumption].
Qed.

Definition good_step (st : store T) (next : positive) (sst : sstore T) (o : op T) : Prop :=
  snd (step T eqb zero st next o) = RBadOrder T \/
  (R (fst (step T eqb zero st next o)) (fst (sstep T eqb zero sst o)) /\
   out_ok (snd (step T eqb zero st next o)) (snd (sstep T eqb zero sst o))).

(* a set constructed from a list of items *)
Lemma rel_of_items : forall p l items, NoDup l -> (forall y, In y l <-> In y items) -> rel (Some (p, l)) (s_adds T eqb [] items).
Proof.
  intros p l items N M. destruct (s_adds_In items []) as [M1 N1].
  split; [exact N|]. split; [apply N1; constructor|]. intro y. cbn [MapsetModel.m_keys]. rewrite M, M1. cbn [In]. tauto.
Qed.

Theorem step_refines : forall st next sst o, R st sst -> good_step st next sst o.
Proof.
  intros st next sst o HR. unfold good_step.
  destruct o as [i items|i n|i|i items|i j ord|i items|i j ord|i ord|i|i j|i js ord|i [items|]|i keys|i vals
                |i x|i ts|i ts|i|i|i j ord|i j ord|i j ord|i ord|i vs ord]; cbn [step sstep].
  - (* New *) right. destruct (New_spec T eqb eqb_spec next items) as [l [E [N M]]]. rewrite E.
    apply assign_ok; [exact HR | apply rel_of_items; assumption].
  - (* NewSize *) right. rewrite NewSize_spec. apply assign_ok; [exact HR|]. split; [constructor|]. split; [constructor|]. intro x. cbn. tauto.
  - (* nil *) right. apply assign_ok; [exact HR|]. split; [constructor|]. split; [constructor|]. intro x. cbn. tauto.
  - (* Add *) right. destruct (HR i) as [W [WA MA]].
    destruct (Add_spec T eqb eqb_spec (st i) next items W) as [l [E [N M]]]. rewrite E.
    apply assign_ok; [exact HR|]. destruct (s_adds_In items (sst i)) as [M1 N1].
    split; [exact N|]. split; [apply N1; exact WA|]. intro y. cbn [MapsetModel.m_keys]. rewrite M, M1. unfold MapsetProofs.has. rewrite MA. tauto.
  - (* AddAll *) destruct (HR i) as [W [WA MA]]. destruct (HR j) as [Wj [WAj MAj]].
    pose proof (AddAll_spec T eqb eqb_spec (st i) (st j) next ord W Wj) as H.
    destruct (AddAll T eqb (st i) (st j) next ord) as [r| | | | |]; try contradiction; [|left; reflexivity].
    right. destruct H as [l [E [N M]]]. subst r. apply assign_ok; [exact HR|].
    destruct (s_adds_In (sst j) (sst i)) as [M1 N1].
    split; [exact N|]. split; [apply N1; exact WA|]. intro y. cbn [MapsetModel.m_keys]. rewrite M, M1. unfold MapsetProofs.has. rewrite MA, MAj. tauto.
  - (* Remove *) right. destruct (HR i) as [W [WA MA]].
    destruct (Remove_spec T eqb eqb_spec (st i) items) as [r [E [M [W1 _]]]]. rewrite E.
    apply assign_ok; [exact HR|]. destruct (s_dels_In items (sst i)) as [M1 N1].
    split; [apply W1; exact W|]. split; [apply N1; exact WA|]. intro y. rewrite M1, <- MA. apply M.
  - (* RemoveAll *) destruct (HR i) as [W [WA MA]]. destruct (HR j) as [Wj [WAj MAj]].
    pose proof (RemoveAll_spec T eqb eqb_spec (st i) (st j) ord W Wj) as H.
    destruct (RemoveAll T eqb (st i) (st j) ord) as [r| | | | |]; try contradiction; [|left; reflexivity].
    right. destruct H as [M [W1 _]]. apply assign_ok; [exact HR|].
    destruct (s_dels_In (sst j) (sst i)) as [M1 N1].
    split; [exact W1|]. split; [apply N1; exact WA|]. intro y. rewrite M1, <- MA, <- MAj. apply M.
  - (* Pop *) pose proof (HR i) as Hrel. destruct Hrel as [W [WA MA]].
    pose proof (Pop_spec T eqb zero eqb_spec (st i) ord W) as H.
    destruct (Pop T eqb zero (st i) ord) as [[s' x]| | | | |]; try contradiction; [|left; reflexivity].
    right. destruct H as [[[E [Es [Ex Eo]]]|[Hx [M [L [r Eo]]]]] [W' _]].
    + apply (rel_nil _ _ (HR i)) in E. rewrite E. cbn [fst snd]. subst s' x. split; [|reflexivity].
      intro k. unfold upd. destruct (Nat.eqb k i) eqn:K; [apply Nat.eqb_eq in K; subst k|]; apply HR.
    + assert (Hx' : In x (sst i)) by (apply MA; exact Hx).
      subst ord. destruct (sst i) as [|a A'] eqn:EA; [destruct Hx'|]. rewrite <- EA in *.
      assert (Em : s_mem T eqb x (sst i) = true) by (apply s_mem_In; exact Hx').
      rewrite Em. cbn [fst snd]. split; [|reflexivity].
      apply R_upd; [exact HR|]. destruct (s_del_spec (sst i) x) as [M1 N1].
      split; [exact W'|]. split; [apply N1; exact WA|]. intro y. rewrite M1, <- MA. apply M.
  - (* Clear *) right. destruct (Clear_spec T (st i)) as [r [Er [E _]]]. rewrite Er. apply assign_ok; [exact HR|].
    split; [rewrite E; constructor|]. split; [constructor|]. intro x. rewrite E. tauto.
  - (* Clone *) right. rewrite Clone_spec. apply assign_ok; [exact HR|]. exact (HR j).
  - (* Intersect *)
    assert (HW : Forall wf (map st js)).
    { apply Forall_forall. intros s Hs. apply in_map_iff in Hs. destruct Hs as [j [E _]]. subst s. apply (HR j). }
    pose proof (Intersect_spec T eqb eqb_spec (map st js) next ord HW) as H.
    destruct (Intersect T eqb (map st js) next ord) as [r| | | | |]; try contradiction; [|left; reflexivity].
    right. destruct H as [l [E [N M]]]. subst r. apply assign_ok; [exact HR|].
    assert (HN : Forall (@NoDup T) (map sst js)).
    { apply Forall_forall. intros A HA. apply in_map_iff in HA. destruct HA as [j [E _]]. subst A. apply (HR j). }
    destruct (s_inter_all_In (map sst js) HN) as [M1 N1].
    split; [exact N|]. split; [exact N1|]. intro y. cbn [MapsetModel.m_keys]. rewrite M, M1. split.
    + intros [H1 H2]. split; [destruct js; [exfalso; apply H1; reflexivity | discriminate]|].
      intros B HB. apply in_map_iff in HB. destruct HB as [j [E Hj]]. subst B. apply (HR j). apply H2. apply in_map. exact Hj.
    + intros [H1 H2]. split; [destruct js; [exfalso; apply H1; reflexivity | discriminate]|].
      intros s Hs. apply in_map_iff in Hs. destruct Hs as [j [E Hj]]. subst s. apply (HR j). apply H2. apply in_map. exact Hj.
  - (* Range *) right. destruct (Range_spec T eqb eqb_spec items next) as [l [E [N M]]]. rewrite E.
    apply assign_ok; [exact HR | apply rel_of_items; assumption].
  - (* Range of the nil function *) right. rewrite Range_nil. cbn [assign fail_out fst snd out_ok]. split; [exact HR | exact I].
  - (* Keys *) right. destruct (Keys_spec T eqb eqb_spec keys next) as [l [E [N M]]]. rewrite E.
    apply assign_ok; [exact HR | apply rel_of_items; assumption].
  - (* Values *) right. destruct (Values_spec T eqb eqb_spec vals next) as [l [E [N M]]]. rewrite E.
    apply assign_ok; [exact HR | apply rel_of_items; assumption].
  - (* Has *) right. destruct (Has_spec T eqb eqb_spec (st i) x) as [b [E Hb]]. rewrite E. cbn [observe fst snd]. split; [exact HR|]. cbn [out_ok].
    apply (bool_eq _ _ (In x (sst i))); [|apply s_mem_In]. rewrite Hb. apply (HR i).
  - (* HasAll *) right. destruct (HasAll_spec T eqb eqb_spec (st i) ts) as [b [E Hb]]. rewrite E. cbn [observe fst snd]. split; [exact HR|]. cbn [out_ok].
    apply (bool_eq _ _ (forall x, In x ts -> In x (sst i))).
    + rewrite Hb. split; intros H x Hx; apply (HR i); apply H; exact Hx.
    + rewrite forallb_forall. split; intros H x Hx; apply s_mem_In; apply H; exact Hx.
  - (* HasAny *) right. destruct (HasAny_spec T eqb eqb_spec (st i) ts) as [b [E Hb]]. rewrite E. cbn [observe fst snd]. split; [exact HR|]. cbn [out_ok].
    apply (bool_eq _ _ (exists x, In x ts /\ In x (sst i))).
    + rewrite Hb. split; intros [x [H1 H2]]; exists x; (split; [exact H1|]); apply (HR i); exact H2.
    + rewrite existsb_exists. split; intros [x [H1 H2]]; exists x; (split; [exact H1|]); apply s_mem_In; exact H2.
  - (* Len *) right. rewrite Len_spec. cbn [observe fst snd]. split; [exact HR|]. cbn [out_ok].
    unfold s_card. f_equal. apply rel_length. apply HR.
  - (* IsEmpty *) right. destruct (IsEmpty_spec T (st i)) as [b [E [Hb _]]]. rewrite E. cbn [observe fst snd]. split; [exact HR|]. cbn [out_ok].
    subst b. unfold s_card, MapsetModel.m_len. rewrite (rel_length _ _ (HR i)). reflexivity.
  - (* Intersects *) destruct (HR i) as [W [WA MA]]. destruct (HR j) as [Wj [WAj MAj]].
    pose proof (Intersects_spec T eqb eqb_spec (st i) (st j) ord W Wj) as H.
    destruct (Intersects T eqb (st i) (st j) ord) as [b| | | | |]; try contradiction; [|left; reflexivity].
    right. cbn [observe fst snd]. split; [exact HR|]. cbn [out_ok].
    apply (bool_eq _ _ (exists x, In x (sst i) /\ In x (sst j))); [|apply s_meets_spec].
    rewrite H. unfold MapsetProofs.has. split; intros [x [H1 H2]]; exists x; rewrite MA, MAj in *; tauto.
  - (* IsSubset *) destruct (HR i) as [W [WA MA]]. destruct (HR j) as [Wj [WAj MAj]].
    pose proof (IsSubset_spec T eqb eqb_spec (st i) (st j) ord W Wj) as H.
    destruct (IsSubset T eqb (st i) (st j) ord) as [b| | | | |]; try contradiction; [|left; reflexivity].
    right. cbn [observe fst snd]. split; [exact HR|]. cbn [out_ok].
    apply (bool_eq _ _ (forall x, In x (sst i) -> In x (sst j))); [|apply s_subset_spec].
    rewrite H. unfold MapsetProofs.has. split; intros H1 x Hx; apply MAj; apply H1; apply MA; exact Hx.
  - (* Equals *) destruct (HR i) as [W [WA MA]]. destruct (HR j) as [Wj [WAj MAj]].
    pose proof (Equals_spec T eqb eqb_spec (st i) (st j) ord W Wj) as H.
    destruct (Equals T eqb (st i) (st j) ord) as [b| | | | |]; try contradiction; [|left; reflexivity].
    right. cbn [observe fst snd]. split; [exact HR|]. cbn [out_ok].
    apply (bool_eq _ _ (forall x, In x (sst i) <-> In x (sst j))); [|apply s_equal_spec].
    rewrite H. unfold MapsetProofs.has. split; intros H1 x; [rewrite <- MA, <- MAj | rewrite MA, MAj]; apply H1.
  - (* Slice *) destruct (HR i) as [W _].
    pose proof (Slice_spec T eqb zero eqb_spec (st i) ord W) as H.
    destruct (Slice T eqb zero (st i) ord) as [r| | | | |]; try contradiction; [|left; reflexivity].
    right. cbn [observe fst snd]. split; [exact HR|]. cbn [out_ok].
    destruct H as [P _]. exists (sl_elems T r). split; [reflexivity|].
    apply (Permutation_trans P). apply rel_perm. apply HR.
  - (* Append *) destruct (HR i) as [W _].
    pose proof (Append_spec T eqb eqb_spec (st i) vs ord W) as H.
    destruct (Append T eqb (st i) vs ord) as [r| | | | |]; try contradiction; [|left; reflexivity].
    right. cbn [observe fst snd]. split; [exact HR|]. cbn [out_ok].
    destruct H as [l [E [P _]]]. exists l. split; [exact E|].
    apply (Permutation_trans P). apply rel_perm. apply HR.
Qed.

(* a step that met an illegal order leaves every variable as it was *)
Lemma step_badorder_state : forall st next o, snd (step T eqb zero st next o) = RBadOrder T -> fst (step T eqb zero st next o) = st.
Proof.
  intros st next o. destruct o; cbn [step]; unfold assign, observe;
  repeat match goal with
  | |- context [match ?r with Ok _ => _ | PanicNilMap => _ | PanicIndex => _ | PanicNilFunc => _ | BadOrder => _ | Unmodelled => _ end] => destruct r
  | |- context [let '(_, _) := ?p in _] => destruct p
  end; cbn [fst snd fail_out]; intro H; try discriminate H; reflexivity.
Qed.

(* THE HISTORY THEOREM *)
Theorem history_refines : forall ops st next sst, R st sst ->
  ~ In (RBadOrder T) (snd (run T eqb zero st next ops)) ->
  R (fst (run T eqb zero st next ops)) (fst (srun T eqb zero sst ops)) /\
  Forall2 out_ok (snd (run T eqb zero st next ops)) (snd (srun T eqb zero sst ops)).
Proof.
  induction ops as [|o r IH]; intros st next sst HR Hno; cbn [run srun].
  - cbn [fst snd]. split; [exact HR | constructor].
  - pose proof (step_refines st next sst o HR) as G. unfold good_step in G.
    destruct (step T eqb zero st next o) as [st1 x] eqn:E1. destruct (sstep T eqb zero sst o) as [sst1 sx] eqn:E2.
    cbn [run] in Hno. rewrite E1 in Hno.
    destruct (run T eqb zero st1 (bump next) r) as [st2 xs] eqn:E3. destruct (srun T eqb zero sst1 r) as [sst2 sxs] eqn:E4.
    cbn [fst snd] in *.
    destruct G as [G|[G1 G2]]; [exfalso; apply Hno; left; exact G|].
    specialize (IH st1 (bump next) sst1 G1). rewrite E3, E4 in IH. cbn [fst snd] in IH.
    destruct IH as [I1 I2]; [intro H; apply Hno; right; exact H|].
    split; [exact I1 | constructor; assumption].
Qed.

(* starting from all variables nil *)
Corollary history_from_nil : forall ops,
  ~ In (RBadOrder T) (snd (run T eqb zero (store0 T) next0 ops)) ->
  R (fst (run T eqb zero (store0 T) next0 ops)) (fst (srun T eqb zero (sstore0 T) ops)) /\
  Forall2 out_ok (snd (run T eqb zero (store0 T) next0 ops)) (snd (srun T eqb zero (sstore0 T) ops)).
Proof. intros ops H. apply history_refines; [apply R0 | exact H]. Qed.

(* what R says about the reads: membership, Len and IsEmpty are the reference set's *)
Theorem R_reads : forall st sst, R st sst -> forall i,
  (forall x, Has T eqb (st i) x = Ok (s_mem T eqb x (sst i))) /\
  Len T (st i) = Ok (s_card T (sst i)) /\
  IsEmpty T (st i) = Ok (Z.eqb (s_card T (sst i)) 0) /\
  NoDup (m_keys (st i)) /\ Permutation (m_keys (st i)) (sst i).
Proof.
  intros st sst HR i. split; [|split; [|split; [|split]]].
  - intro x. destruct (Has_spec T eqb eqb_spec (st i) x) as [b [E Hb]]. rewrite E. f_equal.
    apply (bool_eq _ _ (In x (sst i))); [|apply s_mem_In]. rewrite Hb. apply (HR i).
  - rewrite Len_spec. unfold s_card. do 2 f_equal. apply rel_length. apply HR.
  - destruct (IsEmpty_spec T (st i)) as [b [E [Hb _]]]. rewrite E. subst b.
    unfold s_card, MapsetModel.m_len. rewrite (rel_length _ _ (HR i)). reflexivity.
  - apply (HR i).
  - apply rel_perm. apply HR.
Qed.

(* the reference operations are the set-theoretic ones *)
Theorem spec_meaning : forall (A B : rset) (items : list T) (x : T),
  (s_mem T eqb x A = true <-> In x A) /\
  (In x (s_adds T eqb A items) <-> In x A \/ In x items) /\
  (In x (s_dels T eqb A items) <-> In x A /\ ~ In x items) /\
  (In x (s_inter T eqb A B) <-> In x A /\ In x B) /\
  (s_subset T eqb A B = true <-> forall y, In y A -> In y B) /\
  (s_equal T eqb A B = true <-> forall y, In y A <-> In y B) /\
  (s_meets T eqb A B = true <-> exists y, In y A /\ In y B) /\
  (NoDup A -> NoDup (s_adds T eqb A items) /\ NoDup (s_dels T eqb A items) /\ NoDup (s_inter T eqb A B)).
Proof.
  intros A B items x.
  split; [apply s_mem_In|]. split; [apply s_adds_In|]. split; [apply s_dels_In|]. split; [apply s_inter_In|].
  split; [apply s_subset_spec|]. split; [apply s_equal_spec|]. split; [apply s_meets_spec|].
  intro H. split; [apply s_adds_In; exact H|]. split; [apply s_dels_In; exact H | apply s_inter_In; exact H].
Qed.

Theorem spec_inter_all_meaning : forall (As : list rset) (x : T), Forall (@NoDup T) As ->
  (In x (s_inter_all T eqb As) <-> As <> [] /\ forall B, In B As -> In x B) /\ NoDup (s_inter_all T eqb As).
Proof. intros As x H. destruct (s_inter_all_In As H) as [M N]. split; [apply M | exact N]. Qed.

(* the runtime's orders: accepted iff a permutation of the keys *)
Theorem valid_order_iff : forall ord (m : gomap), wf m ->
  (valid_order T eqb ord m = true <-> Permutation ord (m_keys m)).
Proof.
  intros ord m W. split; [apply (valid_order_perm T eqb eqb_spec); exact W | intro P; apply (valid_order_complete T eqb eqb_spec); assumption].
Qed.

(* …and legal orders always exist and are never rejected: with the key lists themselves as the
   orders (any permutation would do, see [valid_order_complete]) no step answers BadOrder.  The
   hypothesis of [history_refines] is therefore about the runtime keeping to the language
   specification, not a restriction on histories. *)
Lemma skipn_In : forall (A : Type) (n : nat) (l : list A) (x : A), In x (skipn n l) -> In x l.
Proof.
  induction n as [|n IH]; intros l x H; [exact H|]. destruct l as [|a l']; [exact H|]. right. apply IH. exact H.
Qed.

Theorem legal_order_exists : forall st next sst o, R st sst ->
  snd (step T eqb zero st next (canonical_order st o)) <> RBadOrder T.
Proof.
  intros st next sst o HR.
  assert (V : forall k, valid_order T eqb (m_keys (st k)) (st k) = true).
  { intro k. apply (valid_order_keys T eqb eqb_spec). apply (HR k). }
  destruct o as [i items|i n|i|i items|i j ord|i items|i j ord|i ord|i|i j|i js ord|i [items|]|i keys|i vals
                |i x|i ts|i ts|i|i|i j ord|i j ord|i j ord|i ord|i vs ord]; cbn [canonical_order step];
    unfold assign, observe.
  - destruct (New_spec T eqb eqb_spec next items) as [l [E _]]. rewrite E. discriminate.
  - rewrite NewSize_spec. discriminate.
  - discriminate.
  - destruct (HR i) as [W _]. destruct (Add_spec T eqb eqb_spec (st i) next items W) as [l [E _]]. rewrite E. discriminate.
  - destruct (HR i) as [W _]. destruct (HR j) as [Wj _].
    pose proof (AddAll_spec T eqb eqb_spec (st i) (st j) next (m_keys (st j)) W Wj) as H.
    destruct (AddAll T eqb (st i) (st j) next (m_keys (st j))); try contradiction; [discriminate|].
    destruct H as [_ H]. rewrite V in H. discriminate.
  - destruct (Remove_spec T eqb eqb_spec (st i) items) as [r [E _]]. rewrite E. discriminate.
  - destruct (HR i) as [W _]. destruct (HR j) as [Wj _].
    pose proof (RemoveAll_spec T eqb eqb_spec (st i) (st j) (m_keys (st j)) W Wj) as H.
    destruct (RemoveAll T eqb (st i) (st j) (m_keys (st j))); try contradiction; [discriminate|].
    rewrite V in H. discriminate.
  - destruct (HR i) as [W _].
    pose proof (Pop_spec T eqb zero eqb_spec (st i) (m_keys (st i)) W) as H.
    destruct (Pop T eqb zero (st i) (m_keys (st i))) as [[s' x]| | | | |]; try contradiction; [discriminate|].
    rewrite V in H. discriminate.
  - destruct (Clear_spec T (st i)) as [r [E _]]. rewrite E. discriminate.
  - rewrite Clone_spec. discriminate.
  - assert (HW : Forall wf (map st js)).
    { apply Forall_forall. intros s Hs. apply in_map_iff in Hs. destruct Hs as [j [E _]]. subst s. apply (HR j). }
    set (ord0 := match intersect_operand T (map st js) with Ok m => m_keys m | _ => [] end).
    pose proof (Intersect_spec T eqb eqb_spec (map st js) next ord0 HW) as H.
    destruct (Intersect T eqb (map st js) next ord0); try contradiction; [discriminate|].
    destruct H as [min [E H]]. subst ord0. rewrite E in H.
    assert (Wm : wf min).
    { unfold intersect_operand in E. destruct (nth_error (map st js) (Z.to_nat intersect_first_idx)) as [m0|] eqn:E0; [|discriminate].
      destruct (Z.gtb intersect_rest_lo (Z.of_nat (length (map st js)))); [discriminate|].
      assert (E' : intersect_min T m0 (skipn (Z.to_nat intersect_rest_lo) (map st js)) = min) by congruence.
      rewrite Forall_forall in HW. apply HW.
      pose proof (intersect_min_In T (skipn (Z.to_nat intersect_rest_lo) (map st js)) m0) as Hin.
      rewrite E' in Hin. destruct Hin as [H1|H1].
      - apply nth_error_In with (n := Z.to_nat intersect_first_idx). rewrite <- H1. exact E0.
      - apply (skipn_In _ _ _ _ H1). }
    rewrite (valid_order_keys T eqb eqb_spec _ Wm) in H. discriminate.
  - destruct (Range_spec T eqb eqb_spec items next) as [l [E _]]. rewrite E. discriminate.
  - rewrite Range_nil. discriminate.
  - destruct (Keys_spec T eqb eqb_spec keys next) as [l [E _]]. rewrite E. discriminate.
  - destruct (Values_spec T eqb eqb_spec vals next) as [l [E _]]. rewrite E. discriminate.
  - destruct (Has_spec T eqb eqb_spec (st i) x) as [b [E _]]. rewrite E. discriminate.
  - destruct (HasAll_spec T eqb eqb_spec (st i) ts) as [b [E _]]. rewrite E. discriminate.
  - destruct (HasAny_spec T eqb eqb_spec (st i) ts) as [b [E _]]. rewrite E. discriminate.
  - rewrite Len_spec. discriminate.
  - destruct (IsEmpty_spec T (st i)) as [b [E _]]. rewrite E. discriminate.
  - destruct (HR i) as [W _]. destruct (HR j) as [Wj _].
    set (ord0 := m_keys (fst (intersects_operands T (st i) (st j)))).
    pose proof (Intersects_spec T eqb eqb_spec (st i) (st j) ord0 W Wj) as H.
    destruct (Intersects T eqb (st i) (st j) ord0); try contradiction; [discriminate|].
    subst ord0. unfold intersects_operands in H. destruct (intersects_swap _ _); cbn [fst] in H; rewrite V in H; discriminate.
  - destruct (HR i) as [W _]. destruct (HR j) as [Wj _].
    pose proof (IsSubset_spec T eqb eqb_spec (st i) (st j) (m_keys (st i)) W Wj) as H.
    destruct (IsSubset T eqb (st i) (st j) (m_keys (st i))); try contradiction; [discriminate|].
    rewrite V in H. discriminate.
  - destruct (HR i) as [W _]. destruct (HR j) as [Wj _].
    pose proof (Equals_spec T eqb eqb_spec (st i) (st j) (m_keys (st i)) W Wj) as H.
    destruct (Equals T eqb (st i) (st j) (m_keys (st i))); try contradiction; [discriminate|].
    rewrite V in H. discriminate.
  - destruct (HR i) as [W _].
    pose proof (Slice_spec T eqb zero eqb_spec (st i) (m_keys (st i)) W) as H.
    destruct (Slice T eqb zero (st i) (m_keys (st i))); try contradiction; [discriminate|].
    rewrite V in H. discriminate.
  - destruct (HR i) as [W _].
    pose proof (Append_spec T eqb eqb_spec (st i) vs (m_keys (st i)) W) as H.
    destruct (Append T eqb (st i) vs (m_keys (st i))); try contradiction; [discriminate|].
    rewrite V in H. discriminate.
Qed.

(* ---- nil-ness and frame *)
(* what New, Clone, Intersect, Keys, Values, Range (and NewSize, Add, AddAll) store is never nil *)
Definition constructs (o : op T) : bool :=
  match o with
  | ONew _ _ _ | ONewSize _ _ _ | OClone _ _ _ | OIntersect _ _ _ _ | ORange _ _ (Some _) | OKeys _ _ _ | OValues _ _ _
  | OAdd _ _ _ | OAddAll _ _ _ _ => true
  | _ => false       (* in particular Range of the nil function, which panics *)
  end.

Theorem constructors_nonnil : forall st next sst o, R st sst -> constructs o = true ->
  match snd (step T eqb zero st next o) with
  | RSet _ m => m <> None
  | RBadOrder _ => True
  | _ => False
  end.
Proof.
  intros st next sst o HR Hc.
  destruct o as [i items|i n|i|i items|i j ord|i items|i j ord|i ord|i|i j|i js ord|i [items|]|i keys|i vals
                |i x|i ts|i ts|i|i|i j ord|i j ord|i j ord|i ord|i vs ord]; try discriminate Hc; cbn [step]; unfold assign.
  - destruct (New_spec T eqb eqb_spec next items) as [l [E _]]. rewrite E. cbn [snd]. discriminate.
  - rewrite NewSize_spec. cbn [snd]. discriminate.
  - destruct (HR i) as [W _]. destruct (Add_spec T eqb eqb_spec (st i) next items W) as [l [E _]]. rewrite E. cbn [snd]. discriminate.
  - destruct (HR i) as [W _]. destruct (HR j) as [Wj _].
    pose proof (AddAll_spec T eqb eqb_spec (st i) (st j) next ord W Wj) as H.
    destruct (AddAll T eqb (st i) (st j) next ord); try contradiction; cbn [snd fail_out]; [|exact I].
    destruct H as [l [E _]]. subst. discriminate.
  - rewrite Clone_spec. cbn [snd]. discriminate.
  - assert (HW : Forall wf (map st js)).
    { apply Forall_forall. intros s Hs. apply in_map_iff in Hs. destruct Hs as [j [E _]]. subst s. apply (HR j). }
    pose proof (Intersect_spec T eqb eqb_spec (map st js) next ord HW) as H.
    destruct (Intersect T eqb (map st js) next ord); try contradiction; cbn [snd fail_out]; [|exact I].
    destruct H as [l [E _]]. subst. discriminate.
  - destruct (Range_spec T eqb eqb_spec items next) as [l [E _]]. rewrite E. cbn [snd]. discriminate.
  - destruct (Keys_spec T eqb eqb_spec keys next) as [l [E _]]. rewrite E. cbn [snd]. discriminate.
  - destruct (Values_spec T eqb eqb_spec vals next) as [l [E _]]. rewrite E. cbn [snd]. discriminate.
Qed.

Theorem step_frame : forall st next o k,
  (k <> target o \/ observer o = true) -> fst (step T eqb zero st next o) k = st k.
Proof.
  intros st next o k H.
  assert (U : forall i m, k <> i -> upd T st i m k = st k).
  { intros i m Hk. unfold upd. destruct (Nat.eqb k i) eqn:E; [apply Nat.eqb_eq in E; contradiction | reflexivity]. }
  destruct o; cbn [step target observer] in *; unfold assign, observe;
  repeat match goal with
  | |- context [match ?r with Ok _ => _ | PanicNilMap => _ | PanicIndex => _ | PanicNilFunc => _ | BadOrder => _ | Unmodelled => _ end] => destruct r
  | |- context [let '(_, _) := ?p in _] => destruct p
  end; cbn [fst]; try reflexivity;
  (destruct H as [H|H]; [apply U; exact H | discriminate H]).
Qed.

End Hist.
