(* stree: node.remove generated from the source against the model's remove.

   Go descends recursively, stores the result of the recursive call back into the parent IN PLACE
   (n.left, ok = n.left.remove(...)), splices a node with at most one child out by returning the
   other child, and for a node with two children moves the key of popMinRight's goat into it.
   The model rebuilds the path.  On a tree-shaped region F (trepr, StreeSep.v) the returned pointer
   represents the model's tree on a subset of F (the removed cell has left the footprint), the
   flag is the model's, and no cell outside F changed; nothing is allocated. *)
From Coq Require Import ZArith List Bool Arith Lia.
From Mds Require Import Gen.StreeConst Gen.StreeNode.
From Mds Require Import Common.FnRt Common.FnHeap GenTie.TieLib GenTie.StreeTieBase GenTie.StreeSep
  GenTie.StreeTieMutPop.
Import ListNotations.
Local Open Scope Z_scope.

Section Remove.
Context {T : Type}.
Variable cmp : T -> T -> Z.
Notation tree := (SM.tree T).
Notation heap := (list (G.node T)).

Definition rem_post (h : heap) (F : list nat) (m : tree * bool) (g : option nat * bool * heap) : Prop :=
  let '(t', ok) := m in let '(a', ok', h') := g in
  ok' = ok /\ exists F', trepr h' a' t' F' /\ incl F' F /\ frame h h' F /\ length h' = length h.

(* func (n *node[T]) remove(key T, compare func(a, b T) int) (_ *node[T], ok bool) *)
Theorem C01_remove_is_source : forall (t : tree) (h : heap) (n : option nat) (F : list nat) (key : T) (fuel : nat),
  trepr h n t F -> (fuel > depth t + 1)%nat ->
  rel (rem_post h F) (SM.remove cmp key t) (G.node_remove n key cmp h fuel).
Proof.
  induction t as [|l IHl x r IHr]; intros h n F key fuel R Hf; (destruct fuel as [|fuel]; [lia|]);
    cbn [G.node_remove SM.remove].
  - apply trepr_leaf_inv in R. destruct R as [-> ->]. cbn [go_pnil]. apply rel_ok. cbn.
    split; [reflexivity|]. exists []. split; [constructor|]. split; [apply incl_refl|]. split; [apply frame_refl|reflexivity].
  - pose proof R as R0. tnode R a c Fl Fr Ea Ha Hl Hr Nl Nr Hd. subst n. cbn [go_pnil depth] in *.
    rewrite (hget_some h a c Ha). cbn [bind]. unfold rem_lt, rem_gt.
    case_if.
    { (* n.left, ok = n.left.remove(key, compare) *)
      eapply rel_bind; [apply (IHl h (G.node_left c) Fl key fuel Hl); lia|].
      intros [l' ok] [[t3 t4] h1] [-> [Fl' [Rl' [I' [Fr' L']]]]].
      assert (Ha1 : nth_error h1 a = Some c).
      { destruct Fr' as [_ Eo]. rewrite Eo; [exact Ha|apply nth_error_Some; rewrite Ha; discriminate|exact Nl]. }
      rewrite (hmod_some h1 a c _ Ha1). cbn [bind]. apply rel_ok. cbn.
      split; [reflexivity|]. exists (a :: Fl' ++ Fr).
      assert (NaF' : ~ In a Fl') by (intros X; apply Nl, I', X).
      split; [|split; [|split]].
      - apply (trepr_mk _ a _ l' r Fl' Fr (upd_at h1 a c _ Ha1)); cbn [G.node_left G.node_right G.node_X];
          [apply trepr_upd_out; assumption| |exact NaF'|exact Nr|intros k Hk; apply Hd, I', Hk|reflexivity].
        apply trepr_upd_out; [|exact Nr]. apply (trepr_frame h h1 _ _ _ _ Hr Fr'). intros k Hk X. apply (Hd k X Hk).
      - intros k Hk. pose proof (I' k). inl. tauto.
      - destruct Fr' as [_ Eo]. split; [rewrite upd_length; lia|]. intros k Hk Nk.
        rewrite nth_upd_other by (intros ->; apply Nk; left; reflexivity).
        apply Eo; [exact Hk|]. intros X. apply Nk. inl. tauto.
      - rewrite upd_length. exact L'. }
    case_if.
    { (* n.right, ok = n.right.remove(key, compare) *)
      eapply rel_bind; [apply (IHr h (G.node_right c) Fr key fuel Hr); lia|].
      intros [r' ok] [[t7 t8] h1] [-> [Fr1 [Rr' [I' [Fr' L']]]]].
      assert (Ha1 : nth_error h1 a = Some c).
      { destruct Fr' as [_ Eo]. rewrite Eo; [exact Ha|apply nth_error_Some; rewrite Ha; discriminate|exact Nr]. }
      rewrite (hmod_some h1 a c _ Ha1). cbn [bind]. apply rel_ok. cbn.
      split; [reflexivity|]. exists (a :: Fl ++ Fr1).
      assert (NaF' : ~ In a Fr1) by (intros X; apply Nr, I', X).
      split; [|split; [|split]].
      - apply (trepr_mk _ a _ l r' Fl Fr1 (upd_at h1 a c _ Ha1)); cbn [G.node_left G.node_right G.node_X];
          [ |apply trepr_upd_out; assumption|exact Nl|exact NaF'|intros k Hk X; apply (Hd k Hk), I', X|reflexivity].
        apply trepr_upd_out; [|exact Nl]. apply (trepr_frame h h1 _ _ _ _ Hl Fr'). intros k Hk X. apply (Hd k Hk X).
      - intros k Hk. pose proof (I' k). inl. tauto.
      - destruct Fr' as [_ Eo]. split; [rewrite upd_length; lia|]. intros k Hk Nk.
        rewrite nth_upd_other by (intros ->; apply Nk; left; reflexivity).
        apply Eo; [exact Hk|]. intros X. apply Nk. inl. tauto.
      - rewrite upd_length. exact L'. }
    (* the key is at n *)
    destruct l as [|ll lx lr].
    { apply trepr_leaf_inv in Hl. destruct Hl as [El ->]. rewrite El. cbn [go_pnil bind].
      apply rel_ok. cbn. split; [reflexivity|]. exists Fr. split; [exact Hr|].
      split; [intros k Hk; right; exact Hk|]. split; [apply frame_refl|reflexivity]. }
    pose proof Hl as Hl0. apply trepr_node_inv in Hl0. destruct Hl0 as [kl [cl [_ [_ [El _]]]]]. rewrite El.
    cbn [go_pnil bind].
    destruct r as [|rl rx rr].
    { apply trepr_leaf_inv in Hr. destruct Hr as [Er ->]. rewrite Er. cbn [go_pnil bind].
      apply rel_ok. cbn. split; [reflexivity|]. exists Fl. rewrite <- El. split; [exact Hl|].
      split; [intros k Hk; right; apply in_app_iff; left; exact Hk|]. split; [apply frame_refl|reflexivity]. }
    pose proof Hr as Hr0. apply trepr_node_inv in Hr0. destruct Hr0 as [kr [cr [_ [_ [Er _]]]]]. rewrite Er.
    cbn [go_pnil bind].
    (* two children: goat := popMinRight(n); n.X = goat.X *)
    eapply rel_bind; [apply (C01_popMinRight_is_source _ h (Some a) _ fuel R0); cbn [depth] in *; lia|].
    intros [g n'] [goat h'] [ga [F' [-> [R' [I' [Nga [Iga [Ega [Fr' L']]]]]]]]].
    rewrite (hget_some h' ga _ Ega). cbn [bind G.node_X].
    apply trepr_some in R'. destruct R' as [c' [l' [r' [Fl' [Fr1 [-> [-> [Ha' [Rl' [Rr' [Nl' [Nr' Hd']]]]]]]]]]]].
    rewrite (hmod_some h' a c' _ Ha'). cbn [bind]. apply rel_ok. cbn.
    split; [reflexivity|]. exists (a :: Fl' ++ Fr1). split; [|split; [|split]].
    + apply (trepr_mk _ a _ l' r' Fl' Fr1 (upd_at h' a c' _ Ha')); cbn [G.node_left G.node_right G.node_X];
        [apply trepr_upd_out; assumption|apply trepr_upd_out; assumption|exact Nl'|exact Nr'|exact Hd'|reflexivity].
    + exact I'.
    + destruct Fr' as [_ Eo]. split; [rewrite upd_length; lia|]. intros k Hk Nk.
      rewrite nth_upd_other by (intros ->; apply Nk; left; reflexivity). apply Eo; assumption.
    + rewrite upd_length. exact L'.
Qed.

End Remove.

Print Assumptions C01_remove_is_source.
