(* heapq.Sort of heapq/heapq.go: the model's Sort (Heapq/HeapqModel.v, at the variant the source
   currently is) = the function generated from the Go source, IN-PLACE EFFECT INCLUDED.

   Sort(cmp, vs) builds a queue ON the caller's array (q := NewWithData(rcmp, vs)) and pops it
   empty; it returns nothing: what it does is what it leaves in vs.  The plain translation of
   pop/Pop (Gen/FnHeapq.v) represents q.data by its elements [0, len) and forgets what
   `q.data = q.data[:n]` cuts off.  Gen/FnHeapqSort.v is a second translation of the functions
   Sort runs (anchors entry with the directive cap:Queue.data: the capacity of q.data is tracked
   wherever the field is assigned as a whole), so that pop hands back the cut-off slot
   (q_data_spare), and Sort -- a function that holds a LOCAL OBJECT built by a constructor of the
   file, to which it handed its slice parameter -- returns as the final content of vs
   go_handback q_data q_data_spare = q.data ++ spare: the len(vs) slots it was given.

   Lemmas:
     same_*            swap, pushDown, IsEmpty, NewWithData of the second translation are the
                       first translation's (they do not assign q.data as a whole), by conversion;
     C05_pop_cap_is_pop    the capacity-tracking pop = the plain pop + "the cut-off slot holds the
                       removed element": spare' = out :: spare  (a statement about the two
                       GENERATED functions; composed with C05_pop_is_source below);
     C05_Pop_cap_is_Pop    the same for Pop;
     C05_Sort_is_source  res_le (model's Sort) (generated Sort, the final vs): for EVERY comparison
                       function (no law), every vs, fuel >= len+2; the model's `spill` list is the
                       generated q_data_spare; the closure rcmp is the lambda written in place
                       (fun a b => - cmp a b) = the model's HeapqIdx.sort_rcmp. *)
From Coq Require Import ZArith List Bool Lia Permutation.
From Mds Require Import Common.FnRt GenTie.TieLib Gen.FnHeapq Gen.HeapqIdx.
From Mds Require Import GenTie.HeapqTieBase GenTie.HeapqTieDown GenTie.HeapqTieReorder GenTie.HeapqTieSet.
From Mds Require Gen.FnHeapqSort Heapq.HeapqModel Heapq.HeapqSpec Heapq.HeapqProofs Heapq.HeapqHeap Heapq.HeapqOrder.
Import ListNotations.
Local Open Scope Z_scope.

Module FS := FnHeapqSort.
Local Arguments Z.mul : simpl never.
Local Arguments Z.quot : simpl never.

Section Elem.
Context {T : Type}.
Implicit Types l sp : list T.
Notation cv := H.current_variant.

(* ---- the functions that do not assign q.data as a whole are translated alike ---- *)
Lemma same_swap : @FS.swap T = @swap T.
Proof. reflexivity. Qed.
Lemma same_pushDown : @FS.pushDown T = @pushDown T.
Proof. reflexivity. Qed.
Lemma same_IsEmpty : @FS.IsEmpty T = @IsEmpty T.
Proof. reflexivity. Qed.
Lemma same_NewWithData : @FS.NewWithData T = @NewWithData T.
Proof. reflexivity. Qed.

(* ---- list facts ---- *)
Lemma go_get_range l i x : go_get l i = Ok x -> 0 <= i < zlen l.
Proof.
  unfold go_get. destruct ((0 <=? i) && (i <? zlen l)) eqn:E; [|discriminate]. intros _. lia.
Qed.

Lemma skipn_upd_last : forall l n x, S n = length l -> skipn n (upd l n x) = [x].
Proof.
  induction l as [|a l IH]; intros n x Hn; simpl in Hn; [lia|].
  destruct n; simpl.
  - destruct l; [reflexivity|simpl in Hn; lia].
  - apply IH. lia.
Qed.

Lemma firstn_app_short l sp n : (n <= length l)%nat -> firstn n (l ++ sp) = firstn n l.
Proof.
  intros Hn. rewrite firstn_app. replace (n - length l)%nat with O by lia. simpl. apply app_nil_r.
Qed.

Lemma skipn_app_short l sp n : (n <= length l)%nat -> skipn n (l ++ sp) = skipn n l ++ sp.
Proof.
  intros Hn. rewrite skipn_app. replace (n - length l)%nat with O by lia. reflexivity.
Qed.

(* ---- pop with a tracked capacity = pop + the slot it leaves behind ---- *)
Definition with_spill sp (r : T * list T * list (T * Z)) : res (T * list T * list T * list (T * Z)) :=
  let '(out, l', log) := r in Ok (out, l', out :: sp, log).

Lemma C05_pop_cap_is_pop : forall l sp (cmp : T -> T -> Z) i fuel,
  FS.pop l sp cmp i fuel = bind (pop l cmp i fuel) (with_spill sp).
Proof.
  intros l sp cmp i fuel. unfold FS.pop, pop.
  destruct (go_get l i) as [out| |] eqn:G; cbn [bind]; try reflexivity.
  pose proof (go_get_range _ _ _ G) as Ri.
  destruct (zlen l - 1 =? 0) eqn:E0.
  - (* one element: q.data[:0] leaves it in place *)
    assert (L1 : zlen l = 1) by lia. assert (i = 0) by lia. subst i.
    destruct l as [|a [|b t]]; unfold zlen in L1; simpl in L1; try lia.
    unfold go_get in G. simpl in G. inversion G; subst a.
    unfold go_reslice_cap.
    pose proof (zlen_nonneg sp) as Hsp.
    replace ((0 <=? 0) && (0 <=? zlen [out] + zlen sp)) with true by lia.
    reflexivity.
  - set (n := zlen l - 1) in *.
    destruct (go_get l n) as [t2| |]; cbn [bind]; try reflexivity.
    destruct (go_set l i t2) as [l1| |] eqn:S1; cbn [bind]; try reflexivity.
    destruct (go_set l1 n out) as [l2| |] eqn:S2; cbn [bind]; try reflexivity.
    destruct (go_get l2 i) as [t3| |]; cbn [bind]; try reflexivity.
    pose proof (go_set_length _ _ _ _ S1) as L1. pose proof (go_set_length _ _ _ _ S2) as L2.
    assert (Hn : 0 <= n) by (unfold n; lia).
    assert (Hl : Z.to_nat n = (length l2 - 1)%nat /\ (1 <= length l2)%nat).
    { unfold n, zlen in *. rewrite L2, L1. lia. }
    destruct Hl as [Hl Hl'].
    assert (U : l2 = upd l1 (Z.to_nat n) out).
    { unfold go_set in S2. destruct ((0 <=? n) && (n <? zlen l1)); inversion S2. reflexivity. }
    unfold go_reslice_cap, go_sub. pose proof (zlen_nonneg sp) as Hsp.
    replace ((0 <=? n) && (n <=? zlen l2 + zlen sp)) with true by (unfold zlen in *; lia).
    replace ((0 <=? 0) && (0 <=? n)) with true by lia.
    replace (n <=? zlen l2) with true by (unfold zlen in *; lia).
    cbn [bind]. rewrite Z.sub_0_r. change (Z.to_nat 0) with O. cbn [skipn].
    rewrite firstn_app_short by lia. rewrite skipn_app_short by lia.
    assert (SK : skipn (Z.to_nat n) l2 = [out]).
    { rewrite U. apply skipn_upd_last. rewrite L2 in Hl, Hl'. lia. }
    rewrite SK. rewrite same_pushDown.
    destruct (pushDown (firstn (Z.to_nat n) l2) cmp i fuel) as [[[t4 l3] t5]| |]; reflexivity.
Qed.

Definition with_spill_ok sp (r : T * bool * list T * list (T * Z)) : res (T * bool * list T * list T * list (T * Z)) :=
  let '(x, ok, l', log) := r in Ok (x, ok, l', (if ok then x :: sp else sp), log).

Lemma C05_Pop_cap_is_Pop : forall l sp (cmp : T -> T -> Z) zero fuel,
  FS.Pop l sp cmp zero fuel = bind (Pop l cmp zero fuel) (with_spill_ok sp).
Proof.
  intros. unfold FS.Pop, Pop. case_if; [reflexivity|].
  rewrite C05_pop_cap_is_pop.
  destruct (pop l cmp 0 fuel) as [[[o l'] lg]| |]; reflexivity.
Qed.

(* ---- the drain loop: the model's spill list is the spare part of the array ---- *)
Definition final (r : list T * list T * list (T * Z)) : res (list T) :=
  Ok (go_handback (fst (fst r)) (snd (fst r))).

Lemma pop_shrinks (cmp : T -> T -> Z) l l' m out :
  0 < zlen l -> H.pop T cv cmp l 0 = H.Ok (l', m, out) -> (length l' < length l)%nat.
Proof.
  intros Hl E.
  destruct (HeapqProofs.pop_total T cmp cv l 0) as (l1 & m1 & o1 & E1 & _ & P & _); [exact (conj (Z.le_refl 0) Hl)|].
  rewrite E in E1. inversion E1; subst. apply Permutation_length in P. simpl in P. lia.
Qed.

Lemma sort_loop_le : forall (fm gas fuel : nat) (q : H.queue T) (spill : list T) (log : list (T * Z)) (zero : T),
  (fm <= gas)%nat -> (S (length (H.data q)) <= fuel)%nat ->
  res_le (embf (fun r => r) (H.sort_drain T cv fm q spill))
         (bind (FS.Sort_loop1 fuel gas (H.qcmp q) zero (H.data q) spill log) final).
Proof.
  induction fm as [|fm IH]; intros gas fuel q spill log zero Hg Hf; [apply res_le_oof|].
  destruct gas as [|gas]; [lia|].
  cbn [H.sort_drain FS.Sort_loop1]. unfold H.IsEmpty, FS.IsEmpty.
  change (H.len (H.data q)) with (zlen (H.data q)).
  destruct (zlen (H.data q) =? 0) eqn:E; cbn [negb].
  - apply res_le_refl.
  - unfold FS.Pop. rewrite E. rewrite C05_pop_cap_is_pop.
    unfold H.Pop. unfold Pop_empty, Pop_index. change (H.len (H.data q)) with (zlen (H.data q)). rewrite E.
    destruct (C05_pop_is_source (H.qcmp q) (H.data q) 0 fuel Hf) as [O|Eq].
    + left. destruct (H.pop T cv (H.qcmp q) (H.data q) 0) as [[[l' m] out]| |]; simpl in *; try discriminate. reflexivity.
    + rewrite <- Eq.
      destruct (H.pop T cv (H.qcmp q) (H.data q) 0) as [[[l' m] out]| |] eqn:EP;
        cbn [embf pop_ret bind with_spill H.bind]; try apply res_le_refl.
      assert (Sh : (length l' < length (H.data q))%nat).
      { eapply pop_shrinks; [|exact EP]. pose proof (zlen_nonneg (H.data q)). lia. }
      apply (IH gas fuel {| H.data := l'; H.qcmp := H.qcmp q |} (out :: spill) (log ++ m) zero); cbn [H.data]; lia.
Qed.

(* ---- Sort ---- *)
Theorem C05_Sort_is_source : forall (c : T -> T -> Z) (vs : list T) (zero : T) (fuel : nat),
  (S (S (length vs)) <= fuel)%nat ->
  res_le (embf (fun r => r) (H.Sort T cv c vs)) (bind (FS.Sort c vs zero fuel) (fun r => Ok (fst r))).
Proof.
  intros c vs zero fuel Hf. unfold H.Sort, FS.Sort. unfold sort_trivial.
  change (H.len vs) with (zlen vs).
  case_if; [apply res_le_refl|].
  change (fun a b : T => sort_rcmp (c a b)) with (fun a b : T => - c a b).
  set (rc := fun a b : T => - c a b).
  rewrite same_NewWithData.
  destruct (C05_NewWithData_is_source rc vs fuel Hf) as [O|Eq].
  - left. destruct (H.NewWithData T rc vs) as [[q m]| |]; simpl in *; try discriminate. reflexivity.
  - rewrite <- Eq.
    destruct (H.NewWithData T rc vs) as [[q m]| |] eqn:EN; cbn [embf reorder_ret bind H.bind]; try apply res_le_refl.
    (* the queue the model builds has the comparison rc and as many elements as vs *)
    assert (Q : H.qcmp q = rc /\ length (H.data q) = length vs).
    { unfold H.NewWithData in EN. unfold heapify_start_new in EN.
      change heapify_continue_new with (fun i => i >=? 0) in EN. change heapify_next_new with (fun i => i - 1) in EN.
      pose proof (zlen_nonneg vs) as Hv.
      assert (R : 0 <= Z.quot (H.len vs) 2 <= H.len vs).
      { change (H.len vs) with (zlen vs). rewrite Z.quot_div_nonneg by lia.
        pose proof (Z.div_mod (zlen vs) 2). pose proof (Z.mod_pos_bound (zlen vs) 2). lia. }
      destruct (HeapqHeap.heapify_loop_total T rc (S (S (length vs))) vs (Z.quot (H.len vs) 2)) as (l' & m' & E1 & P & _).
      { lia. } { change (H.len vs) with (zlen vs) in *. unfold zlen in *. lia. }
      rewrite E1 in EN. cbn [H.bind] in EN. inversion EN; subst. cbn [H.qcmp H.data].
      split; [reflexivity|]. apply Permutation_length. exact P. }
    destruct Q as [Qc Ql].
    pose proof (sort_loop_le (S (length vs)) fuel fuel q [] ([] ++ m) zero ltac:(lia) ltac:(lia)) as L.
    destruct L as [L|L]; [left; exact L|]. right. rewrite L.
    destruct (FS.Sort_loop1 fuel fuel (H.qcmp q) zero (H.data q) [] ([] ++ m)) as [[[d s] lg]| |]; reflexivity.
Qed.

(* ---- composed with the property theorem C05_sort: a statement about the generated code alone ---- *)
Theorem C05_Sort_source_sorted : forall (c : T -> T -> Z) (vs : list T) (zero : T) (fuel : nat),
  HeapqSpec.total_preorder T c -> (S (S (length vs)) <= fuel)%nat ->
  exists (r : list T) (log : list (T * Z)),
    FS.Sort c vs zero fuel = Ok (r, log) /\ Permutation r vs /\ Sorted.Sorted (fun a b => c a b <= 0) r.
Proof.
  intros c vs zero fuel TP Hf.
  destruct (HeapqOrder.sort_sorted_permutation T cv c vs TP) as (r & E & P & St).
  pose proof (C05_Sort_is_source c vs zero fuel Hf) as L. rewrite E in L. cbn [embf] in L.
  destruct L as [L|L]; [discriminate|].
  destruct (FS.Sort c vs zero fuel) as [[r' log]| |]; cbn [bind fst] in L; try discriminate.
  inversion L; subst r'. exists r, log. split; [reflexivity|]. split; assumption.
Qed.

End Elem.

(* the generated Sort run on a concrete slice: what the caller finds in vs *)
Example C05_Sort_source_example :
  match FS.Sort (fun a b : Z => a - b) [5; 3; 9; 1; 1; 7; 2] 0 20 with Ok (r, _) => r | _ => [] end
  = [1; 1; 2; 3; 5; 7; 9].
Proof. vm_compute. reflexivity. Qed.

Print Assumptions C05_pop_cap_is_pop.
Print Assumptions C05_Pop_cap_is_Pop.
Print Assumptions C05_Sort_is_source.
Print Assumptions C05_Sort_source_sorted.
