(* cache.Length (cache/cache.go): `func Length[T ~[]byte | ~string](v T) int64 { return int64(len(v)) }`,
   the size function the package offers for WithSize.  Its constraint is a union, which the function
   translator cannot keep abstract; the anchors instantiate the type parameter by hand (directive
   tparam:Length.T=string resp. =[]byte in translator/anchors.d/fncachelen.json) and the function is
   regenerated for both instantiations on every run (Gen/FnCacheLengthString.v, Gen/FnCacheLengthBytes.v).
   In the syntactic backend a string is the list of its bytes, like a []byte, so both instances are
   the same Gallina term; the int64 conversion of len is the identity on the unbounded Z of the
   generated code (len is non-negative and below 2^63 on every Go platform: not represented).
   Named types of both kinds (the ~ of the constraint) have the same representation. *)
From Coq Require Import ZArith List Lia.
Import ListNotations.
From Mds Require Import Common.FnRt.
From Mds Require Gen.FnCacheLengthString Gen.FnCacheLengthBytes.
Local Open Scope Z_scope.

Theorem C08_length_string_is_source : forall v : list Z,
  FnCacheLengthString.Length v = Z.of_nat (length v).
Proof. intros v. reflexivity. Qed.

Theorem C08_length_bytes_is_source : forall v : list Z,
  FnCacheLengthBytes.Length v = Z.of_nat (length v).
Proof. intros v. reflexivity. Qed.

(* as a size function: non-negative, additive over concatenation, 0 exactly on the empty value *)
Theorem C08_length_size_facts : forall v w : list Z,
  0 <= FnCacheLengthString.Length v /\
  FnCacheLengthBytes.Length (v ++ w) = FnCacheLengthBytes.Length v + FnCacheLengthBytes.Length w /\
  (FnCacheLengthString.Length v = 0 <-> v = []).
Proof.
  intros v w. unfold FnCacheLengthString.Length, FnCacheLengthBytes.Length, zlen.
  split; [apply Nat2Z.is_nonneg|]. split; [rewrite app_length; apply Nat2Z.inj_add|].
  destruct v as [|a v]; cbn [length]; split; intros H; try reflexivity; try discriminate; lia.
Qed.

Example C08_length_ex :
  FnCacheLengthString.Length [104; 105] = 2 /\ FnCacheLengthBytes.Length [] = 0 /\ FnCacheLengthBytes.Length [0; 255; 7] = 3.
Proof. vm_compute. repeat split. Qed.

Print Assumptions C08_length_string_is_source.
Print Assumptions C08_length_bytes_is_source.
Print Assumptions C08_length_size_facts.
