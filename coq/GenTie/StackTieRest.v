(* The rest of stack/stack.go: Stack.Slice and New.  model = generated function (conventions of
   StackTieBase.v).

   Slice returns the elements of the slice it made (`return nil` for the empty stack is the empty
   list: nil-ness of a slice result is not represented on either side).  The generated function
   checks `make([]T, len(s.list))` (go_make_check); the model has no such check: the proof shows it
   cannot fail (a length is never negative).
   New is translated as a CONSTRUCTOR: the generated function returns the fields of the object it
   builds; `new(Stack[T])` is the literal with every field zero, so New is the empty list, the
   state from which the model's histories (srun [] ...) start. *)
From Coq Require Import ZArith List Bool Lia.
From Mds Require Import Gen.StackIdx Stack.StackModel Common.FnRt GenTie.TieLib GenTie.StackTieBase.
From Mds Require Gen.FnStack.
Import ListNotations.
Local Open Scope Z_scope.

Section Stack.
Context {T : Type}.
Variable zero : T.

Notation idx := (StackModel.idx T).
Notation mupd := (StackModel.upd T).
Notation get_eq := (@get_eq T).
Notation set_eq := (@set_eq T).

Theorem C10_stack_new_is_source : @FnStack.New T = [].
Proof. reflexivity. Qed.

Corollary C10_stack_new_run : forall ops, srun T zero FnStack.New ops = srun T zero [] ops.
Proof. reflexivity. Qed.

(* the copy loop, statement by statement: condition, read of s.list[e], store into cp[i], e--, i++ *)
Lemma slice_loop_tie (l : list T) : forall (fm : nat) (cp : list T) (i e : Z) (fuel gas : nat),
  (fm <= gas)%nat ->
  res_le (emb (fun x => x) (slice_loop T fm l cp i e))
         (bind (FnStack.Slice_loop1 fuel gas l cp i e) (fun r => Ok (fst (fst r)))).
Proof.
  induction fm as [|fm IH]; intros cp i e fuel gas H.
  - apply res_le_oof.
  - destruct gas as [|gas]; [lia|].
    cbn [slice_loop FnStack.Slice_loop1].
    unfold slice_cond, slice_src_idx, slice_dst_idx, slice_i_inc, slice_e_dec.
    change (StackModel.zlen T l) with (zlen l).
    case_if; [|apply res_le_refl].
    rewrite get_eq. destruct (idx l e) as [v|]; cbn [bind emb]; [|apply res_le_refl].
    rewrite set_eq. destruct (mupd cp i v) as [cp'|]; cbn [bind emb]; [|apply res_le_refl].
    apply IH. lia.
Qed.

Theorem C10_stack_slice_is_source : forall (l : list T) (fuel : nat),
  (S (length l) <= fuel)%nat ->
  res_le (emb (fun x => x) (slice T zero l)) (FnStack.Slice l zero fuel).
Proof.
  intros l fuel H. unfold slice, FnStack.Slice, slice_empty, slice_make_len, slice_i_init, slice_e_init.
  change (StackModel.zlen T l) with (zlen l).
  case_if; [apply res_le_refl|].
  unfold go_make_check.
  replace ((0 <=? zlen l) && (zlen l <=? zlen l)) with true by (unfold zlen; lia).
  cbn [bind].
  pose proof (slice_loop_tie l (S (length l)) (repeat zero (Z.to_nat (zlen l))) 0 (zlen l - 1) fuel fuel H) as E.
  destruct (FnStack.Slice_loop1 fuel fuel l (repeat zero (Z.to_nat (zlen l))) 0 (zlen l - 1)) as [[[cp i] e]| |];
    cbn [bind fst] in E |- *; exact E.
Qed.

End Stack.

Print Assumptions C10_stack_new_is_source.
Print Assumptions C10_stack_new_run.
Print Assumptions C10_stack_slice_is_source.
