(* mdiff/reader.go: readNormal, Read.

   The generated readNormal_loop1 carries the statements that follow the if / else-if chain on
   strings.Cut(line, "a" | "c" | "d") once per branch (the translator duplicates the continuation
   of a chain that assigns several variables).  [rn_tail] is that continuation written once, as a
   function of lspec, cmd, rspec and of the next iteration; [readNormal_loop1_unfold] shows BY
   COMPUTATION that each of the three copies in the generated function is this term.  The tail is
   then tied once to the model's iteration ([w_read_normal_loop] of MdiffReadModelW.v at
   wrap := fun z => z: parse_span twice, read_normal_edit, the switch on the command letter, the
   two count checks, the chunk appended).  New chunks are new cells at the end of the heap. *)
From Coq Require Import ZArith NArith List Bool Lia.
Require Coq.Strings.String.
From Mds Require Import Mdiff.ReaderModel Gen.MdiffReadSpan.
From Mds Require Import Common.FnRt Common.FnHeap Common.FnText GenTie.TieLib GenTie.MdiffFmtTieBase
  GenTie.MdiffReadTieBase GenTie.MdiffReadTieSpan GenTie.MdiffReadTieNormalEdit GenTie.MdiffReadModelW.
Import ListNotations.
Local Open Scope Z_scope.

Definition rn_state : Type := (list Z * Z * option (list Z) * list (option nat) * list R.Chunk)%type.
Definition rn_ret : Type := (go_xerr * list Z * Z * option (list Z) * list (option nat) * list R.Chunk)%type.

(* the statements of readNormal's loop body after lspec, cmd, rspec are assigned *)
Definition rn_tail (fuel : nat)
  (rec : list Z -> Z -> option (list Z) -> list (option nat) -> list R.Chunk -> res (ctl rn_state rn_ret))
  (lspec cmd rspec : list Z)
  (r_br : list Z) (r_ln : Z) (r_saved : option (list Z)) (r_chunks : list (option nat)) (h : list R.Chunk)
  : res (ctl rn_state rn_ret) :=
  do (t6, t7, t8) <- R.parseSpan [] lspec X_CutPrefix X_SplitN X_Atoi;
  let llo := t6 in
  let lhi := t7 in
  let err := t8 in
  if negb (go_xerr_isnil err) then
    Ok (Ret ((Some (XFmt "line %d: invalid line range %q: %w" [FInt r_ln; FStr lspec] err)), r_br, r_ln, r_saved, r_chunks, h))
  else
    let lhi := (if lhi =? 0 then llo else lhi) in
    let lhi := lhi + 1 in
    do (t9, t10, t11) <- R.parseSpan [] rspec X_CutPrefix X_SplitN X_Atoi;
    let rlo := t9 in
    let rhi := t10 in
    let err := t11 in
    if negb (go_xerr_isnil err) then
      Ok (Ret ((Some (XFmt "line %d: invalid line range %q: %w" [FInt r_ln; FStr rspec] err)), r_br, r_ln, r_saved, r_chunks, h))
    else
      let rhi := (if rhi =? 0 then rlo else rhi) in
      let rhi := rhi + 1 in
      let sln := r_ln in
      do (t12, t13, r_br, r_ln, r_saved) <- R.readNormalEdit r_br r_ln r_saved X_ReadString X_TrimSuffix X_CutPrefix fuel;
      let e : R.Edit (list Z) := t12 in
      let err := t13 in
      if negb (go_xerr_isnil err) then
        Ok (Ret (err, r_br, r_ln, r_saved, r_chunks, h))
      else
        let switch_tag := cmd in
        let '(llo, rlo, e) := (
            if str_eqb switch_tag (go_str "a") then
              let e := R.mk_Edit 43 (R.Edit_X e) (R.Edit_Y e) in
              let llo := llo + 1 in
              (llo, rlo, e)
            else
              let '(rlo, e) := (
                  if str_eqb switch_tag (go_str "c") then
                    let e := R.mk_Edit 33 (R.Edit_X e) (R.Edit_Y e) in
                    (rlo, e)
                  else if str_eqb switch_tag (go_str "d") then
                    let e := R.mk_Edit 45 (R.Edit_X e) (R.Edit_Y e) in
                    let rlo := rlo + 1 in
                    (rlo, e)
                  else
                    (rlo, e)) in
              (llo, rlo, e)) in
        let n := rhi - rlo in
        if (negb ((zlen (R.Edit_Y e)) =? n)) && ((str_eqb cmd (go_str "a")) || (str_eqb cmd (go_str "c"))) then
          Ok (Ret ((Some (XFmt "line %d: add got %d lines, want %d" [FInt sln; FInt (zlen (R.Edit_Y e)); FInt n] None)), r_br, r_ln, r_saved, r_chunks, h))
        else
          let n_1 := lhi - llo in
          if (negb ((zlen (R.Edit_X e)) =? n_1)) && ((str_eqb cmd (go_str "c")) || (str_eqb cmd (go_str "d"))) then
            Ok (Ret ((Some (XFmt "line %d: delete got %d lines, want %d" [FInt sln; FInt (zlen (R.Edit_X e)); FInt n_1] None)), r_br, r_ln, r_saved, r_chunks, h))
          else
            let '(t14, h) := go_hnew h (R.mk_Chunk [e] llo lhi rlo rhi) in
            let r_chunks := r_chunks ++ [t14] in
            rec r_br r_ln r_saved r_chunks h.

(* one iteration of the generated loop, its three continuations folded into rn_tail *)
Lemma readNormal_loop1_unfold fuel gas br ln sv ads h :
  R.readNormal_loop1 fuel (S gas) X_ReadString X_TrimSuffix X_Cut X_CutPrefix X_SplitN X_Atoi br ln sv ads h =
  let rec := R.readNormal_loop1 fuel gas X_ReadString X_TrimSuffix X_Cut X_CutPrefix X_SplitN X_Atoi in
  do (t1, t2, r_br, r_ln, r_saved) <- R.diffReader_readline br ln sv X_ReadString X_TrimSuffix;
  if go_xerr_isvar t2 "io.EOF" then Ok (Ret (None, r_br, r_ln, r_saved, ads, h))
  else if negb (go_xerr_isnil t2) then Ok (Ret (t2, r_br, r_ln, r_saved, ads, h))
  else if str_eqb t1 [] then
    Ok (Ret ((Some (XFmt "line %d: unexpected blank line" [FInt r_ln] None)), r_br, r_ln, r_saved, ads, h))
  else
    do (x, y, ok) <- X_Cut t1 (go_str "a");
    if ok then rn_tail fuel rec x (go_str "a") y r_br r_ln r_saved ads h
    else
      do (x_1, y_1, ok_1) <- X_Cut t1 (go_str "c");
      if ok_1 then rn_tail fuel rec x_1 (go_str "c") y_1 r_br r_ln r_saved ads h
      else
        do (x_2, y_2, ok_2) <- X_Cut t1 (go_str "d");
        if ok_2 then rn_tail fuel rec x_2 (go_str "d") y_2 r_br r_ln r_saved ads h
        else Ok (Ret ((Some (XFmt "line %d: invalid change command %q" [FInt r_ln; FStr t1] None)), r_br, r_ln, r_saved, ads, h)).
Proof. reflexivity. Qed.

(* ---- what the tie says of one run: the result of the generated loop against the model's ---- *)
Definition rn_spec (r : res (ctl rn_state rn_ret)) (m : rres (list (chunk line))) (h : list R.Chunk) : Prop :=
  exists t' ln' sv' ads' h', hext h h' /\
    match m with
    | ROk cs =>
      cellsR h' ads' cs /\ lines_of sv' t' = [] /\
      r = Ok (Ret (None, zb t', ln', option_map zb sv', ads', h'))
    | RErr e =>
      e <> EFuel /\ exists x, esite x = Some e /\
      r = Ok (Ret (Some x, zb t', ln', option_map zb sv', ads', h'))
    end.

Lemma rn_spec_ext r m h h1 : hext h h1 -> rn_spec r m h1 -> rn_spec r m h.
Proof.
  intros He (t' & ln' & sv' & ads' & h' & He' & H).
  exists t', ln', sv', ads', h'. split; [eapply hext_trans; eassumption | exact H].
Qed.

(* an error answered at once: reader state and heap as they are *)
Lemma rn_spec_err x e t ln sv ads h :
  esite x = Some e -> e <> EFuel ->
  rn_spec (Ok (Ret (Some x, zb t, ln, option_map zb sv, ads, h))) (RErr e) h.
Proof.
  intros Hx Hn. exists t, ln, sv, ads, h. split; [apply hext_refl|].
  split; [exact Hn|]. exists x. split; [exact Hx | reflexivity].
Qed.

(* ---- facts of the model's read_normal_edit ---- *)
Lemma read_normal_edit_err : forall ls xs ys b e, read_normal_edit ls xs ys b = RErr e -> e = EEdit.
Proof.
  induction ls as [|l rest IH]; intros xs ys b e H; cbn [read_normal_edit] in H; [discriminate|].
  destruct (cut_prefix s_lt l).
  { destruct (b || negb (is_nil ys)); [congruence | eapply IH; exact H]. }
  destruct (cut_prefix s_gt l).
  { destruct (negb (is_nil xs) && negb b); [congruence | eapply IH; exact H]. }
  destruct (bytes_eqb l s_sep); [|discriminate].
  destruct b; [congruence | eapply IH; exact H].
Qed.

Lemma read_normal_edit_len : forall ls xs ys b xs' ys' rest,
  read_normal_edit ls xs ys b = ROk (xs', ys', rest) -> (length rest <= length ls)%nat.
Proof.
  induction ls as [|l rest0 IH]; intros xs ys b xs' ys' rest H; cbn [read_normal_edit] in H.
  - assert (rest = []) by congruence. subst. apply Nat.le_refl.
  - cbn [length].
    destruct (cut_prefix s_lt l).
    { destruct (b || negb (is_nil ys)); [discriminate | apply IH in H; lia]. }
    destruct (cut_prefix s_gt l).
    { destruct (negb (is_nil xs) && negb b); [discriminate | apply IH in H; lia]. }
    destruct (bytes_eqb l s_sep).
    + destruct b; [discriminate | apply IH in H; lia].
    + assert (rest = l :: rest0) by congruence. subst. cbn [length]. lia.
Qed.

(* ---- the command letter ---- *)
Definition cmd_str (c : ncmd) : list Z :=
  match c with CmdA => go_str "a" | CmdC => go_str "c" | CmdD => go_str "d" end.

Lemma cmd_is_a c : str_eqb (cmd_str c) (go_str "a") = match c with CmdA => true | _ => false end.
Proof. destruct c; reflexivity. Qed.
Lemma cmd_is_c c : str_eqb (cmd_str c) (go_str "c") = match c with CmdC => true | _ => false end.
Proof. destruct c; reflexivity. Qed.
Lemma cmd_is_d c : str_eqb (cmd_str c) (go_str "d") = match c with CmdD => true | _ => false end.
Proof. destruct c; reflexivity. Qed.

Lemma parseSpan_notag s :
  R.parseSpan [] (zb s) X_CutPrefix X_SplitN X_Atoi =
  match parse_span parse_span_omitted_hi [] s with
  | Some (lo, hi) => Ok (lo, hi, None)
  | None => Ok (0, 0, Some (span_err [] s))
  end.
Proof. exact (C14_parseSpan_is_source [] s). Qed.

Lemma zlen_map_zb (xs : list line) : zlen (map zb xs) = llen xs.
Proof. unfold zlen, llen. rewrite map_length. reflexivity. Qed.

Notation idw := (fun z : Z => z).

(* ---- the tail of one iteration ---- *)
Lemma rn_tail_ok fuel rec mf : forall l rest acc lspec cmd rspec t ln sv ads h,
  is_nil l = false -> split_cmd l = Some (lspec, cmd, rspec) ->
  lines_of sv t = rest -> (length rest < fuel)%nat -> cellsR h ads acc ->
  (forall ls' t' sv' ln' ads' h' acc',
     (length ls' <= length rest)%nat -> lines_of sv' t' = ls' -> cellsR h' ads' acc' ->
     rn_spec (rec (zb t') ln' (option_map zb sv') ads' h') (w_read_normal_loop idw mf ls' acc') h') ->
  rn_spec (rn_tail fuel rec (zb lspec) (cmd_str cmd) (zb rspec) (zb t) ln (option_map zb sv) ads h)
          (w_read_normal_loop idw (S mf) (l :: rest) acc) h.
Proof.
  intros l rest acc lspec cmd rspec t ln sv ads h Hnil Hsplit Hl Hf Hc IHrec.
  cbn [w_read_normal_loop]. rewrite Hnil, Hsplit.
  unfold rn_tail, w_read_normal_range, w_read_normal_range_r.
  rewrite !parseSpan_notag.
  destruct (parse_span parse_span_omitted_hi [] lspec) as [[llo lhi]|]; cbn [bind go_xerr_isnil negb];
    [|apply (rn_spec_err _ ESpan t ln sv ads h); [reflexivity | discriminate]].
  destruct (parse_span parse_span_omitted_hi [] rspec) as [[rlo rhi]|]; cbn [bind go_xerr_isnil negb];
    [|apply (rn_spec_err _ ESpan t ln sv ads h); [reflexivity | discriminate]].
  cbv zeta.
  destruct (C14_readNormalEdit_is_source rest t sv ln fuel Hl Hf) as (t1 & ln1 & sv1 & HE).
  destruct (read_normal_edit rest [] [] false) as [[[xs ys] rest']|e] eqn:ERd.
  2:{ destruct HE as (x & Hx & HE). rewrite HE. cbn [bind go_xerr_isnil negb].
      apply (rn_spec_err x e t1 ln1 sv1 ads h Hx).
      rewrite (read_normal_edit_err _ _ _ _ _ ERd). discriminate. }
  destruct HE as (Hrest & HE). rewrite HE. cbn [bind go_xerr_isnil negb].
  pose proof (read_normal_edit_len _ _ _ _ _ _ _ ERd) as Hlen.
  rewrite !cmd_is_a, !cmd_is_c, !cmd_is_d.
  unfold read_normal_lhi_is_omitted, read_normal_lhi_default, read_normal_lhi_end,
    read_normal_rhi_is_omitted, read_normal_rhi_default, read_normal_rhi_end,
    read_normal_add_llo, read_normal_del_rlo, read_normal_want_add, read_normal_want_del,
    read_normal_chunk_lstart, read_normal_chunk_lend, read_normal_chunk_rstart, read_normal_chunk_rend.
  destruct cmd; cbn [R.Edit_X R.Edit_Y orb andb]; rewrite ?zlen_map_zb, ?andb_true_r, ?andb_false_r.
  - (* a *)
    destruct (llen ys =? (if rhi =? 0 then rlo else rhi) + 1 - rlo); cbn [negb];
      [|apply (rn_spec_err _ ECount t1 ln1 sv1 ads h); [reflexivity | discriminate]].
    unfold go_hnew.
    eapply rn_spec_ext; [exists [hencR (mkChunk [mkEdit Copy xs ys] (llo + 1) ((if lhi =? 0 then llo else lhi) + 1) rlo ((if rhi =? 0 then rlo else rhi) + 1))]; reflexivity|].
    apply IHrec; [exact Hlen | exact Hrest | apply cellsR_snoc; exact Hc].
  - (* c *)
    destruct (llen ys =? (if rhi =? 0 then rlo else rhi) + 1 - rlo); cbn [negb];
      [|apply (rn_spec_err _ ECount t1 ln1 sv1 ads h); [reflexivity | discriminate]].
    destruct (llen xs =? (if lhi =? 0 then llo else lhi) + 1 - llo); cbn [negb];
      [|apply (rn_spec_err _ ECount t1 ln1 sv1 ads h); [reflexivity | discriminate]].
    unfold go_hnew.
    eapply rn_spec_ext; [exists [hencR (mkChunk [mkEdit Replace xs ys] llo ((if lhi =? 0 then llo else lhi) + 1) rlo ((if rhi =? 0 then rlo else rhi) + 1))]; reflexivity|].
    apply IHrec; [exact Hlen | exact Hrest | apply cellsR_snoc; exact Hc].
  - (* d *)
    destruct (llen xs =? (if lhi =? 0 then llo else lhi) + 1 - llo); cbn [negb];
      [|apply (rn_spec_err _ ECount t1 ln1 sv1 ads h); [reflexivity | discriminate]].
    unfold go_hnew.
    eapply rn_spec_ext; [exists [hencR (mkChunk [mkEdit Drop xs ys] llo ((if lhi =? 0 then llo else lhi) + 1) (rlo + 1) ((if rhi =? 0 then rlo else rhi) + 1))]; reflexivity|].
    apply IHrec; [exact Hlen | exact Hrest | apply cellsR_snoc; exact Hc].
Qed.

(* ---- the loop ---- *)
Lemma readNormal_loop_ok fuel : forall n ls, (length ls <= n)%nat ->
  forall mf gas t sv ln ads h acc,
  lines_of sv t = ls -> (length ls < fuel)%nat -> (length ls < gas)%nat -> (length ls < mf)%nat ->
  cellsR h ads acc ->
  rn_spec (R.readNormal_loop1 fuel gas X_ReadString X_TrimSuffix X_Cut X_CutPrefix X_SplitN X_Atoi
             (zb t) ln (option_map zb sv) ads h)
          (w_read_normal_loop idw mf ls acc) h.
Proof.
  induction n as [|n IH]; intros ls Hn mf gas t sv ln ads h acc Hl Hf Hg Hm Hc;
    (destruct gas as [|gas]; [lia|]); (destruct mf as [|mf]; [lia|]);
    rewrite readNormal_loop1_unfold; cbv zeta; rewrite C14_readline_is_source; rewrite lines_of_next in Hl;
    (destruct ls as [|l rest]; [|cbn [length] in Hn, Hf, Hg, Hm]); try lia.
  1,2: destruct (rl_next sv t) as [[l0 t']|]; [discriminate|];
    cbn [bind go_xerr_isvar go_xerr_isnil negb w_read_normal_loop];
    exists [], ln, None, ads, h; split; [apply hext_refl|]; split; [exact Hc|]; split; reflexivity.
  destruct (rl_next sv t) as [[l0 t']|]; [|discriminate].
  assert (E0 : l0 = l) by congruence. assert (H1 : lines_of None t' = rest) by congruence. subst l0. clear Hl.
  cbn [bind go_xerr_isvar go_xerr_isnil negb].
  set (ln1 := match sv with Some _ => ln | None => ln + 1 end).
  rewrite str_eqb_nil.
  destruct (is_nil l) eqn:Hnil.
  { cbn [w_read_normal_loop]. rewrite Hnil.
    apply (rn_spec_err _ EBlank t' ln1 None ads h); [reflexivity | discriminate]. }
  assert (IHrec : forall ls' t2 sv2 ln2 ads2 h2 acc2,
     (length ls' <= length rest)%nat -> lines_of sv2 t2 = ls' -> cellsR h2 ads2 acc2 ->
     rn_spec (R.readNormal_loop1 fuel gas X_ReadString X_TrimSuffix X_Cut X_CutPrefix X_SplitN X_Atoi
                (zb t2) ln2 (option_map zb sv2) ads2 h2)
             (w_read_normal_loop idw mf ls' acc2) h2).
  { intros ls' t2 sv2 ln2 ads2 h2 acc2 Hlen Hl2 Hc2. apply (IH ls'); try assumption; lia. }
  assert (Hf' : (length rest < fuel)%nat) by lia.
  change (go_str "a") with [Z.of_N 97]. change (go_str "c") with [Z.of_N 99]. change (go_str "d") with [Z.of_N 100].
  rewrite X_Cut_zb.
  destruct (cut_byte 97 l) as [[x y]|] eqn:Ea; cbn [bind].
  { apply (rn_tail_ok fuel _ mf l rest acc x CmdA y t' ln1 None ads h Hnil); try assumption.
    unfold split_cmd. rewrite Ea. reflexivity. }
  rewrite X_Cut_zb.
  destruct (cut_byte 99 l) as [[x y]|] eqn:Ec; cbn [bind].
  { apply (rn_tail_ok fuel _ mf l rest acc x CmdC y t' ln1 None ads h Hnil); try assumption.
    unfold split_cmd. rewrite Ea, Ec. reflexivity. }
  rewrite X_Cut_zb.
  destruct (cut_byte 100 l) as [[x y]|] eqn:Ed; cbn [bind].
  { apply (rn_tail_ok fuel _ mf l rest acc x CmdD y t' ln1 None ads h Hnil); try assumption.
    unfold split_cmd. rewrite Ea, Ec, Ed. reflexivity. }
  cbn [w_read_normal_loop]. rewrite Hnil. unfold split_cmd. rewrite Ea, Ec, Ed.
  apply (rn_spec_err _ ECmd t' ln1 None ads h); [reflexivity | discriminate].
Qed.

Lemma C14_readNormal_is_source : forall ls t sv ln fuel h ads acc,
  lines_of sv t = ls -> (length ls < fuel)%nat -> cellsR h ads acc ->
  exists t' ln' sv' ads' h', hext h h' /\
    match w_read_normal_loop (fun z => z) (S (length ls)) ls acc with
    | ROk cs =>
      cellsR h' ads' cs /\ lines_of sv' t' = [] /\
      R.readNormal (zb t) ln (option_map zb sv) ads X_ReadString X_TrimSuffix X_Cut X_CutPrefix X_SplitN X_Atoi h fuel
      = Ok (None, zb t', ln', option_map zb sv', ads', h')
    | RErr e =>
      e <> EFuel /\ exists x, esite x = Some e /\
      R.readNormal (zb t) ln (option_map zb sv) ads X_ReadString X_TrimSuffix X_Cut X_CutPrefix X_SplitN X_Atoi h fuel
      = Ok (Some x, zb t', ln', option_map zb sv', ads', h')
    end.
Proof.
  intros ls t sv ln fuel h ads acc Hl Hf Hc. unfold R.readNormal.
  destruct (readNormal_loop_ok fuel (length ls) ls (Nat.le_refl _) (S (length ls)) fuel t sv ln ads h acc
              Hl Hf Hf (Nat.lt_succ_diag_r _) Hc) as (t' & ln' & sv' & ads' & h' & He & H).
  exists t', ln', sv', ads', h'. split; [exact He|].
  destruct (w_read_normal_loop idw (S (length ls)) ls acc) as [cs|e].
  - destruct H as (H1 & H2 & H3). split; [exact H1|]. split; [exact H2|]. rewrite H3. reflexivity.
  - destruct H as (Hn & x & Hx & H3). split; [exact Hn|]. exists x. split; [exact Hx|]. rewrite H3. reflexivity.
Qed.

(* ---- Read ---- *)
Section Read.
Variable time : Type.

Lemma C14_Read_is_source : forall t h fuel,
  (length (split_lines t) < fuel)%nat ->
  match w_read_normal_lines (fun z => z) (split_lines t) with
  | ROk cs =>
    exists ads h', hext h h' /\ cellsR h' ads cs /\
      R.Read (time_Time := time) (zb t) X_NewReader X_ReadString X_TrimSuffix X_Cut X_CutPrefix X_SplitN X_Atoi h fuel
      = Ok (Some (R.mk_Patch None ads), None, h')
  | RErr e =>
    e <> EFuel /\ exists x h', hext h h' /\ esite x = Some e /\
      R.Read (time_Time := time) (zb t) X_NewReader X_ReadString X_TrimSuffix X_Cut X_CutPrefix X_SplitN X_Atoi h fuel
      = Ok (None, Some x, h')
  end.
Proof.
  intros t h fuel Hf. unfold R.Read, w_read_normal_lines.
  unfold X_NewReader. cbn [bind]. cbv zeta.
  cbn [R.diffReader_br R.diffReader_ln R.diffReader_saved R.diffReader_chunks R.diffReader_fileInfo].
  destruct (C14_readNormal_is_source (split_lines t) t None 0 fuel h [] [] eq_refl Hf (Forall2_nil _))
    as (t' & ln' & sv' & ads' & h' & He & H).
  cbn [option_map] in H.
  destruct (w_read_normal_loop idw (S (length (split_lines t))) (split_lines t) []) as [cs|e].
  - destruct H as (H1 & H2 & H3). exists ads', h'. split; [exact He|]. split; [exact H1|].
    rewrite H3. reflexivity.
  - destruct H as (Hn & x & Hx & H3). split; [exact Hn|]. exists x, h'. split; [exact He|]. split; [exact Hx|].
    rewrite H3. reflexivity.
Qed.
End Read.

Print Assumptions C14_readNormal_is_source.
Print Assumptions C14_Read_is_source.
