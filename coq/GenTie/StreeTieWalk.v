(* stree: node.inorder, Tree.Inorder, node.pathTo, node.inorderAfter generated from the source
   against the model's inorder_until, path_to, inorder_after (see StreeTieBase.v).

   node.inorder is RECURSIVE with a loop: the generated function is a Fixpoint on its fuel whose
   loop receives the function itself at the smaller fuel ([self_]).  Its callback threads a
   state (directive stateful:node.inorder.f), exactly like the model's
   [f : St -> T -> St * bool]; the generated callback answers (continue?, state). *)
From Coq Require Import ZArith List Bool Arith Lia.
From Mds Require Import Gen.StreeConst Gen.StreeNode.
From Mds Require Import Common.FnRt Common.FnHeap GenTie.TieLib GenTie.StreeTieBase.
Import ListNotations.
Local Open Scope Z_scope.

Section Walk.
Context {T St : Type}.
Variable cmp : T -> T -> Z.
Variable g : St -> T -> St * bool.          (* the model's yield function *)
Notation tree := (SM.tree T).
Notation heap := (list (G.node T)).

Definition swap (x : St * bool) : bool * St := (snd x, fst x).
(* the same function as the generated code takes it *)
Definition gf : St -> T -> res (bool * St) := fun s x => Ok (swap (g s x)).

Definition io_end (x : St * bool) : res (ctl (option nat * St) (bool * St)) :=
  if snd x then Ok (Next (None, fst x)) else Ok (Ret (false, fst x)).

(* the loop of inorder along the right spine, given that the recursive calls at fuel f are right *)
Lemma inorder_loop_ok : forall (f : nat) (h : heap),
  (forall a u s, repr h a u -> (f >= depth u + 2)%nat ->
     G.node_inorder a gf s h f = Ok (swap (SM.inorder_until g u s))) ->
  forall (t : tree) (gas : nat) (a : option nat) (s : St),
  repr h a t -> (gas > depth t)%nat -> (f > depth t)%nat ->
  G.node_inorder_loop1 f gas gf (fun a0 a1 a2 h_ => G.node_inorder a0 a1 a2 h_ f) h a s =
  io_end (SM.inorder_until g t s).
Proof.
  intros f h IHf. induction t as [|l _ x r IHr]; intros gas a s R Hg Hf; (destruct gas as [|gas]; [lia|]); cbn [G.node_inorder_loop1].
  - apply repr_leaf_inv in R. subst a. reflexivity.
  - rnode R k c Hk Hl Hr. cbn [go_pnil negb depth SM.inorder_until] in *. rewrite (hget_repr h k c Hk). cbn [bind].
    rewrite (IHf _ l s Hl) by lia. cbn [bind].
    destruct (SM.inorder_until g l s) as [s1 ok1]. cbn [swap fst snd].
    destruct ok1; cbn [negb]; [|reflexivity].
    unfold gf at 1. cbn [bind]. destruct (g s1 (G.node_X c)) as [s2 ok2]. cbn [swap fst snd].
    destruct ok2; cbn [negb]; [|reflexivity].
    apply IHr; [exact Hr|lia|lia].
Qed.

Theorem C01_inorder_is_source : forall (fuel : nat) (h : heap) (a : option nat) (t : tree) (s : St),
  repr h a t -> (fuel >= depth t + 2)%nat ->
  G.node_inorder a gf s h fuel = Ok (swap (SM.inorder_until g t s)).
Proof.
  induction fuel as [|fuel IH]; intros h a t s R Hf; [lia|].
  cbn [G.node_inorder].
  rewrite (inorder_loop_ok fuel h (fun a u s R' H' => IH h a u s R' H') t fuel a s R) by lia.
  unfold io_end. destruct (SM.inorder_until g t s) as [s' ok]. cbn [fst snd swap]. destruct ok; reflexivity.
Qed.

(* func (t *Tree[T]) Inorder(yield func(key T) bool) { t.root.inorder(yield) } *)
Theorem C01_tree_inorder_is_source : forall (fuel : nat) (h : heap) (root : option nat) (t : tree) (s : St),
  repr h root t -> (fuel >= depth t + 2)%nat ->
  G.Tree_Inorder root gf s h fuel = Ok (fst (SM.inorder_until g t s)).
Proof.
  intros fuel h root t s R Hf. unfold G.Tree_Inorder. rewrite (C01_inorder_is_source fuel h root t s R Hf).
  reflexivity.
Qed.

(* ---- pathTo: the addresses of the nodes from n towards key ---- *)
Lemma pathTo_loop_ok : forall (t : tree) (gas fuel : nat) (h : heap) (a : option nat) (key : T) (acc : list (option nat)),
  repr h a t -> (gas > depth t)%nat ->
  exists ps, bind (G.node_pathTo_loop1 fuel gas key cmp h acc a) (fun x => Ok (fst x)) = Ok (acc ++ ps) /\
             Forall2 (repr h) ps (SM.path_to cmp key t).
Proof.
  induction t as [|l IHl x r IHr]; intros gas fuel h a key acc R Hg; (destruct gas as [|gas]; [lia|]); cbn [G.node_pathTo_loop1].
  - apply repr_leaf_inv in R. subst a. exists []. rewrite app_nil_r. split; [reflexivity|constructor].
  - pose proof R as R0. rnode R k c Hk Hl Hr. cbn [go_pnil negb depth SM.path_to] in *. rewrite (hget_repr h k c Hk). cbn [bind].
    unfold path_lt, path_gt.
    destruct (cmp key (G.node_X c) <? 0).
    + destruct (IHl gas fuel h _ key (acc ++ [Some k]) Hl ltac:(lia)) as [ps [E F]].
      exists (Some k :: ps). rewrite E, <- app_assoc. split; [reflexivity|]. constructor; assumption.
    + destruct (cmp key (G.node_X c) >? 0).
      * destruct (IHr gas fuel h _ key (acc ++ [Some k]) Hr ltac:(lia)) as [ps [E F]].
        exists (Some k :: ps). rewrite E, <- app_assoc. split; [reflexivity|]. constructor; assumption.
      * exists [Some k]. split; [reflexivity|]. constructor; [exact R0|constructor].
Qed.

Theorem C01_pathTo_is_source : forall (h : heap) (a : option nat) (t : tree) (key : T) (fuel : nat),
  repr h a t -> (fuel > depth t)%nat ->
  exists ps, G.node_pathTo a key cmp h fuel = Ok ps /\ Forall2 (repr h) ps (SM.path_to cmp key t).
Proof.
  intros h a t key fuel R Hf. unfold G.node_pathTo.
  destruct (pathTo_loop_ok t fuel fuel h a key [] R Hf) as [ps [E F]]. exists ps. split; [|exact F].
  destruct (G.node_pathTo_loop1 fuel fuel key cmp h [] a) as [[p c]| |]; cbn [bind fst] in *; try discriminate.
  exact E.
Qed.

(* every subtree on the model's path is a subtree of t: its depth is bounded *)
Lemma path_to_depth : forall (t : tree) (key : T) (u : tree), In u (SM.path_to cmp key t) -> (depth u <= depth t)%nat.
Proof.
  induction t as [|l IHl x r IHr]; intros key u H; cbn [SM.path_to] in H; [contradiction|].
  destruct H as [<-|H]; [lia|].
  cbn [depth]. destruct (path_lt (cmp key x)); [specialize (IHl _ _ H); lia|].
  destruct (path_gt (cmp key x)); [specialize (IHr _ _ H); lia|contradiction].
Qed.

Lemma path_to_length : forall (t : tree) (key : T), (length (SM.path_to cmp key t) <= depth t)%nat.
Proof.
  induction t as [|l IHl x r IHr]; intros key; cbn [SM.path_to depth length]; [lia|].
  destruct (path_lt (cmp key x)); [specialize (IHl key); lia|].
  destruct (path_gt (cmp key x)); [specialize (IHr key); lia|cbn [length]; lia].
Qed.

Lemma path_to_nodes : forall (t : tree) (key : T) (u : tree), In u (SM.path_to cmp key t) -> u <> SM.Leaf.
Proof.
  induction t as [|l IHl x r IHr]; intros key u H; cbn [SM.path_to] in H; [contradiction|].
  destruct H as [<-|H]; [discriminate|].
  destruct (path_lt (cmp key x)); [apply (IHl _ _ H)|].
  destruct (path_gt (cmp key x)); [apply (IHr _ _ H)|contradiction].
Qed.

Lemma forall2_length {A B} (R : A -> B -> Prop) (l : list A) (m : list B) : Forall2 R l m -> length l = length m.
Proof. induction 1; cbn [length]; congruence. Qed.

(* ---- inorderAfter ---- *)
Definition ia_end (x : St * bool) : res (ctl (St * Z) (bool * St)) :=
  if snd x then Ok (Next (fst x, -1)) else Ok (Ret (false, fst x)).

Lemma after_loop_ok : forall (fm : nat) (h : heap) (ps : list (option nat)) (path : list tree) (key : T) (D : nat),
  Forall2 (repr h) ps path -> (forall u, In u path -> (depth u <= D)%nat /\ u <> SM.Leaf) ->
  forall (i : nat) (gas fuel : nat) (s : St),
  (i <= length path)%nat -> (fm >= i)%nat -> (gas > i)%nat -> (fuel >= D + 2)%nat ->
  exists r, SM.after_loop cmp g key path fm (Z.of_nat i - 1) s = SM.Ok r /\
            G.node_inorderAfter_loop1 fuel gas key cmp gf ps h s (Z.of_nat i - 1) = ia_end r.
Proof.
  intros fm h ps path key D F HD. induction fm as [|fm IH]; intros i gas fuel s Hi Hfm Hg Hfu.
  - assert (i = O) by lia. subst i. destruct gas as [|gas]; [lia|]. cbn [SM.after_loop G.node_inorderAfter_loop1].
    unfold after_more. cbn. exists (s, true). split; reflexivity.
  - destruct gas as [|gas]; [lia|]. cbn [SM.after_loop G.node_inorderAfter_loop1]. unfold after_more.
    destruct i as [|i].
    + cbn. exists (s, true). split; reflexivity.
    + replace (Z.of_nat (S i) - 1) with (Z.of_nat i) by lia.
      replace (Z.of_nat i >=? 0) with true by (symmetry; apply Z.geb_le; lia).
      replace (Z.of_nat i <? 0) with false by (symmetry; apply Z.ltb_ge; lia).
      rewrite Nat2Z.id.
      assert (Hlen : length ps = length path) by (eapply forall2_length; exact F).
      destruct (nth_error path i) as [u|] eqn:Eu; [|apply nth_error_None in Eu; lia].
      destruct (nth_error ps i) as [p|] eqn:Ep; [|apply nth_error_None in Ep; lia].
      assert (Ru : repr h p u).
      { clear - F Eu Ep. revert i Eu Ep. induction F as [|p0 u0 ps0 path0 R0 F0 IHF]; intros i Eu Ep; [destruct i; discriminate|].
        destruct i as [|i]; cbn in Eu, Ep; [inversion Eu; inversion Ep; subst; exact R0 | apply (IHF i Eu Ep)]. }
      destruct (HD u (nth_error_In _ _ Eu)) as [Hdu Hnl].
      assert (Hgo : go_get ps (Z.of_nat i) = Ok p).
      { unfold go_get, zlen. replace ((0 <=? Z.of_nat i) && (Z.of_nat i <? Z.of_nat (length ps)))%bool with true
          by (symmetry; apply andb_true_iff; split; [apply Z.leb_le | apply Z.ltb_lt]; lia).
        rewrite Nat2Z.id, Ep. reflexivity. }
      rewrite Hgo. cbn [bind].
      destruct u as [|ul ux ur]; [contradiction Hnl; reflexivity|].
      rnode Ru k c Hk Hl Hr. cbn [depth] in Hdu. rewrite (hget_repr h k c Hk). cbn [bind].
      unfold after_skip, after_next.
      destruct (cmp (G.node_X c) key <? 0).
      * replace (Z.of_nat i - 1) with (Z.of_nat i - 1) by reflexivity.
        apply (IH i gas fuel s); lia.
      * unfold gf at 1. cbn [bind]. destruct (g s (G.node_X c)) as [s1 ok1]. cbn [swap fst snd].
        destruct ok1; cbn [negb]; [|exists (s1, false); split; reflexivity].
        rewrite (C01_inorder_is_source fuel h _ ur s1 Hr) by lia. cbn [bind].
        destruct (SM.inorder_until g ur s1) as [s2 ok2]. cbn [swap fst snd].
        destruct ok2; cbn [negb]; [|exists (s2, false); split; reflexivity].
        apply (IH i gas fuel s2); lia.
Qed.

Theorem C01_inorderAfter_is_source : forall (h : heap) (a : option nat) (t : tree) (key : T) (s : St) (fuel : nat),
  repr h a t -> (fuel >= depth t + 2)%nat ->
  exists r, SM.inorder_after cmp g key t s = SM.Ok r /\
            G.node_inorderAfter a key cmp gf s h fuel = Ok (swap r).
Proof.
  intros h a t key s fuel R Hf. unfold G.node_inorderAfter, SM.inorder_after.
  destruct (C01_pathTo_is_source h a t key fuel R ltac:(lia)) as [ps [E F]]. rewrite E. cbn [bind].
  assert (Hlen : length ps = length (SM.path_to cmp key t)) by (eapply forall2_length; exact F).
  unfold after_start, zlen. rewrite Hlen.
  set (path := SM.path_to cmp key t) in *.
  destruct (after_loop_ok (length path) h ps path key (depth t) F
              (fun u Hu => conj (path_to_depth t key u Hu) (path_to_nodes t key u Hu))
              (length path) fuel fuel s (Nat.le_refl _) (Nat.le_refl _)) as [r [E1 E2]].
  - pose proof (path_to_length t key). fold path in H. lia.
  - lia.
  - exists r. split; [exact E1|]. rewrite E2. unfold ia_end. destruct r as [s' ok]. cbn [fst snd swap]. destruct ok; reflexivity.
Qed.

End Walk.

Print Assumptions C01_inorder_is_source.
Print Assumptions C01_tree_inorder_is_source.
Print Assumptions C01_pathTo_is_source.
Print Assumptions C01_inorderAfter_is_source.
