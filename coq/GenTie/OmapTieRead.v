(* omap ties, readers: Map.Len, Map.GetOK, Map.Get (Gen/FnOmap.v) given the generated stree methods
   (OmapTieBase.v) = the model's mlen / mget_ok / mget, for the zero Map and for every Map whose
   Tree object stands for the model's tree (osim). *)
From Coq Require Import ZArith List Bool Arith Lia.
From Mds Require Import Common.FnRt Common.FnHeap GenTie.TieLib GenTie.StreeTieBase GenTie.StreeSep
  GenTie.StreeTieRead GenTie.StreeSource GenTie.StreeSourceSim GenTie.OmapTieBase.
From Mds Require Gen.FnOmap Omap.OmapModel Gen.OmapConst.
Import ListNotations.
Local Open Scope Z_scope.

Section OmapRead.
Context {K V : Type}.
Variable kcmp : K -> K -> Z.
Variable zk : K.
Variable zv : V.
Variable b : Z.
Variable h0 : list (G.node (K * V)).
Notation kv := (K * V)%type.
Notation kvcmp := (OM.kvcmp K V kcmp).
Notation osim := (osim kcmp b h0).

Lemma len_tie (nil : bool) (st : gst kv) (m : OM.omap K V) :
  osim nil st m -> O.Len st nil g_Len = Ok (OM.mlen K V m, st).
Proof.
  unfold O.Len, OM.mlen, g_Len. destruct m as [t|]; cbn [OmapTieBase.osim].
  - intros [-> [[Esz _] _]]. rewrite Esz, (C01_len_is_source t). reflexivity.
  - intros ->. reflexivity.
Qed.

Lemma getok_tie (nil : bool) (st : gst kv) (m : OM.omap K V) (k : K) :
  osim nil st m ->
  O.GetOK st k nil (g_Get kcmp zk zv) zv =
  Ok (fst (OM.mget_ok K V kcmp zv m k), snd (OM.mget_ok K V kcmp zv m k), st).
Proof.
  unfold O.GetOK, OM.mget_ok. destruct m as [t|]; cbn [OmapTieBase.osim].
  - intros [-> [Hs [l Hr]]]. cbn [negb]. unfold g_Get, to_pair. cbn [O.KV_Key O.KV_Value].
    pose proof (rel_depth kvcmp t l Hr) as Hd.
    destruct Hs as [Esz [_ [_ [F [R _]]]]]. pose proof (trepr_repr _ _ _ _ R) as Rr.
    rewrite (C01_get_is_source kvcmp (OM.zkv K V zk zv) (g_heap st) (g_root st) (SM.root t) (k, zv) _ Rr)
      by (rewrite Esz; unfold fuel_for, OM.kv in *; lia).
    cbn [bind]. unfold SM.Get. destruct (SM.get kvcmp (k, zv) (SM.root t)) as [e|]; cbn [fst snd of_pair O.KV_Value].
    + reflexivity.
    + reflexivity.
  - intros ->. reflexivity.
Qed.

Lemma get_tie (nil : bool) (st : gst kv) (m : OM.omap K V) (k : K) :
  osim nil st m ->
  O.Get st k nil (g_Get kcmp zk zv) zv = Ok (OM.mget K V kcmp zv m k, st).
Proof.
  intros H. unfold O.Get. rewrite (getok_tie nil st m k H). reflexivity.
Qed.

End OmapRead.
