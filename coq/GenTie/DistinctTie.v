(* The hand-written model of distinct/distinct.go (Distinct/DistinctModel.v: the monad-generic
   program [add], [len], [reset], [count]) equals the functions generated from the Go source
   (Gen/FnDistinct.v, regenerated on every run): Counter.Add, Len, Reset, Count.

   Representation.  The generated functions take the fields c.buf, c.cap, c.p, c.rng.
   * c.buf has the type mapset.Set[T] of another package: its state is the map itself
     ([go_nmap T unit], so that `range c.buf` is a loop over the oracle order [ord_c_buf]), and the
     methods called on it (Remove, Add, Len, Clear) are function arguments.  Here they are
     instantiated with the functions GENERATED from mapset.go (Gen/FnMapset.v) -- cross-file
     composition -- and related to the model's list operations through the mapset ties
     (C18_remove_is_source, C18_add_is_source).
   * c.rng is a rand.Source (an interface of math/rand/v2): an abstract state with the method
     Uint64 as a function argument; instantiated with the stream of the words still to come
     ([sword]: the next word, or the failure [PNoWords] when the stream is exhausted).
   * uint64 arithmetic wraps ([go_u64]); the tie shows nb-- never wraps.

   The model's program is generic in a monad; it is instantiated with the state-and-failure monad
   [SM] over the word stream, the code's own coin ([real_coin]), and an iteration order given as
   the list [ord], accepted iff it is a duplicate-free enumeration of the buffer ([sorder]): the
   statement holds for EVERY ord (an invalid one is PBadOrder on both sides) and every word
   stream.  [cvm_single_halving_pass] (the `if` of the source, known finding F8) is read from Gen. *)
From Coq Require Import ZArith List Bool Lia.
From Mds Require Import Common.FnRt GenTie.TieLib Gen.FnDistinct Gen.DistinctConst
  GenTie.MapsetTieBase GenTie.MapsetTieRead GenTie.MapsetTieWrite GenTie.MapsetTieKeys.
From Mds Require Gen.FnMapset Gen.MapsetFacts Distinct.DistinctModel.
Import ListNotations.
Local Open Scope Z_scope.

Module D := DistinctModel.
Module FM := FnMapset.

Definition PNoWords : panic_kind := PMsg "<tie> the random source has no more words".

Section Tie.
Context {T : Type}.
Variable eqb : T -> T -> bool.
Hypothesis eqb_spec : forall x y, eqb x y = true <-> x = y.
Variable mf : nat.                 (* the fuel given to the mapset functions *)
Hypothesis mf_ok : (2 <= mf)%nat.

(* ---- the monad ---- *)
Definition SM (A : Type) : Type := list Z -> res (A * list Z).
Definition sret (A : Type) (a : A) : SM A := fun ws => Ok (a, ws).
Definition sbind (A B : Type) (m : SM A) (g : A -> SM B) : SM B := fun ws => bind (m ws) (fun '(a, ws') => g a ws').
Definition sword : SM Z := fun ws => match ws with [] => Panic PNoWords | w :: r => Ok (w, r) end.
Definition rep (b : list T) : go_nmap T unit := Some (ents b).
Definition sorder (ord : list T) (b : list T) : SM (list T) :=
  fun ws => if go_nmap_order_ok eqb (rep b) ord then Ok (ord, ws) else Panic PBadOrder.
Definition scoin := D.real_coin SM sret sbind sword.
Definition madd (ord : list T) := D.add T eqb SM sret sbind scoin sword (sorder ord).

Lemma sbind_word A (g : Z -> SM A) ws :
  sbind Z A sword g ws = match ws with [] => Panic PNoWords | w :: r => g w r end.
Proof. destruct ws; reflexivity. Qed.

(* ---- the methods of c.buf: the functions generated from mapset.go ---- *)
Definition b_Remove (m : go_nmap T unit) (items : list T) := FM.Remove m items eqb mf.
Definition b_Add (m : go_nmap T unit) (items : list T) := FM.Add m items eqb mf.
Definition b_Len (m : go_nmap T unit) : res (Z * go_nmap T unit) := Ok (FM.Len m eqb, m).
Definition b_Clear (m : go_nmap T unit) : res (go_nmap T unit * go_nmap T unit) := Ok (FM.Clear m).

Let asmap (b : list T) : M.gomap T := Some (xH, b).
Lemma rep_forget b : rep b = forget (asmap b).
Proof. reflexivity. Qed.

Lemma b_Remove_eq b v : NoDup b -> b_Remove (rep b) [v] = Ok (rep (D.remove T eqb v b), rep (D.remove T eqb v b)).
Proof.
  intros N. unfold b_Remove. rewrite rep_forget.
  rewrite (C18_remove_is_source eqb eqb_spec (asmap b) [v] mf N) by (cbn; lia).
  unfold M.Remove. anchors. cbn [M.remove_loop]. unfold MapsetFacts.remove_break.
  destruct b as [|a b]; [reflexivity|].
  replace (M.m_len T (asmap (a :: b)) =? 0) with false by (unfold M.m_len; cbn [asmap M.m_keys length]; symmetry; apply Z.eqb_neq; lia).
  rewrite called_1 by reflexivity. reflexivity.
Qed.

Lemma b_Add_eq b v : b_Add (rep b) [v] = Ok (rep (D.insert T eqb v b), rep (D.insert T eqb v b)).
Proof.
  unfold b_Add. rewrite rep_forget.
  rewrite (C18_add_is_source eqb eqb_spec (asmap b) xH [v] mf) by (cbn; lia).
  unfold M.Add. anchors. unfold MapsetFacts.add_nil. cbn [asmap M.m_ptr M.nil_ptr]. replace (Z.pos 1 =? 0) with false by reflexivity.
  unfold M.add_helper. cbn [M.bind M.add_loop M.m_set]. anchors. reflexivity.
Qed.

Lemma b_Len_eq b : NoDup b -> b_Len (rep b) = Ok (Z.of_nat (length b), rep b).
Proof. intros N. unfold b_Len, FM.Len, rep, go_nmap_len. cbn [go_nmap_entries]. rewrite (len_ents eqb eqb_spec b N). reflexivity. Qed.

(* ---- membership ---- *)
Lemma mem_In x l : existsb (eqb x) l = true <-> In x l.
Proof.
  rewrite existsb_exists. split.
  - intros [y [I E]]. apply eqb_spec in E; subst. exact I.
  - intros I. exists x. split; [exact I | apply eqb_spec; reflexivity].
Qed.

Lemma has_rep b x : go_nmap_has eqb (rep b) x = true <-> In x b.
Proof.
  unfold go_nmap_has, rep. cbn [go_nmap_entries]. rewrite (get_ents eqb eqb_spec). unfold M.mem.
  destruct (existsb (eqb x) b) eqn:E.
  - split; [intros _; apply mem_In; exact E | reflexivity].
  - split; [discriminate | intros I; apply mem_In in I; congruence].
Qed.

Lemma nodup_NoDup l : go_keys_nodup eqb l = true -> NoDup l.
Proof.
  induction l as [|a l IH]; cbn [go_keys_nodup]; intros H; [constructor|].
  apply andb_true_iff in H. destruct H as [H1 H2]. constructor; [|apply IH; exact H2].
  intros I. apply mem_In in I. rewrite I in H1. discriminate.
Qed.

Lemma remove_In x e b : In x (D.remove T eqb e b) <-> In x b /\ x <> e.
Proof.
  unfold D.remove. rewrite filter_In. split; intros [I N]; split; try exact I.
  - intros ->. rewrite (proj2 (eqb_spec e e) eq_refl) in N. discriminate.
  - destruct (eqb e x) eqn:E; [apply eqb_spec in E; subst; contradiction | reflexivity].
Qed.

Lemma NoDup_remove e b : NoDup b -> NoDup (D.remove T eqb e b).
Proof. apply NoDup_filter. Qed.

Lemma nogrow_remove b e : go_nmap_nogrow_check eqb (rep b) (rep (D.remove T eqb e b)) = Ok tt.
Proof.
  unfold go_nmap_nogrow_check.
  replace (forallb _ _) with true; [reflexivity|]. symmetry. apply forallb_forall.
  intros [x u] I. cbn [fst]. apply has_rep. cbn [rep go_nmap_entries] in I. unfold ents in I.
  apply in_map_iff in I. destruct I as [y [E I]]. inversion E; subst. apply remove_In in I. apply I.
Qed.

(* ---- the pass: for elt := range c.buf { refill; test the bit; Remove; shift; nb-- } ---- *)
Lemma pass_eq (ord : list T) fuel : forall rest (b : list T) (ws : list Z) (nb rnd r : Z) (gas : nat),
  NoDup b -> NoDup rest -> (forall x, In x rest -> In x b) -> 0 <= nb <= 64 ->
  0 <= r -> skipn (Z.to_nat r) ord = rest -> (length rest < gas)%nat ->
  bind (Add_loop1 fuel gas sword b_Remove eqb ord (zlen ord) (rep b) ws nb rnd r)
       (fun '(buf, ws', _, _, _) => Ok (buf, ws'))
  = bind (D.pass T eqb SM sret sbind sword rest b nb rnd ws) (fun '(b', ws') => Ok (rep b', ws')).
Proof.
  induction rest as [|e rest IH]; intros b ws nb rnd r gas Nb Nr Sub NB R E G;
    (destruct gas as [|gas]; [cbn in G; lia|]); cbn [Add_loop1].
  - rewrite (skipn_nil_end _ _ R E). reflexivity.
  - destruct (skipn_cons_get _ _ _ _ R E) as [B [Gt S']]. rewrite B, Gt. cbn [bind D.pass].
    rewrite (proj2 (has_rep b e) (Sub e (or_introl eq_refl))). cbn [negb].
    apply NoDup_cons_iff in Nr. destruct Nr as [Ne Nr'].
    (* what follows the refill, for the nb and rnd it leaves *)
    assert (Body : forall (ws1 : list Z) (nb1 rnd1 : Z), 1 <= nb1 <= 64 ->
      bind (bind (if Z.land rnd1 1 =? 0
                  then bind (b_Remove (rep b) [e]) (fun '(_, c_buf) =>
                         bind (go_nmap_nogrow_check eqb (rep b) c_buf) (fun _ => Ok c_buf))
                  else Ok (rep b))
              (fun c_buf => Add_loop1 fuel gas sword b_Remove eqb ord (zlen ord) c_buf ws1
                              (go_u64 (nb1 - 1)) (Z.shiftr rnd1 1) (r + 1)))
           (fun '(buf, ws', _, _, _) => Ok (buf, ws'))
      = bind (D.pass T eqb SM sret sbind sword rest (if drop_bit rnd1 then D.remove T eqb e b else b)
                (nb_dec nb1) (rnd_shift rnd1) ws1)
             (fun '(b', ws') => Ok (rep b', ws'))).
    { intros ws1 nb1 rnd1 NB1. unfold drop_bit, nb_dec, rnd_shift.
      rewrite go_u64_small by lia.
      destruct (Z.land rnd1 1 =? 0).
      - rewrite (b_Remove_eq b e Nb). cbn [bind]. rewrite nogrow_remove. cbn [bind].
        apply IH; [apply NoDup_remove; exact Nb | exact Nr'
                  | intros x I; apply remove_In; split; [apply Sub; right; exact I | intros ->; contradiction]
                  | lia | lia | exact S' | cbn in G; lia].
      - cbn [bind]. apply IH; [exact Nb | exact Nr' | intros x I; apply Sub; right; exact I | lia | lia | exact S' | cbn in G; lia]. }
    unfold nb_is_zero. destruct (nb =? 0) eqn:Z0.
    + rewrite sbind_word. unfold sword at 1. destruct ws as [|w ws1]; [reflexivity|]. cbn [bind]. unfold refill_nb.
      apply (Body ws1 64 w). lia.
    + cbn [bind]. apply Z.eqb_neq in Z0. apply (Body ws nb rnd). lia.
Qed.

Definition out_of (r : res (D.outcome T * list Z)) : res (go_nmap T unit * Z * list Z) :=
  bind r (fun '(o, ws') => match o with D.Done s' => Ok (rep (D.buf s'), D.p s', ws') | D.Fuel _ => OutOfFuel end).

Lemma maxu_val : D.maxu = 18446744073709551615.
Proof. reflexivity. Qed.

Lemma NoDup_insert v b : NoDup b -> NoDup (D.insert T eqb v b).
Proof.
  intros N. unfold D.insert, D.memb. destruct (existsb (eqb v) b) eqn:E; [exact N|].
  assert (Nv : ~ In v b) by (intros I; apply mem_In in I; congruence).
  clear E. induction N as [|a l Na Nl IH]; cbn [app].
  - constructor; [intros []|constructor].
  - constructor.
    + intros I. apply in_app_or in I. destruct I as [I|[I|[]]]; [contradiction | subst; apply Nv; left; reflexivity].
    + apply IH. intros I. apply Nv. right. exact I.
Qed.

(* after the coin has passed: buf.Add(v); if buf.Len() >= cap { the pass; p >>= 1 } *)
Lemma after_coin (b : list T) (p : Z) (k : nat) (cap : Z) (v : T) (ord : list T) (fuel : nat) (ws : list Z) :
  NoDup b -> (length ord < fuel)%nat ->
  bind (b_Add (rep b) [v]) (fun '(_, c_buf) =>
    bind (b_Len c_buf) (fun '(t5, c_buf) =>
      if t5 >=? cap then
        bind (go_nmap_order_check eqb c_buf ord) (fun _ =>
          bind (Add_loop1 fuel fuel sword b_Remove eqb ord (zlen ord) c_buf ws 0 0 0)
            (fun '(c_buf, c_rng, _, _, _) => Ok (c_buf, Z.shiftr p 1, c_rng)))
      else Ok (c_buf, p, ws)))
  = out_of ((let b' := D.insert T eqb v b in
             if full_cond (Z.of_nat (length b')) cap
             then sbind _ _ (D.halve1 T eqb SM sret sbind sword (sorder ord) b')
                    (fun b'' => sret _ (D.Done (D.mkst b'' (halve_p p) (S k))))
             else sret _ (D.Done (D.mkst b' p k))) ws).
Proof.
  intros N F. rewrite b_Add_eq. cbn [bind]. cbv zeta.
  pose proof (NoDup_insert v b N) as N'. set (b' := D.insert T eqb v b) in *.
  rewrite (b_Len_eq b' N'). cbn [bind]. unfold full_cond.
  destruct (Z.of_nat (length b') >=? cap); [|reflexivity].
  unfold out_of, sbind at 1, D.halve1, sbind at 1, sorder at 1, go_nmap_order_check.
  destruct (go_nmap_order_ok eqb (rep b') ord) eqn:O; [|reflexivity]. cbn [bind].
  assert (Nord : NoDup ord).
  { unfold go_nmap_order_ok in O. apply andb_true_iff in O. destruct O as [O _]. apply andb_true_iff in O. apply nodup_NoDup, O. }
  assert (Sub : forall x, In x ord -> In x b').
  { intros x I. apply has_rep. apply (order_ok_has eqb (rep b') ord O x I). }
  pose proof (pass_eq ord fuel ord b' ws 0 0 0 fuel N' Nord Sub ltac:(lia) (Z.le_refl 0) eq_refl F) as L.
  destruct (Add_loop1 _ _ _ _ _ _ _ _ _ _ _ _) as [[[[[cb cr] nb1] rnd1] r1]| |];
    destruct (D.pass T eqb SM sret sbind sword ord b' 0 0 ws) as [[b2 ws2]| |]; cbn [bind] in *; try discriminate.
  - inversion L; subst. reflexivity.
  - inversion L; subst. reflexivity.
  - reflexivity.
Qed.

Theorem C19_add_is_source : forall (s : D.st T) (cap : Z) (v : T) (ws : list Z) (ord : list T) (fuel mfuel : nat),
  NoDup (D.buf s) -> (length ord < fuel)%nat ->
  Add (rep (D.buf s)) cap (D.p s) ws v sword b_Remove b_Add b_Len eqb ord fuel
  = out_of (madd ord D.cvm_single_halving_pass mfuel cap s v ws).
Proof.
  intros [b p k] cap v ws ord fuel mfuel N F. cbn [D.buf D.p] in *.
  change D.cvm_single_halving_pass with true.
  unfold Add, madd, D.add. cbn [D.buf D.p D.k]. unfold scoin, D.real_coin. rewrite maxu_val.
  destruct (p <? 18446744073709551615) eqn:P.
  - unfold sbind at 1. rewrite sbind_word. unfold sword at 1. destruct ws as [|w ws1]; [reflexivity|].
    cbn [bind]. unfold sret at 1, coin_fail. rewrite P. cbn [andb bind].
    destruct (w >=? p).
    + rewrite (b_Remove_eq b v N). reflexivity.
    + apply (after_coin b p k cap v ord fuel ws1 N F).
  - unfold sbind at 1, sret at 1. cbn [bind]. apply (after_coin b p k cap v ord fuel ws N F).
Qed.

(* ---- Len, Reset, Count ---- *)
Theorem C19_len_is_source : forall (s : D.st T), NoDup (D.buf s) ->
  Len (rep (D.buf s)) b_Len = Ok (D.len T s, rep (D.buf s)).
Proof. intros s N. unfold Len, D.len. apply b_Len_eq; exact N. Qed.

Theorem C19_reset_is_source : forall (s : D.st T),
  Reset (rep (D.buf s)) (D.p s) b_Clear = Ok (rep (D.buf (D.reset T s)), D.p (D.reset T s)).
Proof. intros s. reflexivity. Qed.

Theorem C19_count_is_source : forall (s : D.st T), NoDup (D.buf s) -> 0 <= D.p s < D.two64 ->
  Count (rep (D.buf s)) (D.p s) b_Len = Ok (D.count T s, rep (D.buf s)).
Proof.
  intros [b p k] N R. cbn [D.buf D.p] in *. unfold Count, D.count. rewrite (b_Len_eq b N). cbn [bind].
  unfold D.len, D.wrap64, count_ret, count_p2k. cbn [D.buf D.p].
  change D.two64 with 18446744073709551616 in *.
  assert (LZ : go_lz64 p = D.lz64 p) by reflexivity. rewrite LZ.
  assert (0 <= D.lz64 p <= 64).
  { unfold D.lz64. destruct (p <=? 0) eqn:E; [lia|]. apply Z.leb_gt in E.
    assert (Z.log2 p < 64) by (apply Z.log2_lt_pow2; lia). pose proof (Z.log2_nonneg p). lia. }
  rewrite (go_u64_small (D.lz64 p)) by lia.
  unfold go_u64. rewrite Z.mul_mod_idemp_l by lia. reflexivity.
Qed.

End Tie.

Print Assumptions C19_add_is_source.
Print Assumptions C19_len_is_source.
Print Assumptions C19_reset_is_source.
Print Assumptions C19_count_is_source.
