(* bisectRight of slice/lis.go, and slices.BinarySearchFunc of the standard library (go1.23,
   GOROOT/src/slices/sort.go, translated like any other function): the model's loops
   (LisModel.bisect_loop, the hand copy LisModel.std_binsearch_loop) = the generated functions,
   for EVERY callback [clo] that answers like the model's closure [key_cmp] (LNDSFunc and LISFunc
   hand in the literal func(idx int, target T) int { return cmp(vs[idx], target) }). *)
From Coq Require Import ZArith List Bool Lia ZifyBool.
From Mds Require Import Common.FnRt GenTie.TieLib Gen.LisIdx Gen.FnLis Gen.FnSlices Slice.LcsModel Slice.LisModel GenTie.LisTieBase.
Import ListNotations.
Local Open Scope Z_scope.

Section Bisect.
Context {T : Type}.
Variable cmp : T -> T -> Z.
Variable g : lis_gen.
Variable vs : list T.
Variable clo : Z -> T -> res Z.
Hypothesis clo_ok : forall idx target, req (emb (key_cmp T cmp g vs idx target)) (clo idx target).

Lemma mid_in_range low high : 0 <= low < high -> low <= Z.quot (low + high) 2 < high.
Proof.
  intros H. rewrite Z.quot_div_nonneg by lia.
  split; [apply Z.div_le_lower_bound; lia | apply Z.div_lt_upper_bound; lia].
Qed.

Lemma bisect_loop_req : forall fuel gas f0 sub target low high,
  0 <= low <= high -> high - low < Z.of_nat fuel -> high - low < Z.of_nat gas ->
  req (emb (bisect_loop T cmp g fuel vs sub target low high))
      (bind (bisectRight_loop1 f0 gas sub target clo low high) (fun '(l, _) => Ok l)).
Proof.
  induction fuel; intros gas f0 sub target low high Hl Hf Hg.
  - simpl in Hf. exfalso; lia.
  - destruct gas; [simpl in Hg; exfalso; lia|].
    cbn [bisect_loop bisectRight_loop1].
    unfold bis_cond, bis_mid, bis_gt, bis_high_upd, bis_low_upd, bis_ret.
    destruct (low <? high) eqn:Ec; [|reflexivity].
    assert (Hm : low <= Z.quot (low + high) 2 < high) by (apply mid_in_range; lia).
    req_get sub (Z.quot (low + high) 2).
    pose proof (clo_ok z target) as Hc.
    destruct (key_cmp T cmp g vs z target) as [cv|]; destruct (clo z target) as [cv'| |]; simpl in Hc; try contradiction; cbn [bind emb]; try exact I.
    subst cv'.
    destruct (cv >? 0); apply IHfuel; lia.
Qed.

(* bisectRight = the model's bisect_right, for every fuel above the length of the searched slice *)
Theorem C12_bisectRight_is_source : forall sub target fuel, (length sub < fuel)%nat ->
  req (emb (bisect_right T cmp g vs sub target)) (bisectRight sub target clo fuel).
Proof.
  intros sub target fuel Hf. unfold bisect_right, bisectRight, bis_ln, bis_low0, bis_high0. cbv zeta.
  pose proof (bisect_loop_req (S (length sub)) fuel fuel sub target 0 (LcsModel.zlen sub)) as H.
  unfold LcsModel.zlen, FnRt.zlen in *.
  match goal with |- req _ ?r => replace r with
    (bind (bisectRight_loop1 fuel fuel sub target clo 0 (Z.of_nat (length sub))) (fun '(l, _) => Ok l)) end.
  - apply H; lia.
  - destruct (bisectRight_loop1 fuel fuel sub target clo 0 (Z.of_nat (length sub))) as [[l h]| |]; reflexivity.
Qed.

(* ---- slices.BinarySearchFunc (go1.23): the loop, then one more call of the callback for the
   `found` result, which the hand copy does not make: it repeats a call the loop has made, so a
   deterministic callback answers it again without a panic. *)
Definition probed (sub : list Z) (target : T) (j : Z) : Prop :=
  j < FnRt.zlen sub -> exists idx c, znth sub j = Some idx /\ clo idx target = Ok c.

Lemma std_loop_req : forall fuel gas f0 sub target i j,
  0 <= i <= j -> j <= FnRt.zlen sub -> j - i < Z.of_nat fuel -> j - i < Z.of_nat gas -> probed sub target j ->
  match std_binsearch_loop T cmp g fuel vs sub target i j, BinarySearchFunc_loop1 f0 gas sub target clo i j with
  | Some r, Ok (i', j') => r = i' /\ i' <= j' /\ (i' < j' -> False) /\ j' <= FnRt.zlen sub /\ 0 <= i' /\ probed sub target j'
  | None, Panic _ => True
  | _, _ => False
  end.
Proof.
  induction fuel; intros gas f0 sub target i j Hi Hj Hf Hg Hp.
  - simpl in Hf. destruct gas; simpl in Hg; [|lia]. exfalso; lia.
  - destruct gas; [simpl in Hg; exfalso; lia|].
    cbn [std_binsearch_loop BinarySearchFunc_loop1].
    destruct (i <? j) eqn:Ec.
    2:{ repeat split; try lia; auto. }
    assert (Hm : i <= Z.shiftr (i + j) 1 < j).
    { rewrite Z.shiftr_div_pow2 by lia. change (2 ^ 1) with 2.
      split; [apply Z.div_le_lower_bound; lia | apply Z.div_lt_upper_bound; lia]. }
    destruct (znth sub (Z.shiftr (i + j) 1)) as [idx|] eqn:E.
    2:{ destruct (get_none _ _ E) as [k Ek]. rewrite Ek. exact I. }
    rewrite (get_some _ _ _ E). cbn [bind].
    pose proof (clo_ok idx target) as Hc.
    destruct (key_cmp T cmp g vs idx target) as [cv|]; destruct (clo idx target) as [cv'| |] eqn:Ecl; simpl in Hc; try contradiction; cbn [bind]; try exact I.
    subst cv'.
    destruct (cv <? 0).
    + apply IHfuel; try lia. exact Hp.
    + apply IHfuel; try lia. intros _. exists idx, cv. split; assumption.
Qed.

Theorem C12_BinarySearchFunc_is_source : forall sub target fuel, (length sub < fuel)%nat ->
  req (emb (std_binsearch T cmp g vs sub target))
      (bind (BinarySearchFunc sub target clo fuel) (fun '(i, _) => Ok i)).
Proof.
  intros sub target fuel Hf. unfold std_binsearch, BinarySearchFunc. cbv zeta.
  pose proof (std_loop_req (S (length sub)) fuel fuel sub target 0 (FnRt.zlen sub)) as H.
  change (LcsModel.zlen sub) with (FnRt.zlen sub).
  assert (P1 : 0 <= 0 <= FnRt.zlen sub) by (unfold FnRt.zlen; lia).
  assert (P2 : FnRt.zlen sub <= FnRt.zlen sub) by lia.
  assert (P3 : FnRt.zlen sub - 0 < Z.of_nat (S (length sub))) by (unfold FnRt.zlen; lia).
  assert (P4 : FnRt.zlen sub - 0 < Z.of_nat fuel) by (unfold FnRt.zlen; lia).
  assert (P5 : probed sub target (FnRt.zlen sub)) by (intros ?; lia).
  specialize (H P1 P2 P3 P4 P5). clear P1 P2 P3 P4 P5.
  destruct (std_binsearch_loop T cmp g (S (length sub)) vs sub target 0 (FnRt.zlen sub)) as [r|];
    destruct (BinarySearchFunc_loop1 fuel fuel sub target clo 0 (FnRt.zlen sub)) as [[i' j']| |]; cbn [bind emb];
    try contradiction; try exact I.
  destruct H as (-> & H1 & H2 & H3 & H4 & Hp).
  destruct (i' <? FnRt.zlen sub) eqn:El; cbn [bind]; [|simpl; reflexivity].
  assert (i' = j') by lia. subst j'.
  destruct Hp as (idx & c & E1 & E2); [lia|].
  rewrite (get_some _ _ _ E1). cbn [bind]. rewrite E2. simpl. reflexivity.
Qed.
End Bisect.

Print Assumptions C12_bisectRight_is_source.
Print Assumptions C12_BinarySearchFunc_is_source.
