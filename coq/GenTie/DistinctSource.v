(* Source-level history theorem for distinct (C19): a state machine whose steps CALL the functions
   generated from distinct/distinct.go (Gen/FnDistinct.v: Add, Len, Reset, Count; start state = the
   fields of the Counter the generated NewCounter returns, Gen/FnDistinctNew.v), related to the
   model's deterministic history [D.run_obs] (Distinct/DistinctModel.v), so that the model-level C19
   theorems can be read as statements about the generated code.

   The two monad instances.  The per-function tie (GenTie/DistinctTie.v) instantiates the model's
   monad-generic program [add] with the state-and-failure monad [SM] over the word stream and ONE
   iteration order [ord] for the range loop; the model's histories ([D.step], [D.run]) instantiate it
   with the bit-reader monad [D.D] over a tape (words + a map-order oracle) where [dword] rejects
   words outside 0..2^64-1 and [dorder] decodes the oracle into an order.  The bridge below
   ([pass_bridge], [kont_bridge], [madd_bridge]) shows that on a stream of words that are all in
   range ([words_ok]) the SM instance run with the order [dorder] denotes IS the D instance
   ([sof] translates results: NoWords -> PNoWords, BadOracle -> PBadOrder).

   The machine.  State = the generated record [DN.Counter T (list Z)] (buf: the map, cap, p, rng:
   the words still to come).  [gstep c (OAdd v o)] = the generated Add on the fields of c, the
   methods of c.buf being the functions GENERATED from mapset.go (b_Remove/b_Add/b_Len/b_Clear of
   DistinctTie.v), rng.Uint64 = [sword], the range order = [gord c v o]: the order the model's
   validated oracle decodes to ([] when the oracle is rejected), fuel = its length + 1.
   [gstep c OReset] = the generated Reset.  [gobserve] = the generated Len, then the generated Count
   on the map Len handed back.  [grun_obs] records after every operation (Len, Count, p, number of
   words drawn), the record of the model's [run_obs].

   The order.  [dorder_valid]: the order [dorder] decodes ANY oracle to (list order for None; for
   [Some sv] the arrangement [D.arrange] of the buffer that puts the survivors sv at the keeping bits
   of the words about to be consumed) is an enumeration of the buffer, so the order check of the
   generated code ([go_nmap_order_check]) accepts it; an oracle [dorder] rejects (BadOracle) is the
   order [] on a non-empty buffer, which the generated check rejects with PBadOrder.  Hence the
   one-step and history theorems are equalities for every oracle, failures included. *)
From Coq Require Import ZArith List Bool Lia.
From Mds Require Import Common.FnRt GenTie.TieLib Gen.FnDistinct Gen.DistinctConst
  GenTie.MapsetTieBase GenTie.DistinctTie GenTie.DistinctTieNew.
From Mds Require Gen.FnDistinctNew Distinct.DistinctModel Distinct.DistinctSpec Distinct.DistinctProofs GenTie.MapsetSource.
Import ListNotations.
Local Open Scope Z_scope.

Module DP := DistinctProofs.
Module DS := DistinctSpec.

Definition PBadWord : panic_kind := PMsg "<tie> a word of the random source is outside 0..2^64-1".

Section Source.
Context {T : Type}.
Variable eqb : T -> T -> bool.
Hypothesis eqb_spec : forall x y, eqb x y = true <-> x = y.

Lemma eqb_reflect : forall x y, reflect (x = y) (eqb x y).
Proof. intros x y. apply iff_reflect. symmetry. apply eqb_spec. Qed.

Definition mf : nat := 2.
Lemma mf_ok : (2 <= mf)%nat.
Proof. unfold mf. lia. Qed.

(* the pinned value of the F8 switch, read from Gen *)
Notation single := D.cvm_single_halving_pass.

(* ------------------------------------------------------------------ the machine *)
Notation gst := (DN.Counter T (list Z)).

Definition keys (m : go_nmap T unit) : list T := map fst (go_nmap_entries m).

(* the words left when the range loop starts: the coin drew one iff p < MaxUint64 *)
Definition words_after_coin (c : gst) : list Z :=
  if DN.Counter_p c <? D.maxu then tl (DN.Counter_rng c) else DN.Counter_rng c.

(* the iteration order of `range c.buf` in Add(v): what the model's oracle decodes to *)
Definition gord (c : gst) (v : T) (o : option (list T)) : list T :=
  match D.dorder T eqb (D.insert T eqb v (keys (DN.Counter_buf c))) (D.mktape T (words_after_coin c) o) with
  | D.DOk l _ => l
  | D.DErr _ => []
  end.

Definition gstep (c : gst) (o : D.op T) : res gst :=
  match o with
  | D.OReset =>
    bind (Reset (DN.Counter_buf c) (DN.Counter_p c) b_Clear)
         (fun '(b, p) => Ok (DN.mk_Counter b (DN.Counter_cap c) p (DN.Counter_rng c)))
  | D.OAdd v o =>
    let ord := gord c v o in
    bind (Add (DN.Counter_buf c) (DN.Counter_cap c) (DN.Counter_p c) (DN.Counter_rng c) v
              sword (b_Remove eqb mf) (b_Add eqb mf) (b_Len eqb) eqb ord (S (length ord)))
         (fun '(b, p, r) => Ok (DN.mk_Counter b (DN.Counter_cap c) p r))
  end.

(* Len, then Count on the map Len handed back *)
Definition gobserve (c : gst) : res (Z * Z * Z * gst) :=
  bind (Len (DN.Counter_buf c) (b_Len eqb)) (fun '(l, b1) =>
  bind (Count b1 (DN.Counter_p c) (b_Len eqb)) (fun '(n, b2) =>
    Ok (l, n, DN.Counter_p c, DN.mk_Counter b2 (DN.Counter_cap c) (DN.Counter_p c) (DN.Counter_rng c)))).

Fixpoint grun_obs (c : gst) (ops : list (D.op T)) : list (Z * Z * Z * Z) * res gst :=
  match ops with
  | [] => ([], Ok c)
  | o :: r =>
    match bind (gstep c o) gobserve with
    | Ok (l, n, p, c') =>
      let '(obs, fin) := grun_obs c' r in
      ((l, n, p, Z.of_nat (length (DN.Counter_rng c) - length (DN.Counter_rng c'))) :: obs, fin)
    | Panic k => ([], Panic k)
    | OutOfFuel => ([], OutOfFuel)
    end
  end.

(* ------------------------------------------------------------------ model state -> generated record *)
Definition enc (cap : Z) (s : D.st T) (ws : list Z) : gst :=
  DN.mk_Counter (rep (D.buf s)) cap (D.p s) ws.

Definition emb (cap : Z) (r : D.rres T) : res gst :=
  match r with
  | D.ROk s ws => Ok (enc cap s ws)
  | D.RErr D.NoWords => Panic PNoWords
  | D.RErr D.BadOracle => Panic PBadOrder
  | D.RErr D.BadWord => Panic PBadWord
  | D.RErr D.OutOfFuel => OutOfFuel
  end.

Definition words_ok (ws : list Z) : Prop := Forall (fun w => 0 <= w < D.two64) ws.

(* ------------------------------------------------------------------ the bridge D.D <-> SM *)
Definition sof {A : Type} (r : D.dres T A) : res (A * list Z) :=
  match r with
  | D.DOk a t => Ok (a, D.words T t)
  | D.DErr D.NoWords => Panic PNoWords
  | D.DErr D.BadOracle => Panic PBadOrder
  | D.DErr D.BadWord => Panic PBadWord
  | D.DErr D.OutOfFuel => OutOfFuel
  end.

Lemma dbind_word A (g : Z -> D.D T A) w r o : words_ok (w :: r) ->
  D.dbind T Z A (D.dword T) g (D.mktape T (w :: r) o) = g w (D.mktape T r o).
Proof.
  intros H. inversion H as [|? ? Hw Hr]; subst. unfold D.dbind, D.dword. cbn [D.words D.orc].
  replace ((0 <=? w) && (w <? D.two64)) with true; [reflexivity|].
  symmetry. apply andb_true_iff. split; [apply Z.leb_le | apply Z.ltb_lt]; lia.
Qed.

Lemma dbind_eq A B (m : D.D T A) (g : A -> D.D T B) t :
  D.dbind T A B m g t = match m t with D.DOk a t' => g a t' | D.DErr e => D.DErr e end.
Proof. reflexivity. Qed.

Lemma sbind_eq A B (m : SM A) (g : A -> SM B) ws :
  sbind A B m g ws = bind (m ws) (fun '(a, ws') => g a ws').
Proof. reflexivity. Qed.

Lemma dbind_word_nil A (g : Z -> D.D T A) o :
  D.dbind T Z A (D.dword T) g (D.mktape T [] o) = D.DErr D.NoWords.
Proof. reflexivity. Qed.

Notation spass := (D.pass T eqb SM sret sbind sword).
Notation dpass := (D.pass T eqb (D.D T) (D.dret T) (D.dbind T) (D.dword T)).

(* the eviction pass: the same result in both instances; the words left are still in range *)
Lemma pass_bridge o : forall elts b nb rnd ws, words_ok ws ->
  spass elts b nb rnd ws = sof (dpass elts b nb rnd (D.mktape T ws o))
  /\ (forall b' t', dpass elts b nb rnd (D.mktape T ws o) = D.DOk b' t' -> words_ok (D.words T t')).
Proof.
  induction elts as [|e rest IH]; intros b nb rnd ws W.
  - cbn [D.pass]. split; [reflexivity|]. intros b' t' E. unfold D.dret in E. inversion E; subst. exact W.
  - cbn [D.pass]. destruct (nb_is_zero nb).
    + rewrite sbind_word. destruct ws as [|w r].
      * rewrite dbind_word_nil. split; [reflexivity | intros; discriminate].
      * rewrite (dbind_word _ _ w r o W). inversion W; subst. apply IH; assumption.
    + apply IH. exact W.
Qed.

Lemma keys_rep b : keys (rep b) = b.
Proof.
  unfold keys, rep. cbn [go_nmap_entries]. unfold ents. rewrite map_map. cbn [fst]. apply map_id.
Qed.

Lemma order_self b : NoDup b -> go_nmap_order_ok eqb (rep b) b = true.
Proof.
  intros N. pose proof (@MapsetSource.entries_order_ok T unit eqb eqb_spec (ents b)) as H.
  assert (E : map fst (ents b) = b) by (unfold ents; rewrite map_map; cbn [fst]; apply map_id).
  rewrite E in H. exact (H N).
Qed.

Lemma order_nil_bad b : NoDup b -> b <> [] -> go_nmap_order_ok eqb (rep b) [] = false.
Proof.
  intros N NE. unfold go_nmap_order_ok, rep, go_nmap_len. cbn [go_nmap_entries].
  rewrite (len_ents eqb eqb_spec b N). destruct b as [|a b]; [contradiction|].
  unfold zlen. cbn [length]. replace (Z.of_nat 0 =? Z.of_nat (S (length b))) with false; [reflexivity|].
  symmetry. apply Z.eqb_neq. lia.
Qed.

(* dorder never touches the tape and fails only with BadOracle *)
Lemma dorder_cases b t :
  (exists l, D.dorder T eqb b t = D.DOk l t) \/ D.dorder T eqb b t = D.DErr D.BadOracle.
Proof.
  unfold D.dorder. destruct (D.orc T t) as [sv|]; [|left; eexists; reflexivity].
  destruct (negb _); [left; eexists; reflexivity|].
  destruct (_ && _ && _); [left; eexists; reflexivity | right; reflexivity].
Qed.

Lemma insert_nonempty v b : D.insert T eqb v b <> [].
Proof.
  unfold D.insert. destruct (D.memb T eqb v b) eqn:E.
  - destruct b; [discriminate E | discriminate].
  - destruct b; discriminate.
Qed.

(* ---- the order [dorder] decodes an oracle to is an enumeration of the buffer ---- *)
Lemma order_ok_intro b l : NoDup b -> length l = length b -> NoDup l -> incl l b ->
  go_nmap_order_ok eqb (rep b) l = true.
Proof.
  intros Nb L Nl I. unfold go_nmap_order_ok, rep, go_nmap_len. cbn [go_nmap_entries].
  rewrite (len_ents eqb eqb_spec b Nb). unfold zlen. rewrite L, Z.eqb_refl.
  rewrite (@MapsetSource.keys_nodup T eqb eqb_spec l Nl). cbn [andb].
  apply forallb_forall. intros x Hx. apply (has_rep eqb eqb_spec). apply I. exact Hx.
Qed.

Lemma filter_compl_length (f : T -> bool) l :
  (length (filter f l) + length (filter (fun x => negb (f x)) l) = length l)%nat.
Proof. induction l as [|a l IH]; [reflexivity|]. cbn [filter]. destruct (f a); cbn [negb length]; lia. Qed.

Lemma filter_compl_length_bool (ds : list bool) :
  (length (filter negb ds) + length (filter (fun d => d) ds) = length ds)%nat.
Proof. induction ds as [|d r IH]; [reflexivity|]. destruct d; cbn [filter negb length]; lia. Qed.

Lemma firstn_In (x : T) : forall n l, In x (firstn n l) -> In x l.
Proof.
  induction n as [|n IH]; intros l H; [contradiction|]. destruct l as [|a l]; [contradiction|].
  cbn [firstn] in H. destruct H as [H|H]; [left; exact H | right; apply IH; exact H].
Qed.

Lemma dmemb_In x l : D.memb T eqb x l = true <-> In x l.
Proof. apply (DP.memb_In T eqb eqb_reflect). Qed.

(* the elements of b outside a duplicate-free sublist k: |b| - |k| of them *)
Lemma outside_length k b : NoDup k -> NoDup b -> incl k b ->
  length (filter (fun x => negb (D.memb T eqb x k)) b) = (length b - length k)%nat.
Proof.
  intros Nk Nb I. pose proof (filter_compl_length (fun x => D.memb T eqb x k) b) as H.
  assert (E : length (filter (fun x => D.memb T eqb x k) b) = length k).
  { apply Nat.le_antisymm.
    - apply NoDup_incl_length; [apply NoDup_filter; exact Nb|].
      intros x Hx. apply filter_In in Hx. apply dmemb_In. apply Hx.
    - apply NoDup_incl_length; [exact Nk|].
      intros x Hx. apply filter_In. split; [apply I; exact Hx | apply dmemb_In; exact Hx]. }
  cbv beta in H. lia.
Qed.

Lemma nodupb_NoDup l : D.nodupb T eqb l = true -> NoDup l.
Proof.
  induction l as [|a l IH]; cbn [D.nodupb]; intros H; [constructor|].
  apply andb_true_iff in H. destruct H as [H1 H2]. constructor; [|apply IH; exact H2].
  intros I. apply dmemb_In in I. rewrite I in H1. discriminate.
Qed.

Lemma NoDup_app_disj (l1 l2 : list T) : NoDup l1 -> NoDup l2 -> (forall x, In x l1 -> ~ In x l2) -> NoDup (l1 ++ l2).
Proof.
  intros N1 N2 Dj. induction N1 as [|a l1 Na N1 IH]; [exact N2|]. cbn [app]. constructor.
  - intros I. apply in_app_or in I. destruct I as [I|I]; [contradiction|]. exact (Dj a (or_introl eq_refl) I).
  - apply IH. intros x Hx. apply Dj. right. exact Hx.
Qed.

Lemma arrange_In : forall drops keep gone x, In x (D.arrange T drops keep gone) -> In x keep \/ In x gone.
Proof.
  induction drops as [|d r IH]; intros keep gone x H; [contradiction|]. cbn [D.arrange] in H. destruct d.
  - destruct gone as [|g gs]; [contradiction|]. destruct H as [H|H]; [right; left; exact H|].
    destruct (IH _ _ _ H) as [H'|H']; [left; exact H' | right; right; exact H'].
  - destruct keep as [|k ks]; [contradiction|]. destruct H as [H|H]; [left; left; exact H|].
    destruct (IH _ _ _ H) as [H'|H']; [left; right; exact H' | right; exact H'].
Qed.

Lemma arrange_NoDup : forall drops keep gone, NoDup keep -> NoDup gone -> (forall x, In x keep -> ~ In x gone) ->
  NoDup (D.arrange T drops keep gone).
Proof.
  induction drops as [|d r IH]; intros keep gone Nk Ng Dj; [constructor|]. cbn [D.arrange]. destruct d.
  - destruct gone as [|g gs]; [constructor|]. inversion Ng as [|? ? Ng1 Ng2]; subst. constructor.
    + intros I. apply arrange_In in I. destruct I as [I|I]; [exact (Dj g I (or_introl eq_refl)) | contradiction].
    + apply IH; [exact Nk | exact Ng2 | intros x Hx Hg; exact (Dj x Hx (or_intror Hg))].
  - destruct keep as [|k ks]; [constructor|]. inversion Nk as [|? ? Nk1 Nk2]; subst. constructor.
    + intros I. apply arrange_In in I. destruct I as [I|I]; [contradiction | exact (Dj k (or_introl eq_refl) I)].
    + apply IH; [exact Nk2 | exact Ng | intros x Hx; apply Dj; right; exact Hx].
Qed.

Lemma arrange_length : forall drops keep gone,
  (length (filter negb drops) <= length keep)%nat -> (length (filter (fun d => d) drops) <= length gone)%nat ->
  length (D.arrange T drops keep gone) = length drops.
Proof.
  induction drops as [|d r IH]; intros keep gone Hk Hg; [reflexivity|]. cbn [D.arrange]. destruct d; cbn [filter negb length] in Hk, Hg.
  - destruct gone as [|g gs]; [cbn in Hg; lia|]. cbn [length] in *. rewrite IH; [reflexivity | exact Hk | lia].
  - destruct keep as [|k ks]; [cbn in Hk; lia|]. cbn [length] in *. rewrite IH; [reflexivity | lia | exact Hg].
Qed.

Lemma dorder_valid b t l : NoDup b -> D.dorder T eqb b t = D.DOk l t ->
  go_nmap_order_ok eqb (rep b) l = true.
Proof.
  intros Nb. unfold D.dorder. destruct (D.orc T t) as [sv|].
  2:{ intros E. inversion E; subst. apply order_ok_intro; [exact Nb | reflexivity | exact Nb | apply incl_refl]. }
  set (drops := D.peek_drops (length b) (D.words T t) 0 0).
  destruct (Nat.eqb (length drops) (length b)) eqn:EL; cbn [negb].
  2:{ intros E. inversion E; subst. apply order_ok_intro; [exact Nb | reflexivity | exact Nb | apply incl_refl]. }
  apply Nat.eqb_eq in EL.
  set (ones := length (filter negb drops)).
  destruct (forallb (fun x => D.memb T eqb x b) sv && D.nodupb T eqb sv && Nat.leb (length sv) ones) eqn:C; [|discriminate].
  apply andb_true_iff in C. destruct C as [C C3]. apply andb_true_iff in C. destruct C as [C1 C2].
  apply Nat.leb_le in C3. apply nodupb_NoDup in C2.
  assert (Isv : incl sv b). { intros x Hx. rewrite forallb_forall in C1. apply dmemb_In. apply C1. exact Hx. }
  set (rest := filter (fun x => negb (D.memb T eqb x sv)) b).
  set (keep := sv ++ firstn (ones - length sv) rest).
  set (gone := filter (fun x => negb (D.memb T eqb x keep)) b).
  intros E. inversion E; subst l. clear E.
  assert (Lrest : length rest = (length b - length sv)%nat) by (apply outside_length; assumption).
  assert (Lones : (ones <= length b)%nat).
  { unfold ones. rewrite <- EL. pose proof (filter_compl_length_bool drops). lia. }
  assert (Nrest : NoDup rest) by (apply NoDup_filter; exact Nb).
  assert (Nkeep : NoDup keep).
  { apply NoDup_app_disj; [exact C2 | |].
    - clear -Nrest. revert Nrest. generalize (ones - length sv)%nat. induction rest as [|a l IH]; intros n N; [rewrite firstn_nil; constructor|].
      destruct n; [constructor|]. cbn [firstn]. inversion N; subst. constructor; [|apply IH; assumption].
      intros I. apply firstn_In in I. contradiction.
    - intros x Hx I. apply firstn_In in I. apply filter_In in I. destruct I as [_ I].
      apply dmemb_In in Hx. rewrite Hx in I. discriminate. }
  assert (Ikeep : incl keep b).
  { intros x Hx. apply in_app_or in Hx. destruct Hx as [Hx|Hx]; [apply Isv; exact Hx|].
    apply firstn_In in Hx. apply filter_In in Hx. apply Hx. }
  assert (Lkeep : length keep = ones).
  { unfold keep. rewrite app_length, firstn_length_le by lia. lia. }
  assert (Lgone : length gone = (length b - ones)%nat).
  { unfold gone. rewrite outside_length by assumption. lia. }
  assert (Ltrue : length (filter (fun d => d) drops) = (length b - ones)%nat).
  { pose proof (filter_compl_length_bool drops). unfold ones. lia. }
  apply order_ok_intro; [exact Nb | | |].
  - rewrite arrange_length; [exact EL | fold ones; lia | lia].
  - apply arrange_NoDup; [exact Nkeep | apply NoDup_filter; exact Nb |].
    intros x Hx I. apply filter_In in I. destruct I as [_ I]. apply dmemb_In in Hx. rewrite Hx in I. discriminate.
  - intros x Hx. apply arrange_In in Hx. destruct Hx as [Hx|Hx]; [apply Ikeep; exact Hx|].
    apply filter_In in Hx. apply Hx.
Qed.
(* what follows the coin in Add (pinned variant), generic in the monad: [D.add] = coin >>= kont *)
Definition kont (M : Type -> Type) (ret : forall A, A -> M A) (bnd : forall A B, M A -> (A -> M B) -> M B)
  (word : M Z) (order : list T -> M (list T)) (cap : Z) (s : D.st T) (v : T) (failed : bool) : M (D.outcome T) :=
  if failed then ret _ (D.Done (D.mkst (D.remove T eqb v (D.buf s)) (D.p s) (D.k s)))
  else
    let b := D.insert T eqb v (D.buf s) in
    if full_cond (Z.of_nat (length b)) cap
    then bnd _ _ (D.halve1 T eqb M ret bnd word order b)
                 (fun b' => ret _ (D.Done (D.mkst b' (halve_p (D.p s)) (S (D.k s)))))
    else ret _ (D.Done (D.mkst b (D.p s) (D.k s))).

Lemma add_kont M ret bnd coin word order fuel cap s v :
  D.add T eqb M ret bnd coin word order true fuel cap s v
  = bnd _ _ (coin (D.p s) (D.k s)) (kont M ret bnd word order cap s v).
Proof. reflexivity. Qed.

Definition ord_of (b : list T) (ws : list Z) (o : option (list T)) : list T :=
  match D.dorder T eqb b (D.mktape T ws o) with D.DOk l _ => l | D.DErr _ => [] end.

Lemma kont_bridge cap s v failed ws o :
  NoDup (D.buf s) -> words_ok ws ->
  let ord := ord_of (D.insert T eqb v (D.buf s)) ws o in
  let ks := kont SM sret sbind sword (sorder eqb ord) cap s v failed ws in
  let kd := kont (D.D T) (D.dret T) (D.dbind T) (D.dword T) (D.dorder T eqb) cap s v failed (D.mktape T ws o) in
  (forall out t', kd = D.DOk out t' -> words_ok (D.words T t'))
  /\ ks = sof kd.
Proof.
  intros N W. cbv zeta. unfold kont. destruct failed.
  - split; [|reflexivity]. intros out t' E. unfold D.dret in E. inversion E; subst. exact W.
  - cbv zeta. set (b := D.insert T eqb v (D.buf s)).
    assert (Nb : NoDup b) by (apply (DP.NoDup_insert T eqb eqb_reflect); exact N).
    destruct (full_cond (Z.of_nat (length b)) cap).
    2:{ split; [|reflexivity]. intros out t' E. unfold D.dret in E. inversion E; subst. exact W. }
    unfold ord_of, D.halve1.
    destruct (dorder_cases b (D.mktape T ws o)) as [[l El]|Ee].
    + rewrite El.
      assert (Ed : forall (A : Type) (g : list T -> D.D T A),
                 D.dbind T _ _ (D.dbind T _ _ (D.dorder T eqb b) (fun o0 => dpass o0 b 0 0)) g (D.mktape T ws o)
                 = D.dbind T _ _ (dpass l b 0 0) g (D.mktape T ws o)).
      { intros A g. rewrite !dbind_eq. rewrite El. reflexivity. }
      rewrite Ed. clear Ed.
      destruct (pass_bridge o l b 0 0 ws W) as [P1 P2].
      split.
      * intros out t' E. rewrite dbind_eq in E.
        destruct (dpass l b 0 0 (D.mktape T ws o)) as [b1 t1|e1] eqn:Ep; [|discriminate].
        unfold D.dret in E. inversion E; subst. exact (P2 _ _ eq_refl).
      * pose proof (dorder_valid b _ l Nb El) as O.
        rewrite !sbind_eq. unfold sorder. rewrite O. cbn [bind]. rewrite P1.
        rewrite dbind_eq. destruct (dpass l b 0 0 (D.mktape T ws o)) as [b1 t1|e1]; [reflexivity|].
        destruct e1; reflexivity.
    + rewrite Ee. split.
      * intros out t' E. rewrite !dbind_eq in E. rewrite Ee in E. discriminate.
      * rewrite !sbind_eq. unfold sorder.
        rewrite (order_nil_bad b Nb (insert_nonempty v (D.buf s))). cbn [bind].
        rewrite !dbind_eq. rewrite Ee. reflexivity.
Qed.

Lemma madd_bridge cap fuel mfuel s v ws o :
  NoDup (D.buf s) -> words_ok ws ->
  let ord := gord (enc cap s ws) v o in
  (forall out t', D.dadd T eqb true fuel cap s v (D.mktape T ws o) = D.DOk out t' -> words_ok (D.words T t'))
  /\ madd eqb ord true mfuel cap s v ws = sof (D.dadd T eqb true fuel cap s v (D.mktape T ws o)).
Proof.
  intros N W. cbv zeta. unfold gord, words_after_coin, enc.
  cbn [DN.Counter_buf DN.Counter_p DN.Counter_rng]. rewrite keys_rep.
  unfold madd, D.dadd. rewrite !add_kont. unfold scoin, D.dcoin, D.real_coin.
  destruct (D.p s <? D.maxu) eqn:P.
  - destruct ws as [|w r].
    + split; [intros; discriminate | reflexivity].
    + assert (Wr : words_ok r) by (inversion W; assumption).
      assert (Es : forall (g : bool -> SM (D.outcome T)),
                 sbind bool (D.outcome T) (sbind Z bool sword (fun w0 => sret bool (coin_fail (D.p s) D.maxu w0))) g (w :: r)
                             = g (coin_fail (D.p s) D.maxu w) r) by reflexivity.
      assert (Edd : forall (g : bool -> D.D T (D.outcome T)), D.dbind T bool (D.outcome T)
                      (D.dbind T Z bool (D.dword T) (fun w0 => D.dret T bool (coin_fail (D.p s) D.maxu w0))) g (D.mktape T (w :: r) o)
                      = g (coin_fail (D.p s) D.maxu w) (D.mktape T r o)).
      { intros g. rewrite dbind_eq. rewrite (dbind_word _ _ w r o W). reflexivity. }
      rewrite Es, Edd. cbn [tl].
      exact (kont_bridge cap s v (coin_fail (D.p s) D.maxu w) r o N Wr).
  - change (sbind _ _ (sret _ false) (kont SM sret sbind sword (sorder eqb (ord_of (D.insert T eqb v (D.buf s)) ws o)) cap s v) ws)
      with (kont SM sret sbind sword (sorder eqb (ord_of (D.insert T eqb v (D.buf s)) ws o)) cap s v false ws).
    change (D.dbind T _ _ (D.dret T _ false) (kont (D.D T) (D.dret T) (D.dbind T) (D.dword T) (D.dorder T eqb) cap s v) (D.mktape T ws o))
      with (kont (D.D T) (D.dret T) (D.dbind T) (D.dword T) (D.dorder T eqb) cap s v false (D.mktape T ws o)).
    exact (kont_bridge cap s v false ws o N W).
Qed.

(* ------------------------------------------------------------------ one step *)
Lemma inv_p_range s : DP.Inv T s -> 0 <= D.p s < D.two64.
Proof.
  intros [_ Hp]. rewrite Hp. rewrite Z.shiftr_div_pow2 by lia.
  assert (0 < 2 ^ Z.of_nat (D.k s)) by (apply Z.pow_pos_nonneg; lia).
  split.
  - apply Z.div_pos; [unfold D.maxu, D.two64; lia | assumption].
  - apply Z.div_lt_upper_bound; [assumption|]. unfold D.maxu.
    assert (0 < D.two64) by (unfold D.two64; lia). nia.
Qed.

Lemma gobserve_enc cap s ws : DP.Inv T s ->
  gobserve (enc cap s ws) = Ok (D.len T s, D.count T s, D.p s, enc cap s ws).
Proof.
  intros I. pose proof (inv_p_range s I) as R. destruct I as [N _].
  unfold gobserve, enc. cbn [DN.Counter_buf DN.Counter_p DN.Counter_cap DN.Counter_rng].
  rewrite (C19_len_is_source eqb eqb_spec s N). cbn [bind].
  rewrite (C19_count_is_source eqb eqb_spec mf mf_ok s N R). reflexivity.
Qed.

Theorem step_is_source cap fuel s ws o :
  DP.Inv T s -> words_ok ws ->
  (forall s' ws', D.step T eqb single fuel cap s ws o = D.ROk s' ws' -> words_ok ws')
  /\ gstep (enc cap s ws) o = emb cap (D.step T eqb single fuel cap s ws o).
Proof.
  intros I W. change single with true. destruct o as [v o|].
  - destruct I as [N _]. cbn [D.step].
    destruct (madd_bridge cap fuel 0%nat s v ws o N W) as [B1 B2]. cbv zeta in B1, B2. split.
    + intros s' ws' E.
      destruct (D.dadd T eqb true fuel cap s v (D.mktape T ws o)) as [[s1|s1] t1|e1] eqn:Ed; try discriminate.
      inversion E; subst. exact (B1 _ _ eq_refl).
    + set (ord := gord (enc cap s ws) v o) in *.
      assert (G : gstep (enc cap s ws) (D.OAdd v o)
                  = bind (out_of (madd eqb ord true 0%nat cap s v ws))
                         (fun '(b, p, r) => Ok (DN.mk_Counter b cap p r))).
      { unfold gstep. fold ord. cbv zeta.
        change (DN.Counter_buf (enc cap s ws)) with (rep (D.buf s)).
        change (DN.Counter_cap (enc cap s ws)) with cap.
        change (DN.Counter_p (enc cap s ws)) with (D.p s).
        change (DN.Counter_rng (enc cap s ws)) with ws.
        rewrite (C19_add_is_source eqb eqb_spec mf mf_ok s cap v ws ord (S (length ord)) 0%nat N (Nat.lt_succ_diag_r _)).
        reflexivity. }
      rewrite G. clear G. rewrite B2.
      destruct (D.dadd T eqb true fuel cap s v (D.mktape T ws o)) as [[s1|s1] t1|e1]; [reflexivity|reflexivity|].
      destruct e1; reflexivity.
  - split.
    + intros s' ws' E. cbn [D.step] in E. inversion E; subst. exact W.
    + cbn [D.step emb]. unfold gstep, enc at 1 2 3 4.
      cbn [DN.Counter_buf DN.Counter_cap DN.Counter_p DN.Counter_rng].
      rewrite (C19_reset_is_source s). reflexivity.
Qed.

(* ------------------------------------------------------------------ histories *)
Theorem history_source cap fuel : forall ops s ws,
  DP.Inv T s -> words_ok ws ->
  grun_obs (enc cap s ws) ops
  = (fst (D.run_obs T eqb single fuel cap s ws ops), emb cap (snd (D.run_obs T eqb single fuel cap s ws ops))).
Proof.
  induction ops as [|o r IH]; intros s ws I W; [reflexivity|].
  cbn [grun_obs D.run_obs].
  destruct (step_is_source cap fuel s ws o I W) as [S1 S2].
  rewrite S2. destruct (D.step T eqb single fuel cap s ws o) as [s' ws'|e] eqn:Es.
  - cbn [emb bind].
    assert (I' : DP.Inv T s') by (eapply (DP.step_Inv T eqb eqb_reflect); eassumption).
    rewrite (gobserve_enc cap s' ws' I').
    rewrite (IH s' ws' I' (S1 _ _ eq_refl)).
    destruct (D.run_obs T eqb single fuel cap s' ws' r) as [obs fin].
    cbn [fst snd enc DN.Counter_rng]. reflexivity.
  - destruct e; reflexivity.
Qed.

Lemma run_obs_run single0 fuel cap : forall ops s ws,
  snd (D.run_obs T eqb single0 fuel cap s ws ops) = D.run T eqb single0 fuel cap s ws ops.
Proof.
  induction ops as [|o r IH]; intros s ws; [reflexivity|]. cbn [D.run_obs D.run].
  destruct (D.step T eqb single0 fuel cap s ws o) as [s' ws'|e]; [|reflexivity].
  rewrite <- IH. destruct (D.run_obs T eqb single0 fuel cap s' ws' r). reflexivity.
Qed.

(* a run of the generated machine that ends in a Counter ended where the model's run ends *)
Lemma history_final cap fuel ops s ws obs c :
  DP.Inv T s -> words_ok ws ->
  grun_obs (enc cap s ws) ops = (obs, Ok c) ->
  exists s' ws', D.run T eqb single fuel cap s ws ops = D.ROk s' ws' /\ c = enc cap s' ws'
                 /\ obs = fst (D.run_obs T eqb single fuel cap s ws ops).
Proof.
  intros I W E. rewrite (history_source cap fuel ops s ws I W) in E.
  inversion E as [[E1 E2]]. rewrite run_obs_run in E2.
  destruct (D.run T eqb single fuel cap s ws ops) as [s' ws'|e].
  - cbn [emb] in E2. inversion E2. exists s', ws'. repeat split; reflexivity.
  - destruct e; discriminate.
Qed.

(* ------------------------------------------------------------------ from the generated constructor *)
Variable crand_Read : list Z -> list Z * Z * bool.
Variable stream : list Z -> list Z.
Notation ws0 := (stream (seed_bytes crand_Read)).

Lemma newcounter_enc size : seed_err crand_Read = false ->
  @DN.NewCounter T (list Z) crand_Read stream size = Ok (enc size (D.init T) ws0).
Proof. intros E. rewrite newcounter_is_source, E. reflexivity. Qed.

Theorem history_source_new size fuel ops :
  seed_err crand_Read = false -> words_ok ws0 ->
  exists c0, @DN.NewCounter T (list Z) crand_Read stream size = Ok c0 /\
    grun_obs c0 ops
    = (fst (D.run_obs T eqb single fuel size (D.init T) ws0 ops),
       emb size (snd (D.run_obs T eqb single fuel size (D.init T) ws0 ops))).
Proof.
  intros E W. eexists. split; [apply newcounter_enc; exact E|].
  apply history_source; [apply DP.Inv_init | exact W].
Qed.

(* ---- the model-level theorems read on the generated machine.  In each: the history is run from
   the Counter the generated NewCounter returned and ended in the Counter c (no panic, in
   particular the range orders were accepted); the conclusion is about what the GENERATED Len and
   Count answer on c ([gobserve c]). *)
Definition gnew (size : Z) : res gst := @DN.NewCounter T (list Z) crand_Read stream size.

(* Count = Len * 2^k mod 2^64 and p = MaxUint64 >> k for some k (C19_count_shape) *)
Theorem count_shape_source size ops c0 obs c :
  words_ok ws0 -> gnew size = Ok c0 -> grun_obs c0 ops = (obs, Ok c) ->
  exists (k : nat) (l n : Z),
    gobserve c = Ok (l, n, DN.Counter_p c, c) /\
    DN.Counter_p c = Z.shiftr D.maxu (Z.of_nat k) /\ n = (l * 2 ^ Z.of_nat k) mod D.two64.
Proof.
  intros W G E. unfold gnew in G. rewrite newcounter_is_source in G.
  destruct (seed_err crand_Read); [discriminate|]. inversion G; subst c0. clear G.
  change (DN.mk_Counter _ _ _ _) with (enc size (D.init T) ws0) in E.
  destruct (history_final size 0%nat ops _ _ obs c (DP.Inv_init T) W E) as [s' [ws' [R [-> _]]]].
  pose proof (DP.run_Inv T eqb eqb_reflect _ _ _ _ _ _ _ _ R (DP.Inv_init T)) as I.
  destruct (DP.count_shape T eqb eqb_reflect _ _ _ _ _ _ _ R) as [Hp [Hc _]].
  exists (D.k s'), (D.len T s'), (D.count T s'). split; [apply gobserve_enc; exact I|]. split; assumption.
Qed.

(* below the size Count is exact (C19_exact) *)
Theorem exact_source size ops c0 obs c :
  words_ok ws0 -> gnew size = Ok c0 -> grun_obs c0 ops = (obs, Ok c) ->
  size <= D.two64 -> Z.of_nat (DS.distinct T eqb ops) < size ->
  gobserve c = Ok (Z.of_nat (DS.distinct T eqb ops), Z.of_nat (DS.distinct T eqb ops), D.maxu, c)
  /\ keys (DN.Counter_buf c) = DS.seen T eqb ops.
Proof.
  intros W G E C1 C2. unfold gnew in G. rewrite newcounter_is_source in G.
  destruct (seed_err crand_Read); [discriminate|]. inversion G; subst c0. clear G.
  change (DN.mk_Counter _ _ _ _) with (enc size (D.init T) ws0) in E.
  destruct (history_final size 0%nat ops _ _ obs c (DP.Inv_init T) W E) as [s' [ws' [R [-> _]]]].
  pose proof (DP.run_Inv T eqb eqb_reflect _ _ _ _ _ _ _ _ R (DP.Inv_init T)) as I.
  destruct (DP.exact T eqb eqb_reflect _ _ _ _ _ _ _ C1 R C2) as [H1 [H2 [H3 [_ H5]]]].
  split.
  - rewrite (gobserve_enc size s' ws' I), H1, H2, H5. reflexivity.
  - unfold enc. cbn [DN.Counter_buf]. rewrite keys_rep. exact H3.
Qed.

(* Len < size while every halving pass so far dropped something (C19_len_partial; the hypothesis
   is the model theorem's, on the model's run, which [history_source] identifies with this one) *)
Theorem len_partial_source size ops c0 obs c :
  words_ok ws0 -> gnew size = Ok c0 -> grun_obs c0 ops = (obs, Ok c) ->
  1 <= size -> DP.every_pass_dropped T eqb true 0%nat size ws0 ops ->
  exists l n, gobserve c = Ok (l, n, DN.Counter_p c, c) /\ l < size.
Proof.
  intros W G E C1 EP. unfold gnew in G. rewrite newcounter_is_source in G.
  destruct (seed_err crand_Read); [discriminate|]. inversion G; subst c0. clear G.
  change (DN.mk_Counter _ _ _ _) with (enc size (D.init T) ws0) in E.
  destruct (history_final size 0%nat ops _ _ obs c (DP.Inv_init T) W E) as [s' [ws' [R [-> _]]]].
  pose proof (DP.run_Inv T eqb eqb_reflect _ _ _ _ _ _ _ _ R (DP.Inv_init T)) as I.
  change single with true in R.
  pose proof (DP.len_partial T eqb eqb_reflect _ _ _ _ _ _ C1 R EP) as L.
  exists (D.len T s'), (D.count T s'). split; [apply gobserve_enc; exact I | exact L].
Qed.

End Source.

(* F8 at source level: the generated NewCounter(2), Add 1, Add 2, Add 3 on the words
   [MaxUint64; 0; MaxUint64]: the generated Len answers 3 > 2. *)
Lemma len_refuted_source :
  exists (ws : list Z) (ops : list (D.op Z)) c0 obs c l n,
    @DN.NewCounter Z (list Z) (fun s => (s, 32, false)) (fun _ => ws) 2 = Ok c0 /\
    grun_obs Z.eqb c0 ops = (obs, Ok c) /\
    gobserve Z.eqb c = Ok (l, n, DN.Counter_p c, c) /\ l = 3 /\ DN.Counter_cap c = 2.
Proof.
  exists DP.f8_words, DP.f8_ops. do 5 eexists.
  split; [reflexivity|]. split; [vm_compute; reflexivity|]. split; [vm_compute; reflexivity|]. split; reflexivity.
Qed.

(* A history through the generated functions, by computation (no tie is used): size 2, the stream
   [MaxUint64; 0; 5; 7]; Add 1; Add 2 (buffer full: the pass draws MaxUint64, all tails, keeps both;
   p halves); Add 3 (the coin draws 0 < p and passes; the pass draws 5 = 101b: keeps 3 and 1, drops
   2; p halves again); Reset (empty, p back to MaxUint64); Add 4 (no word drawn). *)
Lemma history_witness_source :
  let ws := [D.maxu; 0; 5; 7] in
  let ops := [D.OAdd 1 None; D.OAdd 2 None; D.OAdd 3 (Some [3]); D.OReset; D.OAdd 4 None] in
  exists c0, @DN.NewCounter Z (list Z) (fun s => (s, 32, false)) (fun _ => ws) 2 = Ok c0 /\
    grun_obs Z.eqb c0 ops =
    ([(1, 1, 18446744073709551615, 0); (2, 4, 9223372036854775807, 1); (2, 8, 4611686018427387903, 2);
      (0, 0, 18446744073709551615, 0); (1, 1, 18446744073709551615, 0)],
     Ok (DN.mk_Counter (Some [(4, tt)]) 2 18446744073709551615 [7])).
Proof. eexists. split; [reflexivity|]. vm_compute. reflexivity. Qed.
