(* stree: popMinRight generated from the source against the model's pop_min_right / pop_left.

   Go walks down the left spine of root.right with two pointers (par, goat), then unlinks goat IN
   PLACE (root.right = goat.right resp. par.left = goat.right; goat.left = nil; goat.right = nil).
   The model rebuilds the spine above the removed node.  The tie: on a tree-shaped region
   (trepr, StreeSep.v) the surgery yields a region that represents the model's rebuilt tree, the
   goat cell -- detached, holding the model's key and two nil pointers -- has left the footprint,
   and no cell outside the old footprint changed.  The test [par == root] compares ADDRESSES:
   it is the model's case distinction because the cells of a tree-shaped region are distinct. *)
From Coq Require Import ZArith List Bool Arith Lia.
From Mds Require Import Gen.StreeConst Gen.StreeNode.
From Mds Require Import Common.FnRt Common.FnHeap GenTie.TieLib GenTie.StreeTieBase GenTie.StreeSep.
Import ListNotations.

Section Pop.
Context {T : Type}.
Notation tree := (SM.tree T).
Notation heap := (list (G.node T)).

(* what popMinRight does after its loop *)
Definition pm_tail (root : option nat) (h : heap) (pg : option nat * option nat) : res (option nat * heap) :=
  let '(par, goat) := pg in
  do h <- (
      if go_peq par root then
        do t4 <- go_hget h goat;
        go_hmod h root (fun t5 => G.mk_node (G.node_X t5) (G.node_left t5) (G.node_right t4))
      else
        do t6 <- go_hget h goat;
        go_hmod h par (fun t7 => G.mk_node (G.node_X t7) (G.node_right t6) (G.node_right t7)));
  do h <- go_hmod h goat (fun t8 => G.mk_node (G.node_X t8) None (G.node_right t8));
  do h <- go_hmod h goat (fun t9 => G.mk_node (G.node_X t9) (G.node_left t9) None);
  Ok (goat, h).

Lemma popMinRight_unfold root (h : heap) fuel :
  G.popMinRight root h fuel =
  bind (go_hget h root) (fun t1 =>
  bind (G.popMinRight_loop1 fuel fuel h root (G.node_right t1)) (pm_tail root h)).
Proof. reflexivity. Qed.

(* the result: the model's (key of the goat, rebuilt tree) against (address of the goat, heap) *)
Definition pop_post (h : heap) (a : option nat) (F : list nat) (m : T * tree) (g : option nat * heap) : Prop :=
  let '(x, t') := m in let '(goat, h') := g in
  exists ga F', goat = Some ga /\ trepr h' a t' F' /\ incl F' F /\ ~ In ga F' /\ In ga F /\
                nth_error h' ga = Some (G.mk_node x None None) /\
                frame h h' F /\ length h' = length h.


Lemma pop_left_deep (a : tree) b c g gr x r :
  SM.pop_left (SM.Node (SM.Node (SM.Node a b c) g gr) x r) =
  SM.bind (SM.pop_left (SM.Node (SM.Node a b c) g gr)) (fun '(g0, l') => SM.Ok (g0, SM.Node l' x r)).
Proof. reflexivity. Qed.

Lemma pop_min_right_deep (a : tree) b c g gr x l :
  SM.pop_min_right (SM.Node l x (SM.Node (SM.Node a b c) g gr)) =
  SM.bind (SM.pop_left (SM.Node (SM.Node a b c) g gr)) (fun '(g0, r') => SM.Ok (g0, SM.Node l x r')).
Proof. reflexivity. Qed.

(* the three stores that unlink goat = par.left (par is not root) *)
Lemma unlink_left (h : heap) la cl lla cll ra :
  nth_error h la = Some cl -> nth_error h lla = Some cll -> la <> lla -> la <> ra ->
  G.node_left cll = None ->
  exists h', pm_tail (Some ra) h (Some la, Some lla) = Ok (Some lla, h') /\
    length h' = length h /\
    nth_error h' la = Some (G.mk_node (G.node_X cl) (G.node_right cll) (G.node_right cl)) /\
    nth_error h' lla = Some (G.mk_node (G.node_X cll) None None) /\
    (forall k, k <> la -> k <> lla -> nth_error h' k = nth_error h k).
Proof.
  intros Hla Hlla Nl Nr Hnil. unfold pm_tail.
  replace (go_peq (Some la) (Some ra)) with false
    by (symmetry; cbn [go_peq]; apply Nat.eqb_neq; exact Nr).
  rewrite (hget_some h lla cll Hlla). cbn [bind].
  rewrite (hmod_some h la cl _ Hla). cbn [bind].
  set (h1 := upd h la _).
  assert (H1 : nth_error h1 lla = Some cll) by (unfold h1; rewrite nth_upd_other; [exact Hlla|congruence]).
  rewrite (hmod_some h1 lla cll _ H1). cbn [bind].
  set (h2 := upd h1 lla _).
  assert (H2 : nth_error h2 lla = Some (G.mk_node (G.node_X cll) None (G.node_right cll)))
    by (unfold h2; apply (upd_at h1 lla cll _ H1)).
  rewrite (hmod_some h2 lla _ _ H2). cbn [bind G.node_X G.node_left].
  eexists. split; [reflexivity|]. split; [|split; [|split]].
  - unfold h2, h1. rewrite !upd_length. reflexivity.
  - rewrite nth_upd_other by congruence. unfold h2. rewrite nth_upd_other by congruence.
    unfold h1. apply (upd_at h la cl _ Hla).
  - apply (upd_at h2 lla _ _ H2).
  - intros k K1 K2. rewrite nth_upd_other by congruence. unfold h2. rewrite nth_upd_other by congruence.
    unfold h1. apply nth_upd_other. congruence.
Qed.

(* the three stores that unlink goat = root.right *)
Lemma unlink_right (h : heap) ra cr rra crr :
  nth_error h ra = Some cr -> nth_error h rra = Some crr -> ra <> rra ->
  exists h', pm_tail (Some ra) h (Some ra, Some rra) = Ok (Some rra, h') /\
    length h' = length h /\
    nth_error h' ra = Some (G.mk_node (G.node_X cr) (G.node_left cr) (G.node_right crr)) /\
    nth_error h' rra = Some (G.mk_node (G.node_X crr) None None) /\
    (forall k, k <> ra -> k <> rra -> nth_error h' k = nth_error h k).
Proof.
  intros Hra Hrra Nr. unfold pm_tail. rewrite go_peq_refl.
  rewrite (hget_some h rra crr Hrra). cbn [bind].
  rewrite (hmod_some h ra cr _ Hra). cbn [bind].
  set (h1 := upd h ra _).
  assert (H1 : nth_error h1 rra = Some crr) by (unfold h1; rewrite nth_upd_other; [exact Hrra|congruence]).
  rewrite (hmod_some h1 rra crr _ H1). cbn [bind].
  set (h2 := upd h1 rra _).
  assert (H2 : nth_error h2 rra = Some (G.mk_node (G.node_X crr) None (G.node_right crr)))
    by (unfold h2; apply (upd_at h1 rra crr _ H1)).
  rewrite (hmod_some h2 rra _ _ H2). cbn [bind G.node_X G.node_left].
  eexists. split; [reflexivity|]. split; [|split; [|split]].
  - unfold h2, h1. rewrite !upd_length. reflexivity.
  - rewrite nth_upd_other by congruence. unfold h2. rewrite nth_upd_other by congruence.
    unfold h1. apply (upd_at h ra cr _ Hra).
  - apply (upd_at h2 rra _ _ H2).
  - intros k K1 K2. rewrite nth_upd_other by congruence. unfold h2. rewrite nth_upd_other by congruence.
    unfold h1. apply nth_upd_other. congruence.
Qed.

(* the descent below the first step: par = the node p, goat = p.left *)
Lemma pop_left_ok : forall (p : tree) (h : heap) (la ra : nat) (cl : G.node T) (F : list nat) (fuel gas : nat),
  trepr h (Some la) p F -> nth_error h la = Some cl -> ~ In ra F -> (gas > depth p)%nat ->
  rel (pop_post h (Some la) F) (SM.pop_left p)
      (bind (G.popMinRight_loop1 fuel gas h (Some la) (G.node_left cl)) (pm_tail (Some ra) h)).
Proof.
  induction p as [|l IHl x r _]; intros h la ra cl F fuel gas R Hla Nra Hg.
  - apply trepr_leaf_inv in R. destruct R; discriminate.
  - tnode R k c Fl Fr Ea Hk Hl Hr Nl Nr Hd. inversion Ea; subst k; clear Ea.
    rewrite Hla in Hk. inversion Hk; subst c; clear Hk.
    destruct gas as [|gas]; [lia|]. cbn [depth] in Hg.
    destruct l as [|ll g gr].
    + (* p.left == nil: goat.left dereferences nil *)
      apply trepr_leaf_inv in Hl. destruct Hl as [El _]. rewrite El. reflexivity.
    + cbn [G.popMinRight_loop1].
      pose proof Hl as Hl0. tnode Hl lla cll Fll Fgr H Hlla Hll Hgr Nll Ngr Hdl. rewrite H in *.
      rewrite (hget_some h lla cll Hlla). cbn [bind].
      assert (Nlla : la <> lla) by (intros ->; apply Nl; left; reflexivity).
      assert (Nlr : la <> ra) by (intros ->; apply Nra; left; reflexivity).
      destruct ll as [|lll lx llr].
      * (* goat = p.left has no left child: unlink it *)
        apply trepr_leaf_inv in Hll. destruct Hll as [Ell ->]. rewrite Ell. cbn [go_pnil negb bind app SM.pop_left] in *.
        destruct (unlink_left h la cl lla cll ra Hla Hlla Nlla Nlr Ell) as [h' [E [Len [Ela [Ella Eo]]]]].
        rewrite E. apply rel_ok. unfold pop_post.
        exists lla, (la :: Fgr ++ Fr). split; [reflexivity|]. split; [|split; [|split; [|split; [|split; [|split]]]]].
        -- apply (trepr_mk h' la _ gr r Fgr Fr Ela); cbn [G.node_left G.node_right G.node_X].
           ++ apply (trepr_agree h); [exact Hgr|]. intros k Hk. apply Eo; intros ->; inl; tauto.
           ++ apply (trepr_agree h); [exact Hr|]. intros k Hk. pose proof (Hd lla). apply Eo; intros ->; inl; tauto.
           ++ inl; tauto.
           ++ exact Nr.
           ++ intros k Hk. pose proof (Hd k). inl; tauto.
           ++ reflexivity.
        -- intros k Hk. inl. tauto.
        -- pose proof (Hd lla). inl. intuition congruence.
        -- inl. tauto.
        -- exact Ella.
        -- split; [lia|]. intros k _ Nk. apply Eo; intros ->; apply Nk; inl; tauto.
        -- exact Len.
      * (* descend: par, goat = goat, goat.left *)
        pose proof Hll as Hll0. apply trepr_node_inv in Hll0. destruct Hll0 as [k4 [c4 [_ [_ [E4 _]]]]]. rewrite E4.
        cbn [go_pnil negb bind]. rewrite <- E4. rewrite pop_left_deep.
        assert (Nra' : ~ In ra (lla :: Fll ++ Fgr)) by (intros X; apply Nra; right; apply in_app_iff; left; exact X).
        specialize (IHl h lla ra cll (lla :: Fll ++ Fgr) fuel gas Hl0 Hlla Nra' ltac:(lia)).
        eapply rel_map; [exact IHl|].
        intros [g0 l'] [goat h'] [ga [F' [Eg [R' [I' [Nga [Iga [Ega [Fr' Len]]]]]]]]].
        eexists. split; [reflexivity|].
        exists ga, (la :: F' ++ Fr). split; [exact Eg|]. split; [|split; [|split; [|split; [|split; [|split]]]]].
        -- assert (Ela : nth_error h' la = Some cl).
           { destruct Fr' as [_ Eo]. rewrite Eo; [exact Hla|apply nth_error_Some; rewrite Hla; discriminate|exact Nl]. }
           apply (trepr_mk h' la cl l' r F' Fr Ela).
           ++ rewrite H. exact R'.
           ++ apply (trepr_frame h h' _ _ _ _ Hr Fr'). intros k Hk X. apply (Hd k X Hk).
           ++ intros X. apply Nl, I', X.
           ++ exact Nr.
           ++ intros k Hk. apply Hd, I', Hk.
           ++ reflexivity.
        -- intros k Hk. pose proof (I' k). inl. tauto.
        -- pose proof (Hd ga Iga). intros X. inl. destruct X as [X|[X|X]]; [subst ga; tauto|tauto|tauto].
        -- inl. tauto.
        -- exact Ega.
        -- eapply frame_weaken; [exact Fr'|]. intros k Hk. inl. tauto.
        -- exact Len.
Qed.

(* func popMinRight[T any](root *node[T]) *node[T] *)
Theorem C01_popMinRight_is_source : forall (t : tree) (h : heap) (root : option nat) (F : list nat) (fuel : nat),
  trepr h root t F -> (fuel > depth t)%nat ->
  rel (pop_post h root F) (SM.pop_min_right t) (G.popMinRight root h fuel).
Proof.
  intros t h root F fuel R Hf. rewrite popMinRight_unfold. destruct t as [|l x r].
  - apply trepr_leaf_inv in R. destruct R as [-> _]. reflexivity.
  - tnode R ra cr Fl Fr Ea Hra Hl Hr Nl Nr Hd. subst root.
    rewrite (hget_some h ra cr Hra). cbn [bind depth] in *.
    destruct fuel as [|gas]; [lia|].
    destruct r as [|rl g gr].
    + apply trepr_leaf_inv in Hr. destruct Hr as [Er _]. rewrite Er. reflexivity.
    + cbn [G.popMinRight_loop1].
      pose proof Hr as Hr0. tnode Hr rra crr Frl Fgr H Hrra Hrl Hgr Nrl Ngr Hdr. rewrite H in *.
      rewrite (hget_some h rra crr Hrra). cbn [bind].
      assert (Nrra : ra <> rra) by (intros ->; apply Nr; left; reflexivity).
      destruct rl as [|rll rx rlr].
      * apply trepr_leaf_inv in Hrl. destruct Hrl as [Erl ->]. rewrite Erl. cbn [go_pnil negb bind app] in *.
        destruct (unlink_right h ra cr rra crr Hra Hrra Nrra) as [h' [E [Len [Era [Erra Eo]]]]].
        rewrite E. apply rel_ok. unfold pop_post.
        exists rra, (ra :: Fl ++ Fgr). split; [reflexivity|]. split; [|split; [|split; [|split; [|split; [|split]]]]].
        -- apply (trepr_mk h' ra _ l gr Fl Fgr Era); cbn [G.node_left G.node_right G.node_X].
           ++ apply (trepr_agree h); [exact Hl|]. intros k Hk. pose proof (Hd k Hk). apply Eo; intros ->; inl; tauto.
           ++ apply (trepr_agree h); [exact Hgr|]. intros k Hk. apply Eo; intros ->; inl; tauto.
           ++ exact Nl.
           ++ inl; tauto.
           ++ intros k Hk. pose proof (Hd k Hk). inl; tauto.
           ++ reflexivity.
        -- intros k Hk. inl. tauto.
        -- intros X. inl. destruct X as [X|[X|X]]; [congruence| |tauto]. pose proof (Hd rra X). inl. tauto.
        -- inl. tauto.
        -- exact Erra.
        -- split; [lia|]. intros k _ Nk. apply Eo; intros ->; apply Nk; inl; tauto.
        -- exact Len.
      * pose proof Hrl as Hrl0. apply trepr_node_inv in Hrl0. destruct Hrl0 as [k4 [c4 [_ [_ [E4 _]]]]]. rewrite E4.
        cbn [go_pnil negb bind]. rewrite <- E4. rewrite pop_min_right_deep.
        assert (Nra' : ~ In ra (rra :: Frl ++ Fgr)) by exact Nr.
        pose proof (pop_left_ok _ h rra ra crr (rra :: Frl ++ Fgr) (S gas) gas Hr0 Hrra Nra' ltac:(lia)) as P.
        eapply rel_map; [exact P|].
        intros [g0 r'] [goat h'] [ga [F' [Eg [R' [I' [Nga [Iga [Ega [Fr' Len]]]]]]]]].
        eexists. split; [reflexivity|].
        exists ga, (ra :: Fl ++ F'). split; [exact Eg|]. split; [|split; [|split; [|split; [|split; [|split]]]]].
        -- assert (Era : nth_error h' ra = Some cr).
           { destruct Fr' as [_ Eo]. rewrite Eo; [exact Hra|apply nth_error_Some; rewrite Hra; discriminate|exact Nr]. }
           apply (trepr_mk h' ra cr l r' Fl F' Era).
           ++ apply (trepr_frame h h' _ _ _ _ Hl Fr'). intros k Hk X. apply (Hd k Hk X).
           ++ rewrite H. exact R'.
           ++ exact Nl.
           ++ intros X. apply Nr, I', X.
           ++ intros k Hk X. apply (Hd k Hk), I', X.
           ++ reflexivity.
        -- intros k Hk. pose proof (I' k). inl. tauto.
        -- pose proof (Hd ga). intros X. inl. destruct X as [X|[X|X]]; [subst ga; tauto|tauto|tauto].
        -- inl. tauto.
        -- exact Ega.
        -- eapply frame_weaken; [exact Fr'|]. intros k Hk. inl. tauto.
        -- exact Len.
Qed.

End Pop.

Print Assumptions C01_popMinRight_is_source.
