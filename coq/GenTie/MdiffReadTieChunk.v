(* mdiff/reader.go: readUnifiedChunk = the model's read_uchunk (variant pinned, unbounded ints).

   The chunk is a heap cell allocated when the header line has been parsed (ch := &Chunk{...}) and
   CHANGED IN PLACE while the body lines are read: the closure `add` of the source is inlined by
   the translator at its three calls; it appends to ch.Edits, takes e := slice.PtrAt(ch.Edits, -1)
   (a pointer into the last element) and appends the text to e.X or e.Y through it.  [add_blk] is
   that block as a Gallina function (each inlined copy is it, by conversion); [add_blk_ok]: on a
   heap that ends in the cell with the edits es it leaves the cell with the model's
   [add_text o t es]. *)
From Coq Require Import ZArith NArith List Bool Lia.
Require Coq.Strings.String.
From Mds Require Import Mdiff.ReaderModel Gen.MdiffReadSpan.
From Mds Require Import Common.FnRt Common.FnHeap Common.FnText GenTie.TieLib GenTie.MdiffFmtTieBase
  GenTie.MdiffReadTieBase GenTie.MdiffReadTieSpan GenTie.MdiffReadModelW.
Import ListNotations.
Local Open Scope Z_scope.

(* ---- lists ---- *)
Lemma go_get_last {A} (l : list A) x : go_get (l ++ [x]) (zlen (l ++ [x]) - 1) = Ok x.
Proof. rewrite zlen_snoc. replace (zlen l + 1 - 1) with (zlen l) by lia. apply go_get_mid. Qed.

Lemma go_ptrat_last {A} (l : list A) x : go_ptrat (l ++ [x]) (-1) = Some (zlen l).
Proof.
  unfold go_ptrat, go_index_check. rewrite zlen_snoc. cbn [Z.ltb Z.compare].
  replace (-1 + (zlen l + 1)) with (zlen l) by lia.
  replace ((zlen l >=? 0) && (zlen l <? zlen l + 1)) with true; [reflexivity|].
  symmetry. apply andb_true_iff. split; [apply Z.geb_le | apply Z.ltb_lt]; unfold zlen; lia.
Qed.

Lemma go_eget_last {A} (l : list A) x : go_eget (l ++ [x]) (Some (zlen l)) = Ok x.
Proof. unfold go_eget. rewrite go_get_mid. reflexivity. Qed.

Lemma upd_mid {A} (l : list A) x y : upd (l ++ [x]) (length l) y = l ++ [y].
Proof. induction l; simpl; [reflexivity|]. f_equal. exact IHl. Qed.

Lemma go_eset_last {A} (l : list A) x y : go_eset (l ++ [x]) (Some (zlen l)) y = Ok (l ++ [y]).
Proof.
  unfold go_eset, go_set. rewrite zlen_snoc.
  replace ((0 <=? zlen l) && (zlen l <? zlen l + 1)) with true
    by (symmetry; apply andb_true_iff; split; [apply Z.leb_le | apply Z.ltb_lt]; unfold zlen; lia).
  unfold zlen. rewrite Nat2Z.id, upd_mid. reflexivity.
Qed.

Lemma hget_last {C} (pre : list C) c : go_hget (pre ++ [c]) (Some (length pre)) = Ok c.
Proof. unfold go_hget. rewrite nth_error_app2 by lia. rewrite Nat.sub_diag. reflexivity. Qed.

Lemma hmod_last {C} (pre : list C) c f : go_hmod (pre ++ [c]) (Some (length pre)) f = Ok (pre ++ [f c]).
Proof. unfold go_hmod. rewrite nth_error_app2 by lia. rewrite Nat.sub_diag. cbn [nth_error]. rewrite upd_mid. reflexivity. Qed.

Lemma substr_tail x (l : list Z) : go_substr (x :: l) 1 (zlen (x :: l)) = Ok l.
Proof.
  unfold go_substr.
  replace ((0 <=? 1) && (1 <=? zlen (x :: l)) && (zlen (x :: l) <=? zlen (x :: l))) with true.
  2:{ symmetry. rewrite !andb_true_iff. repeat split; apply Z.leb_le; unfold zlen; cbn [length]; lia. }
  replace (Z.to_nat (zlen (x :: l) - 1)) with (length l) by (unfold zlen; cbn [length]; lia).
  cbn [Z.to_nat Pos.to_nat Pos.iter_op Nat.add skipn]. rewrite firstn_all. reflexivity.
Qed.

Lemma op_code_eqb a b : (op_code a =? op_code b) = op_eqb a b.
Proof. destruct a, b; reflexivity. Qed.

(* ---- the closure add, inlined: on the cell at ch ---- *)
Definition add_blk {B : Type} (op : Z) (text : list Z) (ch : option nat) (h : list R.Chunk)
  (k : list R.Chunk -> res B) : res B :=
  do t21 <- go_hget h ch;
  do t25 <- (
      if (zlen (R.Chunk_Edits t21)) =? 0 then
        Ok true
      else
        do t22 <- go_hget h ch;
        do t23 <- go_hget h ch;
        do t24 <- go_get (R.Chunk_Edits t22) ((zlen (R.Chunk_Edits t23)) - 1);
        Ok (negb ((R.Edit_Op t24) =? op)));
  do h <- (
      if t25 then
        do t26 <- go_hget h ch;
        go_hmod h ch (fun t27 => R.mk_Chunk ((R.Chunk_Edits t26) ++ [(R.mk_Edit op [] [])]) (R.Chunk_LStart t27) (R.Chunk_LEnd t27) (R.Chunk_RStart t27) (R.Chunk_REnd t27))
      else
        Ok h);
  do t28 <- go_hget h ch;
  let e := go_ptrat (R.Chunk_Edits t28) (-1) in
  let switch_tag := op in
  do h <- (
  if (switch_tag =? 45) || (switch_tag =? 61) then
    do t29 <- go_hget h ch;
    do t30 <- go_eget (R.Chunk_Edits t29) e;
    do t31 <- go_hget h ch;
    do t32 <- go_eget (R.Chunk_Edits t31) e;
    do t33 <- go_eset (R.Chunk_Edits t31) e (R.mk_Edit (R.Edit_Op t32) ((R.Edit_X t30) ++ [text]) (R.Edit_Y t32));
    go_hmod h ch (fun t34 => R.mk_Chunk t33 (R.Chunk_LStart t34) (R.Chunk_LEnd t34) (R.Chunk_RStart t34) (R.Chunk_REnd t34))
  else if switch_tag =? 43 then
    do t35 <- go_hget h ch;
    do t36 <- go_eget (R.Chunk_Edits t35) e;
    do t37 <- go_hget h ch;
    do t38 <- go_eget (R.Chunk_Edits t37) e;
    do t39 <- go_eset (R.Chunk_Edits t37) e (R.mk_Edit (R.Edit_Op t38) (R.Edit_X t38) ((R.Edit_Y t36) ++ [text]));
    go_hmod h ch (fun t40 => R.mk_Chunk t39 (R.Chunk_LStart t40) (R.Chunk_LEnd t40) (R.Chunk_RStart t40) (R.Chunk_REnd t40))
  else
    Panic (PMsg "unexpected operator "));
  k h.

(* the model's add_text by the last edit *)
Lemma add_text_nil o t : add_text o t [] = [new_edit o t].
Proof. reflexivity. Qed.

Lemma add_text_snoc o t es e :
  add_text o t (es ++ [e]) =
  if op_eqb (eop e) o then es ++ [extend_edit e o t] else es ++ [e; new_edit o t].
Proof.
  induction es as [|e0 es IH]; [reflexivity|].
  cbn [app]. destruct (es ++ [e]) as [|e1 r] eqn:E; [destruct es; discriminate|].
  change (add_text o t (e0 :: e1 :: r)) with (e0 :: add_text o t (e1 :: r)).
  rewrite IH. destruct (op_eqb (eop e) o); reflexivity.
Qed.

Definition body_op (o : op) : Prop := o = Emit \/ o = Drop \/ o = Copy.

Lemma eencR_extend e o t : body_op o ->
  eencR (extend_edit e o t) =
  if (op_code o =? 45) || (op_code o =? 61)
  then R.mk_Edit (op_code (eop e)) (map zb (X e) ++ [zb t]) (map zb (Y e))
  else R.mk_Edit (op_code (eop e)) (map zb (X e)) (map zb (Y e) ++ [zb t]).
Proof.
  intros [-> | [-> | ->]]; unfold extend_edit, eencR; cbn [eop X Y]; rewrite ?map_app; reflexivity.
Qed.

Ltac hs :=
  repeat progress (rewrite ?hget_last, ?hmod_last, ?go_eget_last, ?go_eset_last;
                   cbn [bind R.Chunk_Edits R.Chunk_LStart R.Chunk_LEnd R.Chunk_RStart R.Chunk_REnd R.Edit_Op R.Edit_X R.Edit_Y]).

Ltac op_num :=
  repeat match goal with |- context[op_code ?o] => let v := eval vm_compute in (op_code o) in change (op_code o) with v end;
  cbn [Z.eqb Pos.eqb orb negb bind].

Lemma add_blk_ok : forall (B : Type) (k : list R.Chunk -> res B) o t es pre a b c d,
  body_op o ->
  add_blk (op_code o) (zb t) (Some (length pre)) (pre ++ [R.mk_Chunk (map eencR es) a b c d]) k
  = k (pre ++ [R.mk_Chunk (map eencR (add_text o t es)) a b c d]).
Proof.
  intros B k o t es pre a b c d Ho. unfold add_blk. hs.
  destruct (rev es) as [|e res] eqn:Er.
  - (* no edit yet *)
    assert (es = []) by (destruct es; [reflexivity|]; apply (f_equal (@length _)) in Er; rewrite rev_length in Er; discriminate).
    subst es. cbn [map zlen length Z.of_nat Z.eqb bind app]. hs.
    change [R.mk_Edit (op_code o) [] []] with ([] ++ [R.mk_Edit (op_code o) (@nil (list Z)) []]).
    rewrite go_ptrat_last. cbv zeta. rewrite add_text_nil.
    destruct Ho as [-> | [-> | ->]]; op_num; hs; reflexivity.
  - (* a last edit *)
    assert (Hes : es = rev res ++ [e]) by (rewrite <- (rev_involutive es), Er; reflexivity).
    rewrite Hes. set (es0 := rev res). rewrite map_app. cbn [map].
    replace (zlen (map eencR es0 ++ [eencR e]) =? 0) with false
      by (symmetry; apply Z.eqb_neq; rewrite zlen_snoc; unfold zlen; lia).
    hs. rewrite go_get_last. cbn [bind eencR R.Edit_Op].
    rewrite op_code_eqb, add_text_snoc.
    destruct (op_eqb (eop e) o) eqn:Eo; cbn [negb bind]; hs.
    + (* the same operator: the last edit is extended *)
      rewrite go_ptrat_last. cbv zeta.
      rewrite map_app. cbn [map]. rewrite (eencR_extend e o t Ho).
      destruct ((op_code o =? 45) || (op_code o =? 61)) eqn:E1; hs.
      * reflexivity.
      * assert (E2 : (op_code o =? 43) = true) by (destruct Ho as [-> | [-> | ->]]; try discriminate E1; reflexivity).
        rewrite E2. hs. reflexivity.
    + (* another operator: a new edit *)
      change (map eencR es0 ++ [R.mk_Edit (op_code (eop e)) (map zb (X e)) (map zb (Y e))]) with (map eencR es0 ++ [eencR e]).
      rewrite go_ptrat_last. cbv zeta.
      replace (es0 ++ [e; new_edit o t]) with ((es0 ++ [e]) ++ [new_edit o t]) by (rewrite <- app_assoc; reflexivity).
      rewrite !map_app. cbn [map].
      destruct Ho as [-> | [-> | ->]]; op_num; hs; reflexivity.
Qed.

(* ---- one iteration of the body loop, the three inlined copies of add folded into add_blk ---- *)
Lemma chunk_loop_unfold fuel gas ch br ln saved chunks h :
  R.readUnifiedChunk_loop1 fuel (S gas) X_ReadString X_TrimSuffix ch br ln saved chunks h =
  bind (R.diffReader_readline br ln saved X_ReadString X_TrimSuffix) (fun '(line, err, r_br, r_ln, r_saved) =>
  if go_xerr_isvar err "io.EOF" then Ok (Next (r_br, r_ln, r_saved, chunks, h))
  else if negb (go_xerr_isnil err) then Ok (Ret (err, r_br, r_ln, r_saved, chunks, h))
  else if str_eqb line [] then
    Ok (Ret (Some (XFmt "line %d: unexpected blank line" [FInt r_ln] None), r_br, r_ln, r_saved, chunks, h))
  else
    bind (go_get line 0) (fun tag =>
    let rec := R.readUnifiedChunk_loop1 fuel gas X_ReadString X_TrimSuffix ch r_br r_ln r_saved chunks in
    if tag =? 32 then bind (go_substr line 1 (zlen line)) (fun txt => add_blk 61 txt ch h rec)
    else if tag =? 45 then bind (go_substr line 1 (zlen line)) (fun txt => add_blk 45 txt ch h rec)
    else if tag =? 43 then bind (go_substr line 1 (zlen line)) (fun txt => add_blk 43 txt ch h rec)
    else if tag =? 64 then Ok (Next (r_br, r_ln, R.diffReader_unread r_saved line, chunks, h))
    else
      bind (go_get line 0) (fun b =>
      Ok (Ret (Some (XFmt "line %d: %w %c" [FInt r_ln; FInt b] (Some (XVar "mdiff.errUnexpectedPrefix"))),
               r_br, r_ln, R.diffReader_unread r_saved line, chunks ++ [ch], h))))).
Proof. reflexivity. Qed.

Lemma go_get_0 {A} (x : A) l : go_get (x :: l) 0 = Ok x.
Proof.
  unfold go_get. replace ((0 <=? 0) && (0 <? zlen (x :: l))) with true; [reflexivity|].
  symmetry. apply andb_true_iff. split; [reflexivity | apply Z.ltb_lt; unfold zlen; cbn [length]; lia].
Qed.

Lemma of_N_eqb c k : (Z.of_N c =? Z.of_N k) = N.eqb c k.
Proof.
  destruct (N.eqb_spec c k) as [->|Nq]; [apply Z.eqb_refl|]. apply Z.eqb_neq. intros E. apply Nq. apply N2Z.inj. exact E.
Qed.

Section Body.
Variables (pre : list R.Chunk) (a b c d : Z) (ads : list (option nat)).
Notation ch := (Some (length pre)).
Notation cell es := (R.mk_Chunk (map eencR es) a b c d).

Lemma body_loop_ok fuel : forall ls t sv ln gas es,
  lines_of sv t = ls -> (length ls < gas)%nat ->
  exists t' ln' sv',
  match read_uchunk_body ls es with
  | (BodyBlank, es', rest) =>
    exists x, esite x = Some EBlank /\
    R.readUnifiedChunk_loop1 fuel gas X_ReadString X_TrimSuffix ch (zb t) ln (option_map zb sv) ads (pre ++ [cell es])
    = Ok (Ret (Some x, zb t', ln', option_map zb sv', ads, pre ++ [cell es']))
  | (BodyUnexpected, es', rest) =>
    lines_of sv' t' = rest /\
    exists x, esite x = Some EPrefix /\ go_xerr_is (Some x) "mdiff.errUnexpectedPrefix" = true /\
    R.readUnifiedChunk_loop1 fuel gas X_ReadString X_TrimSuffix ch (zb t) ln (option_map zb sv) ads (pre ++ [cell es])
    = Ok (Ret (Some x, zb t', ln', option_map zb sv', ads ++ [ch], pre ++ [cell es']))
  | (_, es', rest) =>
    lines_of sv' t' = rest /\
    R.readUnifiedChunk_loop1 fuel gas X_ReadString X_TrimSuffix ch (zb t) ln (option_map zb sv) ads (pre ++ [cell es])
    = Ok (Next (zb t', ln', option_map zb sv', ads, pre ++ [cell es']))
  end.
Proof.
  induction ls as [|l rest IH]; intros t sv ln gas es Hl Hg; (destruct gas as [|gas]; [simpl in Hg; lia|]);
    rewrite chunk_loop_unfold, C14_readline_is_source; rewrite lines_of_next in Hl.
  - destruct (rl_next sv t) as [[l0 t1]|]; [discriminate|].
    cbn [bind go_xerr_isvar String.eqb Ascii.eqb Bool.eqb read_uchunk_body].
    exists [], ln, None. split; reflexivity.
  - destruct (rl_next sv t) as [[l0 t1]|]; [|discriminate].
    assert (E0 : l0 = l) by congruence. assert (H1 : lines_of None t1 = rest) by congruence. subst l0. clear Hl.
    cbn [bind go_xerr_isvar go_xerr_isnil negb]. rewrite str_eqb_nil.
    destruct l as [|c0 tl].
    + (* a blank line *)
      cbn [is_nil read_uchunk_body].
      exists t1, (match sv with Some _ => ln | None => ln + 1 end), None.
      exists (XFmt "line %d: unexpected blank line" [FInt (match sv with Some _ => ln | None => ln + 1 end)] None).
      split; reflexivity.
    + cbn [is_nil]. rewrite zb_cons, go_get_0. cbn [bind]. cbv zeta.
      change 32 with (Z.of_N 32). change 45 with (Z.of_N 45). change 43 with (Z.of_N 43). change 64 with (Z.of_N 64).
      rewrite !of_N_eqb. cbn [read_uchunk_body].
      change (Z.of_N 32) with 32. change (Z.of_N 45) with 45. change (Z.of_N 43) with 43.
      destruct (N.eqb c0 32); [|destruct (N.eqb c0 45); [|destruct (N.eqb c0 43); [|destruct (N.eqb c0 64)]]].
      * rewrite substr_tail. cbn [bind].
        change 61 with (op_code Emit). rewrite add_blk_ok by (left; reflexivity).
        apply (IH t1 None); [exact H1 | simpl in Hg; lia].
      * rewrite substr_tail. cbn [bind].
        change 45 with (op_code Drop). rewrite add_blk_ok by (right; left; reflexivity).
        apply (IH t1 None); [exact H1 | simpl in Hg; lia].
      * rewrite substr_tail. cbn [bind].
        change 43 with (op_code Copy). rewrite add_blk_ok by (right; right; reflexivity).
        apply (IH t1 None); [exact H1 | simpl in Hg; lia].
      * (* '@': another chunk follows *)
        rewrite C14_unread_is_source.
        exists t1, (match sv with Some _ => ln | None => ln + 1 end), (Some (c0 :: tl)).
        split; [rewrite lines_of_saved, H1; reflexivity | reflexivity].
      * (* anything else *)
        cbn [bind]. rewrite C14_unread_is_source.
        exists t1, (match sv with Some _ => ln | None => ln + 1 end), (Some (c0 :: tl)).
        split; [rewrite lines_of_saved, H1; reflexivity|].
        eexists. split; [|split; [|reflexivity]]; reflexivity.
Qed.
End Body.

(* ---- the header line and the function ---- *)
Lemma uspan_pinned tag s :
  w_read_uspan (fun z => z) pinned tag s = parse_span parse_span_omitted_hi tag s.
Proof.
  unfold w_read_uspan, omitted_count. cbn [uspan_omitted_count_zero uspan_empty_names_next_line pinned negb andb].
  destruct (parse_span parse_span_omitted_hi tag s) as [[lo n]|]; reflexivity.
Qed.

Lemma zlen_ge4 {A} (x0 x1 x2 x3 : A) l : (zlen (x0 :: x1 :: x2 :: x3 :: l) <? 4) = false.
Proof. apply Z.ltb_ge. unfold zlen. cbn [length]. lia. Qed.

Lemma go_get_1 {A} (x0 x1 : A) l : go_get (x0 :: x1 :: l) 1 = Ok x1.
Proof.
  unfold go_get. replace ((0 <=? 1) && (1 <? zlen (x0 :: x1 :: l))) with true; [reflexivity|].
  symmetry. apply andb_true_iff. split; [reflexivity | apply Z.ltb_lt; unfold zlen; cbn [length]; lia].
Qed.
Lemma go_get_2 {A} (x0 x1 x2 : A) l : go_get (x0 :: x1 :: x2 :: l) 2 = Ok x2.
Proof.
  unfold go_get. replace ((0 <=? 2) && (2 <? zlen (x0 :: x1 :: x2 :: l))) with true; [reflexivity|].
  symmetry. apply andb_true_iff. split; [reflexivity | apply Z.ltb_lt; unfold zlen; cbn [length]; lia].
Qed.
Lemma go_get_3 {A} (x0 x1 x2 x3 : A) l : go_get (x0 :: x1 :: x2 :: x3 :: l) 3 = Ok x3.
Proof.
  unfold go_get. replace ((0 <=? 3) && (3 <? zlen (x0 :: x1 :: x2 :: x3 :: l))) with true; [reflexivity|].
  symmetry. apply andb_true_iff. split; [reflexivity | apply Z.ltb_lt; unfold zlen; cbn [length]; lia].
Qed.

Lemma C14_readUnifiedChunk_is_source : forall ls t sv ln fuel h ads,
  lines_of sv t = ls -> (length ls < fuel)%nat ->
  exists t' ln' sv',
  match w_read_uchunk (fun z => z) pinned ls with
  | UEof =>
    R.readUnifiedChunk (zb t) ln (option_map zb sv) ads X_ReadString X_TrimSuffix X_Fields X_CutPrefix X_SplitN X_Atoi h fuel
    = Ok (Some (XVar "io.EOF"), zb t', ln', option_map zb sv', ads, h)
  | UErr e =>
    exists x h', esite x = Some e /\ hext h h' /\
    R.readUnifiedChunk (zb t) ln (option_map zb sv) ads X_ReadString X_TrimSuffix X_Fields X_CutPrefix X_SplitN X_Atoi h fuel
    = Ok (Some x, zb t', ln', option_map zb sv', ads, h')
  | UChunk c rest =>
    lines_of sv' t' = rest /\
    R.readUnifiedChunk (zb t) ln (option_map zb sv) ads X_ReadString X_TrimSuffix X_Fields X_CutPrefix X_SplitN X_Atoi h fuel
    = Ok (None, zb t', ln', option_map zb sv', ads ++ [Some (length h)], h ++ [hencR c])
  | UUnexpected c rest =>
    lines_of sv' t' = rest /\
    exists x, esite x = Some EPrefix /\ go_xerr_is (Some x) "mdiff.errUnexpectedPrefix" = true /\
    R.readUnifiedChunk (zb t) ln (option_map zb sv) ads X_ReadString X_TrimSuffix X_Fields X_CutPrefix X_SplitN X_Atoi h fuel
    = Ok (Some x, zb t', ln', option_map zb sv', ads ++ [Some (length h)], h ++ [hencR c])
  end.
Proof.
  intros ls t sv ln fuel h ads Hl Hf. unfold R.readUnifiedChunk.
  rewrite C14_readline_is_source. rewrite lines_of_next in Hl.
  destruct (rl_next sv t) as [[l t1]|].
  2:{ subst ls. cbn [bind go_xerr_isnil negb w_read_uchunk]. exists [], ln, None. reflexivity. }
  subst ls. cbn [bind go_xerr_isnil negb w_read_uchunk]. cbv zeta.
  set (ln1 := match sv with Some _ => ln | None => ln + 1 end).
  rewrite X_Fields_zb. cbn [bind].
  unfold read_uchunk_min_fields.
  destruct (fields l) as [|p0 [|p1 [|p2 [|p3 ps]]]] eqn:Ef;
    try (cbn [map zlen length Z.of_nat Pos.of_succ_nat Pos.succ Z.ltb Z.compare Pos.compare Pos.compare_cont bind llen orb];
         exists t1, ln1, None; eexists; exists h; (split; [| split; [apply hext_refl | reflexivity]]); reflexivity).
  (* at least four fields *)
  cbn [map]. rewrite (zlen_ge4 (zb p0) (zb p1) (zb p2) (zb p3) (map zb ps)), go_get_0. cbn [bind].
  replace (llen (p0 :: p1 :: p2 :: p3 :: ps) <? 4) with false by (symmetry; apply (zlen_ge4 p0 p1 p2 p3 ps)).
  cbn [nth_field nth orb].
  change (go_str "@@") with (zb s_atat). rewrite !str_eqb_zb.
  destruct (bytes_eqb p0 s_atat); cbn [negb bind orb].
  2:{ exists t1, ln1, None. eexists. exists h. (split; [| split; [apply hext_refl | reflexivity]]); reflexivity. }
  rewrite go_get_3. cbn [bind]. rewrite str_eqb_zb.
  destruct (bytes_eqb p3 s_atat); cbn [negb bind].
  2:{ exists t1, ln1, None. eexists. exists h. (split; [| split; [apply hext_refl | reflexivity]]); reflexivity. }
  rewrite go_get_1. cbn [bind].
  change (go_str "-") with (zb s_minus). rewrite C14_parseSpan_is_source, uspan_pinned.
  destruct (parse_span parse_span_omitted_hi s_minus p1) as [[llo lhi]|]; cbn [bind go_xerr_isnil negb].
  2:{ exists t1, ln1, None. eexists. exists h. (split; [| split; [apply hext_refl | reflexivity]]); reflexivity. }
  rewrite go_get_2. cbn [bind].
  change (go_str "+") with (zb s_plus). rewrite C14_parseSpan_is_source, uspan_pinned.
  destruct (parse_span parse_span_omitted_hi s_plus p2) as [[rlo rhi]|]; cbn [bind go_xerr_isnil negb].
  2:{ exists t1, ln1, None. eexists. exists h. (split; [| split; [apply hext_refl | reflexivity]]); reflexivity. }
  cbn [go_hnew]. cbv zeta.
  assert (H1 : lines_of None t1 = lines_of None t1) by reflexivity.
  destruct (body_loop_ok h llo (llo + lhi) rlo (rlo + rhi) ads fuel (lines_of None t1) t1 None ln1 fuel [] H1)
    as (t' & ln' & sv' & Hb).
  { simpl in Hf. lia. }
  change (R.mk_Chunk (map eencR []) llo (llo + lhi) rlo (rlo + rhi)) with (R.mk_Chunk [] llo (llo + lhi) rlo (rlo + rhi)) in Hb.
  change (option_map zb None) with (@None (list Z)) in Hb.
  subst ln1. exists t', ln', sv'.
  destruct (read_uchunk_body (lines_of None t1) []) as [[bend es] rest'].
  destruct bend; cbn iota beta.
  - destruct Hb as [Hr Hb]. setoid_rewrite Hb. cbn [bind]. split; [exact Hr | reflexivity].
  - destruct Hb as [Hr Hb]. setoid_rewrite Hb. cbn [bind]. split; [exact Hr | reflexivity].
  - destruct Hb as [Hr (x & Hx & Hi & Hb)]. setoid_rewrite Hb. cbn [bind]. split; [exact Hr|].
    exists x. split; [exact Hx | split; [exact Hi | reflexivity]].
  - destruct Hb as (x & Hx & Hb). setoid_rewrite Hb. cbn [bind].
    exists x. eexists. split; [exact Hx | split; [|reflexivity]]. eexists; reflexivity.
Qed.

Print Assumptions add_blk_ok.
Print Assumptions C14_readUnifiedChunk_is_source.
