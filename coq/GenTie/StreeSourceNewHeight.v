(* stree, C02 over histories that start from the GENERATED constructor (StreeSourceNew.v), and the
   composition with the GENERATED limitFunc (StreeTieNewLimit.v).

   height_source_new: the statement of height_source (StreeSourceHeight.v) with the start state
   replaced by the object the generated New(β, cmp, keys...) returns; the peak starts at its size.
   The depth-limit function [limit] is the function handed to New as limitFunc (the record's limit
   field is [limit β]) and must satisfy H1, H2.
   gen_limit_H: the function generated from limitFunc/toFraction, under the contract [flt_exact],
   satisfies H1 and H2 (it equals limit_exact on the arguments they quantify over), so
   height_source_new_gen: nothing is left to assume of the limit function EXCEPT the float contract
   (and the two contracts of package slices). *)
From Coq Require Import ZArith List Bool Arith Lia.
From Mds Require Import Gen.StreeConst Gen.StreeNode.
From Mds Require Import Common.FnRt Common.FnHeap GenTie.TieLib GenTie.StreeTieBase GenTie.StreeSep
  GenTie.StreeSource GenTie.StreeSourceSim GenTie.StreeSourceHeight GenTie.StreeTieNew GenTie.StreeSourceNew
  GenTie.StreeTieNewLimit.
From Mds Require Stree.StreeSpec Stree.HeightModel Stree.HeightLimit Props.C02.
Import ListNotations.
Local Open Scope Z_scope.

Section HeightNew.
Context {T : Type}.
Notation heap := (list (G.node T)).
Variable cmp : T -> T -> Z.
Hypothesis HP : SP.total_preorder cmp.
Variable limit : Z -> Z -> Z.
Hypothesis H1 : HM.limit_H1 limit.
Hypothesis H2 : HM.limit_H2 limit.
Variable srt : list ptr -> (unit -> ptr -> ptr -> res (Z * unit)) -> res (list ptr).
Variable cpt : list ptr -> (unit -> ptr -> ptr -> res (bool * unit)) -> res (list ptr).
Hypothesis Hsrt : @sort_contract T srt.
Hypothesis Hcpt : compact_contract cpt.
Variable zero : T.

Theorem height_source_new (b : Z) (keys : list T) (h0 : heap) (ops : list (sop T)) : 0 <= b < 1000 ->
  exists (tr : G.Tree T) (h : heap),
    gnew cmp limit srt cpt b keys h0 = Ok (tr, h) /\
    G.Tree_compare tr = cmp /\ G.Tree_β tr = b /\ G.Tree_limit tr = limit b /\
    let st := gexec cmp limit zero b (gst_of tr h) ops in
    let P := gpeak cmp limit zero b (gst_of tr h) (G.Tree_size tr) ops in
    g_size st <= P /\
    (exists t F, trepr (g_heap st) (g_root st) t F /\
       (forall x, In x F <-> exists d, hreach (g_heap st) (g_root st) x d)) /\
    forall x d, hreach (g_heap st) (g_root st) x d ->
      (d <= 1)%nat \/ 2000 ^ (Z.of_nat d - 1) <= P * (1000 + b) ^ (Z.of_nat d - 1).
Proof.
  intros Hb. assert (Hb' : 0 <= b <= 1000) by lia.
  destruct (gnew_sim cmp HP limit srt cpt Hsrt Hcpt b keys h0 Hb')
    as [tr [h [t [l [Eg [Ec [Eb [El [Hs [Rl [_ [picks Em]]]]]]]]]]]].
  exists tr, h. split; [exact Eg|]. split; [exact Ec|]. split; [exact Eb|]. split; [exact El|]. cbn zeta.
  assert (Esz0 : G.Tree_size tr = SM.tsize t) by (destruct Hs as [E _]; exact E).
  destruct (peak_single cmp HP limit zero b h0 ops (gst_of tr h) t l (G.Tree_size tr) Hs Rl) as [t' [E Hs']].
  pose proof (C02.C02_history T cmp limit H1 H2 (SM.ONew b keys picks :: map to_op ops)) as HB.
  unfold HM.run_with_peak in HB. cbn [fold_left] in HB.
  assert (E0 : HM.step_peak cmp limit ([], []) (SM.ONew b keys picks) = ([t], [G.Tree_size tr])).
  { unfold HM.step_peak. cbn [SM.step]. rewrite Em. cbn [fst length skipn app HM.upd_peaks map].
    unfold SM.Len. rewrite Esz0. reflexivity. }
  rewrite E0, E in HB. cbn [fst snd] in HB. clear Eg Ec Eb El Esz0 E0 E Em Hs Rl.
  inversion HB as [|? ? ? ? HB1 _]; subst. clear HB.
  destruct Hs' as [Esz [_ [Ebeta [F [R [_ _]]]]]].
  rewrite Ebeta in HB1. destruct (HB1 Hb) as [HL [_ HH]].
  split; [rewrite Esz; exact HL|]. split.
  - exists (SM.root t'), F. split; [exact R|]. intros x. split.
    + apply (trepr_reach _ _ _ _ R).
    + intros [d Hd]. clear - R Hd. revert x d Hd.
      induction R as [|a c l0 r Fl Fr Hn _ IHl _ IHr _ _ _]; intros x d Hd; [inversion Hd|].
      inversion Hd as [a0 c0 Hn0|a0 c0 x0 d0 Hn0 Hr0|a0 c0 x0 d0 Hn0 Hr0]; subst.
      * left. reflexivity.
      * rewrite Hn in Hn0. inversion Hn0; subst c0. right. apply in_app_iff. left. eapply IHl; exact Hr0.
      * rewrite Hn in Hn0. inversion Hn0; subst c0. right. apply in_app_iff. right. eapply IHr; exact Hr0.
  - intros x d Hd. pose proof (hreach_height _ _ _ _ R x d Hd) as Hh.
    destruct (le_gt_dec d 1) as [Hle|Hgt]; [left; exact Hle|right].
    destruct HH as [HH|HH]; [lia|].
    apply (HeightLimit.Pk_down b _ (Z.of_nat d - 1) (SM.height (SM.root t') - 1)); [lia|lia|exact HH].
Qed.

End HeightNew.

(* ---- the limit function GENERATED from limitFunc, as a function Z -> Z -> Z ---- *)
Section GenLimit.
Variable Flt : Type.
Variable Flt_of_Z : Z -> Flt.
Variable Flt_add Flt_div : Flt -> Flt -> Flt.
Variable Flt_eqb : Flt -> Flt -> bool.
Variable math_Log : Flt -> Flt.
Variable Flt_to_Z : Flt -> Z.
Variable den : Flt -> Z * Z -> Prop.
Hypothesis HE : flt_exact Flt Flt_of_Z Flt_add Flt_div Flt_eqb math_Log Flt_to_Z den.

(* limitFunc(β) never returns nil; the None branch is there for totality only *)
Definition gen_limit (b : Z) : Z -> Z :=
  match GN.limitFunc Flt_of_Z Flt_add Flt_div Flt_eqb math_Log Flt_to_Z b with
  | Some f => f
  | None => fun _ => 0
  end.

Lemma gen_limit_exact (b n : Z) : 0 <= b <= 1000 -> 1 <= n -> gen_limit b n = HM.limit_exact b n.
Proof.
  intros Hb Hn. unfold gen_limit.
  destruct (limitFunc_is_source Flt Flt_of_Z Flt_add Flt_div Flt_eqb math_Log Flt_to_Z den HE b Hb) as [f [-> Ef]].
  apply Ef. exact Hn.
Qed.

Lemma gen_limit_H : HM.limit_H1 gen_limit /\ HM.limit_H2 gen_limit.
Proof.
  split; intros b n Hb Hn; rewrite (gen_limit_exact b n ltac:(lia) Hn).
  - apply HeightLimit.limit_exact_H1; assumption.
  - apply HeightLimit.limit_exact_H2; assumption.
Qed.

Theorem height_source_new_gen {T : Type} (cmp : T -> T -> Z) (HP : SP.total_preorder cmp)
  (srt : list ptr -> (unit -> ptr -> ptr -> res (Z * unit)) -> res (list ptr))
  (cpt : list ptr -> (unit -> ptr -> ptr -> res (bool * unit)) -> res (list ptr))
  (Hsrt : @sort_contract T srt) (Hcpt : compact_contract cpt) (zero : T)
  (b : Z) (keys : list T) (h0 : list (G.node T)) (ops : list (sop T)) : 0 <= b < 1000 ->
  exists (tr : G.Tree T) (h : list (G.node T)),
    gnew cmp gen_limit srt cpt b keys h0 = Ok (tr, h) /\
    G.Tree_compare tr = cmp /\ G.Tree_β tr = b /\ G.Tree_limit tr = gen_limit b /\
    let st := gexec cmp gen_limit zero b (gst_of tr h) ops in
    let P := gpeak cmp gen_limit zero b (gst_of tr h) (G.Tree_size tr) ops in
    g_size st <= P /\
    (exists t F, trepr (g_heap st) (g_root st) t F /\
       (forall x, In x F <-> exists d, hreach (g_heap st) (g_root st) x d)) /\
    forall x d, hreach (g_heap st) (g_root st) x d ->
      (d <= 1)%nat \/ 2000 ^ (Z.of_nat d - 1) <= P * (1000 + b) ^ (Z.of_nat d - 1).
Proof.
  destruct gen_limit_H as [G1 G2].
  exact (height_source_new cmp HP gen_limit G1 G2 srt cpt Hsrt Hcpt zero b keys h0 ops).
Qed.

End GenLimit.
