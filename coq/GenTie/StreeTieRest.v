(* The rest of stree: Tree.Root, Tree.Cursor, Cursor.Clone (cursor.go / stree.go, against
   Stree/CursorModel.v) and Tree.Clone (against Stree/StreeModel.v).  Representation lemmas in the
   style of StreeTieCursor.v / StreeTieClone.v.

   New in the generated code (translator/fn_heap_rest.go, Common/FnHeap.v):
     go_vres Cursor = VRecv | VNil | VNew v   a *Cursor result that is nil on some path (Tree.Cursor,
                      Tree.Root) or the receiver pointer itself (Cursor.Clone of an invalid cursor);
                      [vdec self r]: the (nil flag, path) pair the result stands for, given the
                      receiver's own pair -- the representation crepr uses for cursors;
     Record Tree      the value struct with its function-typed fields compare and limit: Tree.Clone
                      copies the whole receiver (cp := *t), replaces cp.root and returns &cp.

   Statements:
     C03_tree_root_is_source    Tree.Root = the model's tree_root (nil for the empty tree, else the
                                one-element path holding t.root), by computation on the root pointer;
     C03_tree_cursor_is_source  Tree.Cursor(key): for a heap that represents t the generated function
                                answers a result that stands for the model's tree_cursor t key
                                (CNil when the key is absent, else the cursor AT the directions
                                path_dirs key t), well-formed; needs that pathTo returns the addresses
                                ALONG those directions (pathTo_loop_pp, stronger than C01_pathTo_is_source);
     C03_cursor_clone_is_source Cursor.Clone: the result stands for the model's clone, and it is the
                                RECEIVER ITSELF exactly when the cursor is not valid, a NEW struct
                                holding the same addresses otherwise (slices.Clone = the same list:
                                the independence of the two slices is outside the list representation);
     C01_tree_clone_is_source   Tree.Clone: a Tree record with the receiver's β, compare, limit, size,
                                max and as root the address node.clone returns: the model's Clone
                                field by field, the copy a tree-shaped region of cells allocated
                                beyond the old heap (from C01_clone_sep_is_source), the old heap a
                                prefix of the new one. *)
From Coq Require Import ZArith List Bool Arith Lia.
From Mds Require Import Gen.StreeConst Gen.StreeNode Gen.CursorIdx Gen.CursorTree.
From Mds Require Stree.CursorModel.
From Mds Require Import Common.FnRt Common.FnHeap GenTie.TieLib GenTie.StreeTieBase GenTie.StreeTieWalk
  GenTie.StreeTieCursor GenTie.StreeSep GenTie.StreeTieMutClone.
Import ListNotations.
Local Open Scope Z_scope.

(* what a *Cursor result stands for, given the pair of the receiver *)
Definition vdec (self : bool * list (option nat)) (r : go_vres G.Cursor) : bool * list (option nat) :=
  match r with
  | VRecv => self
  | VNil => (true, [])
  | VNew v => (false, G.Cursor_path v)
  end.

Section RestT.
Context {T : Type}.
Variable zero : T.
Variable cmp : T -> T -> Z.
Notation tree := (SM.tree T).
Notation heap := (list (G.node T)).
Notation dir := CM.dir.

Lemma repr_some_addr (h : heap) a l x r : repr h a (SM.Node l x r) -> exists k, a = Some k.
Proof. intros H. destruct (repr_node_inv h a l x r H) as [k [c [E _]]]. exists k. exact E. Qed.

(* ---- Tree.Root ---- *)
Theorem C03_tree_root_is_source : forall (h : heap) (root : option nat) (t : tree) (self : bool * list (option nat)),
  repr h root t ->
  crepr h root (CM.tree_root t) (fst (vdec self (G.Tree_Root root))) (snd (vdec self (G.Tree_Root root))) /\
  cwf t (CM.tree_root t) /\
  (G.Tree_Root root = VNil <-> t = SM.Leaf).
Proof.
  intros h root t self R. destruct R as [|a c l r Hk Hl Hr]; cbn [G.Tree_Root go_pnil vdec fst snd CM.tree_root cwf].
  - split; [constructor|]. split; [exact I|]. split; reflexivity.
  - split; [apply cr_at; constructor|]. split; [reflexivity|]. split; discriminate.
Qed.

(* ---- pathTo returns the addresses along path_dirs ---- *)
Lemma pathTo_loop_pp : forall (t : tree) (gas fuel : nat) (h : heap) (k : nat) (key : T) (acc : list (option nat)),
  repr h (Some k) t -> (gas > depth t)%nat ->
  exists ps, bind (G.node_pathTo_loop1 fuel gas key cmp h acc (Some k)) (fun x => Ok (fst x)) = Ok (acc ++ ps) /\
             ppath h (Some k) (CM.path_dirs cmp key t) ps /\
             length ps = length (SM.path_to cmp key t).
Proof.
  induction t as [|l IHl x r IHr]; intros gas fuel h k key acc R Hg.
  - inversion R.
  - destruct gas as [|gas]; [lia|]. cbn [G.node_pathTo_loop1].
    rnode R k0 c Hk Hl Hr. cbn [go_pnil negb depth SM.path_to CM.path_dirs] in *.
    rewrite (hget_repr h k0 c Hk). cbn [bind].
    unfold path_lt, path_gt.
    destruct (cmp key (G.node_X c) <? 0).
    + destruct l as [|ll lx lr].
      * apply repr_leaf_inv in Hl. rewrite Hl.
        destruct gas as [|gas]; [cbn [depth] in Hg; lia|]. cbn [G.node_pathTo_loop1 go_pnil negb bind fst].
        exists [Some k0]. split; [reflexivity|]. split; [constructor|reflexivity].
      * pose proof Hl as Hl0. apply repr_some_addr in Hl0. destruct Hl0 as [kl El].
        rewrite El in Hl.
        destruct (IHl gas fuel h kl key (acc ++ [Some k0]) Hl ltac:(cbn [depth] in *; lia)) as [ps [E [P Ln]]].
        rewrite El. exists (Some k0 :: ps). rewrite E, <- app_assoc. split; [reflexivity|].
        split; [|cbn [length]; rewrite Ln; reflexivity].
        apply (pp_cons h k0 c CM.L _ _ Hk). cbn [caddr]. rewrite El. exact P.
    + destruct (cmp key (G.node_X c) >? 0).
      * destruct r as [|rl rx rr].
        -- apply repr_leaf_inv in Hr. rewrite Hr.
           destruct gas as [|gas]; [cbn [depth] in Hg; lia|]. cbn [G.node_pathTo_loop1 go_pnil negb bind fst].
           exists [Some k0]. split; [reflexivity|]. split; [constructor|reflexivity].
        -- pose proof Hr as Hr0. apply repr_some_addr in Hr0. destruct Hr0 as [kr Er].
           rewrite Er in Hr.
           destruct (IHr gas fuel h kr key (acc ++ [Some k0]) Hr ltac:(cbn [depth] in *; lia)) as [ps [E [P Ln]]].
           rewrite Er. exists (Some k0 :: ps). rewrite E, <- app_assoc. split; [reflexivity|].
           split; [|cbn [length]; rewrite Ln; reflexivity].
           apply (pp_cons h k0 c CM.R _ _ Hk). cbn [caddr]. rewrite Er. exact P.
      * exists [Some k0]. split; [reflexivity|]. split; [constructor|reflexivity].
Qed.

(* the node the directions lead to is the last entry of the model's path, and it is a node *)
Lemma path_dirs_last : forall (t : tree) (key : T), t <> SM.Leaf ->
  CM.is_node (CM.subtree t (CM.path_dirs cmp key t)) = true /\
  nth_error (SM.path_to cmp key t) (length (SM.path_to cmp key t) - 1) = Some (CM.subtree t (CM.path_dirs cmp key t)).
Proof.
  induction t as [|l IHl x r IHr]; intros key Hn; [contradiction|].
  cbn [CM.path_dirs SM.path_to].
  destruct (path_lt (cmp key x)).
  - destruct l as [|ll lx lr].
    + cbn [SM.path_to CM.subtree length Nat.sub nth_error CM.is_node]. split; reflexivity.
    + destruct (IHl key ltac:(discriminate)) as [A B]. cbn [CM.subtree CM.child]. split; [exact A|].
      set (pl := SM.path_to cmp key (SM.Node ll lx lr)) in *.
      assert (Lp : (length pl >= 1)%nat) by (unfold pl; cbn [SM.path_to length]; lia).
      cbn [length]. replace (S (length pl) - 1)%nat with (S (length pl - 1)) by lia. exact B.
  - destruct (path_gt (cmp key x)).
    + destruct r as [|rl rx rr].
      * cbn [SM.path_to CM.subtree length Nat.sub nth_error CM.is_node]. split; reflexivity.
      * destruct (IHr key ltac:(discriminate)) as [A B]. cbn [CM.subtree CM.child]. split; [exact A|].
        set (pl := SM.path_to cmp key (SM.Node rl rx rr)) in *.
        assert (Lp : (length pl >= 1)%nat) by (unfold pl; cbn [SM.path_to length]; lia).
        cbn [length]. replace (S (length pl) - 1)%nat with (S (length pl - 1)) by lia. exact B.
    + cbn [CM.subtree length Nat.sub nth_error CM.is_node]. split; reflexivity.
Qed.

(* ---- Tree.Cursor ---- *)
Theorem C03_tree_cursor_is_source : forall (h : heap) (root : option nat) (t : tree) (key : T) (fuel : nat)
    (self : bool * list (option nat)),
  repr h root t -> (fuel > depth t)%nat ->
  exists r c, G.Tree_Cursor root cmp key h fuel = Ok r /\
              CM.tree_cursor cmp t key = SM.Ok c /\
              crepr h root c (fst (vdec self r)) (snd (vdec self r)) /\ cwf t c /\
              (r = VNil <-> c = CNil).
Proof.
  intros h root t key fuel self R Hf. unfold G.Tree_Cursor, G.node_pathTo, CM.tree_cursor.
  destruct t as [|l x r].
  - (* the empty tree: no path, nil *)
    apply repr_leaf_inv in R. subst root.
    destruct fuel as [|fuel]; [lia|]. cbn [G.node_pathTo_loop1 go_pnil negb bind SM.path_to length].
    cbn. exists VNil, CNil. repeat split; constructor.
  - pose proof R as R0. apply repr_some_addr in R0. destruct R0 as [k Ek]. subst root.
    destruct (pathTo_loop_pp (SM.Node l x r) fuel fuel h k key [] R Hf) as [ps [E [P Ln]]].
    destruct (G.node_pathTo_loop1 fuel fuel key cmp h [] (Some k)) as [[p cu]| |]; cbn [bind fst] in E; try discriminate.
    inversion E; subst p. cbn [bind app].
    destruct (path_dirs_last (SM.Node l x r) key ltac:(discriminate)) as [Hn Hlast].
    set (dirs := CM.path_dirs cmp key (SM.Node l x r)) in *.
    set (pt := SM.path_to cmp key (SM.Node l x r)) in *.
    assert (Lp : (length pt >= 1)%nat) by (unfold pt; cbn [SM.path_to length]; lia).
    assert (Lps : length ps = S (length dirs)) by (apply (ppath_length h (Some k) dirs ps P)).
    destruct (last_node h (Some k) (SM.Node l x r) dirs ps R P Hn) as (kk & cc & G1 & _ & Hkk & _ & Hsub).
    replace (zlen ps =? 0) with false by (symmetry; apply Z.eqb_neq; unfold zlen; lia).
    rewrite G1. cbn [bind]. rewrite (hget_repr h kk cc Hkk). cbn [bind].
    (* the model's side *)
    replace (Z.of_nat (length pt) =? 0) with false by (symmetry; apply Z.eqb_neq; lia).
    unfold tcur_last_idx.
    replace (Z.of_nat (length pt) - 1 <? 0) with false by (symmetry; apply Z.ltb_ge; lia).
    replace (Z.to_nat (Z.of_nat (length pt) - 1)) with (length pt - 1)%nat by lia.
    rewrite Hlast. rewrite Hsub. cbn [SM.bind].
    unfold tcur_reject.
    replace (Z.of_nat (length pt) =? 0) with false by (symmetry; apply Z.eqb_neq; lia).
    cbn [orb].
    destruct (cmp (G.node_X cc) key =? 0); cbn [negb].
    + exists (VNew (G.mk_Cursor ps)), (CAt dirs). cbn [vdec fst snd G.Cursor_path cwf].
      split; [reflexivity|]. split; [reflexivity|]. split; [apply cr_at; exact P|]. split; [exact Hn|].
      split; discriminate.
    + exists VNil, CNil. cbn [vdec fst snd cwf].
      split; [reflexivity|]. split; [reflexivity|]. split; [constructor|]. split; [exact I|]. split; reflexivity.
Qed.

(* ---- Cursor.Clone ---- *)
Theorem C03_cursor_clone_is_source : forall (h : heap) (root : option nat) (c : CM.cursor) (n : bool) (ps : list (option nat)),
  crepr h root c n ps ->
  exists r, G.Cursor_Clone n ps = Ok r /\
            crepr h root (CM.clone c) (fst (vdec (n, ps) r)) (snd (vdec (n, ps) r)) /\
            (r = VRecv <-> CM.valid c = false) /\
            (CM.valid c = true -> r = VNew (G.mk_Cursor ps)).
Proof.
  intros h root c n ps Cr. unfold G.Cursor_Clone.
  rewrite (C03_valid_is_source h root c n ps Cr). cbn [bind]. unfold CM.clone.
  destruct (CM.valid c) eqn:V; cbn [negb].
  - (* valid: not nil, a new struct with the same addresses *)
    destruct Cr as [ps| |p ps P]; cbn in V; try discriminate.
    cbn [go_rcv bind]. exists (VNew (G.mk_Cursor ps)). cbn [vdec fst snd G.Cursor_path].
    split; [reflexivity|]. split; [apply cr_at; exact P|]. split; [split; discriminate|reflexivity].
  - exists VRecv. cbn [vdec fst snd]. split; [reflexivity|]. split; [exact Cr|]. split; [split; reflexivity|discriminate].
Qed.

(* ---- Tree.Clone ---- *)
Theorem C01_tree_clone_is_source : forall (h : heap) (troot : option nat) (t : tree)
    (b : Z) (lim : Z -> Z) (size mx : Z) (fuel : nat),
  repr h troot t -> (fuel > depth t)%nat ->
  exists a' ext F',
    G.Tree_Clone troot b cmp lim size mx h fuel = Ok (G.mk_Tree a' b cmp lim size mx, h ++ ext) /\
    trepr (h ++ ext) a' (SM.root (SM.Clone (SM.mkTree t b size mx))) F' /\
    (forall k, In k F' -> (length h <= k)%nat) /\
    SM.beta (SM.Clone (SM.mkTree t b size mx)) = b /\
    SM.tsize (SM.Clone (SM.mkTree t b size mx)) = size /\
    SM.maxsize (SM.Clone (SM.mkTree t b size mx)) = mx.
Proof.
  intros h troot t b lim size mx fuel R Hf. unfold G.Tree_Clone.
  destruct (C01_clone_sep_is_source fuel h troot t R Hf) as (a' & ext & F' & E & Tr & Fr).
  rewrite E. cbn [bind G.Tree_β G.Tree_compare G.Tree_limit G.Tree_size G.Tree_max].
  exists a', ext, F'. cbn [SM.Clone SM.root SM.beta SM.tsize SM.maxsize].
  repeat split; assumption.
Qed.

End RestT.

(* ---- Tree.InorderAfter: `return func(yield func(T) bool) { t.root.inorderAfter(key, t.compare, yield) }`.
   The translator uncurries a function whose body is one returned function literal: the generated
   Tree_InorderAfter takes the key AND the iterator's yield (a state-threading callback); calling
   the iterator the method returns is running that body. ---- *)
Section AfterT.
Context {T St : Type}.
Variable cmp : T -> T -> Z.
Variable g : St -> T -> St * bool.
Notation tree := (SM.tree T).
Notation heap := (list (G.node T)).

Theorem C01_tree_inorderAfter_is_source : forall (h : heap) (root : option nat) (t : tree) (key : T) (s : St) (fuel : nat),
  repr h root t -> (fuel >= depth t + 2)%nat ->
  exists r, SM.inorder_after cmp g key t s = SM.Ok r /\
            G.Tree_InorderAfter root cmp key (gf g) s h fuel = Ok (fst r).
Proof.
  intros h root t key s fuel R Hf. unfold G.Tree_InorderAfter.
  destruct (C01_inorderAfter_is_source cmp g h root t key s fuel R Hf) as [r [E1 E2]].
  exists r. split; [exact E1|]. rewrite E2. destruct r as [s' ok]. reflexivity.
Qed.

End AfterT.

Print Assumptions C01_tree_inorderAfter_is_source.
Print Assumptions C03_tree_root_is_source.
Print Assumptions C03_tree_cursor_is_source.
Print Assumptions C03_cursor_clone_is_source.
Print Assumptions C01_tree_clone_is_source.
