(* The mutators and constructors with a loop of mapset/mapset.go: add, New, Add, AddAll, Clear,
   Remove, RemoveAll, Pop: model = generated function (see MapsetTieBase.v).  Results of the
   generated functions: (the Go result, the receiver after the call), both by content. *)
From Coq Require Import ZArith List Bool Lia.
From Mds Require Import Common.FnRt GenTie.TieLib Gen.FnMapset Gen.MapsetFacts GenTie.MapsetTieBase GenTie.MapsetTieRead.
Import ListNotations.
Local Open Scope Z_scope.

Section Elem.
Context {T : Type}.
Variable eqb : T -> T -> bool.
Hypothesis eqb_spec : forall x y, eqb x y = true <-> x = y.
Variable zero : T.

Notation gomap := (M.gomap T).
Notation forget := (@forget T).
Notation wf := (@wf T).
Notation len_eq := (len_eq eqb eqb_spec).
Notation has_eq := (has_eq eqb eqb_spec).
Notation set_eq := (set_eq eqb eqb_spec).
Notation del_eq := (del_eq eqb eqb_spec).
Notation order_check_eq := (order_check_eq eqb eqb_spec).
Notation wf_delete := (wf_delete eqb).

Definition both (m : gomap) : go_nmap T unit * go_nmap T unit := (forget m, forget m).

(* ---- add: for _, item := range items { s[item] = struct{}{} }; return s ---- *)
Lemma add_loop_eq (items : list T) fuel : forall rest (s : gomap) r gas,
  0 <= r -> skipn (Z.to_nat r) items = rest -> (length rest < gas)%nat ->
  bind (add_loop1 fuel gas items (zlen items) eqb (forget s) r) (fun '(s', _) => Ok s')
  = embf forget (M.add_loop T eqb s rest).
Proof.
  induction rest as [|x rest IH]; intros s r gas R E G; (destruct gas as [|gas]; [cbn in G; lia|]); cbn [add_loop1].
  - rewrite (skipn_nil_end _ _ R E). reflexivity.
  - destruct (skipn_cons_get _ _ _ _ R E) as [B [Gt S']]. rewrite B, Gt. cbn [bind M.add_loop].
    rewrite set_eq. destruct (M.m_set T eqb s x) as [s'| | | | |]; cbn [embf bind M.bind]; try reflexivity.
    apply IH; [lia | exact S' | cbn in G; lia].
Qed.

Theorem C18_add_helper_is_source : forall (s : gomap) (items : list T) (fuel : nat), (length items < fuel)%nat ->
  add (forget s) items eqb fuel = embf both (M.add_helper T eqb s items).
Proof.
  intros s items fuel F. unfold add, M.add_helper. cbv zeta.
  pose proof (add_loop_eq items fuel items s 0 fuel (Z.le_refl 0) eq_refl F) as L.
  destruct (add_loop1 _ _ _ _ _ _ _) as [[s' r']| |]; destruct (M.add_loop T eqb s items); cbn [bind embf M.bind] in *;
    try discriminate; anchors; inversion L; subst; reflexivity.
Qed.

Theorem C18_new_is_source : forall (fresh : positive) (items : list T) (fuel : nat), (length items < fuel)%nat ->
  New items eqb fuel = embf forget (M.New T eqb fresh items).
Proof.
  intros fresh items fuel F. unfold New, M.New. anchors. cbv zeta.
  change (@go_nmap_make T unit) with (forget (M.m_make T fresh)).
  rewrite (C18_add_helper_is_source _ _ _ F).
  destruct (M.add_helper T eqb (M.m_make T fresh) items); reflexivity.
Qed.

Theorem C18_add_is_source : forall (s : gomap) (fresh : positive) (items : list T) (fuel : nat), (length items < fuel)%nat ->
  Add (forget s) items eqb fuel = embf both (M.Add T eqb s fresh items).
Proof.
  intros s fresh items fuel F. unfold Add, M.Add. anchors. rewrite isnil_eq. unfold add_nil.
  destruct s as [[p l]|]; cbn [M.m_ptr M.nil_ptr Z.eqb Pos.eqb]; anchors; cbn [M.bind]; cbv zeta.
  - replace (Z.pos p =? M.nil_ptr) with false by reflexivity. apply C18_add_helper_is_source; exact F.
  - replace (M.nil_ptr =? M.nil_ptr) with true by reflexivity.
    change (@go_nmap_make T unit) with (forget (M.m_make T fresh)). apply C18_add_helper_is_source; exact F.
Qed.

Theorem C18_clear_is_source : forall (s : gomap),
  Ok (Clear (forget s)) = embf both (M.Clear T s).
Proof. intros s. unfold M.Clear, Clear. anchors. destruct s as [[p l]|]; reflexivity. Qed.

(* ---- AddAll ---- *)
Lemma addall_loop_eq (t : gomap) (ord : list T) fuel : forall rest (s : gomap) r gas,
  (forall x, In x rest -> M.m_get T eqb t x = true) ->
  0 <= r -> skipn (Z.to_nat r) ord = rest -> (length rest < gas)%nat ->
  bind (AddAll_loop1 fuel gas (forget t) eqb ord (zlen ord) (forget s) r) (fun '(s', _) => Ok s')
  = embf forget (M.add_loop T eqb s rest).
Proof.
  induction rest as [|x rest IH]; intros s r gas P R E G; (destruct gas as [|gas]; [cbn in G; lia|]); cbn [AddAll_loop1].
  - rewrite (skipn_nil_end _ _ R E). reflexivity.
  - destruct (skipn_cons_get _ _ _ _ R E) as [B [Gt S']]. rewrite B, Gt. cbn [bind M.add_loop].
    rewrite has_eq, (P x (or_introl eq_refl)). cbn [negb].
    rewrite set_eq. destruct (M.m_set T eqb s x) as [s'| | | | |]; cbn [embf bind M.bind]; try reflexivity.
    apply IH; [intros y I; apply P; right; exact I | lia | exact S' | cbn in G; lia].
Qed.

Theorem C18_addall_is_source : forall (s t : gomap) (fresh : positive) (ord : list T) (fuel : nat), wf t -> (length ord < fuel)%nat ->
  AddAll (forget s) (forget t) eqb ord fuel = embf both (M.AddAll T eqb s t fresh ord).
Proof.
  intros s t fresh ord fuel W F. unfold AddAll, M.AddAll. anchors. rewrite isnil_eq. unfold addall_nil.
  destruct (M.m_ptr T s =? M.nil_ptr).
  - (* *s = t.Clone(); return *s *)
    anchors. cbv zeta. pose proof (MapsetTieRead.C18_clone_is_source t fresh) as C.
    destruct (M.Clone T t fresh) as [c| | | | |]; cbn [embf M.bind] in *; try discriminate; anchors.
    inversion C as [C']. cbn [embf both]. rewrite C'. reflexivity.
  - rewrite order_check_eq by exact W. unfold M.m_range. destruct (M.valid_order T eqb ord t) eqn:V; [|reflexivity].
    cbv zeta.
    pose proof (addall_loop_eq t ord fuel ord s 0 fuel (valid_order_in eqb _ _ V) (Z.le_refl 0) eq_refl F) as L.
    destruct (AddAll_loop1 _ _ _ _ _ _ _ _) as [[s' r']| |]; destruct (M.add_loop T eqb s ord); cbn [bind embf M.bind] in *;
      try discriminate; anchors; inversion L; subst; reflexivity.
Qed.

(* ---- Remove ---- *)
Lemma remove_loop_eq (items : list T) fuel : forall rest (s : gomap) r gas, wf s ->
  0 <= r -> skipn (Z.to_nat r) items = rest -> (length rest < gas)%nat ->
  bind (Remove_loop1 fuel gas items (zlen items) eqb (forget s) r) (fun '(s', _) => Ok s')
  = Ok (forget (M.remove_loop T eqb s rest)).
Proof.
  induction rest as [|x rest IH]; intros s r gas W R E G; (destruct gas as [|gas]; [cbn in G; lia|]); cbn [Remove_loop1].
  - rewrite (skipn_nil_end _ _ R E). reflexivity.
  - destruct (skipn_cons_get _ _ _ _ R E) as [B [Gt S']]. rewrite B, Gt. cbn [bind M.remove_loop].
    rewrite len_eq by exact W. unfold remove_break. destruct (M.m_len T s =? 0); [reflexivity|].
    rewrite called_1 by reflexivity. rewrite del_eq.
    apply IH; [apply wf_delete; exact W | lia | exact S' | cbn in G; lia].
Qed.

Theorem C18_remove_is_source : forall (s : gomap) (items : list T) (fuel : nat), wf s -> (length items < fuel)%nat ->
  Remove (forget s) items eqb fuel = embf both (M.Remove T eqb s items).
Proof.
  intros s items fuel W F. unfold Remove, M.Remove. anchors. cbv zeta.
  pose proof (remove_loop_eq items fuel items s 0 fuel W (Z.le_refl 0) eq_refl F) as L.
  destruct (Remove_loop1 _ _ _ _ _ _ _) as [[s' r']| |]; cbn [bind] in *; try discriminate.
  inversion L; subst. reflexivity.
Qed.

(* ---- RemoveAll, for two different map objects (same_map s t = false: the model's no-alias case) ---- *)
Lemma removeall_loop_eq (t : gomap) (ord : list T) fuel : forall rest (s : gomap) r gas, wf s ->
  (forall x, In x rest -> M.m_get T eqb t x = true) ->
  0 <= r -> skipn (Z.to_nat r) ord = rest -> (length rest < gas)%nat ->
  bind (RemoveAll_loop1 fuel gas (forget t) eqb ord (zlen ord) (forget s) r) (fun '(s', _) => Ok s')
  = Ok (forget (M.removeall_loop T eqb false s rest)).
Proof.
  induction rest as [|x rest IH]; intros s r gas W P R E G; (destruct gas as [|gas]; [cbn in G; lia|]); cbn [RemoveAll_loop1].
  - rewrite (skipn_nil_end _ _ R E). reflexivity.
  - destruct (skipn_cons_get _ _ _ _ R E) as [B [Gt S']]. rewrite B, Gt. cbn [bind M.removeall_loop andb].
    rewrite has_eq, (P x (or_introl eq_refl)). cbn [negb].
    rewrite len_eq by exact W. unfold removeall_break. destruct (M.m_len T s =? 0); [reflexivity|].
    rewrite called_1 by reflexivity. rewrite del_eq.
    apply IH; [apply wf_delete; exact W | intros y I; apply P; right; exact I | lia | exact S' | cbn in G; lia].
Qed.

Theorem C18_removeall_is_source : forall (s t : gomap) (ord : list T) (fuel : nat), wf s -> wf t ->
  M.same_map T s t = false -> (length ord < fuel)%nat ->
  RemoveAll (forget s) (forget t) eqb ord fuel = embf both (M.RemoveAll T eqb s t ord).
Proof.
  intros s t ord fuel Ws Wt NA F. unfold RemoveAll, M.RemoveAll. anchors. rewrite NA.
  rewrite order_check_eq by exact Wt. unfold M.m_range. destruct (M.valid_order T eqb ord t) eqn:V; [|reflexivity].
  anchors. cbv zeta.
  pose proof (removeall_loop_eq t ord fuel ord s 0 fuel Ws (valid_order_in eqb _ _ V) (Z.le_refl 0) eq_refl F) as L.
  destruct (RemoveAll_loop1 _ _ _ _ _ _ _ _) as [[s' r']| |]; cbn [bind] in *; try discriminate.
  inversion L; subst. reflexivity.
Qed.

(* ---- Pop: the first key of the runtime's order is deleted and returned ---- *)
Theorem C18_pop_is_source : forall (s : gomap) (ord : list T) (fuel : nat), wf s -> (0 < fuel)%nat ->
  Pop (forget s) eqb ord zero fuel = embf (fun '(m, x) => (x, forget m)) (M.Pop T eqb zero s ord).
Proof.
  intros s ord fuel W F. unfold Pop, M.Pop. anchors.
  rewrite order_check_eq by exact W. unfold M.m_range. destruct (M.valid_order T eqb ord s) eqn:V; [|reflexivity].
  cbv zeta. destruct fuel as [|fuel]; [lia|]. cbn [Pop_loop1].
  destruct ord as [|x ord].
  - rewrite (skipn_nil_end (@nil T) 0 (Z.le_refl 0) eq_refl). cbn [bind]. anchors. reflexivity.
  - destruct (skipn_cons_get (x :: ord) 0 x ord (Z.le_refl 0) eq_refl) as [B [Gt _]]. rewrite B, Gt. cbn [bind].
    rewrite has_eq, (valid_order_in eqb _ _ V x (or_introl eq_refl)). cbn [negb bind].
    anchors. cbn [M.bind embf]. rewrite del_eq. reflexivity.
Qed.

End Elem.

Print Assumptions C18_add_helper_is_source.
Print Assumptions C18_new_is_source.
Print Assumptions C18_add_is_source.
Print Assumptions C18_clear_is_source.
Print Assumptions C18_addall_is_source.
Print Assumptions C18_remove_is_source.
Print Assumptions C18_removeall_is_source.
Print Assumptions C18_pop_is_source.
