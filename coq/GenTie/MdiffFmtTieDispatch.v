(* mdiff: the two dispatchers, Diff.Format (mdiff.go) and Patch.Format (reader.go).

   The generated functions (Gen/FnMdiffDispatch.v, Gen/FnMdiffRead.v) take the FormatFunc as a
   function argument that is handed the writer, the receiver's chunk addresses and the file info
   and hands back (error, writer).  Two kinds of statement:

   * for EVERY such function that writes what a model formatter mf writes (gff_ok), the generated
     dispatcher leaves the sink at w ++ the model dispatcher's bytes and returns that function's
     error;
   * instantiated with the functions GENERATED from Unified / Context / Normal of format.go
     (C14_*_is_source): Diff.Format(w, mdiff.Unified, fi) etc. write exactly
     diff_format d (ff_unified pinned) fi, and return nil.

   Each generated file has its own copy of the record FileInfo (same Go type, emitted per file);
   dfi / rfi map the copies of mdiff.go / reader.go to format.go's, field by field. *)
From Coq Require Import ZArith NArith List Bool Lia.
From Mds Require Import Mdiff.MdiffModel Mdiff.FormatModel Mdiff.ReaderModel Mdiff.FormatDispatch.
From Mds Require Import Common.FnRt Common.FnHeap Common.FnText GenTie.TieLib GenTie.MdiffFmtTieBase
  GenTie.MdiffFmtTieNormal GenTie.MdiffFmtTieUnified GenTie.MdiffFmtTieContext.
From Mds Require Gen.FnMdiffDispatch Gen.FnMdiffRead.
Import ListNotations.
Local Open Scope Z_scope.

Module D := FnMdiffDispatch.
Module R := FnMdiffRead.

Section Time.
Variable time : Type.
(* the copies of FileInfo *)
Definition dfi (f : D.FileInfo time) : G.FileInfo time :=
  G.mk_FileInfo (D.FileInfo_Left f) (D.FileInfo_Right f) (D.FileInfo_LeftTime f) (D.FileInfo_RightTime f) (D.FileInfo_TimeFormat f).
Definition rfi (f : R.FileInfo time) : G.FileInfo time :=
  G.mk_FileInfo (R.FileInfo_Left f) (R.FileInfo_Right f) (R.FileInfo_LeftTime f) (R.FileInfo_RightTime f) (R.FileInfo_TimeFormat f).
Definition dfienc (f : file_info time) : D.FileInfo time :=
  D.mk_FileInfo (zb (fi_left f)) (zb (fi_right f)) (fi_ltime f) (fi_rtime f) [].
Definition rfienc (f : file_info time) : R.FileInfo time :=
  R.mk_FileInfo (zb (fi_left f)) (zb (fi_right f)) (fi_ltime f) (fi_rtime f) [].
Lemma dfi_enc fi : option_map dfi (option_map dfienc fi) = option_map fienc fi.
Proof. destruct fi; reflexivity. Qed.
Lemma rfi_enc fi : option_map rfi (option_map rfienc fi) = option_map fienc fi.
Proof. destruct fi; reflexivity. Qed.
End Time.
Arguments dfi {time}. Arguments rfi {time}. Arguments dfienc {time}. Arguments rfienc {time}.

Section Sink.
Variable cnt : sink -> list Z -> Z.
Variable er : sink -> list Z -> go_xerr.
Notation W := (sink_write cnt er).
Variable time : Type.
Variable time_is_zero : time -> bool.
Variable format_time : time -> bytes.
Variable IsZero : time -> res bool.
Variable Format : time -> list Z -> res (list Z).
Hypothesis IsZero_ok : forall ts, IsZero ts = Ok (time_is_zero ts).
Hypothesis Format_ok : forall ts, Format ts default_time_format = Ok (zb (format_time ts)).

(* a generated-level FormatFunc gf (over format.go's FileInfo) implements the model formatter mf
   on the heap h: on every chunk list held in h it appends mf's bytes and answers e *)
Definition gff_ok (h : list G.Chunk) (fuel : nat)
  (gf : sink -> list (option nat) -> option (G.FileInfo time) -> res (go_xerr * sink))
  (mf : format_func time) (e : go_xerr) : Prop :=
  forall ads cs w fi, chunks_fuel fuel cs -> cells h ads cs ->
    gf w ads (option_map fienc fi) = Ok (e, w ++ zb (mf fi cs)).

(* ---- Diff.Format: return f(w, d.Chunks, fi) ---- *)
Theorem Diff_Format_is_source : forall h fuel gf mf e ads (d : diff line) w fi,
  gff_ok h fuel gf mf e ->
  chunks_fuel fuel (Chunks d) -> cells h ads (Chunks d) ->
  D.Diff_Format ads w (fun w ch fi => gf w ch (option_map dfi fi)) (option_map dfienc fi)
  = Ok (e, w ++ zb (diff_format d mf fi)).
Proof.
  intros h fuel gf mf e ads d w fi Hg Hf Hc. unfold D.Diff_Format, diff_format.
  rewrite dfi_enc. apply Hg; assumption.
Qed.

(* ---- Patch.Format: return f(w, p.Chunks, p.FileInfo) ---- *)
Theorem Patch_Format_is_source : forall h fuel gf mf e ads (p : patch time) w,
  gff_ok h fuel gf mf e ->
  chunks_fuel fuel (p_chunks p) -> cells h ads (p_chunks p) ->
  R.Patch_Format (option_map rfienc (p_info p)) ads w (fun w ch fi => gf w ch (option_map rfi fi))
  = Ok (e, w ++ zb (patch_format p mf)).
Proof.
  intros h fuel gf mf e ads p w Hg Hf Hc. unfold R.Patch_Format, patch_format.
  rewrite rfi_enc. apply Hg; assumption.
Qed.

(* ---- the three formatters of format.go are such functions ---- *)
Definition g_unified (h : list G.Chunk) (fuel : nat) :=
  fun (w : sink) ch (fi : option (G.FileInfo time)) => G.Unified w ch fi W IsZero Format h fuel.
Definition g_context (h : list G.Chunk) (fuel : nat) :=
  fun (w : sink) ch (fi : option (G.FileInfo time)) => G.Context w ch fi W IsZero Format h fuel.
(* Normal's third parameter is blank: the generated function does not take it *)
Definition g_normal (h : list G.Chunk) (fuel : nat) :=
  fun (w : sink) ch (_ : option (G.FileInfo time)) => G.Normal w ch W h fuel.

Lemma g_unified_ok h fuel : gff_ok h fuel (g_unified h fuel) (ff_unified time_is_zero format_time pinned) None.
Proof.
  intros ads cs w fi Hf Hc. unfold g_unified, ff_unified.
  apply (C14_Unified_is_source cnt er time time_is_zero format_time IsZero Format IsZero_ok Format_ok); assumption.
Qed.
Lemma g_context_ok h fuel : gff_ok h fuel (g_context h fuel) (ff_context time_is_zero format_time) None.
Proof.
  intros ads cs w fi Hf Hc. unfold g_context, ff_context.
  apply (C14_Context_is_source cnt er time time_is_zero format_time IsZero Format IsZero_ok Format_ok); assumption.
Qed.
Lemma g_normal_ok h fuel : gff_ok h fuel (g_normal h fuel) ff_normal None.
Proof.
  intros ads cs w fi Hf Hc. unfold g_normal, ff_normal.
  apply (C14_Normal_is_source cnt er); assumption.
Qed.

(* the formatters the package exports, by name *)
Inductive fmt_kind := FUnified | FContext | FNormal.
Definition g_of (k : fmt_kind) h fuel :=
  match k with FUnified => g_unified h fuel | FContext => g_context h fuel | FNormal => g_normal h fuel end.
Definition ff_of (k : fmt_kind) : format_func time :=
  match k with
  | FUnified => ff_unified time_is_zero format_time pinned
  | FContext => ff_context time_is_zero format_time
  | FNormal => ff_normal
  end.
Lemma g_of_ok k h fuel : gff_ok h fuel (g_of k h fuel) (ff_of k) None.
Proof. destruct k; [apply g_unified_ok|apply g_context_ok|apply g_normal_ok]. Qed.

Theorem Diff_Format_formatters_is_source : forall k h fuel ads (d : diff line) w fi,
  chunks_fuel fuel (Chunks d) -> cells h ads (Chunks d) ->
  D.Diff_Format ads w (fun w ch fi => g_of k h fuel w ch (option_map dfi fi)) (option_map dfienc fi)
  = Ok (None, w ++ zb (diff_format d (ff_of k) fi)).
Proof. intros. apply Diff_Format_is_source with (h := h) (fuel := fuel); [apply g_of_ok|assumption|assumption]. Qed.

Theorem Patch_Format_formatters_is_source : forall k h fuel ads (p : patch time) w,
  chunks_fuel fuel (p_chunks p) -> cells h ads (p_chunks p) ->
  R.Patch_Format (option_map rfienc (p_info p)) ads w (fun w ch fi => g_of k h fuel w ch (option_map rfi fi))
  = Ok (None, w ++ zb (patch_format p (ff_of k))).
Proof. intros. apply Patch_Format_is_source with (h := h) (fuel := fuel); [apply g_of_ok|assumption|assumption]. Qed.

End Sink.
