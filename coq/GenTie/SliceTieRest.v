(* Stripe and PtrAt of slice/slice.go: model = generated function (see SliceTieBase.v).

   Stripe ranges over a slice of slices that it only reads: the parameter is handed over by value
   (list (list T)), as in the model.  The model's loop is a structural recursion on the outer
   list; the generated loop counts r = 0 .. len(vs) and reads vs[r]: equal on the suffix
   skipn r vs.
   PtrAt returns a pointer to an element of its argument: what is tied is WHICH element (the
   index, option Z) and the nil decision -- the model's result type -- not the address; &ss[pos]
   checks the index like a read, on both sides. *)
From Coq Require Import ZArith List Bool Lia.
From Mds Require Import Common.FnRt GenTie.TieLib Gen.FnSlice Gen.SliceIdx GenTie.SliceTieBase.
From Mds Require Common.FnHeap.
Import ListNotations.
Local Open Scope Z_scope.

Section Elem.
Context {T : Type}.

Lemma go_get_suffix : forall (pre suf : list (list T)) v, go_get (pre ++ v :: suf) (zlen pre) = Ok v.
Proof.
  intros pre suf v. unfold go_get.
  assert (C : (0 <=? zlen pre) && (zlen pre <? zlen (pre ++ v :: suf)) = true).
  { apply andb_true_intro. split; [apply Z.leb_le|apply Z.ltb_lt]; unfold zlen; rewrite ?app_length; simpl; lia. }
  rewrite C. unfold zlen.
  rewrite Nat2Z.id. rewrite nth_error_app2 by lia. rewrite Nat.sub_diag. reflexivity.
Qed.

(* the loop from position |pre| on = the model's recursion on the rest *)
Lemma stripe_loop_eq : forall (suf pre : list (list T)) (i : Z) (out : list T) (fuel gas : nat),
  (gas > length suf)%nat ->
  bind (Stripe_loop1 fuel gas (pre ++ suf) i (zlen (pre ++ suf)) out (zlen pre)) (fun r => Ok (fst r))
  = emb (M.stripe_loop suf i out).
Proof.
  induction suf as [|v suf IH]; intros pre i out fuel gas Hg.
  - destruct gas; [simpl in Hg; lia|]. cbn [Stripe_loop1 M.stripe_loop]. rewrite app_nil_r.
    rewrite Z.ltb_irrefl. reflexivity.
  - destruct gas; [simpl in Hg; lia|]. cbn [Stripe_loop1 M.stripe_loop].
    assert (C : zlen pre <? zlen (pre ++ v :: suf) = true) by (apply Z.ltb_lt; unfold zlen; rewrite app_length; simpl; lia).
    rewrite C.
    rewrite go_get_suffix. cbn [bind]. unfold st_has, st_idx. change (M.zlen v) with (zlen v).
    replace (pre ++ v :: suf) with ((pre ++ [v]) ++ suf) by (rewrite <- app_assoc; reflexivity).
    replace (zlen pre + 1) with (zlen (pre ++ [v])) by (unfold zlen; rewrite app_length; simpl; lia).
    destruct (i <? zlen v).
    + rewrite get_eq. destruct (M.get v i) as [x| |]; cbn [emb bind M.bind]; try reflexivity.
      apply IH. simpl in Hg. lia.
    + cbn [bind]. apply IH. simpl in Hg. lia.
Qed.

Theorem C17_stripe_is_source : forall (vs : list (list T)) (i : Z) (fuel : nat),
  (fuel > length vs)%nat ->
  Stripe vs i fuel = emb (M.stripe vs i).
Proof.
  intros vs i fuel Hf. unfold Stripe, M.stripe.
  rewrite <- (stripe_loop_eq vs [] i [] fuel fuel Hf). cbn [app]. change (zlen (@nil (list T))) with 0.
  destruct (Stripe_loop1 fuel fuel vs i (zlen vs) [] 0) as [[o r]| |]; reflexivity.
Qed.

(* PtrAt: indexCheck, then the checked address &ss[pos] (its index), else nil *)
Theorem C17_ptrat_is_source : forall (l : list T) (i : Z),
  PtrAt l i = emb (M.ptr_at l i).
Proof.
  intros l i. unfold PtrAt, M.ptr_at, ptrat_arg_i, ptrat_arg_n, ptrat_good, ptrat_idx.
  rewrite C17_indexCheck_is_source. change (M.zlen l) with (zlen l).
  destruct (M.index_check i (zlen l)) as [pos ok]. cbn [fst snd].
  case_if; [|reflexivity].
  rewrite get_eq. destruct (M.get l pos); reflexivity.
Qed.

(* the heap backend of the translator has slice.PtrAt built in (FnHeap.go_ptrat, used for the
   element pointers of mdiff.UnifyChunks): it is the function generated from PtrAt (whose checked
   address never fails after a successful indexCheck) *)
Theorem C17_go_ptrat_is_source : forall (l : list T) (i : Z),
  PtrAt l i = Ok (FnHeap.go_ptrat l i).
Proof.
  intros l i. unfold PtrAt, FnHeap.go_ptrat.
  change (indexCheck i (zlen l)) with (FnHeap.go_index_check i (zlen l)).
  unfold FnHeap.go_index_check.
  set (b := if i <? 0 then i + zlen l else i).
  destruct ((b >=? 0) && (b <? zlen l)) eqn:E; [|reflexivity].
  apply andb_true_iff in E. destruct E as [E1 E2].
  apply Z.geb_le in E1. apply Z.ltb_lt in E2.
  unfold go_get.
  assert (C : (0 <=? b) && (b <? zlen l) = true).
  { apply andb_true_intro. split; [apply Z.leb_le|apply Z.ltb_lt]; lia. }
  rewrite C.
  destruct (nth_error l (Z.to_nat b)) eqn:N; [reflexivity|].
  apply nth_error_None in N. unfold zlen in E2. lia.
Qed.

End Elem.

Print Assumptions C17_go_ptrat_is_source.
Print Assumptions C17_stripe_is_source.
Print Assumptions C17_ptrat_is_source.
