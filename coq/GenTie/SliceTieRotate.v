(* gcd and Rotate of slice/slice.go: model = generated function (see SliceTieBase.v) *)
From Coq Require Import ZArith List Bool Lia ZifyBool.
From Mds Require Import Common.FnRt GenTie.TieLib Gen.FnSlice Gen.SliceIdx GenTie.SliceTieBase.
Import ListNotations.
Local Open Scope Z_scope.

(* ---------------------------------------------------------------- gcd *)
Lemma gcd_loop1_eq : forall gas f0 a b,
  bind (gcd_loop1 f0 gas a b) (fun '(a, b) => Ok a) = emb (M.gcd_loop gas a b).
Proof.
  induction gas; intros; simpl; [reflexivity|].
  unfold gcd_cond, gcd_a, gcd_b, gcd_ret, go_rem.
  case_if; simpl; [|reflexivity].
  case_if; simpl; [reflexivity|]. apply IHgas.
Qed.

Lemma gcd_loop1_mono : forall gas gas' f0 f0' a b, (gas <= gas')%nat ->
  res_le (gcd_loop1 f0 gas a b) (gcd_loop1 f0' gas' a b).
Proof.
  induction gas; intros; [apply res_le_oof|]. destruct gas'; [lia|]. simpl.
  mono. apply IHgas; lia.
Qed.

(* gcd at the model's loop fuel, exactly *)
Lemma gcd_eq fuel a b : gcd a b fuel = emb (M.gcd_loop fuel a b).
Proof. unfold gcd. apply gcd_loop1_eq. Qed.

Lemma gcd_mono fuel fuel' a b : (fuel <= fuel')%nat -> res_le (gcd a b fuel) (gcd a b fuel').
Proof. intros; unfold gcd. mono. apply gcd_loop1_mono; lia. Qed.

Theorem C17_gcd_is_source : forall a b fuel, (S (S (Z.to_nat (Z.abs b))) <= fuel)%nat ->
  res_le (emb (M.gcd_impl a b)) (gcd a b fuel).
Proof. intros. unfold M.gcd_impl. rewrite <- gcd_eq. apply gcd_mono; assumption. Qed.

(* ---------------------------------------------------------------- Rotate *)
Section Rotate.
Context {T : Type}.

(* the inner for {} of Rotate is the model's [cycle], at equal fuel *)
Lemma rotate_loop2_eq : forall gas f0 (l : list T) k j i cur,
  bind (Rotate_loop2 f0 gas k j l i cur) (fun '(ss, _, _) => Ok ss) = emb (M.cycle gas l k j i cur).
Proof.
  induction gas; intros; simpl; [reflexivity|].
  unfold rot_inner_cond, rot_next, rot_read_idx, rot_write_idx, rot_break, rot_i_step, go_rem.
  change (M.zlen l) with (zlen l).
  destruct (zlen l =? 0); simpl; [reflexivity|].
  rewrite get_eq. destruct (M.get l (Z.rem (i + k) (zlen l))); simpl; try reflexivity.
  rewrite set_eq. destruct (M.set l (Z.rem (i + k) (zlen l)) cur); simpl; try reflexivity.
  case_if; simpl; [reflexivity|].
  apply IHgas.
Qed.

Lemma rotate_loop2_mono : forall gas gas' f0 f0' (l : list T) k j i cur, (gas <= gas')%nat ->
  res_le (Rotate_loop2 f0 gas k j l i cur) (Rotate_loop2 f0' gas' k j l i cur).
Proof.
  induction gas; intros; [apply res_le_oof|]. destruct gas'; [lia|]. simpl.
  mono. apply IHgas; lia.
Qed.

Lemma rotate_loop2_length : forall gas f0 (l : list T) k j i cur l' i' cur',
  Rotate_loop2 f0 gas k j l i cur = Ok (l', i', cur') -> length l' = length l.
Proof.
  induction gas; intros until cur'; simpl; [discriminate|].
  destruct (go_rem (i + k) (zlen l)) as [nx| |]; simpl; try discriminate.
  destruct (go_get l nx) as [nv| |]; simpl; try discriminate.
  destruct (go_set l nx cur) as [l1| |] eqn:E; simpl; try discriminate.
  apply go_set_length in E.
  destruct (nx =? j).
  - intros H; inversion H; subst; exact E.
  - intros H. apply IHgas in H. congruence.
Qed.

(* for j := range g { ... }: the model's [cycles], which counts the iterations down *)
Lemma rotate_loop1_le : forall count gas f0 (l : list T) k j lim,
  count = Z.to_nat (lim - j) -> (count < gas)%nat -> (S (length l) <= f0)%nat ->
  res_le (emb (M.cycles count l k j))
         (bind (Rotate_loop1 f0 gas k lim l j) (fun '(ss, _) => Ok ss)).
Proof.
  induction count; intros gas f0 l k j lim Hc Hg Hf; (destruct gas; [lia|]); cbn [M.cycles Rotate_loop1].
  - replace (j <? lim) with false by lia. apply res_le_refl.
  - replace (j <? lim) with true by lia.
    unfold rot_cur0_idx, rot_i0. rewrite get_eq.
    destruct (M.get l j) as [cur| |]; cbn [emb bind M.bind]; try apply res_le_refl.
    rewrite emb_bind, <- (rotate_loop2_eq (S (length l)) f0), !bind_assoc.
    apply bind_le; [apply rotate_loop2_mono; lia|].
    intros [[l' i'] cur'] E; simpl.
    apply rotate_loop2_length in E.
    apply IHcount; [lia|lia|rewrite E; exact Hf].
Qed.

Lemma gcd_loop_bound : forall fuel a b g, 0 <= a -> 0 <= b ->
  M.gcd_loop fuel a b = M.Ok g -> 0 <= g <= Z.max a b.
Proof.
  induction fuel; intros a b g Ha Hb; simpl; [discriminate|].
  unfold gcd_cond, gcd_a, gcd_b, gcd_ret.
  destruct (b =? 0) eqn:E; simpl.
  - intros H; inversion H; subst; lia.
  - intros H. apply IHfuel in H; try lia.
    + assert (0 <= Z.rem a b < b) by (apply Z.rem_bound_pos; lia). lia.
    + apply Z.rem_nonneg; lia.
Qed.

Theorem C17_rotate_is_source : forall (l : list T) (k : Z) (fuel : nat),
  (length l + 3 <= fuel)%nat ->
  res_le (emb (M.rotate_impl l k)) (Rotate l k fuel).
Proof.
  intros l k fuel Hf. unfold Rotate, M.rotate_impl. cbv zeta.
  unfold rot_arg_k, rot_arg_n, rot_bad, rot_noop, rot_gcd_a, rot_gcd_b, rot_ncycles, rot_g.
  change (@M.zlen T) with (@zlen T).
  change (sliceCheck k (zlen l)) with (M.slice_check k (zlen l)).
  destruct (M.slice_check k (zlen l)) as [k' ok] eqn:Esc; simpl.
  destruct ok; simpl; [|apply res_le_refl].
  case_if; simpl; [apply res_le_refl|].
  assert (Hk : 0 <= k' <= zlen l).
  { revert Esc. unfold M.slice_check, sc_neg, sc_adj, sc_pos, sc_ok.
    destruct (k <? 0); intros H; inversion H; subst; lia. }
  rewrite emb_bind.
  apply bind_le.
  - apply C17_gcd_is_source. unfold zlen. lia.
  - intros g Eg.
    assert (Hg : 0 <= g <= zlen l).
    { unfold gcd in Eg.
      pose proof (gcd_loop1_eq fuel fuel k' (zlen l)) as G. 
      destruct (M.gcd_loop fuel k' (zlen l)) as [g'| |] eqn:E'; simpl in G;
        destruct (gcd_loop1 fuel fuel k' (zlen l)) as [[a b]| |]; simpl in *; try discriminate.
      inversion Eg; inversion G; subst.
      apply gcd_loop_bound in E'; lia. }
    apply rotate_loop1_le; unfold zlen in *; lia.
Qed.

(* the model never answers OutOfFuel on Rotate's loops when the generated function does not *)
End Rotate.


Print Assumptions C17_gcd_is_source.
Print Assumptions C17_rotate_is_source.
