(* C07 at source level: a state machine whose operations CALL THE FUNCTIONS GENERATED from
   queue/queue.go (Gen/FnQueue.v), composed over the function generated from slice/slice.go
   (Gen/FnSlice.Rotate), refines the plain-list reference over whole histories.

   The per-function ties (GenTie/QueueTie*.v) say: model function = generated function.  Here they
   are lifted to histories and composed with the model-level theorems of Props/C07.v.

   [gstep R] : the model's state (the three fields vs, head, n), the model's op and out types.
     OAdd v c, OPush v c  -> FnQueue.Add / Push, with
         slice_Rotate := R         (two instances below)
         append_      := app_or zero c   (the capacity oracle as in QueueTieBase.v: the runtime's
                         reported cap(w) = c; c <= len is the distinguished "bad oracle" result)
     OPop, OPopLast, OPeek k, OFront, OLen, OIsEmpty, OClear -> the generated function of that name
     OEach m, OSlice      -> [not_translated] (a distinguished result).  Slice is outside the
         translator's subset.  The generated Each takes a PURE callback and returns unit, so the
         recording callback of the model's OEach cannot be run through it: Each is stated
         separately, for every pure callback, in every state a history leads to ([each_peek_source]).
   Constructors: New and NewSize are not translated.  Histories start from a state [q0] the
   model's constructor [mk_init i] gives (IZero = the zero value, the only one that needs no
   constructor: [history_source]).

   Two instances of slice.Rotate:
     [rot]      the model's rotate_go (what the ties of Add/Push are stated with): [gstep rot] EQUALS
                the model's step, whatever its verdict ([gstep_is_step]);
     [rot_src]  the function generated from slice.Rotate with fuel len + 3 (the bound of
                C17_rotate_is_source): whenever the model's step answers QOk, [gstep rot_src]
                answers the same ([gstep_src_ok]).  The history theorems are for this one: nothing
                of the model is left in [gstep rot_src] but the state record and the oracle. *)
From Coq Require Import ZArith List Bool Lia.
From Mds Require Import Common.FnRt GenTie.TieLib Gen.FnQueue GenTie.QueueTieBase.
From Mds Require Import GenTie.QueueTieAdd GenTie.QueueTiePush GenTie.QueueTiePop GenTie.QueueTiePopLast
  GenTie.QueueTiePeek GenTie.QueueTieObs.
From Mds Require Gen.FnSlice GenTie.SliceTieBase GenTie.SliceTieRotate.
From Mds Require Queue.QueueSpec Props.C07.
Import ListNotations.
Local Open Scope Z_scope.

Module QS := QueueSpec.

Section Src.
Context {T : Type}.
Variable zero : T.
Notation queue := (Q.queue T).
Notation vs := (@Q.vs T).
Notation head := (@Q.head T).
Notation qn := (@Q.n T).

Definition mkq (r : list T * Z * Z) : queue :=
  let '(l, h, k) := r in {| Q.vs := l; Q.head := h; Q.n := k |}.

Lemma mkq_fields (q : queue) : mkq (fields q) = q.
Proof. destruct q; reflexivity. Qed.

(* the operations whose Go function is called by gstep *)
Definition src_op (o : Q.op T) : bool :=
  match o with Q.OEach _ | Q.OSlice => false | _ => true end.

Definition not_translated {A : Type} : res A := Panic (PMsg "not translated").

(* slice.Rotate generated from slice/slice.go, with the fuel of its tie *)
Definition rot_src (l : list T) (k : Z) : res (list T) := FnSlice.Rotate l k (length l + 3).

Section Step.
Variable R : list T -> Z -> res (list T).

Definition gstep (q : queue) (o : Q.op T) : res (queue * Q.out T) :=
  match o with
  | Q.OAdd v c => do r <- Add (vs q) (head q) (qn q) v R (app_or zero c); Ok (mkq r, Q.RUnit)
  | Q.OPush v c => do r <- Push (vs q) (head q) (qn q) v R (app_or zero c); Ok (mkq r, Q.RUnit)
  | Q.OPop => do r <- Pop (vs q) (head q) (qn q) zero;
              let '(x, ok, h, k) := r in Ok (mkq (vs q, h, k), Q.RVal x ok)
  | Q.OPopLast => do r <- PopLast (vs q) (head q) (qn q) zero;
              let '(x, ok, h, k) := r in Ok (mkq (vs q, h, k), Q.RVal x ok)
  | Q.OClear => Ok (mkq (Clear (vs q) (head q) (qn q)), Q.RUnit)
  | Q.OLen => Ok (q, Q.RInt (Len (qn q)))
  | Q.OIsEmpty => Ok (q, Q.RBool (IsEmpty (qn q)))
  | Q.OFront => do v <- Front (vs q) (head q) (qn q) zero; Ok (q, Q.RElem v)
  | Q.OPeek k => do r <- Peek (vs q) (head q) (qn q) k zero; let '(v, ok) := r in Ok (q, Q.RVal v ok)
  | Q.OEach _ | Q.OSlice => not_translated
  end.

(* outputs of a history; stops at the first result that is not Ok (as the model's run) *)
Fixpoint grun (q : queue) (ops : list (Q.op T)) : list (res (Q.out T)) :=
  match ops with
  | [] => []
  | o :: rest =>
    match gstep q o with
    | Ok (q', r) => Ok r :: grun q' rest
    | Panic k => [Panic k]
    | OutOfFuel => [OutOfFuel]
    end
  end.

(* the state a history leads to *)
Fixpoint gexec (q : queue) (ops : list (Q.op T)) : res queue :=
  match ops with
  | [] => Ok q
  | o :: rest => do r <- gstep q o; gexec (fst r) rest
  end.
End Step.

(* ---- one step, model's Rotate: equality with the model's step, op by op from the ties ---- *)
Theorem gstep_is_step : forall (q : queue) (o : Q.op T), src_op o = true ->
  gstep rot q o = embf (fun x => x) (Q.step Q.idw T zero q o).
Proof.
  intros q o Ho. destruct o; try discriminate Ho; cbn [gstep Q.step].
  - rewrite (C07_add_is_source zero). destruct (Q.add Q.idw T zero q v c) as [q'| | |]; cbn [embf bind Q.bind]; try reflexivity.
    rewrite mkq_fields. reflexivity.
  - rewrite (C07_push_is_source zero). destruct (Q.push Q.idw T zero q v c) as [q'| | |]; cbn [embf bind Q.bind]; try reflexivity.
    rewrite mkq_fields. reflexivity.
  - rewrite (C07_pop_is_source zero).
    assert (K : forall q' x, Q.pop Q.idw T zero q = Q.QOk (q', x) -> vs q' = vs q).
    { intros q' x. destruct q as [l h n]. unfold Q.pop. cbn [Q.vs Q.head Q.n].
      destruct (Gen.QueueIdx.pop_empty n); [intros H; inversion H; reflexivity|].
      destruct (Q.idx T l (Gen.QueueIdx.pop_idx h)); cbn [Q.of_opt Q.bind]; [|discriminate].
      match goal with |- context[Q.bind ?m _] => destruct m end; cbn [Q.bind]; try discriminate.
      intros H; inversion H; reflexivity. }
    destruct (Q.pop Q.idw T zero q) as [[q' [x ok]]| | |] eqn:E; cbn [embf bind Q.bind]; try reflexivity.
    rewrite <- (K _ _ eq_refl). destruct q'; reflexivity.
  - rewrite (C07_poplast_is_source zero).
    assert (K : forall q' x, Q.pop_last Q.idw T zero q = Q.QOk (q', x) -> vs q' = vs q).
    { intros q' x. destruct q as [l h n]. unfold Q.pop_last. cbn [Q.vs Q.head Q.n].
      destruct (Gen.QueueIdx.poplast_empty n); [intros H; inversion H; reflexivity|]. cbv zeta.
      match goal with |- context[Q.of_opt ?m _] => destruct m end; cbn [Q.of_opt Q.bind]; [|discriminate].
      intros H; inversion H; reflexivity. }
    destruct (Q.pop_last Q.idw T zero q) as [[q' [x ok]]| | |] eqn:E; cbn [embf bind Q.bind]; try reflexivity.
    rewrite <- (K _ _ eq_refl). destruct q'; reflexivity.
  - rewrite C07_clear_is_source, mkq_fields. reflexivity.
  - rewrite C07_len_is_source. reflexivity.
  - rewrite C07_isempty_is_source. reflexivity.
  - rewrite (C07_front_is_source zero). destruct (Q.front T zero q); reflexivity.
  - rewrite (C07_peek_is_source zero). destruct (Q.peek Q.idw T zero q k) as [[v ok]| | |]; reflexivity.
Qed.

(* ---- one step, generated Rotate ---- *)
Lemma rot_src_ok (l : list T) (k : Z) (r : list T) : rot l k = Ok r -> rot_src l k = Ok r.
Proof.
  unfold rot, rot_src, Q.rotate_go. intros H.
  pose proof (SliceTieRotate.C17_rotate_is_source l k (length l + 3) (le_n _)) as L.
  destruct (Slice.SliceUtilModel.rotate_impl l k) as [r'|p|] eqn:E.
  - cbn in H. inversion H; subst r'. cbn in L. destruct L as [L|L]; [discriminate|]. symmetry; exact L.
  - destruct p; discriminate H.
  - discriminate H.
Qed.

Section TwoRotates.
Variables R1 R2 : list T -> Z -> res (list T).
Hypothesis R12 : forall l k r, R1 l k = Ok r -> R2 l k = Ok r.

Lemma add_ok12 l h n v ap x : Add l h n v R1 ap = Ok x -> Add l h n v R2 ap = Ok x.
Proof.
  unfold Add. destruct (n <? zlen l); [auto|].
  destruct (h >? 0); [|auto].
  destruct (R1 l (- h)) as [r| |] eqn:E; cbn [bind]; try discriminate.
  rewrite (R12 _ _ _ E). cbn [bind]. auto.
Qed.

Lemma push_ok12 l h n v ap x : Push l h n v R1 ap = Ok x -> Push l h n v R2 ap = Ok x.
Proof.
  unfold Push. destruct (n <? zlen l); [auto|].
  destruct (h >? 0); [|auto].
  destruct (R1 l (- h)) as [r| |] eqn:E; cbn [bind]; try discriminate.
  rewrite (R12 _ _ _ E). cbn [bind]. auto.
Qed.

Lemma gstep_ok12 q o x : gstep R1 q o = Ok x -> gstep R2 q o = Ok x.
Proof.
  destruct o; cbn [gstep]; auto.
  - destruct (Add (vs q) (head q) (qn q) v R1 (app_or zero c)) as [r| |] eqn:E; cbn [bind]; try discriminate.
    rewrite (add_ok12 _ _ _ _ _ _ E). auto.
  - destruct (Push (vs q) (head q) (qn q) v R1 (app_or zero c)) as [r| |] eqn:E; cbn [bind]; try discriminate.
    rewrite (push_ok12 _ _ _ _ _ _ E). auto.
Qed.
End TwoRotates.

Theorem gstep_src_ok : forall (q : queue) (o : Q.op T) (x : queue * Q.out T), src_op o = true ->
  Q.step Q.idw T zero q o = Q.QOk x -> gstep rot_src q o = Ok x.
Proof.
  intros q o x Ho H. apply (gstep_ok12 rot rot_src rot_src_ok).
  rewrite (gstep_is_step q o Ho), H. reflexivity.
Qed.

(* ---- whole histories ---- *)
Theorem grun_is_run : forall (ops : list (Q.op T)) (q : queue), forallb src_op ops = true ->
  grun rot q ops = map (embf (fun x => x)) (Q.run Q.idw T zero q ops).
Proof.
  induction ops as [|o rest IH]; intros q Hs; [reflexivity|].
  cbn [forallb] in Hs. apply andb_prop in Hs. destruct Hs as [Ho Hr].
  cbn [grun Q.run]. rewrite (gstep_is_step q o Ho).
  destruct (Q.step Q.idw T zero q o) as [[q' r]| | |]; cbn [embf bind Q.bind]; try reflexivity.
  rewrite (IH q' Hr). reflexivity.
Qed.

Theorem grun_src_ok : forall (ops : list (Q.op T)) (q : queue) (outs : list (Q.out T)),
  forallb src_op ops = true ->
  Q.run Q.idw T zero q ops = map Q.QOk outs -> grun rot_src q ops = map Ok outs.
Proof.
  induction ops as [|o rest IH]; intros q outs Hs H.
  - destruct outs; [reflexivity|discriminate H].
  - cbn [forallb] in Hs. apply andb_prop in Hs. destruct Hs as [Ho Hr].
    cbn [grun Q.run] in *.
    destruct (Q.step Q.idw T zero q o) as [[q' r]| | |] eqn:E;
      (destruct outs as [|r0 outs]; [discriminate H|]); cbn [map] in H; try discriminate H.
    inversion H; subst r0. rewrite (gstep_src_ok q o _ Ho E).
    cbn [map]. f_equal. apply IH; assumption.
Qed.

Theorem gexec_src_ok : forall (ops : list (Q.op T)) (q q' : queue),
  forallb src_op ops = true ->
  Q.exec Q.idw T zero q ops = Q.QOk q' -> gexec rot_src q ops = Ok q'.
Proof.
  induction ops as [|o rest IH]; intros q q' Hs H.
  - cbn in *. inversion H; reflexivity.
  - cbn [forallb] in Hs. apply andb_prop in Hs. destruct Hs as [Ho Hr].
    cbn [gexec Q.exec] in *.
    destruct (Q.step Q.idw T zero q o) as [[q1 r]| | |] eqn:E; cbn [Q.bind] in H; try discriminate H.
    rewrite (gstep_src_ok q o _ Ho E). cbn [bind fst]. apply IH; assumption.
Qed.

(* ---- composition with Props/C07.v ---- *)
Theorem history_source_init : forall (i : Q.init) (q0 : queue) (ops : list (Q.op T)),
  QS.init_ok i -> Q.mk_init T zero i = Q.QOk q0 ->
  forallb src_op ops = true -> QS.oracles_ok T (QS.init_cap i) 0 ops ->
  grun rot_src q0 ops = map Ok (QS.spec_run T zero [] ops).
Proof.
  intros i q0 ops Hi Hq Hs Hor. apply grun_src_ok; [exact Hs|].
  pose proof (C07.C07_history T zero i ops Hi Hor) as H.
  unfold Q.run_init in H. rewrite Hq in H. exact H.
Qed.

Theorem history_source : forall (ops : list (Q.op T)),
  forallb src_op ops = true -> QS.oracles_ok T 0 0 ops ->
  grun rot_src (Q.zero_queue T) ops = map Ok (QS.spec_run T zero [] ops).
Proof.
  intros ops Hs Hor. exact (history_source_init Q.IZero _ ops I eq_refl Hs Hor).
Qed.

(* Each (every pure callback) and Peek (every offset) in every state a history leads to *)
Theorem each_peek_source : forall (i : Q.init) (q0 : queue) (ops : list (Q.op T)),
  QS.init_ok i -> Q.mk_init T zero i = Q.QOk q0 ->
  forallb src_op ops = true -> QS.oracles_ok T (QS.init_cap i) 0 ops ->
  exists q, gexec rot_src q0 ops = Ok q /\
    (forall (f : T -> bool) (fuel : nat), (Z.to_nat (qn q) < fuel)%nat ->
       Each (vs q) (head q) (qn q) f fuel = Ok tt) /\
    (forall k, Peek (vs q) (head q) (qn q) k zero = Ok (QS.spec_peek T zero (QS.spec_exec T zero [] ops) k)).
Proof.
  intros i q0 ops Hi Hq Hs Hor.
  destruct (C07.C07_each_peek_any T zero i ops unit (fun _ _ => (tt, true)) tt Hi Hor) as (q & He & _ & Hp).
  exists q. split; [|split].
  - apply gexec_src_ok; [exact Hs|]. unfold Q.exec_init in He. rewrite Hq in He. exact He.
  - intros f fuel Hf. rewrite (C07_each_is_source f q fuel Hf).
    destruct (C07.C07_each_peek_any T zero i ops unit (pure_cb f) tt Hi Hor) as (q2 & He2 & Hea & _).
    rewrite He in He2. inversion He2; subst q2. rewrite Hea. cbn.
    destruct (QS.spec_each T (pure_cb f) (QS.spec_exec T zero [] ops) tt). reflexivity.
  - intros k. rewrite (C07_peek_is_source zero), Hp. reflexivity.
Qed.

End Src.
