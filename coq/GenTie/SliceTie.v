(* The hand-written model of slice/slice.go (Slice/SliceUtilModel.v) equals the functions
   generated from the Go source (Gen/FnSlice.v, regenerated on every run).

   The two sides use their own result types; [emb] maps the model's into FnRt's (run-time panics
   onto run-time panics, the documented panics onto the message of the panic statement).  Generated
   functions take one fuel argument used by all their loops, the model chooses a fuel per loop:
   the statements say that, given at least as much fuel as the model uses, the generated function
   returns the model's result whenever that is not OutOfFuel ([res_le]). *)
From Coq Require Import ZArith List Bool Lia.
From Mds Require Import Common.FnRt GenTie.TieLib Gen.FnSlice Gen.SliceIdx.
From Mds Require Slice.SliceUtilModel.
Import ListNotations.
Local Open Scope Z_scope.

Module M := SliceUtilModel.

Definition emb_panic (p : M.panic) : panic_kind :=
  match p with
  | M.PRtIndex => PIndex
  | M.PRtSlice => PSlice
  | M.PRtDiv => PDiv
  | M.PRtMake => PMake
  | M.PDocIndex => PMsg "index out of range"
  | M.PDocOffset => PMsg "offset out of range"
  | M.PDocMax => PMsg "max must be positive"
  | M.PDocN => PMsg "n out of range"
  end.

Definition emb {A : Type} (r : M.res A) : res A :=
  match r with
  | M.Ok a => Ok a
  | M.Panic p => Panic (emb_panic p)
  | M.OutOfFuel => OutOfFuel
  end.

Definition embf {A B : Type} (f : A -> B) (r : M.res A) : res B :=
  match r with
  | M.Ok a => Ok (f a)
  | M.Panic p => Panic (emb_panic p)
  | M.OutOfFuel => OutOfFuel
  end.

Definition vw (v : M.view) : view := mkView (M.voff v) (M.vlen v) (M.vcap v).

Lemma emb_bind {A B} (m : M.res A) (k : A -> M.res B) :
  emb (M.bind m k) = bind (emb m) (fun a => emb (k a)).
Proof. destruct m; reflexivity. Qed.

Lemma embf_bind {A B C} (f : B -> C) (m : M.res A) (k : A -> M.res B) :
  embf f (M.bind m k) = bind (emb m) (fun a => embf f (k a)).
Proof. destruct m; reflexivity. Qed.

Lemma zlen_eq {A} (l : list A) : zlen l = M.zlen l.
Proof. reflexivity. Qed.

Lemma upd_eq {A} (l : list A) n x : upd l n x = M.upd l n x.
Proof. revert n; induction l; destruct n; simpl; f_equal; auto. Qed.

Lemma get_eq {A} (l : list A) i : go_get l i = emb (M.get l i).
Proof.
  unfold go_get, M.get. change (M.zlen l) with (zlen l).
  destruct ((0 <=? i) && (i <? zlen l)); [destruct (nth_error l (Z.to_nat i))|]; reflexivity.
Qed.

Lemma set_eq {A} (l : list A) i x : go_set l i x = emb (M.set l i x).
Proof.
  unfold go_set, M.set. change (M.zlen l) with (zlen l).
  destruct ((0 <=? i) && (i <? zlen l)); simpl; [rewrite upd_eq|]; reflexivity.
Qed.

Lemma slice3_eq v lo hi mx : go_slice3 (vw v) lo hi mx = embf vw (M.slice3 v lo hi mx).
Proof.
  unfold go_slice3, M.slice3, vw; simpl.
  destruct ((0 <=? lo) && (lo <=? hi) && (hi <=? mx) && (mx <=? M.vcap v)); reflexivity.
Qed.

(* ---------------------------------------------------------------- sliceCheck / indexCheck *)
Lemma C17_sliceCheck_is_source i n : sliceCheck i n = M.slice_check i n.
Proof. reflexivity. Qed.

Lemma C17_indexCheck_is_source i n : indexCheck i n = M.index_check i n.
Proof. reflexivity. Qed.

(* ---------------------------------------------------------------- gcd *)
Lemma gcd_loop1_eq : forall gas f0 a b,
  bind (gcd_loop1 f0 gas a b) (fun '(a, b) => Ok a) = emb (M.gcd_loop gas a b).
Proof.
  induction gas; intros; simpl; [reflexivity|].
  unfold gcd_cond, go_rem. destruct (b =? 0); simpl; [reflexivity|].
  apply IHgas.
Qed.

Lemma gcd_loop1_mono : forall gas gas' f0 f0' a b, (gas <= gas')%nat ->
  res_le (gcd_loop1 f0 gas a b) (gcd_loop1 f0' gas' a b).
Proof.
  induction gas; intros; [apply res_le_oof|]. destruct gas'; [lia|]. simpl.
  mono. apply IHgas; lia.
Qed.

(* gcd at the model's loop fuel, exactly *)
Lemma gcd_eq fuel a b : gcd a b fuel = emb (M.gcd_loop fuel a b).
Proof. unfold gcd. apply gcd_loop1_eq. Qed.

Lemma gcd_mono fuel fuel' a b : (fuel <= fuel')%nat -> res_le (gcd a b fuel) (gcd a b fuel').
Proof. intros; unfold gcd. mono. apply gcd_loop1_mono; lia. Qed.

Theorem C17_gcd_is_source : forall a b fuel, (S (S (Z.to_nat (Z.abs b))) <= fuel)%nat ->
  res_le (emb (M.gcd_impl a b)) (gcd a b fuel).
Proof. intros. unfold M.gcd_impl. rewrite <- gcd_eq. apply gcd_mono; assumption. Qed.

(* ---------------------------------------------------------------- Rotate *)
Section Rotate.
Context {T : Type}.

(* the inner for {} of Rotate is the model's [cycle], at equal fuel *)
Lemma rotate_loop2_eq : forall gas f0 (l : list T) k j i cur,
  bind (Rotate_loop2 f0 gas k j l i cur) (fun '(ss, _, _) => Ok ss) = emb (M.cycle gas l k j i cur).
Proof.
  induction gas; intros; simpl; [reflexivity|].
  unfold rot_inner_cond, rot_next, rot_read_idx, rot_write_idx, rot_break, rot_i_step, go_rem.
  change (M.zlen l) with (zlen l).
  destruct (zlen l =? 0); simpl; [reflexivity|].
  rewrite get_eq. destruct (M.get l (Z.rem (i + k) (zlen l))); simpl; try reflexivity.
  rewrite set_eq. destruct (M.set l (Z.rem (i + k) (zlen l)) cur); simpl; try reflexivity.
  destruct (Z.rem (i + k) (zlen l) =? j); simpl; [reflexivity|].
  apply IHgas.
Qed.

Lemma rotate_loop2_mono : forall gas gas' f0 f0' (l : list T) k j i cur, (gas <= gas')%nat ->
  res_le (Rotate_loop2 f0 gas k j l i cur) (Rotate_loop2 f0' gas' k j l i cur).
Proof.
  induction gas; intros; [apply res_le_oof|]. destruct gas'; [lia|]. simpl.
  mono. apply IHgas; lia.
Qed.

Lemma rotate_loop2_length : forall gas f0 (l : list T) k j i cur l' i' cur',
  Rotate_loop2 f0 gas k j l i cur = Ok (l', i', cur') -> length l' = length l.
Proof.
  induction gas; intros until cur'; simpl; [discriminate|].
  destruct (go_rem (i + k) (zlen l)) as [nx| |]; simpl; try discriminate.
  destruct (go_get l nx) as [nv| |]; simpl; try discriminate.
  destruct (go_set l nx cur) as [l1| |] eqn:E; simpl; try discriminate.
  apply go_set_length in E.
  destruct (nx =? j).
  - intros H; inversion H; subst; exact E.
  - intros H. apply IHgas in H. congruence.
Qed.

(* for j := range g { ... }: the model's [cycles], which counts the iterations down *)
Lemma rotate_loop1_le : forall count gas f0 (l : list T) k j lim,
  count = Z.to_nat (lim - j) -> (count < gas)%nat -> (S (length l) <= f0)%nat ->
  res_le (emb (M.cycles count l k j))
         (bind (Rotate_loop1 f0 gas k lim l j) (fun '(ss, _) => Ok ss)).
Proof.
  induction count; intros gas f0 l k j lim Hc Hg Hf; (destruct gas; [lia|]); cbn [M.cycles Rotate_loop1].
  - replace (j <? lim) with false by lia. apply res_le_refl.
  - replace (j <? lim) with true by lia.
    unfold rot_cur0_idx, rot_i0. rewrite get_eq.
    destruct (M.get l j) as [cur| |]; cbn [emb bind M.bind]; try apply res_le_refl.
    rewrite emb_bind, <- (rotate_loop2_eq (S (length l)) f0), !bind_assoc.
    apply bind_le; [apply rotate_loop2_mono; lia|].
    intros [[l' i'] cur'] E; simpl.
    apply rotate_loop2_length in E.
    apply IHcount; [lia|lia|rewrite E; exact Hf].
Qed.

Lemma gcd_loop_bound : forall fuel a b g, 0 <= a -> 0 <= b ->
  M.gcd_loop fuel a b = M.Ok g -> 0 <= g <= Z.max a b.
Proof.
  induction fuel; intros a b g Ha Hb; simpl; [discriminate|].
  unfold gcd_cond, gcd_a, gcd_b, gcd_ret.
  destruct (b =? 0) eqn:E; simpl.
  - intros H; inversion H; subst; lia.
  - intros H. apply IHfuel in H; try lia.
    + assert (0 <= Z.rem a b < b) by (apply Z.rem_bound_pos; lia). lia.
    + apply Z.rem_nonneg; lia.
Qed.

Theorem C17_rotate_is_source : forall (l : list T) (k : Z) (fuel : nat),
  (length l + 3 <= fuel)%nat ->
  res_le (emb (M.rotate_impl l k)) (Rotate l k fuel).
Proof.
  intros l k fuel Hf. unfold Rotate, M.rotate_impl. cbv zeta.
  unfold rot_arg_k, rot_arg_n, rot_bad, rot_noop, rot_gcd_a, rot_gcd_b, rot_ncycles, rot_g.
  change (@M.zlen T) with (@zlen T).
  change (sliceCheck k (zlen l)) with (M.slice_check k (zlen l)).
  destruct (M.slice_check k (zlen l)) as [k' ok] eqn:Esc; simpl.
  destruct ok; simpl; [|apply res_le_refl].
  destruct ((k' =? 0) || (k' =? zlen l)) eqn:En; simpl; [apply res_le_refl|].
  assert (Hk : 0 <= k' <= zlen l).
  { revert Esc. unfold M.slice_check, sc_neg, sc_adj, sc_pos, sc_ok.
    destruct (k <? 0); intros H; inversion H; subst; lia. }
  rewrite emb_bind.
  apply bind_le.
  - apply C17_gcd_is_source. unfold zlen. lia.
  - intros g Eg.
    assert (Hg : 0 <= g <= zlen l).
    { unfold gcd in Eg.
      pose proof (gcd_loop1_eq fuel fuel k' (zlen l)) as G. 
      destruct (M.gcd_loop fuel k' (zlen l)) as [g'| |] eqn:E'; simpl in G;
        destruct (gcd_loop1 fuel fuel k' (zlen l)) as [[a b]| |]; simpl in *; try discriminate.
      inversion Eg; inversion G; subst.
      apply gcd_loop_bound in E'; lia. }
    apply rotate_loop1_le; unfold zlen in *; lia.
Qed.

(* the model never answers OutOfFuel on Rotate's loops when the generated function does not *)
End Rotate.

(* ---------------------------------------------------------------- Chunks / Batches
   The model's views and FnRt's views are the same triples ([vw]). *)
Lemma chunks_loop1_eq : forall gas f0 v n out i,
  bind (Chunks_loop1 f0 gas (vw v) n (map vw out) i) (fun '(o, _) => Ok o)
  = embf (map vw) (M.chunks_loop gas v n i out).
Proof.
  induction gas; intros; simpl; [reflexivity|].
  unfold ch_loop, ch_end, ch_lo, ch_hi, ch_max, ch_i_next.
  destruct (i <? M.vlen v); simpl; [|reflexivity].
  rewrite slice3_eq.
  destruct (M.slice3 v i (Z.min (i + n) (M.vlen v)) (Z.min (i + n) (M.vlen v))) as [c| |];
    simpl; try reflexivity.
  rewrite <- IHgas with (f0 := f0). rewrite map_app. reflexivity.
Qed.

Lemma chunks_loop1_mono : forall gas gas' f0 f0' v n out i, (gas <= gas')%nat ->
  res_le (Chunks_loop1 f0 gas v n out i) (Chunks_loop1 f0' gas' v n out i).
Proof.
  induction gas; intros; [apply res_le_oof|]. destruct gas'; [lia|]. simpl.
  mono. apply IHgas; lia.
Qed.

Theorem C17_chunks_is_source : forall (v : M.view) (n : Z) (fuel : nat),
  (S (Z.to_nat (M.vlen v)) <= fuel)%nat ->
  res_le (embf (map vw) (M.chunks v n)) (Chunks (vw v) n fuel).
Proof.
  intros v n fuel Hf. unfold Chunks, M.chunks. cbv zeta.
  unfold ch_neg, ch_single, ch_hint, ch_i0, go_quot, go_make_check. simpl vlen.
  destruct (n <? 0); cbn [bind embf andb]; [apply res_le_refl|].
  destruct ((n =? 0) || (n >=? M.vlen v)); cbn [bind embf andb]; [apply res_le_refl|].
  destruct (n =? 0); cbn [bind embf andb]; [apply res_le_refl|].
  destruct (Z.quot (M.vlen v + n - 1) n <? 0) eqn:E.
  - replace (0 <=? Z.quot (M.vlen v + n - 1) n) with false by lia. apply res_le_refl.
  - replace (0 <=? Z.quot (M.vlen v + n - 1) n) with true by lia. cbn [bind embf andb Z.leb Z.compare].
    rewrite <- (chunks_loop1_eq (S (Z.to_nat (M.vlen v))) fuel). simpl map.
    mono. apply chunks_loop1_mono; lia.
Qed.

Lemma batches_loop1_eq : forall gas f0 v size out i rem,
  bind (Batches_loop1 f0 gas (vw v) size (map vw out) i rem) (fun '(o, _, _) => Ok o)
  = embf (map vw) (M.batches_loop gas v size i rem out).
Proof.
  induction gas; intros; simpl; [reflexivity|].
  unfold ba_loop, ba_end, ba_rem_pos, ba_end_inc, ba_rem_dec, ba_lo, ba_hi, ba_max, ba_i_next.
  destruct (i <? M.vlen v); simpl; [|reflexivity].
  destruct (rem >? 0); simpl; rewrite slice3_eq.
  - destruct (M.slice3 v i (i + size + 1) (i + size + 1)) as [c| |]; simpl; try reflexivity.
    rewrite <- IHgas with (f0 := f0). rewrite map_app. reflexivity.
  - destruct (M.slice3 v i (i + size) (i + size)) as [c| |]; simpl; try reflexivity.
    rewrite <- IHgas with (f0 := f0). rewrite map_app. reflexivity.
Qed.

Lemma batches_loop1_mono : forall gas gas' f0 f0' v size out i rem, (gas <= gas')%nat ->
  res_le (Batches_loop1 f0 gas v size out i rem) (Batches_loop1 f0' gas' v size out i rem).
Proof.
  induction gas; intros; [apply res_le_oof|]. destruct gas'; [lia|]. simpl.
  mono. apply IHgas; lia.
Qed.

Theorem C17_batches_is_source : forall (v : M.view) (n : Z) (fuel : nat),
  (S (Z.to_nat (M.vlen v)) <= fuel)%nat ->
  res_le (embf (map vw) (M.batches v n)) (Batches (vw v) n fuel).
Proof.
  intros v n fuel Hf. unfold Batches, M.batches. cbv zeta.
  unfold ba_neg, ba_zero, ba_over, ba_capped, ba_zero2, ba_hint, ba_i0, ba_size, ba_rem, go_quot, go_rem, go_make_check.
  simpl vlen.
  destruct (n <? 0); cbn [bind embf andb]; [apply res_le_refl|].
  destruct (n =? 0); cbn [bind embf andb]; [apply res_le_refl|].
  set (n' := if n >? M.vlen v then M.vlen v else n).
  destruct (n' =? 0) eqn:E0; cbn [bind embf andb]; [apply res_le_refl|].
  destruct (n' <? 0) eqn:E.
  - replace (0 <=? n') with false by lia. apply res_le_refl.
  - replace (0 <=? n') with true by lia. cbn [bind embf andb Z.leb Z.compare].
    rewrite <- (batches_loop1_eq (S (Z.to_nat (M.vlen v))) fuel). simpl map.
    mono. apply batches_loop1_mono; lia.
Qed.

(* ---------------------------------------------------------------- Partition *)
Lemma M_bind_assoc {A B C} (m : M.res A) (f : A -> M.res B) (g : B -> M.res C) :
  M.bind (M.bind m f) g = M.bind m (fun a => M.bind (f a) g).
Proof. destruct m; reflexivity. Qed.

Section Partition.
Context {T : Type}.
Variable keep : T -> bool.

Lemma partition_loop1_eq : forall gas f0 (l : list T) i,
  Partition_loop1 f0 gas l keep i = emb (M.scan_i keep gas l i).
Proof.
  induction gas; intros; simpl; [reflexivity|].
  unfold part_scan_i, part_scan_i_idx, part_i_inc. change (M.zlen l) with (zlen l).
  destruct (i <? zlen l); simpl; [|reflexivity].
  rewrite get_eq. destruct (M.get l i) as [x| |]; simpl; try reflexivity.
  destruct (keep x); simpl; [apply IHgas|reflexivity].
Qed.

Lemma partition_loop3_eq : forall gas f0 (l : list T) j,
  Partition_loop3 f0 gas l keep j = emb (M.scan_j keep gas l j).
Proof.
  induction gas; intros; simpl; [reflexivity|].
  unfold part_scan_j, part_scan_j_idx, part_j_inc. change (M.zlen l) with (zlen l).
  destruct (j <? zlen l); simpl; [|reflexivity].
  rewrite get_eq. destruct (M.get l j) as [x| |]; simpl; try reflexivity.
  destruct (keep x); simpl; [reflexivity|apply IHgas].
Qed.

Lemma partition_loop1_mono : forall gas gas' f0 f0' (l : list T) i, (gas <= gas')%nat ->
  res_le (Partition_loop1 f0 gas l keep i) (Partition_loop1 f0' gas' l keep i).
Proof.
  induction gas; intros; [apply res_le_oof|]. destruct gas'; [lia|]. simpl.
  mono. apply IHgas; lia.
Qed.

Lemma partition_loop3_mono : forall gas gas' f0 f0' (l : list T) j, (gas <= gas')%nat ->
  res_le (Partition_loop3 f0 gas l keep j) (Partition_loop3 f0' gas' l keep j).
Proof.
  induction gas; intros; [apply res_le_oof|]. destruct gas'; [lia|]. simpl.
  mono. apply IHgas; lia.
Qed.

(* what Partition returns, from the model's (elements, bounds of the returned vs[:hi:max]) *)
Definition part_finish (v : M.view) (r : list T * option (Z * Z)) : M.res (view * list T) :=
  match snd r with
  | None => M.Ok (vw v, fst r)
  | Some hm => M.bind (M.slice3 v 0 (fst hm) (snd hm)) (fun rv => M.Ok (vw rv, fst r))
  end.

(* how the generated outer loop ends: by the return inside it, or by its condition *)
Definition part_exit (v : M.view) (r : ctl (list T * Z * Z) (view * list T)) : res (view * list T) :=
  match r with
  | Ret x => Ok x
  | Next (vs, i, _) => bind (go_slice3 (vw v) 0 i i) (fun t => Ok (t, vs))
  end.

Lemma slice3_finish v (l : list T) i :
  bind (go_slice3 (vw v) 0 i i) (fun t => Ok (t, l)) = emb (part_finish v (l, Some (i, i))).
Proof.
  unfold part_finish; simpl. rewrite slice3_eq. destruct (M.slice3 v 0 i i); reflexivity.
Qed.

Lemma partition_loop2_le : forall gas f0 v (l : list T) i j, (S (length l) <= f0)%nat ->
  res_le (emb (M.bind (M.part_loop keep gas l i j) (fun r => part_finish v (fst r, Some (snd r)))))
         (bind (Partition_loop2 f0 gas (vw v) keep l i j) (part_exit v)).
Proof.
  induction gas; intros f0 v l i j Hf; [apply res_le_oof|].
  cbn [M.part_loop Partition_loop2].
  unfold part_outer, part_done, part_ret0_hi, part_ret0_max, part_ret1_hi, part_ret1_max,
    part_swap_r0, part_swap_r1, part_swap_l0, part_swap_l1, part_i_inc2, part_j_inc2.
  change (M.zlen l) with (zlen l).
  destruct (i <? zlen l).
  2:{ cbn [M.bind bind part_exit fst snd]. rewrite slice3_finish. apply res_le_refl. }
  rewrite M_bind_assoc, emb_bind, <- (partition_loop3_eq (S (length l)) f0), bind_assoc.
  apply bind_le; [apply partition_loop3_mono; lia|].
  intros j' _.
  destruct (j' =? zlen l).
  { cbn [M.bind bind part_exit fst snd]. rewrite bind_assoc. cbn [bind part_exit].
    rewrite slice3_finish. apply res_le_refl. }
  rewrite !get_eq.
  destruct (M.get l j') as [a| |]; cbn [M.bind emb bind]; try apply res_le_refl.
  destruct (M.get l i) as [b| |]; cbn [M.bind emb bind]; try apply res_le_refl.
  rewrite set_eq. destruct (M.set l i a) as [l1| |] eqn:E1; cbn [M.bind emb bind]; try apply res_le_refl.
  rewrite set_eq. destruct (M.set l1 j' b) as [l2| |] eqn:E2; cbn [M.bind emb bind]; try apply res_le_refl.
  apply IHgas.
  assert (length l1 = length l) by (apply (go_set_length l l1 i a); rewrite set_eq, E1; reflexivity).
  assert (length l2 = length l1) by (apply (go_set_length l1 l2 j' b); rewrite set_eq, E2; reflexivity).
  lia.
Qed.

Lemma partition_loop2_mono : forall gas gas' f0 f0' v (l : list T) i j, (gas <= gas')%nat -> (f0 <= f0')%nat ->
  res_le (Partition_loop2 f0 gas v keep l i j) (Partition_loop2 f0' gas' v keep l i j).
Proof.
  induction gas; intros; [apply res_le_oof|]. destruct gas'; [lia|]. simpl.
  destruct (i <? zlen l); [|apply res_le_refl].
  apply bind_le; [apply partition_loop3_mono; lia|]. intros j' _.
  mono. apply IHgas; lia.
Qed.

Theorem C17_partition_is_source : forall (l : list T) (v : M.view) (fuel : nat),
  (S (length l) <= fuel)%nat ->
  res_le (emb (M.bind (M.partition_win keep l) (part_finish v))) (Partition l (vw v) keep fuel).
Proof.
  intros l v fuel Hf. unfold Partition, M.partition_win. cbv zeta.
  unfold part_empty, part_i0, part_j0. change (M.zlen l) with (zlen l).
  destruct (zlen l =? 0); [apply res_le_refl|].
  rewrite M_bind_assoc, emb_bind, <- (partition_loop1_eq (S (length l)) fuel).
  apply bind_le; [apply partition_loop1_mono; lia|].
  intros i _. rewrite M_bind_assoc.
  eapply res_le_trans.
  - apply (partition_loop2_le (S (length l)) fuel v l i (i + 1)). lia.
  - apply bind_le; [apply partition_loop2_mono; lia|]. intros r _. apply res_le_refl.
Qed.

(* the same on a base array: Partition on the window of the view, the result spliced back *)
Theorem C17_partition_view_is_source : forall (b : list T) (v : M.view) (fuel : nat),
  (S (length (M.window b v)) <= fuel)%nat ->
  res_le (embf (fun '(b', rv) => (vw rv, b')) (M.partition keep b v))
         (bind (Partition (M.window b v) (vw v) keep fuel) (fun '(rv, l') => Ok (rv, M.splice b v l'))).
Proof.
  intros b v fuel Hf.
  pose proof (C17_partition_is_source (M.window b v) v fuel Hf) as H.
  unfold M.partition.
  destruct H as [H|H].
  - left. destruct (M.partition_win keep (M.window b v)) as [[l' o]| |]; simpl in *; try discriminate; [|reflexivity].
    unfold part_finish in H; simpl in H. destruct o as [[hi mx]|]; simpl in *; try discriminate.
    destruct (M.slice3 v 0 hi mx); simpl in *; try discriminate. reflexivity.
  - right. rewrite <- H.
    destruct (M.partition_win keep (M.window b v)) as [[l' o]| |]; simpl; try reflexivity.
    unfold part_finish; simpl. destruct o as [[hi mx]|]; simpl; try reflexivity.
    destruct (M.slice3 v 0 hi mx); reflexivity.
Qed.
End Partition.

Print Assumptions C17_gcd_is_source.
Print Assumptions C17_rotate_is_source.
Print Assumptions C17_chunks_is_source.
Print Assumptions C17_batches_is_source.
Print Assumptions C17_partition_is_source.
Print Assumptions C17_partition_view_is_source.
