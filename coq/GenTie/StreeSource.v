(* stree at the level of the GENERATED code: a state machine over the functions the translator
   produces from stree/stree.go and stree/node.go on every run (Gen/FnStree.v, heap backend).
   DEFINITIONS ONLY; the simulation against the model is StreeSourceSim.v, the height statement
   StreeSourceHeight.v, the property file Props/C01_source.v.

   One Tree object = the fields the generated methods take and hand back:
     the node heap h (cells [G.node T], *node = option nat), t.root (an address or nil),
     t.size, t.max  -- the state [gst];
     t.β (read by Remove only, assigned by no translated method), t.compare and t.limit are
     FIXED for a run: parameters [b], [cmp] and [limit b] (the depth-limit function of the
     model at that β: stree.go computes it in floating point in limitFunc, which is not
     translated).

   Covered API (every Tree method the translator covers): Add, Replace, Remove, Clear, Get, Min,
   Max, Len, IsEmpty, Inorder, and InorderAfter through the body of the iterator it returns
   (t.root.inorderAfter(key, t.compare, yield): Tree.InorderAfter itself only wraps that call in
   a closure).  NOT covered (not translated): New, Tree.Clone, Tree.Cursor, Tree.Root, String.
   A run therefore starts from the EMPTY tree (root nil, size 0, max 0: what New(β, cmp) without
   keys builds) on ANY heap h0 (cells of other structures may already be there).

   Fuel: every call gets [fuel_for t.size] = 2*size + 7 units for its fuelled loops and
   recursions; the theorems say no step answers OutOfFuel.

   Iteration: Inorder / InorderAfter are driven by the stateful callback [collect stop]: it appends
   the key to a log, counts its calls and answers false (stop) on call number stop+1 ([None]:
   never); the output is the log in call order. *)
From Coq Require Import ZArith List Bool Arith.
From Mds Require Import Common.FnRt Common.FnHeap GenTie.StreeTieBase GenTie.StreeTieWalk.
From Mds Require Stree.StreeSpec.
Import ListNotations.
Local Open Scope Z_scope.

Module SP := StreeSpec.

(* the operations of a history *)
Inductive sop (T : Type) : Type :=
| SAdd (k : T)
| SReplace (k : T)
| SRemove (k : T)
| SClear
| SGet (k : T)
| SMin
| SMax
| SLen
| SIsEmpty
| SInorder (stop : option nat)
| SInorderAfter (k : T) (stop : option nat).
Arguments SAdd {T} k.
Arguments SReplace {T} k.
Arguments SRemove {T} k.
Arguments SClear {T}.
Arguments SGet {T} k.
Arguments SMin {T}.
Arguments SMax {T}.
Arguments SLen {T}.
Arguments SIsEmpty {T}.
Arguments SInorder {T} stop.
Arguments SInorderAfter {T} k stop.

(* what a call hands back, in Go's conventions: Get is (key, ok) with the zero key when absent,
   Min/Max the zero key on an empty tree *)
Inductive gout (T : Type) : Type :=
| GUnit
| GBool (b : bool)
| GInt (z : Z)
| GGet (x : T) (ok : bool)
| GKey (x : T)
| GList (l : list T)
| GPanic (k : panic_kind)
| GFuel.
Arguments GUnit {T}.
Arguments GBool {T} b.
Arguments GInt {T} z.
Arguments GGet {T} x ok.
Arguments GKey {T} x.
Arguments GList {T} l.
Arguments GPanic {T} k.
Arguments GFuel {T}.

(* the Tree object *)
Record gst (T : Type) : Type := mk_gst {
  g_heap : list (G.node T);
  g_root : option nat;
  g_size : Z;
  g_max : Z
}.
Arguments mk_gst {T} g_heap g_root g_size g_max.
Arguments g_heap {T} g.
Arguments g_root {T} g.
Arguments g_size {T} g.
Arguments g_max {T} g.

Definition fuel_for (size : Z) : nat := 2 * Z.to_nat size + 7.

Section Machine.
Context {T : Type}.
Variable cmp : T -> T -> Z.          (* t.compare *)
Variable limit : Z -> Z -> Z.        (* t.limit = limit b *)
Variable zero : T.                   (* Go's zero value of T *)
Variable b : Z.                      (* t.β *)

(* the empty tree on a heap h0 *)
Definition ginit (h0 : list (G.node T)) : gst T := mk_gst h0 None 0 0.

(* the consumer of an iteration, as the generated code takes it: state = (log, calls) *)
Definition collect (stop : option nat) : list T * nat -> T -> res (bool * (list T * nat)) :=
  gf (SM.yield_log stop).

(* a mutator: (answer, t.root, t.size, t.max, heap); a failing call leaves the object as it was *)
Definition g_mut (st : gst T) (r : res (bool * option nat * Z * Z * list (G.node T))) : gst T * gout T :=
  match r with
  | Ok (ok, rt, sz, mx, h) => (mk_gst h rt sz mx, GBool ok)
  | Panic k => (st, GPanic k)
  | OutOfFuel => (st, GFuel)
  end.

Definition g_obs {A : Type} (st : gst T) (r : res A) (f : A -> gout T) : gst T * gout T :=
  (st, match r with Ok a => f a | Panic k => GPanic k | OutOfFuel => GFuel end).

Definition gstep (st : gst T) (o : sop T) : gst T * gout T :=
  let fuel := fuel_for (g_size st) in
  let h := g_heap st in
  match o with
  | SAdd k => g_mut st (G.Tree_Add (g_root st) cmp (limit b) (g_size st) (g_max st) k h zero fuel)
  | SReplace k => g_mut st (G.Tree_Replace (g_root st) cmp (limit b) (g_size st) (g_max st) k h zero fuel)
  | SRemove k => g_mut st (G.Tree_Remove (g_root st) b cmp (g_size st) (g_max st) k h zero fuel)
  | SClear => let '(rt, sz, mx) := G.Tree_Clear (g_root st) (g_size st) (g_max st) in
              (mk_gst h rt sz mx, GUnit)
  | SGet k => g_obs st (G.Tree_Get (g_root st) cmp k h zero fuel) (fun r => GGet (fst r) (snd r))
  | SMin => g_obs st (G.Tree_Min (g_root st) h zero fuel) GKey
  | SMax => g_obs st (G.Tree_Max (g_root st) h zero fuel) GKey
  | SLen => (st, GInt (G.Tree_Len (g_size st)))
  | SIsEmpty => (st, GBool (G.Tree_IsEmpty (g_size st)))
  | SInorder stop =>
    g_obs st (G.Tree_Inorder (g_root st) (collect stop) ([], O) h fuel) (fun s => GList (rev (fst s)))
  | SInorderAfter k stop =>
    g_obs st (G.node_inorderAfter (g_root st) k cmp (collect stop) ([], O) h fuel)
          (fun r => GList (rev (fst (snd r))))
  end.

(* all outputs of a history, and the state it ends in *)
Fixpoint grun (st : gst T) (ops : list (sop T)) : list (gout T) :=
  match ops with
  | [] => []
  | o :: r => let '(st', x) := gstep st o in x :: grun st' r
  end.

Fixpoint gexec (st : gst T) (ops : list (sop T)) : gst T :=
  match ops with
  | [] => st
  | o :: r => gexec (fst (gstep st o)) r
  end.

(* the peak of t.size since the start, the last Clear or the last time the tree was empty,
   read off the generated object after every step *)
Definition gpeak_upd (P : Z) (st : gst T) : Z :=
  if g_size st =? 0 then 0 else Z.max P (g_size st).

Fixpoint gpeak (st : gst T) (P : Z) (ops : list (sop T)) : Z :=
  match ops with
  | [] => P
  | o :: r => let st' := fst (gstep st o) in gpeak st' (gpeak_upd P st') r
  end.

(* ---- the reference: ONE strictly ascending list, the functions of Stree/StreeSpec.v, answers
        in Go's conventions ---- *)
Definition ref_step (l : list T) (o : sop T) : list T * gout T :=
  match o with
  | SAdd k => let '(l', ok) := SP.s_insert cmp false k l in (l', GBool ok)
  | SReplace k => let '(l', ok) := SP.s_insert cmp true k l in (l', GBool ok)
  | SRemove k => let '(l', ok) := SP.s_remove cmp k l in (l', GBool ok)
  | SClear => ([], GUnit)
  | SGet k => (l, match SP.s_get cmp k l with Some x => GGet x true | None => GGet zero false end)
  | SMin => (l, GKey (match SP.s_min l with Some x => x | None => zero end))
  | SMax => (l, GKey (match SP.s_max l with Some x => x | None => zero end))
  | SLen => (l, GInt (Z.of_nat (length l)))
  | SIsEmpty => (l, GBool (match l with [] => true | _ => false end))
  | SInorder stop => (l, GList (SP.s_upto stop l))
  | SInorderAfter k stop => (l, GList (SP.s_upto stop (SP.s_after cmp k l)))
  end.

Fixpoint ref_run (l : list T) (ops : list (sop T)) : list (gout T) :=
  match ops with
  | [] => []
  | o :: r => let '(l', x) := ref_step l o in x :: ref_run l' r
  end.

Fixpoint ref_exec (l : list T) (ops : list (sop T)) : list T :=
  match ops with
  | [] => l
  | o :: r => ref_exec (fst (ref_step l o)) r
  end.

End Machine.

(* ---- depth on the heap: [hreach h p a d] = following the left/right fields of the generated
        cells from the pointer p for d steps arrives at the (existing) cell a ---- *)
Inductive hreach {T : Type} (h : list (G.node T)) : option nat -> nat -> nat -> Prop :=
| hreach_here : forall a c, nth_error h a = Some c -> hreach h (Some a) a O
| hreach_left : forall a c x d, nth_error h a = Some c -> hreach h (G.node_left c) x d ->
    hreach h (Some a) x (S d)
| hreach_right : forall a c x d, nth_error h a = Some c -> hreach h (G.node_right c) x d ->
    hreach h (Some a) x (S d).

(* the keys stored in the cells reachable from p, left to right (None: not a finite tree below p
   within the given number of levels) *)
Fixpoint hkeys {T : Type} (h : list (G.node T)) (levels : nat) (p : option nat) : option (list T) :=
  match p with
  | None => Some []
  | Some a =>
    match levels with
    | O => None
    | S n =>
      match nth_error h a with
      | None => None
      | Some c =>
        match hkeys h n (G.node_left c), hkeys h n (G.node_right c) with
        | Some l, Some r => Some (l ++ G.node_X c :: r)
        | _, _ => None
        end
      end
    end
  end.
