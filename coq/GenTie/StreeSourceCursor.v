(* stree, source-level histories: CURSORS (C03) at the level of the generated code.

   A cursor as the generated Cursor methods see it: the flag n "the receiver pointer is nil" and
   the field c.path : list (option nat) of node ADDRESSES.  [cstep] calls the function generated
   from Next | Prev | Left | Right | Up | Min | Max (all seven moves are tied), [crun] a whole
   sequence of moves, [cobserve] everything the API shows of a cursor: Valid, Key, HasNext,
   HasPrev, HasLeft, HasRight, HasParent and Inorder (collected through the stateful callback).

   cursor_history: on a heap whose root address represents a tree t on a TREE-SHAPED region
   (trepr: what every history of the generated Tree methods leaves behind, StreeSourceSim.v),
   from any represented well-formed cursor, every sequence of moves runs without panic or fuel
   exhaustion and, at the start and after every move, the observations are those of reference
   positions that follow the moves (C03_history composed with the ties C03_*_is_source).
   The condition [sibdist] of the successor ties is NOT assumed: it is needed only of the cells
   on the cursor's path (StreeSourceCursorNext.v), and those lie in the tree-shaped region.

   NOT covered (not translated): Tree.Cursor(key), Tree.Root, Cursor.Clone.  The start cursor
   is therefore either any represented cursor (cursor_history) or the root cursor written out by
   hand as Tree.Root's two lines build it ([groot_cursor]: nil for an empty tree, else a path
   holding t.root). *)
From Coq Require Import ZArith List Bool Arith Lia.
From Mds Require Import Gen.StreeConst Gen.StreeNode Gen.CursorIdx.
From Mds Require Import Common.FnRt Common.FnHeap GenTie.TieLib GenTie.StreeTieBase GenTie.StreeSep
  GenTie.StreeTieWalk GenTie.StreeTieCursor GenTie.StreeTieCursorNext GenTie.StreeSourceCursorNext
  GenTie.StreeSource GenTie.StreeSourceSim.
From Mds Require Stree.CursorModel Stree.CursorSpec Stree.CursorProofs Props.C03.
Import ListNotations.
Local Open Scope Z_scope.

Module CS := CursorSpec.
Module CP := CursorProofs.

(* ---- the machine (definitions) ---- *)
Section CursorMachine.
Context {T : Type}.
Variable zero : T.
Notation heap := (list (G.node T)).

(* the consumer of Cursor.Inorder that never stops: state = the keys so far, newest first *)
Definition all_keys : list T -> T -> res (bool * list T) := gf (fun acc x => (x :: acc, true)).

Definition cstep (h : heap) (n : bool) (ps : list (option nat)) (m : CM.move) (fuel : nat) : res (list (option nat)) :=
  match m with
  | CM.MNext => G.Cursor_Next n ps h fuel
  | CM.MPrev => G.Cursor_Prev n ps h fuel
  | CM.MLeft => G.Cursor_Left n ps h
  | CM.MRight => G.Cursor_Right n ps h
  | CM.MUp => G.Cursor_Up n ps
  | CM.MMin => G.Cursor_Min n ps h fuel
  | CM.MMax => G.Cursor_Max n ps h fuel
  end.

(* the paths after each move *)
Fixpoint crun (h : heap) (n : bool) (ps : list (option nat)) (ms : list CM.move) (fuel : nat)
  : res (list (list (option nat))) :=
  match ms with
  | [] => Ok []
  | m :: ms' =>
    bind (cstep h n ps m fuel) (fun ps' =>
    bind (crun h n ps' ms' fuel) (fun r => Ok (ps' :: r)))
  end.

Definition cobserve (h : heap) (n : bool) (ps : list (option nat)) (fuel : nat) : res (CM.obs T) :=
  bind (G.Cursor_Valid n ps) (fun v =>
  bind (G.Cursor_Key n ps h zero) (fun k =>
  bind (G.Cursor_HasNext n ps h fuel) (fun hn =>
  bind (G.Cursor_HasPrev n ps h fuel) (fun hp =>
  bind (G.Cursor_HasLeft n ps h) (fun hl =>
  bind (G.Cursor_HasRight n ps h) (fun hr =>
  bind (G.Cursor_HasParent n ps) (fun hpar =>
  bind (G.Cursor_Inorder n ps all_keys [] h fuel) (fun io =>
  Ok (CM.mkObs v k hn hp hl hr hpar (rev io)))))))))).

(* what Tree.Root builds (written out by hand: Root is not translated):
   if t.root == nil { return nil }; return &Cursor{path: []*node{t.root}} *)
Definition groot_cursor (root : option nat) : bool * list (option nat) :=
  match root with None => (true, []) | Some a => (false, [Some a]) end.

End CursorMachine.

(* ---- the simulation ---- *)
Section CursorSim.
Context {T : Type}.
Variable zero : T.
Notation tree := (SM.tree T).
Notation heap := (list (G.node T)).

(* in a tree-shaped region no cell has the same non-nil address as both children *)
Lemma trepr_cell_sib (h : heap) k (t : tree) F c : trepr h (Some k) t F -> nth_error h k = Some c ->
  G.node_left c = G.node_right c -> G.node_left c = None.
Proof.
  intros R Hk E. apply trepr_some in R.
  destruct R as [c0 [l [r [Fl [Fr [_ [_ [Hk0 [Rl [Rr [_ [_ Hd]]]]]]]]]]]].
  rewrite Hk in Hk0. inversion Hk0; subst c0.
  destruct (G.node_left c) as [x|] eqn:El; [|reflexivity]. exfalso.
  rewrite <- E in Rr. apply (Hd x); eapply trepr_root_in; eassumption.
Qed.

Lemma trepr_child (h : heap) k (t : tree) F c d : trepr h (Some k) t F -> nth_error h k = Some c ->
  exists F', trepr h (caddr d c) (CM.child d t) F'.
Proof.
  intros R Hk. apply trepr_some in R.
  destruct R as [c0 [l [r [Fl [Fr [-> [_ [Hk0 [Rl [Rr _]]]]]]]]]].
  rewrite Hk in Hk0. inversion Hk0; subst c0. destruct d; cbn [caddr CM.child]; eauto.
Qed.

Lemma trepr_sibdist_at (h : heap) : forall a p ps, ppath h a p ps ->
  forall (t : tree) F, trepr h a t F -> sibdist_at h ps.
Proof.
  induction 1 as [a|k0 c0 d p ps Hk0 P IH]; intros t F R k c Hin Hk E.
  - destruct Hin as [->|[]]. apply (trepr_cell_sib h k t F c R Hk E).
  - destruct Hin as [Hin|Hin].
    + inversion Hin; subst k0. apply (trepr_cell_sib h k t F c R Hk E).
    + destruct (trepr_child h k0 t F c0 d R Hk0) as [F' R']. apply (IH _ _ R' k c Hin Hk E).
Qed.

(* the path of a well-formed cursor is shorter than the tree is deep *)
Lemma subtree_leaf (p : list CM.dir) : CM.subtree (@SM.Leaf T) p = SM.Leaf.
Proof. induction p as [|d p IH]; [reflexivity|exact IH]. Qed.

Lemma wf_length : forall (p : list CM.dir) (t : tree), CM.is_node (CM.subtree t p) = true -> (length p < depth t)%nat.
Proof.
  induction p as [|d p IH]; intros t H.
  - destruct t; [discriminate|cbn [depth length]; lia].
  - destruct t as [|l x r]; [cbn [CM.subtree CM.child] in H; rewrite subtree_leaf in H; discriminate|].
    cbn [CM.subtree] in H. specialize (IH _ H). cbn [length depth]. destruct d; cbn [CM.child] in IH; lia.
Qed.

Lemma crepr_length (h : heap) root (t : tree) c ps : crepr h root c false ps -> cwf t c -> (length ps <= depth t)%nat.
Proof.
  intros Cr W. inversion Cr as [| |p ps' P]; subst; [cbn; lia|].
  rewrite (ppath_length _ _ _ _ P). apply wf_length. exact W.
Qed.

Lemma crepr_sib (h : heap) root (t : tree) F c ps : trepr h root t F -> crepr h root c false ps -> sibdist_at h ps.
Proof.
  intros R Cr. inversion Cr as [| |p ps' P]; subst; [intros k c0 []|].
  apply (trepr_sibdist_at h root p ps P t F R).
Qed.

(* the nil receiver: every generated method answers at once *)
Lemma nil_step (h : heap) ps m fuel : cstep h true ps m fuel = Ok ps.
Proof. destruct m; reflexivity. Qed.

Lemma nil_observe (h : heap) ps fuel :
  cobserve zero h true ps fuel = Ok (CM.mkObs false zero false false false false false []).
Proof. reflexivity. Qed.

Lemma crepr_true (h : heap) root c ps : crepr h root c true ps -> c = CNil.
Proof. intros Cr. inversion Cr. reflexivity. Qed.

(* ---- one move ---- *)
Lemma cstep_sim (h : heap) root (t : tree) F c n ps m fuel :
  trepr h root t F -> crepr h root c n ps -> cwf t c -> (fuel > 2 * depth t + 1)%nat ->
  exists c' ps', CM.step t c m = SM.Ok c' /\ cstep h n ps m fuel = Ok ps' /\ crepr h root c' n ps' /\ cwf t c'.
Proof.
  intros R Cr W Hf.
  destruct (CP.step_spec T t c m W) as [c1 [Es [W1 _]]].
  destruct n.
  - pose proof (crepr_true _ _ _ _ Cr) as ->.
    destruct (CP.invalid_identity T zero t CNil m eq_refl) as [Es' _]. rewrite Es' in Es. inversion Es; subst c1.
    exists CNil, ps. rewrite nil_step. repeat split; auto.
  - pose proof (trepr_repr _ _ _ _ R) as Rr.
    pose proof (crepr_length h root t c ps Cr W) as Hl.
    pose proof (crepr_sib h root t F c ps R Cr) as SD.
    assert (X : exists c' ps', CM.step t c m = SM.Ok c' /\ cstep h false ps m fuel = Ok ps' /\ crepr h root c' false ps').
    { destruct m; cbn [CM.step cstep].
      - apply (C03_next_local h root t c false ps fuel SD Rr Cr W). lia.
      - apply (C03_prev_local h root t c false ps fuel SD Rr Cr W). lia.
      - apply (C03_left_is_source h root t c false ps Rr Cr W).
      - apply (C03_right_is_source h root t c false ps Rr Cr W).
      - apply (C03_up_is_source h root c false ps Cr).
      - apply (C03_min_is_source h root t c false ps fuel Rr Cr W). lia.
      - apply (C03_max_is_source h root t c false ps fuel Rr Cr W). lia. }
    destruct X as [c' [ps' [E1 [E2 Cr']]]]. rewrite Es in E1. inversion E1; subst c'.
    exists c1, ps'. auto.
Qed.

(* ---- the observers ---- *)
Lemma cobserve_sim (h : heap) root (t : tree) F c n ps fuel :
  trepr h root t F -> crepr h root c n ps -> cwf t c -> (fuel > 2 * depth t + 1)%nat ->
  exists o, CM.observe zero t c = SM.Ok o /\ cobserve zero h n ps fuel = Ok o.
Proof.
  intros R Cr W Hf. destruct n.
  - pose proof (crepr_true _ _ _ _ Cr) as ->.
    destruct (CP.invalid_identity T zero t CNil CM.MUp eq_refl) as [_ [_ Eo]].
    eexists. split; [exact Eo|apply nil_observe].
  - pose proof (trepr_repr _ _ _ _ R) as Rr.
    pose proof (crepr_length h root t c ps Cr W) as Hl.
    pose proof (crepr_sib h root t F c ps R Cr) as SD.
    destruct (C03_key_is_source zero h root t c false ps Rr Cr W) as [k [M1 G1]].
    destruct (C03_hasnext_local h root t c false ps fuel SD Rr Cr W ltac:(lia)) as [hn [M2 G2]].
    destruct (C03_hasprev_local h root t c false ps fuel SD Rr Cr W ltac:(lia)) as [hp [M3 G3]].
    destruct (C03_hasleft_is_source h root t c false ps Rr Cr W) as [hl [M4 G4]].
    destruct (C03_hasright_is_source h root t c false ps Rr Cr W) as [hr [M5 G5]].
    destruct (C03_cinorder_is_source (list T) (fun acc x => (x :: acc, true)) h root t c false ps [] fuel Rr Cr W ltac:(lia))
      as [io [M6 G6]].
    unfold CM.observe, CM.cinorder_all, cobserve, all_keys.
    rewrite (C03_valid_is_source h root c false ps Cr), G1, G2, G3, G4, G5, (C03_hasparent_is_source h root c false ps Cr), G6.
    rewrite M1, M2, M3, M4, M5, M6. cbn [SM.bind bind]. eexists. split; reflexivity.
Qed.

(* ---- whole move histories ---- *)
Lemma crun_sim (h : heap) root (t : tree) F (ms : list CM.move) : forall c n ps fuel,
  trepr h root t F -> crepr h root c n ps -> cwf t c -> (fuel > 2 * depth t + 1)%nat ->
  exists cs pss, CM.run t c ms = SM.Ok cs /\ crun h n ps ms fuel = Ok pss /\
                 Forall2 (fun c' ps' => crepr h root c' n ps' /\ cwf t c') cs pss.
Proof.
  induction ms as [|m ms IH]; intros c n ps fuel R Cr W Hf.
  - exists [], []. repeat split; constructor.
  - destruct (cstep_sim h root t F c n ps m fuel R Cr W Hf) as [c' [ps' [E1 [E2 [Cr' W']]]]].
    destruct (IH c' n ps' fuel R Cr' W' Hf) as [cs [pss [E3 [E4 F2]]]].
    exists (c' :: cs), (ps' :: pss). cbn [CM.run crun]. rewrite E1, E2. cbn [SM.bind bind]. rewrite E3, E4. cbn [SM.bind bind].
    repeat split. constructor; auto.
Qed.

(* C03_history for the generated Cursor methods: the reference positions [abs] of the start
   cursor and of the model's cursors after each move are what the generated observers report *)
Theorem cursor_history (h : heap) root (t : tree) F c n ps (ms : list CM.move) fuel :
  trepr h root t F -> crepr h root c n ps -> cwf t c -> (fuel > 2 * depth t + 1)%nat ->
  exists pss bs,
    crun h n ps ms fuel = Ok pss /\
    CS.follows (length (SM.inorder t)) (CP.abs T t c) ms bs /\
    Forall2 (fun ps' b => exists o, cobserve zero h n ps' fuel = Ok o /\ CS.obs_spec zero (SM.inorder t) b o)
            (ps :: pss) (CP.abs T t c :: bs).
Proof.
  intros R Cr W Hf.
  destruct (crun_sim h root t F ms c n ps fuel R Cr W Hf) as [cs [pss [E1 [E2 F2]]]].
  destruct (C03.C03_history T zero t c ms W) as [cs' [E1' [Fo Ob]]].
  rewrite E1 in E1'. inversion E1'; subst cs'.
  exists pss, (map (CP.abs T t) cs). split; [exact E2|]. split; [exact Fo|].
  assert (OB : forall c' ps', crepr h root c' n ps' -> cwf t c' -> CP.observed T zero t c' ->
               exists o, cobserve zero h n ps' fuel = Ok o /\ CS.obs_spec zero (SM.inorder t) (CP.abs T t c') o).
  { intros c' ps' Cr' W' [_ [o [Eo So]]].
    destruct (cobserve_sim h root t F c' n ps' fuel R Cr' W' Hf) as [o' [Eo' Go]].
    rewrite Eo in Eo'. inversion Eo'; subst o'. exists o. split; assumption. }
  inversion Ob as [|? ? Ob0 Obs]; subst. constructor; [apply (OB c ps Cr W Ob0)|].
  clear - F2 Obs OB. revert Obs. induction F2 as [|c' ps' cs pss [Cr' W'] _ IH]; intros Obs; [constructor|].
  inversion Obs as [|? ? Ob1 Obs']; subst. cbn [map]. constructor; [apply (OB c' ps' Cr' W' Ob1)|apply IH; exact Obs'].
Qed.

(* the root cursor is represented *)
Lemma groot_repr (h : heap) root (t : tree) F : trepr h root t F ->
  crepr h root (CM.tree_root t) (fst (groot_cursor root)) (snd (groot_cursor root)) /\ cwf t (CM.tree_root t).
Proof.
  intros R. destruct R as [|a c l r Fl Fr]; cbn [groot_cursor CM.tree_root fst snd cwf].
  - split; [constructor|exact I].
  - split; [apply cr_at; constructor|reflexivity].
Qed.

End CursorSim.

(* ---- from the Tree states the generated Tree methods reach ---- *)
Section CursorFromTree.
Context {T : Type}.
Variable cmp : T -> T -> Z.
Hypothesis HP : SP.total_preorder cmp.
Variable limit : Z -> Z -> Z.
Variable zero : T.
Variable b : Z.
Variable h0 : list (G.node T).
Notation gexec := (gexec cmp limit zero b).

(* after any history of the generated Tree methods from the empty tree, with Ls the reference's
   list: from ANY cursor represented on the heap (model cursor c inside the represented tree) *)
Theorem cursor_history_source (ops : list (sop T)) :
  let st := gexec (ginit h0) ops in
  let Ls := ref_exec cmp zero [] ops in
  exists t F, trepr (g_heap st) (g_root st) t F /\ SM.inorder t = Ls /\
  forall c n ps (ms : list CM.move),
    crepr (g_heap st) (g_root st) c n ps -> CP.wf T t c ->
    exists pss bs,
      crun (g_heap st) n ps ms (fuel_for (g_size st)) = Ok pss /\
      CS.follows (length Ls) (CP.abs T t c) ms bs /\
      Forall2 (fun ps' p => exists o, cobserve zero (g_heap st) n ps' (fuel_for (g_size st)) = Ok o /\
                                      CS.obs_spec zero Ls p o)
              (ps :: pss) (CP.abs T t c :: bs).
Proof.
  cbn zeta.
  destruct (final_state_source cmp HP limit zero b h0 ops) as [_ [Esz [_ [t [F [R [I _]]]]]]].
  exists t, F. split; [exact R|]. split; [exact I|].
  intros c n ps ms Cr W. rewrite <- I.
  apply (cursor_history zero _ _ t F c n ps ms _ R Cr W).
  rewrite Esz, <- I, PB.count_inorder. unfold fuel_for. rewrite Nat2Z.id.
  pose proof (depth_le_count t). lia.
Qed.

(* the same from the root cursor (what Tree.Root builds), with no model object in the statement:
   the start position is invalid for the empty tree and spans all of Ls otherwise *)
Theorem cursor_moves_from_root_source (ops : list (sop T)) (ms : list CM.move) :
  let st := gexec (ginit h0) ops in
  let Ls := ref_exec cmp zero [] ops in
  let n := fst (groot_cursor (g_root st)) in
  let ps := snd (groot_cursor (g_root st)) in
  let fuel := fuel_for (g_size st) in
  exists pss p0 bs,
    crun (g_heap st) n ps ms fuel = Ok pss /\
    match Ls with
    | [] => p0 = None
    | _ :: _ => exists q, p0 = Some q /\ CS.lo q = O /\ CS.hi q = length Ls
    end /\
    CS.follows (length Ls) p0 ms bs /\
    Forall2 (fun ps' p => exists o, cobserve zero (g_heap st) n ps' fuel = Ok o /\ CS.obs_spec zero Ls p o)
            (ps :: pss) (p0 :: bs).
Proof.
  cbn zeta.
  destruct (cursor_history_source ops) as [t [F [R [I H]]]]. cbn zeta in H.
  destruct (groot_repr _ _ t F R) as [Cr W].
  destruct (H _ _ _ ms Cr W) as [pss [bs [E1 [Fo Ob]]]].
  exists pss, (CP.abs T t (CM.tree_root t)), bs. split; [exact E1|]. split; [|split; assumption].
  destruct (C03.C03_root T t) as [_ Hr]. rewrite I in Hr.
  destruct (ref_exec cmp zero [] ops); [rewrite Hr; reflexivity|exact Hr].
Qed.

End CursorFromTree.

Print Assumptions cursor_history.
Print Assumptions cursor_history_source.
Print Assumptions cursor_moves_from_root_source.
