(* stree, the MUTATING half: a separation-style representation predicate for the node heap of
   Gen/FnStree.v (heap backend: cells in a list, *node = option nat) against the FUNCTIONAL model
   Stree/StreeModel.v.

     [trepr h a t F]: in the heap h the address a represents the model tree t and occupies
     EXACTLY the addresses F (a list, in preorder: the node, the footprint of its left subtree,
     the footprint of its right subtree); the node is in neither child's footprint and the two
     children's footprints are disjoint, so F has no duplicates: the region is TREE-SHAPED.

   In-place pointer surgery on such a region is what the model's "rebuild the spine" stands for.
   The ties of StreeTieMut*.v have the shape

     trepr h a t F  ->  the generated function returns Ok (results, h') with
        trepr h' a' t' F'   (t' and the other results are the MODEL function's on t),
        sub h F F'          (F' uses only addresses of F or addresses allocated by the call),
        frame h h' F        (the heap only grew; every old cell outside F kept its record)

   and [Panic PNil] where the model predicts a panic ([rel]).

   Facts proved here: trepr -> repr (StreeTieBase.v), no duplicates, footprint inside the heap,
   |F| = count t, the FRAME lemma (a heap that agrees with h on F represents the same tree:
   hence a store outside F and an allocation preserve trepr), reading a represented node, and the
   algebra of [frame]/[sub]. *)
From Coq Require Import ZArith List Bool Arith Lia.
From Mds Require Import Gen.StreeConst Gen.StreeNode.
From Mds Require Import Common.FnRt Common.FnHeap GenTie.TieLib GenTie.StreeTieBase.
Import ListNotations.

Section Sep.
Context {T : Type}.
Notation tree := (SM.tree T).
Notation heap := (list (G.node T)).

Inductive trepr (h : heap) : option nat -> tree -> list nat -> Prop :=
| trepr_leaf : trepr h None SM.Leaf []
| trepr_node : forall a c l r Fl Fr,
    nth_error h a = Some c ->
    trepr h (G.node_left c) l Fl -> trepr h (G.node_right c) r Fr ->
    ~ In a Fl -> ~ In a Fr -> (forall k, In k Fl -> ~ In k Fr) ->
    trepr h (Some a) (SM.Node l (G.node_X c) r) (a :: Fl ++ Fr).

(* ---- inversions ---- *)
Lemma trepr_leaf_inv h a F : trepr h a SM.Leaf F -> a = None /\ F = [].
Proof. intros H. inversion H. split; reflexivity. Qed.

Lemma trepr_nil h t F : trepr h None t F -> t = SM.Leaf /\ F = [].
Proof. intros H. inversion H. split; reflexivity. Qed.

Lemma trepr_node_inv h a l x r F : trepr h a (SM.Node l x r) F ->
  exists k c Fl Fr, a = Some k /\ F = k :: Fl ++ Fr /\ nth_error h k = Some c /\ G.node_X c = x /\
    trepr h (G.node_left c) l Fl /\ trepr h (G.node_right c) r Fr /\
    ~ In k Fl /\ ~ In k Fr /\ (forall j, In j Fl -> ~ In j Fr).
Proof. intros H. inversion H; subst. exists a0, c, Fl, Fr. repeat split; auto. Qed.

Lemma trepr_some h k t F : trepr h (Some k) t F ->
  exists c l r Fl Fr, t = SM.Node l (G.node_X c) r /\ F = k :: Fl ++ Fr /\ nth_error h k = Some c /\
    trepr h (G.node_left c) l Fl /\ trepr h (G.node_right c) r Fr /\
    ~ In k Fl /\ ~ In k Fr /\ (forall j, In j Fl -> ~ In j Fr).
Proof. intros H. inversion H; subst. exists c, l, r, Fl, Fr. repeat split; auto. Qed.

(* ---- relation to the sharing-blind repr of StreeTieBase.v ---- *)
Lemma trepr_repr h a t F : trepr h a t F -> repr h a t.
Proof. induction 1; [constructor|]. apply repr_node; assumption. Qed.

Lemma trepr_nodup h a t F : trepr h a t F -> NoDup F.
Proof.
  induction 1 as [|a c l r Fl Fr Hn _ IHl _ IHr Hal Har Hd]; [constructor|].
  constructor.
  - rewrite in_app_iff. tauto.
  - clear - IHl IHr Hd. induction Fl as [|x Fl IH]; [exact IHr|].
    cbn [app]. inversion IHl; subst. constructor.
    + rewrite in_app_iff. intros [Hx|Hx]; [contradiction|]. apply (Hd x); [left; reflexivity|exact Hx].
    + apply IH; [|assumption]. intros k Hk. apply Hd. right. exact Hk.
Qed.

Lemma trepr_bound h a t F : trepr h a t F -> forall k, In k F -> (k < length h)%nat.
Proof.
  induction 1 as [|a c l r Fl Fr Hn _ IHl _ IHr _ _ _]; intros k Hk; [contradiction|].
  destruct Hk as [<-|Hk]; [apply nth_error_Some; rewrite Hn; discriminate|].
  apply in_app_iff in Hk. destruct Hk; auto.
Qed.

Lemma trepr_count h a t F : trepr h a t F -> length F = SM.count t.
Proof.
  induction 1 as [|a c l r Fl Fr _ _ IHl _ IHr _ _ _]; [reflexivity|].
  cbn [length SM.count]. rewrite app_length. lia.
Qed.

Lemma depth_le_count (t : tree) : (depth t <= SM.count t)%nat.
Proof. induction t as [|l IHl x r IHr]; cbn [depth SM.count]; lia. Qed.

Lemma trepr_root_in h k t F : trepr h (Some k) t F -> In k F.
Proof. intros H. inversion H; subst. left. reflexivity. Qed.

(* ---- the frame lemma ---- *)
Lemma trepr_agree h h' a t F : trepr h a t F ->
  (forall k, In k F -> nth_error h' k = nth_error h k) -> trepr h' a t F.
Proof.
  induction 1 as [|a c l r Fl Fr Hn _ IHl _ IHr Hal Har Hd]; intros E; [constructor|].
  apply trepr_node; auto.
  - rewrite E; [exact Hn|left; reflexivity].
  - apply IHl. intros k Hk. apply E. right. apply in_app_iff. left. exact Hk.
  - apply IHr. intros k Hk. apply E. right. apply in_app_iff. right. exact Hk.
Qed.

(* [frame h h' F]: the heap only grew and every old cell outside F kept its record *)
Definition frame (h h' : heap) (F : list nat) : Prop :=
  (length h <= length h')%nat /\
  forall k, (k < length h)%nat -> ~ In k F -> nth_error h' k = nth_error h k.

(* [sub h F F']: F' uses only addresses of F or addresses that did not exist in h *)
Definition sub (h : heap) (F F' : list nat) : Prop :=
  forall k, In k F' -> In k F \/ (length h <= k)%nat.

Lemma frame_refl h F : frame h h F.
Proof. split; [lia|reflexivity]. Qed.

Lemma sub_refl h F : sub h F F.
Proof. intros k Hk. left. exact Hk. Qed.

Lemma sub_incl h F F' : incl F' F -> sub h F F'.
Proof. intros H k Hk. left. apply H. exact Hk. Qed.

Lemma frame_weaken h h' F G : frame h h' F -> incl F G -> frame h h' G.
Proof. intros [L E] I. split; [exact L|]. intros k Hk N. apply E; [exact Hk|]. intros X. apply N, I, X. Qed.

Lemma frame_trans h h1 h2 F F1 : frame h h1 F -> sub h F F1 -> frame h1 h2 F1 -> frame h h2 F.
Proof.
  intros [L1 E1] S [L2 E2]. split; [lia|]. intros k Hk N.
  rewrite E2; [apply E1; assumption|lia|].
  intros X. destruct (S k X) as [Y|Y]; [contradiction|lia].
Qed.

Lemma sub_trans h h1 F F1 F2 : (length h <= length h1)%nat -> sub h F F1 -> sub h1 F1 F2 -> sub h F F2.
Proof.
  intros L S1 S2 k Hk. destruct (S2 k Hk) as [Y|Y]; [apply S1; exact Y|right; lia].
Qed.

(* a tree-shaped region disjoint from the touched footprint survives the call *)
Lemma trepr_frame h h' a t F G : trepr h a t F -> frame h h' G -> (forall k, In k F -> ~ In k G) ->
  trepr h' a t F.
Proof.
  intros R [L E] D. apply (trepr_agree h); [exact R|]. intros k Hk.
  apply E; [apply (trepr_bound h a t F R k Hk)|apply D; exact Hk].
Qed.

(* allocation extends the heap and preserves every existing representation *)
Lemma trepr_app h ext a t F : trepr h a t F -> trepr (h ++ ext) a t F.
Proof.
  intros R. apply (trepr_agree h); [exact R|]. intros k Hk.
  apply nth_error_app1. apply (trepr_bound h a t F R k Hk).
Qed.

Lemma frame_app h ext F : frame h (h ++ ext) F.
Proof.
  split; [rewrite app_length; lia|]. intros k Hk _. apply nth_error_app1. exact Hk.
Qed.

(* ---- stores ---- *)
Lemma nth_upd_same {C} (l : list C) n x : (n < length l)%nat -> nth_error (upd l n x) n = Some x.
Proof. revert n; induction l; intros n H; simpl in H; [lia|]. destruct n; simpl; [reflexivity|]. apply IHl. lia. Qed.

Lemma nth_upd_other {C} (l : list C) n k x : k <> n -> nth_error (upd l n x) k = nth_error l k.
Proof.
  revert n k; induction l; intros n k H; destruct n; simpl; try reflexivity.
  - destruct k; [contradiction H; reflexivity|reflexivity].
  - destruct k; [reflexivity|]. simpl. apply IHl. intros ->. apply H. reflexivity.
Qed.

(* p.f = e on a cell that exists: the result, and what the new heap holds *)
Lemma hmod_some (h : heap) a c f : nth_error h a = Some c -> go_hmod h (Some a) f = Ok (upd h a (f c)).
Proof. intros H. unfold go_hmod. rewrite H. reflexivity. Qed.

Lemma hget_some (h : heap) a c : nth_error h a = Some c -> go_hget h (Some a) = Ok c.
Proof. intros H. unfold go_hget. rewrite H. reflexivity. Qed.

Lemma upd_at (h : heap) a c x : nth_error h a = Some c -> nth_error (upd h a x) a = Some x.
Proof. intros H. apply nth_upd_same. apply nth_error_Some. rewrite H. discriminate. Qed.

Lemma frame_upd (h : heap) a x F : In a F -> frame h (upd h a x) F.
Proof.
  intros I. split; [rewrite upd_length; lia|]. intros k _ N. apply nth_upd_other. intros ->. contradiction.
Qed.

(* a store outside the footprint preserves the representation *)
Lemma trepr_upd_out h a t F p x : trepr h a t F -> ~ In p F -> trepr (upd h p x) a t F.
Proof.
  intros R N. apply (trepr_agree h); [exact R|]. intros k Hk. apply nth_upd_other. intros ->. contradiction.
Qed.

Lemma trepr_hmod_out h h' a t F p f : trepr h a t F -> go_hmod h p f = Ok h' ->
  (forall k, p = Some k -> ~ In k F) -> trepr h' a t F.
Proof.
  intros R E N. unfold go_hmod in E. destruct p as [k|]; [|discriminate].
  destruct (nth_error h k) as [c|]; [|discriminate]. inversion E; subst.
  apply trepr_upd_out; [exact R|]. apply N. reflexivity.
Qed.

(* a read inside the region is the record of the model node *)
Lemma trepr_read h k l x r F : trepr h (Some k) (SM.Node l x r) F ->
  exists c, go_hget h (Some k) = Ok c /\ G.node_X c = x /\
            repr h (G.node_left c) l /\ repr h (G.node_right c) r.
Proof.
  intros H. apply trepr_node_inv in H. destruct H as [k' [c [Fl [Fr [E [_ [Hn [Hx [Hl [Hr _]]]]]]]]]].
  inversion E; subst k'. exists c. split; [apply hget_some; exact Hn|].
  split; [exact Hx|]. split; eapply trepr_repr; eassumption.
Qed.

(* building a node: the cell at a (in the CURRENT heap) with two represented, separated children *)
Lemma trepr_mk h a c l r Fl Fr :
  nth_error h a = Some c ->
  trepr h (G.node_left c) l Fl -> trepr h (G.node_right c) r Fr ->
  ~ In a Fl -> ~ In a Fr -> (forall k, In k Fl -> ~ In k Fr) ->
  forall x, x = G.node_X c -> trepr h (Some a) (SM.Node l x r) (a :: Fl ++ Fr).
Proof. intros. subst x. apply trepr_node; assumption. Qed.

End Sep.

(* ---- model results against generated results ----
   [rel P m g]: the model answers Ok a  => the generated function answers Ok b with P a b;
                the model panics        => the generated function panics with Go's nil dereference;
                nothing is claimed where the model's own fuel ran out (the slices' theorems
                exclude that). *)
Definition rel {A B : Type} (P : A -> B -> Prop) (m : SM.res A) (g : res B) : Prop :=
  match m with
  | SM.Ok a => exists b, g = Ok b /\ P a b
  | SM.Panic => g = Panic PNil
  | SM.OutOfFuel => True
  | SM.BadOracle => True
  end.

Lemma rel_bind {A B A' B'} (P : A -> B -> Prop) (Q : A' -> B' -> Prop)
      (m : SM.res A) (g : res B) (k : A -> SM.res A') (k' : B -> res B') :
  rel P m g -> (forall a b, P a b -> rel Q (k a) (k' b)) -> rel Q (SM.bind m k) (bind g k').
Proof.
  intros R K. destruct m as [a| | |]; cbn [rel SM.bind] in *; auto.
  - destruct R as [b [-> Pb]]. cbn [bind]. apply K. exact Pb.
  - rewrite R. reflexivity.
Qed.

(* the model post-processes its result where the generated code has already done so in place *)
Lemma rel_map {A A' B} (P : A -> B -> Prop) (Q : A' -> B -> Prop) (k : A -> SM.res A') m g :
  rel P m g -> (forall a b, P a b -> exists a', k a = SM.Ok a' /\ Q a' b) -> rel Q (SM.bind m k) g.
Proof.
  intros R I. destruct m; cbn [rel SM.bind] in *; auto.
  destruct R as [b [E Pb]]. destruct (I a b Pb) as [a' [-> Qa]]. exists b. split; [exact E|exact Qa].
Qed.

Lemma rel_ok {A B} (P : A -> B -> Prop) a b : P a b -> rel P (SM.Ok a) (Ok b).
Proof. intros H. exists b. split; [reflexivity|exact H]. Qed.

Lemma rel_weaken {A B} (P Q : A -> B -> Prop) m g : rel P m g -> (forall a b, P a b -> Q a b) -> rel Q m g.
Proof.
  intros R I. destruct m; cbn [rel] in *; auto. destruct R as [b [E Pb]]. exists b. split; [exact E|apply I; exact Pb].
Qed.

(* split a separated representation of a Node *)
Ltac tnode H k c Fl Fr Ea Hk Hl Hr Nl Nr Hd :=
  apply trepr_node_inv in H;
  destruct H as [k [c [Fl [Fr [Ea [-> [Hk [<- [Hl [Hr [Nl [Nr Hd]]]]]]]]]]]].

(* membership in footprints written with :: and ++ *)
Ltac inl := repeat (progress (cbn [In app] in *; rewrite ?in_app_iff in *)).

Print Assumptions trepr_repr.
Print Assumptions trepr_frame.
Print Assumptions trepr_app.
Print Assumptions trepr_hmod_out.
Print Assumptions trepr_read.
