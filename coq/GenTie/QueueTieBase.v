(* The hand-written model of queue/queue.go (Queue/QueueModel.v), at unbounded integers ([idw]),
   equals the functions generated from the Go source (Gen/FnQueue.v): Add, Push, Pop, PopLast, Peek.

   The generated functions take the fields q.vs, q.head, q.n as arguments and return the Go results
   followed by the fields they assign.  Two things the Go code delegates are function arguments of
   the generated code and are instantiated here with what the model uses:
     slice_Rotate := the model's rotate_go (itself the C17 loop model, tied to slice.Rotate's source
                     in GenTie/SliceTie.v)
     append_      := the model's oracle step: for a reported capacity c > len(s) the result has the
                     elements s ++ [v] and c - len(s) - 1 zeroed slots behind them; any other c is
                     the model's BadOracle. *)
From Coq Require Import ZArith List Bool Lia.
From Mds Require Import Common.FnRt GenTie.TieLib Gen.FnQueue Gen.QueueIdx.
From Mds Require Queue.QueueModel.
Import ListNotations.
Local Open Scope Z_scope.

Module Q := QueueModel.

Definition emb_kind (k : Q.panic_kind) : panic_kind :=
  match k with
  | Q.PIndex => PIndex
  | Q.PDivZero => PDiv
  | Q.PRotate => PMsg "offset out of range"
  | Q.PMakeLen => PMake
  end.

Definition embf {A B : Type} (f : A -> B) (r : Q.res A) : res B :=
  match r with
  | Q.QOk a => Ok (f a)
  | Q.QPanic k => Panic (emb_kind k)
  | Q.BadOracle => Panic (PMsg "bad oracle")
  | Q.RotateFuel => OutOfFuel
  end.

Section Queue.
Context {T : Type}.
Variable zero : T.

Notation queue := (Q.queue T).
Notation vs := (@Q.vs T).
Notation head := (@Q.head T).
Notation qn := (@Q.n T).

Definition fields (q : queue) : list T * Z * Z := (vs q, head q, qn q).

(* the two function arguments *)
Definition rot (l : list T) (k : Z) : res (list T) := embf (fun x => x) (Q.rotate_go T l k).

Definition app_or (c : Z) (s xs : list T) : res (list T * list T) :=
  if c >? zlen s then Ok (s ++ xs, repeat zero (Z.to_nat (c - zlen s - 1)))
  else Panic (PMsg "bad oracle").

Lemma upd_split : forall (l : list T) n x, (n < length l)%nat ->
  upd l n x = firstn n l ++ x :: skipn (S n) l.
Proof.
  induction l; intros n x H; simpl in H; [lia|].
  destruct n; simpl; [reflexivity|]. f_equal. apply IHl. lia.
Qed.

Lemma set_eq (l : list T) i x :
  go_set l i x = match Q.upd T l i x with Some l' => Ok l' | None => Panic PIndex end.
Proof.
  unfold go_set, Q.upd. change (Q.zlen T l) with (zlen l).
  destruct ((0 <=? i) && (i <? zlen l)) eqn:E; [|reflexivity].
  rewrite upd_split by (unfold zlen in E; lia). reflexivity.
Qed.

Lemma get_eq (l : list T) i :
  go_get l i = match Q.idx T l i with Some x => Ok x | None => Panic PIndex end.
Proof.
  unfold go_get, Q.idx, zlen.
  destruct (i <? 0) eqn:E.
  - replace (0 <=? i) with false by lia. reflexivity.
  - replace (0 <=? i) with true by lia. simpl.
    destruct (i <? Z.of_nat (length l)) eqn:E2.
    + destruct (nth_error l (Z.to_nat i)); reflexivity.
    + assert (N : nth_error l (Z.to_nat i) = None) by (apply nth_error_None; lia).
      rewrite N; reflexivity.
Qed.

(* the re-slice w[:cap(w)] of the appended slice is the model's whole new array *)
Lemma grow_eq (s : list T) (v : T) (c : Z) : c >? zlen s = true ->
  go_sub_cap (s ++ [v]) (repeat zero (Z.to_nat (c - zlen s - 1))) 0
     (zlen (s ++ [v]) + zlen (repeat zero (Z.to_nat (c - zlen s - 1))))
  = Ok (s ++ v :: repeat zero (Z.to_nat (c - zlen s - 1))) /\
  Q.reslice T (s ++ v :: repeat zero (Z.to_nat (c - zlen s - 1))) c c
  = Some (s ++ v :: repeat zero (Z.to_nat (c - zlen s - 1))).
Proof.
  intros H.
  assert (L : zlen (s ++ [v]) + zlen (repeat zero (Z.to_nat (c - zlen s - 1))) = c).
  { unfold zlen in *. rewrite app_length, repeat_length. simpl. lia. }
  assert (L' : length (s ++ v :: repeat zero (Z.to_nat (c - zlen s - 1))) = Z.to_nat c).
  { unfold zlen in *. rewrite app_length. simpl. rewrite repeat_length. lia. }
  split.
  - unfold go_sub_cap. rewrite L.
    replace ((0 <=? 0) && (0 <=? c) && (c <=? c)) with true by (unfold zlen in *; lia).
    rewrite Z.sub_0_r. simpl skipn. rewrite <- app_assoc. simpl.
    rewrite <- L'. rewrite firstn_all. reflexivity.
  - unfold Q.reslice. replace ((0 <=? c) && (c <=? c)) with true by (unfold zlen in *; lia).
    rewrite <- L'. rewrite firstn_all. reflexivity.
Qed.

Definition pop_ret (r : queue * (T * bool)) : T * bool * Z * Z :=
  let '(q, (x, ok)) := r in (x, ok, head q, qn q).

End Queue.

Ltac qunf := cbv beta delta [Q.idw add_has_room add_pos add_wrap_cond add_wrap_pos add_store_idx add_n
  add_rot_cond add_rot_k add_rot_head add_grow_hi add_grow_n
  push_has_room push_pos push_wrap_cond push_wrap_pos push_store_idx push_head push_n push_rot_cond
  push_rot_k push_rot_head push_grow_hi push_grow_head push_grow_store_idx push_grow_n
  peek_neg peek_adj peek_out peek_idx_rem peek_load_idx
  pop_empty pop_idx pop_n pop_now_empty pop_head_reset pop_head_rem
  poplast_empty poplast_pos poplast_wrap_cond poplast_wrap_pos poplast_idx poplast_n
  poplast_now_empty poplast_head_reset].

