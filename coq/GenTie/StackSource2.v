(* C10 (stack part) at source level, second round: the machine of StackSource.v extended by the
   functions tied in round 6 (GenTie/StackTieRest.v): Stack.Slice as an operation and New as the
   GENERATED start state.  All ten methods of stack.go are operations now.

   [gsstep2 zero l o] = [gsstep] of StackSource.v, except
     SSlice   FnStack.Slice l zero (S (length l)), output TList of the slice it returns (its
              make cannot fail: C10_stack_slice_is_source);
   [eshape2 o r]      = what of the model's output the generated functions can show: everything
              except the list Each handed to its callback (the generated Each takes a PURE
              callback and returns unit): TList becomes TUnit for SEach ONLY -- Slice's list is
              an output.
   Histories start from [FnStack.New], the list the generated constructor returns. *)
From Coq Require Import ZArith List Bool Lia.
From Mds Require Import Gen.StackIdx Stack.StackModel Stack.StackProofs Common.FnRt GenTie.TieLib.
From Mds Require Import GenTie.StackTieBase GenTie.StackTieRest GenTie.StackSource.
From Mds Require Gen.FnStack Props.C10_mlink.
Import ListNotations.
Local Open Scope Z_scope.

Section Src2.
Context {T : Type}.
Variable zero : T.

Definition eshape2 (o : sop T) (r : sout T) : sout T :=
  match o with SEach _ _ => eshape r | _ => r end.

Fixpoint eshapes2 (ops : list (sop T)) (rs : list (sout T)) : list (sout T) :=
  match ops, rs with
  | o :: ops', r :: rs' => eshape2 o r :: eshapes2 ops' rs'
  | _, _ => []
  end.

Definition gsstep2 (l : list T) (o : sop T) : list T * sout T :=
  match o with
  | SSlice _ => glift l (FnStack.Slice l zero (S (length l))) (TList T)
  | _ => gsstep zero l o
  end.

Fixpoint gsrun2 (l : list T) (ops : list (sop T)) : list (sout T) :=
  match ops with
  | [] => []
  | o :: ops' => let (l', r) := gsstep2 l o in r :: gsrun2 l' ops'
  end.

(* one step, every op, every list *)
Theorem gsstep2_is_sstep : forall (l : list T) (o : sop T),
  gsstep2 l o = (fst (sstep T zero l o), eshape2 o (snd (sstep T zero l o))).
Proof.
  intros l o.
  assert (K : src_sop o = true -> gsstep2 l o = gsstep zero l o /\ eshape2 o (snd (sstep T zero l o)) = eshape (snd (sstep T zero l o))).
  { destruct o; intros H; try discriminate H; split; try reflexivity;
      cbn [eshape2 sstep]; unfold lift;
      repeat (match goal with |- context[match ?r with _ => _ end] => destruct r end);
      reflexivity. }
  destruct (src_sop o) eqn:Ho.
  { destruct (K eq_refl) as [K1 K2]. rewrite K1, K2. apply (gsstep_is_sstep zero). exact Ho. }
  clear K. destruct o; try discriminate Ho.
  cbn [gsstep2 sstep eshape2].
  pose proof (C10_stack_slice_is_source zero l (S (length l)) (le_n _)) as L.
  rewrite (slice_ok T zero) in L |- *. destruct L as [L|L]; [discriminate|]. rewrite <- L. reflexivity.
Qed.

Theorem gsrun2_is_srun : forall (ops : list (sop T)) (l : list T),
  gsrun2 l ops = eshapes2 ops (srun T zero l ops).
Proof.
  induction ops as [|o ops IH]; intros l; [reflexivity|].
  cbn [gsrun2 srun]. rewrite (gsstep2_is_sstep l o).
  destruct (sstep T zero l o) as [l' r]. cbn [fst snd eshapes2]. f_equal. apply IH.
Qed.

(* composition with C10_stack_lifo, from the generated New *)
Theorem stack_lifo_source_full : forall ops : list (sop T),
  gsrun2 FnStack.New ops = eshapes2 ops (sarun T zero [] ops).
Proof.
  intros ops. rewrite C10_stack_new_is_source, (gsrun2_is_srun ops []). f_equal.
  exact (C10_mlink.C10_stack_lifo T zero ops).
Qed.

End Src2.

Print Assumptions gsstep2_is_sstep.
Print Assumptions stack_lifo_source_full.
