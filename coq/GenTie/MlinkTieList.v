(* mlink/list.go, the List methods: model = generated function (see MlinkTieBase.v).  The model
   keeps the list's sentinel at address 0: the ties are stated at lst = Some 0.  Methods that hand
   out a *Cursor return the Cursor value (the pointer is the only reference to a fresh struct):
   the model's cursor state (h, pred) corresponds to mk_Cursor (Some pred).  The model fuels every
   loop with S (length heap); statements: res_le with fuel > length heap. *)
From Coq Require Import ZArith List Bool Arith Lia.
From Mds Require Gen.MlinkFacts Gen.MlinkList.
From Mds Require Import Mlink.MlinkModel.
From Mds Require Import Common.FnRt Common.FnHeap GenTie.TieLib GenTie.MlinkTieBase GenTie.MlinkTieCursor GenTie.MlinkTieMut.
Import ListNotations.
Local Open Scope Z_scope.

(* a res_le fact [L] about a callee whose model result has just been split: the generated call
   returns exactly the model's value *)
Ltac use_le L := apply res_le_eq in L; [|discriminate]; rewrite L; clear L.

Section ListT.
Context {T : Type}.
Variable zero : T.
Notation heap := (MlinkModel.heap T).
Notation cst := (MlinkModel.cst T).

Definition curs {A} : A -> cst -> G.Cursor := fun _ s => G.mk_Cursor (Some (snd s)).

(* func (lst *List[T]) cfirst() Cursor[T] { return Cursor[T]{pred: &lst.first} } *)
Theorem C10_mlink_cfirst_is_source : forall (h : heap),
  G.List_cfirst (Some O) = curs tt (cfirst T h).
Proof. reflexivity. Qed.

(* func (lst *List[T]) IsEmpty() bool *)
Theorem C10_mlink_isempty_is_source : forall (h : heap),
  G.List_IsEmpty (Some O) (henc h) = embf (fun a _ => a) (list_is_empty T h) /\
  final (list_is_empty T h) (fun s => s = (h, O)).
Proof.
  intros h. unfold G.List_IsEmpty, list_is_empty, cfirst.
  mread h O c E; [|split; fin].
  unfold MlinkList.isempty_ret. rewrite enc_null_eqb. split; fin.
Qed.

(* func (lst *List[T]) Clear() { lst.first.link.invalidate(); lst.first.link = nil } *)
Lemma cl_body_eq : cl_body T = [cl_inval T; cl_nil T].
Proof. reflexivity. Qed.

Theorem C10_mlink_clear_is_source : forall (h : heap) (fuel : nat),
  (fuel > length h)%nat ->
  res_le (embf heap_of (list_clear T h)) (G.List_Clear (Some O) (henc h) fuel).
Proof.
  intros h fuel Hf. unfold G.List_Clear, list_clear, cfirst. rewrite cl_body_eq. cbn [seq_env].
  unfold cl_inval, cl_nil. change (called MlinkList.clear_ncalls_invalidate) with true. cbv iota.
  mread h O c E.
  cbn [cenc G.entry_link].
  destruct (C10_mlink_invalidate_is_source (S (length h)) fuel (snd c) h O Hf) as [L K].
  destruct (invalidate T (S (length h)) (snd c) (h, O)) as [u [h1 p1]|k [h1 p1]| |]; cbn [final snd] in K; try subst p1;
    cbn [embf fst snd] in L; cbn [MlinkModel.bind embf fst snd].
  3: apply res_le_oof.
  2,3: use_le L; fin.
  use_le L. cbn [bind]. unfold heap_of. cbn [fst snd].
  unfold load. cbn [fst snd]. unfold MlinkList.clear_newlink. rewrite dec_null.
  destruct (nth_error h1 O) as [cp|] eqn:E1; cbn [MlinkModel.bind].
  - rewrite (store_some h1 O O cp _ E1). change None with (lenc Nil). rewrite (hmod_link h1 O cp Nil E1). fin.
  - rewrite hmod_some, E1. fin.
Qed.

(* ---- At ---- *)
Lemma at_loop_le : forall (f gas fuel : nat) (n : Z) (h : heap) (p : nat),
  (gas >= f)%nat ->
  res_le (embf curs (at_loop T f n (h, p)))
         (bind (G.List_At_loop1 fuel gas (henc h) n (G.mk_Cursor (Some p))) (fun x => Ok (snd x))) /\
  final (at_loop T f n (h, p)) (fun s => fst s = h).
Proof.
  induction f as [|f IH]; intros gas fuel n h p Hg; [split; fin|].
  destruct gas as [|gas]; [lia|]. cbn [at_loop G.List_At_loop1 G.Cursor_pred].
  mcall (C10_mlink_atend_is_source h p) (cur_at_end T (h, p)) ae; try (split; fin).
  unfold MlinkList.at_cond, MlinkList.at_found, MlinkList.at_dec. change (called MlinkList.at_ncalls_next) with true. cbv iota.
  destruct (negb ae); [|split; fin].
  destruct (n =? 0); [split; fin|].
  destruct (C10_mlink_next_is_source h p) as [N1 N2]. rewrite N1. clear N1.
  destruct (cur_next T (h, p)) as [b [h2 p2]|k [h2 p2]| |]; cbn [final fst] in N2; try subst h2;
    cbn [embf bind MlinkModel.bind fst snd]; try (split; fin).
  apply IH. lia.
Qed.

Theorem C10_mlink_at_is_source : forall (n : Z) (h : heap) (fuel : nat),
  (fuel > length h)%nat ->
  res_le (embf curs (list_at T n h)) (G.List_At (Some O) n (henc h) fuel) /\
  final (list_at T n h) (fun s => fst s = h).
Proof.
  intros n h fuel Hf. unfold G.List_At, list_at, MlinkList.at_neg, cfirst.
  destruct (n <? 0); [split; fin|].
  destruct (at_loop_le (S (length h)) fuel fuel n h O Hf) as [L K]. split; [|exact K].
  change (G.List_cfirst (Some O)) with (G.mk_Cursor (Some O)).
  destruct (G.List_At_loop1 fuel fuel (henc h) n (G.mk_Cursor (Some O))) as [[n' c']| |]; exact L.
Qed.

(* ---- Peek ---- *)
Theorem C10_mlink_peek_is_source : forall (n : Z) (h : heap) (fuel : nat),
  (fuel > length h)%nat ->
  res_le (embf (fun a _ => a) (list_peek T zero n h)) (G.List_Peek (Some O) n (henc h) zero fuel) /\
  final (list_peek T zero n h) (fun s => fst s = h).
Proof.
  intros n h fuel Hf. unfold G.List_Peek, list_peek, MlinkList.peek_at_arg, MlinkList.peek_ok.
  destruct (C10_mlink_at_is_source n h fuel Hf) as [L K].
  destruct (list_at T n h) as [u [h1 p1]|k [h1 p1]| |]; cbn [final fst] in K; try subst h1;
    cbn [embf] in L; cbn [MlinkModel.bind embf].
  3: split; fin.
  2,3: use_le L; split; fin.
  use_le L. cbn [bind curs snd G.Cursor_pred].
  mcall (C10_mlink_get_is_source zero h p1) (cur_get T zero (h, p1)) v; try (split; fin).
  mcall (C10_mlink_atend_is_source h p1) (cur_at_end T (h, p1)) ae; try (split; fin).
Qed.

(* ---- Last ---- *)
Lemma last_loop_le : forall (f gas fuel : nat) (h : heap) (p : nat),
  (gas >= f)%nat ->
  res_le (embf curs (last_loop T f (h, p)))
         (G.List_Last_loop1 fuel gas (henc h) (G.mk_Cursor (Some p))) /\
  final (last_loop T f (h, p)) (fun s => fst s = h).
Proof.
  induction f as [|f IH]; intros gas fuel h p Hg; [split; fin|].
  destruct gas as [|gas]; [lia|]. cbn [last_loop G.List_Last_loop1 G.Cursor_pred]. unfold deref. cbn [snd].
  mread h p cp E; [|split; fin].
  cbn [cenc G.entry_link]. destruct (snd cp) as [|t]; cbn [lenc MlinkModel.bind]; [split; fin|].
  mread h t ct E2; [|split; fin].
  unfold MlinkList.last_cond. rewrite enc_null_eqb. cbn [cenc G.entry_link].
  change (called MlinkList.last_ncalls_next) with true. cbv iota.
  destruct (negb (go_pnil (lenc (snd ct)))); [|split; fin].
  destruct (C10_mlink_next_is_source h p) as [N1 N2]. rewrite N1. clear N1.
  destruct (cur_next T (h, p)) as [b [h2 p2]|k [h2 p2]| |]; cbn [final fst] in N2; try subst h2;
    cbn [embf bind MlinkModel.bind fst snd]; try (split; fin).
  apply IH. lia.
Qed.

Theorem C10_mlink_last_is_source : forall (h : heap) (fuel : nat),
  (fuel > length h)%nat ->
  res_le (embf curs (list_last T h)) (G.List_Last (Some O) (henc h) fuel) /\
  final (list_last T h) (fun s => fst s = h).
Proof.
  intros h fuel Hf. unfold G.List_Last, list_last, cfirst, MlinkList.last_nonempty.
  change (G.List_cfirst (Some O)) with (G.mk_Cursor (Some O)). cbn [G.Cursor_pred].
  mcall (C10_mlink_atend_is_source h O) (cur_at_end T (h, O)) ae; try (split; fin).
  destruct (negb ae); [|split; fin].
  apply last_loop_le. lia.
Qed.

(* ---- End: c := lst.Last(); c.Next(); return c ---- *)
Theorem C10_mlink_end_is_source : forall (h : heap) (fuel : nat),
  (fuel > length h)%nat ->
  res_le (embf curs (list_end T h)) (G.List_End (Some O) (henc h) fuel) /\
  final (list_end T h) (fun s => fst s = h).
Proof.
  intros h fuel Hf. unfold G.List_End, list_end.
  change (called MlinkList.end_ncalls_last) with true. change (called MlinkList.end_ncalls_next) with true. cbv iota.
  destruct (C10_mlink_last_is_source h fuel Hf) as [L K].
  destruct (list_last T h) as [u [h1 p1]|k [h1 p1]| |]; cbn [final fst] in K; try subst h1;
    cbn [embf] in L; cbn [MlinkModel.bind embf].
  3: split; fin.
  2,3: use_le L; split; fin.
  use_le L. cbn [bind curs snd G.Cursor_pred].
  destruct (C10_mlink_next_is_source h p1) as [N1 N2]. rewrite N1. clear N1.
  destruct (cur_next T (h, p1)) as [b [h2 p2]|k [h2 p2]| |]; cbn [final fst] in N2; try subst h2;
    cbn [embf bind MlinkModel.bind fst snd]; split; fin.
Qed.

(* ---- Find (the callback is a pure function, as in the model) ---- *)
Lemma find_loop_le : forall (g : T -> bool) (f gas fuel : nat) (h : heap) (p : nat),
  (gas >= f)%nat ->
  res_le (embf curs (find_loop T zero f g (h, p)))
         (G.List_Find_loop1 fuel gas g zero (henc h) (G.mk_Cursor (Some p))) /\
  final (find_loop T zero f g (h, p)) (fun s => fst s = h).
Proof.
  intros g. induction f as [|f IH]; intros gas fuel h p Hg; [split; fin|].
  destruct gas as [|gas]; [lia|]. cbn [find_loop G.List_Find_loop1 G.Cursor_pred].
  mcall (C10_mlink_atend_is_source h p) (cur_at_end T (h, p)) ae; try (split; fin).
  unfold MlinkList.find_cond, MlinkList.find_hit. change (called MlinkList.find_ncalls_next) with true. cbv iota.
  destruct (negb ae); [|split; fin].
  mcall (C10_mlink_get_is_source zero h p) (cur_get T zero (h, p)) v; try (split; fin).
  destruct (g v); [split; fin|].
  destruct (C10_mlink_next_is_source h p) as [N1 N2]. rewrite N1. clear N1.
  destruct (cur_next T (h, p)) as [b [h2 p2]|k [h2 p2]| |]; cbn [final fst] in N2; try subst h2;
    cbn [embf bind MlinkModel.bind fst snd]; try (split; fin).
  apply IH. lia.
Qed.

Theorem C10_mlink_find_is_source : forall (g : T -> bool) (h : heap) (fuel : nat),
  (fuel > length h)%nat ->
  res_le (embf curs (list_find T zero g h)) (G.List_Find (Some O) g (henc h) zero fuel) /\
  final (list_find T zero g h) (fun s => fst s = h).
Proof.
  intros g h fuel Hf. unfold G.List_Find, list_find, cfirst.
  change (G.List_cfirst (Some O)) with (G.mk_Cursor (Some O)).
  apply find_loop_le. lia.
Qed.

End ListT.

Print Assumptions C10_mlink_cfirst_is_source.
Print Assumptions C10_mlink_isempty_is_source.
Print Assumptions C10_mlink_clear_is_source.
Print Assumptions C10_mlink_at_is_source.
Print Assumptions C10_mlink_peek_is_source.
Print Assumptions C10_mlink_last_is_source.
Print Assumptions C10_mlink_end_is_source.
Print Assumptions C10_mlink_find_is_source.
