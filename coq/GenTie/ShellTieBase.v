(* shell/shell.go: the hand-written model (Shell/ShellModel.v) equals the functions generated from the
   Go source by the function translator (Gen/FnShell.v).  Shared part: encodings and the
   instantiation of the abstract objects.

   The model works on bytes as N, on the inductive types state/class/action of Gen/ShellTable.v
   and on a record of scanner fields; the generated code on Z throughout.  [zb]/[zs] embed bytes
   and byte strings, [st_z]/[cl_z]/[ac_z] number the constructors as Go's iota does.

   Objects.  The generated functions take the *bytes.Buffer / bytes.Buffer objects (parameter
   [buf] of quote, the pooled [buf] of Quote and Join, field [cur] of Scanner) and the
   *bufio.Reader object (field [buf] of Scanner) as abstract states with one function argument per
   method.  The ties instantiate them with what the documentation of those types says:
     bytes.Buffer  : state = the contents (a byte list); WriteByte / WriteString / Write append and
                     report no error, Grow(n >= 0) and String leave the contents, Reset empties them
                     ([bb_*]);
     bufio.Reader  : state = the unread input (a byte list: the model's readers never fail);
                     ReadByte pops the head, or reports io.EOF on the empty list; Reset(r) rebinds
                     the input to the content of r ([rd_*]; io.Reader values are byte lists).
   These instantiations are the trusted reading of the standard library; everything else in the
   statements is generated from shell.go. *)
From Coq Require Import ZArith NArith List Bool Lia.
From Mds Require Import Common.FnRt GenTie.TieLib Gen.ShellTable Gen.FnShell.
From Mds Require Import Shell.ShellModel Shell.ShellSkel.
Import ListNotations.
Local Open Scope Z_scope.

Module G := Gen.FnShell.
Module T := Gen.ShellTable.
Module M := Shell.ShellModel.
Module H := Shell.ShellSkel.Hand.

(* ---- bytes ---- *)
Definition zb (b : N) : Z := Z.of_N b.
Definition zs (s : M.bytes) : list Z := map zb s.

Lemma zs_app a b : zs (a ++ b) = zs a ++ zs b.
Proof. apply map_app. Qed.

Lemma zlen_zs s : zlen (zs s) = Z.of_nat (length s).
Proof. unfold zlen, zs. rewrite map_length. reflexivity. Qed.

Lemma zlen_app {A} (a b : list A) : zlen (a ++ b) = zlen a + zlen b.
Proof. unfold zlen. rewrite app_length. lia. Qed.

Lemma zlen_nonneg {A} (l : list A) : 0 <= zlen l.
Proof. unfold zlen. lia. Qed.

Lemma zb_eqb a b : (zb a =? zb b) = N.eqb a b.
Proof.
  unfold zb. destruct (N.eqb a b) eqn:E.
  - apply N.eqb_eq in E. subst. apply Z.eqb_refl.
  - apply N.eqb_neq in E. apply Z.eqb_neq. lia.
Qed.

Lemma zb_eqb_lit a (k : N) : (zb a =? Z.of_N k) = N.eqb a k.
Proof. apply (zb_eqb a k). Qed.

(* the element at the position that is the length of the prefix *)
Lemma go_get_mid {A} (pre : list A) c rest : go_get (pre ++ c :: rest) (zlen pre) = Ok c.
Proof.
  unfold go_get.
  assert (E : (0 <=? zlen pre) && (zlen pre <? zlen (pre ++ c :: rest)) = true).
  { rewrite zlen_app. unfold zlen. cbn [length]. apply andb_true_iff; split; [apply Z.leb_le|apply Z.ltb_lt]; lia. }
  rewrite E. unfold zlen. rewrite Nat2Z.id, nth_error_app2 by lia. rewrite Nat.sub_diag. reflexivity.
Qed.

Lemma go_get_zs pre c rest : go_get (zs (pre ++ c :: rest)) (zlen (zs pre)) = Ok (zb c).
Proof. rewrite zs_app. unfold zs. cbn [map]. apply go_get_mid. Qed.

Lemma zlen_zs_snoc pre c : zlen (zs (pre ++ [c])) = zlen (zs pre) + 1.
Proof. rewrite zs_app, zlen_app. reflexivity. Qed.

Lemma zlen_snoc {A} (pre : list A) c : zlen (pre ++ [c]) = zlen pre + 1.
Proof. rewrite zlen_app. reflexivity. Qed.

Lemma str_eqb_nil (s : list Z) : str_eqb s [] = match s with [] => true | _ => false end.
Proof. destruct s; reflexivity. Qed.

(* ---- bytes.Buffer as a byte list ---- *)
Definition bb_WriteByte (b : list Z) (c : Z) : res (go_error * list Z) := Ok (ENil, b ++ [c]).
Definition bb_WriteString (b : list Z) (s : list Z) : res (Z * go_error * list Z) := Ok (zlen s, ENil, b ++ s).
Definition bb_Write (b : list Z) (p : list Z) : res (Z * go_error * list Z) := Ok (zlen p, ENil, b ++ p).
Definition bb_Grow (b : list Z) (n : Z) : res (list Z) :=
  if n <? 0 then Panic (PMsg "bytes.Buffer.Grow: negative count") else Ok b.
Definition bb_Reset (b : list Z) : res (list Z) := Ok [].
Definition bb_String (b : list Z) : res (list Z * list Z) := Ok (b, b).

(* ---- bufio.Reader over a byte list; io.Reader values are byte lists ---- *)
Definition rd_ReadByte (l : list Z) : res (Z * go_error * list Z) :=
  match l with
  | [] => Ok (0, EEOF, [])
  | c :: r => Ok (c, ENil, r)
  end.
Definition rd_Reset (l : list Z) (r : list Z) : res (list Z) := Ok r.
Definition new_reader (s : list Z) : res (list Z) := Ok s.   (* strings.NewReader *)
Definition as_reader (r : list Z) : list Z := r.              (* *strings.Reader as an io.Reader *)

(* ---- states, classes, actions as Go numbers them ---- *)
Definition st_z (s : T.state) : Z :=
  match s with
  | stNone => 0 | stBreak => 1 | stBreakQ => 2 | stWord => 3
  | stWordQ => 4 | stSingle => 5 | stDouble => 6 | stDoubleQ => 7
  end.
Definition cl_z (c : T.class) : Z :=
  match c with
  | clOther => 0 | clBreak => 1 | clNewline => 2 | clQuote => 3 | clSingle => 4 | clDouble => 5
  end.
Definition ac_z (a : T.action) : Z :=
  match a with drop => 0 | push => 1 | xpush => 2 | emit => 3 end.

(* ---- the scanner record as the four fields the generated methods take and hand back ---- *)
Definition err_z (eof : bool) : go_error := if eof then EEOF else ENil.

Definition bytes_ok (s : M.bytes) : Prop := Forall (fun b => (b < 256)%N) s.

Lemma bytes_ok_cons b s : bytes_ok (b :: s) -> (b < 256)%N /\ bytes_ok s.
Proof. intros Hb. inversion Hb; subst. split; assumption. Qed.
