(* C10 (ring) at source level: a state machine whose operations CALL THE FUNCTIONS GENERATED from
   ring/ring.go by the heap backend (Gen/FnRing.v) refines the abstract cyclic sequences of
   Ring/RingSpec.v over whole histories.

   [gstep zero g o] : state = the generated heap [g : list (Ring T)] (cells in allocation order,
   *Ring = option nat); the model's op type (handles nil or addresses) and out type.
     ONew OOf OJoin OPop         G.New / G.Of / G.Ring_Join / G.Ring_Pop: they return the new heap
     ONext OPrev OAt OPeek OLen OIsEmpty   G.Ring_Next ... : they only read the heap
     OEach r lim                 G.Ring_Each with the state-threading callback that records the value and
                                 answers false on its lim-th call (never for lim = 0): the heap
                                 backend has stateful callbacks, so the visited sequence IS the result
     fuel: New n: n + 1; Of vs: len + 1; At/Peek: heap size + 2; Len/Each: heap size + 1.
     Handles must be nil or allocated ([gptr_ok], as in the model: a Go pointer cannot dangle),
     else RFault without a call.  Panic PNil (Go's nil dereference) is the output RPanic, any other
     panic RFault, fuel exhaustion RFuel; after a failed call the state is the one BEFORE the call
     (the generated functions return no heap at a panic; the model keeps the heap at the panic -
     on heaps a history reaches both represent the same abstract state, which is what is proved).
   All eleven operations of the model's histories are covered.  Not translated: Ring.String. *)
From Coq Require Import ZArith List Bool Arith Lia.
From Coq Require String.
From Mds Require Import Gen.RingIdx Ring.RingBase.
From Mds Require Import Common.FnRt Common.FnHeap GenTie.TieLib GenTie.RingTieBase GenTie.RingTieOps
  GenTie.RingTieNew GenTie.RingTieWalk.
From Mds Require Ring.RingSpec Ring.RingProofsRep Ring.RingProofsOps Ring.RingProofs Ring.RingProofsTie.
Import ListNotations.

Module RS := RingSpec.
Module RP := RingProofs.

Section Src.
Context {T : Type}.
Variable zero : T.
Notation heap := (RingBase.heap T).
Notation gheap := (list (G.Ring T)).
Notation Rep := (RingProofsRep.Rep T).

Definition gptr_ok (g : gheap) (p : ptr) : bool :=
  match p with None => true | Some a => Nat.ltb a (length g) end.

Definition is_nil_panic (k : panic_kind) : bool :=
  match k with PMsg m => String.eqb m "invalid memory address or nil pointer dereference"%string | _ => false end.
Definition fail_out (k : panic_kind) : out T := if is_nil_panic k then RPanic else RFault.

(* a function that changes the heap *)
Definition gw {A} (f : A -> out T) (g : gheap) (r : res (A * gheap)) : gheap * out T :=
  match r with
  | Ok (a, g') => (g', f a)
  | Panic k => (g, fail_out k)
  | FnRt.OutOfFuel => (g, RFuel)
  end.
(* a function that only reads it *)
Definition gr {A} (f : A -> out T) (g : gheap) (r : res A) : gheap * out T :=
  match r with
  | Ok a => (g, f a)
  | Panic k => (g, fail_out k)
  | FnRt.OutOfFuel => (g, RFuel)
  end.

(* Each's callback of the model's histories: record the value, stop at the lim-th call *)
Definition each_cb (lim : nat) (s : list T * nat) (v : T) : res (bool * (list T * nat)) :=
  Ok (negb (Nat.eqb (S (snd s)) lim), (fst s ++ [v], S (snd s))).

Definition gexec (g : gheap) (o : op T) : gheap * out T :=
  match o with
  | ONew n => gw RPtr g (G.New n g zero (S (Z.to_nat n)))
  | OOf vs => gw RPtr g (G.Of vs g zero (S (length vs)))
  | OJoin r s => gw RPtr g (G.Ring_Join r s g)
  | OPop r => gw RPtr g (G.Ring_Pop r g)
  | ONext r => gr RPtr g (G.Ring_Next r g)
  | OPrev r => gr RPtr g (G.Ring_Prev r g)
  | OAt r n => gr RPtr g (G.Ring_At r n g (S (S (length g))))
  | OPeek r n => gr (fun x => RPeek (fst x) (snd x)) g (G.Ring_Peek r n g zero (S (S (length g))))
  | OLen r => gr RLen g (G.Ring_Len r g (S (length g)))
  | OEach r lim => gr REach g (bind (G.Ring_Each r (each_cb lim) ([], O) g (S (length g))) (fun s => Ok (fst s)))
  | OIsEmpty r => (g, RBool (G.Ring_IsEmpty r))
  end.

Definition gstep (g : gheap) (o : op T) : gheap * out T :=
  if forallb (gptr_ok g) (op_ptrs o) then gexec g o else (g, RFault).

Fixpoint grun (g : gheap) (ops : list (op T)) : list (out T) :=
  match ops with
  | [] => []
  | o :: ops' => let (g', r) := gstep g o in r :: grun g' ops'
  end.

Fixpoint grun_heap (g : gheap) (ops : list (op T)) : gheap :=
  match ops with [] => g | o :: ops' => grun_heap (fst (gstep g o)) ops' end.

(* ---- one step against the model's step ---- *)
Definition failed (r : out T) : bool :=
  match r with RPanic | RFault | RFuel => true | _ => false end.

(* what the generated step is, given the model's: the same output; the model's new heap after a
   call that succeeded, the old heap after one that failed *)
Definition agrees (h : heap) (x : heap * out T) (y : gheap * out T) : Prop :=
  snd y = snd x /\ fst y = henc (if failed (snd x) then h else fst x).

Lemma gw_agrees {A} (f : A -> out T) (h : heap) (x : heap * mres A) (r : res (A * gheap)) :
  (forall a, failed (f a) = false) ->
  res_le (embw idf x) r -> snd x <> MFuel -> agrees h (to_out f x) (gw f (henc h) r).
Proof.
  intros Hf L N. destruct x as [h' [a| | |]]; cbn [embw to_out snd fst] in *.
  - destruct L as [L|L]; [discriminate|]. rewrite <- L. unfold agrees, idf. cbn [gw fst snd]. rewrite Hf. split; reflexivity.
  - destruct L as [L|L]; [discriminate|]. rewrite <- L. split; reflexivity.
  - destruct L as [L|L]; [discriminate|]. rewrite <- L. split; reflexivity.
  - exfalso; apply N; reflexivity.
Qed.

Lemma gr_agrees {A} (f : A -> out T) (h : heap) (x : heap * mres A) (r : res A) :
  (forall a, failed (f a) = false) ->
  res_le (embr idf x) r -> fst x = h -> snd x <> MFuel -> agrees h (to_out f x) (gr f (henc h) r).
Proof.
  intros Hf L K N. destruct x as [h' [a| | |]]; cbn [embr to_out snd fst] in *; subst h'.
  - destruct L as [L|L]; [discriminate|]. rewrite <- L. unfold agrees, idf. cbn [gr fst snd]. rewrite Hf. split; reflexivity.
  - destruct L as [L|L]; [discriminate|]. rewrite <- L. split; reflexivity.
  - destruct L as [L|L]; [discriminate|]. rewrite <- L. split; reflexivity.
  - exfalso; apply N; reflexivity.
Qed.

Lemma gptr_ok_eq (h : heap) (p : ptr) : gptr_ok (henc h) p = ptr_ok h p.
Proof. destruct p as [a|]; [|reflexivity]. cbn [gptr_ok ptr_ok]. rewrite henc_length. reflexivity. Qed.

Lemma out_nofuel {A} (f : A -> out T) (x : heap * mres A) :
  (forall a, f a <> RFuel) -> snd (to_out f x) <> RFuel -> snd x <> MFuel.
Proof. intros Hf N E. destruct x as [h' [a| | |]]; cbn in *; try discriminate E. apply N; reflexivity. Qed.

Theorem gstep_agrees : forall (h : heap) (o : op T),
  snd (Mo.step T zero h o) <> RFuel ->
  agrees h (Mo.step T zero h o) (gstep (henc h) o).
Proof.
  intros h o N. unfold gstep, Mo.step in *.
  replace (forallb (gptr_ok (henc h)) (op_ptrs o)) with (forallb (ptr_ok h) (op_ptrs o))
    by (apply RP.forallb_agree; intro p; symmetry; apply gptr_ok_eq).
  destruct (forallb (ptr_ok h) (op_ptrs o)); [|split; reflexivity].
  destruct o; cbn [Mo.exec gexec] in *; rewrite ?henc_length.
  - apply gw_agrees; [reflexivity | apply C10_ring_new_is_source; lia | eapply out_nofuel; [|exact N]; discriminate].
  - apply gw_agrees; [reflexivity | apply C10_ring_of_is_source; lia | eapply out_nofuel; [|exact N]; discriminate].
  - apply gw_agrees; [reflexivity | rewrite C10_ring_join_is_source; apply res_le_refl | eapply out_nofuel; [|exact N]; discriminate].
  - apply gw_agrees; [reflexivity | rewrite C10_ring_pop_is_source; apply res_le_refl | eapply out_nofuel; [|exact N]; discriminate].
  - destruct (C10_ring_next_is_source r h) as [E K].
    apply gr_agrees; [reflexivity | rewrite E; apply res_le_refl | exact K | eapply out_nofuel; [|exact N]; discriminate].
  - destruct (C10_ring_prev_is_source r h) as [E K].
    apply gr_agrees; [reflexivity | rewrite E; apply res_le_refl | exact K | eapply out_nofuel; [|exact N]; discriminate].
  - destruct (C10_ring_at_is_source r n h (S (S (size h))) ltac:(lia)) as [L K].
    apply gr_agrees; [reflexivity | exact L | exact K | eapply out_nofuel; [|exact N]; discriminate].
  - destruct (C10_ring_peek_is_source zero r n h (S (S (size h))) ltac:(lia)) as [L K].
    apply gr_agrees; [reflexivity | exact L | exact K | eapply out_nofuel; [|exact N]; discriminate].
  - destruct (C10_ring_len_is_source r h (S (size h)) ltac:(lia)) as [L K].
    apply gr_agrees; [reflexivity | exact L | exact K | eapply out_nofuel; [|exact N]; discriminate].
  - destruct (C10_ring_each_is_source r lim h (S (size h)) ltac:(lia)) as [L K].
    apply gr_agrees; [reflexivity | exact L | exact K | eapply out_nofuel; [|exact N]; discriminate].
  - rewrite (C10_ring_isempty_is_source r h). split; reflexivity.
Qed.

(* ---- histories, through the representation invariant of the model's proofs ---- *)
Lemma a_step_failed_state (st : RS.astate T) (o : op T) :
  failed (snd (RS.a_step T zero st o)) = true -> fst (RS.a_step T zero st o) = st.
Proof.
  unfold RS.a_step. destruct (forallb (RS.a_ok st) (op_ptrs o)); [|reflexivity].
  destruct o; cbn [RS.a_exec]; unfold RS.a_new, RS.a_of, RS.a_make, RS.a_join, RS.a_pop, RS.a_next, RS.a_prev, RS.a_at,
    RS.a_peek, RS.a_len, RS.a_each, RS.a_is_empty, RS.with_cycle;
    repeat match goal with
    | |- context [match ?x with _ => _ end] => destruct x
    end; cbn [fst snd failed]; intros H; try discriminate H; reflexivity.
Qed.

(* one generated step from a heap that represents st: the abstract step's output, and a heap that
   represents the abstract step's state *)
Theorem gstep_sim : forall (h : heap) (st : RS.astate T) (o : op T), Rep h st ->
  snd (gstep (henc h) o) = snd (RS.a_step T zero st o) /\
  exists h', fst (gstep (henc h) o) = henc h' /\ Rep h' (fst (RS.a_step T zero st o)).
Proof.
  intros h st o R. destruct (RP.step_sim T zero h st o R) as [So SR].
  rewrite <- (RingProofsTie.step_tie T zero) in So, SR.
  assert (N : snd (Mo.step T zero h o) <> RFuel) by (rewrite So; apply RP.a_step_nofuel).
  destruct (gstep_agrees h o N) as [A1 A2]. split; [rewrite A1; exact So|].
  rewrite A2. destruct (failed (snd (Mo.step T zero h o))) eqn:F.
  - exists h. split; [reflexivity|]. rewrite So in F. rewrite (a_step_failed_state st o F). exact R.
  - eexists. split; [reflexivity | exact SR].
Qed.

Theorem grun_sim : forall (ops : list (op T)) (h : heap) (st : RS.astate T), Rep h st ->
  grun (henc h) ops = RS.a_run T zero st ops.
Proof.
  induction ops as [|o ops IH]; intros h st R; [reflexivity|]. cbn [grun RS.a_run].
  destruct (gstep_sim h st o R) as [So [h' [Eh R']]].
  destruct (gstep (henc h) o) as [g' r]. destruct (RS.a_step T zero st o) as [st' r']. cbn [fst snd] in *.
  subst r' g'. f_equal. apply IH. exact R'.
Qed.

Theorem grun_heap_sim : forall (ops : list (op T)) (h : heap) (st : RS.astate T), Rep h st ->
  exists h', grun_heap (henc h) ops = henc h' /\ Rep h' (RP.a_run_state T zero st ops).
Proof.
  induction ops as [|o ops IH]; intros h st R; [exists h; split; [reflexivity | exact R]|].
  cbn [grun_heap RP.a_run_state]. destruct (gstep_sim h st o R) as [_ [h' [Eh R']]].
  rewrite Eh. apply IH. exact R'.
Qed.

(* ---- from the empty heap ---- *)
Theorem refinement_source : forall ops : list (op T),
  grun [] ops = RS.a_run T zero (RS.a_empty T zero) ops.
Proof. intro ops. exact (grun_sim ops empty_heap _ (RP.rep_empty T zero)). Qed.

Theorem wellformed_source : forall ops : list (op T),
  exists h', grun_heap [] ops = henc h' /\ Rep h' (RP.a_run_state T zero (RS.a_empty T zero) ops).
Proof. intro ops. exact (grun_heap_sim ops empty_heap _ (RP.rep_empty T zero)). Qed.

End Src.

(* composition with Props/C10_ring.v: on every history the generated functions answer exactly as
   the model does *)
From Mds Require Props.C10_ring.

Theorem run_is_source : forall (T : Type) (zero : T) (ops : list (op T)),
  grun zero [] ops = Mo.run T zero empty_heap ops.
Proof. intros T zero ops. rewrite refinement_source. symmetry. exact (C10_ring.C10_ring_refinement T zero ops). Qed.

Theorem no_hang_source : forall (T : Type) (zero : T) (ops : list (op T)), ~ In RFuel (grun zero [] ops).
Proof. intros T zero ops. rewrite run_is_source. exact (C10_ring.C10_ring_no_hang T zero ops). Qed.
