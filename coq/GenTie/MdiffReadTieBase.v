(* Base of the ties of mdiff/reader.go (Gen/FnMdiffRead.v).

   The model (Mdiff/ReaderModel.v) reads a LIST OF LINES ([split_lines] of the text; readline takes
   the head, unread puts a line back in front) and reduces errors to the failing site ([rerr]).
   The generated code has the diffReader as in the source: a bufio.Reader (an abstract object,
   instantiated here with the byte list still to be read: [X_ReadString] cuts at the delimiter
   and answers io.EOF when there is none), the line counter ln, the saved line (a pointer to a string, as an
   option), and error VALUES ([go_xerr]: formats, wrapped errors, sentinels).

   - the functions of other packages the code calls are function arguments; they are instantiated
     with the functions the model uses for them ([X_CutPrefix] = cut_prefix, [X_Cut] / [X_SplitN] =
     cut_byte, [X_Fields] = fields, [X_Atoi] = atoi64, [X_HasPrefix] = has_prefix, time.Parse =
     the model's parse_time), through [bz] / [zb] (strings are [list Z] there, [list N] here);
   - [lines_of sv t]: the lines a diffReader with saved line sv and remaining text t will deliver;
     [readline_ok]: one call of the generated readline delivers the head of that list;
   - [esite]: the failing site of an error value, read off its format string / message / sentinel
     (through the %%w wrappers "diff header: %%w", "line %%d: read patch header: %%w"): this is where
     the messages of reader.go are tied to the model's enumeration. *)
From Coq Require Import ZArith NArith List Bool Lia.
Require Coq.Strings.String.
From Mds Require Import Mdiff.ReaderModel.
From Mds Require Import Common.FnRt Common.FnHeap Common.FnText GenTie.TieLib GenTie.MdiffFmtTieBase.
From Mds Require Gen.FnMdiffRead.
Import ListNotations.
Local Open Scope Z_scope.

Module R := Gen.FnMdiffRead.

(* ---- strings of the generated code back to the model's bytes ---- *)
Definition bz (s : list Z) : bytes := map Z.to_N s.

Lemma bz_zb b : bz (zb b) = b.
Proof. unfold bz, zb. rewrite map_map. induction b as [|x b IH]; simpl; [reflexivity|]. rewrite N2Z.id, IH. reflexivity. Qed.

Lemma map_bz_zb ls : map bz (map zb ls) = ls.
Proof. rewrite map_map. induction ls as [|l ls IH]; simpl; [reflexivity|]. rewrite bz_zb, IH. reflexivity. Qed.

Lemma str_eqb_zb a b : str_eqb (zb a) (zb b) = bytes_eqb a b.
Proof.
  revert b; induction a as [|x a IH]; intros [|y b]; simpl; try reflexivity.
  rewrite IH. f_equal. destruct (N.eqb_spec x y) as [->|N].
  - apply Z.eqb_refl.
  - apply Z.eqb_neq. intros E. apply N. apply N2Z.inj. exact E.
Qed.

Lemma str_eqb_nil a : str_eqb (zb a) [] = is_nil a.
Proof. destruct a; reflexivity. Qed.

(* ---- the functions of other packages, as the model has them ---- *)
Definition X_CutPrefix (s pfx : list Z) : res (list Z * bool) :=
  match cut_prefix (bz pfx) (bz s) with Some r => Ok (zb r, true) | None => Ok (s, false) end.

Definition X_HasPrefix (s pfx : list Z) : res bool := Ok (has_prefix (bz pfx) (bz s)).

Definition X_Cut (s sep : list Z) : res (list Z * list Z * bool) :=
  match bz sep with
  | [c] => match cut_byte c (bz s) with Some (x, y) => Ok (zb x, zb y, true) | None => Ok (s, [], false) end
  | _ => Panic (PMsg "<tie> strings.Cut with a separator that is not one byte")
  end.

Definition X_SplitN (s sep : list Z) (n : Z) : res (list (list Z)) :=
  match bz sep with
  | [c] => if n =? 2
           then match cut_byte c (bz s) with Some (a, b) => Ok [zb a; zb b] | None => Ok [s] end
           else Panic (PMsg "<tie> strings.SplitN with a limit other than 2")
  | _ => Panic (PMsg "<tie> strings.SplitN with a separator that is not one byte")
  end.

Definition X_Fields (s : list Z) : res (list (list Z)) := Ok (map zb (fields (bz s))).

(* strconv.Atoi: the model's atoi64; its error is opaque *)
Definition X_Atoi (s : list Z) : res (Z * go_xerr) :=
  match atoi64 (bz s) with Some v => Ok (v, None) | None => Ok (0, Some (XExt 1)) end.

(* strings.TrimSuffix *)
Definition z_trim_suffix (s suf : list Z) : list Z :=
  let n := (length s - length suf)%nat in
  if (length suf <=? length s)%nat && str_eqb (skipn n s) suf then firstn n s else s.
Definition X_TrimSuffix (s suf : list Z) : res (list Z) := Ok (z_trim_suffix s suf).

Lemma str_eqb_refl s : str_eqb s s = true.
Proof. induction s as [|x s IH]; simpl; [reflexivity|]. rewrite Z.eqb_refl. exact IH. Qed.

Lemma trim_newline a : z_trim_suffix (a ++ [10]) [10] = a.
Proof.
  unfold z_trim_suffix. rewrite app_length. cbn [length].
  replace (length a + 1 - 1)%nat with (length a) by lia.
  replace (1 <=? length a + 1)%nat with true by (symmetry; apply Nat.leb_le; lia).
  rewrite skipn_app, skipn_all, Nat.sub_diag. cbn [skipn app andb].
  rewrite str_eqb_refl. rewrite firstn_app, firstn_all, Nat.sub_diag. cbn [firstn]. apply app_nil_r.
Qed.

(* bufio.Reader over the bytes still to be read: ReadString(delim) *)
Fixpoint z_read_string (r : list Z) (delim : Z) : list Z * bool * list Z :=
  match r with
  | [] => ([], false, [])
  | c :: r' =>
    if c =? delim then ([c], true, r')
    else let '(l, f, rest) := z_read_string r' delim in (c :: l, f, rest)
  end.
Definition X_ReadString (r : list Z) (delim : Z) : res (list Z * go_xerr * list Z) :=
  let '(l, f, rest) := z_read_string r delim in
  Ok (l, (if f then None else Some (XVar "io.EOF")), rest).
(* bufio.NewReader(r): the io.Reader is the byte list too *)
Definition X_NewReader (r : list Z) : res (list Z) := Ok r.

(* ---- the instantiated functions on strings that come from the model ---- *)
Lemma X_HasPrefix_zb s p : X_HasPrefix (zb s) (zb p) = Ok (has_prefix p s).
Proof. unfold X_HasPrefix. rewrite !bz_zb. reflexivity. Qed.

Lemma X_CutPrefix_zb s p :
  X_CutPrefix (zb s) (zb p) = match cut_prefix p s with Some r => Ok (zb r, true) | None => Ok (zb s, false) end.
Proof. unfold X_CutPrefix. rewrite !bz_zb. reflexivity. Qed.

Lemma X_Cut_zb s c :
  X_Cut (zb s) [Z.of_N c] =
  match cut_byte c s with Some (x, y) => Ok (zb x, zb y, true) | None => Ok (zb s, [], false) end.
Proof. unfold X_Cut. change (bz [Z.of_N c]) with [Z.to_N (Z.of_N c)]. rewrite N2Z.id, bz_zb. reflexivity. Qed.

Lemma X_Fields_zb s : X_Fields (zb s) = Ok (map zb (fields s)).
Proof. unfold X_Fields. rewrite bz_zb. reflexivity. Qed.

Lemma X_Atoi_zb s :
  X_Atoi (zb s) = match atoi64 s with Some v => Ok (v, None) | None => Ok (0, Some (XExt 1)) end.
Proof. unfold X_Atoi. rewrite bz_zb. reflexivity. Qed.

(* ---- the text as lines ---- *)
(* up to the first newline: (line, newline found, text after it) *)
Fixpoint cut_line (t : bytes) : line * bool * bytes :=
  match t with
  | [] => ([], false, [])
  | c :: t' =>
    if N.eqb c 10 then ([], true, t')
    else let '(l, f, r) := cut_line t' in (c :: l, f, r)
  end.

Lemma split_lines_cut c t :
  split_lines (c :: t) = let '(l, _, r) := cut_line (c :: t) in l :: split_lines r.
Proof.
  revert c; induction t as [|d t IH]; intros c.
  - cbn [split_lines cut_line]. destruct (N.eqb c 10); reflexivity.
  - cbn [split_lines cut_line] in *. destruct (N.eqb c 10); [reflexivity|].
    specialize (IH d). cbn [split_lines cut_line] in IH.
    destruct (N.eqb d 10).
    + reflexivity.
    + rewrite IH. destruct (cut_line t) as [[l f] r]. reflexivity.
Qed.

Lemma read_string_cut t :
  z_read_string (zb t) 10 =
  let '(l, f, r) := cut_line t in (zb l ++ (if f then [10] else []), f, zb r).
Proof.
  induction t as [|c t IH]; [reflexivity|].
  cbn [zb map z_read_string cut_line].
  change (map Z.of_N t) with (zb t).
  destruct (N.eqb_spec c 10) as [->|Nq]; [reflexivity|].
  replace (Z.of_N c =? 10) with false
    by (symmetry; apply Z.eqb_neq; intros E; apply Nq; apply N2Z.inj; exact E).
  rewrite IH. destruct (cut_line t) as [[l f] r]. reflexivity.
Qed.

Lemma cut_line_notfound t l r : cut_line t = (l, false, r) -> l = t /\ r = [].
Proof.
  revert l r; induction t as [|c t IH]; intros l r H; cbn [cut_line] in H.
  - inversion H. split; reflexivity.
  - destruct (N.eqb c 10); [discriminate|].
    destruct (cut_line t) as [[l' f'] r'] eqn:E. inversion H; subst.
    destruct (IH l' r eq_refl) as [-> ->]. split; reflexivity.
Qed.

(* the lines a reader with saved line sv and remaining text t will deliver *)
Definition optl {A} (o : option A) : list A := match o with Some a => [a] | None => [] end.
Definition lines_of (sv : option line) (t : bytes) : list line := optl sv ++ split_lines t.

(* what one readline delivers: the line and the text left; None at the end of the input *)
Definition rl_next (sv : option line) (t : bytes) : option (line * bytes) :=
  match sv with
  | Some s => Some (s, t)
  | None => match t with
            | [] => None
            | _ => let '(l, _, r) := cut_line t in Some (l, r)
            end
  end.

Lemma lines_of_next sv t :
  lines_of sv t = match rl_next sv t with None => [] | Some (l, t') => l :: lines_of None t' end.
Proof.
  unfold lines_of, rl_next. destruct sv as [s|]; [reflexivity|].
  cbn [optl app]. destruct t as [|c t]; [reflexivity|].
  rewrite split_lines_cut. destruct (cut_line (c :: t)) as [[l f] r]. reflexivity.
Qed.

Lemma lines_of_saved l t : lines_of (Some l) t = l :: lines_of None t.
Proof. reflexivity. Qed.

(* ---- readline ---- *)
Lemma C14_readline_is_source : forall t sv ln,
  R.diffReader_readline (zb t) ln (option_map zb sv) X_ReadString X_TrimSuffix =
  match rl_next sv t with
  | None => Ok ([], Some (XVar "io.EOF"), zb [], ln, None)
  | Some (l, t') => Ok (zb l, None, zb t', (match sv with Some _ => ln | None => ln + 1 end), None)
  end.
Proof.
  intros t sv ln. unfold R.diffReader_readline, rl_next.
  destruct sv as [s|]; [reflexivity|].
  cbn [option_map go_onil negb]. unfold X_ReadString. rewrite read_string_cut.
  destruct t as [|c t]; [reflexivity|].
  destruct (cut_line (c :: t)) as [[l f] r] eqn:E.
  destruct f; cbn [bind go_xerr_isvar go_xerr_isnil negb].
  - unfold X_TrimSuffix. rewrite trim_newline. reflexivity.
  - destruct (cut_line_notfound _ _ _ E) as [-> ->].
    rewrite app_nil_r. cbn [zb map str_eqb]. reflexivity.
Qed.

(* the same after a call that left no saved line *)
Lemma readline_none : forall t ln,
  R.diffReader_readline (zb t) ln None X_ReadString X_TrimSuffix =
  match rl_next None t with
  | None => Ok ([], Some (XVar "io.EOF"), zb [], ln, None)
  | Some (l, t') => Ok (zb l, None, zb t', ln + 1, None)
  end.
Proof. intros t ln. exact (C14_readline_is_source t None ln). Qed.

Lemma C14_unread_is_source : forall sv l, R.diffReader_unread sv l = Some l.
Proof. reflexivity. Qed.

(* ---- error values: the failing site ---- *)
Local Open Scope string_scope.
Fixpoint esite (e : go_xerrv) : option rerr :=
  match e with
  | XVar n => if String.eqb n "io.EOF" then Some EEof else None
  | XNew m =>
    if String.eqb m "missing right header" then Some ERight
    else if String.eqb m "no patches found" then Some ENoPatch
    else None
  | XExt _ => None
  | XFmt f _ w =>
    if String.eqb f "line %d: unexpected blank line" then Some EBlank
    else if String.eqb f "line %d: invalid change command %q" then Some ECmd
    else if String.eqb f "line %d: invalid line range %q: %w" then Some ESpan
    else if String.eqb f "line %d: left span: %w" then Some ESpan
    else if String.eqb f "line %d: right span: %w" then Some ESpan
    else if String.eqb f "line %d: add got %d lines, want %d" then Some ECount
    else if String.eqb f "line %d: delete got %d lines, want %d" then Some ECount
    else if String.eqb f "line %d: unexpected delete line %q" then Some EEdit
    else if String.eqb f "line %d: unexpected insert line %q" then Some EEdit
    else if String.eqb f "line %d: unexpected --- separator" then Some EEdit
    else if String.eqb f "line %d: invalid chunk header %q" then Some EHeader
    else if String.eqb f "line %d: %w %c" then
      match w with Some (XVar n) => if String.eqb n "mdiff.errUnexpectedPrefix" then Some EPrefix else None | _ => None end
    else if String.eqb f "line %d: missing patch header" then Some EPatchHeader
    else if String.eqb f "line %d: incomplete patch header" then Some EPatchHeader
    else if String.eqb f "diff header: %w" then match w with Some x => esite x | None => None end
    else if String.eqb f "line %d: read patch header: %w" then match w with Some x => esite x | None => None end
    else None
  end.
Local Close Scope string_scope.

(* the error result of a reader and the model's verdict *)
Definition err_is (e : go_xerr) (m : rerr) : Prop :=
  match e with Some x => esite x = Some m | None => False end.

(* ---- encoding of the model's chunks, file headers and patches in the types of Gen/FnMdiffRead.v ---- *)
Definition eencR (e : edit line) : R.Edit (list Z) :=
  R.mk_Edit (op_code (eop e)) (map zb (X e)) (map zb (Y e)).

Definition hencR (c : chunk line) : R.Chunk :=
  R.mk_Chunk (map eencR (edits c)) (LStart c) (LEnd c) (RStart c) (REnd c).

(* the heap holds the chunks cs at the addresses ads *)
Definition cellsR (h : list R.Chunk) (ads : list (option nat)) (cs : list (chunk line)) : Prop :=
  Forall2 (fun a c => go_hget h a = Ok (hencR c)) ads cs.

(* the heap only grew: every old cell is where and what it was *)
Definition hext (h h' : list R.Chunk) : Prop := exists extra, h' = h ++ extra.

Lemma hext_refl h : hext h h.
Proof. exists []. symmetry. apply app_nil_r. Qed.

Lemma hext_trans a b c : hext a b -> hext b c -> hext a c.
Proof. intros [x ->] [y ->]. exists (x ++ y). rewrite app_assoc. reflexivity. Qed.

Lemma hget_ext (h h' : list R.Chunk) a c : hext h h' -> go_hget h a = Ok c -> go_hget h' a = Ok c.
Proof.
  intros [x ->]. unfold go_hget. destruct a as [a|]; [|discriminate].
  destruct (nth_error h a) as [c0|] eqn:E; [|discriminate].
  intros H. rewrite nth_error_app1 by (apply nth_error_Some; congruence). rewrite E. exact H.
Qed.

Lemma cellsR_ext h h' ads cs : hext h h' -> cellsR h ads cs -> cellsR h' ads cs.
Proof. intros He H. induction H; constructor; [eapply hget_ext; eassumption | assumption]. Qed.

Lemma cellsR_snoc h ads cs c : cellsR h ads cs -> cellsR (h ++ [hencR c]) (ads ++ [Some (length h)]) (cs ++ [c]).
Proof.
  intros H. apply Forall2_app.
  - eapply cellsR_ext; [exists [hencR c]; reflexivity | exact H].
  - constructor; [|constructor]. unfold go_hget. rewrite nth_error_app2 by lia. rewrite Nat.sub_diag. reflexivity.
Qed.

Section TimeEnc.
Variable time : Type.
Definition fiencR (f : file_info time) : R.FileInfo time :=
  R.mk_FileInfo (zb (fi_left f)) (zb (fi_right f)) (fi_ltime f) (fi_rtime f) [].
End TimeEnc.
Arguments fiencR {time}.
