(* mdiff/reader.go: readUnifiedHeader = the model's read_uheader.  End of input before the first
   line is not an error (the repaired reader, F9); a first line without "--- " is unread; io.EOF
   after the left header is returned as it is (the model's EEof); "missing right header" = ERight;
   the FileInfo is built field by field from the two parseFileLine calls and published through
   r.fileInfo = &fi (an optional value: nobody writes through that pointer). *)
From Coq Require Import ZArith NArith List Bool Lia.
Require Coq.Strings.String.
From Mds Require Import Mdiff.ReaderModel.
From Mds Require Import Common.FnRt Common.FnHeap Common.FnText GenTie.TieLib GenTie.MdiffFmtTieBase
  GenTie.MdiffReadTieBase GenTie.MdiffReadTieSpan.
Import ListNotations.
Local Open Scope Z_scope.

Section Time.
Variable time : Type.
Variable zero_time : time.
Variable parse_time : bytes -> option time.
Notation XP := (X_Parse time zero_time parse_time).

Lemma C14_readUnifiedHeader_is_source : forall ls t sv ln fi0 fuel,
  lines_of sv t = ls -> (1 < fuel)%nat ->
  exists t' ln' sv',
  match read_uheader time zero_time parse_time ls with
  | ROk (fi, rest) =>
    lines_of sv' t' = rest /\
    R.readUnifiedHeader (zb t) ln (option_map zb sv) fi0 X_ReadString X_TrimSuffix X_CutPrefix X_Cut XP zero_time fuel
    = Ok (None, zb t', ln', option_map zb sv', match fi with Some f => Some (fiencR f) | None => fi0 end)
  | RErr e =>
    exists x, esite x = Some e /\
    R.readUnifiedHeader (zb t) ln (option_map zb sv) fi0 X_ReadString X_TrimSuffix X_CutPrefix X_Cut XP zero_time fuel
    = Ok (Some x, zb t', ln', option_map zb sv', fi0)
  end.
Proof.
  intros ls t sv ln fi0 fuel Hl Hf. unfold R.readUnifiedHeader.
  rewrite C14_readline_is_source. rewrite lines_of_next in Hl.
  destruct (rl_next sv t) as [[l t1]|].
  2:{ subst ls. cbn [bind go_xerr_isvar String.eqb Ascii.eqb Bool.eqb read_uheader].
      exists [], ln, None. split; reflexivity. }
  subst ls. cbn [bind go_xerr_isvar go_xerr_isnil negb read_uheader].
  change (go_str "--- ") with (zb s_mmm). rewrite X_CutPrefix_zb.
  destruct (cut_prefix s_mmm l) as [lhs|]; cbn [bind negb].
  - (* a header *)
    change [go_str "2006-01-02 15:04:05.999999 -0700"] with [go_str "2006-01-02 15:04:05.999999 -0700"].
    rewrite (C14_parseFileLine_is_source time zero_time parse_time lhs _ fuel Hf).
    destruct (parse_file_line time zero_time parse_time lhs) as [lname ltime]. cbn [bind].
    rewrite readline_none. cbn [rl_next].
    rewrite (lines_of_next None t1). cbn [rl_next].
    destruct t1 as [|c t1].
    + (* end of input after the left header *)
      cbn [bind go_xerr_isnil negb].
      exists [], (match sv with Some _ => ln | None => ln + 1 end), None.
      exists (XVar "io.EOF"). split; reflexivity.
    + destruct (cut_line (c :: t1)) as [[r f] t2]. cbn [bind go_xerr_isnil negb].
      change (go_str "+++ ") with (zb s_ppp). rewrite X_CutPrefix_zb.
      destruct (cut_prefix s_ppp r) as [rhs|]; cbn [bind negb].
      * rewrite (C14_parseFileLine_is_source time zero_time parse_time rhs _ fuel Hf).
        destruct (parse_file_line time zero_time parse_time rhs) as [rname rtime]. cbn [bind].
        exists t2, (match sv with Some _ => ln | None => ln + 1 end + 1), None.
        split; reflexivity.
      * exists t2, (match sv with Some _ => ln | None => ln + 1 end + 1), None.
        exists (XNew "missing right header"). split; reflexivity.
  - (* no header: the line is unread *)
    rewrite C14_unread_is_source.
    exists t1, (match sv with Some _ => ln | None => ln + 1 end), (Some l).
    split; [apply lines_of_saved | reflexivity].
Qed.
End Time.

Print Assumptions C14_readUnifiedHeader_is_source.
