(* ring/ring.go: newRing, Join, Pop, Next, Prev, IsEmpty -- model = generated function, for every
   heap and every pointer argument (see RingTieBase.v for the representation). *)
From Coq Require Import ZArith List Bool Arith Lia.
From Mds Require Import Gen.RingIdx Ring.RingBase.
From Mds Require Import Common.FnRt Common.FnHeap GenTie.TieLib GenTie.RingTieBase.
Import ListNotations.
Import RingNotations.

Section Ops.
Context {T : Type}.
Variable zero : T.
Notation heap := (RingBase.heap T).

(* func newRing[T any]() *Ring[T] { r := new(Ring[T]); r.next = r; r.prev = r; return r } *)
Theorem C10_ring_newRing_is_source : forall (h : heap),
  G.newRing (henc h) zero = embw idf (Mo.new_ring T zero h).
Proof.
  intros h. rewrite mp_new_ring. unfold G.newRing, Pl.new_ring.
  rewrite hnew_alloc. unfold RingBase.bind at 1. unfold alloc at 1.
  set (h1 := h ++ [mkCell zero None None]). set (r := Some (size h)).
  gstep. unfold RingBase.bind at 1.
  destruct (set_next r r h1) as [h2 [[]| | |]]; try reflexivity.
  gstep. unfold RingBase.bind at 1.
  destruct (set_prev r r h2) as [h3 [[]| | |]]; try reflexivity.
Qed.

(* Next, Prev: the generated functions read the heap; the model leaves it unchanged *)
Theorem C10_ring_next_is_source : forall (r : ptr) (h : heap),
  G.Ring_Next r (henc h) = embr idf (Mo.next_of r h) /\ fst (Mo.next_of r h) = h.
Proof.
  intros r h. rewrite mp_next_of. unfold G.Ring_Next, Pl.next_of. split; [|apply get_next_heap].
  gstep. destruct (get_next r h) as [h' [x| | |]]; reflexivity.
Qed.

Theorem C10_ring_prev_is_source : forall (r : ptr) (h : heap),
  G.Ring_Prev r (henc h) = embr idf (Mo.prev_of r h) /\ fst (Mo.prev_of r h) = h.
Proof.
  intros r h. rewrite mp_prev_of. unfold G.Ring_Prev, Pl.prev_of. split; [|apply get_prev_heap].
  gstep. destruct (get_prev r h) as [h' [x| | |]]; reflexivity.
Qed.

Theorem C10_ring_isempty_is_source : forall (r : ptr) (h : heap),
  Mo.is_empty r h = (h, MOk (G.Ring_IsEmpty r)).
Proof.
  intros r h. unfold Mo.is_empty, G.Ring_IsEmpty, isempty_ret, ret.
  rewrite enc_nil. reflexivity.
Qed.

(* Join: the short-circuit r == s || r.next == s, the two reads, the four stores in source order *)
Theorem C10_ring_join_is_source : forall (r s : ptr) (h : heap),
  G.Ring_Join r s (henc h) = embw idf (Mo.join r s h).
Proof.
  intros r s h. rewrite mp_join. unfold G.Ring_Join, Pl.join.
  unfold RingBase.bind at 1. change (ptr_eqb r s) with (go_peq r s). unfold join_early.
  destruct (go_peq r s) eqn:Ers.
  - cbn [bind ret]. rewrite enc_eqb, Ers. reflexivity.
  - gstep. mload (@get_next T) (@get_next_heap T) r h rn.
    cbn [bind]. rewrite !enc_eqb, Ers. cbn [orb].
    destruct (go_peq rn s); [reflexivity|].
    gstep. unfold RingBase.bind at 1. mload (@get_next T) (@get_next_heap T) r h rnext.
    gstep. unfold RingBase.bind at 1. mload (@get_prev T) (@get_prev_heap T) s h sprev.
    gstep. unfold RingBase.bind at 1.
    destruct (set_next r s h) as [h1 [[]| | |]]; try reflexivity.
    gstep. unfold RingBase.bind at 1.
    destruct (set_prev s r h1) as [h2 [[]| | |]]; try reflexivity.
    gstep. unfold RingBase.bind at 1.
    destruct (set_next sprev rnext h2) as [h3 [[]| | |]]; try reflexivity.
    gstep. unfold RingBase.bind at 1.
    destruct (set_prev rnext sprev h3) as [h4 [[]| | |]]; reflexivity.
Qed.

(* Pop: the short-circuit r != nil && r.prev != r, the reads (r.next and r.prev are read AGAIN for
   the first two stores), the four stores in source order; returns r *)
Theorem C10_ring_pop_is_source : forall (r : ptr) (h : heap),
  G.Ring_Pop r (henc h) = embw idf (Mo.pop r h).
Proof.
  intros r h. rewrite mp_pop. unfold G.Ring_Pop, Pl.pop.
  unfold RingBase.bind at 1. change (ptr_eqb r None) with (go_peq r None). unfold pop_cond.
  destruct r as [a|].
  2:{ reflexivity. }
  cbn [go_peq go_pnil negb].
  gstep. mload (@get_prev T) (@get_prev_heap T) (Some a) h rp.
  cbn [bind]. rewrite enc_nil, enc_eqb. cbn [go_pnil negb andb].
  unfold RingBase.bind at 1.
  destruct (go_peq rp (Some a)); cbn [negb]; [reflexivity|].
  match goal with |- bind ?X _ = embw _ (let (_, _) := ?M h in _) => assert (HX : X = embh (M h)) end.
  { gstep. unfold RingBase.bind at 1. mload (@get_prev T) (@get_prev_heap T) (Some a) h rprev.
    gstep. unfold RingBase.bind at 1. mload (@get_next T) (@get_next_heap T) (Some a) h rnext.
    gstep. unfold RingBase.bind at 1. mload (@get_next T) (@get_next_heap T) (Some a) h x.
    gstep. unfold RingBase.bind at 1.
    destruct (set_next rprev x h) as [h1 [[]| | |]]; try reflexivity.
    gstep. unfold RingBase.bind at 1. mload (@get_prev T) (@get_prev_heap T) (Some a) h1 y.
    gstep. unfold RingBase.bind at 1.
    destruct (set_prev rnext y h1) as [h2 [[]| | |]]; try reflexivity.
    gstep. unfold RingBase.bind at 1.
    destruct (set_prev (Some a) (Some a) h2) as [h3 [[]| | |]]; try reflexivity.
    gstep. unfold RingBase.bind at 1.
    destruct (set_next (Some a) (Some a) h3) as [h4 [[]| | |]]; reflexivity. }
  rewrite HX. match goal with |- context[embh (?M h)] => destruct (M h) as [h' [[]| | |]] end; reflexivity.
Qed.

End Ops.

Print Assumptions C10_ring_newRing_is_source.
Print Assumptions C10_ring_next_is_source.
Print Assumptions C10_ring_prev_is_source.
Print Assumptions C10_ring_isempty_is_source.
Print Assumptions C10_ring_join_is_source.
Print Assumptions C10_ring_pop_is_source.
