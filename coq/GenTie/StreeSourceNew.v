(* stree, source-level histories that START FROM THE GENERATED CONSTRUCTOR (definitions of the
   machine: StreeSource.v; simulation: StreeSourceSim.v; constructor tie: StreeTieNew.v).

   [gnew]: the generated New(β, compare, keys...) run on a heap h0 with len(keys)+1 units of fuel; the
   Tree object a history continues with is READ OFF THE RECORD New returns: root, size, max are the
   state [gst]; compare, β and limit (the closure limitFunc(β) stored in the field) are the
   parameters the generated methods are called with.

   history_source_new: outputs of every history on that object = the sorted-list reference started
   from a list l that is a sorted de-duplication of the keys (strictly ascending, made of given
   keys, one for every equivalence class: WHICH representative is the runtime's choice, because
   slices.SortFunc is not stable); no step panics or runs out of fuel.
   new_height_source: the cells reachable from the root New returns lie at depth <= floor(log2 size)
   and one lies at exactly that depth: the tree has the minimum height. *)
From Coq Require Import ZArith List Bool Arith Lia.
From Mds Require Import Gen.StreeConst Gen.StreeNode.
From Mds Require Import Common.FnRt Common.FnHeap GenTie.TieLib GenTie.StreeTieBase GenTie.StreeSep
  GenTie.StreeSource GenTie.StreeSourceSim GenTie.StreeSourceHeight GenTie.StreeTieNew.
From Mds Require Stree.StreeSpec Stree.StreeProofsBase Stree.StreeProofsHist Stree.HeightBasics.
Import ListNotations.
Local Open Scope Z_scope.

(* the Tree object as the machine of StreeSource.v sees it *)
Definition gst_of {T : Type} (tr : G.Tree T) (h : list (G.node T)) : gst T :=
  mk_gst h (G.Tree_root tr) (G.Tree_size tr) (G.Tree_max tr).

(* l is a sorted de-duplication of keys *)
Definition sorted_dedup {T : Type} (cmp : T -> T -> Z) (keys l : list T) : Prop :=
  SP.sorted cmp l /\ (forall x, In x l -> In x keys) /\
  (forall k, In k keys -> exists x, In x l /\ cmp k x = 0).

Section FromNew.
Context {T : Type}.
Notation heap := (list (G.node T)).
Variable cmp : T -> T -> Z.
Hypothesis HP : SP.total_preorder cmp.
Variable limitFunc : Z -> Z -> Z.
Variable srt : list ptr -> (unit -> ptr -> ptr -> res (Z * unit)) -> res (list ptr).
Variable cpt : list ptr -> (unit -> ptr -> ptr -> res (bool * unit)) -> res (list ptr).
Hypothesis Hsrt : @sort_contract T srt.
Hypothesis Hcpt : @compact_contract cpt.
Variable zero : T.

Definition gnew (b : Z) (keys : list T) (h0 : heap) : res (G.Tree T * heap) :=
  G.New b cmp keys limitFunc srt cpt h0 (S (length keys)).

(* the history on the object New returned: the methods are handed the FIELDS of the record *)
Definition grun_tree (tr : G.Tree T) (h : heap) (ops : list (sop T)) : list (gout T) :=
  grun (G.Tree_compare tr) (fun _ => G.Tree_limit tr) zero (G.Tree_β tr) (gst_of tr h) ops.

Definition gexec_tree (tr : G.Tree T) (h : heap) (ops : list (sop T)) : gst T :=
  gexec (G.Tree_compare tr) (fun _ => G.Tree_limit tr) zero (G.Tree_β tr) (gst_of tr h) ops.

(* the model's New: what an accepted oracle value gives *)
Lemma model_new (b : Z) (keys : list T) (picks : list nat) (t : SM.Tree T) :
  SM.New cmp b keys picks = SM.Ok t ->
  exists l, PH.rel T cmp t l /\ sorted_dedup cmp keys l.
Proof.
  intros E. pose proof (PH.New_ok T cmp HP b keys picks) as N. rewrite E in N.
  destruct N as [_ [l [S [R _]]]]. exists l. split; [exact R|].
  destruct keys as [|k keys'].
  - injection S as <-. split; [exact I|]. split; intros x [].
  - apply (PH.s_new_choice T cmp HP _ _ _ S).
Qed.

Theorem gnew_sim (b : Z) (keys : list T) (h0 : heap) : 0 <= b <= 1000 ->
  exists (tr : G.Tree T) (h : heap) (t : SM.Tree T) (l : list T),
    gnew b keys h0 = Ok (tr, h) /\
    G.Tree_compare tr = cmp /\ G.Tree_β tr = b /\ G.Tree_limit tr = limitFunc b /\
    sim b h0 (gst_of tr h) t /\ PH.rel T cmp t l /\ sorted_dedup cmp keys l /\
    (exists picks, SM.New cmp b keys picks = SM.Ok t).
Proof.
  intros Hb.
  destruct (new_is_source cmp HP limitFunc srt cpt Hsrt Hcpt b keys h0 (S (length keys)) Hb ltac:(lia))
    as [picks [t [rt [h' [Em [Eg [Eb [F [R [HF Fr]]]]]]]]]].
  destruct (model_new b keys picks t Em) as [l [Rl Sd]].
  eexists _, h', t, l. split; [exact Eg|]. cbn [G.Tree_compare G.Tree_β G.Tree_limit].
  split; [reflexivity|]. split; [reflexivity|]. split; [reflexivity|].
  split; [|split; [exact Rl|split; [exact Sd|exists picks; exact Em]]].
  unfold sim, gst_of. cbn [g_heap g_root g_size g_max G.Tree_root G.Tree_size G.Tree_max].
  split; [reflexivity|]. split; [reflexivity|]. split; [exact Eb|]. exists F. auto.
Qed.

(* C01 from the generated constructor *)
Theorem history_source_new (b : Z) (keys : list T) (h0 : heap) (ops : list (sop T)) : 0 <= b <= 1000 ->
  exists (tr : G.Tree T) (h : heap) (l : list T),
    gnew b keys h0 = Ok (tr, h) /\ sorted_dedup cmp keys l /\
    G.Tree_size tr = Z.of_nat (length l) /\ G.Tree_max tr = Z.of_nat (length l) /\ G.Tree_β tr = b /\
    frame h0 h [] /\
    grun_tree tr h ops = ref_run cmp zero l ops /\
    Forall (fun x => (forall k, x <> GPanic k) /\ x <> GFuel) (grun_tree tr h ops).
Proof.
  intros Hb.
  destruct (gnew_sim b keys h0 Hb) as [tr [h [t [l [Eg [Ec [Eb [El [Hs [Rl [Sd [picks Em]]]]]]]]]]]].
  exists tr, h, l. split; [exact Eg|]. split; [exact Sd|].
  pose proof Hs as Hs0.
  destruct Hs as [Esz [Emx [_ [F [_ [_ Fr]]]]]]. cbn [gst_of g_size g_max g_heap] in Esz, Emx, Fr.
  assert (Z1 : SM.tsize t = Z.of_nat (length l)) by (destruct Rl as (_ & _ & Z1); exact Z1).
  assert (Z2 : SM.maxsize t = SM.tsize t).
  { revert Em. unfold SM.New. destruct (new_beta_bad b); [discriminate|].
    destruct (new_has_keys _); [|intros E; injection E as <-; reflexivity].
    destruct (SM.sort_compact _ _ _); cbn [SM.bind]; try discriminate.
    destruct (SM.extract _); cbn [SM.bind]; try discriminate.
    intros E; injection E as <-. reflexivity. }
  split; [rewrite Esz; exact Z1|]. split; [rewrite Emx, Z2; exact Z1|]. split; [exact Eb|]. split; [exact Fr|].
  assert (E : grun_tree tr h ops = ref_run cmp zero l ops).
  { unfold grun_tree. rewrite Ec, Eb.
    rewrite (grun_sim cmp HP (fun _ => G.Tree_limit tr) zero b h0 ops _ t l); [| |exact Rl].
    - rewrite (PH.run_from_refines T cmp HP _ (map to_op ops) [t] [l]) by (constructor; [exact Rl|constructor]).
      apply spec_single.
    - exact Hs0. }
  split; [exact E|]. rewrite E. apply ref_no_failure.
Qed.

(* ---- C02: the tree New builds has the minimum height ---- *)

(* some cell of a non-empty tree-shaped region lies at depth exactly [height] *)
Lemma trepr_deepest (h : heap) : forall (a : option nat) (t : SM.tree T) (F : list nat),
  trepr h a t F -> 0 <= SM.height t -> exists x, hreach h a x (Z.to_nat (SM.height t)).
Proof.
  intros a t F R.
  induction R as [|a c l r Fl Fr Hn _ IHl _ IHr _ _ _]; intros Hh; [cbn [SM.height] in Hh; lia|].
  pose proof (HeightBasics.height_ge_m1 T l) as Gl. pose proof (HeightBasics.height_ge_m1 T r) as Gr.
  cbn [SM.height] in *.
  destruct (Z_le_gt_dec (SM.height r) (SM.height l)) as [C|C].
  - rewrite Z.max_l by lia. destruct (Z.eq_dec (SM.height l) (-1)) as [E|E].
    + rewrite E. exists a. change (Z.to_nat (1 + -1)) with O. eapply hreach_here. exact Hn.
    + destruct (IHl ltac:(lia)) as [x Hx]. exists x.
      replace (Z.to_nat (1 + SM.height l)) with (S (Z.to_nat (SM.height l))) by lia.
      eapply hreach_left; [exact Hn|exact Hx].
  - rewrite Z.max_r by lia. destruct (IHr ltac:(lia)) as [x Hx]. exists x.
    replace (Z.to_nat (1 + SM.height r)) with (S (Z.to_nat (SM.height r))) by lia.
    eapply hreach_right; [exact Hn|exact Hx].
Qed.

Lemma model_new_height (b : Z) (keys : list T) (picks : list nat) (t : SM.Tree T) :
  SM.New cmp b keys picks = SM.Ok t -> keys <> [] ->
  1 <= SM.tsize t /\ SM.height (SM.root t) = Z.log2 (SM.tsize t).
Proof.
  unfold SM.New. destruct (new_beta_bad b); [discriminate|]. intros E Hk.
  destruct keys as [|k0 keys']; [congruence|].
  replace (new_has_keys (Z.of_nat (length (k0 :: keys')))) with true in E
    by (symmetry; unfold new_has_keys; apply negb_true_iff, Z.eqb_neq; cbn [length]; lia).
  destruct (SM.sort_compact cmp (k0 :: keys') picks) as [kept| | |] eqn:Sc; cbn [SM.bind] in E; try discriminate.
  assert (Hne : kept <> []).
  { unfold SM.sort_compact in Sc. destruct (SM.picked _ _) as [kp|]; [|discriminate].
    destruct (SM.strictly_asc cmp kp && SM.covers cmp (k0 :: keys') kp)%bool eqn:B; [|discriminate].
    injection Sc as <-. apply andb_true_iff in B. destruct B as [_ B]. unfold SM.covers in B.
    cbn [forallb] in B. apply andb_true_iff in B. destruct B as [B _].
    destruct kp; [cbn in B; discriminate|discriminate]. }
  destruct (HeightBasics.extract_height kept Hne) as [rt [Ex [Hh _]]].
  rewrite Ex in E. cbn [SM.bind] in E. injection E as <-. cbn [SM.tsize SM.root]. unfold new_size.
  split; [destruct kept; [congruence|cbn [length]; lia]|exact Hh].
Qed.

Theorem new_height_source (b : Z) (keys : list T) (h0 : heap) : 0 <= b <= 1000 -> keys <> [] ->
  exists (tr : G.Tree T) (h : heap),
    gnew b keys h0 = Ok (tr, h) /\ 1 <= G.Tree_size tr <= Z.of_nat (length keys) /\
    (exists t F, trepr h (G.Tree_root tr) t F /\ Z.of_nat (length F) = G.Tree_size tr /\
       (forall x, In x F <-> exists d, hreach h (G.Tree_root tr) x d)) /\
    (forall x d, hreach h (G.Tree_root tr) x d -> Z.of_nat d <= Z.log2 (G.Tree_size tr)) /\
    (exists x, hreach h (G.Tree_root tr) x (Z.to_nat (Z.log2 (G.Tree_size tr)))).
Proof.
  intros Hb Hk.
  destruct (gnew_sim b keys h0 Hb) as [tr [h [t [l [Eg [_ [_ [_ [Hs [Rl [Sd [picks Em]]]]]]]]]]]].
  exists tr, h. split; [exact Eg|].
  destruct Hs as [Esz [_ [_ [F [R _]]]]]. cbn [gst_of g_size g_heap g_root] in Esz, R.
  destruct (model_new_height b keys picks t Em Hk) as [S1 Hh]. rewrite Esz.
  assert (Cn : Z.of_nat (length F) = SM.tsize t).
  { rewrite (trepr_count _ _ _ _ R). rewrite (rel_count cmp t l Rl). destruct Rl as (_ & _ & Z1). lia. }
  split.
  { split; [exact S1|]. destruct Rl as (_ & _ & Z1). rewrite Z1. apply inj_le.
    destruct Sd as [Ss [Sin _]].
    apply NoDup_incl_length; [|exact Sin].
    clear - Ss HP. induction l as [|x r IH]; [constructor|]. destruct Ss as [S1 S2].
    constructor; [|apply IH; exact S2]. intros X. specialize (S1 x X).
    pose proof (SP.cmp_flip cmp HP x x). lia. }
  split.
  { exists (SM.root t), F. split; [exact R|]. split; [exact Cn|]. intros x. split.
    - apply (trepr_reach h _ _ _ R).
    - intros [d Hd]. clear - R Hd. revert x d Hd.
      induction R as [|a c l0 r Fl Fr Hn _ IHl _ IHr _ _ _]; intros x d Hd; [inversion Hd|].
      inversion Hd as [a0 c0 Hn0|a0 c0 x0 d0 Hn0 Hr0|a0 c0 x0 d0 Hn0 Hr0]; subst.
      + left. reflexivity.
      + rewrite Hn in Hn0. injection Hn0 as <-. right. apply in_app_iff. left. eapply IHl. exact Hr0.
      + rewrite Hn in Hn0. injection Hn0 as <-. right. apply in_app_iff. right. eapply IHr. exact Hr0. }
  split.
  - intros x d Hd. rewrite <- Hh. apply (hreach_height h _ _ _ R x d Hd).
  - rewrite <- Hh. apply (trepr_deepest h _ _ _ R). rewrite Hh. apply Z.log2_nonneg.
Qed.

End FromNew.
