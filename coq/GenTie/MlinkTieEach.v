(* mlink/list.go: Each and Len.  Each's callback receives the closure of Len's range-over-func
   loop (`for range lst.Each { n++ }`), so the generated Each threads a callback state:
   f : St -> T -> res (bool * St).  The model's each takes a pure f : T -> bool and answers the
   list of values f was called with.  Tie: for every f and every state update u, the generated
   Each with the callback (f v, u st v) ends in the state fold_left u <the model's list> st; with
   u = snoc that state IS the model's list (C10_mlink_each_is_source); Len is the instance
   f = true, u = +1. *)
From Coq Require Import ZArith List Bool Arith Lia.
From Mds Require Gen.MlinkFacts Gen.MlinkList.
From Mds Require Import Mlink.MlinkModel.
From Mds Require Import Common.FnRt Common.FnHeap GenTie.TieLib GenTie.MlinkTieBase GenTie.MlinkTieCursor GenTie.MlinkTieMut GenTie.MlinkTieList.
Import ListNotations.
Local Open Scope Z_scope.

Section Each.
Context {T : Type}.
Variable zero : T.
Notation heap := (MlinkModel.heap T).
Notation cst := (MlinkModel.cst T).

Definition each_end {St} (t : ctl (St * G.Cursor) St) : res St :=
  match t with Ret x => Ok x | Next (st, _) => Ok st end.

Lemma each_loop_le : forall St (f : T -> bool) (u : St -> T -> St) (fl gas fuel : nat) (st : St) (h : heap) (p : nat),
  (gas >= fl)%nat ->
  res_le (embf (fun vs _ => fold_left u vs st) (each_loop T zero fl f (h, p)))
         (bind (G.List_Each_loop1 fuel gas (fun s v => Ok (f v, u s v)) zero (henc h) st (G.mk_Cursor (Some p))) each_end) /\
  final (each_loop T zero fl f (h, p)) (fun s => fst s = h).
Proof.
  intros St f u. induction fl as [|fl IH]; intros gas fuel st h p Hg; [split; fin|].
  destruct gas as [|gas]; [lia|]. cbn [each_loop G.List_Each_loop1 G.Cursor_pred].
  mcall (C10_mlink_atend_is_source h p) (cur_at_end T (h, p)) ae; try (split; fin).
  unfold MlinkList.each_cond, MlinkList.each_stop. change (called MlinkList.each_ncalls_next) with true. cbv iota.
  destruct (negb ae); [|split; fin].
  mcall (C10_mlink_get_is_source zero h p) (cur_get T zero (h, p)) v; try (split; fin).
  destruct (negb (f v)); [split; fin|].
  destruct (C10_mlink_next_is_source h p) as [N1 N2]. rewrite N1. clear N1.
  destruct (cur_next T (h, p)) as [b [h2 p2]|k [h2 p2]| |]; cbn [final fst] in N2; try subst h2;
    cbn [embf bind MlinkModel.bind fst snd]; try (split; fin).
  destruct (IH gas fuel (u st v) h p2 ltac:(lia)) as [L K].
  destruct (each_loop T zero fl f (h, p2)) as [vs [h3 p3]|k [h3 p3]| |]; cbn [final fst] in K; try subst h3;
    cbn [embf MlinkModel.bind fold_left] in *; split; try exact L; fin.
Qed.

Theorem C10_mlink_each_fold_is_source : forall St (f : T -> bool) (u : St -> T -> St) (st : St) (h : heap) (fuel : nat),
  (fuel > length h)%nat ->
  res_le (embf (fun vs _ => fold_left u vs st) (list_each T zero f h))
         (G.List_Each (Some O) (fun s v => Ok (f v, u s v)) st (henc h) zero fuel) /\
  final (list_each T zero f h) (fun s => fst s = h).
Proof.
  intros St f u st h fuel Hf. unfold list_each, G.List_Each, cfirst.
  change (G.List_cfirst (Some O)) with (G.mk_Cursor (Some O)).
  destruct (each_loop_le St f u (S (length h)) fuel fuel st h O Hf) as [L K]. split; [|exact K].
  destruct (G.List_Each_loop1 fuel fuel (fun s v => Ok (f v, u s v)) zero (henc h) st (G.mk_Cursor (Some O))) as [[[s c]|x]| |]; exact L.
Qed.

(* the model's observable: the values the callback received, in order *)
Theorem C10_mlink_each_is_source : forall (f : T -> bool) (h : heap) (fuel : nat),
  (fuel > length h)%nat ->
  res_le (embf (fun vs _ => vs) (list_each T zero f h))
         (G.List_Each (Some O) (fun s v => Ok (f v, s ++ [v])) [] (henc h) zero fuel) /\
  final (list_each T zero f h) (fun s => fst s = h).
Proof.
  intros f h fuel Hf.
  destruct (C10_mlink_each_fold_is_source (list T) f (fun s v => s ++ [v]) [] h fuel Hf) as [L K]. split; [|exact K].
  assert (E : forall (vs : list T) acc, fold_left (fun s v => s ++ [v]) vs acc = acc ++ vs).
  { induction vs as [|x vs IH]; intros acc; cbn [fold_left]; [rewrite app_nil_r; reflexivity|].
    rewrite IH, <- app_assoc. reflexivity. }
  destruct (list_each T zero f h) as [vs s|k s| |]; cbn [embf] in *; try exact L.
  rewrite E in L. exact L.
Qed.

(* func (lst *List[T]) Len() (n int) { for range lst.Each { n++ }; return } *)
Theorem C10_mlink_len_is_source : forall (h : heap) (fuel : nat),
  (fuel > length h)%nat ->
  res_le (embf (fun a _ => a) (list_len T zero h)) (G.List_Len (Some O) (henc h) zero fuel) /\
  final (list_len T zero h) (fun s => fst s = h).
Proof.
  intros h fuel Hf. unfold list_len, G.List_Len, MlinkList.len_inc.
  destruct (C10_mlink_each_fold_is_source Z (fun _ => true) (fun n _ => n + 1) 0 h fuel Hf) as [L K].
  destruct (list_each T zero (fun _ => true) h) as [vs s|k s| |]; cbn [embf MlinkModel.bind final] in *; split; try exact L; try exact K; fin.
Qed.

End Each.

Print Assumptions C10_mlink_each_fold_is_source.
Print Assumptions C10_mlink_each_is_source.
Print Assumptions C10_mlink_len_is_source.
