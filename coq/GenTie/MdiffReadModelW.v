(* The reader model of C14 (Mdiff/ReaderModel.v) with its int arithmetic as an argument.

   ReaderModel.v fixes Go's 64-bit wrap-around ([wrap64]) for the sums and differences the readers
   form from parsed numbers; the function translator's convention is unbounded Z (int overflow is
   not modelled, see notes/fn-translator.md).  The definitions below are the model's, statement for
   statement, with [wrap64] replaced by the section variable [wrap]; [*_is_model] prove by
   [reflexivity] that at [wrap := wrap64] they ARE the model's functions.  The ties
   (MdiffReadTie*.v) equate the generated code with the instance [wrap := fun z => z]. *)
From Coq Require Import NArith ZArith List Bool.
Import ListNotations.
From Mds Require Import Mdiff.ReaderModel Gen.MdiffReadSpan.
Local Open Scope Z_scope.

Section W.
Variable wrap : Z -> Z.

Definition w_read_normal_range (spec : bytes) : option (Z * Z) :=
  match parse_span parse_span_omitted_hi [] spec with
  | None => None
  | Some (lo, hi) =>
    let hi := if read_normal_lhi_is_omitted lo hi then read_normal_lhi_default lo hi else hi in
    Some (lo, wrap (read_normal_lhi_end lo hi))
  end.
Definition w_read_normal_range_r (spec : bytes) : option (Z * Z) :=
  match parse_span parse_span_omitted_hi [] spec with
  | None => None
  | Some (lo, hi) =>
    let hi := if read_normal_rhi_is_omitted lo hi then read_normal_rhi_default lo hi else hi in
    Some (lo, wrap (read_normal_rhi_end lo hi))
  end.

Fixpoint w_read_normal_loop (fuel : nat) (ls : list line) (acc : list (chunk line))
  : rres (list (chunk line)) :=
  match fuel with
  | O => RErr EFuel
  | S f =>
    match ls with
    | [] => ROk acc
    | l :: rest =>
      if is_nil l then RErr EBlank else
      match split_cmd l with
      | None => RErr ECmd
      | Some (lspec, cmd, rspec) =>
        match w_read_normal_range lspec with
        | None => RErr ESpan
        | Some (llo, lhi) =>
          match w_read_normal_range_r rspec with
          | None => RErr ESpan
          | Some (rlo, rhi) =>
            match read_normal_edit rest [] [] false with
            | RErr e => RErr e
            | ROk (xs, ys, rest') =>
              let '(o, llo, rlo) :=
                match cmd with
                | CmdA => (Copy, wrap (read_normal_add_llo llo), rlo)
                | CmdC => (Replace, llo, rlo)
                | CmdD => (Drop, llo, wrap (read_normal_del_rlo rlo))
                end in
              let is_ac := match cmd with CmdD => false | _ => true end in
              let is_cd := match cmd with CmdA => false | _ => true end in
              if negb (llen ys =? wrap (read_normal_want_add rlo rhi)) && is_ac then RErr ECount
              else if negb (llen xs =? wrap (read_normal_want_del llo lhi)) && is_cd then RErr ECount
              else w_read_normal_loop f rest'
                     (acc ++ [mkChunk [mkEdit o xs ys]
                                (read_normal_chunk_lstart llo lhi rlo rhi) (read_normal_chunk_lend llo lhi rlo rhi)
                                (read_normal_chunk_rstart llo lhi rlo rhi) (read_normal_chunk_rend llo lhi rlo rhi)])
            end
          end
        end
      end
    end
  end.

Definition w_read_normal_lines (ls : list line) : rres (list (chunk line)) :=
  w_read_normal_loop (S (length ls)) ls [].

Definition w_read_uspan (v : variant) (tag s : bytes) : option (Z * Z) :=
  match parse_span (omitted_count v) tag s with
  | None => None
  | Some (lo, n) =>
    let lo' := if negb (uspan_empty_names_next_line v) && (n =? 0) then wrap (lo + 1) else lo in
    Some (lo', n)
  end.

Definition w_uchunk_of (es : list (edit line)) (llo lhi rlo rhi : Z) : chunk line :=
  mkChunk es (read_uchunk_lstart llo lhi rlo rhi) (wrap (read_uchunk_lend llo lhi rlo rhi))
             (read_uchunk_rstart llo lhi rlo rhi) (wrap (read_uchunk_rend llo lhi rlo rhi)).

Definition w_read_uchunk (v : variant) (ls : list line) : uchunk_res :=
  match ls with
  | [] => UEof
  | l :: rest =>
    let parts := fields l in
    if read_uchunk_min_fields (llen parts)
         (negb (bytes_eqb (nth_field parts 0) s_atat)) (negb (bytes_eqb (nth_field parts 3) s_atat))
    then UErr EHeader else
    match w_read_uspan v s_minus (nth_field parts 1) with
    | None => UErr ESpan
    | Some (llo, lhi) =>
      match w_read_uspan v s_plus (nth_field parts 2) with
      | None => UErr ESpan
      | Some (rlo, rhi) =>
        match read_uchunk_body rest [] with
        | (BodyBlank, _, _) => UErr EBlank
        | (BodyUnexpected, es, rest') => UUnexpected (w_uchunk_of es llo lhi rlo rhi) rest'
        | (_, es, rest') => UChunk (w_uchunk_of es llo lhi rlo rhi) rest'
        end
      end
    end
  end.

Section Headers.
  Variable time : Type.
  Variable zero_time : time.
  Variable parse_time : bytes -> option time.

  Fixpoint w_read_uchunks (v : variant) (fuel : nat) (ls : list line) (acc : list (chunk line))
    : rres (list (chunk line)) :=
    match fuel with
    | O => RErr EFuel
    | S f =>
      match w_read_uchunk v ls with
      | UEof => ROk acc
      | UErr e => RErr e
      | UChunk c rest => w_read_uchunks v f rest (acc ++ [c])
      | UUnexpected _ _ => RErr EPrefix
      end
    end.

  Definition w_read_unified_lines (v : variant) (ls : list line) : rres (patch time) :=
    match read_uheader time zero_time parse_time ls with
    | RErr e => RErr e
    | ROk (fi, rest) =>
      match w_read_uchunks v (S (length rest)) rest [] with
      | RErr e => RErr e
      | ROk cs => ROk (mkPatch fi cs)
      end
    end.

  Fixpoint w_read_git_chunks (v : variant) (fuel : nat) (ls : list line) (acc : list (chunk line))
    : rres (list (chunk line) * list line) :=
    match fuel with
    | O => RErr EFuel
    | S f =>
      match w_read_uchunk v ls with
      | UEof => ROk (acc, [])
      | UErr e => RErr e
      | UChunk c rest => w_read_git_chunks v f rest (acc ++ [c])
      | UUnexpected c rest => ROk (acc ++ [c], rest)
      end
    end.

  Fixpoint w_read_git_loop (v : variant) (fuel : nat) (ls : list line) (out : list (patch time))
    : rres (list (patch time)) :=
    match fuel with
    | O => RErr EFuel
    | S f =>
      match scan_to_prefix s_diff ls with
      | None => if is_nil out then RErr ENoPatch else ROk out
      | Some ls1 =>
        match scan_to_prefix s_mmm ls1 with
        | None => RErr EPatchHeader
        | Some ls2 =>
          match read_uheader time zero_time parse_time ls2 with
          | RErr e => RErr e
          | ROk (None, _) => RErr EPatchHeader
          | ROk (Some fi, ls3) =>
            match w_read_git_chunks v (S (length ls3)) ls3 [] with
            | RErr e => RErr e
            | ROk (cs, ls4) => w_read_git_loop v f ls4 (out ++ [mkPatch (Some fi) cs])
            end
          end
        end
      end
    end.

  Definition w_read_git_lines (v : variant) (ls : list line) : rres (list (patch time)) :=
    w_read_git_loop v (S (length ls)) ls [].
End Headers.
End W.

(* ---- at wrap64 these are the model's functions ---- *)
Lemma w_read_normal_loop_is_model : forall fuel ls acc,
  w_read_normal_loop wrap64 fuel ls acc = read_normal_loop fuel ls acc.
Proof. reflexivity. Qed.

Lemma w_read_normal_lines_is_model : forall ls, w_read_normal_lines wrap64 ls = read_normal_lines ls.
Proof. reflexivity. Qed.

Lemma w_read_uchunk_is_model : forall v ls, w_read_uchunk wrap64 v ls = read_uchunk v ls.
Proof. reflexivity. Qed.

Lemma w_read_unified_lines_is_model : forall time zero_time parse_time v ls,
  w_read_unified_lines wrap64 time zero_time parse_time v ls = read_unified_lines time zero_time parse_time v ls.
Proof. reflexivity. Qed.

Lemma w_read_git_lines_is_model : forall time zero_time parse_time v ls,
  w_read_git_lines wrap64 time zero_time parse_time v ls = read_git_lines time zero_time parse_time v ls.
Proof. reflexivity. Qed.
