(* Stack.Each of stack/stack.go: model = generated function (see StackTieBase.v) *)
From Coq Require Import ZArith List Bool Lia.
From Mds Require Import Gen.StackIdx Stack.StackModel Common.FnRt GenTie.TieLib GenTie.StackTieBase.
From Mds Require Gen.FnStack.
Import ListNotations.
Local Open Scope Z_scope.

Section Stack.
Context {T : Type}.
Variable zero : T.

Notation idx := (StackModel.idx T).
Notation mupd := (StackModel.upd T).
Notation reslice := (StackModel.reslice T).
Notation get_eq := (@get_eq T).
Notation set_eq := (@set_eq T).
Notation mupd_length := (@mupd_length T).

(* ---- Each: the one loop ---- *)

(* where the loop ends: [Ret tt] by the callback's false, [Next _] by the condition *)
Definition loop_end (r : res (ctl Z unit)) : res unit :=
  match r with
  | Ok _ => Ok tt
  | Panic k => Panic k
  | OutOfFuel => OutOfFuel
  end.

Lemma each_loop_tie (f : T -> bool) (l : list T) : forall (fm : nat) (i : Z) (fuel gas : nat),
  (fm <= gas)%nat ->
  res_le (emb (fun _ => tt) (each_loop T fm f l i)) (loop_end (FnStack.Each_loop1 fuel gas l f i)).
Proof.
  induction fm as [|fm IH]; intros i fuel gas H.
  - apply res_le_oof.
  - destruct gas as [|gas]; [lia|].
    cbn [each_loop FnStack.Each_loop1]. unfold each_cond, each_idx, each_stop, each_dec.
    case_if; [|apply res_le_refl].
    rewrite get_eq. destruct (idx l i) as [v|]; cbn [bind loop_end emb]; [|apply res_le_refl].
    destruct (negb (f v)); cbn [loop_end emb]; [apply res_le_refl|].
    specialize (IH (i - 1) fuel gas ltac:(lia)).
    destruct (each_loop T fm f l (i - 1)); cbn [emb] in IH |- *; exact IH.
Qed.

Theorem C10_stack_each_is_source : forall (f : T -> bool) (l : list T) (fuel : nat),
  (S (length l) <= fuel)%nat ->
  res_le (emb (fun _ => tt) (each T f l)) (FnStack.Each l f fuel).
Proof.
  intros f l fuel H. unfold each, FnStack.Each, each_init. change (StackModel.zlen T l) with (zlen l).
  pose proof (each_loop_tie f l (S (length l)) (zlen l - 1) fuel fuel H) as E.
  destruct (FnStack.Each_loop1 fuel fuel l f (zlen l - 1)) as [[i'|[]]| |]; cbn [bind loop_end] in E |- *; exact E.
Qed.

End Stack.

Print Assumptions C10_stack_each_is_source.
