(* stree: Tree.insert generated from the source against the model's insert / ins_unwind.

   Go descends recursively, allocates the new node at the nil position, stores the result of the
   recursive call back into the parent IN PLACE (root.left = ins), and on the way up runs the
   scapegoat search: node.size of the sibling, t.limit (a function-typed field: an argument of the
   generated function, instantiated with the model's [limit b]), and rewrite of the first subtree
   that is too deep.  The model rebuilds the path.  On a tree-shaped region F (trepr, StreeSep.v):
   the returned pointer represents the model's tree on cells of F and cells allocated by the call
   (the new node; the two sentinels of a rewrite stay outside), the three other results are the
   model's, no old cell outside F changed.  The proof also shows that the size handed upwards is 0
   or the true size of the returned subtree -- for EVERY limit function -- which bounds the fuel. *)
From Coq Require Import ZArith List Bool Arith Lia.
From Mds Require Import Gen.StreeConst Gen.StreeNode.
From Mds Require Import Common.FnRt Common.FnHeap GenTie.TieLib GenTie.StreeTieBase GenTie.StreeSep
  GenTie.StreeTieRead GenTie.StreeTieMutRotate GenTie.StreeTieMutVine GenTie.StreeTieMutRewrite.
Import ListNotations.
Local Open Scope Z_scope.

Section Insert.
Context {T : Type}.
Variable cmp : T -> T -> Z.
Variable limit : Z -> Z -> Z.
Variable b : Z.
Variable zero : T.
Notation tree := (SM.tree T).
Notation heap := (list (G.node T)).

Lemma size_count (t : tree) : SM.size t = Z.of_nat (SM.count t).
Proof. induction t as [|l IHl x r IHr]; [reflexivity|]. cbn [SM.size SM.count]. unfold node_size. lia. Qed.

(* the generated function post-processes its result where the model has already done so *)
Lemma rel_gbind {A B B'} (P : A -> B -> Prop) (Q : A -> B' -> Prop) (m : SM.res A) (g : res B) (k : B -> res B') :
  rel P m g -> (forall a x, P a x -> exists y, k x = Ok y /\ Q a y) -> rel Q m (bind g k).
Proof.
  intros R I. destruct m; cbn [rel] in *; auto.
  - destruct R as [x [-> Px]]. cbn [bind]. destruct (I a x Px) as [y [E Qy]]. exists y. split; assumption.
  - rewrite R. reflexivity.
Qed.

(* two footprints with the same elements and no duplicates have the same length *)
Lemma count_same (h1 h2 : heap) a1 a2 (t1 t2 : tree) F1 F2 :
  trepr h1 a1 t1 F1 -> trepr h2 a2 t2 F2 -> incl F1 F2 -> incl F2 F1 -> SM.count t2 = SM.count t1.
Proof.
  intros R1 R2 I1 I2. rewrite <- (trepr_count _ _ _ _ R1), <- (trepr_count _ _ _ _ R2).
  apply Nat.le_antisymm; apply NoDup_incl_length; eauto using trepr_nodup.
Qed.

(* ---- the ascending phase of one activation ---- *)
Definition g_unwind (root sib : option nat) (size height : Z) (h : heap) (fuel : nat) : res (option nat * Z * heap) :=
  if ins_seeking size then
    do sibSize <- G.node_size sib h fuel;
    let rootSize := ins_root_size sibSize size in
    let bw := limit b rootSize in
    if ins_not_goat height bw then Ok (root, rootSize, h)
    else
      do (t11, h) <- G.rewrite root rootSize h zero fuel;
      Ok (t11, 0, h)
  else Ok (root, size, h).
(* (the three conditions/expressions are the ones Gen/StreeConst.v takes from the same source lines: a changed
   operator that both follow leaves the tie standing; with the model held fixed it breaks) *)

Definition unw_post (h : heap) (F : list nat) (Tt : tree) (added : bool) (ht : Z)
           (m : tree * bool * Z * Z) (g : option nat * Z * heap) : Prop :=
  let '(t', ad, sz', ht') := m in let '(a', sz'', h') := g in
  ad = added /\ ht' = ht /\ sz'' = sz' /\ (sz' = 0 \/ (0 < sz' /\ sz' = SM.size t')) /\
  SM.count t' = SM.count Tt /\
  exists F', trepr h' a' t' F' /\ sub h F F' /\ frame h h' F.

Lemma unwind_ok (h : heap) (root : option nat) (Tt : tree) (F : list nat) (sib : option nat) (S : tree)
      (added : bool) (sz ht : Z) (fuel : nat) :
  trepr h root Tt F -> repr h sib S ->
  (sz = 0 \/ (0 < sz /\ SM.size S + 1 + sz = SM.size Tt)) ->
  (fuel > depth S)%nat -> (fuel > 2 * SM.count Tt + 2)%nat ->
  rel (unw_post h F Tt added ht) (SM.ins_unwind limit b Tt S added sz ht) (g_unwind root sib sz ht h fuel).
Proof.
  intros R RS Hsz Hf1 Hf2. unfold SM.ins_unwind, g_unwind, ins_seeking, ins_root_size, ins_limit_arg, ins_not_goat,
    ins_keep_size, ins_rewrite_size, ins_goat_size.
  destruct (sz >? 0) eqn:Cs.
  2:{ apply rel_ok. cbn [unw_post]. refine (conj _ (conj _ (conj _ (conj _ (conj _ _))))); try (exact eq_refl).
      - left. destruct Hsz as [Hz|[Hz _]]; [exact Hz|]. rewrite Z.gtb_ltb in Cs. apply Z.ltb_ge in Cs. lia.
      - exists F. split; [exact R|]. split; [apply sub_refl|apply frame_refl]. }
  rewrite (C01_size_is_source fuel h sib S RS Hf1). cbn [bind].
  assert (Er : SM.size S + 1 + sz = SM.size Tt).
  { destruct Hsz as [Hz|[_ Hz]]; [|exact Hz]. apply Z.gtb_lt in Cs. lia. }
  rewrite Er. pose proof (size_count Tt) as Ec.
  case_if.
  - apply rel_ok. cbn [unw_post]. refine (conj _ (conj _ (conj _ (conj _ (conj _ _))))); try (exact eq_refl).
    + right. split; [|reflexivity]. destruct Hsz as [Hz|[Hp Hz]]; [apply Z.gtb_lt in Cs; lia|].
      pose proof (size_count S). lia.
    + exists F. split; [exact R|]. split; [apply sub_refl|apply frame_refl].
  - eapply rel_bind; [apply (C02_rewrite_is_source zero Tt h root F (SM.size Tt) fuel R)|].
    + unfold SM.t2v_fuel. lia.
    + rewrite Ec, Nat2Z.id. lia.
    + intros t' [a' h'] [F' [R' [I1 [I2 [Fr' L']]]]]. cbn [fst snd] in *. apply rel_ok. cbn [unw_post].
      refine (conj _ (conj _ (conj _ (conj _ (conj _ _))))); try (exact eq_refl).
      * left. reflexivity.
      * apply (count_same h h' root a' Tt t' F F' R R' I2 I1).
      * exists F'. split; [exact R'|]. split; [apply sub_incl; exact I1|exact Fr'].
Qed.

(* ---- Tree.insert ---- *)
Definition ins_post (h : heap) (F : list nat) (t : tree)
           (m : tree * bool * Z * Z) (g : option nat * bool * Z * Z * heap) : Prop :=
  let '(t', added, sz, ht) := m in let '(a', added', sz', ht', h') := g in
  added' = added /\ sz' = sz /\ ht' = ht /\ (sz = 0 \/ (0 < sz /\ sz = SM.size t')) /\
  (SM.count t' <= SM.count t + 1)%nat /\
  exists F', trepr h' a' t' F' /\ sub h F F' /\ frame h h' F.

(* the parent after the child was rebuilt and stored back *)
Lemma relink (h h1 : heap) a c (l r l' : tree) Fl Fr Fl' (ins : option nat) :
  nth_error h a = Some c -> trepr h (G.node_left c) l Fl -> trepr h (G.node_right c) r Fr ->
  ~ In a Fl -> ~ In a Fr -> (forall k, In k Fl -> ~ In k Fr) ->
  trepr h1 ins l' Fl' -> sub h Fl Fl' -> frame h h1 Fl ->
  let h2 := upd h1 a (G.mk_node (G.node_X c) ins (G.node_right c)) in
  nth_error h1 a = Some c /\
  trepr h2 (Some a) (SM.Node l' (G.node_X c) r) (a :: Fl' ++ Fr) /\
  repr h2 (G.node_right c) r /\
  sub h (a :: Fl ++ Fr) (a :: Fl' ++ Fr) /\ frame h h2 (a :: Fl ++ Fr).
Proof.
  intros Ha Hl Hr Nl Nr Hd Rl' S' [L' Eo] h2.
  assert (Ba : (a < length h)%nat) by (apply nth_error_Some; rewrite Ha; discriminate).
  assert (Ha1 : nth_error h1 a = Some c) by (rewrite Eo; [exact Ha|exact Ba|exact Nl]).
  assert (NaF' : ~ In a Fl') by (intros X; destruct (S' a X); [contradiction|lia]).
  assert (Hr2 : trepr h2 (G.node_right c) r Fr).
  { apply trepr_upd_out; [|exact Nr]. apply (trepr_frame h h1 _ _ _ Fl Hr); [split; assumption|].
    intros k Hk X. apply (Hd k X Hk). }
  split; [exact Ha1|]. split; [|split; [|split]].
  - apply (trepr_mk h2 a _ l' r Fl' Fr (upd_at h1 a c _ Ha1)); cbn [G.node_left G.node_right G.node_X];
      [apply trepr_upd_out; assumption|exact Hr2|exact NaF'|exact Nr| |reflexivity].
    intros k Hk X. destruct (S' k Hk) as [Y|Y]; [apply (Hd k Y X)|].
    apply (trepr_bound h _ _ _ Hr) in X. lia.
  - eapply trepr_repr. exact Hr2.
  - intros k Hk. pose proof (S' k). inl. tauto.
  - split; [unfold h2; rewrite upd_length; lia|]. intros k Hk Nk. unfold h2.
    rewrite nth_upd_other by (intros ->; apply Nk; left; reflexivity).
    apply Eo; [exact Hk|]. intros X. apply Nk. inl. tauto.
Qed.

Lemma relink_r (h h1 : heap) a c (l r r' : tree) Fl Fr Fr' (ins : option nat) :
  nth_error h a = Some c -> trepr h (G.node_left c) l Fl -> trepr h (G.node_right c) r Fr ->
  ~ In a Fl -> ~ In a Fr -> (forall k, In k Fl -> ~ In k Fr) ->
  trepr h1 ins r' Fr' -> sub h Fr Fr' -> frame h h1 Fr ->
  let h2 := upd h1 a (G.mk_node (G.node_X c) (G.node_left c) ins) in
  nth_error h1 a = Some c /\
  trepr h2 (Some a) (SM.Node l (G.node_X c) r') (a :: Fl ++ Fr') /\
  repr h2 (G.node_left c) l /\
  sub h (a :: Fl ++ Fr) (a :: Fl ++ Fr') /\ frame h h2 (a :: Fl ++ Fr).
Proof.
  intros Ha Hl Hr Nl Nr Hd Rr' S' [L' Eo] h2.
  assert (Ba : (a < length h)%nat) by (apply nth_error_Some; rewrite Ha; discriminate).
  assert (Ha1 : nth_error h1 a = Some c) by (rewrite Eo; [exact Ha|exact Ba|exact Nr]).
  assert (NaF' : ~ In a Fr') by (intros X; destruct (S' a X); [contradiction|lia]).
  assert (Hl2 : trepr h2 (G.node_left c) l Fl).
  { apply trepr_upd_out; [|exact Nl]. apply (trepr_frame h h1 _ _ _ Fr Hl); [split; assumption|].
    intros k Hk X. apply (Hd k Hk X). }
  split; [exact Ha1|]. split; [|split; [|split]].
  - apply (trepr_mk h2 a _ l r' Fl Fr' (upd_at h1 a c _ Ha1)); cbn [G.node_left G.node_right G.node_X];
      [exact Hl2|apply trepr_upd_out; assumption|exact Nl|exact NaF'| |reflexivity].
    intros k Hk X. destruct (S' k X) as [Y|Y]; [apply (Hd k Hk Y)|].
    apply (trepr_bound h _ _ _ Hl) in Hk. lia.
  - eapply trepr_repr. exact Hl2.
  - intros k Hk. pose proof (S' k). inl. tauto.
  - split; [unfold h2; rewrite upd_length; lia|]. intros k Hk Nk. unfold h2.
    rewrite nth_upd_other by (intros ->; apply Nk; left; reflexivity).
    apply Eo; [exact Hk|]. intros X. apply Nk. inl. tauto.
Qed.

(* func (t *Tree[T]) insert(key T, replace bool, root *node[T], limit int) (ins *node[T], added bool, size, height int) *)
Theorem C02_insert_is_source : forall (t : tree) (h : heap) (root : option nat) (F : list nat)
                                      (key : T) (replace : bool) (lim : Z) (fuel : nat),
  trepr h root t F -> (fuel >= 2 * SM.count t + 6)%nat ->
  rel (ins_post h F t) (SM.insert cmp limit b key replace t lim)
      (G.Tree_insert cmp (limit b) key replace root lim h zero fuel).
Proof.
  induction t as [|l IHl x r IHr]; intros h root F key replace lim fuel R Hf; (destruct fuel as [|fuel]; [lia|]);
    cbn [G.Tree_insert SM.insert].
  - (* the nil position: the new node *)
    apply trepr_leaf_inv in R. destruct R as [-> ->]. cbn [go_pnil]. unfold go_hnew, ins_leaf_over, ins_leaf_size, ins_leaf_height.
    apply rel_ok. cbn [ins_post]. refine (conj _ (conj _ (conj _ (conj _ (conj _ _))))); try (exact eq_refl).
    + case_if; [right; split; [lia|reflexivity]|left; reflexivity].
    + cbn [SM.count]. lia.
    + exists [length h]. split; [|split].
      * apply (trepr_mk (h ++ [G.mk_node key None None]) (length h) (G.mk_node key None None) SM.Leaf SM.Leaf [] []);
          cbn [G.node_left G.node_right G.node_X]; try constructor; auto.
        rewrite nth_error_app2 by lia. rewrite Nat.sub_diag. reflexivity.
      * intros k [<-|[]]. right. lia.
      * apply frame_app.
  - tnode R a c Fl Fr Ea Ha Hl Hr Nl Nr Hd. subst root. cbn [go_pnil SM.count] in *.
    rewrite (hget_some h a c Ha). cbn [bind]. unfold ins_lt, ins_gt.
    case_if.
    { (* ins, added, size, height = t.insert(key, replace, root.left, limit-1); root.left = ins *)
      unfold ins_left_limit, ins_left_height.
      eapply rel_bind; [apply (IHl h (G.node_left c) Fl key replace (lim - 1) fuel Hl); lia|].
      intros [[[l' added] sz] ht] [[[[t4 t5] t6] t7] h1] [-> [-> [-> [Hsz [Hc [Fl' [Rl' [S' Fr']]]]]]]].
      destruct (relink h h1 a c l r l' Fl Fr Fl' t4 Ha Hl Hr Nl Nr Hd Rl' S' Fr') as [Ha1 [R2 [RS [S2 F2]]]].
      rewrite (hmod_some h1 a c _ Ha1). cbn [bind].
      set (h2 := upd h1 a _) in *.
      rewrite (hget_some h2 a _ (upd_at h1 a c _ Ha1)). cbn [bind G.node_right].
      eapply rel_gbind.
      - apply (unwind_ok h2 (Some a) (SM.Node l' (G.node_X c) r) (a :: Fl' ++ Fr) (G.node_right c) r added sz (ht + 1) fuel R2 RS).
        + destruct Hsz as [Hz|[Hp Hz]]; [left; exact Hz|right]. split; [exact Hp|]. cbn [SM.size]. unfold node_size. lia.
        + pose proof (depth_le_count r). lia.
        + cbn [SM.count]. lia.
      - intros [[[t' ad] sz'] ht'] [[a' sz''] h3] [-> [-> [-> [Hsz' [Hc' [F3 [R3 [S3 Fr3]]]]]]]].
        eexists. split; [reflexivity|]. cbn [ins_post]. refine (conj _ (conj _ (conj _ (conj _ (conj _ _))))); try (exact eq_refl).
        + exact Hsz'.
        + rewrite Hc'. cbn [SM.count]. lia.
        + exists F3. split; [exact R3|]. split.
          * apply (sub_trans h h2 _ _ _ (proj1 F2) S2 S3).
          * apply (frame_trans h h2 h3 _ _ F2 S2 Fr3). }
    case_if.
    { (* ins, added, size, height = t.insert(key, replace, root.right, limit-1); root.right = ins *)
      unfold ins_right_limit, ins_right_height.
      eapply rel_bind; [apply (IHr h (G.node_right c) Fr key replace (lim - 1) fuel Hr); lia|].
      intros [[[r' added] sz] ht] [[[[t4 t5] t6] t7] h1] [-> [-> [-> [Hsz [Hc [Fr1 [Rr' [S' Fr']]]]]]]].
      destruct (relink_r h h1 a c l r r' Fl Fr Fr1 t4 Ha Hl Hr Nl Nr Hd Rr' S' Fr') as [Ha1 [R2 [RS [S2 F2]]]].
      rewrite (hmod_some h1 a c _ Ha1). cbn [bind].
      set (h2 := upd h1 a _) in *.
      rewrite (hget_some h2 a _ (upd_at h1 a c _ Ha1)). cbn [bind G.node_left].
      eapply rel_gbind.
      - apply (unwind_ok h2 (Some a) (SM.Node l (G.node_X c) r') (a :: Fl ++ Fr1) (G.node_left c) l added sz (ht + 1) fuel R2 RS).
        + destruct Hsz as [Hz|[Hp Hz]]; [left; exact Hz|right]. split; [exact Hp|]. cbn [SM.size]. unfold node_size. lia.
        + pose proof (depth_le_count l). lia.
        + cbn [SM.count]. lia.
      - intros [[[t' ad] sz'] ht'] [[a' sz''] h3] [-> [-> [-> [Hsz' [Hc' [F3 [R3 [S3 Fr3]]]]]]]].
        eexists. split; [reflexivity|]. cbn [ins_post]. refine (conj _ (conj _ (conj _ (conj _ (conj _ _))))); try (exact eq_refl).
        + exact Hsz'.
        + rewrite Hc'. cbn [SM.count]. lia.
        + exists F3. split; [exact R3|]. split.
          * apply (sub_trans h h2 _ _ _ (proj1 F2) S2 S3).
          * apply (frame_trans h h2 h3 _ _ F2 S2 Fr3). }
    (* the key is present: if replace { root.X = key } *)
    unfold ins_eq_size, ins_eq_height. destruct replace.
    + rewrite (hmod_some h a c _ Ha). cbn [bind]. apply rel_ok. cbn [ins_post]. refine (conj _ (conj _ (conj _ (conj _ (conj _ _))))); try (exact eq_refl).
      * left. reflexivity.
      * cbn [SM.count]. lia.
      * exists (a :: Fl ++ Fr). split; [|split; [apply sub_refl|apply frame_upd; left; reflexivity]].
        apply (trepr_mk _ a _ l r Fl Fr (upd_at h a c _ Ha)); cbn [G.node_left G.node_right G.node_X];
          [apply trepr_upd_out; assumption|apply trepr_upd_out; assumption|exact Nl|exact Nr|exact Hd|reflexivity].
    + cbn [bind]. apply rel_ok. cbn [ins_post]. refine (conj _ (conj _ (conj _ (conj _ (conj _ _))))); try (exact eq_refl).
      * left. reflexivity.
      * cbn [SM.count]. lia.
      * exists (a :: Fl ++ Fr). split; [|split; [apply sub_refl|apply frame_refl]].
        apply (trepr_mk _ a c l r Fl Fr Ha); auto.
Qed.

End Insert.

Print Assumptions C02_insert_is_source.
