(* stree: Tree.Add, Tree.Replace, Tree.Remove generated from the source against the model's Add,
   Replace, Remove on the Tree object (root, β, size, max; the generated functions take the fields
   they use as arguments and hand the assigned ones back).  [t.limit] is the model's [limit (beta t)].
   On a tree-shaped region F for the root (trepr, StreeSep.v): the answer is the model's, the new
   root represents the model's new root on cells of F and cells allocated by the call, the new
   size and max are the model's, β is untouched, no old cell outside F changed. *)
From Coq Require Import ZArith List Bool Arith Lia.
From Mds Require Import Gen.StreeConst Gen.StreeNode.
From Mds Require Import Common.FnRt Common.FnHeap GenTie.TieLib GenTie.StreeTieBase GenTie.StreeSep
  GenTie.StreeTieMutField GenTie.StreeTieMutRewrite GenTie.StreeTieMutRemove GenTie.StreeTieMutInsert.
Import ListNotations.
Local Open Scope Z_scope.

Section TreeOps.
Context {T : Type}.
Variable cmp : T -> T -> Z.
Variable limit : Z -> Z -> Z.
Variable zero : T.
Notation tree := (SM.tree T).
Notation heap := (list (G.node T)).

Definition tree_post (h : heap) (F : list nat) (t : SM.Tree T)
           (m : SM.Tree T * bool) (g : bool * option nat * Z * Z * heap) : Prop :=
  let '(t', ok) := m in let '(ok', a', sz, mx, h') := g in
  ok' = ok /\ sz = SM.tsize t' /\ mx = SM.maxsize t' /\ SM.beta t' = SM.beta t /\
  exists F', trepr h' a' (SM.root t') F' /\ sub h F F' /\ frame h h' F.

(* func (t *Tree[T]) Add(key T) bool *)
Theorem C01_add_is_source : forall (t : SM.Tree T) (h : heap) (r : option nat) (F : list nat) (key : T) (fuel : nat),
  trepr h r (SM.root t) F -> (fuel >= 2 * SM.count (SM.root t) + 6)%nat ->
  rel (tree_post h F t) (SM.Add cmp limit t key)
      (G.Tree_Add r cmp (limit (SM.beta t)) (SM.tsize t) (SM.maxsize t) key h zero fuel).
Proof.
  intros t h r F key fuel R Hf. unfold SM.Add, G.Tree_Add, add_limit_arg.
  eapply rel_bind; [apply (C02_insert_is_source cmp limit (SM.beta t) zero _ h r F key false _ fuel R Hf)|].
  intros [[[ins ok] sz] ht] [[[[t1 t2] t3] t4] h1] [-> [_ [_ [_ [_ [F' [R' [S' Fr']]]]]]]].
  rewrite C01_incSize_is_source. destruct (SM.inc_size_of t ok) as [sz' mx']. apply rel_ok. cbn.
  repeat split; auto. exists F'. auto.
Qed.

(* func (t *Tree[T]) Replace(key T) bool *)
Theorem C01_replace_is_source : forall (t : SM.Tree T) (h : heap) (r : option nat) (F : list nat) (key : T) (fuel : nat),
  trepr h r (SM.root t) F -> (fuel >= 2 * SM.count (SM.root t) + 6)%nat ->
  rel (tree_post h F t) (SM.Replace cmp limit t key)
      (G.Tree_Replace r cmp (limit (SM.beta t)) (SM.tsize t) (SM.maxsize t) key h zero fuel).
Proof.
  intros t h r F key fuel R Hf. unfold SM.Replace, G.Tree_Replace, replace_limit_arg.
  eapply rel_bind; [apply (C02_insert_is_source cmp limit (SM.beta t) zero _ h r F key true _ fuel R Hf)|].
  intros [[[ins ok] sz] ht] [[[[t1 t2] t3] t4] h1] [-> [_ [_ [_ [_ [F' [R' [S' Fr']]]]]]]].
  rewrite C01_incSize_is_source. destruct (SM.inc_size_of t ok) as [sz' mx']. apply rel_ok. cbn.
  repeat split; auto. exists F'. auto.
Qed.

(* func (t *Tree[T]) Remove(key T) bool: the rebuild is called with the CACHED size t.size - 1 *)
Theorem C01_tree_remove_is_source : forall (t : SM.Tree T) (h : heap) (r : option nat) (F : list nat) (key : T) (fuel : nat),
  trepr h r (SM.root t) F -> (fuel > 2 * SM.count (SM.root t) + 1)%nat -> (fuel > Z.to_nat (SM.tsize t) + 1)%nat ->
  rel (tree_post h F t) (SM.Remove cmp t key)
      (G.Tree_Remove r (SM.beta t) cmp (SM.tsize t) (SM.maxsize t) key h zero fuel).
Proof.
  intros t h r F key fuel R Hf1 Hf2. unfold SM.Remove, G.Tree_Remove.
  pose proof (depth_le_count (SM.root t)) as Hd.
  eapply rel_bind; [apply (C01_remove_is_source cmp _ h r F key fuel R); lia|].
  intros [del ok] [[t1 t2] h1] [-> [F1 [R1 [I1 [Fr1 L1]]]]].
  destruct ok.
  2:{ cbn [bind]. apply rel_ok. cbn. repeat split; auto. exists F1. repeat split; auto using sub_incl; apply Fr1. }
  unfold rem_size, rem_threshold, rem_rebuild, rem_rewrite_size, rem_max.
  change (Z.mul 2 1000) with 2000.
  case_if.
  - assert (Hc : (SM.count del <= SM.count (SM.root t))%nat).
    { rewrite <- (trepr_count _ _ _ _ R1), <- (trepr_count _ _ _ _ R). apply NoDup_incl_length; [eapply trepr_nodup; exact R1|exact I1]. }
    rewrite !bind_assoc. eapply rel_bind; [apply (C02_rewrite_is_source zero del h1 t1 F1 (SM.tsize t - 1) fuel R1)|].
    + unfold SM.t2v_fuel. lia.
    + lia.
    + intros rt [a2 h2] [F2 [R2 [J1 [J2 [Fr2 L2]]]]]. cbn [fst snd bind] in *. apply rel_ok. cbn.
      repeat split; auto. exists F2. split; [exact R2|]. split.
      * intros k Hk. left. apply I1, J1, Hk.
      * apply (frame_trans h h1 h2 F F1 Fr1); [apply sub_incl; exact I1|exact Fr2].
  - cbn [bind]. apply rel_ok. cbn. repeat split; auto. exists F1. repeat split; auto using sub_incl; apply Fr1.
Qed.

End TreeOps.

Print Assumptions C01_add_is_source.
Print Assumptions C01_replace_is_source.
Print Assumptions C01_tree_remove_is_source.
