(* mstr/mstr.go: the hand-written model (Mstr/MstrModel.v) equals the functions generated from the
   Go source (Gen/FnMstr.v).  Shared part.

   The model has a single failure PanicIndex for every failed bounds check (index or slice
   expression); the generated code distinguishes them, so the comparison goes through [unb], which
   forgets the panic kind.  The generated code computes on unbounded integers: the parseInt and
   CompareNatural ties are with the model's [wrap = false] variant (parse_int false,
   compare_natural_wide); the 64-bit wrap of the accumulator, [wrap = true], is the model's alone.
   [res_leB r r']: r is OutOfFuel or r' is the same result. *)
From Coq Require Import ZArith List Bool Lia.
From Mds Require Import Common.FnRt GenTie.TieLib Gen.FnMstr Gen.MstrMasks.
From Mds Require Mbits.BytesBase Mstr.MstrModel.
Import ListNotations.
Local Open Scope Z_scope.

Module B := BytesBase.
Module MM := MstrModel.

Definition unb {A : Type} (r : res A) : B.res A :=
  match r with
  | Ok a => B.Ok a
  | Panic _ => B.PanicIndex
  | OutOfFuel => B.OutOfFuel
  end.

Definition res_leB {A : Type} (r r' : B.res A) : Prop := r = B.OutOfFuel \/ r = r'.

Lemma res_leB_refl {A} (r : B.res A) : res_leB r r.
Proof. right; reflexivity. Qed.

Lemma unb_le {A} (r r' : res A) : res_le r r' -> res_leB (unb r) (unb r').
Proof. intros [H|H]; subst; [left|right]; reflexivity. Qed.

Lemma unb_bind {A C} (m : res A) (k : A -> res C) :
  unb (bind m k) = B.bind (unb m) (fun a => unb (k a)).
Proof. destruct m; reflexivity. Qed.

Lemma get_eq (s : list Z) i : unb (go_get s i) = B.str_at s i.
Proof.
  unfold go_get, B.str_at. change (B.zlen s) with (zlen s).
  destruct ((0 <=? i) && (i <? zlen s)); [destruct (nth_error s (Z.to_nat i))|]; reflexivity.
Qed.

Lemma substr_to (s : list Z) hi : unb (go_substr s 0 hi) = B.slice_to s hi.
Proof.
  unfold go_substr, B.slice_to. change (B.zlen s) with (zlen s). simpl.
  destruct ((0 <=? hi) && (hi <=? zlen s)); [|reflexivity]. rewrite Z.sub_0_r. reflexivity.
Qed.

Lemma substr_from (s : list Z) lo : unb (go_substr s lo (zlen s)) = B.slice_from s lo.
Proof.
  unfold go_substr, B.slice_from. change (B.zlen s) with (zlen s).
  assert (Z0 : 0 <= zlen s) by (unfold zlen; lia).
  destruct ((0 <=? lo) && (lo <=? zlen s)) eqn:E.
  - rewrite Z.leb_refl. cbn [andb unb]. f_equal. apply firstn_all2. rewrite skipn_length. unfold zlen. lia.
  - reflexivity.
Qed.

Lemma cmp_str_eq (a b : list Z) : go_cmp_str a b = MM.cmp_bytes a b.
Proof. revert b; induction a; destruct b; simpl; try reflexivity; rewrite IHa; reflexivity. Qed.

Lemma nonempty_eq (a : list Z) : negb (str_eqb a []) = MM.nonempty a.
Proof. destruct a; reflexivity. Qed.

Theorem C20_isDigit_is_source : forall b, isDigit b = is_digit b.
Proof. reflexivity. Qed.

Print Assumptions C20_isDigit_is_source.
