(* C19 at source level: the generated machine never runs out of fuel.

   [history_source] equates the run of the generated distinct.go with [emb] of the model's run; [emb]
   maps the model's error OutOfFuel to the machine's OutOfFuel, so "the machine did not hang" was true
   by inspection only.  Here: the model's [D.step] under the single-pass rule (the pinned `if`) never
   returns [RErr OutOfFuel] - the only producer of that error is the repaired loop, which the
   single-pass branch does not call - hence no run of the model ends in it, hence (by the tie) no run
   of the generated machine from an invariant state, or from the Counter the generated NewCounter
   returns, ends in OutOfFuel.  The result of [grun_obs] is (observations, final result); the
   observations are tuples of integers, so the statement is about the second component. *)
From Coq Require Import ZArith List Bool Lia.
From Mds Require Import Common.FnRt GenTie.DistinctTie GenTie.DistinctTieNew GenTie.DistinctSource.
From Mds Require Gen.DistinctConst Distinct.DistinctModel Distinct.DistinctSpec Distinct.DistinctProofs.
Import ListNotations.
Local Open Scope Z_scope.

Section Safe.
Context {T : Type}.
Variable eqb : T -> T -> bool.
Hypothesis eqb_spec : forall x y, eqb x y = true <-> x = y.

Notation single := D.cvm_single_halving_pass.

(* a result of the bit-reader monad that is not the fuel error *)
Definition nof {A : Type} (r : D.dres T A) : Prop := r <> D.DErr D.OutOfFuel.

Lemma nof_ok A (a : A) t : nof (D.DOk a t).
Proof. discriminate. Qed.

Lemma nof_bind A B (m : D.D T A) (g : A -> D.D T B) t :
  nof (m t) -> (forall a t', nof (g a t')) -> nof (D.dbind T A B m g t).
Proof.
  intros Hm Hg. unfold D.dbind. destruct (m t) as [a t'|e]; [apply Hg|].
  intros E. apply Hm. inversion E. reflexivity.
Qed.

Lemma nof_word t : nof (D.dword T t).
Proof.
  unfold nof, D.dword. destruct (D.words T t) as [|w r]; [discriminate|].
  destruct ((0 <=? w) && (w <? D.two64)); discriminate.
Qed.

Lemma nof_coin p k t : nof (D.dcoin T p k t).
Proof.
  unfold D.dcoin, D.real_coin. destruct (p <? D.maxu).
  - apply nof_bind; [apply nof_word | intros; apply nof_ok].
  - apply nof_ok.
Qed.

Lemma nof_order b t : nof (D.dorder T eqb b t).
Proof.
  unfold nof, D.dorder. destruct (D.orc T t) as [sv|]; [|discriminate].
  cbv zeta.
  destruct (negb _); [discriminate|].
  destruct (_ && _); discriminate.
Qed.

Lemma nof_pass : forall elts b nb rnd t,
  nof (D.pass T eqb (D.D T) (D.dret T) (D.dbind T) (D.dword T) elts b nb rnd t).
Proof.
  induction elts as [|e rest IH]; intros b nb rnd t; cbn [D.pass].
  - apply nof_ok.
  - destruct (DistinctConst.nb_is_zero nb).
    + apply nof_bind; [apply nof_word | intros; apply IH].
    + apply IH.
Qed.

(* what Add under the single-pass rule can return: a Done state or an error other than the fuel error *)
Definition good (r : D.dres T (D.outcome T)) : Prop :=
  match r with
  | D.DOk (D.Done _) _ => True
  | D.DOk (D.Fuel _) _ => False
  | D.DErr e => e <> D.OutOfFuel
  end.

Lemma good_bind A (m : D.D T A) (g : A -> D.D T (D.outcome T)) t :
  nof (m t) -> (forall a t', good (g a t')) -> good (D.dbind T A _ m g t).
Proof.
  intros Hm Hg. unfold D.dbind. destruct (m t) as [a t'|e]; [apply Hg|].
  cbn. intros ->. apply Hm. reflexivity.
Qed.

Lemma dadd_single_good fuel cap s v t : good (D.dadd T eqb true fuel cap s v t).
Proof.
  unfold D.dadd, D.add. apply good_bind; [apply nof_coin|].
  intros failed t1. destruct failed; [exact I|].
  destruct (DistinctConst.full_cond _ cap); [|exact I].
  apply good_bind; [|intros; exact I].
  unfold D.halve1. apply nof_bind; [apply nof_order | intros; apply nof_pass].
Qed.

Lemma single_is_true : single = true.
Proof. reflexivity. Qed.

(* the model's step under the pinned single-pass rule never reports the fuel error *)
Lemma step_single_no_fuel fuel cap s ws o :
  D.step T eqb single fuel cap s ws o <> D.RErr D.OutOfFuel.
Proof.
  rewrite single_is_true. destruct o as [v sv|]; cbn [D.step]; [|discriminate].
  pose proof (dadd_single_good fuel cap s v (D.mktape T ws sv)) as G.
  destruct (D.dadd T eqb true fuel cap s v (D.mktape T ws sv)) as [[s'|s'] t'|e]; cbn in G.
  - discriminate.
  - destruct G.
  - intros E. inversion E. contradiction.
Qed.

Lemma run_obs_single_no_fuel fuel cap : forall ops s ws,
  snd (D.run_obs T eqb single fuel cap s ws ops) <> D.RErr D.OutOfFuel.
Proof.
  induction ops as [|o r IH]; intros s ws; cbn [D.run_obs]; [discriminate|].
  pose proof (step_single_no_fuel fuel cap s ws o) as S.
  destruct (D.step T eqb single fuel cap s ws o) as [s' ws'|e].
  - specialize (IH s' ws'). destruct (D.run_obs T eqb single fuel cap s' ws' r). exact IH.
  - exact S.
Qed.

Lemma emb_fuel cap (r : D.rres T) : emb cap r = OutOfFuel -> r = D.RErr D.OutOfFuel.
Proof. destruct r as [s ws|[]]; cbn [emb]; intros E; try discriminate; reflexivity. Qed.

(* the generated machine, from any state satisfying the model's invariant *)
Theorem history_source_no_fuel cap ops s ws :
  DP.Inv T s -> words_ok ws ->
  snd (grun_obs eqb (enc cap s ws) ops) <> OutOfFuel.
Proof.
  intros I W. rewrite (history_source eqb eqb_spec cap O ops s ws I W). cbn [snd].
  intros E. apply emb_fuel in E. exact (run_obs_single_no_fuel O cap ops s ws E).
Qed.

(* from the Counter the generated NewCounter returns *)
Theorem history_source_new_no_fuel
  (crand_Read : list Z -> list Z * Z * bool) (stream : list Z -> list Z) size ops :
  seed_err crand_Read = false -> words_ok (stream (seed_bytes crand_Read)) ->
  exists c0, @DN.NewCounter T (list Z) crand_Read stream size = Ok c0 /\
    snd (grun_obs eqb c0 ops) <> OutOfFuel.
Proof.
  intros E W.
  destruct (history_source_new eqb eqb_spec crand_Read stream size O ops E W) as [c0 [N R]].
  exists c0. split; [exact N|]. rewrite R. cbn [snd].
  intros F. apply emb_fuel in F. exact (run_obs_single_no_fuel O size ops _ _ F).
Qed.

End Safe.
