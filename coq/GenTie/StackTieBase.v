(* stack/stack.go: the hand-written model functions of Stack/StackModel.v EQUAL the functions the
   function translator generates from the whole bodies of Push, Add, IsEmpty, Clear, Top, Peek,
   Pop, Each and Len (Gen/FnStack.v, regenerated from the Go source on every run).

   The model's index expressions and conditions come from Gen/StackIdx.v (per-expression anchors);
   what these lemmas add is the CONTROL FLOW: which statements a body has and in which order.  A
   statement added to a body (say a call `s.shrink()` at the end of Pop), a dropped store, a
   reordering, changes Gen/FnStack.v and the corresponding lemma below no longer holds (or the
   generated function is lost and this file does not compile).

   [emb] maps the model's results into FnRt.res: the model has one panic (index out of range).
   Each: the generated function calls the callback as a pure function and returns nothing, so the
   equality is about where the loop ends (normally, by the callback's false, by a panic); the
   values handed to the callback are the model's own output and are compared with the
   implementation by the correspondence runs.
   One file per group of functions, so that a broken lemma costs only its own file: this one has the
   shared lemmas and the loop-free functions, GenTie/StackTiePop.v Pop, GenTie/StackTieEach.v Each.
   Slice is not tied: the translator does not support a function that returns a fresh slice
   (notes/C10_mlink-requests.md). *)
From Coq Require Import ZArith List Bool Lia.
From Mds Require Import Gen.StackIdx Stack.StackModel Common.FnRt GenTie.TieLib.
From Mds Require Gen.FnStack.
Import ListNotations.
Local Open Scope Z_scope.

Definition emb {A B : Type} (f : A -> B) (r : sres A) : res B :=
  match r with
  | SOk a => Ok (f a)
  | SPanic => Panic PIndex
  | SOutOfFuel => OutOfFuel
  end.

Section Stack.
Context {T : Type}.
Variable zero : T.

Notation idx := (StackModel.idx T).
Notation mupd := (StackModel.upd T).
Notation reslice := (StackModel.reslice T).

Lemma zlen_eq (l : list T) : StackModel.zlen T l = zlen l.
Proof. reflexivity. Qed.

(* l[i]: the model's checked read is FnRt's *)
Lemma get_eq (l : list T) (i : Z) :
  go_get l i = match idx l i with Some v => Ok v | None => Panic PIndex end.
Proof.
  unfold go_get, StackModel.idx. change (StackModel.zlen T l) with (zlen l).
  destruct (i <? 0) eqn:E1; destruct (zlen l <=? i) eqn:E2;
    destruct (0 <=? i) eqn:E3; destruct (i <? zlen l) eqn:E4; cbn [orb andb]; try reflexivity; try lia.
Qed.

Lemma upd_split (l : list T) (n : nat) (x : T) :
  (n < length l)%nat -> firstn n l ++ x :: skipn (S n) l = FnRt.upd l n x.
Proof.
  revert n; induction l as [|a l IH]; intros n H; simpl in H; [lia|].
  destruct n; cbn [firstn skipn app FnRt.upd]; [reflexivity|].
  f_equal. apply IH. lia.
Qed.

(* l[i] = x *)
Lemma set_eq (l : list T) (i : Z) (x : T) :
  go_set l i x = match mupd l i x with Some l' => Ok l' | None => Panic PIndex end.
Proof.
  unfold go_set, StackModel.upd. change (StackModel.zlen T l) with (zlen l).
  destruct ((0 <=? i) && (i <? zlen l)) eqn:E; [|reflexivity].
  apply andb_true_iff in E. destruct E as [E1 E2].
  rewrite upd_split; [reflexivity|]. unfold zlen in E2. lia.
Qed.

Lemma mupd_length (l l' : list T) (i : Z) (x : T) : mupd l i x = Some l' -> length l' = length l.
Proof.
  intros H. pose proof (set_eq l i x) as E. rewrite H in E.
  eapply go_set_length; exact E.
Qed.

(* ---- the functions without loops: plain equalities ---- *)

Theorem C10_stack_push_is_source : forall (l : list T) (v : T),
  FnStack.Push l v = push T v l.
Proof. reflexivity. Qed.

Theorem C10_stack_add_is_source : forall (l : list T) (v : T),
  FnStack.Add l v = fst (sstep T zero l (SAdd T v)).
Proof. reflexivity. Qed.

Theorem C10_stack_isempty_is_source : forall (l : list T),
  FnStack.IsEmpty l = is_empty T l.
Proof. reflexivity. Qed.

Theorem C10_stack_clear_is_source : forall (l : list T),
  FnStack.Clear l = fst (sstep T zero l (SClear T)).
Proof. reflexivity. Qed.

Theorem C10_stack_len_is_source : forall (l : list T),
  sstep T zero l (SLen T) = (l, TInt T (FnStack.Len l)).
Proof. reflexivity. Qed.

Theorem C10_stack_top_is_source : forall (l : list T),
  FnStack.Top l zero = emb (fun v => v) (top T zero l).
Proof.
  intros l. unfold FnStack.Top, top, top_empty, top_idx. change (StackModel.zlen T l) with (zlen l).
  case_if; [reflexivity|].
  rewrite get_eq. destruct (idx l (zlen l - 1)); reflexivity.
Qed.

Theorem C10_stack_peek_is_source : forall (l : list T) (n : Z),
  FnStack.Peek l n zero = emb (fun vb => vb) (peek T zero n l).
Proof.
  intros l n. unfold FnStack.Peek, peek, peek_none, peek_idx, peek_ret_none, peek_ret_ok. change (StackModel.zlen T l) with (zlen l).
  case_if; [reflexivity|].
  rewrite get_eq. destruct (idx l (zlen l - 1 - n)); reflexivity.
Qed.

End Stack.

Print Assumptions C10_stack_push_is_source.
Print Assumptions C10_stack_add_is_source.
Print Assumptions C10_stack_isempty_is_source.
Print Assumptions C10_stack_clear_is_source.
Print Assumptions C10_stack_len_is_source.
Print Assumptions C10_stack_top_is_source.
Print Assumptions C10_stack_peek_is_source.
