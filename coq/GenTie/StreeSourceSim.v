(* stree, source-level histories (definitions: StreeSource.v): the SIMULATION.

   [sim h0 st t]: the generated Tree object st stands for the model's Tree t: the scalar fields
   are equal, the root address represents the model's root on a tree-shaped region F (trepr,
   StreeSep.v), F lies entirely beyond the initial heap h0, and no cell of h0 has changed.

   gstep_sim: one step of the generated code answers what the model's [step] answers (in Go's
   return conventions, [view]) and re-establishes [sim]: the per-function ties
   C01_add/replace/tree_remove/clear/get/min/max/len/isempty/tree_inorder/inorderAfter_is_source
   composed.  By induction over the history: grun = views (run of the model); with C01_history
   (the model refines the sorted-list reference) and the reading of the reference's multi-tree
   run on one tree: grun = ref_run.  No comparator law is used by the ties themselves; the laws
   enter through C01_history and through the model's no-failure lemmas (Add_ok ...), which also
   give size = number of nodes, i.e. that [fuel_for] is enough. *)
From Coq Require Import ZArith List Bool Arith Lia.
From Mds Require Import Gen.StreeConst Gen.StreeNode.
From Mds Require Import Common.FnRt Common.FnHeap GenTie.TieLib GenTie.StreeTieBase GenTie.StreeSep
  GenTie.StreeTieRead GenTie.StreeTieWalk GenTie.StreeTieMutField GenTie.StreeTieMutTree GenTie.StreeSource.
From Mds Require Stree.StreeSpec Stree.StreeProofsBase Stree.StreeProofsHist Props.C01.
Import ListNotations.
Local Open Scope Z_scope.

Module PH := StreeProofsHist.
Module PB := StreeProofsBase.

(* the history of the model that a source-level history stands for: everything on tree number 0 *)
Definition to_op {T : Type} (o : sop T) : SM.op T :=
  match o with
  | SAdd k => SM.OAdd 0 k
  | SReplace k => SM.OReplace 0 k
  | SRemove k => SM.ORemove 0 k
  | SClear => SM.OClear 0
  | SGet k => SM.OGet 0 k
  | SMin => SM.OMin 0
  | SMax => SM.OMax 0
  | SLen => SM.OLen 0
  | SIsEmpty => SM.OIsEmpty 0
  | SInorder stop => SM.OInorder 0 stop
  | SInorderAfter k stop => SM.OInorderAfter 0 k stop
  end.

(* an output of the model / the reference in Go's return conventions *)
Definition view {T : Type} (zero : T) (o : sop T) (x : SM.out T) : gout T :=
  match x with
  | SM.RUnit => GUnit
  | SM.RBool v => GBool v
  | SM.RInt z => GInt z
  | SM.ROpt r =>
    match o with
    | SGet _ => match r with Some k => GGet k true | None => GGet zero false end
    | _ => GKey (match r with Some k => k | None => zero end)
    end
  | SM.RList l => GList l
  | SM.RPanic => GPanic PNil
  | _ => GFuel
  end.

Fixpoint views {T : Type} (zero : T) (ops : list (sop T)) (xs : list (SM.out T)) : list (gout T) :=
  match ops, xs with
  | o :: r, x :: xr => view zero o x :: views zero r xr
  | _, _ => []
  end.

Section Sim.
Context {T : Type}.
Variable cmp : T -> T -> Z.
Hypothesis HP : SP.total_preorder cmp.
Variable limit : Z -> Z -> Z.
Variable zero : T.
Variable b : Z.
Variable h0 : list (G.node T).
Notation heap := (list (G.node T)).
Notation gstep := (gstep cmp limit zero b).
Notation grun := (grun cmp limit zero b).
Notation gexec := (gexec cmp limit zero b).

Definition sim (st : gst T) (t : SM.Tree T) : Prop :=
  g_size st = SM.tsize t /\ g_max st = SM.maxsize t /\ SM.beta t = b /\
  exists F, trepr (g_heap st) (g_root st) (SM.root t) F /\
            (forall k, In k F -> (length h0 <= k)%nat) /\ frame h0 (g_heap st) [].

Lemma sim_init : sim (ginit h0) (SM.mkTree SM.Leaf b 0 0).
Proof.
  unfold sim, ginit. cbn. repeat split; auto.
  exists []. split; [constructor|]. split; [intros k []|apply frame_refl].
Qed.

(* the cached size is the number of nodes: the fuel handed to every call is enough *)
Lemma rel_count (t : SM.Tree T) l : PH.rel T cmp t l -> SM.count (SM.root t) = Z.to_nat (SM.tsize t).
Proof.
  intros (I & _ & Z). rewrite Z, Nat2Z.id, <- I. symmetry. apply PB.count_inorder.
Qed.

Lemma rel_depth (t : SM.Tree T) l : PH.rel T cmp t l -> (depth (SM.root t) <= Z.to_nat (SM.tsize t))%nat.
Proof. intros H. rewrite <- (rel_count t l H). apply depth_le_count. Qed.

(* a mutator whose tie gave [tree_post] re-establishes sim *)
Lemma sim_mut (st : gst T) (t t' : SM.Tree T) (ok : bool) (F : list nat)
      (g : res (bool * option nat * Z * Z * heap)) :
  trepr (g_heap st) (g_root st) (SM.root t) F ->
  (forall k, In k F -> (length h0 <= k)%nat) -> frame h0 (g_heap st) [] -> SM.beta t = b ->
  StreeSep.rel (tree_post (g_heap st) F t) (SM.Ok (t', ok)) g ->
  exists st', g_mut st g = (st', GBool ok) /\ sim st' t'.
Proof.
  intros R HF Fr Hb [[[[[ok' a'] sz] mx] h'] [-> [-> [-> [-> [Hb' [F' [R' [S' Fr']]]]]]]]].
  cbn [g_mut]. eexists. split; [reflexivity|].
  unfold sim. cbn [g_heap g_root g_size g_max]. split; [reflexivity|]. split; [reflexivity|].
  split; [congruence|]. exists F'. split; [exact R'|]. split.
  - intros k Hk. destruct (S' k Hk) as [Y|Y]; [apply HF; exact Y|]. destruct Fr as [L _]. lia.
  - apply (frame_trans h0 (g_heap st) h' [] F Fr); [|exact Fr']. intros k Hk. right. apply HF. exact Hk.
Qed.

(* ---- one step ---- *)
Lemma gstep_sim (st : gst T) (t : SM.Tree T) (l : list T) (o : sop T) :
  sim st t -> PH.rel T cmp t l ->
  exists st' t', gstep st o = (st', view zero o (snd (SM.step cmp limit [t] (to_op o)))) /\
                 fst (SM.step cmp limit [t] (to_op o)) = [t'] /\ sim st' t'.
Proof.
  intros Hs Hr. pose proof (rel_count t l Hr) as Hc. pose proof (rel_depth t l Hr) as Hd.
  pose proof Hs as Hs0.
  destruct st as [h r sz mx]. destruct Hs as [Esz [Emx [Hb [F [R [HF Fr]]]]]].
  cbn [g_heap g_root g_size g_max] in *. subst sz mx.
  pose proof (trepr_repr _ _ _ _ R) as Rr.
  unfold StreeSource.gstep. cbn [g_heap g_root g_size g_max]. unfold fuel_for.
  destruct o as [k|k|k| |k| | | | |stop|k stop]; cbn [to_op SM.step].
  - (* Add *)
    destruct (PH.Add_ok T cmp HP limit t l k Hr) as [t' [E [_ _]]].
    unfold SM.step_mut. cbn [nth_error]. rewrite E. cbn [fst snd SM.set_nth view].
    pose proof (C01_add_is_source cmp limit zero t h r F k (2 * Z.to_nat (SM.tsize t) + 7) R ltac:(lia)) as Tie.
    rewrite E, Hb in Tie.
    destruct (sim_mut (mk_gst h r (SM.tsize t) (SM.maxsize t)) t t' _ F _ R HF Fr Hb Tie) as [st' [Eg Hs']].
    exists st', t'. split; [exact Eg|]. split; [reflexivity|exact Hs'].
  - (* Replace *)
    destruct (PH.Replace_ok T cmp HP limit t l k Hr) as [t' [E [_ _]]].
    unfold SM.step_mut. cbn [nth_error]. rewrite E. cbn [fst snd SM.set_nth view].
    pose proof (C01_replace_is_source cmp limit zero t h r F k (2 * Z.to_nat (SM.tsize t) + 7) R ltac:(lia)) as Tie.
    rewrite E, Hb in Tie.
    destruct (sim_mut (mk_gst h r (SM.tsize t) (SM.maxsize t)) t t' _ F _ R HF Fr Hb Tie) as [st' [Eg Hs']].
    exists st', t'. split; [exact Eg|]. split; [reflexivity|exact Hs'].
  - (* Remove *)
    destruct (PH.Remove_ok T cmp HP t l k Hr) as [t' [E [_ _]]].
    unfold SM.step_mut. cbn [nth_error]. rewrite E. cbn [fst snd SM.set_nth view].
    pose proof (C01_tree_remove_is_source cmp zero t h r F k (2 * Z.to_nat (SM.tsize t) + 7) R ltac:(lia) ltac:(lia)) as Tie.
    rewrite E, Hb in Tie.
    destruct (sim_mut (mk_gst h r (SM.tsize t) (SM.maxsize t)) t t' _ F _ R HF Fr Hb Tie) as [st' [Eg Hs']].
    exists st', t'. split; [exact Eg|]. split; [reflexivity|exact Hs'].
  - (* Clear *)
    cbn [nth_error SM.set_nth fst snd view].
    destruct (C01_clear_is_source t h r) as [a' [E [R' B']]]. rewrite E.
    exists (mk_gst h a' (SM.tsize (SM.Clear t)) (SM.maxsize (SM.Clear t))), (SM.Clear t).
    split; [reflexivity|]. split; [reflexivity|].
    unfold sim. cbn [g_heap g_root g_size g_max]. split; [reflexivity|]. split; [reflexivity|].
    split; [congruence|]. exists []. split; [exact R'|]. split; [intros k0 []|exact Fr].
  - (* Get *)
    unfold SM.step_obs, g_obs. cbn [nth_error fst snd].
    rewrite (C01_get_is_source cmp zero h r (SM.root t) k _ Rr) by lia.
    exists (mk_gst h r (SM.tsize t) (SM.maxsize t)), t. split; [|split; [reflexivity|exact Hs0]].
    unfold SM.Get. cbn [view]. destruct (SM.get cmp k (SM.root t)); reflexivity.
  - (* Min *)
    unfold SM.step_obs, g_obs. cbn [nth_error fst snd].
    rewrite (C01_min_is_source zero h r (SM.root t) _ Rr) by lia.
    exists (mk_gst h r (SM.tsize t) (SM.maxsize t)), t. split; [|split; [reflexivity|exact Hs0]].
    reflexivity.
  - (* Max *)
    unfold SM.step_obs, g_obs. cbn [nth_error fst snd].
    rewrite (C01_max_is_source zero h r (SM.root t) _ Rr) by lia.
    exists (mk_gst h r (SM.tsize t) (SM.maxsize t)), t. split; [|split; [reflexivity|exact Hs0]].
    reflexivity.
  - (* Len *)
    unfold SM.step_obs. cbn [nth_error fst snd]. rewrite (C01_len_is_source t).
    exists (mk_gst h r (SM.tsize t) (SM.maxsize t)), t. split; [reflexivity|]. split; [reflexivity|exact Hs0].
  - (* IsEmpty *)
    unfold SM.step_obs. cbn [nth_error fst snd]. rewrite (C01_isempty_is_source t).
    exists (mk_gst h r (SM.tsize t) (SM.maxsize t)), t. split; [reflexivity|]. split; [reflexivity|exact Hs0].
  - (* Inorder *)
    unfold SM.step_obs, g_obs, collect. cbn [nth_error fst snd].
    rewrite (C01_tree_inorder_is_source (SM.yield_log stop) _ h r (SM.root t) ([], O) Rr) by lia.
    exists (mk_gst h r (SM.tsize t) (SM.maxsize t)), t. split; [reflexivity|]. split; [reflexivity|exact Hs0].
  - (* InorderAfter: the body of the iterator, t.root.inorderAfter(key, t.compare, yield) *)
    unfold SM.step_obs, g_obs, collect, SM.InorderAfter. cbn [nth_error fst snd].
    destruct (C01_inorderAfter_is_source cmp (SM.yield_log stop) h r (SM.root t) k ([], O)
                (2 * Z.to_nat (SM.tsize t) + 7) Rr ltac:(lia)) as [[lg ok] [E1 E2]].
    rewrite E1, E2.
    exists (mk_gst h r (SM.tsize t) (SM.maxsize t)), t. split; [reflexivity|]. split; [reflexivity|exact Hs0].
Qed.

(* the model's step keeps "one tree, related to a reference list" *)
Lemma rel_step (t t' : SM.Tree T) (l : list T) (o : sop T) :
  PH.rel T cmp t l -> fst (SM.step cmp limit [t] (to_op o)) = [t'] ->
  exists l', PH.rel T cmp t' l'.
Proof.
  intros Hr E.
  destruct (PH.step_refines T cmp HP limit [t] [l] (to_op o)) as [_ R].
  { constructor; [exact Hr|constructor]. }
  rewrite E in R. inversion R as [|? l' ? ? R1 R2]; subst. exists l'. exact R1.
Qed.

(* ---- whole histories: outputs and final states ---- *)
Lemma grun_sim (ops : list (sop T)) : forall (st : gst T) (t : SM.Tree T) (l : list T),
  sim st t -> PH.rel T cmp t l ->
  grun st ops = views zero ops (SM.run_from cmp limit [t] (map to_op ops)).
Proof.
  induction ops as [|o ops IH]; intros st t l Hs Hr; [reflexivity|].
  cbn [StreeSource.grun map SM.run_from views].
  destruct (gstep_sim st t l o Hs Hr) as [st' [t' [Eg [Em Hs']]]].
  destruct (rel_step t t' l o Hr Em) as [l' Hr'].
  rewrite Eg. destruct (SM.step cmp limit [t] (to_op o)) as [s1 x]. cbn [fst snd] in *. subst s1.
  cbn [views]. f_equal. apply (IH st' t' l' Hs' Hr').
Qed.

Lemma gexec_sim (ops : list (sop T)) : forall (st : gst T) (t : SM.Tree T) (l : list T),
  sim st t -> PH.rel T cmp t l ->
  exists t' l', SM.exec_from cmp limit [t] (map to_op ops) = [t'] /\
                sim (gexec st ops) t' /\ PH.rel T cmp t' l'.
Proof.
  induction ops as [|o ops IH]; intros st t l Hs Hr; [exists t, l; auto|].
  cbn [StreeSource.gexec map SM.exec_from].
  destruct (gstep_sim st t l o Hs Hr) as [st' [t' [Eg [Em Hs']]]].
  destruct (rel_step t t' l o Hr Em) as [l' Hr'].
  rewrite Eg, Em. cbn [fst]. apply (IH st' t' l' Hs' Hr').
Qed.

(* ---- the model's history that starts with New(b, cmp) without keys ---- *)
Hypothesis Hb : 0 <= b <= 1000.

Lemma new_empty : SM.New cmp b [] [] = SM.Ok (SM.mkTree SM.Leaf b 0 0).
Proof.
  unfold SM.New, new_beta_bad, new_has_keys. cbn [length].
  replace (b <? 0) with false by (symmetry; apply Z.ltb_ge; lia).
  replace (b >? 1000) with false by (symmetry; rewrite Z.gtb_ltb; apply Z.ltb_ge; lia).
  reflexivity.
Qed.

Lemma rel_empty : PH.rel T cmp (SM.mkTree SM.Leaf b 0 0) [].
Proof. split; [reflexivity|]. split; [exact I|reflexivity]. Qed.

Lemma run_new (ops : list (SM.op T)) :
  SM.run cmp limit (SM.ONew b [] [] :: ops) = SM.RUnit :: SM.run_from cmp limit [SM.mkTree SM.Leaf b 0 0] ops.
Proof. unfold SM.run. cbn [SM.run_from SM.step]. rewrite new_empty. reflexivity. Qed.

(* the simulation theorem: the outputs of the generated code are the model's *)
Theorem source_simulates_model (ops : list (sop T)) :
  grun (ginit h0) ops = views zero ops (tl (SM.run cmp limit (SM.ONew b [] [] :: map to_op ops))).
Proof.
  rewrite run_new. cbn [tl]. apply (grun_sim ops _ _ [] sim_init rel_empty).
Qed.

(* ---- the reference's multi-tree run on one tree is ref_run ---- *)
Lemma spec_single (ops : list (sop T)) : forall l : list T,
  views zero ops (SP.spec_run_from cmp [l] (map to_op ops)) = ref_run cmp zero l ops.
Proof.
  induction ops as [|o ops IH]; intros l; [reflexivity|].
  cbn [map SP.spec_run_from ref_run].
  destruct o as [k|k|k| |k| | | | |stop|k stop]; cbn [to_op SP.spec_step ref_step];
    unfold SP.s_mut, SP.s_obs; cbn [nth_error];
    try (destruct (SP.s_insert cmp _ k l) as [l' ok]); try (destruct (SP.s_remove cmp k l) as [l' ok]);
    cbn [SM.set_nth views view]; rewrite IH; reflexivity.
Qed.

Lemma spec_new (ops : list (SM.op T)) :
  SP.spec_run cmp (SM.ONew b [] [] :: ops) = SM.RUnit :: SP.spec_run_from cmp [[]] ops.
Proof.
  unfold SP.spec_run. cbn [SP.spec_run_from SP.spec_step].
  replace (b <? 0) with false by (symmetry; apply Z.ltb_ge; lia).
  replace (1000 <? b) with false by (symmetry; apply Z.ltb_ge; lia).
  reflexivity.
Qed.

(* no answer of the reference is a failure *)
Lemma ref_no_failure (ops : list (sop T)) : forall l : list T,
  Forall (fun x => (forall k, x <> GPanic k) /\ x <> GFuel) (ref_run cmp zero l ops).
Proof.
  induction ops as [|o ops IH]; intros l; [constructor|].
  cbn [ref_run]. destruct (ref_step cmp zero l o) as [l' x] eqn:E. constructor; [|apply IH].
  destruct o as [k|k|k| |k| | | | |stop|k stop]; cbn [ref_step] in E;
    try (destruct (SP.s_insert cmp _ k l)); try (destruct (SP.s_remove cmp k l));
    try (destruct (SP.s_get cmp k l));
    inversion E; subst; split; try intros ?; discriminate.
Qed.

(* ---- C01 at the level of the generated code ---- *)
Theorem history_source (ops : list (sop T)) :
  grun (ginit h0) ops = ref_run cmp zero [] ops /\
  Forall (fun x => (forall k, x <> GPanic k) /\ x <> GFuel) (grun (ginit h0) ops).
Proof.
  assert (E : grun (ginit h0) ops = ref_run cmp zero [] ops).
  { rewrite source_simulates_model.
    rewrite (C01.C01_history T cmp HP limit (SM.ONew b [] [] :: map to_op ops)).
    rewrite spec_new. cbn [tl]. apply spec_single. }
  split; [exact E|]. rewrite E. apply ref_no_failure.
Qed.

(* ---- the final state: a tree-shaped region beyond h0 that holds the reference's list; no cell
        of the initial heap changed ---- *)
Lemma hkeys_trepr (h : heap) : forall (a : option nat) (t : SM.tree T) (F : list nat) (n : nat),
  trepr h a t F -> (n >= depth t)%nat -> hkeys h n a = Some (SM.inorder t).
Proof.
  intros a t F n R. revert n.
  induction R as [|a c l r Fl Fr Hn _ IHl _ IHr _ _ _]; intros n Hd; [destruct n; reflexivity|].
  cbn [depth] in Hd. destruct n as [|n]; [lia|]. cbn [hkeys SM.inorder]. rewrite Hn.
  rewrite IHl, IHr by lia. reflexivity.
Qed.

Lemma ref_exec_spec (ops : list (sop T)) : forall (t : SM.Tree T) (l : list T),
  PH.rel T cmp t l ->
  exists t', SM.exec_from cmp limit [t] (map to_op ops) = [t'] /\ PH.rel T cmp t' (ref_exec cmp zero l ops).
Proof.
  induction ops as [|o ops IH]; intros t l Hr; [exists t; auto|].
  cbn [map SM.exec_from ref_exec].
  destruct (PH.step_refines T cmp HP limit [t] [l] (to_op o)) as [_ R].
  { constructor; [exact Hr|constructor]. }
  assert (E : fst (SP.spec_step cmp [l] (to_op o)) = [fst (ref_step cmp zero l o)]).
  { destruct o as [k|k|k| |k| | | | |stop|k stop]; cbn [to_op SP.spec_step ref_step];
      unfold SP.s_mut, SP.s_obs; cbn [nth_error];
      try (destruct (SP.s_insert cmp _ k l) as [l' ok]); try (destruct (SP.s_remove cmp k l) as [l' ok]);
      reflexivity. }
  rewrite E in R. inversion R as [|t1 ? s1 ? R1 R2 E1]; subst. inversion R2; subst.
  apply (IH t1 _ R1).
Qed.

Theorem final_state_source (ops : list (sop T)) :
  let st := gexec (ginit h0) ops in
  let l := ref_exec cmp zero [] ops in
  hkeys (g_heap st) (length (g_heap st)) (g_root st) = Some l /\
  g_size st = Z.of_nat (length l) /\
  frame h0 (g_heap st) [] /\
  exists t F, trepr (g_heap st) (g_root st) t F /\ SM.inorder t = l /\
              forall k, In k F -> (length h0 <= k < length (g_heap st))%nat.
Proof.
  cbn zeta.
  destruct (gexec_sim ops _ _ [] sim_init rel_empty) as [t' [l' [Ex [Hs _]]]].
  destruct (ref_exec_spec ops _ [] rel_empty) as [t2 [Ex2 Hr]].
  rewrite Ex in Ex2. inversion Ex2; subst t2.
  destruct Hs as [Esz [_ [_ [F [R [HF Fr]]]]]]. destruct Hr as (I & _ & Z).
  assert (Hd : (depth (SM.root t') <= length (g_heap (gexec (ginit h0) ops)))%nat).
  { pose proof (depth_le_count (SM.root t')). pose proof (trepr_count _ _ _ _ R).
    pose proof (trepr_nodup _ _ _ _ R) as ND. pose proof (trepr_bound _ _ _ _ R) as Bd.
    assert (length F <= length (seq 0 (length (g_heap (gexec (ginit h0) ops)))))%nat.
    { apply NoDup_incl_length; [exact ND|]. intros k Hk. apply in_seq. specialize (Bd k Hk). lia. }
    rewrite seq_length in *. lia. }
  split; [rewrite <- I; apply (hkeys_trepr _ _ _ F); [exact R|lia]|].
  split; [rewrite Esz; exact Z|]. split; [exact Fr|].
  exists (SM.root t'), F. split; [exact R|]. split; [exact I|].
  intros k Hk. split; [apply HF; exact Hk|apply (trepr_bound _ _ _ _ R k Hk)].
Qed.

End Sim.

Print Assumptions source_simulates_model.
Print Assumptions history_source.
Print Assumptions final_state_source.
