(* editScriptFunc and EditScript of slice/edit.go: the model (Slice/EditModel.v:
   edit_script_run_cap = the model of LCSFunc followed by the loops of Slice/EditLoop.v over the
   generated definitions of Gen/EditIdx.v) = the functions generated from the whole bodies
   (Gen/FnEdit.v), for every element type, EVERY test eq (no law), all inputs and every content of
   the spare capacity of the two inputs.

   Storage.  The generated [Edit T] holds X and Y as VIEWS (offset, len, cap) into the arguments:
   the translator checks that every literal sets X from a window of lhs and Y from a window of rhs
   (comment "slice fields" in Gen/FnEdit.v), so the views say which storage an edit shares with
   the inputs.  The model holds the ELEMENTS of X and Y, read from lhs ++ lx / rhs ++ rx where
   lx, rx are the contents of the spare capacity.  [erel]: an edit of the model and an edit of the
   generated code are related when the Op byte decodes to the model's op and the windows, read off
   lhs ++ lx and rhs ++ rx, hold the model's elements (the nil slice of a field left out of a
   literal is the view (0,0,0): no elements).  The arguments' own views are (0, len, len + spare).

   Statement ([ereq]): when the model answers [EOk es] the generated function returns [Ok es'] with
   es and es' related edit by edit; when the model panics (one EPanic for index and slice-bounds
   panics) the generated function panics; nothing is claimed where the model's own loop fuel runs
   out (Slice/EditProofs.v proves it never does). *)
From Coq Require Import ZArith List Bool Lia ZifyBool.
From Mds Require Import Common.FnRt GenTie.TieLib Gen.EditIdx Gen.LcsIdx Gen.FnEdit Slice.LcsModel Slice.EditLoop Slice.EditModel
  Slice.Subseq Slice.LcsProofs GenTie.LisTieBase GenTie.LcsTie.
Import ListNotations.
Local Open Scope Z_scope.

Definition ereq {A B} (R : A -> B -> Prop) (m : eres A) (g : res B) : Prop :=
  match m with
  | EOk a => exists b, g = Ok b /\ R a b
  | EPanic => exists k, g = Panic k
  | EOutOfFuel => True
  end.

Lemma ereq_bind {A B A' B'} (R : A -> B -> Prop) (R' : A' -> B' -> Prop) m g k k' :
  ereq R m g -> (forall a b, R a b -> ereq R' (k a) (k' b)) -> ereq R' (ebind m k) (bind g k').
Proof.
  destruct m; simpl; intros H K; auto.
  - destruct H as (b & -> & Hr). simpl. apply K. exact Hr.
  - destruct H as (kk & ->). simpl. eauto.
Qed.

Definition elems {A} (base : list A) (v : view) : list A :=
  firstn (Z.to_nat (vlen v)) (skipn (Z.to_nat (voff v)) base).

Lemma op_of_code_inv c o : op_of_code c = Some o -> op_code o = c.
Proof.
  unfold op_of_code, op_code.
  destruct (c =? op_drop_code) eqn:E1; [intros H; inversion H; lia|].
  destruct (c =? op_emit_code) eqn:E2; [intros H; inversion H; lia|].
  destruct (c =? op_copy_code) eqn:E3; [intros H; inversion H; lia|].
  destruct (c =? op_replace_code) eqn:E4; [intros H; inversion H; lia|]. discriminate.
Qed.

(* s[lo:hi] with Go's bounds rule (against the capacity), on the elements and on the view *)
Lemma slice_ereq {A} (base : list A) (v : view) lo hi : voff v = 0 -> vcap v = FnRt.zlen base ->
  ereq (fun s w => elems base w = s) (of_opt (zslice base lo hi)) (go_slice2 v lo hi).
Proof.
  intros Ho Hc. unfold zslice, go_slice2, go_slice3. change (EditLoop.zlen base) with (FnRt.zlen base). rewrite Hc, Ho.
  destruct ((0 <=? lo) && (lo <=? hi) && (hi <=? FnRt.zlen base)) eqn:E; cbn [of_opt ereq andb].
  - rewrite Z.leb_refl. eexists; split; [reflexivity|]. unfold elems. simpl. reflexivity.
  - eauto.
Qed.

Section Edit.
Context {T : Type}.
Variable eqb : T -> T -> bool.
Variables lx rx lhs rhs : list T.

Definition lhs_v : view := mkView 0 (FnRt.zlen lhs) (FnRt.zlen lhs + FnRt.zlen lx).
Definition rhs_v : view := mkView 0 (FnRt.zlen rhs) (FnRt.zlen rhs + FnRt.zlen rx).

Lemma lhs_cap : vcap lhs_v = FnRt.zlen (lhs ++ lx).
Proof. unfold lhs_v, FnRt.zlen. simpl. rewrite app_length. lia. Qed.
Lemma rhs_cap : vcap rhs_v = FnRt.zlen (rhs ++ rx).
Proof. unfold rhs_v, FnRt.zlen. simpl. rewrite app_length. lia. Qed.

Definition erel (e : edit T) (e' : Edit T) : Prop :=
  op_of_code (Edit_Op e') = Some (eop e) /\ elems (lhs ++ lx) (Edit_X e') = X e /\ elems (rhs ++ rx) (Edit_Y e') = Y e.

Definition orel : list (edit T) -> list (Edit T) -> Prop := Forall2 erel.

Lemma lslice_ereq lo hi :
  ereq (fun s w => elems (lhs ++ lx) w = s) (of_opt (zslice_cap lhs lx lo hi)) (go_slice2 lhs_v lo hi).
Proof. apply slice_ereq; [reflexivity | apply lhs_cap]. Qed.

Lemma rslice_ereq lo hi :
  ereq (fun s w => elems (rhs ++ rx) w = s) (of_opt (zslice_cap rhs rx lo hi)) (go_slice2 rhs_v lo hi).
Proof. apply slice_ereq; [reflexivity | apply rhs_cap]. Qed.

Lemma elems_nil {A} (base : list A) : elems base (mkView 0 0 0) = [].
Proof. reflexivity. Qed.

Lemma orel_snoc out out' e e' : orel out out' -> erel e e' -> orel (out ++ [e]) (out' ++ [e']).
Proof. intros H He. apply Forall2_app; [exact H | constructor; [exact He | constructor]]. Qed.

Lemma orel_length out out' : orel out out' -> FnRt.zlen out' = EditLoop.zlen out.
Proof. intros H. unfold FnRt.zlen, EditLoop.zlen. f_equal. induction H; simpl; [reflexivity | f_equal; assumption]. Qed.

Lemma zth_get {A} (l : list A) i :
  match zth l i with Some x => go_get l i = Ok x | None => exists k, go_get l i = Panic k end.
Proof.
  change (zth l i) with (znth l i). destruct (znth l i) eqn:E; [apply get_some | apply get_none]; exact E.
Qed.

(* ---------------------------------------------------------------- the two re-matching loops *)
Lemma lscan_ereq : forall fuel gas f0 lcs i pos, (fuel <= gas)%nat ->
  ereq eq (scan T eqb es_lscan_cond es_lscan_idx es_lscan_lcs_idx es_lend_step fuel lhs lcs i pos)
          (editScriptFunc_loop2 f0 gas eqb lhs lcs i pos).
Proof.
  induction fuel; intros gas f0 lcs i pos Hg; [exact I|]. destruct gas; [lia|].
  cbn [scan editScriptFunc_loop2]. unfold es_lscan_cond, es_lscan_idx, es_lscan_lcs_idx, es_lend_step.
  pose proof (zth_get lhs pos) as H1. destruct (zth lhs pos) as [a|].
  2:{ destruct H1 as [k ->]. simpl. eauto. }
  rewrite H1. cbn [bind].
  pose proof (zth_get lcs i) as H2. destruct (zth lcs i) as [x|].
  2:{ destruct H2 as [k ->]. simpl. eauto. }
  rewrite H2. cbn [bind].
  destruct (negb (eqb a x)); [apply IHfuel; lia | simpl; eauto].
Qed.

Lemma rscan_ereq : forall fuel gas f0 lcs i pos, (fuel <= gas)%nat ->
  ereq eq (scan T eqb es_rscan_cond es_rscan_idx es_rscan_lcs_idx es_rend_step fuel rhs lcs i pos)
          (editScriptFunc_loop3 f0 gas eqb rhs lcs i pos).
Proof.
  induction fuel; intros gas f0 lcs i pos Hg; [exact I|]. destruct gas; [lia|].
  cbn [scan editScriptFunc_loop3]. unfold es_rscan_cond, es_rscan_idx, es_rscan_lcs_idx, es_rend_step.
  pose proof (zth_get rhs pos) as H1. destruct (zth rhs pos) as [a|].
  2:{ destruct H1 as [k ->]. simpl. eauto. }
  rewrite H1. cbn [bind].
  pose proof (zth_get lcs i) as H2. destruct (zth lcs i) as [x|].
  2:{ destruct H2 as [k ->]. simpl. eauto. }
  rewrite H2. cbn [bind].
  destruct (negb (eqb a x)); [apply IHfuel; lia | simpl; eauto].
Qed.

(* ---------------------------------------------------------------- the run-extension loop *)
Lemma run_ext_ereq : forall fuel gas f0 lcs i lpos rpos m, (fuel <= gas)%nat ->
  ereq eq (run_ext T eqb fuel lhs rhs (EditLoop.zlen lcs) i lpos rpos m)
          (editScriptFunc_loop4 f0 gas eqb lhs rhs lcs lpos rpos i m).
Proof.
  induction fuel; intros gas f0 lcs i lpos rpos m Hg; [exact I|]. destruct gas; [lia|].
  cbn [run_ext editScriptFunc_loop4]. unfold es_run_lidx, es_run_ridx, es_run_cond, es_m_step.
  change (EditLoop.zlen lcs) with (FnRt.zlen lcs).
  destruct (i + m <? FnRt.zlen lcs) eqn:Ec; cbn [andb].
  - pose proof (zth_get lhs (lpos + m)) as H1. destruct (zth lhs (lpos + m)) as [a|].
    2:{ destruct H1 as [k ->]. simpl. eauto. }
    rewrite H1. cbn [bind].
    pose proof (zth_get rhs (rpos + m)) as H2. destruct (zth rhs (rpos + m)) as [b|].
    2:{ destruct H2 as [k ->]. simpl. eauto. }
    rewrite H2. cbn [bind].
    destruct (eqb a b); [apply IHfuel; lia | simpl; eauto].
  - cbn [bind]. destruct (zth lhs (lpos + m)); [destruct (zth rhs (rpos + m))|]; simpl; eauto.
Qed.

(* ---------------------------------------------------------------- the edits before a match *)
Lemma lit_rel c o x y vx vy : op_of_code c = Some o ->
  elems (lhs ++ lx) vx = x -> elems (rhs ++ rx) vy = y ->
  lit T c x y = EOk (mkEdit o x y) /\ erel (mkEdit o x y) (mk_Edit c vx vy).
Proof. intros Ho Hx Hy. unfold lit. rewrite Ho. split; [reflexivity|]. repeat split; assumption. Qed.

Lemma gap_ereq : forall lpos lend rpos rend out out', orel out out' ->
  ereq orel (gap_edits T lx rx lhs rhs lpos lend rpos rend out)
    (bind (if (lend >? lpos) && (rend >? rpos) then
             bind (go_slice2 lhs_v lpos lend) (fun t6 =>
             bind (go_slice2 rhs_v rpos rend) (fun t7 =>
             Ok (rend, out' ++ [mk_Edit 33 t6 t7])))
           else
             bind (if lend >? lpos then
                     bind (go_slice2 lhs_v lpos lend) (fun t8 => Ok (out' ++ [mk_Edit 45 t8 (mkView 0 0 0)]))
                   else Ok out') (fun out => Ok (rpos, out)))
      (fun '(rpos, out) =>
         if rend >? rpos then bind (go_slice2 rhs_v rpos rend) (fun t9 => Ok (out ++ [mk_Edit 43 (mkView 0 0 0) t9]))
         else Ok out)).
Proof.
  intros lpos lend rpos rend out out' Ho. unfold gap_edits.
  unfold es_fuse_cond, es_fuse_x_lo, es_fuse_x_hi, es_fuse_y_lo, es_fuse_y_hi, es_fuse_rpos, es_drop_cond,
    es_drop_x_lo, es_drop_x_hi, es_copy_cond, es_copy_y_lo, es_copy_y_hi.
  apply (ereq_bind (fun (a : list (edit T) * Z) (b : Z * list (Edit T)) => orel (fst a) (snd b) /\ snd a = fst b)).
  - destruct ((lend >? lpos) && (rend >? rpos)).
    + apply (ereq_bind _ _ _ _ _ _ (lslice_ereq lpos lend)). intros x vx Hx.
      apply (ereq_bind _ _ _ _ _ _ (rslice_ereq rpos rend)). intros y vy Hy.
      destruct (lit_rel es_fuse_op Replace x y vx vy eq_refl Hx Hy) as [-> He]. simpl.
      eexists; split; [reflexivity|]. split; [apply orel_snoc; assumption | reflexivity].
    + destruct (lend >? lpos).
      * rewrite bind_assoc.
        apply (ereq_bind _ _ _ _ _ _ (lslice_ereq lpos lend)). intros x vx Hx.
        destruct (lit_rel es_drop_op Drop x [] vx (mkView 0 0 0) eq_refl Hx eq_refl) as [-> He]. simpl.
        eexists; split; [reflexivity|]. split; [apply orel_snoc; assumption | reflexivity].
      * simpl. eexists; split; [reflexivity|]. split; [assumption | reflexivity].
  - intros [out1 rpos1] [rpos1' out1'] [Ho1 Hr]. simpl in Ho1, Hr. subst rpos1'.
    destruct (rend >? rpos1).
    + apply (ereq_bind _ _ _ _ _ _ (rslice_ereq rpos1 rend)). intros y vy Hy.
      destruct (lit_rel es_copy_op Copy [] y (mkView 0 0 0) vy eq_refl eq_refl Hy) as [-> He]. simpl.
      eexists; split; [reflexivity|]. apply orel_snoc; assumption.
    + simpl. eexists; split; [reflexivity | assumption].
Qed.

(* ---------------------------------------------------------------- the outer loop *)
Definition st_rel (a : Z * Z * list (edit T)) (b : Z * Z * Z * list (Edit T)) : Prop :=
  let '(lpos, rpos, out) := a in let '(lpos', rpos', _, out') := b in lpos = lpos' /\ rpos = rpos' /\ orel out out'.

Lemma outer_ereq : forall fuel gas f0 lcs lpos rpos i out out',
  (fuel <= gas)%nat -> (S (length lhs) <= f0)%nat -> (S (length rhs) <= f0)%nat -> (S (length lcs) <= f0)%nat ->
  orel out out' ->
  ereq st_rel (outer T eqb lx rx fuel lhs rhs lcs lpos rpos i out)
              (editScriptFunc_loop1 f0 gas eqb lhs lhs_v rhs rhs_v lcs lpos rpos i out').
Proof.
  induction fuel; intros gas f0 lcs lpos rpos i out out' Hg Hl Hr Hc Ho; [exact I|]. destruct gas; [lia|].
  cbn [outer editScriptFunc_loop1]. unfold es_outer_cond. change (EditLoop.zlen lcs) with (FnRt.zlen lcs).
  destruct (i <? FnRt.zlen lcs).
  2:{ simpl. eexists; split; [reflexivity|]. repeat split; assumption. }
  cbv zeta.
  assert (Hb : ereq (fun (a : Z * Z * Z * list (edit T)) (b : Z * Z * Z * list (Edit T)) =>
                       let '(l1, r1, i1, o1) := a in let '(l2, r2, i2, o2) := b in l1 = l2 /\ r1 = r2 /\ i1 = i2 /\ orel o1 o2)
                (iter_body T eqb lx rx lhs rhs lcs lpos rpos i out)
                (bind (editScriptFunc_loop2 f0 f0 eqb lhs lcs i lpos) (fun lend =>
                 bind (editScriptFunc_loop3 f0 f0 eqb rhs lcs i rpos) (fun rend =>
                 bind (bind (if (lend >? lpos) && (rend >? rpos) then
                         bind (go_slice2 lhs_v lpos lend) (fun t6 =>
                         bind (go_slice2 rhs_v rpos rend) (fun t7 =>
                         Ok (rend, out' ++ [mk_Edit 33 t6 t7])))
                       else
                         bind (if lend >? lpos then
                                 bind (go_slice2 lhs_v lpos lend) (fun t8 => Ok (out' ++ [mk_Edit 45 t8 (mkView 0 0 0)]))
                               else Ok out') (fun out => Ok (rpos, out)))
                  (fun '(rpos, out) =>
                     if rend >? rpos then bind (go_slice2 rhs_v rpos rend) (fun t9 => Ok (out ++ [mk_Edit 43 (mkView 0 0 0) t9]))
                     else Ok out)) (fun out2 =>
                 bind (editScriptFunc_loop4 f0 f0 eqb lhs rhs lcs lend rend i 1) (fun m =>
                 bind (go_slice2 lhs_v lend (lend + m)) (fun t13 =>
                 Ok (lend + m, rend + m, i + m, out2 ++ [mk_Edit 61 t13 (mkView 0 0 0)])))))))).
  { unfold iter_body. unfold es_lend_init, es_rend_init, es_lpos_sync, es_rpos_sync, es_m_init, es_emit_x_lo, es_emit_x_hi,
      es_lpos_step, es_rpos_step, es_i_step.
    apply (ereq_bind _ _ _ _ _ _ (lscan_ereq (S (length lhs)) f0 f0 lcs i lpos Hl)). intros lend ? <-.
    apply (ereq_bind _ _ _ _ _ _ (rscan_ereq (S (length rhs)) f0 f0 lcs i rpos Hr)). intros rend ? <-.
    apply (ereq_bind _ _ _ _ _ _ (gap_ereq lpos lend rpos rend out out' Ho)). intros out2 out2' Ho2.
    apply (ereq_bind _ _ _ _ _ _ (run_ext_ereq (S (length lcs)) f0 f0 lcs i lend rend 1 Hc)). intros m ? <-.
    apply (ereq_bind _ _ _ _ _ _ (lslice_ereq lend (lend + m))). intros x vx Hx.
    destruct (lit_rel es_emit_op Emit x [] vx (mkView 0 0 0) eq_refl Hx eq_refl) as [-> He]. simpl.
    eexists; split; [reflexivity|]. repeat split. apply orel_snoc; assumption. }
  (* the generated loop body is that computation, then the recursive call *)
  match goal with |- ereq _ _ ?gg => assert (Hg' : gg =
     bind (bind (editScriptFunc_loop2 f0 f0 eqb lhs lcs i lpos) (fun lend =>
                 bind (editScriptFunc_loop3 f0 f0 eqb rhs lcs i rpos) (fun rend =>
                 bind (bind (if (lend >? lpos) && (rend >? rpos) then
                         bind (go_slice2 lhs_v lpos lend) (fun t6 =>
                         bind (go_slice2 rhs_v rpos rend) (fun t7 =>
                         Ok (rend, out' ++ [mk_Edit 33 t6 t7])))
                       else
                         bind (if lend >? lpos then
                                 bind (go_slice2 lhs_v lpos lend) (fun t8 => Ok (out' ++ [mk_Edit 45 t8 (mkView 0 0 0)]))
                               else Ok out') (fun out => Ok (rpos, out)))
                  (fun '(rpos, out) =>
                     if rend >? rpos then bind (go_slice2 rhs_v rpos rend) (fun t9 => Ok (out ++ [mk_Edit 43 (mkView 0 0 0) t9]))
                     else Ok out)) (fun out2 =>
                 bind (editScriptFunc_loop4 f0 f0 eqb lhs rhs lcs lend rend i 1) (fun m =>
                 bind (go_slice2 lhs_v lend (lend + m)) (fun t13 =>
                 Ok (lend + m, rend + m, i + m, out2 ++ [mk_Edit 61 t13 (mkView 0 0 0)])))))))
          (fun '(l2, r2, i2, o2) => editScriptFunc_loop1 f0 gas eqb lhs lhs_v rhs rhs_v lcs l2 r2 i2 o2)) end.
  { destruct (editScriptFunc_loop2 f0 f0 eqb lhs lcs i lpos) as [lend| |]; cbn [bind]; try reflexivity.
    destruct (editScriptFunc_loop3 f0 f0 eqb rhs lcs i rpos) as [rend| |]; cbn [bind]; try reflexivity.
    destruct ((lend >? lpos) && (rend >? rpos)).
    - destruct (go_slice2 lhs_v lpos lend) as [t6| |]; cbn [bind]; try reflexivity.
      destruct (go_slice2 rhs_v rpos rend) as [t7| |]; cbn [bind]; try reflexivity.
      destruct (rend >? rend); cbn [bind].
      + destruct (go_slice2 rhs_v rend rend) as [t9| |]; cbn [bind]; try reflexivity.
        destruct (editScriptFunc_loop4 f0 f0 eqb lhs rhs lcs lend rend i 1) as [m| |]; cbn [bind]; try reflexivity.
        destruct (go_slice2 lhs_v lend (lend + m)) as [t13| |]; cbn [bind]; reflexivity.
      + destruct (editScriptFunc_loop4 f0 f0 eqb lhs rhs lcs lend rend i 1) as [m| |]; cbn [bind]; try reflexivity.
        destruct (go_slice2 lhs_v lend (lend + m)) as [t13| |]; cbn [bind]; reflexivity.
    - destruct (lend >? lpos).
      + destruct (go_slice2 lhs_v lpos lend) as [t8| |]; cbn [bind]; try reflexivity.
        destruct (rend >? rpos); cbn [bind].
        * destruct (go_slice2 rhs_v rpos rend) as [t9| |]; cbn [bind]; try reflexivity.
          destruct (editScriptFunc_loop4 f0 f0 eqb lhs rhs lcs lend rend i 1) as [m| |]; cbn [bind]; try reflexivity.
          destruct (go_slice2 lhs_v lend (lend + m)) as [t13| |]; cbn [bind]; reflexivity.
        * destruct (editScriptFunc_loop4 f0 f0 eqb lhs rhs lcs lend rend i 1) as [m| |]; cbn [bind]; try reflexivity.
          destruct (go_slice2 lhs_v lend (lend + m)) as [t13| |]; cbn [bind]; reflexivity.
      + cbn [bind]. destruct (rend >? rpos); cbn [bind].
        * destruct (go_slice2 rhs_v rpos rend) as [t9| |]; cbn [bind]; try reflexivity.
          destruct (editScriptFunc_loop4 f0 f0 eqb lhs rhs lcs lend rend i 1) as [m| |]; cbn [bind]; try reflexivity.
          destruct (go_slice2 lhs_v lend (lend + m)) as [t13| |]; cbn [bind]; reflexivity.
        * destruct (editScriptFunc_loop4 f0 f0 eqb lhs rhs lcs lend rend i 1) as [m| |]; cbn [bind]; try reflexivity.
          destruct (go_slice2 lhs_v lend (lend + m)) as [t13| |]; cbn [bind]; reflexivity. }
  rewrite Hg'. clear Hg'.
  destruct (iter_body T eqb lx rx lhs rhs lcs lpos rpos i out) as [[[[l1 r1] i1] o1]| |]; simpl in Hb |- *; auto.
  - destruct Hb as ([[[l2 r2] i2] o2] & -> & -> & -> & -> & Ho2). cbn [bind].
    apply IHfuel; try assumption. lia.
  - destruct Hb as (k & ->). simpl. eauto.
Qed.

(* ---------------------------------------------------------------- the tail and the elision *)
Lemma tail_ereq : forall lpos rpos out out', orel out out' ->
  ereq orel (tail_edits T lx rx lhs rhs lpos rpos out)
    (bind (if (FnRt.zlen lhs >? lpos) && (FnRt.zlen rhs >? rpos) then
             bind (go_slice2 lhs_v lpos (FnRt.zlen lhs)) (fun t14 =>
             bind (go_slice2 rhs_v rpos (FnRt.zlen rhs)) (fun t15 =>
             Ok (FnRt.zlen rhs, out' ++ [mk_Edit 33 t14 t15])))
           else
             bind (if FnRt.zlen lhs >? lpos then
                     bind (go_slice2 lhs_v lpos (FnRt.zlen lhs)) (fun t16 => Ok (out' ++ [mk_Edit 45 t16 (mkView 0 0 0)]))
                   else Ok out') (fun out => Ok (rpos, out)))
      (fun '(rpos, out) =>
         if FnRt.zlen rhs >? rpos then bind (go_slice2 rhs_v rpos (FnRt.zlen rhs)) (fun t17 => Ok (out ++ [mk_Edit 43 (mkView 0 0 0) t17]))
         else Ok out)).
Proof.
  intros lpos rpos out out' Ho. unfold tail_edits. cbv zeta.
  unfold es_tail_fuse_cond, es_tail_fuse_x_lo, es_tail_fuse_x_hi, es_tail_fuse_y_lo, es_tail_fuse_y_hi, es_tail_fuse_rpos,
    es_tail_drop_cond, es_tail_drop_x_lo, es_tail_drop_x_hi, es_tail_copy_cond, es_tail_copy_y_lo, es_tail_copy_y_hi.
  change (EditLoop.zlen lhs) with (FnRt.zlen lhs). change (EditLoop.zlen rhs) with (FnRt.zlen rhs).
  apply (ereq_bind (fun (a : list (edit T) * Z) (b : Z * list (Edit T)) => orel (fst a) (snd b) /\ snd a = fst b)).
  - destruct ((FnRt.zlen lhs >? lpos) && (FnRt.zlen rhs >? rpos)).
    + apply (ereq_bind _ _ _ _ _ _ (lslice_ereq lpos (FnRt.zlen lhs))). intros x vx Hx.
      apply (ereq_bind _ _ _ _ _ _ (rslice_ereq rpos (FnRt.zlen rhs))). intros y vy Hy.
      destruct (lit_rel es_tail_fuse_op Replace x y vx vy eq_refl Hx Hy) as [-> He]. simpl.
      eexists; split; [reflexivity|]. split; [apply orel_snoc; assumption | reflexivity].
    + destruct (FnRt.zlen lhs >? lpos).
      * rewrite bind_assoc.
        apply (ereq_bind _ _ _ _ _ _ (lslice_ereq lpos (FnRt.zlen lhs))). intros x vx Hx.
        destruct (lit_rel es_tail_drop_op Drop x [] vx (mkView 0 0 0) eq_refl Hx eq_refl) as [-> He]. simpl.
        eexists; split; [reflexivity|]. split; [apply orel_snoc; assumption | reflexivity].
      * simpl. eexists; split; [reflexivity|]. split; [assumption | reflexivity].
  - intros [out1 rpos1] [rpos1' out1'] [Ho1 Hr]. simpl in Ho1, Hr. subst rpos1'.
    destruct (FnRt.zlen rhs >? rpos1).
    + apply (ereq_bind _ _ _ _ _ _ (rslice_ereq rpos1 (FnRt.zlen rhs))). intros y vy Hy.
      destruct (lit_rel es_tail_copy_op Copy [] y (mkView 0 0 0) vy eq_refl eq_refl Hy) as [-> He]. simpl.
      eexists; split; [reflexivity|]. apply orel_snoc; assumption.
    + simpl. eexists; split; [reflexivity | assumption].
Qed.

Lemma elide_ereq : forall out out', orel out out' ->
  ereq orel (elide T out)
    (bind (if FnRt.zlen out' =? 1 then bind (go_get out' 0) (fun t18 => Ok (Edit_Op t18 =? 61)) else Ok false)
          (fun t19 => if t19 then Ok [] else Ok out')).
Proof.
  intros out out' Ho. unfold elide, es_elide_idx, es_elide_cond. rewrite (orel_length _ _ Ho).
  destruct Ho as [|e e' out out' He Ho].
  - simpl. eexists; split; [reflexivity | constructor].
  - change (zth (e :: out) 0) with (Some e). cbv iota beta.
    destruct (EditLoop.zlen (e :: out) =? 1); cbn [andb].
    + change (go_get (e' :: out') 0) with (Ok e'). cbn [bind].
      assert (Hc : op_code (eop e) = Edit_Op e') by (apply op_of_code_inv; apply He).
      rewrite Hc.
      destruct (Edit_Op e' =? 61); simpl; eexists; (split; [reflexivity|]); constructor; assumption.
    + simpl. eexists; split; [reflexivity|]. constructor; assumption.
Qed.

Lemma bind_assoc_pair {A B C D} (m : res (A * B)) (f : A -> B -> res C) (g : C -> res D) :
  bind m (fun '(a, b) => bind (f a b) g) = bind (bind m (fun '(a, b) => f a b)) g.
Proof. destruct m as [[a b]| |]; reflexivity. Qed.

Theorem C11_editScriptFunc_is_source : forall fuel, (length lhs + length rhs + 3 <= fuel)%nat ->
  ereq orel (edit_script_run_cap eqb lx rx lhs rhs) (editScriptFunc eqb lhs lhs_v rhs rhs_v (@rev_ok T) fuel).
Proof.
  intros fuel Hf. unfold edit_script_run_cap, editScriptFunc.
  change (pick_arg T (es_lcs_arg0 0 1 2) lhs rhs) with (Some lhs).
  change (pick_arg T (es_lcs_arg1 0 1 2) lhs rhs) with (Some rhs). cbv iota beta.
  pose proof (C12_lcs_is_source eqb lhs rhs fuel Hf) as HL.
  pose proof (lcs_func_exact T eqb lhs rhs) as HX.
  destruct (lcs_func T eqb lhs rhs) as [lcs|]; destruct (LCSFunc lhs rhs eqb rev_ok fuel) as [lcs'| |];
    simpl in HL; try contradiction; cbn [bind]; [|simpl; eauto].
  subst lcs'.
  assert (Hlen : (length lcs <= length lhs + length rhs)%nat).
  { specialize (HX lcs eq_refl). unfold lcs_swap in HX.
    destruct (lcs_swap_cond (LcsModel.zlen lhs) (LcsModel.zlen rhs)); destruct HX as [HS _];
      apply SubseqR_length in HS; lia. }
  unfold edit_script_of_lcs, es_lpos_init, es_rpos_init, es_i_init. cbv zeta.
  apply (ereq_bind _ _ _ _ _ _ (outer_ereq (S (length lcs)) fuel fuel lcs 0 0 0 [] []
           ltac:(lia) ltac:(lia) ltac:(lia) ltac:(lia) (Forall2_nil _))).
  intros [[lpos rpos] out] [[[lpos' rpos'] i'] out'] (<- & <- & Ho).
  rewrite bind_assoc_pair.
  apply (ereq_bind _ _ _ _ _ _ (tail_ereq lpos rpos out out' Ho)).
  intros out2 out2' Ho2. apply elide_ereq. exact Ho2.
Qed.
End Edit.

(* EditScript = editScriptFunc with the function `equal` (a == b, the argument eqb_T) *)
Theorem C11_EditScript_is_source : forall {T : Type} (eqb : T -> T -> bool) (lx rx lhs rhs : list T) fuel,
  (length lhs + length rhs + 3 <= fuel)%nat ->
  ereq (orel lx rx lhs rhs) (edit_script_run_cap eqb lx rx lhs rhs)
       (EditScript lhs (lhs_v lx lhs) rhs (rhs_v rx rhs) (@rev_ok T) eqb fuel).
Proof. intros. unfold EditScript, equal. apply C11_editScriptFunc_is_source. assumption. Qed.

Print Assumptions C11_editScriptFunc_is_source.
Print Assumptions C11_EditScript_is_source.
