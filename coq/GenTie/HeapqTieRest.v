(* The rest of heapq/heapq.go next to Sort (GenTie/HeapqTieRestSort.v): nmove and Queue.Update.

   The model (Heapq/HeapqModel.v) has no function for either: it represents the callback q.move by
   the LOG of the calls made to it ("whoever receives them"), so installing a callback is not an
   event of the model.  What can be said from the source is what the generated functions'
   SIGNATURES say (a function that read or assigned q.data / q.cmp, or called q.move, would take
   and return those fields / a log, and the statements below would not type-check):

     nmove  (func nmove[T any](T, int) {}: unnamed parameters, empty body) takes its two arguments
            and returns unit: it is the no-op the constructors install (the translator accepts
            `move: nmove[T]` in a constructor literal only for such a function);
     Update (u == nil ? q.move = nmove[T] : q.move = u; return q) takes only the flag "u is nil"
            and returns unit: it touches neither q.data nor q.cmp and calls nothing, whichever
            branch is taken.  WHICH function then receives the calls is not represented. *)
From Coq Require Import ZArith List Bool.
From Mds Require Import Common.FnRt Gen.FnHeapq.
Local Open Scope Z_scope.

Theorem C06_nmove_is_source : forall (T : Type) (x : T) (i : Z), nmove x i = tt.
Proof. reflexivity. Qed.

Theorem C06_Update_is_source : forall (u_nil : bool), Update u_nil = tt.
Proof. reflexivity. Qed.

Print Assumptions C06_nmove_is_source.
Print Assumptions C06_Update_is_source.
