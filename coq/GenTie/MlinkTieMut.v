(* mlink: entry.invalidate and the Cursor methods that change the list (Set, Push, Add, Remove,
   Truncate): model = generated function (see MlinkTieBase.v).  Results: the new heap (and the new
   c.pred for Add); second part: what the model leaves unchanged (c.pred). *)
From Coq Require Import ZArith List Bool Arith Lia.
From Mds Require Gen.MlinkFacts Gen.MlinkList.
From Mds Require Import Mlink.MlinkModel.
From Mds Require Import Common.FnRt Common.FnHeap GenTie.TieLib GenTie.MlinkTieBase GenTie.MlinkTieCursor.
Import ListNotations.
Local Open Scope Z_scope.

Section Mut.
Context {T : Type}.
Variable zero : T.
Notation heap := (MlinkModel.heap T).
Notation cst := (MlinkModel.cst T).

Definition heap_of {A} : A -> cst -> list (G.entry T) := fun _ s => henc (fst s).

(* the generated store p.link = q into the cell the model has loaded *)
Lemma hmod_link (h : heap) a c q : nth_error h a = Some c ->
  go_hmod (henc h) (Some a) (fun t => G.mk_entry (G.entry_X t) (lenc q)) =
  Ok (henc (MlinkModel.upd T h a (fst c, q))).
Proof.
  intros H. rewrite hmod_some, H. rewrite henc_upd by (eapply nth_lt; exact H). reflexivity.
Qed.

Lemma hmod_val (h : heap) a c v : nth_error h a = Some c ->
  go_hmod (henc h) (Some a) (fun t => G.mk_entry v (G.entry_link t)) =
  Ok (henc (MlinkModel.upd T h a (v, snd c))).
Proof.
  intros H. rewrite hmod_some, H. rewrite henc_upd by (eapply nth_lt; exact H). reflexivity.
Qed.

(* ---- invalidate: for e != nil { next := e.link; e.link = e; e = next } ---- *)
Lemma inv_body_eq : inv_body T = [inv_next T; inv_self T; inv_adv T].
Proof. reflexivity. Qed.

Lemma invalidate_le : forall (f gas fuel : nat) (e : link) (h : heap) (p : nat),
  (gas >= f)%nat ->
  res_le (embf heap_of (invalidate T f e (h, p)))
         (bind (G.entry_invalidate_loop1 fuel gas (lenc e) (henc h)) (fun x => Ok (snd x))) /\
  final (invalidate T f e (h, p)) (fun s => snd s = p).
Proof.
  induction f as [|f IH]; intros gas fuel e h p Hg; [split; [fin|exact I]|].
  destruct gas as [|gas]; [lia|]. cbn [invalidate G.entry_invalidate_loop1].
  unfold MlinkFacts.invalidate_cond. rewrite enc_null_eqb.
  destruct e as [|a]; cbn [lenc go_pnil negb]; [split; fin|].
  rewrite inv_body_eq. cbn [seq_env]. unfold inv_next. unfold deref. cbn [fst MlinkModel.bind].
  mread h a c E; [|split; [fin|exact I]].
  unfold MlinkFacts.invalidate_next. rewrite dec_enc.
  unfold inv_self. unfold deref. cbn [fst snd MlinkModel.bind]. unfold load. cbn [fst snd]. rewrite E. cbn [MlinkModel.bind].
  unfold MlinkFacts.invalidate_newlink. rewrite dec_enc.
  rewrite (store_some h p a c _ E). cbn [MlinkModel.bind].
  change (Some a) with (lenc (Ptr a)) at 2. rewrite (hmod_link h a c (Ptr a) E). cbn [bind].
  unfold inv_adv. cbn [MlinkModel.bind fst snd]. unfold MlinkFacts.invalidate_adv. rewrite dec_enc.
  cbn [cenc G.entry_link].
  apply IH. lia.
Qed.

Theorem C10_mlink_invalidate_is_source : forall (f fuel : nat) (e : link) (h : heap) (p : nat),
  (fuel >= f)%nat ->
  res_le (embf heap_of (invalidate T f e (h, p))) (G.entry_invalidate (lenc e) (henc h) fuel) /\
  final (invalidate T f e (h, p)) (fun s => snd s = p).
Proof.
  intros f fuel e h p Hf. destruct (invalidate_le f fuel fuel e h p Hf) as [L K]. split; [|exact K].
  unfold G.entry_invalidate.
  destruct (G.entry_invalidate_loop1 fuel fuel (lenc e) (henc h)) as [[e' h']| |]; exact L.
Qed.

(* ---- Set ---- *)
Theorem C10_mlink_set_is_source : forall (v : T) (h : heap) (p : nat),
  G.Cursor_Set (Some p) v (henc h) = embf heap_of (cur_set T v (h, p)) /\
  final (cur_set T v (h, p)) (fun s => snd s = p).
Proof.
  intros v h p. unfold G.Cursor_Set, cur_set, checked. change (called MlinkList.set_ncalls_check) with true. cbv iota.
  mcall (C10_mlink_atend_is_source h p) (cur_at_end T (h, p)) ae; try (split; fin).
  unfold MlinkList.set_atend. destruct ae.
  - unfold alloc. cbn [fst snd MlinkModel.bind]. unfold go_hnew. rewrite henc_length.
    change (G.mk_entry v None) with (cenc (v, Nil)). rewrite <- henc_app.
    unfold load. cbn [fst snd]. match goal with |- context[nth_error ?l p] => remember l as h1 eqn:Hh1 end.
    destruct (nth_error h1 p) as [cp|] eqn:E; cbn [MlinkModel.bind].
    + rewrite (store_some h1 p p cp _ E). change (Some (length h)) with (lenc (Ptr (length h))).
      rewrite (hmod_link h1 p cp _ E). split; fin.
    + rewrite hmod_some, E. split; fin.
  - cbn [snd].
    mcall (C10_mlink_checkValid_is_source p h p) (check_valid T p (h, p)) e; try (split; fin).
    mread h e c E; [|split; fin].
    unfold deref. cbn [cenc G.entry_link]. destruct (snd c) as [|t]; cbn [lenc MlinkModel.bind]; [split; fin|].
    unfold load. cbn [fst snd]. destruct (nth_error h t) as [ct|] eqn:Et; cbn [MlinkModel.bind].
    + rewrite (store_some h p t ct _ Et). rewrite (hmod_val h t ct v Et). split; fin.
    + rewrite hmod_some, Et. split; fin.
Qed.

(* ---- Push ---- *)
Theorem C10_mlink_push_is_source : forall (v : T) (h : heap) (p : nat),
  G.Cursor_Push (Some p) v (henc h) = embf heap_of (cur_push T v (h, p)) /\
  final (cur_push T v (h, p)) (fun s => snd s = p).
Proof.
  intros v h p. unfold G.Cursor_Push, cur_push, checked. change (called MlinkList.push_ncalls_check) with true. cbv iota.
  cbn [snd].
  mcall (C10_mlink_checkValid_is_source p h p) (check_valid T p (h, p)) e; try (split; fin).
  mread h e c E; [|split; fin].
  unfold MlinkList.push_added_link, MlinkList.push_newlink. rewrite dec_enc.
  unfold alloc. cbn [fst snd MlinkModel.bind]. rewrite ?dec_nat. unfold go_hnew. rewrite henc_length.
  cbn [cenc G.entry_link]. change (G.mk_entry v (lenc (snd c))) with (cenc (v, snd c)). rewrite <- henc_app.
  unfold load. cbn [fst snd]. match goal with |- context[nth_error ?l p] => remember l as h1 eqn:Hh1 end.
  destruct (nth_error h1 p) as [cp|] eqn:E1; cbn [MlinkModel.bind].
  - rewrite (store_some h1 p p cp _ E1). change (Some (length h)) with (lenc (Ptr (length h))).
    rewrite (hmod_link h1 p cp _ E1). split; fin.
  - rewrite hmod_some, E1. split; fin.
Qed.

(* ---- Add: for _, v := range vs { c.Push(v); c.Next() } ---- *)
Definition add_res {A} : A -> cst -> option nat * list (G.entry T) := fun _ s => (Some (snd s), henc (fst s)).

Lemma skipn_S_of_cons {A} : forall (i : nat) (l : list A) x r, skipn i l = x :: r -> skipn (S i) l = r.
Proof.
  induction i as [|i IH]; intros l x r H.
  - cbn [skipn] in H. subst l. reflexivity.
  - destruct l as [|y l]; [discriminate|]. cbn [skipn] in H. change (skipn (S (S i)) (y :: l)) with (skipn (S i) l).
    apply (IH _ _ _ H).
Qed.

Lemma add_loop_le : forall (rest : list T) (gas fuel : nat) (vs : list T) (i : nat) (p : nat) (h : heap),
  skipn i vs = rest -> (i <= length vs)%nat -> (gas > length rest)%nat ->
  res_le (embf add_res (cur_add T rest (h, p)))
         (bind (G.Cursor_Add_loop1 fuel gas vs (zlen vs) (Some p) (Z.of_nat i) (henc h))
               (fun x => Ok (fst (fst x), snd x))).
Proof.
  induction rest as [|v rest IH]; intros gas fuel vs i p h Hs Hi Hg;
    (destruct gas as [|gas]; [cbn [length] in Hg; lia|]); cbn [cur_add G.Cursor_Add_loop1].
  - assert (i = length vs).
    { destruct (Nat.eq_dec i (length vs)); [assumption|].
      assert (length (skipn i vs) = (length vs - i)%nat) by apply skipn_length.
      rewrite Hs in H. cbn [length] in H. lia. }
    subst i. unfold zlen. rewrite Z.ltb_irrefl. fin.
  - assert (Hlt : (i < length vs)%nat).
    { assert (length (skipn i vs) = (length vs - i)%nat) by apply skipn_length.
      rewrite Hs in H. cbn [length] in H. lia. }
    unfold zlen at 1. replace (Z.of_nat i <? Z.of_nat (length vs)) with true by (symmetry; apply Z.ltb_lt; lia).
    assert (Hget : go_get vs (Z.of_nat i) = Ok v).
    { unfold go_get, zlen. replace ((0 <=? Z.of_nat i) && (Z.of_nat i <? Z.of_nat (length vs)))%bool with true
        by (symmetry; apply andb_true_iff; split; [apply Z.leb_le | apply Z.ltb_lt]; lia).
      rewrite Nat2Z.id.
      assert (nth_error vs i = Some v).
      { rewrite <- (firstn_skipn i vs) at 1. rewrite nth_error_app2 by (rewrite firstn_length; lia).
        rewrite firstn_length, Nat.min_l by lia. rewrite Nat.sub_diag, Hs. reflexivity. }
      rewrite H. reflexivity. }
    rewrite Hget. cbn [bind].
    change (called MlinkList.add_ncalls_push) with true. change (called MlinkList.add_ncalls_next) with true. cbv iota.
    destruct (C10_mlink_push_is_source v h p) as [P1 P2]. rewrite P1. clear P1.
    destruct (cur_push T v (h, p)) as [u [h1 p1]|k [h1 p1]| |]; cbn [final snd] in P2; try subst p1;
      cbn [embf bind MlinkModel.bind fst snd]; unfold heap_of; cbn [fst snd]; try fin.
    rewrite ?bind_assoc.
    destruct (C10_mlink_next_is_source h1 p) as [N1 N2]. rewrite N1. clear N1.
    destruct (cur_next T (h1, p)) as [b [h2 p2]|k [h2 p2]| |]; cbn [final fst] in N2; try subst h2;
      cbn [embf bind MlinkModel.bind fst snd]; try fin.
    replace (Z.of_nat i + 1) with (Z.of_nat (S i)) by lia.
    apply IH; [|lia|cbn [length] in Hg; lia].
    apply (skipn_S_of_cons _ _ _ _ Hs).
Qed.

Theorem C10_mlink_add_is_source : forall (vs : list T) (h : heap) (p : nat) (fuel : nat),
  (fuel > length vs)%nat ->
  res_le (embf add_res (cur_add T vs (h, p))) (G.Cursor_Add (Some p) vs (henc h) fuel).
Proof.
  intros vs h p fuel Hf. unfold G.Cursor_Add.
  pose proof (add_loop_le vs fuel fuel vs 0 p h eq_refl (Nat.le_0_l _) Hf) as L. change (Z.of_nat 0) with 0 in L.
  destruct (G.Cursor_Add_loop1 fuel fuel vs (zlen vs) (Some p) 0 (henc h)) as [[[c1 i1] g1]| |]; exact L.
Qed.

(* ---- Remove ---- *)
Lemma rm_body_eq : rm_body T = [rm_val T; rm_next T; rm_self T; rm_new T].
Proof. reflexivity. Qed.

Theorem C10_mlink_remove_is_source : forall (h : heap) (p : nat),
  G.Cursor_Remove (Some p) (henc h) zero = embf (fun a s => (a, henc (fst s))) (cur_remove T zero (h, p)) /\
  final (cur_remove T zero (h, p)) (fun s => snd s = p).
Proof.
  intros h p. unfold G.Cursor_Remove, cur_remove.
  mcall (C10_mlink_atend_is_source h p) (cur_at_end T (h, p)) ae; try (split; fin).
  unfold MlinkList.remove_atend. destruct ae; [split; fin|].
  rewrite rm_body_eq. cbn [seq_env]. unfold rm_val, rm_next, rm_self, rm_new, deref. cbn [fst snd].
  mread h p cp E; [|split; fin].
  cbn [cenc G.entry_link G.entry_X].
  destruct (snd cp) as [|t] eqn:Et; cbn [lenc MlinkModel.bind bind]; [split; fin|].
  mread h t ct E2; [|split; fin].
  unfold MlinkList.remove_next, MlinkList.remove_selflink, MlinkList.remove_newlink.
  repeat (cbn [MlinkModel.bind fst snd]; first [rewrite E | rewrite E2 | rewrite Et | rewrite dec_enc]).
  cbn [MlinkModel.bind fst snd cenc G.entry_link G.entry_X lenc].
  rewrite (store_some h p t ct _ E2). cbn [MlinkModel.bind fst snd].
  change (Some t) with (lenc (Ptr t)) at 2. rewrite (hmod_link h t ct (Ptr t) E2). cbn [bind].
  match goal with |- context[nth_error ?l p] => remember l as h1 eqn:Hh1 end.
  destruct (nth_error h1 p) as [cp'|] eqn:E3; cbn [MlinkModel.bind fst snd].
  - rewrite (store_some h1 p p cp' _ E3). cbn [MlinkModel.bind fst snd]. rewrite (hmod_link h1 p cp' _ E3). rewrite ?dec_enc. split; fin.
  - rewrite hmod_some, E3. split; fin.
Qed.

(* ---- Truncate ---- *)
Lemma tr_body_eq nchk : tr_body T nchk = [tr_inval T nchk; tr_nil T].
Proof. reflexivity. Qed.

Theorem C10_mlink_truncate_is_source : forall (h : heap) (p : nat) (fuel : nat),
  (fuel > length h)%nat ->
  res_le (embf heap_of (cur_truncate T (h, p))) (G.Cursor_Truncate (Some p) (henc h) fuel) /\
  final (cur_truncate T (h, p)) (fun s => snd s = p).
Proof.
  intros h p fuel Hf. unfold G.Cursor_Truncate, cur_truncate, cur_truncate_gen.
  rewrite tr_body_eq. cbn [seq_env]. unfold tr_inval, tr_nil, checked.
  change (called MlinkList.truncate_ncalls_check) with true. change (called MlinkList.truncate_ncalls_invalidate) with true.
  cbv iota. cbn [snd].
  mcall (C10_mlink_checkValid_is_source p h p) (check_valid T p (h, p)) e; try (split; fin).
  mread h e c E; [|split; fin].
  cbn [fst cenc G.entry_link].
  destruct (C10_mlink_invalidate_is_source (S (length h)) fuel (snd c) h p Hf) as [L K].
  destruct (invalidate T (S (length h)) (snd c) (h, p)) as [u [h1 p1]|k [h1 p1]| |]; cbn [final snd] in K; try subst p1;
    cbn [embf heap_of fst snd] in L; cbn [MlinkModel.bind embf fst snd].
  3: split; [apply res_le_oof | exact I].
  2,3: (apply res_le_eq in L; [|discriminate]); rewrite L; split; fin.
  apply res_le_eq in L; [|discriminate]. rewrite L. cbn [bind]. unfold heap_of. cbn [fst snd].
  unfold load. cbn [fst snd]. unfold MlinkList.truncate_newlink. rewrite dec_null.
  destruct (nth_error h1 p) as [cp|] eqn:E1; cbn [MlinkModel.bind].
  - rewrite (store_some h1 p p cp _ E1). change None with (lenc Nil). rewrite (hmod_link h1 p cp Nil E1). split; fin.
  - rewrite hmod_some, E1. split; fin.
Qed.

End Mut.

Print Assumptions C10_mlink_invalidate_is_source.
Print Assumptions C10_mlink_set_is_source.
Print Assumptions C10_mlink_push_is_source.
Print Assumptions C10_mlink_add_is_source.
Print Assumptions C10_mlink_remove_is_source.
Print Assumptions C10_mlink_truncate_is_source.
