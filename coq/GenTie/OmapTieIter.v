(* omap ties, iterators: Iter.IsValid / Next / Prev / Key / Value (Gen/FnOmap.v) given the generated
   stree Cursor methods.  The object behind it.c (a *stree.Cursor) is the pair (nil flag, list of
   node addresses) the generated Cursor methods take; c_Valid ... c_Prev call G.Cursor_Valid ...
   G.Cursor_Prev of Gen/FnStree.v on it and on the node heap h of the map's tree.  [crepr h root c n ps]
   (StreeTieCursor.v): the pair stands for the model cursor c.  Composed from C03_valid_is_source,
   C03_key_is_source and cstep_sim (C03_next/prev_is_source in their local forms + the cursor invariant). *)
From Coq Require Import ZArith List Bool Arith Lia.
From Mds Require Import Common.FnRt Common.FnHeap GenTie.TieLib GenTie.StreeTieBase GenTie.StreeTieCursor
  GenTie.StreeSep GenTie.StreeSourceCursorNext GenTie.StreeSourceCursor GenTie.OmapTieBase.
From Mds Require Gen.FnOmap Omap.OmapModel.
Import ListNotations.
Local Open Scope Z_scope.

Section OmapIter.
Context {K V : Type}.
Variable zk : K.
Variable zv : V.
Notation kv := (K * V)%type.
Notation zkv := (OM.zkv K V zk zv).
Notation heap := (list (G.node kv)).
Notation cst := (bool * list (option nat))%type.

(* ---- the methods of it.c, from Gen/FnStree.v ---- *)
Definition c_Valid (c : cst) : res (bool * cst) :=
  do v <- G.Cursor_Valid (fst c) (snd c); Ok (v, c).
Definition c_Key (h : heap) (c : cst) : res (O.KV K V * cst) :=
  do x <- G.Cursor_Key (fst c) (snd c) h zkv; Ok (of_pair x, c).
Definition c_Next (h : heap) (fuel : nat) (c : cst) : res cst :=
  do ps <- G.Cursor_Next (fst c) (snd c) h fuel; Ok (fst c, ps).
Definition c_Prev (h : heap) (fuel : nat) (c : cst) : res cst :=
  do ps <- G.Cursor_Prev (fst c) (snd c) h fuel; Ok (fst c, ps).

Lemma isvalid_tie (h : heap) root c n ps : crepr h root c n ps ->
  O.IsValid (n, ps) c_Valid = Ok (OM.ivalid c, (n, ps)).
Proof.
  intros Cr. unfold O.IsValid, c_Valid. cbn [fst snd]. rewrite (C03_valid_is_source h root c n ps Cr). reflexivity.
Qed.

Lemma key_tie (h : heap) root (m : OM.omap K V) c n ps :
  repr h root (OM.mtree K V m) -> crepr h root c n ps -> cwf (OM.mtree K V m) c ->
  exists x, OM.ikey K V zk zv m c = SM.Ok x /\ O.Key (n, ps) (c_Key h) = Ok (x, (n, ps)).
Proof.
  intros Rt Cr W. destruct (C03_key_is_source zkv h root _ c n ps Rt Cr W) as [e [M G1]].
  exists (fst e). unfold OM.ikey, O.Key, c_Key. cbn [fst snd]. unfold OM.kv in *. rewrite M, G1. split; reflexivity.
Qed.

Lemma value_tie (h : heap) root (m : OM.omap K V) c n ps :
  repr h root (OM.mtree K V m) -> crepr h root c n ps -> cwf (OM.mtree K V m) c ->
  exists x, OM.ivalue K V zk zv m c = SM.Ok x /\ O.Value (n, ps) (c_Key h) = Ok (x, (n, ps)).
Proof.
  intros Rt Cr W. destruct (C03_key_is_source zkv h root _ c n ps Rt Cr W) as [e [M G1]].
  exists (snd e). unfold OM.ivalue, O.Value, c_Key. cbn [fst snd]. unfold OM.kv in *. rewrite M, G1. split; reflexivity.
Qed.

(* Next / Prev: on a tree-shaped region (trepr: the cells along the path then have distinct children, which the
   walk up compares by address); the new cursor is again well-formed, so the ties chain *)
Lemma next_tie (h : heap) root (m : OM.omap K V) F c n ps fuel :
  trepr h root (OM.mtree K V m) F -> crepr h root c n ps -> cwf (OM.mtree K V m) c ->
  (fuel > 2 * depth (OM.mtree K V m) + 1)%nat ->
  exists c' ps', OM.inext K V m c = SM.Ok c' /\ O.Next_ (n, ps) (c_Next h fuel) = Ok (n, ps') /\
                 crepr h root c' n ps' /\ cwf (OM.mtree K V m) c'.
Proof.
  intros R Cr W Hf. unfold OM.kv in *.
  destruct (@cstep_sim kv (zk, zv) h root _ F c n ps CM.MNext fuel R Cr W Hf) as [c' [ps' [M [G1 [Cr' W']]]]].
  exists c', ps'. cbn [CM.step cstep] in M, G1. unfold OM.inext, O.Next_, c_Next. cbn [fst snd]. unfold OM.kv in *. rewrite M, G1.
  repeat split; assumption.
Qed.

Lemma prev_tie (h : heap) root (m : OM.omap K V) F c n ps fuel :
  trepr h root (OM.mtree K V m) F -> crepr h root c n ps -> cwf (OM.mtree K V m) c ->
  (fuel > 2 * depth (OM.mtree K V m) + 1)%nat ->
  exists c' ps', OM.iprev K V m c = SM.Ok c' /\ O.Prev (n, ps) (c_Prev h fuel) = Ok (n, ps') /\
                 crepr h root c' n ps' /\ cwf (OM.mtree K V m) c'.
Proof.
  intros R Cr W Hf. unfold OM.kv in *.
  destruct (@cstep_sim kv (zk, zv) h root _ F c n ps CM.MPrev fuel R Cr W Hf) as [c' [ps' [M [G1 [Cr' W']]]]].
  exists c', ps'. cbn [CM.step cstep] in M, G1. unfold OM.iprev, O.Prev, c_Prev. cbn [fst snd]. unfold OM.kv in *. rewrite M, G1.
  repeat split; assumption.
Qed.

End OmapIter.
