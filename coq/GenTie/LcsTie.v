(* LCSFunc and LCS of slice/edit.go: the model (Slice/LcsModel.v: lcs_func over the generated
   definitions of Gen/LcsIdx.v) = the functions generated from the whole bodies (Gen/FnEdit.v), for
   every element type, EVERY test eq (no law), all inputs.  Conventions: LisTieBase.v.

   Cells.  `type seq struct { i, n int; prev *seq }` is declared inside LCSFunc and its cells are
   never changed after their creation, so the translator represents a *seq by the struct value or
   nil: [option LCSFunc_seq].  The model has [cell := Zero | Cell i n prev] (the sentinel &zero and
   the cells allocated in the loop); [cemb] maps a model cell to the pointer the code holds.  The
   model starts the row buffers at [repeat Zero]; the generated code makes them with nil pointers
   and runs the initialisation loop `for i := range p { p[i] = &zero; c[i] = &zero }`, proved here
   to produce exactly that.

   Fuel.  The model's walk back through prev is structural on the cell, the generated loop is
   fuelled: the proof shows that every cell of row j has depth <= j (and a path length n >= 0, so
   that `make(Slice, 0, c[len(as)].n)` never panics), hence len(bs) + 1 rounds suffice. *)
From Coq Require Import ZArith List Bool Lia ZifyBool.
From Mds Require Import Common.FnRt GenTie.TieLib Gen.LcsIdx Gen.FnEdit Slice.LcsModel GenTie.LisTieBase.
Import ListNotations.
Local Open Scope Z_scope.

Fixpoint cemb (c : cell) : option LCSFunc_seq :=
  Some (match c with
        | Zero => mk_LCSFunc_seq 0 0 None
        | Cell i n prev => mk_LCSFunc_seq i n (cemb prev)
        end).

Definition cval (c : cell) : LCSFunc_seq :=
  match c with
  | Zero => mk_LCSFunc_seq 0 0 None
  | Cell i n prev => mk_LCSFunc_seq i n (cemb prev)
  end.

Lemma cemb_val c : cemb c = Some (cval c).
Proof. destruct c; reflexivity. Qed.

Lemma cval_n c : LCSFunc_seq_n (cval c) = cell_n c.
Proof. destruct c; reflexivity. Qed.

Lemma cval_i c : LCSFunc_seq_i (cval c) = cell_i c.
Proof. destruct c; reflexivity. Qed.

Fixpoint depth (c : cell) : nat :=
  match c with Zero => O | Cell _ _ p => S (depth p) end.

(* ---- lists under a map ---- *)
Lemma znth_map {A B} (f : A -> B) (l : list A) i : znth (map f l) i = option_map f (znth l i).
Proof. unfold znth. destruct (i <? 0); [reflexivity|]. apply nth_error_map. Qed.

Lemma upd_map {A B} (f : A -> B) (l : list A) n x : upd (map f l) n (f x) = map f (upd l n x).
Proof. revert n; induction l; destruct n; simpl; f_equal; auto. Qed.

Lemma get_map_some {A B} (f : A -> B) (l : list A) i x : znth l i = Some x -> go_get (map f l) i = Ok (f x).
Proof. intros H. apply get_some. rewrite znth_map, H. reflexivity. Qed.

Lemma get_map_none {A B} (f : A -> B) (l : list A) i : znth l i = None -> exists k, go_get (map f l) i = Panic k.
Proof. intros H. apply get_none. rewrite znth_map, H. reflexivity. Qed.

Lemma set_map_some {A B} (f : A -> B) (l l' : list A) i x :
  zupd l i x = Some l' -> go_set (map f l) i (f x) = Ok (map f l').
Proof.
  intros H. pose proof (set_some _ _ _ _ H) as G. unfold go_set in *.
  unfold FnRt.zlen in *. rewrite map_length.
  destruct ((0 <=? i) && (i <? Z.of_nat (length l))); [|discriminate].
  inversion G. rewrite upd_map. reflexivity.
Qed.

Lemma set_map_none {A B} (f : A -> B) (l : list A) i x y :
  zupd l i x = None -> exists k, go_set (map f l) i y = Panic k.
Proof.
  intros H. destruct (set_none _ _ _ H) as [k G]. unfold go_set in *.
  unfold FnRt.zlen in *. rewrite map_length.
  destruct ((0 <=? i) && (i <? Z.of_nat (length l))); [discriminate|]. eauto.
Qed.

Lemma znth_Forall {A} (P : A -> Prop) (l : list A) i x : Forall P l -> znth l i = Some x -> P x.
Proof.
  unfold znth. destruct (i <? 0); [discriminate|]. intros F H.
  apply nth_error_In in H. rewrite Forall_forall in F. auto.
Qed.

Lemma upd_Forall {A} (P : A -> Prop) (l : list A) n x : Forall P l -> P x -> Forall P (upd l n x).
Proof.
  revert n; induction l; intros n F Hx; simpl; [constructor|].
  inversion F; subst. destruct n; constructor; auto.
Qed.

Lemma zupd_Forall {A} (P : A -> Prop) (l l' : list A) i x : Forall P l -> P x -> zupd l i x = Some l' -> Forall P l'.
Proof.
  intros F Hx H. apply set_some in H. unfold go_set in H.
  destruct ((0 <=? i) && (i <? FnRt.zlen l)); [|discriminate]. inversion H. apply upd_Forall; assumption.
Qed.

Lemma upd_app_mid {A} (l1 l2 : list A) x y : upd (l1 ++ x :: l2) (length l1) y = l1 ++ y :: l2.
Proof. induction l1; simpl; [reflexivity|]. f_equal. exact IHl1. Qed.

Lemma upd_repeat_mid {A} (a x y : A) i l : upd (repeat a i ++ x :: l) i y = repeat a i ++ y :: l.
Proof. induction i; simpl; [reflexivity|]. f_equal. exact IHi. Qed.

Lemma repeat_app_cons {A} (a : A) i l : repeat a i ++ a :: l = repeat a (S i) ++ l.
Proof. induction i; simpl; [reflexivity|]. f_equal. exact IHi. Qed.

Section Lcs.
Context {T : Type}.
Variable eqb : T -> T -> bool.

Definition okc (D : nat) (c : cell) : Prop := (depth c <= D)%nat /\ 0 <= cell_n c.

Lemma okc_mono D D' c : (D <= D')%nat -> okc D c -> okc D' c.
Proof. intros H [A B]; split; [lia | exact B]. Qed.

(* ---------------------------------------------------------------- the initialisation loop *)
Lemma init_loop_eq : forall k gas f0 i zero,
  (k < gas)%nat ->
  LCSFunc_loop1 f0 gas zero (Z.of_nat (i + k))
     (repeat (Some zero) i ++ repeat None k) (repeat (Some zero) i ++ repeat None k) (Z.of_nat i)
  = Ok (repeat (Some zero) (i + k), repeat (Some zero) (i + k), Z.of_nat (i + k)).
Proof.
  induction k; intros gas f0 i zero Hg; (destruct gas; [lia|]); cbn [LCSFunc_loop1].
  - replace (i + 0)%nat with i by lia. rewrite Z.ltb_irrefl.
    cbn [repeat]. rewrite app_nil_r. reflexivity.
  - replace (Z.of_nat i <? Z.of_nat (i + S k)) with true by lia.
    assert (Hs : go_set (repeat (Some zero) i ++ repeat None (S k)) (Z.of_nat i) (Some zero)
                 = Ok (repeat (Some zero) (S i) ++ repeat None k)).
    { unfold go_set, FnRt.zlen. rewrite app_length, !repeat_length.
      replace ((0 <=? Z.of_nat i) && (Z.of_nat i <? Z.of_nat (i + S k))) with true by lia.
      rewrite Nat2Z.id. change (repeat (@None LCSFunc_seq) (S k)) with (@None LCSFunc_seq :: repeat None k).
      rewrite upd_repeat_mid, repeat_app_cons. reflexivity. }
    rewrite Hs. cbn [bind].
    replace (Z.of_nat i + 1) with (Z.of_nat (S i)) by lia.
    replace (i + S k)%nat with (S i + k)%nat by lia.
    apply IHk. lia.
Qed.

(* ---------------------------------------------------------------- one row *)
Section Row.
Variables xs ys : list T.

Lemma fill_agree : forall fuel gas f0 j i (pm cm : list cell) D,
  1 <= i <= FnRt.zlen xs + 1 -> FnRt.zlen xs + 1 - i < Z.of_nat fuel -> FnRt.zlen xs + 1 - i < Z.of_nat gas ->
  Forall (okc D) pm -> Forall (okc (S D)) cm ->
  match lcs_fill T eqb fuel xs ys j i pm cm, LCSFunc_loop3 f0 gas xs ys eqb (map cemb pm) j (map cemb cm) i with
  | Some c', Ok (c2, _) => c2 = map cemb c' /\ Forall (okc (S D)) c'
  | None, Panic _ => True
  | _, _ => False
  end.
Proof.
  induction fuel; intros gas f0 j i pm cm D Hi Hf Hg Fp Fc.
  - simpl in Hf. exfalso; lia.
  - destruct gas; [simpl in Hg; exfalso; lia|].
    cbn [lcs_fill LCSFunc_loop3].
    unfold lcs_i_cond, lcs_as_idx, lcs_bs_idx, lcs_i_next. change (LcsModel.zlen xs) with (FnRt.zlen xs).
    destruct (i <=? FnRt.zlen xs) eqn:Ec.
    2:{ split; [reflexivity | exact Fc]. }
    destruct (znth xs (i - 1)) as [a|] eqn:Ea.
    2:{ destruct (get_none _ _ Ea) as [k Ek]. rewrite Ek. exact I. }
    rewrite (get_some _ _ _ Ea). cbn [bind].
    destruct (znth ys (j - 1)) as [b|] eqn:Eb.
    2:{ destruct (get_none _ _ Eb) as [k Ek]. rewrite Ek. exact I. }
    rewrite (get_some _ _ _ Eb). cbn [bind].
    change (pick2 (lcs_eq_arg0 0 1) a b) with (Some a). change (pick2 (lcs_eq_arg1 0 1) a b) with (Some b).
    cbv iota beta.
    assert (Hrec : forall c', Forall (okc (S D)) c' ->
      match lcs_fill T eqb fuel xs ys j (i + 1) pm c',
            LCSFunc_loop3 f0 gas xs ys eqb (map cemb pm) j (map cemb c') (i + 1) with
      | Some c'', Ok (c2, _) => c2 = map cemb c'' /\ Forall (okc (S D)) c''
      | None, Panic _ => True
      | _, _ => False
      end).
    { intros c' F'. apply IHfuel with (D := D); try lia; assumption. }
    destruct (eqb a b).
    + (* c[i] = &seq{i - 1, p[i-1].n + 1, p[i-1]} *)
      unfold lcs_cell_pick, lcs_diag_idx_n, lcs_diag_idx, lcs_match_dst, lcs_cell_i, lcs_cell_n.
      change (lcs_cell_prev 0 1 2 =? 0) with true. cbv iota.
      destruct (znth pm (i - 1)) as [d|] eqn:Ed.
      2:{ destruct (get_map_none cemb _ _ Ed) as [k Ek]. rewrite Ek. exact I. }
      rewrite (get_map_some cemb _ _ _ Ed). cbn [bind]. rewrite cemb_val. cbn [go_deref bind]. rewrite cval_n.
      rewrite <- cemb_val.
      change (Some (mk_LCSFunc_seq (i - 1) (cell_n d + 1) (cemb d))) with (cemb (Cell (i - 1) (cell_n d + 1) d)).
      destruct (zupd cm i (Cell (i - 1) (cell_n d + 1) d)) as [c'|] eqn:Eu.
      2:{ destruct (set_map_none cemb _ _ _ (cemb (Cell (i - 1) (cell_n d + 1) d)) Eu) as [k Ek]. rewrite Ek. exact I. }
      rewrite (set_map_some cemb _ _ _ _ Eu). cbn [bind].
      apply Hrec. eapply zupd_Forall; [exact Fc| |exact Eu].
      destruct (znth_Forall _ _ _ _ Fp Ed) as [Hd Hn]. split; simpl; lia.
    + unfold lcs_left_idx_n, lcs_up_idx_n, lcs_tie_cond, lcs_left_idx, lcs_left_dst, lcs_up_idx, lcs_up_dst.
      destruct (znth cm (i - 1)) as [lc|] eqn:El.
      2:{ destruct (get_map_none cemb _ _ El) as [k Ek]. rewrite Ek. exact I. }
      rewrite (get_map_some cemb _ _ _ El). cbn [bind]. rewrite cemb_val. cbn [go_deref bind].
      destruct (znth pm i) as [uc|] eqn:Eu.
      2:{ destruct (get_map_none cemb _ _ Eu) as [k Ek]. rewrite Ek. exact I. }
      rewrite (get_map_some cemb _ _ _ Eu). cbn [bind]. rewrite cemb_val. cbn [go_deref bind].
      rewrite !cval_n, <- !cemb_val.
      destruct (cell_n lc >=? cell_n uc).
      * destruct (zupd cm i lc) as [c'|] eqn:Es.
        2:{ destruct (set_map_none cemb _ _ _ (cemb lc) Es) as [k Ek]. rewrite Ek. exact I. }
        rewrite (set_map_some cemb _ _ _ _ Es). cbn [bind].
        apply Hrec. eapply zupd_Forall; [exact Fc| |exact Es]. exact (znth_Forall _ _ _ _ Fc El).
      * destruct (zupd cm i uc) as [c'|] eqn:Es.
        2:{ destruct (set_map_none cemb _ _ _ (cemb uc) Es) as [k Ek]. rewrite Ek. exact I. }
        rewrite (set_map_some cemb _ _ _ _ Es). cbn [bind].
        apply Hrec. eapply zupd_Forall; [exact Fc| |exact Es].
        apply (okc_mono D); [lia|]. exact (znth_Forall _ _ _ _ Fp Eu).
Qed.

(* ---------------------------------------------------------------- all rows *)
Lemma rows_agree : forall fuel gas f0 j (pm cm : list cell) D,
  1 <= j <= FnRt.zlen ys + 1 -> FnRt.zlen ys + 1 - j < Z.of_nat fuel -> FnRt.zlen ys + 1 - j < Z.of_nat gas ->
  (length xs + 1 < f0)%nat ->
  Forall (okc D) pm -> Forall (okc D) cm ->
  match lcs_rows T eqb fuel xs ys j pm cm, LCSFunc_loop2 f0 gas xs ys eqb (map cemb pm) (map cemb cm) j with
  | Some (p', c'), Ok (p2, c2, _) =>
      p2 = map cemb p' /\ c2 = map cemb c' /\ Forall (okc (D + Z.to_nat (FnRt.zlen ys + 1 - j))) c'
  | None, Panic _ => True
  | _, _ => False
  end.
Proof.
  induction fuel; intros gas f0 j pm cm D Hj Hf Hg Hf0 Fp Fc.
  - simpl in Hf. exfalso; lia.
  - destruct gas; [simpl in Hg; exfalso; lia|].
    cbn [lcs_rows LCSFunc_loop2].
    unfold lcs_j_cond, lcs_j_next, lcs_i_init. change (LcsModel.zlen ys) with (FnRt.zlen ys).
    destruct (j <=? FnRt.zlen ys) eqn:Ec.
    2:{ repeat split. eapply Forall_impl; [|exact Fc]. intros a. apply okc_mono. lia. }
    cbv zeta.
    pose proof (fill_agree (S (length xs)) f0 f0 j 1 cm pm D) as HF.
    assert (Fp' : Forall (okc (S D)) pm) by (eapply Forall_impl; [|exact Fp]; intros a; apply okc_mono; lia).
    specialize (HF ltac:(unfold FnRt.zlen; lia) ltac:(unfold FnRt.zlen; lia) ltac:(unfold FnRt.zlen; lia) Fc Fp').
    destruct (lcs_fill T eqb (S (length xs)) xs ys j 1 cm pm) as [c2|];
      destruct (LCSFunc_loop3 f0 f0 xs ys eqb (map cemb cm) j (map cemb pm) 1) as [[c2' i2]| |];
      try contradiction; cbn [bind]; try exact I.
    destruct HF as [-> F2].
    assert (Fc' : Forall (okc (S D)) cm) by (eapply Forall_impl; [|exact Fc]; intros a; apply okc_mono; lia).
    specialize (IHfuel gas f0 (j + 1) cm c2 (S D) ltac:(lia) ltac:(lia) ltac:(lia) Hf0 Fc' F2).
    destruct (lcs_rows T eqb fuel xs ys (j + 1) cm c2) as [[p3 c3]|];
      destruct (LCSFunc_loop2 f0 gas xs ys eqb (map cemb cm) (map cemb c2) (j + 1)) as [[[p3' c3'] j3]| |];
      try contradiction; try exact I.
    destruct IHfuel as (-> & -> & F3). repeat split.
    replace (D + Z.to_nat (FnRt.zlen ys + 1 - j))%nat with (S D + Z.to_nat (FnRt.zlen ys + 1 - (j + 1)))%nat by lia.
    exact F3.
Qed.

(* ---------------------------------------------------------------- the walk back *)
Lemma walk_req : forall (p : cell) gas f0 out, (depth p < gas)%nat ->
  req (emb (lcs_walk T xs p out)) (bind (LCSFunc_loop4 f0 gas xs out (cemb p)) (fun '(o, _) => Ok o)).
Proof.
  induction p as [|i n prev IH]; intros gas f0 out Hg; (destruct gas; [simpl in Hg; lia|]);
    cbn [lcs_walk LCSFunc_loop4 cemb go_deref bind LCSFunc_seq_n LCSFunc_seq_i LCSFunc_seq_prev cell_n cell_i];
    unfold lcs_walk_cond, lcs_out_idx.
  - reflexivity.
  - destruct (n >? 0); [|reflexivity].
    req_get xs i. apply IH. simpl in Hg. lia.
Qed.
End Row.

(* ---------------------------------------------------------------- LCSFunc *)
Definition rev_ok : list T -> res (list T) := fun l => Ok (rev l).

Lemma core_req : forall xs ys fuel, (length xs + length ys + 3 <= fuel)%nat ->
  req (emb (lcs_core T eqb xs ys))
      (bind (go_make_check (FnRt.zlen xs + 1) (FnRt.zlen xs + 1)) (fun _ =>
       let p := repeat (@None LCSFunc_seq) (Z.to_nat (FnRt.zlen xs + 1)) in
       bind (go_make_check (FnRt.zlen xs + 1) (FnRt.zlen xs + 1)) (fun _ =>
       let c := repeat (@None LCSFunc_seq) (Z.to_nat (FnRt.zlen xs + 1)) in
       let zero := mk_LCSFunc_seq 0 0 None in
       bind (LCSFunc_loop1 fuel fuel zero (FnRt.zlen p) p c 0) (fun '(p, c, _) =>
       bind (LCSFunc_loop2 fuel fuel xs ys eqb p c 1) (fun '(_, c, _) =>
       bind (go_get c (FnRt.zlen xs)) (fun t12 =>
       bind (go_deref t12) (fun t13 =>
       bind (go_make_check 0 (LCSFunc_seq_n t13)) (fun _ =>
       bind (go_get c (FnRt.zlen xs)) (fun p_1 =>
       bind (LCSFunc_loop4 fuel fuel xs [] p_1) (fun '(out, _) => rev_ok out)))))))))).
Proof.
  intros xs ys fuel Hf. unfold lcs_core, lcs_row_len, lcs_row_len_c, lcs_j_init, lcs_last_idx.
  change (LcsModel.zlen xs) with (FnRt.zlen xs).
  set (n := Z.to_nat (FnRt.zlen xs + 1)).
  assert (Hn : n = S (length xs)) by (unfold n, FnRt.zlen; lia).
  unfold go_make_check. replace ((0 <=? FnRt.zlen xs + 1) && (FnRt.zlen xs + 1 <=? FnRt.zlen xs + 1)) with true
    by (unfold FnRt.zlen; lia).
  cbn [bind]. cbv zeta.
  pose proof (init_loop_eq n fuel fuel 0 (mk_LCSFunc_seq 0 0 None) ltac:(lia)) as HI.
  cbn [repeat app] in HI. change (Z.of_nat 0) with 0 in HI. change (0 + n)%nat with n in HI.
  replace (FnRt.zlen (repeat (@None LCSFunc_seq) n)) with (Z.of_nat n) by (unfold FnRt.zlen; rewrite repeat_length; reflexivity).
  rewrite HI. cbn [bind].
  assert (Hmap : repeat (Some (mk_LCSFunc_seq 0 0 None)) n = map cemb (repeat Zero n)).
  { clear. induction n; simpl; [reflexivity|]. f_equal. exact IHn. }
  rewrite Hmap.
  assert (F0 : Forall (okc 0) (repeat Zero n)).
  { apply Forall_forall. intros x Hx. apply repeat_spec in Hx. subst x. split; simpl; lia. }
  pose proof (rows_agree xs ys (S (length ys)) fuel fuel 1 (repeat Zero n) (repeat Zero n) 0%nat
                ltac:(unfold FnRt.zlen; lia) ltac:(unfold FnRt.zlen; lia) ltac:(unfold FnRt.zlen; lia) ltac:(lia) F0 F0) as HR.
  destruct (lcs_rows T eqb (S (length ys)) xs ys 1 (repeat Zero n) (repeat Zero n)) as [[p' c']|];
    destruct (LCSFunc_loop2 fuel fuel xs ys eqb (map cemb (repeat Zero n)) (map cemb (repeat Zero n)) 1) as [[[p2 c2] j2]| |];
    try contradiction; cbn [bind emb]; try exact I.
  destruct HR as (-> & -> & F).
  destruct (znth c' (FnRt.zlen xs)) as [start|] eqn:Es.
  2:{ destruct (get_map_none cemb _ _ Es) as [k Ek]. rewrite Ek. exact I. }
  rewrite (get_map_some cemb _ _ _ Es). cbn [bind]. rewrite cemb_val. cbn [go_deref bind]. rewrite cval_n.
  destruct (znth_Forall _ _ _ _ F Es) as [Hd Hcn].
  replace ((0 <=? 0) && (0 <=? cell_n start)) with true by lia. cbn [bind].
  rewrite <- cemb_val.
  pose proof (walk_req xs start fuel fuel [] ltac:(unfold FnRt.zlen in Hd; lia)) as HW.
  destruct (lcs_walk T xs start []) as [out|];
    destruct (LCSFunc_loop4 fuel fuel xs [] (cemb start)) as [[out' p4]| |]; simpl in HW; try contradiction; cbn [bind emb]; try exact I.
  subst out'. change (lcs_ncalls_reverse =? 1) with true. reflexivity.
Qed.

Theorem C12_lcs_is_source : forall (l r : list T) (fuel : nat), (length l + length r + 3 <= fuel)%nat ->
  req (emb (lcs_func T eqb l r)) (LCSFunc l r eqb rev_ok fuel).
Proof.
  intros l r fuel Hf. unfold lcs_func, LCSFunc, lcs_empty_cond, lcs_swap, lcs_swap_cond.
  change (LcsModel.zlen l) with (FnRt.zlen l). change (LcsModel.zlen r) with (FnRt.zlen r).
  destruct ((FnRt.zlen l =? 0) || (FnRt.zlen r =? 0)); [reflexivity|].
  destruct (FnRt.zlen r <? FnRt.zlen l).
  - apply (core_req r l fuel). lia.
  - apply (core_req l r fuel). lia.
Qed.

(* LCS = LCSFunc with the function `equal` (a == b, the argument eqb_T) *)
Theorem C12_lcs_wrapper_is_source : forall (l r : list T) (fuel : nat), (length l + length r + 3 <= fuel)%nat ->
  req (emb (lcs_func T eqb l r)) (LCS l r rev_ok eqb fuel).
Proof. intros. unfold LCS, equal. apply C12_lcs_is_source. assumption. Qed.
End Lcs.

Print Assumptions C12_lcs_is_source.
Print Assumptions C12_lcs_wrapper_is_source.
