(* stree, C02 constructor clause for DISTINCT keys on the generated heap: if the keys handed to the
   generated New are pairwise inequivalent under the comparator, the Tree object it returns has
   size = len(keys); with new_height_source (StreeSourceNew.v) the height of the region it builds is
   floor(log2 n), n = len(keys).  Hypotheses: those of new_height_source (comparator laws, the
   assumed contracts of slices.SortFunc / slices.CompactFunc, 0 <= β <= 1000). *)
From Coq Require Import ZArith List Bool Arith Lia.
From Mds Require Import Common.FnRt Common.FnHeap GenTie.StreeTieBase GenTie.StreeSep
  GenTie.StreeSource GenTie.StreeSourceSim GenTie.StreeTieNew GenTie.StreeSourceNew.
From Mds Require Stree.StreeSpec.
Import ListNotations.
Local Open Scope Z_scope.

Definition pairwise_distinct {T : Type} (cmp : T -> T -> Z) (keys : list T) : Prop :=
  forall (i j : nat) (x y : T), i <> j -> nth_error keys i = Some x -> nth_error keys j = Some y -> cmp x y <> 0.

Section Distinct.
Context {T : Type}.
Notation heap := (list (G.node T)).
Variable cmp : T -> T -> Z.
Hypothesis HP : SP.total_preorder cmp.

Lemma cmp_refl0 (x : T) : cmp x x = 0.
Proof. pose proof (SP.cmp_flip cmp HP x x). lia. Qed.

Lemma distinct_NoDup (keys : list T) : pairwise_distinct cmp keys -> NoDup keys.
Proof.
  intros D. apply NoDup_nth_error. intros i j Hi E.
  destruct (Nat.eq_dec i j) as [|N]; [assumption|exfalso].
  destruct (nth_error keys i) as [x|] eqn:Ei; [|apply nth_error_None in Ei; lia].
  symmetry in E. exact (D i j x x N Ei E (cmp_refl0 x)).
Qed.

Lemma distinct_eq (keys : list T) (x y : T) : pairwise_distinct cmp keys ->
  In x keys -> In y keys -> cmp x y = 0 -> x = y.
Proof.
  intros D Hx Hy E. destruct (In_nth_error _ _ Hx) as [i Ei]. destruct (In_nth_error _ _ Hy) as [j Ej].
  destruct (Nat.eq_dec i j) as [->|N]; [congruence|]. exfalso. exact (D i j x y N Ei Ej E).
Qed.

Lemma sorted_NoDup (l : list T) : SP.sorted cmp l -> NoDup l.
Proof.
  induction l as [|x r IH]; intros Ss; [constructor|]. destruct Ss as [S1 S2].
  constructor; [|apply IH; exact S2]. intros X. specialize (S1 x X).
  pose proof (SP.cmp_flip cmp HP x x). lia.
Qed.

Lemma dedup_distinct_length (keys l : list T) : pairwise_distinct cmp keys ->
  sorted_dedup cmp keys l -> length l = length keys.
Proof.
  intros D [Ss [Sin Sex]]. apply Nat.le_antisymm.
  - apply NoDup_incl_length; [apply sorted_NoDup; exact Ss|exact Sin].
  - apply NoDup_incl_length; [apply distinct_NoDup; exact D|].
    intros k Hk. destruct (Sex k Hk) as [x [Hx E]].
    rewrite (distinct_eq keys k x D Hk (Sin x Hx) E). exact Hx.
Qed.

Variable limitFunc : Z -> Z -> Z.
Variable srt : list ptr -> (unit -> ptr -> ptr -> res (Z * unit)) -> res (list ptr).
Variable cpt : list ptr -> (unit -> ptr -> ptr -> res (bool * unit)) -> res (list ptr).
Hypothesis Hsrt : @sort_contract T srt.
Hypothesis Hcpt : @compact_contract cpt.

Theorem new_size_distinct_source (b : Z) (keys : list T) (h0 : heap) : 0 <= b <= 1000 -> keys <> [] ->
  pairwise_distinct cmp keys ->
  exists (tr : G.Tree T) (h : heap),
    gnew cmp limitFunc srt cpt b keys h0 = Ok (tr, h) /\ G.Tree_size tr = Z.of_nat (length keys) /\
    (exists t F, trepr h (G.Tree_root tr) t F /\ Z.of_nat (length F) = Z.of_nat (length keys) /\
       (forall x, In x F <-> exists d, hreach h (G.Tree_root tr) x d)) /\
    (forall x d, hreach h (G.Tree_root tr) x d -> Z.of_nat d <= Z.log2 (Z.of_nat (length keys))) /\
    (exists x, hreach h (G.Tree_root tr) x (Z.to_nat (Z.log2 (Z.of_nat (length keys))))).
Proof.
  intros Hb Hk D.
  destruct (new_height_source cmp HP limitFunc srt cpt Hsrt Hcpt b keys h0 Hb Hk)
    as [tr [h [Eg [_ [Hreg [Hle Hex]]]]]].
  destruct (gnew_sim cmp HP limitFunc srt cpt Hsrt Hcpt b keys h0 Hb)
    as [tr' [h' [t [l [Eg' [_ [_ [_ [Hs [Rl [Sd _]]]]]]]]]]].
  rewrite Eg in Eg'. injection Eg' as <- <-.
  assert (Esz : G.Tree_size tr = Z.of_nat (length keys)).
  { destruct Hs as [Esz _]. cbn [gst_of g_size] in Esz. rewrite Esz.
    destruct Rl as (_ & _ & Z1). rewrite Z1. f_equal. apply dedup_distinct_length; assumption. }
  exists tr, h. split; [exact Eg|]. split; [exact Esz|]. rewrite <- Esz.
  split; [exact Hreg|]. split; [exact Hle|exact Hex].
Qed.

End Distinct.
