(* pushUp and Add of heapq/heapq.go: model = generated function (see HeapqTieBase.v) *)
From Coq Require Import ZArith List Bool Lia.
From Mds Require Import Common.FnRt GenTie.TieLib Gen.FnHeapq Gen.HeapqIdx GenTie.HeapqTieBase.
Import ListNotations.
Local Open Scope Z_scope.
Local Arguments Z.mul : simpl never.
Local Arguments Z.quot : simpl never.

Section Elem.
Context {T : Type}.
Implicit Types l : list T.
Variable cmp : T -> T -> Z.
Notation cv := H.current_variant.
(* ---------------------------------------------------------------- pushUp *)
Definition up_out (log : list (T * Z)) (r : list T * H.moves T * Z) : res (list T * Z * list (T * Z)) :=
  let '(l, m, i) := r in Ok (l, i, log ++ m).

Lemma pushUp_loop1_eq : forall gas f0 l i log,
  pushUp_loop1 f0 gas cmp l i log = bind (emb (H.push_up T cv cmp gas l i)) (up_out log).
Proof.
  induction gas; intros; [reflexivity|].
  cbn [pushUp_loop1 H.push_up].
  change (H.parent_of cv i) with (Z.quot i 2).
  unfold pushup_continue, pushup_break.
  case_if; [|simpl; rewrite app_nil_r; reflexivity].
  rewrite !get_eq.
  destruct (H.get l i) as [a|]; simpl; [|reflexivity].
  destruct (H.get l (Z.quot i 2)) as [b|]; simpl; [|reflexivity].
  case_if; [simpl; rewrite app_nil_r; reflexivity|].
  rewrite C05_swap_is_source.
  destruct (H.swap T l i (Z.quot i 2)) as [[l' m]| |]; simpl; try reflexivity.
  rewrite IHgas.
  destruct (H.push_up T cv cmp gas l' (Z.quot i 2)) as [[[l'' m'] r]| |]; simpl; try reflexivity.
  rewrite app_assoc. reflexivity.
Qed.

Lemma pushUp_loop1_mono : forall gas gas' f0 f0' l i log, (gas <= gas')%nat ->
  res_le (pushUp_loop1 f0 gas cmp l i log) (pushUp_loop1 f0' gas' cmp l i log).
Proof.
  induction gas; intros; [apply res_le_oof|]. destruct gas'; [lia|]. simpl.
  mono. apply IHgas; lia.
Qed.

(* pushUp with the fuel the model's push_up is given *)
Theorem C05_pushUp_is_source : forall l i fuel,
  pushUp l cmp i fuel = embf up_ret (H.push_up T cv cmp fuel l i).
Proof.
  intros. unfold pushUp. rewrite pushUp_loop1_eq.
  destruct (H.push_up T cv cmp fuel l i) as [[[l' m] r]| |]; reflexivity.
Qed.

Lemma pushUp_mono l i fuel fuel' : (fuel <= fuel')%nat -> res_le (pushUp l cmp i fuel) (pushUp l cmp i fuel').
Proof. intros. unfold pushUp. mono. apply pushUp_loop1_mono; lia. Qed.


End Elem.

Section Queue.
Context {T : Type}.
Notation cv := H.current_variant.
Definition add_ret (r : H.queue T * H.moves T * Z) : Z * list T * list (T * Z) :=
  let '(q, m, i) := r in (i, H.data q, m).

Theorem C05_add_is_source : forall (q : H.queue T) (x : T) (fuel : nat),
  (S (length (H.data q ++ [x])) <= fuel)%nat ->
  res_le (embf add_ret (H.Add T cv q x)) (Add (H.data q) (H.qcmp q) x fuel).
Proof.
  intros q x fuel Hf. unfold Add, H.Add. cbv zeta. change (H.len (H.data q)) with (zlen (H.data q)).
  rewrite get_eq.
  destruct (H.get (H.data q ++ [x]) (zlen (H.data q))) as [x'|]; cbn [of_opt bind]; [|apply res_le_refl].
  change (0 <? add_ncalls_move) with true. change (0 <? add_ncalls_pushUp) with true. cbv iota.
  pose proof (pushUp_mono (H.qcmp q) (H.data q ++ [x]) (zlen (H.data q)) _ _ Hf) as [O|E].
  - left. rewrite C05_pushUp_is_source in O.
    destruct (H.push_up T cv (H.qcmp q) _ _ _) as [[[l' m] r]| |]; simpl in *; try discriminate. reflexivity.
  - right. rewrite <- E, C05_pushUp_is_source.
    destruct (H.push_up T cv (H.qcmp q) _ _ _) as [[[l' m] r]| |]; reflexivity.
Qed.

End Queue.

Print Assumptions C05_pushUp_is_source.
Print Assumptions C05_add_is_source.
