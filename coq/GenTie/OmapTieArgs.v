(* omap ties: which stree method each POSITIONAL method argument of the generated omap functions
   stands for (in a file of its own: a changed list costs only this file). *)
From Coq Require Import List String.
From Mds Require Gen.FnOmap.
Import ListNotations.
Module O := FnOmap.

(* The method arguments of the generated functions are POSITIONAL.  Gen/FnOmap.v states for every
   function which stree method (or nil test / nil value of which field) each such argument stands
   for, by name in argument order (<f>_objargs, directive objargs).  The ties hand g_Len to "m.Len",
   g_Get to "m.Get", g_Replace to "m.Replace" ...: this lemma pins that reading, so that a Set that
   calls m.m.Add (same type as Replace) does not pass unnoticed. *)
Lemma omap_objargs :
  O.Len_objargs = ["m == nil"; "m.Len"]%string /\
  O.GetOK_objargs = ["m == nil"; "m.Get"]%string /\
  O.Get_objargs = ["m == nil"; "m.Get"]%string /\
  O.Set__objargs = ["m.Replace"]%string /\
  O.Delete_objargs = ["m == nil"; "m.Remove"]%string /\
  O.Clear_objargs = ["m == nil"; "m.Clear"]%string /\
  O.Keys_objargs = ["m == nil"; "m.Len"; "m.Inorder"]%string /\
  O.IsValid_objargs = ["c.Valid"]%string /\
  O.Next__objargs = ["c.Next"]%string /\
  O.Prev_objargs = ["c.Prev"]%string /\
  O.Key_objargs = ["c.Key"]%string /\
  O.Value_objargs = ["c.Key"]%string /\
  O.Seek_objargs = ["nil c"; "m == nil"; "m.InorderAfter"; "m.Cursor"]%string /\
  O.Map_First_objargs = ["nil c"; "m == nil"; "m.Root"; "c.Min"]%string /\
  O.Map_Last_objargs = ["nil c"; "m == nil"; "m.Root"; "c.Max"]%string /\
  O.Map_Seek_objargs = ["nil c"; "m == nil"; "m.Root"; "c.Min"; "m.InorderAfter"; "m.Cursor"]%string.
Proof. repeat split; reflexivity. Qed.
