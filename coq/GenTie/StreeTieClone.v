(* stree: node.clone generated from the source (a recursive function that ALLOCATES): on a heap
   that represents t at a, it returns an address a' and the heap EXTENDED by fresh cells
   (h ++ ext: the old cells are untouched) such that a' represents [clone t] there and is itself
   fresh (nil or an address beyond the old heap) -- see StreeTieBase.v. *)
From Coq Require Import ZArith List Bool Arith Lia.
From Mds Require Import Gen.StreeConst Gen.StreeNode.
From Mds Require Import Common.FnRt Common.FnHeap GenTie.TieLib GenTie.StreeTieBase.
Import ListNotations.

Section Clone.
Context {T : Type}.
Notation tree := (SM.tree T).
Notation heap := (list (G.node T)).

Definition fresh_in (h : heap) (a : option nat) : Prop :=
  match a with None => True | Some k => (length h <= k)%nat end.

Theorem C01_clone_is_source : forall (fuel : nat) (h : heap) (a : option nat) (t : tree),
  repr h a t -> (fuel > depth t)%nat ->
  exists a' ext, G.node_clone a h fuel = Ok (a', h ++ ext) /\
                 repr (h ++ ext) a' (SM.clone t) /\ fresh_in h a' /\
                 (t = SM.Leaf -> a' = None /\ ext = []).
Proof.
  induction fuel as [|fuel IH]; intros h a t R Hf; [lia|].
  destruct t as [|l x r]; cbn [G.node_clone].
  - apply repr_leaf_inv in R. subst a. exists None, []. rewrite app_nil_r.
    repeat split; constructor.
  - pose proof R as R0. rnode R k c Hk Hl Hr. cbn [go_pnil depth SM.clone] in *.
    rewrite (hget_repr h k c Hk). cbn [bind].
    destruct (IH h _ l Hl ltac:(lia)) as [al [e1 [E1 [R1 [F1 _]]]]]. rewrite E1. cbn [bind].
    assert (Hk1 : nth_error (h ++ e1) k = Some c).
    { rewrite nth_error_app1; [exact Hk|]. apply nth_error_Some. rewrite Hk. discriminate. }
    rewrite (hget_repr (h ++ e1) k c Hk1). cbn [bind].
    destruct (IH (h ++ e1) _ r (repr_app h e1 _ _ Hr) ltac:(lia)) as [ar [e2 [E2 [R2 [F2 _]]]]]. rewrite E2. cbn [bind].
    unfold go_hnew.
    exists (Some (length ((h ++ e1) ++ e2))), (e1 ++ e2 ++ [G.mk_node (G.node_X c) al ar]).
    split; [|split; [|split]].
    + rewrite !app_assoc. reflexivity.
    + replace (h ++ e1 ++ e2 ++ [G.mk_node (G.node_X c) al ar]) with (((h ++ e1) ++ e2) ++ [G.mk_node (G.node_X c) al ar])
        by (rewrite !app_assoc; reflexivity).
      change (G.node_X c) with (G.node_X (G.mk_node (G.node_X c) al ar)) at 2.
      apply repr_node.
      * rewrite nth_error_app2 by lia. rewrite Nat.sub_diag. reflexivity.
      * cbn [G.node_left]. apply repr_app. apply repr_app. exact R1.
      * cbn [G.node_right]. apply repr_app. exact R2.
    + cbn [fresh_in]. rewrite !app_length. lia.
    + discriminate.
Qed.

End Clone.

Print Assumptions C01_clone_is_source.
