(* Diff.findContext of mdiff/mdiff.go: the model (Mdiff/MdiffModel.v: find_context over the
   generated definitions of Gen/MdiffIdx.v, at lines = byte strings and == = string equality) =
   the function generated from the whole body (Gen/FnMdiff.v).

   The parameter `c *Chunk` is a pointer to a struct that other functions change; findContext only
   reads its four scalar fields, so the translator hands them in as four arguments (c_LStart ...),
   like the fields of the receiver (d_Left, d_Right).  The model's results [Ok | Panic k] have no
   fuel (its loops are structural on the counts); [memb] maps its panics onto the run-time panics
   and the message of UnifyChunks' panic statement.  Equality for every input, with fuel above the
   two counts. *)
From Coq Require Import ZArith List Bool Lia ZifyBool.
From Mds Require Import Common.FnRt GenTie.TieLib Gen.MdiffIdx Gen.FnMdiff.
From Mds Require Mdiff.MdiffModel.
Import ListNotations.
Local Open Scope Z_scope.

Module M := MdiffModel.

Definition memb_panic (k : M.panic_kind) : panic_kind :=
  match k with
  | M.PIndex => PIndex
  | M.PNil => PNil
  | M.PMerge => PMsg "diff: context merge did not work correctly"
  end.

Definition memb {A : Type} (r : M.res A) : res A :=
  match r with
  | M.Ok a => Ok a
  | M.Panic k => Panic (memb_panic k)
  end.

Lemma memb_bind {A B} (m : M.res A) (k : A -> M.res B) :
  memb (M.bind m k) = bind (memb m) (fun a => memb (k a)).
Proof. destruct m; reflexivity. Qed.

Lemma go_get_zth {A} (l : list A) i :
  go_get l i = match EditLoop.zth l i with Some x => Ok x | None => Panic PIndex end.
Proof.
  unfold go_get, EditLoop.zth, zlen.
  destruct (i <? 0) eqn:E1.
  - replace (0 <=? i) with false by lia. reflexivity.
  - replace (0 <=? i) with true by lia. simpl.
    destruct (i <? Z.of_nat (length l)) eqn:E2.
    + destruct (nth_error l (Z.to_nat i)); reflexivity.
    + destruct (nth_error l (Z.to_nat i)) eqn:E3; [|reflexivity].
      assert (Z.to_nat i < length l)%nat by (apply nth_error_Some; congruence). lia.
Qed.

Notation line := (list Z) (only parsing).
Definition rev_ok {A} : list A -> res (list A) := fun l => Ok (rev l).

Section Find.
Variables L R : list line.

Lemma pre_loop_eq : forall k gas f0 lcur rcur lim i acc,
  k = Z.to_nat (lim - i) -> (k < gas)%nat ->
  bind (findContext_loop1 f0 gas L R lcur rcur lim acc i) (fun '(p, _) => Ok p)
  = memb (M.fc_pre_loop line str_eqb L R lcur rcur k i acc).
Proof.
  induction k; intros gas f0 lcur rcur lim i acc Hk Hg; (destruct gas; [lia|]); cbn [findContext_loop1 M.fc_pre_loop].
  - replace (i <? lim) with false by lia. reflexivity.
  - replace (i <? lim) with true by lia. cbv zeta.
    unfold fc_pre_p, fc_pre_q, fc_pre_stop.
    destruct ((lcur - (i + 1) <? 0) || (rcur - (i + 1) <? 0)) eqn:Es; cbn [orb bind].
    + reflexivity.
    + rewrite !go_get_zth.
      destruct (EditLoop.zth L (lcur - (i + 1))) as [a|]; cbn [bind]; [|reflexivity].
      destruct (EditLoop.zth R (rcur - (i + 1))) as [b|]; cbn [bind]; [|reflexivity].
      destruct (negb (str_eqb a b)); [reflexivity|].
      apply IHk; lia.
Qed.

Lemma post_loop_eq : forall k gas f0 lend rend lim i acc,
  k = Z.to_nat (lim - i) -> (k < gas)%nat ->
  bind (findContext_loop2 f0 gas L R lend rend lim acc i) (fun '(p, _) => Ok p)
  = memb (M.fc_post_loop line str_eqb L R lend rend k i acc).
Proof.
  induction k; intros gas f0 lend rend lim i acc Hk Hg; (destruct gas; [lia|]); cbn [findContext_loop2 M.fc_post_loop].
  - replace (i <? lim) with false by lia. reflexivity.
  - replace (i <? lim) with true by lia. cbv zeta.
    unfold fc_post_p, fc_post_q, fc_post_stop. change (M.len L) with (zlen L). change (M.len R) with (zlen R).
    destruct ((lend + i >=? zlen L) || (rend + i >=? zlen R)) eqn:Es; cbn [orb bind].
    + reflexivity.
    + rewrite !go_get_zth.
      destruct (EditLoop.zth L (lend + i)) as [a|]; cbn [bind]; [|reflexivity].
      destruct (EditLoop.zth R (rend + i)) as [b|]; cbn [bind]; [|reflexivity].
      destruct (negb (str_eqb a b)); [reflexivity|].
      apply IHk; lia.
Qed.

Theorem C13_findContext_is_source : forall (c : M.chunk line) (npre npost : Z) (fuel : nat),
  (Z.to_nat npre < fuel)%nat -> (Z.to_nat npost < fuel)%nat ->
  findContext L R (M.LStart c) (M.LEnd c) (M.RStart c) (M.REnd c) npre npost rev_ok fuel
  = memb (M.find_context str_eqb L R c npre npost).
Proof.
  intros c npre npost fuel H1 H2. unfold findContext, M.find_context. cbv zeta.
  unfold fc_lcur, fc_rcur, fc_lend, fc_rend, fc_pre_count, fc_post_count.
  rewrite memb_bind, <- (pre_loop_eq (Z.to_nat npre) fuel fuel (M.LStart c - 1) (M.RStart c - 1) npre 0 []) by lia.
  destruct (findContext_loop1 fuel fuel L R (M.LStart c - 1) (M.RStart c - 1) npre [] 0) as [[pre i]| |]; cbn [bind]; try reflexivity.
  unfold rev_ok at 1. cbn [bind].
  rewrite memb_bind, <- (post_loop_eq (Z.to_nat npost) fuel fuel (M.LEnd c - 1) (M.REnd c - 1) npost 0 []) by lia.
  destruct (findContext_loop2 fuel fuel L R (M.LEnd c - 1) (M.REnd c - 1) npost [] 0) as [[post j]| |]; reflexivity.
Qed.
End Find.

Print Assumptions C13_findContext_is_source.
