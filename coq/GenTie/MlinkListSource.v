(* C10 (mlink.List through cursors) at source level: a state machine whose operations CALL THE
   FUNCTIONS GENERATED from mlink/list.go and mlink/mlink.go (Gen/FnMlink.v, heap backend) refines
   the abstract (list, cursor positions) semantics of Mlink/MlinkSpec.v over whole histories,
   through any number of cursors.

   [gstep zero g o] : state g = (generated heap of entry cells, the Cursor values in the caller's
   hands: each its pred field, option nat, None = a never-positioned Cursor); the list is the one
   whose sentinel `first` sits at address 0 (lst = Some 0: what the generated NewList returns on the
   empty heap); the model's op type (callbacks of Find/Each any pure function) and out type.
     OAt OLast OEnd OFind      G.List_At / List_Last / List_End / List_Find: the returned Cursor joins the
                               caller's cursors
     OGet OSet OAtEnd ONext OPush OAdd ORemove OTruncate   G.Cursor_* on the k-th cursor's pred field;
                               Next and Add hand back the new pred, the writers the new heap
     OClear OPeek OLen OIsEmpty  G.List_Clear / List_Peek / List_Len / List_IsEmpty
     OEach f                   G.List_Each with the state-threading callback (f v, visited ++ [v])
     OCopy OAssign ONilCursor  struct copy / assignment / the zero Cursor: no call
     fuel: heap size + 2 (Add: + the number of values).  A panic with the message of a panic statement
     ("invalid cursor", "index out of range") or Go's nil dereference is the output RPanic kind, any
     other panic RBad, fuel exhaustion RHang; a cursor number that was never handed out RNoCursor;
     after a failed call the state is the one before the call.
   All twenty operations of the model's histories are covered. *)
From Coq Require Import ZArith List Bool Arith Lia.
From Mds Require Gen.MlinkFacts Gen.MlinkList Gen.MlinkQueue.
From Mds Require Import Mlink.MlinkModel.
From Mds Require Import Common.FnRt Common.FnHeap GenTie.TieLib GenTie.MlinkTieBase GenTie.MlinkTieCursor GenTie.MlinkTieMut
  GenTie.MlinkTieList GenTie.MlinkTieEach GenTie.MlinkQueueSource.
From Mds Require Mlink.MlinkSpec Mlink.MlinkProofs.
Import ListNotations.
Local Open Scope Z_scope.

Module MPr := MlinkProofs.

Section Src.
Context {T : Type}.
Variable zero : T.
Notation heap := (MlinkModel.heap T).
Notation cst := (MlinkModel.cst T).
Notation mstate := (MlinkModel.mstate T).
Notation out := (MlinkModel.out T).
Notation gm := (list (G.entry T) * list (option nat))%type.

Definition menc (m : mstate) : gm := (henc (fst m), map lenc (snd m)).

Definition gres {A} (g : gm) (r : res A) (f : A -> gm * out) : gm * out :=
  match r with
  | Ok a => f a
  | Panic k => (g, unpk k)
  | FnRt.OutOfFuel => (g, RHang)
  end.

Definition with_pred (g : gm) (k : nat) (f : option nat -> gm * out) : gm * out :=
  match nth_error (snd g) k with None => (g, RNoCursor) | Some p => f p end.

Definition gstep (g : gm) (o : op T) : gm * out :=
  let h := fst g in
  let cs := snd g in
  let fuel := S (S (length h)) in
  let newc := fun c : G.Cursor => ((h, cs ++ [G.Cursor_pred c]), RUnit) in
  match o with
  | OAt n => gres g (G.List_At (Some O) n h fuel) newc
  | OLast => gres g (G.List_Last (Some O) h fuel) newc
  | OEnd => gres g (G.List_End (Some O) h fuel) newc
  | OFind f => gres g (G.List_Find (Some O) f h zero fuel) newc
  | OCopy k => match nth_error cs k with None => (g, RNoCursor) | Some p => ((h, cs ++ [p]), RUnit) end
  | OAssign k j => match nth_error cs k, nth_error cs j with
                   | Some _, Some p => ((h, set_nth cs k p), RUnit)
                   | _, _ => (g, RNoCursor)
                   end
  | ONilCursor => ((h, cs ++ [None]), RUnit)
  | OGet k => with_pred g k (fun p => gres g (G.Cursor_Get p h zero) (fun v => (g, RVal v)))
  | OSet k v => with_pred g k (fun p => gres g (G.Cursor_Set p v h) (fun h' => ((h', cs), RUnit)))
  | OAtEnd k => with_pred g k (fun p => gres g (G.Cursor_AtEnd p h) (fun b => (g, RBool b)))
  | ONext k => with_pred g k (fun p => gres g (G.Cursor_Next p h) (fun bp => ((h, set_nth cs k (snd bp)), RBool (fst bp))))
  | OPush k v => with_pred g k (fun p => gres g (G.Cursor_Push p v h) (fun h' => ((h', cs), RUnit)))
  | OAdd k vs => with_pred g k (fun p => gres g (G.Cursor_Add p vs h (S (S (length h + length vs))))
                                          (fun ph => ((snd ph, set_nth cs k (fst ph)), RUnit)))
  | ORemove k => with_pred g k (fun p => gres g (G.Cursor_Remove p h zero) (fun vh => ((snd vh, cs), RVal (fst vh))))
  | OTruncate k => with_pred g k (fun p => gres g (G.Cursor_Truncate p h fuel) (fun h' => ((h', cs), RUnit)))
  | OClear => gres g (G.List_Clear (Some O) h fuel) (fun h' => ((h', cs), RUnit))
  | OPeek n => gres g (G.List_Peek (Some O) n h zero fuel) (fun vb => (g, RValBool (fst vb) (snd vb)))
  | OEach f => gres g (G.List_Each (Some O) (fun s v => Ok (f v, s ++ [v])) [] h zero fuel) (fun vs => (g, RList vs))
  | OLen => gres g (G.List_Len (Some O) h zero fuel) (fun n => (g, RInt n))
  | OIsEmpty => gres g (G.List_IsEmpty (Some O) h) (fun b => (g, RBool b))
  end.

Fixpoint grun (g : gm) (ops : list (op T)) : list out :=
  match ops with
  | [] => []
  | o :: ops' => let (g', r) := gstep g o in r :: grun g' ops'
  end.

Fixpoint grun_state (g : gm) (ops : list (op T)) : gm :=
  match ops with [] => g | o :: ops' => grun_state (fst (gstep g o)) ops' end.

(* NewList() as generated, on the empty heap, and no cursor handed out yet *)
Definition ginit : gm := (snd (G.NewList (T := T) [] zero), []).

Lemma ginit_eq : ginit = menc (init T zero).
Proof. reflexivity. Qed.

(* ---- one step against the model's step ---- *)
Definition failed (r : out) : bool := match r with RPanic _ | RHang | RBad => true | _ => false end.

Definition agrees (m : mstate) (x : mstate * out) (y : gm * out) : Prop :=
  snd y = snd x /\ fst y = menc (if failed (snd x) then m else fst x).

Lemma map_set_nth (cs : list link) k (l : link) : map lenc (set_nth cs k l) = set_nth (map lenc cs) k (lenc l).
Proof. unfold set_nth. rewrite map_app. cbn [map]. rewrite firstn_map, skipn_map. reflexivity. Qed.

Lemma nth_map_lenc (cs : list link) k : nth_error (map lenc cs) k = option_map lenc (nth_error cs k).
Proof. apply nth_error_map. Qed.

(* a method that hands out a new cursor *)
Lemma newc_agrees (m : mstate) (r : mres cst unit) (g : res G.Cursor) :
  res_le (embf curs r) g -> final r (fun s => fst s = fst m) -> snd (mk_cursor T m r) <> RHang ->
  agrees m (mk_cursor T m r)
    (gres (menc m) g (fun c => ((fst (menc m), snd (menc m) ++ [G.Cursor_pred c]), RUnit))).
Proof.
  intros L F N. destruct m as [h cs]. destruct r as [a s|k s| |]; cbn [embf mk_cursor final fst snd] in *.
  - destruct L as [L|L]; [discriminate|]. rewrite <- L. unfold agrees, curs, menc. cbn [gres fst snd failed G.Cursor_pred].
    rewrite F, map_app. split; reflexivity.
  - destruct L as [L|L]; [discriminate|]. rewrite <- L. unfold agrees. cbn [gres fst snd failed]. rewrite unpk_pk. split; reflexivity.
  - exfalso; apply N; reflexivity.
  - destruct L as [L|L]; [discriminate|]. rewrite <- L. split; reflexivity.
Qed.

(* a method of the list that only reads the heap *)
Lemma onlist_agrees {A} (m : mstate) (r : mres cst A) (g : res A) (o : A -> out) :
  (forall a, failed (o a) = false) ->
  res_le (embf (fun a _ => a) r) g -> final r (fun s => fst s = fst m) -> snd (on_list T m r o) <> RHang ->
  agrees m (on_list T m r o) (gres (menc m) g (fun a => (menc m, o a))).
Proof.
  intros Ho L F N. destruct m as [h cs]. destruct r as [a s|k s| |]; cbn [embf on_list final fst snd] in *.
  - destruct L as [L|L]; [discriminate|]. rewrite <- L. unfold agrees, menc. cbn [gres fst snd]. rewrite Ho, F. split; reflexivity.
  - destruct L as [L|L]; [discriminate|]. rewrite <- L. unfold agrees. cbn [gres fst snd failed]. rewrite unpk_pk. split; reflexivity.
  - exfalso; apply N; reflexivity.
  - destruct L as [L|L]; [discriminate|]. rewrite <- L. split; reflexivity.
Qed.

(* List.Clear: the new heap *)
Lemma clear_agrees (m : mstate) (r : mres cst unit) (g : res (list (G.entry T))) :
  res_le (embf heap_of r) g -> snd (on_list T m r (fun _ => RUnit)) <> RHang ->
  agrees m (on_list T m r (fun _ => RUnit)) (gres (menc m) g (fun h' => ((h', snd (menc m)), RUnit))).
Proof.
  intros L N. destruct m as [h cs]. destruct r as [a s|k s| |]; cbn [embf on_list fst snd] in *.
  - destruct L as [L|L]; [discriminate|]. rewrite <- L. split; reflexivity.
  - destruct L as [L|L]; [discriminate|]. rewrite <- L. unfold agrees. cbn [gres fst snd failed]. rewrite unpk_pk. split; reflexivity.
  - exfalso; apply N; reflexivity.
  - destruct L as [L|L]; [discriminate|]. rewrite <- L. split; reflexivity.
Qed.

(* ---- methods of cursor k ---- *)
(* what the model's on_cursor is for a proper pred p *)
Lemma on_cursor_ptr {A} (h : heap) (cs : list link) k p onnil (f : cst -> mres cst A) (o : A -> out) :
  nth_error cs k = Some (Ptr p) ->
  on_cursor T (h, cs) k onnil f o =
  match f (h, p) with
  | MOk a s => ((fst s, set_nth cs k (Ptr (snd s))), o a)
  | MPanic kd s => ((fst s, set_nth cs k (Ptr (snd s))), RPanic kd)
  | MFuel => ((h, cs), RHang)
  | MBad => ((h, cs), RBad)
  end.
Proof. intros E. unfold on_cursor. cbn [fst snd]. rewrite E. reflexivity. Qed.

(* the generic agreement for a cursor method: [gf] is what the generated call gives, [ge] how the
   machine reads an Ok answer; on an Ok answer of the model the two states must agree *)
Lemma oncursor_agrees {A B} (h : heap) (cs : list link) k p onnil (f : cst -> mres cst A) (o : A -> out)
    (emb : A -> cst -> B) (gf : res B) (ge : B -> gm * out) :
  nth_error cs k = Some (Ptr p) ->
  (forall a, failed (o a) = false) ->
  res_le (embf emb (f (h, p))) gf ->
  (forall a s, f (h, p) = MOk a s -> ge (emb a s) = (menc (fst s, set_nth cs k (Ptr (snd s))), o a)) ->
  snd (on_cursor T (h, cs) k onnil f o) <> RHang ->
  agrees (h, cs) (on_cursor T (h, cs) k onnil f o) (gres (menc (h, cs)) gf ge).
Proof.
  intros E Ho L Hok N. rewrite (on_cursor_ptr h cs k p onnil f o E) in *.
  destruct (f (h, p)) as [a s|kd s| |] eqn:Ef; cbn [embf fst snd] in *.
  - destruct L as [L|L]; [discriminate|]. rewrite <- L. unfold agrees. cbn [gres fst snd]. rewrite (Hok a s eq_refl). cbn [fst snd]. rewrite Ho. split; reflexivity.
  - destruct L as [L|L]; [discriminate|]. rewrite <- L. unfold agrees. cbn [gres fst snd failed]. rewrite unpk_pk. split; reflexivity.
  - exfalso; apply N; reflexivity.
  - destruct L as [L|L]; [discriminate|]. rewrite <- L. split; reflexivity.
Qed.

Lemma set_same (cs : list link) k p : nth_error cs k = Some (Ptr p) -> set_nth cs k (Ptr p) = cs.
Proof. apply MPr.set_nth_same. Qed.

Lemma eq_le {A} (a b : res A) : b = a -> res_le a b.
Proof. intros ->. apply res_le_refl. Qed.

(* the generated cursor methods on a never-positioned cursor: Go's nil dereference *)
Lemma nil_get (h : list (G.entry T)) : G.Cursor_Get None h zero = Panic PNil. Proof. reflexivity. Qed.
Lemma nil_set (h : list (G.entry T)) v : G.Cursor_Set None v h = Panic PNil. Proof. reflexivity. Qed.
Lemma nil_atend (h : list (G.entry T)) : G.Cursor_AtEnd None h = Panic PNil. Proof. reflexivity. Qed.
Lemma nil_next (h : list (G.entry T)) : G.Cursor_Next None h = Panic PNil. Proof. reflexivity. Qed.
Lemma nil_push (h : list (G.entry T)) v : G.Cursor_Push None v h = Panic PNil. Proof. reflexivity. Qed.
Lemma nil_remove (h : list (G.entry T)) : G.Cursor_Remove None h zero = Panic PNil. Proof. reflexivity. Qed.
Lemma nil_truncate (h : list (G.entry T)) fuel : G.Cursor_Truncate None h fuel = Panic PNil. Proof. reflexivity. Qed.
Lemma nil_add_nil (h : list (G.entry T)) fuel : G.Cursor_Add None [] h (S fuel) = Ok (None, h). Proof. reflexivity. Qed.
Lemma nil_add_cons (h : list (G.entry T)) v vs fuel : G.Cursor_Add None (v :: vs) h (S fuel) = Panic PNil.
Proof.
  unfold G.Cursor_Add. cbn [G.Cursor_Add_loop1]. unfold zlen. cbn [length].
  replace (0 <? Z.of_nat (S (length vs))) with true by (symmetry; apply Z.ltb_lt; lia).
  unfold go_get. replace ((0 <=? 0) && (0 <? zlen (v :: vs))) with true
    by (symmetry; apply andb_true_iff; split; [reflexivity | apply Z.ltb_lt; unfold zlen; cbn [length]; lia]).
  reflexivity.
Qed.

Lemma unpk_nil : unpk (T := T) PNil = RPanic NilDeref. Proof. reflexivity. Qed.

Theorem gstep_agrees : forall (m : mstate) (o : op T),
  snd (step T zero m o) <> RHang -> agrees m (step T zero m o) (gstep (menc m) o).
Proof.
  intros [h cs] o N. unfold gstep. cbv zeta. cbn [menc fst snd] in *. rewrite henc_length.
  assert (Fu : (S (S (length h)) > length h)%nat) by lia.
  destruct o as [n| | |f|k|k j| |k|k v|k|k|k v|k vs|k|k| |n|f| |]; cbn [step] in *; cbn [fst snd] in *.
  - (* At *) destruct (C10_mlink_at_is_source n h _ Fu) as [L F]. exact (newc_agrees (h, cs) _ _ L F N).
  - destruct (C10_mlink_last_is_source h _ Fu) as [L F]. exact (newc_agrees (h, cs) _ _ L F N).
  - destruct (C10_mlink_end_is_source h _ Fu) as [L F]. exact (newc_agrees (h, cs) _ _ L F N).
  - destruct (C10_mlink_find_is_source zero f h _ Fu) as [L F]. exact (newc_agrees (h, cs) _ _ L F N).
  - (* Copy *) rewrite nth_map_lenc. cbn [fst snd]. destruct (nth_error cs k) as [p|]; cbn [option_map]; [|split; reflexivity].
    unfold agrees, menc. cbn [fst snd failed]. rewrite map_app. split; reflexivity.
  - (* Assign *) rewrite !nth_map_lenc. cbn [fst snd].
    destruct (nth_error cs k) as [p|]; cbn [option_map]; [|split; reflexivity].
    destruct (nth_error cs j) as [q|]; cbn [option_map]; [|split; reflexivity].
    unfold agrees, menc. cbn [fst snd failed]. rewrite map_set_nth. split; reflexivity.
  - (* NilCursor *) unfold agrees, menc. cbn [fst snd failed]. rewrite map_app. split; reflexivity.
  - (* Get *)
    unfold with_pred, menc. cbn [fst snd]. rewrite nth_map_lenc.
    destruct (nth_error cs k) as [[|p]|] eqn:E; cbn [option_map lenc].
    + rewrite nil_get. unfold on_cursor. cbn [snd]. rewrite E. split; reflexivity.
    + destruct (C10_mlink_get_is_source zero h p) as [L F].
      apply (oncursor_agrees h cs k p _ _ _ (fun a _ => a)); [exact E | reflexivity | apply eq_le; exact L | | exact N].
      intros a s Ef. rewrite Ef in F. cbn [final] in F. subst s. cbn [fst snd]. rewrite (set_same _ _ _ E). reflexivity.
    + unfold on_cursor. cbn [snd]. rewrite E. split; reflexivity.
  - (* Set *)
    unfold with_pred, menc. cbn [fst snd]. rewrite nth_map_lenc.
    destruct (nth_error cs k) as [[|p]|] eqn:E; cbn [option_map lenc].
    + rewrite nil_set. unfold on_cursor. cbn [snd]. rewrite E. split; reflexivity.
    + destruct (C10_mlink_set_is_source v h p) as [L F].
      apply (oncursor_agrees h cs k p _ _ _ heap_of); [exact E | reflexivity | apply eq_le; exact L | | exact N].
      intros a s Ef. rewrite Ef in F. cbn [final] in F. unfold heap_of, menc. cbn [fst snd]. rewrite F, (set_same _ _ _ E). reflexivity.
    + unfold on_cursor. cbn [snd]. rewrite E. split; reflexivity.
  - (* AtEnd *)
    unfold with_pred, menc. cbn [fst snd]. rewrite nth_map_lenc.
    destruct (nth_error cs k) as [[|p]|] eqn:E; cbn [option_map lenc].
    + rewrite nil_atend. unfold on_cursor. cbn [snd]. rewrite E. split; reflexivity.
    + destruct (C10_mlink_atend_is_source h p) as [L F].
      apply (oncursor_agrees h cs k p _ _ _ (fun a _ => a)); [exact E | reflexivity | apply eq_le; exact L | | exact N].
      intros a s Ef. rewrite Ef in F. cbn [final] in F. subst s. cbn [fst snd]. rewrite (set_same _ _ _ E). reflexivity.
    + unfold on_cursor. cbn [snd]. rewrite E. split; reflexivity.
  - (* Next *)
    unfold with_pred, menc. cbn [fst snd]. rewrite nth_map_lenc.
    destruct (nth_error cs k) as [[|p]|] eqn:E; cbn [option_map lenc].
    + rewrite nil_next. unfold on_cursor. cbn [snd]. rewrite E. split; reflexivity.
    + destruct (C10_mlink_next_is_source h p) as [L F].
      apply (oncursor_agrees h cs k p _ _ _ (fun a s => (a, Some (snd s)))); [exact E | reflexivity | apply eq_le; exact L | | exact N].
      intros a s Ef. rewrite Ef in F. cbn [final] in F. unfold menc. cbn [fst snd]. rewrite F, map_set_nth. reflexivity.
    + unfold on_cursor. cbn [snd]. rewrite E. split; reflexivity.
  - (* Push *)
    unfold with_pred, menc. cbn [fst snd]. rewrite nth_map_lenc.
    destruct (nth_error cs k) as [[|p]|] eqn:E; cbn [option_map lenc].
    + rewrite nil_push. unfold on_cursor. cbn [snd]. rewrite E. split; reflexivity.
    + destruct (C10_mlink_push_is_source v h p) as [L F].
      apply (oncursor_agrees h cs k p _ _ _ heap_of); [exact E | reflexivity | apply eq_le; exact L | | exact N].
      intros a s Ef. rewrite Ef in F. cbn [final] in F. unfold heap_of, menc. cbn [fst snd]. rewrite F, (set_same _ _ _ E). reflexivity.
    + unfold on_cursor. cbn [snd]. rewrite E. split; reflexivity.
  - (* Add *)
    unfold with_pred, menc. cbn [fst snd]. rewrite nth_map_lenc.
    destruct (nth_error cs k) as [[|p]|] eqn:E; cbn [option_map lenc].
    + unfold on_cursor. cbn [snd]. rewrite E. destruct vs as [|v vs].
      * rewrite nil_add_nil. unfold agrees, menc. cbn [gres fst snd failed lenc].
        rewrite <- (MPr.set_nth_same (map lenc cs) k None) at 2 by (rewrite nth_map_lenc, E; reflexivity). split; reflexivity.
      * rewrite nil_add_cons. split; reflexivity.
    + pose proof (C10_mlink_add_is_source vs h p (S (S (length h + length vs))) ltac:(lia)) as L.
      apply (oncursor_agrees h cs k p _ _ _ add_res); [exact E | reflexivity | exact L | | exact N].
      intros a s Ef. unfold add_res, menc. cbn [fst snd]. rewrite map_set_nth. reflexivity.
    + unfold on_cursor. cbn [snd]. rewrite E. split; reflexivity.
  - (* Remove *)
    unfold with_pred, menc. cbn [fst snd]. rewrite nth_map_lenc.
    destruct (nth_error cs k) as [[|p]|] eqn:E; cbn [option_map lenc].
    + rewrite nil_remove. unfold on_cursor. cbn [snd]. rewrite E. split; reflexivity.
    + destruct (C10_mlink_remove_is_source zero h p) as [L F].
      apply (oncursor_agrees h cs k p _ _ _ (fun a s => (a, henc (fst s)))); [exact E | reflexivity | apply eq_le; exact L | | exact N].
      intros a s Ef. rewrite Ef in F. cbn [final] in F. unfold menc. cbn [fst snd]. rewrite F, (set_same _ _ _ E). reflexivity.
    + unfold on_cursor. cbn [snd]. rewrite E. split; reflexivity.
  - (* Truncate *)
    unfold with_pred, menc. cbn [fst snd]. rewrite nth_map_lenc.
    destruct (nth_error cs k) as [[|p]|] eqn:E; cbn [option_map lenc].
    + rewrite nil_truncate. unfold on_cursor. cbn [snd]. rewrite E. split; reflexivity.
    + destruct (C10_mlink_truncate_is_source h p _ Fu) as [L F].
      apply (oncursor_agrees h cs k p _ _ _ heap_of); [exact E | reflexivity | exact L | | exact N].
      intros a s Ef. rewrite Ef in F. cbn [final] in F. unfold heap_of, menc. cbn [fst snd]. rewrite F, (set_same _ _ _ E). reflexivity.
    + unfold on_cursor. cbn [snd]. rewrite E. split; reflexivity.
  - (* Clear *) exact (clear_agrees (h, cs) _ _ (C10_mlink_clear_is_source h _ Fu) N).
  - (* Peek *) destruct (C10_mlink_peek_is_source zero n h _ Fu) as [L F].
    exact (onlist_agrees (h, cs) _ _ (fun vb => RValBool (fst vb) (snd vb)) (fun _ => eq_refl) L F N).
  - (* Each *) destruct (C10_mlink_each_is_source zero f h _ Fu) as [L F].
    exact (onlist_agrees (h, cs) _ _ RList (fun _ => eq_refl) L F N).
  - (* Len *) destruct (C10_mlink_len_is_source zero h _ Fu) as [L F].
    exact (onlist_agrees (h, cs) _ _ RInt (fun _ => eq_refl) L F N).
  - (* IsEmpty *) destruct (C10_mlink_isempty_is_source h) as [L F].
    apply (onlist_agrees (h, cs) _ _ RBool (fun _ => eq_refl)); [apply eq_le; exact L | | exact N].
    destruct (list_is_empty T h); cbn [final] in *; try exact I; subst; reflexivity.
Qed.

(* ---- histories, through the refinement relation R of the model's proofs ---- *)
Notation astep := (MSp.astep T zero).
Notation aadd := (MSp.aadd T).

Lemma nth_set_pos (cs : list MSp.cpos) k p q : nth_error cs k = Some q -> nth_error (MSp.set_pos cs k p) k = Some p.
Proof.
  intros E. change (MSp.set_pos cs k p) with (set_nth cs k p). apply MPr.nth_error_set_nth.
  apply nth_error_Some. rewrite E. discriminate.
Qed.

Lemma aadd_at : forall (vs : list T) k (l : list T) (cs : list MSp.cpos) i,
  nth_error cs k = Some (MSp.At i) -> snd (aadd k vs (l, cs)) = RUnit.
Proof.
  induction vs as [|v vs IH]; intros k l cs i E; [reflexivity|].
  cbn [MSp.aadd]. unfold MSp.apush, MSp.with_cursor. cbn [fst snd]. rewrite E.
  unfold MSp.anext, MSp.with_cursor. cbn [fst snd].
  assert (E1 : nth_error (map (MSp.after_push i) cs) k = Some (MSp.At i)).
  { rewrite nth_error_map, E. cbn [option_map MSp.after_push]. rewrite Nat.leb_refl. reflexivity. }
  rewrite E1. destruct (i <? length (MSp.ins T l i v))%nat; cbn [fst].
  - eapply IH. eapply nth_set_pos. exact E1.
  - eapply IH. exact E1.
Qed.

Lemma aadd_failed_state : forall (vs : list T) k (a : MSp.astate T),
  failed (snd (aadd k vs a)) = true -> fst (aadd k vs a) = a.
Proof.
  intros [|v vs] k [l cs]; [reflexivity|]. cbn [MSp.aadd]. unfold MSp.apush, MSp.with_cursor. cbn [fst snd].
  destruct (nth_error cs k) as [[i| |]|] eqn:E; try reflexivity.
  intros F. exfalso. revert F.
  unfold MSp.anext, MSp.with_cursor. cbn [fst snd].
  assert (E1 : nth_error (map (MSp.after_push i) cs) k = Some (MSp.At i)).
  { rewrite nth_error_map, E. cbn [option_map MSp.after_push]. rewrite Nat.leb_refl. reflexivity. }
  rewrite E1. destruct (i <? length (MSp.ins T l i v))%nat; cbn [fst].
  - erewrite aadd_at; [discriminate | eapply nth_set_pos; exact E1].
  - erewrite aadd_at; [discriminate | exact E1].
Qed.

Lemma astep_failed_state (s : MSp.astate T) (o : op T) :
  failed (snd (astep s o)) = true -> fst (astep s o) = s.
Proof.
  destruct s as [l cs]. destruct o; cbn [MSp.astep fst snd]; unfold MSp.anext, MSp.apush, MSp.apeek, MSp.with_cursor; cbn [fst snd];
    try (repeat match goal with
         | |- context [match ?x with _ => _ end] => destruct x
         end; cbn [fst snd failed]; intros F; try discriminate F; reflexivity).
  destruct (nth_error cs k); [apply aadd_failed_state | reflexivity].
Qed.

Theorem gstep_sim : forall (m : mstate) (s : MSp.astate T) (o : op T), MPr.R T zero m s ->
  snd (gstep (menc m) o) = snd (astep s o) /\
  exists m', fst (gstep (menc m) o) = menc m' /\ MPr.R T zero m' (fst (astep s o)).
Proof.
  intros m s o HR. destruct (MPr.step_sim T zero m s o HR) as [HR' Ho].
  assert (N : snd (step T zero m o) <> RHang) by (rewrite Ho; apply (MPr.astep_out T zero)).
  destruct (gstep_agrees m o N) as [A1 A2]. split; [rewrite A1; exact Ho|].
  rewrite A2. destruct (failed (snd (step T zero m o))) eqn:F.
  - exists m. split; [reflexivity|]. rewrite Ho in F. rewrite (astep_failed_state s o F). exact HR.
  - eexists. split; [reflexivity | exact HR'].
Qed.

Theorem grun_sim : forall (ops : list (op T)) (m : mstate) (s : MSp.astate T), MPr.R T zero m s ->
  grun (menc m) ops = MSp.arun T zero s ops.
Proof.
  induction ops as [|o ops IH]; intros m s HR; [reflexivity|]. cbn [grun MSp.arun].
  destruct (gstep_sim m s o HR) as [So [m' [Em HR']]].
  destruct (gstep (menc m) o) as [g' r]. destruct (astep s o) as [s' r']. cbn [fst snd] in *.
  subst r' g'. f_equal. apply IH. exact HR'.
Qed.

Theorem grun_state_sim : forall (ops : list (op T)) (m : mstate) (s : MSp.astate T), MPr.R T zero m s ->
  exists m', grun_state (menc m) ops = menc m' /\ MPr.R T zero m' (MSp.arun_state T zero s ops).
Proof.
  induction ops as [|o ops IH]; intros m s HR; [exists m; split; [reflexivity | exact HR]|].
  cbn [grun_state MSp.arun_state]. destruct (gstep_sim m s o HR) as [_ [m' [Em HR']]].
  rewrite Em. apply IH. exact HR'.
Qed.

Theorem list_refinement_source : forall ops : list (op T),
  grun ginit ops = MSp.arun T zero (MSp.ainit T) ops.
Proof. intro ops. rewrite ginit_eq. apply grun_sim. apply MPr.R_init. Qed.

Theorem list_invariant_source : forall ops : list (op T),
  exists m', grun_state ginit ops = menc m' /\ MPr.R T zero m' (MSp.arun_state T zero (MSp.ainit T) ops).
Proof. intro ops. rewrite ginit_eq. apply grun_state_sim. apply MPr.R_init. Qed.

End Src.

(* composition with Props/C10_mlink.v *)
From Mds Require Props.C10_mlink.

Theorem list_run_is_source : forall (T : Type) (zero : T) (ops : list (op T)),
  grun zero (ginit zero) ops = run T zero (init T zero) ops.
Proof. intros T zero ops. rewrite list_refinement_source. symmetry. exact (C10_mlink.C10_list_refinement T zero ops). Qed.

Theorem list_never_hangs_source : forall (T : Type) (zero : T) (ops : list (op T)),
  ~ In RHang (grun zero (ginit zero) ops) /\ ~ In RBad (grun zero (ginit zero) ops).
Proof. intros T zero ops. rewrite list_run_is_source. exact (C10_mlink.C10_list_never_hangs T zero ops). Qed.
