(* The observers and Clear of queue/queue.go: model = generated function (see QueueTieBase.v).

   IsEmpty, Len, Clear, Front: plain equalities.
   Each: the generated function takes the callback as a pure function f : T -> bool and returns
   unit, so what it can show is which elements are read in which order before a panic or the end
   (through the panics), when the walk stops, and that it ends: the model's [each] with the
   stateless callback (fun _ x => (tt, f x)) gives the same verdict for EVERY state (also states
   outside the ring invariant, where index and division panics occur) whenever the fuel exceeds
   q.n.  The callback's own state is the model's business (C07_each_peek_any).

   Not tied: Slice (the function translator stops on it), New and NewSize (pointer / struct
   results are outside its subset); they stay tied by the per-expression anchors, the shape
   anchors and the correspondence. *)
From Coq Require Import ZArith List Bool Lia.
From Mds Require Import Common.FnRt GenTie.TieLib Gen.FnQueue Gen.QueueIdx GenTie.QueueTieBase.
Import ListNotations.
Local Open Scope Z_scope.

Ltac ounf := cbv beta delta [Q.idw isempty_ret len_ret clear_head clear_n front_empty front_idx
  each_start each_count each_idx each_next_rem each_stop].

Section Queue.
Context {T : Type}.
Variable zero : T.
Notation queue := (Q.queue T).
Notation vs := (@Q.vs T).
Notation head := (@Q.head T).
Notation qn := (@Q.n T).

Theorem C07_isempty_is_source : forall (q : queue),
  IsEmpty (qn q) = Q.is_empty T q.
Proof. intros [l h n]. reflexivity. Qed.

Theorem C07_len_is_source : forall (q : queue),
  Len (qn q) = Q.len T q.
Proof. intros [l h n]. reflexivity. Qed.

Theorem C07_clear_is_source : forall (q : queue),
  Clear (vs q) (head q) (qn q) = fields (Q.clear T q).
Proof. intros [l h n]. reflexivity. Qed.

Theorem C07_front_is_source : forall (q : queue),
  Front (vs q) (head q) (qn q) zero = embf (fun x => x) (Q.front T zero q).
Proof.
  intros [l h n]. unfold Front, Q.front. cbn [Q.vs Q.head Q.n]. ounf.
  case_if; [reflexivity|].
  rewrite get_eq. destruct (Q.idx T l h); reflexivity.
Qed.

(* ---- Each ---- *)
Variable f : T -> bool.

Definition pure_cb (_ : unit) (x : T) : unit * bool := (tt, f x).

Definition each_end (t : ctl (Z * Z) unit) : res unit :=
  match t with Ret r => Ok r | Next _ => Ok tt end.

Lemma each_loop_eq (l : list T) (lim : Z) (fuel : nat) : forall (k gas : nat) (cur r : Z),
  k = Z.to_nat (lim - r) -> (k < gas)%nat ->
  bind (Each_loop1 fuel gas l f lim cur r) each_end
  = embf (fun _ : unit => tt) (Q.each_loop Q.idw T unit pure_cb k l cur tt).
Proof.
  induction k as [|k IH]; intros gas cur r Hk Hg; (destruct gas as [|gas]; [lia|]);
    cbn [Each_loop1 Q.each_loop].
  - replace (r <? lim) with false by lia. reflexivity.
  - replace (r <? lim) with true by lia. ounf.
    rewrite get_eq. destruct (Q.idx T l cur) as [x|]; cbn [bind Q.bind Q.of_opt embf]; [|reflexivity].
    unfold pure_cb at 1.
    case_if; [reflexivity|].
    unfold go_rem, Q.checked_rem. change (Q.zlen T l) with (zlen l).
    destruct (zlen l =? 0); cbn [bind Q.bind embf]; [reflexivity|].
    apply IH; lia.
Qed.

Theorem C07_each_is_source : forall (q : queue) (fuel : nat),
  (Z.to_nat (qn q) < fuel)%nat ->
  Each (vs q) (head q) (qn q) f fuel
  = embf (fun _ : unit => tt) (Q.each Q.idw T unit pure_cb q tt).
Proof.
  intros [l h n] fuel Hf. unfold Each, Q.each. cbn [Q.vs Q.head Q.n] in *.
  cbv beta delta [each_start each_count].
  rewrite <- (each_loop_eq l n fuel (Z.to_nat n) fuel h 0) by (try rewrite Z.sub_0_r; auto).
  destruct (Each_loop1 fuel fuel l f n h 0) as [[[c r]|u]| |]; reflexivity.
Qed.

End Queue.

Print Assumptions C07_isempty_is_source.
Print Assumptions C07_len_is_source.
Print Assumptions C07_clear_is_source.
Print Assumptions C07_front_is_source.
Print Assumptions C07_each_is_source.
