(* omap ties, the two methods that range over an iterator of the tree: Map.Keys (range
   m.m.Inorder) and Iter.Seek (range it.m.InorderAfter(KV{Key: key}), first element, then
   it.m.Cursor(kv)).  In Gen/FnOmap.v an iterator method of the object m.m is the function argument
   that returns THE LIST OF THE VALUES IT YIELDS (obtained before the loop; the loop ranges over the
   list and may stop early).  Here that list is what the generated Tree.Inorder / Tree.InorderAfter
   (Gen/FnStree.v) hand to a consumer that keeps every value and never stops (all_yield):
   g_Inorder, g_InorderAfter.  g_Cursor calls the generated Tree.Cursor and decodes its *Cursor
   result into the (nil flag, path) pair (vdec: nil -> (true, []), a new struct -> (false, path)).

   The model's iseek runs InorderAfter with a consumer that stops at the first value; the tie shows
   that this is the head of the full list (inorder_after_ok: both are list_until over the same
   s_after list). *)
From Coq Require Import ZArith List Bool Arith Lia.
From Mds Require Import Common.FnRt Common.FnHeap GenTie.TieLib GenTie.StreeTieBase GenTie.StreeSep
  GenTie.StreeTieRead GenTie.StreeTieWalk GenTie.StreeTieCursor GenTie.StreeTieCursorNext GenTie.StreeTieRest
  GenTie.StreeSource GenTie.StreeSourceSim GenTie.OmapTieBase GenTie.OmapTieRead GenTie.OmapTieIter.
From Mds Require Gen.FnOmap Omap.OmapModel Gen.OmapConst Stree.StreeProofsSet.
Import ListNotations.
Local Open Scope Z_scope.

Section OmapSeq.
Context {K V : Type}.
Variable kcmp : K -> K -> Z.
Hypothesis HK : SP.total_preorder kcmp.
Variable zk : K.
Variable zv : V.
Variable b : Z.
Variable h0 : list (G.node (K * V)).
Notation kv := (K * V)%type.
Notation kvcmp := (OM.kvcmp K V kcmp).
Notation zkv := (OM.zkv K V zk zv).
Notation osim := (osim kcmp b h0).
Notation cst := (bool * list (option nat))%type.

(* the consumer that keeps everything (newest first): the model's callback in mkeys *)
Definition all_yield (acc : list kv) (x : kv) : list kv * bool := (x :: acc, true).
(* the consumer of the model's iseek: the first value, then stop *)
Definition first_yield (s : option kv) (x : kv) : option kv * bool := (Some x, false).

Definition g_Inorder (st : gst kv) : res (list (O.KV K V) * gst kv) :=
  do s <- G.Tree_Inorder (g_root st) (gf all_yield) [] (g_heap st) (fuel_for (g_size st));
  Ok (map of_pair (rev s), st).

Definition g_InorderAfter (st : gst kv) (e : O.KV K V) : res (list (O.KV K V) * gst kv) :=
  do s <- G.Tree_InorderAfter (g_root st) kvcmp (to_pair e) (gf all_yield) [] (g_heap st) (fuel_for (g_size st));
  Ok (map of_pair (rev s), st).

Definition g_Cursor (st : gst kv) (e : O.KV K V) : res (cst * gst kv) :=
  do r <- G.Tree_Cursor (g_root st) kvcmp (to_pair e) (g_heap st) (fuel_for (g_size st));
  Ok (vdec (true, []) r, st).

Lemma until_all (l : list kv) : forall acc, StreeProofsSet.list_until kv (list kv) all_yield l acc = (rev l ++ acc, true).
Proof.
  induction l as [|x l IH]; intros acc; [reflexivity|].
  cbn [StreeProofsSet.list_until all_yield negb rev]. rewrite IH, <- app_assoc. reflexivity.
Qed.

Lemma until_first (l : list kv) :
  StreeProofsSet.list_until kv (option kv) first_yield l None =
  match l with [] => (None, true) | x :: _ => (Some x, false) end.
Proof. destruct l; reflexivity. Qed.

Lemma inorder_until_all (t : SM.tree kv) : forall acc, fst (SM.inorder_until all_yield t acc) = rev (SM.inorder t) ++ acc
  /\ snd (SM.inorder_until all_yield t acc) = true.
Proof.
  induction t as [|l IHl x r IHr]; intros acc; [split; reflexivity|].
  cbn [SM.inorder_until SM.inorder]. destruct (IHl acc) as [A1 A2].
  destruct (SM.inorder_until all_yield l acc) as [s1 ok1]. cbn [fst snd] in *. subst ok1 s1. cbn [negb all_yield].
  destruct (IHr (x :: rev (SM.inorder l) ++ acc)) as [B1 B2].
  destruct (SM.inorder_until all_yield r (x :: rev (SM.inorder l) ++ acc)) as [s2 ok2]. cbn [fst snd] in *. subst.
  split; [|reflexivity]. rewrite rev_app_distr. cbn [rev]. rewrite <- !app_assoc. reflexivity.
Qed.

(* the range loop of Keys over the list: appends the Key fields *)
Lemma keys_loop (fuel : nat) (sq : list (O.KV K V)) : forall (gas i : nat) (out : list K),
  (i <= length sq)%nat -> (gas > length sq - i)%nat ->
  O.Keys_loop1 fuel gas sq (zlen sq) out (Z.of_nat i) = Ok (out ++ map O.KV_Key (skipn i sq), zlen sq).
Proof.
  induction gas as [|gas IH]; intros i out Hi Hg; [lia|].
  cbn [O.Keys_loop1]. unfold zlen in *. destruct (Z.ltb_spec (Z.of_nat i) (Z.of_nat (length sq))) as [Hlt|Hge].
  - destruct (nth_error sq i) as [e|] eqn:En; [|apply nth_error_None in En; lia].
    rewrite (go_get_nth sq i e En). cbn [bind].
    replace (Z.of_nat i + 1) with (Z.of_nat (S i)) by lia. rewrite IH by lia.
    f_equal. f_equal. rewrite <- app_assoc. f_equal.
    clear - En. revert sq En. induction i as [|i IHi]; intros [|a sq] En; try discriminate.
    + cbn in En. inversion En. reflexivity.
    + cbn [skipn]. apply IHi. exact En.
  - assert (i = length sq) by lia. subst i. rewrite skipn_all. cbn [map]. rewrite app_nil_r. reflexivity.
Qed.

Lemma keys_tie (nil : bool) (st : gst kv) (m : OM.omap K V) :
  osim nil st m ->
  exists r, OM.mkeys K V m = SM.Ok r /\
    O.Keys st nil g_Len g_Inorder (fuel_for (g_size st)) = Ok (match r with Some l => l | None => [] end, st).
Proof.
  unfold O.Keys, OM.mkeys. destruct m as [t|]; cbn [OmapTieBase.osim].
  - intros [-> [Hs [l Hr]]]. pose proof Hs as Hs0. destruct Hs as [Esz [_ [_ [F [R _]]]]].
    pose proof (trepr_repr _ _ _ _ R) as Rr. pose proof (rel_depth kvcmp t l Hr) as Hd.
    pose proof (rel_count kvcmp t l Hr) as Hc. pose proof Hr as Hr0. destruct Hr as (Hi & _ & Hz).
    unfold OM.kv in *. unfold g_Len at 1. cbn [bind].
    replace (G.Tree_Len (g_size st)) with (SM.Len t) by (rewrite Esz; apply C01_len_is_source).
    unfold OmapConst.omap_keys_nil. cbn [orb].
    destruct (SM.Len t =? 0) eqn:E0; [eexists; split; reflexivity|].
    rewrite (len_tie kcmp b h0 false st (Some t)) by (split; [reflexivity|]; split; [exact Hs0|]; exists l; exact Hr0).
    cbn [bind OM.mlen]. unfold go_make_check.
    assert (H0 : 0 <= SM.Len t) by (rewrite (C01_len_is_source t); unfold G.Tree_Len; rewrite Hz; lia).
    cbn [bind]. unfold g_Inorder.
    rewrite (C01_tree_inorder_is_source all_yield (fuel_for (g_size st)) (g_heap st) (g_root st) (SM.root t) [] Rr)
      by (rewrite Esz; unfold fuel_for, OM.kv in *; lia).
    cbn [bind]. destruct (inorder_until_all (SM.root t) []) as [A1 _]. unfold OM.kv in *. rewrite A1, app_nil_r, rev_involutive.
    pose proof (keys_loop (fuel_for (g_size st)) (map of_pair (SM.inorder (SM.root t))) (fuel_for (g_size st)) 0 []) as KL.
    cbn [Z.of_nat] in KL. rewrite KL.
    2:{ lia. }
    2:{ rewrite map_length, Esz. unfold fuel_for. rewrite Hi. rewrite Hz, Nat2Z.id. lia. }
    cbn [bind skipn app]. eexists. split; [reflexivity|].
    replace (0 <=? SM.Len t) with true by (symmetry; apply Z.leb_le; exact H0).
    cbn [Z.leb Z.compare andb bind]. f_equal. f_equal.
    unfold SM.Inorder. change (fun (acc : list (K * V)) (x : K * V) => (x :: acc, true)) with all_yield.
    rewrite A1, app_nil_r, rev_involutive, map_map. apply map_ext. intros [a c]. reflexivity.
  - intros ->. eexists. split; reflexivity.
Qed.

(* ---- Iter.Seek ---- *)
Lemma seek_tie (nil : bool) (st : gst kv) (m : OM.omap K V) (c0 : cst) (k : K) (fuel : nat) :
  osim nil st m -> (fuel > 0)%nat ->
  exists c n ps, OM.iseek K V kcmp zv m k = SM.Ok c /\
    O.Seek st c0 k (true, []) nil g_InorderAfter g_Cursor zv fuel = Ok (st, (n, ps)) /\
    crepr (g_heap st) (g_root st) c n ps /\ cwf (OM.mtree K V m) c.
Proof.
  intros Hs Hf. unfold O.Seek, OM.iseek. destruct m as [t|]; cbn [OmapTieBase.osim] in Hs.
  - destruct Hs as [-> [Hs [l Hr]]]. cbn [negb]. pose proof (@kv_preorder K V kcmp HK) as HP.
    destruct Hs as [Esz [_ [_ [F [R _]]]]].
    pose proof (trepr_repr _ _ _ _ R) as Rr. pose proof (rel_depth kvcmp t l Hr) as Hd.
    destruct Hr as (Hi & Hso & Hz). unfold OM.kv in *.
    assert (Sorted : SP.sorted kvcmp (SM.inorder (SM.root t))) by (rewrite Hi; exact Hso).
    unfold g_InorderAfter, to_pair. cbn [O.KV_Key O.KV_Value].
    destruct (C01_tree_inorderAfter_is_source kvcmp all_yield (g_heap st) (g_root st) (SM.root t) (k, zv) []
                (fuel_for (g_size st)) Rr ltac:(rewrite Esz; unfold fuel_for, OM.kv in *; lia)) as [r [M1 G1]].
    unfold OM.kv in *. rewrite G1. cbn [bind].
    rewrite (StreeProofsSet.inorder_after_ok kv kvcmp HP _ all_yield (k, zv) (SM.root t) [] Sorted) in M1.
    rewrite until_all, app_nil_r in M1. inversion M1 as [M1']. subst r. cbn [fst]. rewrite rev_involutive.
    unfold SM.InorderAfter. change (fun (_ : option (K * V)) (x : K * V) => (Some x, false)) with first_yield.
    rewrite (StreeProofsSet.inorder_after_ok kv kvcmp HP _ first_yield (k, zv) (SM.root t) None Sorted).
    rewrite until_first. unfold OM.kv in *.
    destruct (SP.s_after _ _ _) as [|x L]; cbn [SM.bind].
    + cbn [map zlen length Z.of_nat]. destruct fuel as [|fuel]; [lia|]. cbn [O.Seek_loop1 Z.ltb Z.compare bind].
      exists CNil, true, []. split; [reflexivity|]. split; [reflexivity|]. split; constructor.
    + cbn [map]. destruct fuel as [|fuel]; [lia|]. cbn [O.Seek_loop1].
      unfold zlen. cbn [length]. destruct (Z.ltb_spec 0 (Z.of_nat (S (length (map of_pair L))))) as [_|Hbad]; [|lia].
      change (go_get (of_pair x :: map of_pair L) 0) with (Ok (of_pair x)). cbn [bind].
      unfold g_Cursor, to_pair, of_pair. cbn [O.KV_Key O.KV_Value]. rewrite <- surjective_pairing.
      destruct (C03_tree_cursor_is_source kvcmp (g_heap st) (g_root st) (SM.root t) x (fuel_for (g_size st)) (true, [])
                  Rr ltac:(rewrite Esz; unfold fuel_for, OM.kv in *; lia)) as [r [c [G2 [M2 [Cr [W _]]]]]].
      rewrite G2. cbn [bind]. exists c, (fst (vdec (true, []) r)), (snd (vdec (true, []) r)).
      split; [exact M2|]. split; [rewrite <- surjective_pairing; reflexivity|]. split; [exact Cr|exact W].
  - subst nil. cbn [negb]. exists CNil, true, []. split; [reflexivity|]. split; [reflexivity|]. split; constructor.
Qed.

End OmapSeq.
