(* New, NewWithData and Set of heapq/heapq.go: model = generated function (see HeapqTieBase.v).

   NewWithData  the generated constructor adopts the slice (q.data = data), stores cmp and runs
                for i := len(q.data)/2; i >= 0; i-- { q.pushDown(i) }; it returns
                (q.data, q.cmp, the calls of q.move) - the move function is the no-op at that time,
                the model returns the log all the same.
   Set          the generated function takes the old q.data and the rest of its backing array up to
                its capacity (q_data_spare): cap(q.data) < len(vs) -> make([]T, len(vs)), otherwise
                q.data[:len(vs)]; then copy(q.data, vs) - in both cases q.data has exactly len(vs)
                elements, so after the copy it IS vs, whatever the old contents, which is why the
                model's Set_ can ignore them - then for i := len-1; i >= 0; i-- { q.move(q.data[i], i);
                q.pushDown(i) }.  It returns (q.data, the new spare part, the calls of q.move).
   New          plain equality. *)
From Coq Require Import ZArith List Bool Lia Permutation.
From Mds Require Import Common.FnRt GenTie.TieLib Gen.FnHeapq Gen.HeapqIdx GenTie.HeapqTieBase GenTie.HeapqTieDown GenTie.HeapqTieReorder.
From Mds Require Heapq.HeapqProofs.
Import ListNotations.
Local Open Scope Z_scope.
Local Arguments Z.mul : simpl never.
Local Arguments Z.quot : simpl never.

Section Elem.
Context {T : Type}.
Implicit Types l : list T.
Variable cmp : T -> T -> Z.

(* ---------------------------------------------------------------- NewWithData's loop *)
Lemma NewWithData_loop1_le : forall gas f0 l log i, (S (length l) <= f0)%nat ->
  res_le (bind (emb (H.heapify_loop T cmp heapify_continue_new heapify_next_new gas l i)) (heapify_out log))
         (bind (NewWithData_loop1 f0 gas cmp l log i) (fun '(l', log', _) => Ok (l', log'))).
Proof.
  induction gas; intros f0 l log i Hf; [apply res_le_oof|].
  cbn [NewWithData_loop1 H.heapify_loop].
  change (heapify_continue_new i) with (i >=? 0). change (heapify_next_new i) with (i - 1).
  destruct (i >=? 0) eqn:Ei; [|cbn [emb bind heapify_out]; rewrite app_nil_r; apply res_le_refl].
  assert (Hi : 0 <= i) by lia.
  destruct (HeapqProofs.push_down_total T cmp l i Hi) as (l1 & m1 & r & Hpd & Hp & _).
  pose proof (C05_pushDown_is_source cmp l i f0 Hf) as Hd. rewrite Hpd in Hd.
  destruct Hd as [Hd|Hd]; [discriminate|]. cbn [embf up_ret] in Hd. rewrite <- Hd.
  rewrite Hpd. cbn [H.bind bind].
  assert (Hl1 : length l1 = length l) by (apply Permutation_length; exact Hp).
  specialize (IHgas f0 l1 (log ++ m1) (i - 1) ltac:(lia)).
  destruct (H.heapify_loop T cmp heapify_continue_new heapify_next_new gas l1 (i - 1)) as [[l2 m2]| |];
    cbn [emb bind heapify_out H.bind] in *.
  - rewrite app_assoc. exact IHgas.
  - exact IHgas.
  - apply res_le_oof.
Qed.

Lemma NewWithData_loop1_mono : forall gas gas' f0 l log i, (gas <= gas')%nat ->
  res_le (NewWithData_loop1 f0 gas cmp l log i) (NewWithData_loop1 f0 gas' cmp l log i).
Proof.
  induction gas; intros; [apply res_le_oof|]. destruct gas'; [lia|]. cbn [NewWithData_loop1].
  mono. apply IHgas; lia.
Qed.

(* ---------------------------------------------------------------- Set's loop *)
Lemma Set_loop1_le : forall gas f0 l log i, (S (length l) <= f0)%nat ->
  res_le (bind (emb (H.set_loop T cmp gas l i)) (heapify_out log))
         (bind (Set__loop1 f0 gas cmp l log i) (fun '(l', log', _) => Ok (l', log'))).
Proof.
  induction gas; intros f0 l log i Hf; [apply res_le_oof|].
  cbn [Set__loop1 H.set_loop].
  change (set_continue i) with (i >=? 0). change (set_next i) with (i - 1).
  destruct (i >=? 0) eqn:Ei; [|cbn [emb bind heapify_out]; rewrite app_nil_r; apply res_le_refl].
  assert (Hi : 0 <= i) by lia.
  rewrite get_eq. destruct (H.get l i) as [x|]; cbn [of_opt emb bind]; [|apply res_le_refl].
  change (0 <? set_ncalls_move) with true. cbv iota.
  destruct (HeapqProofs.push_down_total T cmp l i Hi) as (l1 & m1 & r & Hpd & Hp & _).
  pose proof (C05_pushDown_is_source cmp l i f0 Hf) as Hd. rewrite Hpd in Hd.
  destruct Hd as [Hd|Hd]; [discriminate|]. cbn [embf up_ret] in Hd. rewrite <- Hd.
  rewrite Hpd. cbn [H.bind bind].
  assert (Hl1 : length l1 = length l) by (apply Permutation_length; exact Hp).
  specialize (IHgas f0 l1 ((log ++ [(x, i)]) ++ m1) (i - 1) ltac:(lia)).
  destruct (H.set_loop T cmp gas l1 (i - 1)) as [[l2 m2]| |];
    cbn [emb bind heapify_out H.bind] in *.
  - replace (log ++ [(x, i)] ++ m1 ++ m2) with (((log ++ [(x, i)]) ++ m1) ++ m2)
      by (rewrite <- !app_assoc; reflexivity).
    exact IHgas.
  - exact IHgas.
  - apply res_le_oof.
Qed.

Lemma Set_loop1_mono : forall gas gas' f0 l log i, (gas <= gas')%nat ->
  res_le (Set__loop1 f0 gas cmp l log i) (Set__loop1 f0 gas' cmp l log i).
Proof.
  induction gas; intros; [apply res_le_oof|]. destruct gas'; [lia|]. cbn [Set__loop1].
  mono. apply IHgas; lia.
Qed.

End Elem.

Section Queue.
Context {T : Type}.

Theorem C05_New_is_source : forall (c : T -> T -> Z),
  New c = (H.data (H.New T c), H.qcmp (H.New T c)).
Proof. reflexivity. Qed.

Theorem C05_NewWithData_is_source : forall (c : T -> T -> Z) (vs : list T) (fuel : nat),
  (S (S (length vs)) <= fuel)%nat ->
  res_le (embf reorder_ret (H.NewWithData T c vs)) (NewWithData c vs fuel).
Proof.
  intros c vs fuel Hf. unfold NewWithData, H.NewWithData. unfold heapify_start_new.
  change (H.len vs) with (zlen vs).
  set (i0 := Z.quot (zlen vs) 2).
  set (gm := S (S (length vs))) in *.
  pose proof (NewWithData_loop1_le c gm fuel vs [] i0 ltac:(lia)) as L.
  pose proof (NewWithData_loop1_mono c gm fuel fuel vs [] i0 Hf) as M.
  destruct (H.heapify_loop T c heapify_continue_new heapify_next_new gm vs i0) as [[l m]| |];
    cbn [emb bind heapify_out H.bind embf reorder_ret app H.data H.qcmp] in *.
  - destruct L as [L|L]; [discriminate|].
    destruct (NewWithData_loop1 fuel gm c vs [] i0) as [[[l' log'] i']| |]; cbn [bind] in L; try discriminate.
    inversion L; subst l' log'.
    destruct M as [M|M]; [discriminate|]. rewrite <- M. cbn [bind]. apply res_le_refl.
  - destruct L as [L|L]; [discriminate|].
    destruct (NewWithData_loop1 fuel gm c vs [] i0) as [[[l' log'] i']| |]; cbn [bind] in L; try discriminate.
    destruct M as [M|M]; [discriminate|]. rewrite <- M. cbn [bind]. inversion L; subst. apply res_le_refl.
  - apply res_le_oof.
Qed.

(* what is left of the backing array beyond the new q.data *)
Definition set_spare (old spare vs : list T) : list T :=
  if zlen old + zlen spare <? zlen vs then [] else skipn (Z.to_nat (zlen vs)) (old ++ spare).

Definition set_ret (old spare vs : list T) (r : H.queue T * H.moves T) : list T * list T * list (T * Z) :=
  let '(q, m) := r in (H.data q, set_spare old spare vs, m).

Theorem C05_Set_is_source : forall (q : H.queue T) (spare vs : list T) (zero : T) (fuel : nat),
  (S (length vs) <= fuel)%nat ->
  res_le (embf (set_ret (H.data q) spare vs) (H.Set_ T q vs))
         (Set_ (H.data q) spare (H.qcmp q) vs zero fuel).
Proof.
  intros q spare vs zero fuel Hf. unfold Set_, H.Set_, set_ret, set_spare. unfold set_start.
  change (H.len vs) with (zlen vs).
  set (old := H.data q). set (c := H.qcmp q).
  pose proof (zlen_nonneg vs) as Hv.
  (* after make / re-slice and copy, q.data is vs *)
  assert (Hcopy : forall d : list T, length d = length vs -> go_copy d vs = vs)
    by (intros; apply go_copy_same_length; assumption).
  set (gm := S (length vs)) in *.
  pose proof (Set_loop1_le c gm fuel vs [] (zlen vs - 1) ltac:(lia)) as L.
  pose proof (Set_loop1_mono c gm fuel fuel vs [] (zlen vs - 1) Hf) as M.
  destruct (zlen old + zlen spare <? zlen vs) eqn:Ecap.
  - unfold go_make_check. replace ((0 <=? zlen vs) && (zlen vs <=? zlen vs)) with true by lia.
    cbn [bind].
    rewrite Hcopy by (rewrite repeat_length; unfold zlen; lia).
    destruct (H.set_loop T c gm vs (zlen vs - 1)) as [[l m]| |];
      cbn [emb bind heapify_out H.bind embf app H.data] in *.
    + destruct L as [L|L]; [discriminate|].
      destruct (Set__loop1 fuel gm c vs [] (zlen vs - 1)) as [[[l' log'] i']| |]; cbn [bind] in L; try discriminate.
      inversion L; subst l' log'.
      destruct M as [M|M]; [discriminate|]. rewrite <- M. cbn [bind]. apply res_le_refl.
    + destruct L as [L|L]; [discriminate|].
      destruct (Set__loop1 fuel gm c vs [] (zlen vs - 1)) as [[[l' log'] i']| |]; cbn [bind] in L; try discriminate.
      destruct M as [M|M]; [discriminate|]. rewrite <- M. cbn [bind]. inversion L; subst. apply res_le_refl.
    + apply res_le_oof.
  - unfold go_reslice_cap.
    replace ((0 <=? zlen vs) && (zlen vs <=? zlen old + zlen spare)) with true by lia.
    cbn [bind].
    rewrite Hcopy.
    2:{ rewrite firstn_length, app_length. unfold zlen in *. lia. }
    destruct (H.set_loop T c gm vs (zlen vs - 1)) as [[l m]| |];
      cbn [emb bind heapify_out H.bind embf app H.data] in *.
    + destruct L as [L|L]; [discriminate|].
      destruct (Set__loop1 fuel gm c vs [] (zlen vs - 1)) as [[[l' log'] i']| |]; cbn [bind] in L; try discriminate.
      inversion L; subst l' log'.
      destruct M as [M|M]; [discriminate|]. rewrite <- M. cbn [bind]. apply res_le_refl.
    + destruct L as [L|L]; [discriminate|].
      destruct (Set__loop1 fuel gm c vs [] (zlen vs - 1)) as [[[l' log'] i']| |]; cbn [bind] in L; try discriminate.
      destruct M as [M|M]; [discriminate|]. rewrite <- M. cbn [bind]. inversion L; subst. apply res_le_refl.
    + apply res_le_oof.
Qed.

End Queue.

Print Assumptions C05_New_is_source.
Print Assumptions C05_NewWithData_is_source.
Print Assumptions C05_Set_is_source.
