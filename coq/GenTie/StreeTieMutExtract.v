(* stree: extract generated from the source against the model's extract / extract_fuel.

   Go receives a slice of pointers to nodes (New allocates one per key), picks the middle one as
   the root and links the results of the two recursive calls on the windows nodes[:mid] and
   nodes[mid+1:] into it IN PLACE; the windows are handed over by value (fn_heap_slicearg.go: the
   callee only measures and reads them).  The model builds the tree from the list of KEYS.  The
   tie: for pairwise distinct, allocated cells whose keys are the model's list (their child
   pointers are arbitrary: they are overwritten), the returned pointer represents the model's tree
   on exactly those cells (trepr, StreeSep.v), nothing is allocated and no other cell changes.  The
   model's index and slice panics are shown to be unreachable (mid is inside the list). *)
From Coq Require Import ZArith List Bool Arith Lia.
From Mds Require Import Gen.StreeConst Gen.StreeNode.
From Mds Require Import Common.FnRt Common.FnHeap GenTie.TieLib GenTie.StreeTieBase GenTie.StreeSep.
Import ListNotations.
Local Open Scope Z_scope.

Section Extract.
Context {T : Type}.
Notation tree := (SM.tree T).
Notation heap := (list (G.node T)).

(* the cells at [addrs] are allocated and hold the keys [keys], in order *)
Definition cells (h : heap) (addrs : list nat) (keys : list T) : Prop :=
  Forall2 (fun a k => exists c, nth_error h a = Some c /\ G.node_X c = k) addrs keys.

Lemma cells_agree h h' addrs keys : cells h addrs keys ->
  (forall a, In a addrs -> nth_error h' a = nth_error h a) -> cells h' addrs keys.
Proof.
  induction 1 as [|a k addrs keys [c [Hc Hx]] _ IH]; intros E; constructor.
  - exists c. rewrite E by (left; reflexivity). split; assumption.
  - apply IH. intros b Hb. apply E. right. exact Hb.
Qed.

Lemma cells_length h addrs keys : cells h addrs keys -> length addrs = length keys.
Proof. induction 1; cbn [length]; congruence. Qed.

Lemma nodup_app_inv (A1 A2 : list nat) : NoDup (A1 ++ A2) ->
  NoDup A1 /\ NoDup A2 /\ (forall k, In k A1 -> ~ In k A2).
Proof.
  induction A1 as [|b A1 IHA]; cbn [app]; intros Nd; [split; [constructor|split; [exact Nd|intros k []]]|].
  inversion Nd; subst. destruct (IHA H2) as [N1 [N2 D]]. split; [|split; [exact N2|]].
  - constructor; [intros X; apply H1, in_app_iff; left; exact X|exact N1].
  - intros k [<-|Hk]; [intros X; apply H1, in_app_iff; right; exact X|apply D; exact Hk].
Qed.

Definition ext_post (h : heap) (addrs : list nat) (t : tree) (x : option nat * heap) : Prop :=
  exists F', trepr (snd x) (fst x) t F' /\ incl F' addrs /\ incl addrs F' /\
             frame h (snd x) addrs /\ length (snd x) = length h.

Lemma mid_range (n : nat) : (0 < n)%nat ->
  let m := Z.quot (Z.of_nat n - 1) 2 in 0 <= m < Z.of_nat n.
Proof.
  intros Hn m. unfold m. rewrite Z.quot_div_nonneg by lia. split; [apply Z.div_pos; lia|].
  apply Z.div_lt_upper_bound; lia.
Qed.

Lemma extract_ok : forall (fm : nat) (keys : list T) (addrs : list nat) (h : heap) (fuel : nat),
  cells h addrs keys -> NoDup addrs -> (fuel > fm)%nat ->
  rel (ext_post h addrs) (SM.extract_fuel fm keys) (G.extract (map Some addrs) h fuel).
Proof.
  induction fm as [|fm IH]; intros keys addrs h fuel Hc Nd Hf; (destruct fuel as [|fuel]; [lia|]);
    cbn [SM.extract_fuel G.extract]; pose proof (cells_length h addrs keys Hc) as Hlen;
    unfold ext_empty, zlen; rewrite map_length, <- Hlen.
  - destruct (Z.of_nat (length addrs) =? 0) eqn:E0; [|exact I].
    apply Z.eqb_eq in E0. destruct addrs; [|cbn [length] in E0; lia].
    apply rel_ok. exists []. cbn [fst snd]. split; [constructor|]. repeat split; auto using incl_refl; apply frame_refl.
  - destruct (Z.of_nat (length addrs) =? 0) eqn:E0.
    { apply Z.eqb_eq in E0. destruct addrs; [|cbn [length] in E0; lia].
      apply rel_ok. exists []. cbn [fst snd]. split; [constructor|]. repeat split; auto using incl_refl; apply frame_refl. }
    apply Z.eqb_neq in E0. unfold ext_mid, ext_root_idx, ext_left_hi, ext_right_lo.
    pose proof (mid_range (length addrs) ltac:(lia)) as Hm. cbv zeta in Hm.
    set (m := Z.quot (Z.of_nat (length addrs) - 1) 2) in *.
    (* split both lists at mid *)
    destruct (nth_error addrs (Z.to_nat m)) as [a|] eqn:Ea; [|apply nth_error_None in Ea; lia].
    destruct (nth_error_split addrs (Z.to_nat m) Ea) as [A1 [A2 [EA L1]]].
    subst addrs. apply Forall2_app_inv_l in Hc. destruct Hc as [K1 [K2' [Hc1 [Hc2 EK]]]].
    inversion Hc2 as [|a0 x A2' K2 [c [Hca Hcx]] Hc2' Ea0 EK2]; subst a0 A2' K2' keys. clear Hc2.
    pose proof (cells_length _ _ _ Hc1) as LK1.
    assert (Nd1 : NoDup A1 /\ NoDup A2 /\ ~ In a A1 /\ ~ In a A2 /\ (forall k, In k A1 -> ~ In k A2)).
    { pose proof (NoDup_remove _ _ _ Nd) as [Nd' Na]. destruct (nodup_app_inv _ _ Nd') as [N1 [N2 D]].
      split; [exact N1|]. split; [exact N2|].
      split; [intros X; apply Na, in_app_iff; left; exact X|]. split; [intros X; apply Na, in_app_iff; right; exact X|exact D]. }
    destruct Nd1 as [NdA1 [NdA2 [Na1 [Na2 Hd]]]].
    (* the model's index and windows *)
    unfold SM.index_at, SM.slice_to, SM.slice_from.
    replace (m <? 0) with false by (symmetry; apply Z.ltb_ge; lia).
    replace (nth_error (K1 ++ x :: K2) (Z.to_nat m)) with (Some x)
      by (symmetry; rewrite nth_error_app2 by lia; replace (Z.to_nat m - length K1)%nat with O by lia; reflexivity).
    cbn [SM.bind]. rewrite <- ?Hlen.
    replace (Z.of_nat (length (A1 ++ a :: A2)) <? m) with false by (symmetry; apply Z.ltb_ge; lia).
    cbn [SM.bind orb].
    replace (firstn (Z.to_nat m) (K1 ++ x :: K2)) with K1
      by (rewrite firstn_app, firstn_all2 by lia; replace (Z.to_nat m - length K1)%nat with O by lia; cbn [firstn]; rewrite app_nil_r; reflexivity).
    (* the generated index and windows *)
    assert (Eget : go_get (map Some (A1 ++ a :: A2)) m = Ok (Some a)).
    { unfold go_get, zlen. rewrite map_length.
      replace ((0 <=? m) && (m <? Z.of_nat (length (A1 ++ a :: A2))))%bool with true
        by (symmetry; apply andb_true_iff; split; [apply Z.leb_le|apply Z.ltb_lt]; lia).
      rewrite nth_error_map, Ea. reflexivity. }
    rewrite Eget. cbn [bind].
    assert (Esub1 : go_sub (map Some (A1 ++ a :: A2)) 0 m = Ok (map Some A1)).
    { unfold go_sub, zlen. rewrite map_length.
      replace ((0 <=? 0) && (0 <=? m))%bool with true by (symmetry; apply andb_true_iff; split; apply Z.leb_le; lia).
      replace (m <=? Z.of_nat (length (A1 ++ a :: A2))) with true by (symmetry; apply Z.leb_le; lia).
      cbn [Z.to_nat skipn]. rewrite Z.sub_0_r, map_app, firstn_app, firstn_all2 by (rewrite map_length; lia).
      rewrite map_length. replace (Z.to_nat m - length A1)%nat with O by lia. cbn [firstn]. rewrite app_nil_r. reflexivity. }
    rewrite Esub1. cbn [bind].
    (* root.left = extract(nodes[:mid]) *)
    eapply rel_bind; [apply (IH K1 A1 h fuel Hc1 NdA1); lia|].
    intros l [t3 h1] [Fl [Rl [Il1 [Il2 [Frl Ll]]]]]. cbn [fst snd] in *.
    assert (Ha1 : nth_error h1 a = Some c).
    { destruct Frl as [_ Eo]. rewrite Eo; [exact Hca|apply nth_error_Some; rewrite Hca; discriminate|exact Na1]. }
    rewrite (hmod_some h1 a c _ Ha1). cbn [bind]. set (h2 := upd h1 a _).
    replace (m + 1 <? 0) with false by (symmetry; apply Z.ltb_ge; lia).
    replace (Z.of_nat (length (A1 ++ a :: A2)) <? m + 1) with false by (symmetry; apply Z.ltb_ge; lia).
    cbn [SM.bind orb].
    assert (Esk : forall (B : Type) (X1 : list B) y X2, length X1 = Z.to_nat m ->
              skipn (Z.to_nat (m + 1)) (X1 ++ y :: X2) = X2).
    { intros B X1 y X2 LX. replace (Z.to_nat (m + 1)) with (length X1 + 1)%nat by lia.
      rewrite skipn_app, skipn_all2 by lia. replace (length X1 + 1 - length X1)%nat with 1%nat by lia. reflexivity. }
    rewrite (Esk T K1 x K2) by lia.
    assert (Esub2 : go_sub (map Some (A1 ++ a :: A2)) (m + 1) (Z.of_nat (length (A1 ++ a :: A2))) = Ok (map Some A2)).
    { unfold go_sub, zlen. rewrite map_length.
      replace ((0 <=? m + 1) && (m + 1 <=? Z.of_nat (length (A1 ++ a :: A2))))%bool with true
        by (symmetry; apply andb_true_iff; split; apply Z.leb_le; lia).
      rewrite Z.leb_refl. rewrite map_app. cbn [map]. rewrite (Esk _ (map Some A1) (Some a) (map Some A2)) by (rewrite map_length; lia).
      rewrite firstn_all2; [reflexivity|]. rewrite map_length, app_length in *. cbn [length] in *. lia. }
    rewrite Esub2. cbn [bind].
    (* root.right = extract(nodes[mid+1:]) *)
    assert (Hc2h : cells h2 A2 K2).
    { apply (cells_agree h); [exact Hc2'|]. intros k Hk. unfold h2.
      rewrite nth_upd_other by (intros ->; contradiction).
      destruct Frl as [_ Eo]. apply Eo; [|intros X; apply (Hd k X Hk)].
      clear - Hc2' Hk. induction Hc2' as [|a1 k1 A K [c1 [H1 _]] _ IHc]; [contradiction|].
      destruct Hk as [<-|Hk]; [apply nth_error_Some; rewrite H1; discriminate|apply IHc; exact Hk]. }
    eapply rel_bind; [apply (IH K2 A2 h2 fuel Hc2h NdA2); lia|].
    intros r [t6 h3] [Fr [Rr [Ir1 [Ir2 [Frr Lr]]]]]. cbn [fst snd] in *.
    assert (L2 : length h2 = length h) by (unfold h2; rewrite upd_length; exact Ll).
    assert (Ba : (a < length h)%nat) by (apply nth_error_Some; rewrite Hca; discriminate).
    assert (Ha3 : nth_error h3 a = Some (G.mk_node (G.node_X c) t3 (G.node_right c))).
    { destruct Frr as [_ Eo]. rewrite Eo; [apply (upd_at h1 a c _ Ha1)|lia|exact Na2]. }
    rewrite (hmod_some h3 a _ _ Ha3). cbn [bind G.node_X G.node_left]. apply rel_ok. unfold ext_post. cbn [fst snd].
    exists (a :: Fl ++ Fr). split; [|split; [|split; [|split]]].
    + apply (trepr_mk _ a _ l r Fl Fr (upd_at h3 a _ _ Ha3)); cbn [G.node_left G.node_right G.node_X];
        [ |apply trepr_upd_out; [exact Rr|intros X; apply Na2, Ir1, X]|intros X; apply Na1, Il1, X|intros X; apply Na2, Ir1, X| |symmetry; exact Hcx].
      * apply trepr_upd_out; [|intros X; apply Na1, Il1, X].
        apply (trepr_frame h2 h3 _ _ _ _ (trepr_upd_out h1 t3 l Fl a _ Rl ltac:(intros X; apply Na1, Il1, X)) Frr).
        intros k Hk X. apply (Hd k (Il1 k Hk) X).
      * intros k Hk X. apply (Hd k (Il1 k Hk) (Ir1 k X)).
    + intros k Hk. pose proof (Il1 k). pose proof (Ir1 k). inl. tauto.
    + intros k Hk. pose proof (Il2 k). pose proof (Ir2 k). inl. tauto.
    + destruct Frl as [_ Eo1]. destruct Frr as [_ Eo2]. split; [rewrite upd_length; lia|]. intros k Hk Nk.
      rewrite nth_upd_other by (intros ->; apply Nk; inl; tauto).
      rewrite Eo2; [|lia|intros X; apply Nk; inl; tauto]. unfold h2.
      rewrite nth_upd_other by (intros ->; apply Nk; inl; tauto).
      apply Eo1; [exact Hk|intros X; apply Nk; inl; tauto].
    + rewrite upd_length. lia.
Qed.

(* func extract[T any](nodes []*node[T]) *node[T]; the model's own fuel is the length of the list *)
Theorem C01_extract_is_source : forall (keys : list T) (addrs : list nat) (h : heap) (fuel : nat),
  cells h addrs keys -> NoDup addrs -> (fuel > length keys)%nat ->
  rel (ext_post h addrs) (SM.extract keys) (G.extract (map Some addrs) h fuel).
Proof. intros keys addrs h fuel Hc Nd Hf. unfold SM.extract. apply extract_ok; assumption. Qed.

End Extract.

Print Assumptions C01_extract_is_source.
