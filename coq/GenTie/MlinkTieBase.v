(* The hand-written pointer-level model of mlink (Mlink/MlinkModel.v: mlink.go, list.go, queue.go)
   equals the functions the heap backend of the function translator generates from the Go source
   (Gen/FnMlink.v, regenerated on every run).

   Representation.  Both sides keep the entry[T] cells in a list indexed by address; allocation
   appends.  The model's cell is the pair (value, link) with link = Nil | Ptr a; the generated
   Record is [mk_entry X link] with link : option nat: [lenc]/[cenc]/[henc].  A *List[T] is the
   address of its embedded sentinel cell `first` (the List has no other field): the model keeps it
   at address 0, so the ties are stated at lst = Some 0.  A Cursor[T]{pred} is the Record
   [mk_Cursor pred]; methods on c *Cursor[T] take the field c.pred as the argument c_pred and hand
   it back when they assign it (receiver-field convention); the model's cursor state is
   (heap, pred) with pred an address (never nil): c_pred = Some pred.

   Results.  The model answers [Ok a s | Panic kind s | OutOfFuel | BadAddr]; [embf f] maps that
   onto FnRt.res: [Ok a s] onto [Ok (f a s)] (f picks what the generated function returns: the Go
   results, the new c.pred, the new heap), the panics onto the messages of the panic statements
   ("invalid cursor", "index out of range") resp. Go's nil-dereference panic, BadAddr (a dangling
   address) onto [PDangling].  The state at the moment of a panic is not compared. *)
From Coq Require Import ZArith List Bool Arith Lia.
From Mds Require Gen.MlinkFacts Gen.MlinkList Gen.MlinkQueue.
From Mds Require Import Mlink.MlinkModel.
From Mds Require Import Common.FnRt Common.FnHeap GenTie.TieLib.
From Mds Require Gen.FnMlink.
Import ListNotations.

Module G := FnMlink.

Notation MOk := MlinkModel.Ok.
Notation MPanic := MlinkModel.Panic.
Notation MFuel := MlinkModel.OutOfFuel.
Notation MBad := MlinkModel.BadAddr.
Notation mres := MlinkModel.res.
Notation mbind := MlinkModel.bind.

Definition pk (k : pkind) : panic_kind :=
  match k with
  | InvalidCursor => PMsg "invalid cursor"
  | IndexRange => PMsg "index out of range"
  | NilDeref => PNil
  end.

Definition lenc (l : link) : option nat := match l with Nil => None | Ptr a => Some a end.

Section Base.
Context {T : Type}.
Notation heap := (MlinkModel.heap T).
Notation cell := (MlinkModel.cell T).
Notation cst := (MlinkModel.cst T).

Definition cenc (c : cell) : G.entry T := G.mk_entry (fst c) (lenc (snd c)).
Definition henc (h : heap) : list (G.entry T) := map cenc h.

Definition embf {A B} (f : A -> cst -> B) (r : mres cst A) : res B :=
  match r with
  | MOk a s => Ok (f a s)
  | MPanic k _ => Panic (pk k)
  | MFuel => OutOfFuel
  | MBad => Panic PDangling
  end.

(* the state a model computation ends in (also at a panic) *)
Definition final {A} (r : mres cst A) (P : cst -> Prop) : Prop :=
  match r with
  | MOk _ s => P s
  | MPanic _ s => P s
  | _ => True
  end.

(* ---- pointers ---- *)
Lemma dec_enc l : dec (enc l) = l.
Proof.
  destruct l as [|a]; [reflexivity|]. unfold dec, enc.
  destruct (Z.of_nat a <? 0)%Z eqn:E; [apply Z.ltb_lt in E; lia|]. rewrite Nat2Z.id. reflexivity.
Qed.

Lemma dec_null : dec null = Nil.
Proof. reflexivity. Qed.

Lemma dec_nat a : dec (Z.of_nat a) = Ptr a.
Proof. apply (dec_enc (Ptr a)). Qed.

Lemma enc_null_eqb l : (enc l =? null)%Z = go_pnil (lenc l).
Proof. destruct l as [|a]; [reflexivity|]. unfold enc, null. cbn [lenc go_pnil]. apply Z.eqb_neq. lia. Qed.

Lemma enc_nat_eqb l a : (enc l =? Z.of_nat a)%Z = go_peq (lenc l) (Some a).
Proof.
  destruct l as [|b]; cbn [enc lenc go_peq].
  - apply Z.eqb_neq. unfold null. lia.
  - destruct (Nat.eqb b a) eqn:E.
    + apply Nat.eqb_eq in E. subst. apply Z.eqb_refl.
    + apply Nat.eqb_neq in E. apply Z.eqb_neq. lia.
Qed.

(* ---- the heap ---- *)
Lemma henc_length h : length (henc h) = length h.
Proof. apply map_length. Qed.

Lemma henc_nth h a : nth_error (henc h) a = option_map cenc (nth_error h a).
Proof. apply nth_error_map. Qed.

Lemma henc_upd h a c : (a < length h)%nat -> henc (MlinkModel.upd T h a c) = FnRt.upd (henc h) a (cenc c).
Proof.
  intros Ha. unfold MlinkModel.upd. rewrite hupd_firstn_skipn by (rewrite henc_length; exact Ha).
  unfold henc. rewrite map_app, firstn_map. cbn [map]. rewrite skipn_map. reflexivity.
Qed.

Lemma henc_app h c : henc (h ++ [c]) = henc h ++ [cenc c].
Proof. unfold henc. rewrite map_app. reflexivity. Qed.

Lemma nth_lt (h : heap) a c : nth_error h a = Some c -> (a < length h)%nat.
Proof. intros H. apply nth_error_Some. rewrite H. discriminate. Qed.

Lemma nth_ge (h : heap) a : nth_error h a = None -> (a <? length h)%nat = false.
Proof. intros H. apply Nat.ltb_ge. apply nth_error_None. exact H. Qed.

(* p.f: the generated read of the cell at a *)
Lemma hget_some h a : go_hget (henc h) (Some a) =
  match nth_error h a with Some c => Ok (cenc c) | None => Panic PDangling end.
Proof. unfold go_hget. rewrite henc_nth. destruct (nth_error h a); reflexivity. Qed.

(* p.f = e: the cell at a rebuilt *)
Lemma hmod_some h a gf : go_hmod (henc h) (Some a) gf =
  match nth_error h a with Some c => Ok (FnRt.upd (henc h) a (gf (cenc c))) | None => Panic PDangling end.
Proof. unfold go_hmod. rewrite henc_nth. destruct (nth_error h a); reflexivity. Qed.

(* the model's store of the whole cell *)
Lemma store_some h p a c c' : nth_error h a = Some c ->
  store T a c' (h, p) = MOk tt (MlinkModel.upd T h a c', p).
Proof. intros H. unfold store. cbn [fst snd]. rewrite (proj2 (Nat.ltb_lt _ _) (nth_lt h a c H)). reflexivity. Qed.

Lemma store_none h p a c' : nth_error h a = None -> store T a c' (h, p) = MBad.
Proof. intros H. unfold store. cbn [fst snd]. rewrite (nth_ge h a H). reflexivity. Qed.

End Base.

(* unfold one load / dereference of the model and the matching read of the generated code, and
   split on whether the address is in the heap *)
Ltac mread h a c E :=
  rewrite ?hget_some; unfold load; cbn [fst snd MlinkModel.bind];
  destruct (nth_error h a) as [c|] eqn:E; cbn [MlinkModel.bind bind fst snd embf option_map];
  [|try reflexivity; try apply res_le_refl].

Ltac fin := first [ reflexivity | exact I | apply res_le_refl | apply res_le_oof | (right; reflexivity) | (left; reflexivity) ].
