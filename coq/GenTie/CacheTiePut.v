(* Cache.Put of cache/cache.go: model = generated function (see CacheTieBase.v).
   The model gives the eviction loop a fuel of its own (one more than the heap holds after the
   replaced entry is removed: [put_fuel]); with at least that much fuel the generated function
   returns exactly the model's result whenever that is not CFuel (which C08's theorems exclude). *)
From Coq Require Import ZArith List Bool Lia.
From Mds Require Import Common.FnRt GenTie.TieLib Gen.FnCache Gen.CacheIdx GenTie.LruTieBase GenTie.CacheTieBase.
Import ListNotations.
Local Open Scope Z_scope.

Section Abs.
Context {K V : Type}.
Variable keqb : K -> K -> bool.
Variable kzero : K.
Variable vzero : V.
Variable sizeOf : V -> Z.
Variable hv : H.variant.

Notation lru := (C.lru K V).
Notation cache := (C.cache K V).

(* the fuel the model gives Put's loop: S (number of heap entries when the loop starts) *)
Definition put_fuel (c : cache) (k : K) : nat :=
  match C.lru_check K V keqb vzero (C.store c) k with
  | C.COk (_, true) =>
    match C.lru_remove K V keqb hv (C.store c) k with
    | C.COk s' => S (length (H.data (C.access s')))
    | _ => O
    end
  | _ => S (length (H.data (C.access (C.store c))))
  end.

Section Impl.
Context {St : Type}.
Variable rep : lru -> St.
Variable chk : St -> K -> res (V * bool * St).
Variable acc : St -> K -> res (V * bool * St).
Variable sto : St -> K -> V -> res St.
Variable rem : St -> K -> res St.
Variable evi : St -> res (K * V * St).
Hypothesis OK : store_ok keqb kzero vzero hv rep chk acc sto rem evi.

Let Hchk := proj1 OK.
Let Hsto := proj1 (proj2 (proj2 OK)).
Let Hrem := proj1 (proj2 (proj2 (proj2 OK))).
Let Hevi := proj2 (proj2 (proj2 (proj2 OK))).

(* for c.size > c.limit-valSize { ek, ev := c.store.Evict(); c.onEvict(ek, ev); c.count--; c.size -= c.sizeOf(ev) } *)
Lemma put_loop_le : forall (n fuel gas : nat) (s : lru) (cnt size lim valSize : Z) (log : list (K * V)),
  (n <= gas)%nat ->
  res_le (embf (fun '(s', cnt', size', log') => (rep s', size', cnt', log'))
               (C.put_evict_loop K V keqb sizeOf hv n s cnt size lim valSize log))
         (Put_loop1 fuel gas lim sizeOf evi valSize (rep s) size cnt log).
Proof.
  induction n as [|n IH]; intros fuel gas s cnt size lim valSize log G; [apply res_le_oof|].
  destruct gas as [|gas]; [lia|]. cbn [C.put_evict_loop Put_loop1].
  unfold CacheIdx.put_evict_continue. case_if; [|apply res_le_refl].
  rewrite Hevi. destruct (C.lru_evict K V keqb hv s) as [[s' [ek ev]]| |]; cbn [embf bind C.cbind snd];
    [|apply res_le_refl|apply res_le_refl].
  apply (IH fuel gas s'). lia.
Qed.

Theorem C08_put_is_source : forall (c : cache) (k : K) (v : V) (fuel : nat),
  (put_fuel c k <= fuel)%nat ->
  res_le (embf (fun '(c', b, log) => (b, rep (C.store c'), C.csize c', C.count c', C.limit c', log))
               (C.cache_put K V keqb vzero sizeOf hv c k v))
         (bind (Put (rep (C.store c)) (C.csize c) (C.limit c) (C.count c) sizeOf k v chk rem evi sto fuel)
               (fun '(b, st, size, cnt, log) => Ok (b, st, size, cnt, C.limit c, log))).
Proof.
  intros [s size cnt lim] k v fuel. unfold put_fuel, Put, C.cache_put. cbn [C.store C.csize C.count C.limit].
  unfold CacheIdx.put_refuse. case_if; intros F; [apply res_le_refl|].
  rewrite Hchk.
  destruct (C.lru_check K V keqb vzero s k) as [[old ok]| |]; cbn [embf bind C.cbind];
    [|apply res_le_refl|apply res_le_refl].
  (* after the replace branch: the same store, size, count and log on both sides *)
  assert (Tail : forall s1 size1 cnt1 log1, (S (length (H.data (C.access s1))) <= fuel)%nat ->
    res_le
      (embf (fun '(c', b, log) => (b, rep (C.store c'), C.csize c', C.count c', C.limit c', log))
        (C.cbind (C.put_evict_loop K V keqb sizeOf hv (S (length (H.data (C.access s1)))) s1 cnt1 size1 lim (sizeOf v) log1)
           (fun '(s2, cnt2, size2, log2) =>
              C.cbind (C.lru_store K V keqb hv s2 k v)
                (fun s3 => C.COk (C.Build_cache K V s3 (CacheIdx.put_final_size size2 (sizeOf v)) (CacheIdx.put_final_count cnt2) lim,
                                  CacheIdx.put_stored_result, log2)))))
      (bind
        (bind (Put_loop1 fuel fuel lim sizeOf evi (sizeOf v) (rep s1) size1 cnt1 log1)
           (fun '(c_store, c_size, c_count, onEvict_log) =>
              bind (sto c_store k v)
                (fun c_store0 => Ok (true, c_store0, c_size + sizeOf v, c_count + 1, onEvict_log))))
        (fun '(b, st, size0, cnt0, log) => Ok (b, st, size0, cnt0, lim, log)))).
  { intros s1 size1 cnt1 log1 G. rewrite bind_assoc.
    eapply embf_bind_le; [apply put_loop_le; exact G|].
    intros [[[s2 cnt2] size2] log2] _. cbn beta iota. rewrite Hsto.
    destruct (C.lru_store K V keqb hv s2 k v) as [s3| |]; apply res_le_refl. }
  destruct ok.
  - rewrite Hrem. destruct (C.lru_remove K V keqb hv s k) as [s1| |]; cbn [embf bind C.cbind];
      [|apply res_le_refl|apply res_le_refl].
    apply Tail; exact F.
  - cbn [bind]. apply Tail; exact F.
Qed.

End Impl.
End Abs.

Print Assumptions C08_put_is_source.
