(* Queue.Pop of queue/queue.go: model = generated function (see QueueTieBase.v) *)
From Coq Require Import ZArith List Bool Lia.
From Mds Require Import Common.FnRt GenTie.TieLib Gen.FnQueue Gen.QueueIdx GenTie.QueueTieBase.
Import ListNotations.
Local Open Scope Z_scope.

Section Queue.
Context {T : Type}.
Variable zero : T.
Notation queue := (Q.queue T).
Notation vs := (@Q.vs T).
Notation head := (@Q.head T).
Notation qn := (@Q.n T).
Notation rot := (@rot T).
Notation app_or := (app_or zero).
Notation grow_eq := (grow_eq zero).

Theorem C07_pop_is_source : forall (q : queue),
  Pop (vs q) (head q) (qn q) zero = embf pop_ret (Q.pop Q.idw T zero q).
Proof.
  intros [l h n]. unfold Pop, Q.pop. cbn [Q.vs Q.head Q.n]. qunf.
  case_if; [reflexivity|].
  rewrite get_eq. destruct (Q.idx T l h); cbn [bind Q.bind Q.of_opt embf]; [|reflexivity].
  case_if; cbn [bind Q.bind embf]; [reflexivity|].
  unfold go_rem, Q.checked_rem. change (Q.zlen T l) with (zlen l).
  destruct (zlen l =? 0); reflexivity.
Qed.

End Queue.

Print Assumptions C07_pop_is_source.
