(* C18 at source level: a state machine over any number of set variables whose operations CALL THE
   FUNCTIONS GENERATED from mapset/mapset.go (Gen/FnMapset.v) refines the mathematical sets of
   Mapset/MapsetSpec.v over whole histories, for every iteration order.

   The generated functions hand maps around BY CONTENT ([go_nmap T unit], None = the nil map); the
   model's maps also carry the address of the map object.  So:
   [gstore] = nat -> go_nmap T unit : the CONTENT of every variable (nil-ness and the entries in
              the order the list representation keeps them); WHICH object a variable holds is not
              part of this machine (it stays with C18_identity_history and the correspondence).
   [gstep eqb zero gst o] : the model's op type (variables by number, orders and argument lists in
              the op), its own out type [gout] (the model's out without addresses: GSet carries a
              content, GList the elements of a slice; a panic is GFail kind, fuel exhaustion GHang).
     ONew ONewSize OAdd OAddAll ORemove ORemoveAll OPop OClear OClone OIntersect OHas OHasAll OHasAny
     OLen OIsEmpty OIntersects OIsSubset OEquals OSlice OAppend : the generated function of that
              name, its map arguments the contents of the variables named, the op's order as its
              iteration-order oracle (one that is not an enumeration of the keys: GFail PBadOrder,
              state unchanged), fuel = 2 + the length of what its loop ranges over.  Mutators
              return (result, receiver after the call): the variable gets the latter, the output is
              the former.
     ONil     the assignment v_i = nil (no call).
     OKeys i keys   Keys(m) for the map m : map[T]struct{} whose keys are [keys], ranged over in the
              order [keys]; covered when [keys] is duplicate-free (else no map has that order).
     OValues i vals  Values(m) for the map m : map[int]T with m[k] = the k-th element of [vals]
              ([imap]), ranged over in the order 0, 1, ... ([iord]): its value sequence is [vals].
     ORange i it   the generated Range (tied in round 6, GenTie/MapsetTieRest.v): the iter.Seq argument is
              the sequence of values it yields ([Some items]; fuel 2 + its length), as in the model.  The
              nil iterator ([None]) is excluded by [src_op]: the generated function answers Go's
              nil-dereference panic (GFail PNil) where the model's embedded verdict is its own
              PanicNilFunc message (C18_range_nil_is_source states both).
     ORemoveAll i i : excluded ([src_op]): the generated RemoveAll takes two maps by content and knows
              nothing of s.RemoveAll(s) (C18_removeall_self stays model-level).  AddAll i i and the
              readers with i = j are covered (their ties hold for equal arguments). *)
From Coq Require Import ZArith List Bool Lia Permutation.
From Mds Require Import Common.FnRt GenTie.TieLib Gen.FnMapset GenTie.MapsetTieBase.
From Mds Require Import GenTie.MapsetTieRead GenTie.MapsetTieWrite GenTie.MapsetTieKeys GenTie.MapsetTieIntersect GenTie.MapsetTieRest.
From Mds Require Mapset.MapsetSpec Mapset.MapsetProofsHist Mapset.MapsetProofsId Props.C18.
Import ListNotations.
Local Open Scope Z_scope.

Module MS := MapsetSpec.
Module MH := MapsetProofsHist.
Module MI := MapsetProofsId.

Definition not_translated_kind : panic_kind := PMsg "not translated".

(* ---- a map given by its entry list with distinct keys: the facts Values' tie asks for ---- *)
Section EntryMaps.
Context {K V : Type}.
Variable keqb : K -> K -> bool.
Hypothesis keqb_ok : forall a b, keqb a b = true <-> a = b.

Lemma ex_key_false (l : list (K * V)) (k : K) : ~ In k (map fst l) ->
  existsb (fun e : K * V => keqb (fst e) k) l = false.
Proof.
  intros N. apply not_true_is_false. intros C. apply existsb_exists in C. destruct C as [e [I E]].
  apply keqb_ok in E. apply N. rewrite <- E. apply in_map; exact I.
Qed.

Lemma entries_len (l : list (K * V)) : NoDup (map fst l) -> go_map_len keqb l = zlen l.
Proof.
  induction l as [|[k v] l IH]; intros N; [reflexivity|]. cbn [map fst] in N. inversion N as [|? ? Nk Nl]; subst.
  cbn [go_map_len]. rewrite (ex_key_false l k Nk), IH by exact Nl. unfold zlen. cbn [length]. lia.
Qed.

Lemma keys_nodup (ks : list K) : NoDup ks -> go_keys_nodup keqb ks = true.
Proof.
  induction 1 as [|k ks Nk N IH]; [reflexivity|]. cbn [go_keys_nodup]. rewrite IH, andb_true_r.
  apply negb_true_iff, not_true_is_false. intros C. apply existsb_exists in C. destruct C as [x [I E]].
  apply keqb_ok in E. subst x. contradiction.
Qed.

Lemma entries_get (l : list (K * V)) : NoDup (map fst l) ->
  forall k v, In (k, v) l -> go_map_get keqb l k = Some v.
Proof.
  induction l as [|[k' v'] l IH]; intros N k v I; [contradiction|]. cbn [map fst] in N. inversion N as [|? ? Nk Nl]; subst.
  cbn [go_map_get]. destruct I as [I|I].
  - inversion I; subst. replace (keqb k k) with true by (symmetry; apply keqb_ok; reflexivity). reflexivity.
  - destruct (keqb k' k) eqn:E; [|exact (IH Nl k v I)].
    apply keqb_ok in E; subst k'. exfalso; apply Nk. change k with (fst (k, v)). apply in_map; exact I.
Qed.

Lemma entries_order_ok (l : go_map K V) : NoDup (map fst l) ->
  go_nmap_order_ok keqb (Some l) (map fst l) = true.
Proof.
  intros N. unfold go_nmap_order_ok, go_nmap_len. cbn [go_nmap_entries].
  rewrite (entries_len l N), (keys_nodup _ N). unfold zlen. rewrite map_length, Z.eqb_refl. cbn [andb].
  apply forallb_forall. intros k I. apply in_map_iff in I. destruct I as [[k' v] [E I]]. cbn [fst] in E; subst k'.
  unfold go_nmap_has. cbn [go_nmap_entries]. rewrite (entries_get l N k v I). reflexivity.
Qed.

Lemma entries_values (zero : V) (l : go_map K V) : NoDup (map fst l) ->
  map (go_nmap_get1 keqb zero (Some l)) (map fst l) = map snd l.
Proof.
  intros N. rewrite map_map. apply map_ext_in. intros [k v] I. cbn [fst snd].
  unfold go_nmap_get1, go_map_get1, go_map_get2. cbn [go_nmap_entries]. rewrite (entries_get l N k v I). reflexivity.
Qed.
End EntryMaps.

(* the map  0 -> v0, 1 -> v1, ...  : a map[int]T whose values in the order of the keys are [vals] *)
Definition iord {V : Type} (vals : list V) : list Z := map Z.of_nat (seq 0 (length vals)).
Definition imap {V : Type} (vals : list V) : go_map Z V := combine (iord vals) vals.

Lemma imap_fst {V} (vals : list V) : map fst (imap vals) = iord vals.
Proof.
  unfold imap. assert (L : length (iord vals) = length vals) by (unfold iord; rewrite map_length, seq_length; reflexivity).
  revert L. generalize (iord vals). induction vals as [|v vals IH]; intros [|k ks] L; try discriminate L; [reflexivity|].
  cbn [combine map fst]. f_equal. apply IH. inversion L; reflexivity.
Qed.
Lemma imap_snd {V} (vals : list V) : map snd (imap vals) = vals.
Proof.
  unfold imap. assert (L : length (iord vals) = length vals) by (unfold iord; rewrite map_length, seq_length; reflexivity).
  revert L. generalize (iord vals). induction vals as [|v vals IH]; intros [|k ks] L; try discriminate L; [reflexivity|].
  cbn [combine map snd]. f_equal. apply IH. inversion L; reflexivity.
Qed.
Lemma iord_nodup {V} (vals : list V) : NoDup (iord vals).
Proof.
  unfold iord. apply FinFun.Injective_map_NoDup; [intros a b H; lia | apply seq_NoDup].
Qed.

Section Src.
Context {T : Type}.
Variable eqb : T -> T -> bool.
Variable zero : T.

Notation gomap := (M.gomap T).
Notation nmap := (go_nmap T unit).

Inductive gout : Type :=
| GSet (m : nmap) | GBool (b : bool) | GInt (z : Z) | GElem (x : T) | GList (l : list T)
| GFail (k : panic_kind) | GHang.

Definition gstore := nat -> nmap.
Definition gstore0 : gstore := fun _ => None.
Definition gupd (g : gstore) (i : nat) (m : nmap) : gstore := fun k => if Nat.eqb k i then m else g k.

Definition gfail {A : Type} (r : res A) : gout :=
  match r with Panic k => GFail k | _ => GHang end.

(* a call that stores its result in v_i *)
Definition gassign (g : gstore) (i : nat) (r : res nmap) : gstore * gout :=
  match r with Ok m => (gupd g i m, GSet m) | _ => (g, gfail r) end.
(* a mutator: (the Go result, the receiver after the call) *)
Definition gmutate (g : gstore) (i : nat) (r : res (nmap * nmap)) : gstore * gout :=
  match r with Ok (ret, s') => (gupd g i s', GSet ret) | _ => (g, gfail r) end.
Definition gobserve {A : Type} (g : gstore) (r : res A) (f : A -> gout) : gstore * gout :=
  match r with Ok a => (g, f a) | _ => (g, gfail r) end.

Definition src_op (o : M.op T) : bool :=
  match o with
  | M.ORange _ _ it => match it with Some _ => true | None => false end
  | M.OKeys _ _ keys => M.nodupb T eqb keys
  | M.ORemoveAll _ i j _ => negb (Nat.eqb i j)
  | _ => true
  end.

Definition fl (n : nat) : nat := S (S n).

Definition gstep (g : gstore) (o : M.op T) : gstore * gout :=
  match o with
  | M.ONew _ i items => gassign g i (New items eqb (fl (length items)))
  | M.ONewSize _ i n => gassign g i (Ok (NewSize n))
  | M.ONil _ i => gassign g i (Ok None)
  | M.OAdd _ i items => gmutate g i (Add (g i) items eqb (fl (length items)))
  | M.OAddAll _ i j ord => gmutate g i (AddAll (g i) (g j) eqb ord (fl (length ord)))
  | M.ORemove _ i items => gmutate g i (Remove (g i) items eqb (fl (length items)))
  | M.ORemoveAll _ i j ord => gmutate g i (RemoveAll (g i) (g j) eqb ord (fl (length ord)))
  | M.OPop _ i ord =>
    match Pop (g i) eqb ord zero (fl (length ord)) with
    | Ok (x, s') => (gupd g i s', GElem x)
    | r => (g, gfail r)
    end
  | M.OClear _ i => gmutate g i (Ok (Clear (g i)))
  | M.OClone _ i j => gassign g i (Ok (Clone (g j)))
  | M.OIntersect _ i js ord => gassign g i (Intersect (map g js) eqb ord (fl (length ord + length js)))
  | M.ORange _ i it => gassign g i (Range it eqb (fl (match it with Some items => length items | None => O end)))
  | M.OKeys _ i keys => gassign g i (Keys (U := unit) (Some (ents keys)) eqb keys (fl (length keys)))
  | M.OValues _ i vals =>
    gassign g i (Values (T := Z) (Some (imap vals)) Z.eqb (iord vals) eqb zero (fl (length vals)))
  | M.OHas _ i x => (g, GBool (Has (g i) x eqb))
  | M.OHasAll _ i ts => gobserve g (HasAll (g i) ts eqb (fl (length ts))) GBool
  | M.OHasAny _ i ts => gobserve g (HasAny (g i) ts eqb (fl (length ts))) GBool
  | M.OLen _ i => (g, GInt (Len (g i) eqb))
  | M.OIsEmpty _ i => (g, GBool (IsEmpty (g i) eqb))
  | M.OIntersects _ i j ord => gobserve g (Intersects (g i) (g j) eqb ord (fl (length ord))) GBool
  | M.OIsSubset _ i j ord => gobserve g (IsSubset (g i) (g j) eqb ord (fl (length ord))) GBool
  | M.OEquals _ i j ord => gobserve g (Equals (g i) (g j) eqb ord (fl (length ord))) GBool
  | M.OSlice _ i ord => gobserve g (Slice (g i) ord eqb (fl (length ord))) GList
  | M.OAppend _ i vs ord => gobserve g (Append (g i) (M.sl_elems T vs) eqb ord (fl (length ord))) GList
  end.

Fixpoint grun (g : gstore) (ops : list (M.op T)) : gstore * list gout :=
  match ops with
  | [] => (g, [])
  | o :: r => let '(g1, x) := gstep g o in let '(g2, xs) := grun g1 r in (g2, x :: xs)
  end.

(* ---- the reference relation, on contents ---- *)
Definition gkeys (m : nmap) : list T := map fst (go_nmap_entries m).
Definition grel (m : nmap) (A : MS.rset T) : Prop :=
  NoDup (gkeys m) /\ NoDup A /\ forall x, In x (gkeys m) <-> In x A.
Definition gR (g : gstore) (sst : MS.sstore T) : Prop := forall i, grel (g i) (sst i).
Definition gout_ok (o : gout) (so : MS.sout T) : Prop :=
  match o, so with
  | GSet m, MS.SSet _ A => grel m A
  | GBool b, MS.SBool _ b' => b = b'
  | GInt z, MS.SInt _ z' => z = z'
  | GElem x, MS.SElem _ x' => x = x'
  | GList l, MS.SList _ pre A => exists l', l = pre ++ l' /\ Permutation l' A
  | _, _ => False
  end.

(* ---- the model's outputs without addresses ---- *)
Definition oshape (o : M.out T) : gout :=
  match o with
  | M.RSet _ m => GSet (forget m)
  | M.RBool _ b => GBool b
  | M.RInt _ z => GInt z
  | M.RElem _ x => GElem x
  | M.RSlice _ s => GList (M.sl_elems T s)
  | M.RPanicNilMap _ => gfail (embf (fun x : unit => x) M.PanicNilMap)
  | M.RPanicIndex _ => gfail (embf (fun x : unit => x) M.PanicIndex)
  | M.RPanicNilFunc _ => gfail (embf (fun x : unit => x) M.PanicNilFunc)
  | M.RBadOrder _ => GFail PBadOrder
  | M.RUnmodelled _ => gfail (embf (fun x : unit => x) M.Unmodelled)
  end.

Definition sim (g : gstore) (st : M.store T) : Prop := forall i, g i = forget (st i).

Hypothesis eqb_spec : forall x y, eqb x y = true <-> x = y.

Lemma sim_upd g st i m : sim g st -> sim (gupd g i (forget m)) (M.upd T st i m).
Proof. intros S k. unfold gupd, M.upd. destruct (Nat.eqb k i); [reflexivity | apply S]. Qed.

Lemma fail_shape {A B} (f : A -> B) (r : M.res A) : (forall a, r <> M.Ok a) ->
  oshape (M.fail_out T r) = gfail (embf f r).
Proof. intros N. destruct r; try reflexivity. exfalso; exact (N a eq_refl). Qed.

Lemma assign_sim g st i (r : M.res gomap) : sim g st ->
  sim (fst (gassign g i (embf forget r))) (fst (M.assign T st i r)) /\
  snd (gassign g i (embf forget r)) = oshape (snd (M.assign T st i r)).
Proof. intros S. destruct r; cbn; try (split; [exact S | reflexivity]). split; [apply sim_upd; exact S | reflexivity]. Qed.

Lemma mutate_sim g st i (r : M.res gomap) : sim g st ->
  sim (fst (gmutate g i (embf both r))) (fst (M.assign T st i r)) /\
  snd (gmutate g i (embf both r)) = oshape (snd (M.assign T st i r)).
Proof. intros S. destruct r; cbn; try (split; [exact S | reflexivity]). split; [apply sim_upd; exact S | reflexivity]. Qed.

Lemma observe_sim {A B} g st (r : M.res A) (f : A -> B) (h : A -> M.out T) (k : B -> gout) : sim g st ->
  (forall a, k (f a) = oshape (h a)) ->
  sim (fst (gobserve g (embf f r) k)) (fst (M.observe T st r h)) /\
  snd (gobserve g (embf f r) k) = oshape (snd (M.observe T st r h)).
Proof. intros S E. destruct r; cbn; try (split; [exact S | reflexivity]). split; [exact S | apply E]. Qed.

Lemma ok_inj {A} (a b : A) : Ok a = Ok b -> a = b.
Proof. intros H; inversion H; reflexivity. Qed.

(* one step: the ties assembled.  [W]: every variable holds a duplicate-free key list (a theorem
   for every reachable store); [D]: two different variables never hold the same map object. *)
Theorem gstep_sim : forall (g : gstore) (st : M.store T) (next : positive) (o : M.op T),
  sim g st -> (forall i, wf (st i)) ->
  (forall i j, i <> j -> M.same_map T (st i) (st j) = false) ->
  src_op o = true ->
  sim (fst (gstep g o)) (fst (M.step T eqb zero st next o)) /\
  snd (gstep g o) = oshape (snd (M.step T eqb zero st next o)).
Proof.
  intros g st next o Sg W D Ho. pose proof (fun i => W i) as W'.
  destruct o; try discriminate Ho; cbn [gstep M.step]; unfold fl; rewrite ?Sg.
  - rewrite (C18_new_is_source eqb eqb_spec next items) by lia. apply assign_sim; exact Sg.
  - rewrite (C18_newsize_is_source next n). apply assign_sim; exact Sg.
  - apply (assign_sim g st i (M.Ok None)); exact Sg.
  - rewrite (C18_add_is_source eqb eqb_spec (st i) next items) by lia. apply mutate_sim; exact Sg.
  - rewrite (C18_addall_is_source eqb eqb_spec (st i) (st j) next ord) by (try apply W; lia). apply mutate_sim; exact Sg.
  - rewrite (C18_remove_is_source eqb eqb_spec (st i) items) by (try apply W; lia). apply mutate_sim; exact Sg.
  - cbn [src_op] in Ho. apply negb_true_iff, Nat.eqb_neq in Ho.
    rewrite (C18_removeall_is_source eqb eqb_spec (st i) (st j) ord) by (try apply W; try (apply D; exact Ho); lia).
    apply mutate_sim; exact Sg.
  - rewrite (C18_pop_is_source eqb eqb_spec zero (st i) ord) by (try apply W; lia).
    destruct (M.Pop T eqb zero (st i) ord) as [[s' x]| | | | |]; cbn; try (split; [exact Sg | reflexivity]).
    split; [apply sim_upd; exact Sg | reflexivity].
  - rewrite (C18_clear_is_source (st i)). apply mutate_sim; exact Sg.
  - rewrite (C18_clone_is_source (st j) next). apply assign_sim; exact Sg.
  - replace (map g js) with (map forget (map st js)) by (rewrite map_map; apply map_ext; intros a; symmetry; apply Sg).
    rewrite (C18_intersect_is_source eqb eqb_spec (map st js) next ord)
      by (try (intros s Hs; apply in_map_iff in Hs; destruct Hs as [k [<- _]]; apply W); rewrite ?map_length; lia).
    apply assign_sim; exact Sg.
  - destruct it as [items|]; [|discriminate Ho].
    rewrite (C18_range_is_source eqb eqb_spec items next (S (S (length items)))) by lia.
    apply assign_sim; exact Sg.
  - cbn [src_op] in Ho. apply MapsetProofs.nodupb_NoDup in Ho; [|exact eqb_spec].
    assert (Wk : wf (Some (1%positive, keys))) by exact Ho.
    assert (Ok_ : go_nmap_order_ok eqb (Some (ents keys)) keys = true).
    { change (Some (ents keys)) with (forget (Some (1%positive, keys))).
      rewrite (order_ok_eq eqb eqb_spec _ keys Wk). apply (MapsetProofs.valid_order_keys T eqb eqb_spec _ Wk). }
    rewrite (C18_keys_is_source eqb eqb_spec (Some (ents keys)) keys next (S (S (length keys))) Ok_) by lia.
    apply assign_sim; exact Sg.
  - assert (Nv : NoDup (map fst (imap vals))) by (rewrite imap_fst; apply iord_nodup).
    pose proof (C18_values_is_source Z.eqb eqb eqb_spec zero (Some (imap vals)) (map fst (imap vals)) next (S (S (length vals)))
                  (entries_order_ok Z.eqb Z.eqb_eq (imap vals) Nv)) as E.
    rewrite (entries_values Z.eqb Z.eqb_eq zero (imap vals) Nv), imap_snd, imap_fst in E.
    rewrite E; [apply assign_sim; exact Sg | | lia].
    unfold iord. rewrite map_length, seq_length. lia.
  - pose proof (C18_has_is_source eqb eqb_spec (st i) x) as E. unfold M.Has in *.
    split; [exact Sg|]. cbn [M.observe snd].
    destruct (M.guarded _ _) eqn:G; cbn [embf] in E; try discriminate E. apply ok_inj in E. cbn [M.observe snd oshape]. f_equal. exact E.
  - rewrite (C18_hasall_is_source eqb eqb_spec (st i) ts) by (try apply W; lia). apply observe_sim; [exact Sg | reflexivity].
  - rewrite (C18_hasany_is_source eqb eqb_spec (st i) ts) by (try apply W; lia). apply observe_sim; [exact Sg | reflexivity].
  - pose proof (C18_len_is_source eqb eqb_spec (st i) (W i)) as E.
    split; [exact Sg|]. cbn [M.observe snd].
    destruct (M.Len T (st i)) eqn:G; cbn [embf] in E; try discriminate E. apply ok_inj in E. cbn [M.observe snd oshape]. f_equal. exact E.
  - pose proof (C18_isempty_is_source eqb eqb_spec (st i) (W i)) as E.
    split; [exact Sg|]. cbn [M.observe snd].
    destruct (M.IsEmpty T (st i)) eqn:G; cbn [embf] in E; try discriminate E. apply ok_inj in E. cbn [M.observe snd oshape]. f_equal. exact E.
  - rewrite (C18_intersects_is_source eqb eqb_spec (st i) (st j) ord) by (try apply W; lia). apply observe_sim; [exact Sg | reflexivity].
  - rewrite (C18_issubset_is_source eqb eqb_spec (st i) (st j) ord) by (try apply W; lia). apply observe_sim; [exact Sg | reflexivity].
  - rewrite (C18_equals_is_source eqb eqb_spec (st i) (st j) ord) by (try apply W; lia). apply observe_sim; [exact Sg | reflexivity].
  - rewrite (C18_slice_is_source eqb eqb_spec zero (st i) ord) by (try apply W; lia). apply observe_sim; [exact Sg | reflexivity].
  - rewrite (C18_append_is_source eqb eqb_spec (st i) vs ord) by (try apply W; lia). apply observe_sim; [exact Sg | reflexivity].
Qed.

(* ---- whole histories ---- *)
Lemma distinct_of_ids (st : M.store T) (next : positive) : MI.ids_ok T st next ->
  forall i j, i <> j -> M.same_map T (st i) (st j) = false.
Proof.
  intros [_ H] i j N. unfold M.same_map.
  destruct (st i) as [[p l]|] eqn:E; [|reflexivity].
  cbn [M.m_ptr negb andb]. change (Z.pos p =? M.nil_ptr) with false. cbn [negb andb].
  apply Z.eqb_neq. intros C. apply N. apply H; [rewrite E; discriminate | rewrite E; exact C].
Qed.

Lemma wf_of_R (st : M.store T) (sst : MS.sstore T) : MH.R T st sst -> forall i, wf (st i).
Proof. intros HR i. destruct (HR i) as [N _]. exact N. Qed.

Theorem grun_sim : forall (ops : list (M.op T)) (g : gstore) (st : M.store T) (next : positive) (sst : MS.sstore T),
  sim g st -> MH.R T st sst -> MI.ids_ok T st next -> forallb src_op ops = true ->
  sim (fst (grun g ops)) (fst (M.run T eqb zero st next ops)) /\
  snd (grun g ops) = map oshape (snd (M.run T eqb zero st next ops)).
Proof.
  induction ops as [|o r IH]; intros g st next sst Sg HR Hid Hs; [split; [exact Sg | reflexivity]|].
  cbn [forallb] in Hs. apply andb_prop in Hs. destruct Hs as [Ho Hr].
  destruct (gstep_sim g st next o Sg (wf_of_R st sst HR) (distinct_of_ids st next Hid) Ho) as [S1 O1].
  destruct (MI.step_identity T eqb zero eqb_spec st next sst o HR Hid) as [_ Hid1].
  cbn [grun M.run].
  destruct (gstep g o) as [g1 x] eqn:Eg. destruct (M.step T eqb zero st next o) as [st1 y] eqn:Em.
  cbn [fst snd] in S1, O1, Hid1.
  assert (HR1 : exists sst1, MH.R T st1 sst1).
  { pose proof (MH.step_refines T eqb zero eqb_spec st next sst o HR) as G. unfold MH.good_step in G.
    rewrite Em in G. cbn [fst snd] in G. destruct G as [B|[G _]].
    - pose proof (MH.step_badorder_state T eqb zero st next o) as Bs. rewrite Em in Bs. cbn [fst snd] in Bs.
      rewrite (Bs B). exists sst; exact HR.
    - eexists; exact G. }
  destruct HR1 as [sst1 HR1].
  specialize (IH g1 st1 (M.bump next) sst1 S1 HR1 Hid1 Hr).
  destruct (grun g1 r) as [g2 xs]. destruct (M.run T eqb zero st1 (M.bump next) r) as [st2 ys].
  cbn [fst snd map] in *. destruct IH as [I1 I2]. split; [exact I1 | rewrite O1, I2; reflexivity].
Qed.

(* from the model's relations to the relations on contents *)
Lemma gkeys_forget (m : gomap) : gkeys (forget m) = M.m_keys T m.
Proof.
  unfold gkeys. rewrite forget_entries. unfold ents. rewrite map_map. cbn [fst]. apply map_id.
Qed.

Lemma grel_of_rel (m : gomap) (A : MS.rset T) : MH.rel T m A -> grel (forget m) A.
Proof. unfold MH.rel, grel. rewrite gkeys_forget. exact (fun H => H). Qed.

Lemma gout_ok_of_out_ok (o : M.out T) (so : MS.sout T) :
  so <> MS.SPanicNilFunc T -> MH.out_ok T o so -> gout_ok (oshape o) so.
Proof.
  intros N K. destruct o, so; cbn [MH.out_ok oshape gout_ok] in *; try contradiction; try exact K;
    try (apply grel_of_rel; exact K); try (exfalso; apply N; reflexivity).
Qed.

Lemma sstep_no_nilfunc (sst : MS.sstore T) (o : M.op T) : src_op o = true ->
  snd (MS.sstep T eqb zero sst o) <> MS.SPanicNilFunc T.
Proof.
  destruct o; try match goal with it : option (list T) |- _ => destruct it end;
    cbn [src_op MS.sstep MS.sassign snd]; try discriminate; intros _; try discriminate.
  destruct (sst i) as [|a A]; [discriminate|]. destruct ord as [|x ord]; [discriminate|].
  destruct (MS.s_mem T eqb x (a :: A)); discriminate.
Qed.

Lemma gouts_ok : forall (ops : list (M.op T)) (sst : MS.sstore T) (outs : list (M.out T)),
  forallb src_op ops = true ->
  Forall2 (MH.out_ok T) outs (snd (MS.srun T eqb zero sst ops)) ->
  Forall2 gout_ok (map oshape outs) (snd (MS.srun T eqb zero sst ops)).
Proof.
  induction ops as [|o r IH]; intros sst outs Hs F; cbn [MS.srun] in *.
  - cbn [snd] in *. inversion F; subst. constructor.
  - cbn [forallb] in Hs. apply andb_prop in Hs. destruct Hs as [Ho Hr].
    pose proof (sstep_no_nilfunc sst o Ho) as N.
    destruct (MS.sstep T eqb zero sst o) as [sst1 x]. specialize (IH sst1).
    destruct (MS.srun T eqb zero sst1 r) as [sst2 xs]. cbn [fst snd] in *.
    inversion F as [|y x' ys xs' K F']; subst. cbn [map]. constructor.
    + apply gout_ok_of_out_ok; assumption.
    + apply IH; assumption.
Qed.

Lemma badorder_shape (outs : list (M.out T)) :
  In (M.RBadOrder T) outs <-> In (GFail PBadOrder) (map oshape outs).
Proof.
  split.
  - intros H. apply in_map_iff. exists (M.RBadOrder T). split; [reflexivity | exact H].
  - intros H. apply in_map_iff in H. destruct H as [o [E I]].
    destruct o; cbn [oshape gfail embf] in E; try discriminate E; exact I.
Qed.

(* composition with C18_history *)
Theorem history_source : forall (ops : list (M.op T)) (g : gstore) (st : M.store T) (next : positive) (sst : MS.sstore T),
  sim g st -> MH.R T st sst -> MI.ids_ok T st next -> forallb src_op ops = true ->
  ~ In (GFail PBadOrder) (snd (grun g ops)) ->
  gR (fst (grun g ops)) (fst (MS.srun T eqb zero sst ops)) /\
  Forall2 gout_ok (snd (grun g ops)) (snd (MS.srun T eqb zero sst ops)).
Proof.
  intros ops g st next sst Sg HR Hid Hs Hb.
  destruct (grun_sim ops g st next sst Sg HR Hid Hs) as [S1 O1].
  rewrite O1 in Hb |- *. rewrite <- badorder_shape in Hb.
  destruct (C18.C18_history T eqb zero eqb_spec ops st next sst HR Hb) as [R1 F1].
  split.
  - intros i. rewrite (S1 i). apply grel_of_rel. apply R1.
  - apply gouts_ok; assumption.
Qed.

Theorem history_source_from_nil : forall (ops : list (M.op T)),
  forallb src_op ops = true ->
  ~ In (GFail PBadOrder) (snd (grun gstore0 ops)) ->
  gR (fst (grun gstore0 ops)) (fst (MS.srun T eqb zero (MS.sstore0 T) ops)) /\
  Forall2 gout_ok (snd (grun gstore0 ops)) (snd (MS.srun T eqb zero (MS.sstore0 T) ops)).
Proof.
  intros ops Hs Hb.
  apply (history_source ops gstore0 (M.store0 T) M.next0 (MS.sstore0 T)); try assumption.
  - intros i; reflexivity.
  - apply MH.R0.
  - apply MI.ids_ok0.
Qed.

End Src.
