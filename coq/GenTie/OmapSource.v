(* omap at the level of the GENERATED code: a state machine whose steps call the functions the
   translator produces from omap/omap.go (Gen/FnOmap.v), each given the functions generated from
   stree's source for the Tree methods it calls (OmapTieBase.v).

   State: the Tree object behind m.m ([gst (K * V)]: node heap, t.root, t.size, t.max); the Map is
   one made by NewFunc (m.m != nil, flag false), which starts as the EMPTY tree with beta =
   omap_beta on any heap h0 (NewFunc itself is not translated: stree.New is not).
   Operations: Set, Delete, Clear, GetOK, Get, Len, Keys (the nil-ness of the slice Keys returns is
   not represented: nil and empty are both []) and Iter s ms: a fresh iterator started by the
   generated Map.First / Last / Seek, moved by the generated Iter.Next / Prev / Seek and observed by
   the generated IsValid / Key / Value at the start and after every move (the model's OIter).  A failing call
   would leave the object as it was and answer GoPanic / GoFuel; the theorem says none does.

   omap_step_sim: one step answers what the model's [OM.step] answers and re-establishes osim
   (the per-function ties of OmapTieRead/Write composed); omap_run_sim by induction;
   omap_history_source: composed with omap_history (C04_history): every output of every history
   of the generated code = the output of the key-sorted association list of Omap/OmapSpec.v. *)
From Coq Require Import ZArith List Bool Arith Lia.
From Mds Require Import Common.FnRt Common.FnHeap GenTie.TieLib GenTie.StreeTieBase GenTie.StreeSep
  GenTie.StreeSource GenTie.StreeSourceSim GenTie.StreeTieCursor GenTie.StreeSourceCursor
  GenTie.OmapTieBase GenTie.OmapTieRead GenTie.OmapTieWrite GenTie.OmapTieIter GenTie.OmapTieSeq GenTie.OmapTieFirst.
From Mds Require Gen.FnOmap Omap.OmapModel Omap.OmapSpec Omap.OmapProofs Gen.OmapConst.
Import ListNotations.
Local Open Scope Z_scope.

Module OS := OmapSpec.

Inductive gop (K V : Type) : Type :=
| GSet (k : K) (v : V)
| GDelete (k : K)
| GClear
| GGetOK (k : K)
| GGet (k : K)
| GLen
| GKeys
| GIter (s : OM.istart K) (ms : list (OM.imove K)).
Arguments GSet {K V} k v.
Arguments GDelete {K V} k.
Arguments GClear {K V}.
Arguments GGetOK {K V} k.
Arguments GGet {K V} k.
Arguments GLen {K V}.
Arguments GKeys {K V}.
Arguments GIter {K V} s ms.

Inductive gres (K V : Type) : Type :=
| GoBool (b : bool)
| GoUnit
| GoGetOK (v : V) (ok : bool)
| GoGet (v : V)
| GoInt (z : Z)
| GoKeys (ks : list K)
| GoIter (obs : list (bool * K * V))
| GoPanic (k : panic_kind)
| GoFuel.
Arguments GoBool {K V} b.
Arguments GoUnit {K V}.
Arguments GoGetOK {K V} v ok.
Arguments GoGet {K V} v.
Arguments GoInt {K V} z.
Arguments GoKeys {K V} ks.
Arguments GoIter {K V} obs.
Arguments GoPanic {K V} k.
Arguments GoFuel {K V}.

(* the model's operation a source-level operation stands for (Get is GetOK's value) *)
Definition to_mop {K V : Type} (o : gop K V) : OM.op K V :=
  match o with
  | GSet k v => OM.OSet k v
  | GDelete k => OM.ODelete k
  | GClear => OM.OClear
  | GGetOK k | GGet k => OM.OGetOK k
  | GLen => OM.OLen
  | GKeys => OM.OKeys
  | GIter s ms => OM.OIter s ms
  end.

(* an output of the model / the reference in Go's return conventions *)
Definition oview {K V : Type} (o : gop K V) (x : OM.out K V) : gres K V :=
  match x with
  | OM.RBool r => GoBool r
  | OM.RUnit => GoUnit
  | OM.RGet v ok => match o with GGet _ => GoGet v | _ => GoGetOK v ok end
  | OM.RInt z => GoInt z
  | OM.RKeys ks => GoKeys (match ks with Some l => l | None => [] end)
  | OM.RIter os => GoIter os
  | _ => GoFuel
  end.

Fixpoint oviews {K V : Type} (ops : list (gop K V)) (xs : list (OM.out K V)) : list (gres K V) :=
  match ops, xs with
  | o :: r, x :: xr => oview o x :: oviews r xr
  | _, _ => []
  end.

Section Machine.
Context {K V : Type}.
Variable kcmp : K -> K -> Z.
Variable limit : Z -> Z -> Z.
Variable zk : K.
Variable zv : V.
Variable b : Z.
Notation kv := (K * V)%type.

Definition fin {A : Type} (st : gst kv) (r : res (A * gst kv)) (f : A -> gres K V) : gst kv * gres K V :=
  match r with
  | Ok (a, st') => (st', f a)
  | Panic k => (st, GoPanic k)
  | OutOfFuel => (st, GoFuel)
  end.

(* ---- a fresh iterator: started by the generated Map_First / Map_Last / Map_Seek, observed by the
   generated IsValid / Key / Value after the start and after every move (generated Next_ / Prev /
   Iter.Seek); the Tree object each call hands back is the one the next call gets ---- *)
Notation cst := (bool * list (option nat))%type.
Definition nilc : cst := (true, []).

Definition g_obs (st : gst kv) (c : cst) : res (bool * K * V) :=
  do (v, c1) <- O.IsValid c c_Valid;
  do (k, c2) <- O.Key c1 (c_Key zk zv (g_heap st));
  do (x, _) <- O.Value c2 (c_Key zk zv (g_heap st));
  Ok (v, k, x).

Definition g_start (st : gst kv) (s : OM.istart K) : res (gst kv * cst) :=
  let h := g_heap st in let fuel := fuel_for (g_size st) in
  match s with
  | OM.IFirst => O.Map_First st nilc nilc false g_Root (c_Min h fuel)
  | OM.ILast => O.Map_Last st nilc nilc false g_Root (c_Max h fuel)
  | OM.ISeek k => O.Map_Seek st nilc k nilc false g_Root (c_Min h fuel) (g_InorderAfter kcmp) (g_Cursor kcmp) zv fuel
  end.

Definition g_move (st : gst kv) (c : cst) (mv : OM.imove K) : res (gst kv * cst) :=
  let h := g_heap st in let fuel := fuel_for (g_size st) in
  match mv with
  | OM.INext => do c' <- O.Next_ c (c_Next h fuel); Ok (st, c')
  | OM.IPrev => do c' <- O.Prev c (c_Prev h fuel); Ok (st, c')
  | OM.IReseek k => O.Seek st c k nilc false (g_InorderAfter kcmp) (g_Cursor kcmp) zv fuel
  end.

Fixpoint g_moves (st : gst kv) (c : cst) (ms : list (OM.imove K)) : res (gst kv * list (bool * K * V)) :=
  match ms with
  | [] => Ok (st, [])
  | mv :: r =>
    do (st1, c1) <- g_move st c mv;
    do o <- g_obs st1 c1;
    do (st2, os) <- g_moves st1 c1 r;
    Ok (st2, o :: os)
  end.

Definition g_iter (st : gst kv) (s : OM.istart K) (ms : list (OM.imove K)) : res (list (bool * K * V) * gst kv) :=
  do (st1, c) <- g_start st s;
  do o <- g_obs st1 c;
  do (st2, os) <- g_moves st1 c ms;
  Ok (o :: os, st2).

Definition ostep (st : gst kv) (o : gop K V) : gst kv * gres K V :=
  match o with
  | GSet k v => fin st (O.Set_ st k v (g_Replace kcmp limit zk zv b)) GoBool
  | GDelete k => fin st (O.Delete st k false (g_Remove kcmp zk zv b) zv) GoBool
  | GClear => fin st (do s <- O.Clear st false g_Clear; Ok (tt, s)) (fun _ => GoUnit)
  | GGetOK k => fin st (O.GetOK st k false (g_Get kcmp zk zv) zv) (fun r => GoGetOK (fst r) (snd r))
  | GGet k => fin st (O.Get st k false (g_Get kcmp zk zv) zv) GoGet
  | GLen => fin st (O.Len st false g_Len) GoInt
  | GKeys => fin st (O.Keys st false g_Len g_Inorder (fuel_for (g_size st))) GoKeys
  | GIter s ms => fin st (g_iter st s ms) GoIter
  end.

Fixpoint orun (st : gst kv) (ops : list (gop K V)) : list (gres K V) :=
  match ops with
  | [] => []
  | o :: r => let '(st', x) := ostep st o in x :: orun st' r
  end.

End Machine.

Section Sim.
Context {K V : Type}.
Variable kcmp : K -> K -> Z.
Hypothesis HK : SP.total_preorder kcmp.
Variable limit : Z -> Z -> Z.
Variable zk : K.
Variable zv : V.
Variable b : Z.
Variable h0 : list (G.node (K * V)).
Notation kv := (K * V)%type.
Notation osim := (osim kcmp b h0).
Notation ostep := (ostep kcmp limit zk zv b).
Notation orun := (orun kcmp limit zk zv b).
Notation mstep := (OM.step K V kcmp limit zk zv).

(* ---- iterators ---- *)
Notation cst := (bool * list (option nat))%type.
Definition cinv (st : gst kv) (t : SM.Tree kv) (c : CM.cursor) (p : cst) : Prop :=
  crepr (g_heap st) (g_root st) c (fst p) (snd p) /\ cwf (SM.root t) c.

Lemma obs_sim (st : gst kv) (t : SM.Tree kv) c p :
  osim false st (Some t) -> cinv st t c p ->
  exists o, OM.iobs K V zk zv (Some t) c = SM.Ok o /\ g_obs zk zv st p = Ok o.
Proof.
  intros [_ [[_ [_ [_ [F [R _]]]]] _]] [Cr W]. destruct p as [n ps]. cbn [fst snd] in Cr.
  pose proof (trepr_repr _ _ _ _ R) as Rr.
  destruct (key_tie zk zv (g_heap st) (g_root st) (Some t) c n ps Rr Cr W) as [k [M1 G1]].
  destruct (value_tie zk zv (g_heap st) (g_root st) (Some t) c n ps Rr Cr W) as [v [M2 G2]].
  exists (OM.ivalid c, k, v). unfold OM.iobs, g_obs. rewrite M1, M2.
  rewrite (isvalid_tie (g_heap st) (g_root st) c n ps Cr). cbn [bind]. rewrite G1. cbn [bind]. rewrite G2.
  split; reflexivity.
Qed.

Lemma start_sim (st : gst kv) (t : SM.Tree kv) (s : OM.istart K) :
  osim false st (Some t) ->
  exists c p, OM.istart_run K V kcmp zv (Some t) s = SM.Ok c /\ g_start kcmp zv st s = Ok (st, p) /\ cinv st t c p.
Proof.
  intros Hs. unfold cinv. destruct s as [| |k]; cbn [OM.istart_run g_start].
  - destruct (first_tie kcmp zk zv b h0 false st (Some t) (true, []) Hs) as [c [n [ps [M [G1 [Cr W]]]]]].
    exists c, (n, ps). repeat split; assumption.
  - destruct (last_tie kcmp zk zv b h0 false st (Some t) (true, []) Hs) as [c [n [ps [M [G1 [Cr W]]]]]].
    exists c, (n, ps). repeat split; assumption.
  - destruct (mapseek_tie kcmp HK zk zv b h0 false st (Some t) (true, []) k (fuel_for (g_size st)) Hs
                ltac:(unfold fuel_for; lia)) as [c [n [ps [M [G1 [Cr W]]]]]].
    exists c, (n, ps). repeat split; assumption.
Qed.

Lemma move_sim (st : gst kv) (t : SM.Tree kv) c p (mv : OM.imove K) :
  osim false st (Some t) -> cinv st t c p ->
  exists c' p', OM.imove_run K V kcmp zv (Some t) c mv = SM.Ok c' /\ g_move kcmp zv st p mv = Ok (st, p') /\ cinv st t c' p'.
Proof.
  intros Hs [Cr W]. destruct p as [n ps]. cbn [fst snd] in Cr. unfold cinv.
  destruct mv as [| |k]; cbn [OM.imove_run g_move].
  - destruct Hs as [_ [[Esz [_ [_ [F [R _]]]]] [l Hr]]]. pose proof (rel_depth (OM.kvcmp K V kcmp) t l Hr) as Hd.
    destruct (@cstep_sim kv (zk, zv) (g_heap st) (g_root st) (SM.root t) F c n ps CM.MNext (fuel_for (g_size st)) R Cr W
                ltac:(rewrite Esz; unfold fuel_for, OM.kv in *; lia)) as [c' [ps' [M [G1 [Cr' W']]]]].
    exists c', (n, ps'). cbn [CM.step cstep] in M, G1. unfold OM.inext, O.Next_, c_Next. cbn [fst snd OM.mtree].
    unfold OM.kv in *. rewrite M, G1. repeat split; assumption.
  - destruct Hs as [_ [[Esz [_ [_ [F [R _]]]]] [l Hr]]]. pose proof (rel_depth (OM.kvcmp K V kcmp) t l Hr) as Hd.
    destruct (@cstep_sim kv (zk, zv) (g_heap st) (g_root st) (SM.root t) F c n ps CM.MPrev (fuel_for (g_size st)) R Cr W
                ltac:(rewrite Esz; unfold fuel_for, OM.kv in *; lia)) as [c' [ps' [M [G1 [Cr' W']]]]].
    exists c', (n, ps'). cbn [CM.step cstep] in M, G1. unfold OM.iprev, O.Prev, c_Prev. cbn [fst snd OM.mtree].
    unfold OM.kv in *. rewrite M, G1. repeat split; assumption.
  - destruct (seek_tie kcmp HK zv b h0 false st (Some t) (n, ps) k (fuel_for (g_size st)) Hs
                ltac:(unfold fuel_for; lia)) as [c' [n' [ps' [M [G1 [Cr' W']]]]]].
    exists c', (n', ps'). repeat split; assumption.
Qed.

Lemma moves_sim (st : gst kv) (t : SM.Tree kv) (ms : list (OM.imove K)) : forall c p,
  osim false st (Some t) -> cinv st t c p ->
  exists os, OM.imoves_run K V kcmp zk zv (Some t) c ms = SM.Ok os /\ g_moves kcmp zk zv st p ms = Ok (st, os).
Proof.
  induction ms as [|mv r IH]; intros c p Hs Hc; [exists []; split; reflexivity|].
  cbn [OM.imoves_run g_moves].
  destruct (move_sim st t c p mv Hs Hc) as [c' [p' [M1 [G1 Hc']]]]. rewrite M1, G1. cbn [SM.bind bind].
  destruct (obs_sim st t c' p' Hs Hc') as [o [M2 G2]]. rewrite M2, G2. cbn [SM.bind bind].
  destruct (IH c' p' Hs Hc') as [os [M3 G3]]. rewrite M3, G3. exists (o :: os). split; reflexivity.
Qed.

Lemma iter_sim (st : gst kv) (t : SM.Tree kv) s ms :
  osim false st (Some t) ->
  exists os, OM.iter_run K V kcmp zk zv (Some t) s ms = SM.Ok os /\ g_iter kcmp zk zv st s ms = Ok (os, st).
Proof.
  intros Hs. unfold OM.iter_run, g_iter.
  destruct (start_sim st t s Hs) as [c [p [M1 [G1 Hc]]]]. rewrite M1, G1. cbn [SM.bind bind].
  destruct (obs_sim st t c p Hs Hc) as [o [M2 G2]]. rewrite M2, G2. cbn [SM.bind bind].
  destruct (moves_sim st t ms c p Hs Hc) as [os [M3 G3]]. rewrite M3, G3. exists (o :: os). split; reflexivity.
Qed.

Lemma omap_step_sim (st : gst kv) (t : SM.Tree kv) (o : gop K V) :
  osim false st (Some t) ->
  exists st' t', ostep st o = (st', oview o (snd (mstep (Some t) (to_mop o)))) /\
                 fst (mstep (Some t) (to_mop o)) = Some t' /\ osim false st' (Some t').
Proof.
  intros Hs. destruct o as [k v|k| |k|k| | |s ms]; cbn [to_mop OM.step OmapSource.ostep].
  - destruct (set_tie kcmp HK limit zk zv b h0 st t k v Hs) as [t' [bb [st' [M [G1 Hs']]]]].
    rewrite M, G1. exists st', t'. split; [reflexivity|]. split; [reflexivity|exact Hs'].
  - destruct (delete_tie kcmp HK zk zv b h0 false st (Some t) k Hs) as [m' [bb [st' [M [G1 Hs']]]]].
    rewrite M, G1. destruct m' as [t'|]; [|discriminate Hs'].
    exists st', t'. split; [reflexivity|]. split; [reflexivity|exact Hs'].
  - destruct (clear_tie kcmp b h0 false st (Some t) Hs) as [st' [G1 Hs']]. rewrite G1.
    exists st', (SM.Clear t). split; [reflexivity|]. split; [reflexivity|exact Hs'].
  - rewrite (getok_tie kcmp zk zv b h0 false st (Some t) k Hs).
    destruct (OM.mget_ok K V kcmp zv (Some t) k) as [v ok]. exists st, t. split; [reflexivity|]. split; [reflexivity|exact Hs].
  - rewrite (get_tie kcmp zk zv b h0 false st (Some t) k Hs). unfold OM.mget.
    destruct (OM.mget_ok K V kcmp zv (Some t) k) as [v ok]. exists st, t. split; [reflexivity|]. split; [reflexivity|exact Hs].
  - rewrite (len_tie kcmp b h0 false st (Some t) Hs).
    exists st, t. split; [reflexivity|]. split; [reflexivity|exact Hs].
  - destruct (keys_tie kcmp b h0 false st (Some t) Hs) as [r [M G1]]. rewrite M, G1.
    exists st, t. split; [reflexivity|]. split; [reflexivity|exact Hs].
  - destruct (iter_sim st t s ms Hs) as [os [M G1]]. rewrite M, G1.
    exists st, t. split; [reflexivity|]. split; [reflexivity|exact Hs].
Qed.

Lemma omap_run_sim (ops : list (gop K V)) : forall (st : gst kv) (t : SM.Tree kv),
  osim false st (Some t) ->
  orun st ops = oviews ops (OM.run_from K V kcmp limit zk zv (Some t) (map to_mop ops)).
Proof.
  induction ops as [|o r IH]; intros st t Hs; [reflexivity|].
  cbn [OmapSource.orun map OM.run_from].
  destruct (omap_step_sim st t o Hs) as [st' [t' [E1 [E2 Hs']]]]. rewrite E1.
  destruct (mstep (Some t) (to_mop o)) as [m' x]. cbn [fst snd] in *. subst m'.
  cbn [oviews]. f_equal. apply IH. exact Hs'.
Qed.

End Sim.

(* the Map NewFunc builds: the empty tree with beta = omap_beta, on any heap *)
Theorem omap_history_source {K V : Type} (kcmp : K -> K -> Z) (HK : SP.total_preorder kcmp)
  (limit : Z -> Z -> Z) (zk : K) (zv : V) (h0 : list (G.node (K * V))) (ops : list (gop K V)) :
  orun kcmp limit zk zv OmapConst.omap_beta (ginit h0) ops =
  oviews ops (OS.spec_run_from K V kcmp zk zv (Some []) (map to_mop ops)).
Proof.
  destruct (OmapProofs.omap_history K V kcmp HK limit zk zv (map to_mop ops)) as [[m0 [N R]] _].
  assert (E : m0 = Some (SM.mkTree SM.Leaf OmapConst.omap_beta 0 0)).
  { assert (OM.new_func K V kcmp = SM.Ok (Some (SM.mkTree SM.Leaf OmapConst.omap_beta 0 0))) by reflexivity.
    congruence. }
  subst m0. rewrite <- R. apply (omap_run_sim kcmp HK limit zk zv OmapConst.omap_beta h0).
  split; [reflexivity|]. split; [apply sim_init|]. exists []. apply rel_empty.
Qed.
