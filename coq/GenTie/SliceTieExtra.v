(* Zero and MapKeys of slice/slice.go (outside property C17; models in Slice/SliceUtilExtraModel.v):
   model = generated function (see SliceTieBase.v). *)
From Coq Require Import ZArith List Bool Lia.
From Mds Require Import Common.FnRt GenTie.TieLib Gen.FnSlice GenTie.SliceTieBase.
From Mds Require Slice.SliceUtilExtraModel.
Import ListNotations.
Local Open Scope Z_scope.

Module X := SliceUtilExtraModel.

(* ---------------------------------------------------------------- Zero
   for i := range vs { vs[i] = zero }: the model counts len(vs) stores down, the generated loop
   counts i up to the limit evaluated once. *)
Lemma zero_loop1_eq : forall {T : Type} (count gas f0 : nat) (zero : T) (lim : Z) (l : list T) (i : Z),
  Z.of_nat count = lim - i -> (count < gas)%nat ->
  bind (Zero_loop1 f0 gas zero lim l i) (fun '(vs, _) => Ok vs) = emb (X.zero_loop count l i zero).
Proof.
  induction count as [|c IH]; intros gas f0 zero lim l i Hc Hg; (destruct gas as [|gas]; [lia|]); cbn [Zero_loop1 X.zero_loop].
  - replace (i <? lim) with false by lia. reflexivity.
  - replace (i <? lim) with true by lia. rewrite set_eq.
    destruct (M.set l i zero) as [l'| |]; cbn [emb bind M.bind]; try reflexivity.
    apply IH; lia.
Qed.

Theorem C17_zero_is_source : forall (T : Type) (zero : T) (l : list T) (fuel : nat),
  (length l < fuel)%nat -> Zero l zero fuel = emb (X.zero_impl zero l).
Proof.
  intros T zero l fuel Hf. unfold Zero, X.zero_impl. cbv zeta.
  rewrite <- (zero_loop1_eq (length l) fuel fuel zero (zlen l) l 0) by (unfold zlen; lia).
  destruct (Zero_loop1 fuel fuel zero (zlen l) l 0) as [[vs i]| |]; reflexivity.
Qed.

(* ---------------------------------------------------------------- MapKeys
   The model takes the map as the list of its entries in the order the runtime iterates them; the
   generated function takes the map and that order as an oracle (validated by go_nmap_order_check).
   For a map with distinct keys and its own order as the oracle the two agree; nil and the empty
   result are both [] on the generated side (lists have no nil). *)
Section MapKeys.
Context {K U : Type}.
Variable eqb : K -> K -> bool.
Hypothesis eqb_ok : forall a b, eqb a b = true <-> a = b.

Lemma eqb_false a b : a <> b -> eqb a b = false.
Proof. intros N. destruct (eqb a b) eqn:E; [apply eqb_ok in E; contradiction|reflexivity]. Qed.

Lemma existsb_key_false (k : K) (r : list (K * U)) : ~ In k (map fst r) -> existsb (fun e => eqb (fst e) k) r = false.
Proof.
  induction r as [|[k' x] r IH]; intros N; cbn [existsb fst]; [reflexivity|].
  cbn [map fst In] in N. rewrite eqb_false by tauto. cbn [orb]. apply IH. tauto.
Qed.

Lemma map_len_nodup (kvs : list (K * U)) : NoDup (map fst kvs) -> go_map_len eqb kvs = zlen kvs.
Proof.
  induction kvs as [|[k x] r IH]; intros N; [reflexivity|].
  cbn [map fst] in N. inversion N as [|? ? Nk Nr]; subst.
  cbn [go_map_len]. rewrite existsb_key_false by exact Nk. rewrite IH by exact Nr.
  unfold zlen. cbn [length]. lia.
Qed.

Lemma keys_nodup (l : list K) : NoDup l -> go_keys_nodup eqb l = true.
Proof.
  induction 1 as [|k l Nk _ IH]; cbn [go_keys_nodup]; [reflexivity|].
  rewrite IH, andb_true_r. apply negb_true_iff.
  clear IH. induction l as [|y l IHl]; [reflexivity|]. cbn [existsb].
  rewrite eqb_false by (intros ->; apply Nk; left; reflexivity). cbn [orb].
  apply IHl. intros I; apply Nk; right; exact I.
Qed.

Lemma has_key (kvs : list (K * U)) k : In k (map fst kvs) -> go_nmap_has eqb (Some kvs) k = true.
Proof.
  unfold go_nmap_has, go_nmap_entries.
  induction kvs as [|[k' x] r IH]; intros I; [destruct I|]. cbn [go_map_get].
  destruct (eqb k' k) eqn:E; [reflexivity|].
  apply IH. cbn [map fst In] in I. destruct I as [->|I]; [|exact I].
  rewrite (proj2 (eqb_ok k k) eq_refl) in E. discriminate.
Qed.

Lemma skipn_nth_cons {A} (l : list A) p x : nth_error l p = Some x -> skipn p l = x :: skipn (S p) l.
Proof.
  revert l. induction p as [|p IH]; intros [|y l] E; cbn in E; try discriminate.
  - inversion E; subst. reflexivity.
  - cbn [skipn]. apply IH. exact E.
Qed.

Lemma mapkeys_loop1_ok (m : list (K * U)) (ord : list K) :
  (forall k, In k ord -> go_nmap_has eqb (Some m) k = true) ->
  forall (n gas f0 : nat) (keys : list K) (r : Z),
  Z.of_nat n = zlen ord - r -> 0 <= r -> (n < gas)%nat ->
  MapKeys_loop1 f0 gas (Some m) eqb ord (zlen ord) keys r = Ok (keys ++ skipn (Z.to_nat r) ord, zlen ord).
Proof.
  intros Hh. induction n as [|n IH]; intros gas f0 keys r Hn Hr Hg; (destruct gas as [|gas]; [lia|]); cbn [MapKeys_loop1].
  - replace (r <? zlen ord) with false by lia.
    rewrite skipn_all2 by (unfold zlen in *; lia). rewrite app_nil_r. f_equal. f_equal. lia.
  - replace (r <? zlen ord) with true by lia.
    unfold go_get. replace ((0 <=? r) && (r <? zlen ord)) with true by lia.
    destruct (nth_error ord (Z.to_nat r)) as [key|] eqn:E.
    2:{ apply nth_error_None in E. unfold zlen in *. lia. }
    cbn [bind]. rewrite Hh by (eapply nth_error_In; exact E). cbn [negb].
    rewrite IH by lia. f_equal. f_equal.
    rewrite <- app_assoc. f_equal. cbn [app].
    replace (Z.to_nat (r + 1)) with (S (Z.to_nat r)) by lia.
    symmetry. apply skipn_nth_cons. exact E.
Qed.

Theorem C17_mapkeys_is_source : forall (kvs : list (K * U)) (fuel : nat),
  NoDup (map fst kvs) -> (length kvs < fuel)%nat ->
  MapKeys (Some kvs) eqb (map fst kvs) fuel
    = Ok (match X.map_keys kvs with None => [] | Some ks => ks end)
  /\ MapKeys (@None (go_map K U)) eqb [] fuel = Ok [].
Proof.
  intros kvs fuel N Hf. split; [|reflexivity].
  unfold MapKeys, X.map_keys, go_nmap_len, go_nmap_entries.
  rewrite (map_len_nodup kvs N). change (M.zlen kvs) with (zlen kvs).
  destruct (zlen kvs =? 0) eqn:E0; [reflexivity|].
  unfold go_make_check. replace ((0 <=? 0) && (0 <=? zlen kvs)) with true by (unfold zlen; lia). cbn [bind].
  unfold go_nmap_order_check, go_nmap_order_ok, go_nmap_len, go_nmap_entries.
  rewrite (map_len_nodup kvs N), (keys_nodup _ N).
  assert (Zm : zlen (map fst kvs) = zlen kvs) by (unfold zlen; rewrite map_length; reflexivity).
  rewrite Zm, Z.eqb_refl. cbn [andb].
  assert (Hh : forall k, In k (map fst kvs) -> go_nmap_has eqb (Some kvs) k = true) by (intros k; apply has_key).
  replace (forallb (go_nmap_has eqb (Some kvs)) (map fst kvs)) with true
    by (symmetry; apply forallb_forall; exact Hh).
  cbn [bind].
  rewrite <- Zm.
  rewrite (mapkeys_loop1_ok kvs (map fst kvs) Hh (length kvs) fuel fuel [] 0)
    by (unfold zlen; rewrite ?map_length; lia).
  reflexivity.
Qed.
End MapKeys.

Print Assumptions C17_zero_is_source.
Print Assumptions C17_mapkeys_is_source.
