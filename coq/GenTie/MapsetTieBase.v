(* The hand-written model of mapset/mapset.go (Mapset/MapsetModel.v) equals the functions
   generated from the Go source (Gen/FnMapset.v, regenerated on every run).

   Representation.  The generated functions work on [go_nmap T unit] = option (list (T * unit)):
   None is the nil map.  The model's [gomap] = option (address * keys) carries, next to the keys,
   the ADDRESS of the map object (which map a function returns: the receiver, an argument, a fresh
   one).  The generated code hands maps around by content, so the ties are stated through
   [forget], which drops the address: the same nil-ness and the same keys in the same list order.
   Which object is returned stays with the model's ret1/ret2 anchors and the C18 identity theorems.
   Two map arguments are taken to be different objects (the generated RemoveAll/AddAll know nothing
   of s.RemoveAll(s)): the ties of the two-set functions are about [same_map s t = false] where
   that matters (RemoveAll).

   Iteration order: the model takes the order of every `range` over a map as an argument [ord]
   and answers BadOrder unless it is a duplicate-free enumeration of the keys; the generated
   functions take the same list as their oracle argument ord_<m> and answer [Panic PBadOrder]:
   the ties are equalities for EVERY ord, valid or not.

   Hypotheses of the ties: [eqb] decides equality (Go's == on a comparable type), the maps are
   [wf] (duplicate-free key lists: MapsetProofs shows every reachable map is), and the fuel
   exceeds the number of loop rounds. *)
From Coq Require Import ZArith List Bool Lia.
From Mds Require Import Common.FnRt GenTie.TieLib Gen.FnMapset Gen.MapsetFacts.
From Mds Require Mapset.MapsetModel Mapset.MapsetProofs.
Import ListNotations.
Local Open Scope Z_scope.

Module M := MapsetModel.
Module MP := MapsetProofs.

Definition embf {A B : Type} (f : A -> B) (r : M.res A) : res B :=
  match r with
  | M.Ok a => Ok (f a)
  | M.PanicNilMap => Panic PNilMap
  | M.PanicIndex => Panic PIndex
  | M.PanicNilFunc => Panic (PMsg "<model> call of a nil function")
  | M.BadOrder => Panic PBadOrder
  | M.Unmodelled => Panic (PMsg "<model> the statement skeleton is not the one modelled")
  end.

Lemma embf_bind {A B D} (m : M.res A) (k : A -> M.res B) (f : B -> D) :
  embf f (M.bind m k) = bind (embf (fun a => a) m) (fun a => embf f (k a)).
Proof. destruct m; reflexivity. Qed.

Lemma called_1 {A} (n : Z) (yes no : A) : n = 1 -> M.called n yes no = yes.
Proof. intros ->; reflexivity. Qed.

(* rewriting with the anchors of the source as generated on this run *)
Ltac anchors :=
  repeat first
    [ rewrite MP.guarded_ok by reflexivity
    | rewrite MP.ret1_ok by reflexivity
    | rewrite MP.ret2_fst by reflexivity
    | rewrite MP.ret2_snd by reflexivity
    | rewrite called_1 by reflexivity ].

(* ---- a `for i, x := range l` loop of the generated code, seen from the list that remains ---- *)
Lemma skipn_cons_get {A} (l : list A) r x rest : 0 <= r -> skipn (Z.to_nat r) l = x :: rest ->
  (r <? zlen l) = true /\ go_get l r = Ok x /\ skipn (Z.to_nat (r + 1)) l = rest.
Proof.
  intros R E.
  assert (G : forall (n : nat) (l : list A), skipn n l = x :: rest ->
            (n < length l)%nat /\ nth_error l n = Some x /\ skipn (S n) l = rest).
  { induction n as [|n IH]; intros [|a l'] H; cbn in *; try discriminate.
    - inversion H; subst. repeat split. lia.
    - destruct (IH l' H) as [L [N S']]. repeat split; [lia | exact N | exact S']. }
  destruct (G _ _ E) as [L [N S']].
  assert (B : (r <? zlen l) = true) by (unfold zlen; apply Z.ltb_lt; lia).
  repeat split; [exact B | | ].
  - unfold go_get. rewrite B. replace (0 <=? r) with true by (symmetry; apply Z.leb_le; lia). cbn [andb]. rewrite N. reflexivity.
  - replace (Z.to_nat (r + 1)) with (S (Z.to_nat r)) by lia. exact S'.
Qed.

Lemma skipn_nil_end {A} (l : list A) r : 0 <= r -> skipn (Z.to_nat r) l = [] -> (r <? zlen l) = false.
Proof.
  intros R E. apply Z.ltb_ge. unfold zlen.
  assert (length (skipn (Z.to_nat r) l) = 0%nat) by (rewrite E; reflexivity).
  rewrite skipn_length in H. lia.
Qed.

Section Elem.
Context {T : Type}.
Variable eqb : T -> T -> bool.
Hypothesis eqb_spec : forall x y, eqb x y = true <-> x = y.

Notation gomap := (M.gomap T).
Notation mem := (M.mem T eqb).

Definition ents (l : list T) : go_map T unit := map (fun x => (x, tt)) l.
Definition forget (m : gomap) : go_nmap T unit :=
  match m with None => None | Some (_, l) => Some (ents l) end.
Definition wf (m : gomap) : Prop := NoDup (M.m_keys T m).

Lemma eqb_refl x : eqb x x = true.
Proof. apply eqb_spec; reflexivity. Qed.
Lemma eqb_sym x y : eqb x y = eqb y x.
Proof.
  destruct (eqb x y) eqn:E, (eqb y x) eqn:F; try reflexivity.
  - apply eqb_spec in E; subst. rewrite eqb_refl in F; discriminate.
  - apply eqb_spec in F; subst. rewrite eqb_refl in E; discriminate.
Qed.

Lemma forget_entries m : go_nmap_entries (forget m) = ents (M.m_keys T m).
Proof. destruct m as [[p l]|]; reflexivity. Qed.

Lemma get_ents l x : go_map_get eqb (ents l) x = if mem x l then Some tt else None.
Proof.
  induction l as [|a l IH]; [reflexivity|]. cbn [ents map go_map_get M.mem existsb].
  rewrite (eqb_sym a x). destruct (eqb x a); [reflexivity|]. exact IH.
Qed.

Lemma has_eq m x : go_nmap_has eqb (forget m) x = M.m_get T eqb m x.
Proof.
  unfold go_nmap_has, M.m_get. rewrite forget_entries, get_ents. destruct (mem x _); reflexivity.
Qed.

Lemma get2_eq m x : go_nmap_get2 eqb tt (forget m) x = (tt, M.m_get T eqb m x).
Proof.
  unfold go_nmap_get2, go_map_get2, M.m_get. rewrite forget_entries, get_ents. destruct (mem x _); reflexivity.
Qed.

Lemma set_ents l x : go_map_set eqb (ents l) x tt = ents (if mem x l then l else l ++ [x]).
Proof.
  induction l as [|a l IH]; [reflexivity|].
  change (ents (a :: l)) with ((a, tt) :: ents l). cbn [go_map_set].
  change (mem x (a :: l)) with (eqb x a || mem x l).
  rewrite (eqb_sym a x). destruct (eqb x a) eqn:E; cbn [orb]; [reflexivity|].
  rewrite IH. destruct (mem x l); reflexivity.
Qed.

Lemma set_eq m x : go_nmap_set eqb (forget m) x tt = embf forget (M.m_set T eqb m x).
Proof. destruct m as [[p l]|]; [|reflexivity]. cbn [forget go_nmap_set M.m_set embf]. rewrite set_ents. reflexivity. Qed.

Lemma del_ents l x : go_map_del eqb (ents l) x = ents (filter (fun y => negb (eqb x y)) l).
Proof.
  induction l as [|a l IH]; [reflexivity|]. cbn [ents map go_map_del filter].
  rewrite (eqb_sym a x). destruct (eqb x a); cbn [negb]; [exact IH|]. cbn [ents map]. f_equal. exact IH.
Qed.

Lemma del_eq m x : go_nmap_del eqb (forget m) x = forget (M.m_delete T eqb m x).
Proof. destruct m as [[p l]|]; [|reflexivity]. cbn [forget go_nmap_del M.m_delete]. rewrite del_ents. reflexivity. Qed.

Lemma len_ents l : NoDup l -> go_map_len eqb (ents l) = Z.of_nat (length l).
Proof.
  induction 1 as [|a l N D IH]; [reflexivity|]. cbn [ents map go_map_len fst length].
  fold (ents l). rewrite IH.
  assert (E : existsb (fun e : T * unit => eqb (fst e) a) (ents l) = false).
  { apply not_true_is_false. intros C. apply existsb_exists in C. destruct C as [[y u] [I E]].
    unfold ents in I. apply in_map_iff in I. destruct I as [z [Ez Iz]]. inversion Ez; subst.
    cbn in E. apply eqb_spec in E; subst. contradiction. }
  rewrite E. lia.
Qed.

Lemma len_eq m : wf m -> go_nmap_len eqb (forget m) = M.m_len T m.
Proof. intros W. unfold go_nmap_len, M.m_len. rewrite forget_entries. apply len_ents; exact W. Qed.

Lemma nodup_eq l : go_keys_nodup eqb l = M.nodupb T eqb l.
Proof. induction l as [|a l IH]; [reflexivity|]. cbn. rewrite IH. reflexivity. Qed.

Lemma order_ok_eq m ord : wf m -> go_nmap_order_ok eqb (forget m) ord = M.valid_order T eqb ord m.
Proof.
  intros W. unfold go_nmap_order_ok, M.valid_order. rewrite len_eq by exact W. rewrite nodup_eq.
  unfold M.m_len, zlen.
  replace (Z.of_nat (length ord) =? Z.of_nat (length (M.m_keys T m))) with (Nat.eqb (length ord) (length (M.m_keys T m))).
  2:{ destruct (Nat.eqb_spec (length ord) (length (M.m_keys T m))) as [E|E]; symmetry; [apply Z.eqb_eq | apply Z.eqb_neq]; lia. }
  f_equal. induction ord as [|x ord IH]; [reflexivity|]. cbn [forallb]. rewrite has_eq, IH. reflexivity.
Qed.

Lemma order_check_eq {A} m ord (k : res A) : wf m ->
  bind (go_nmap_order_check eqb (forget m) ord) (fun _ => k)
  = if M.valid_order T eqb ord m then k else Panic PBadOrder.
Proof. intros W. unfold go_nmap_order_check. rewrite order_ok_eq by exact W. destruct (M.valid_order _ _ _ _); reflexivity. Qed.

Lemma isnil_eq m : go_nmap_isnil (forget m) = Z.eqb (M.m_ptr T m) M.nil_ptr.
Proof. destruct m as [[p l]|]; reflexivity. Qed.

Lemma wf_delete m x : wf m -> wf (M.m_delete T eqb m x).
Proof. destruct m as [[p l]|]; [|exact (fun H => H)]. unfold wf. cbn [M.m_delete M.m_keys]. apply NoDup_filter. Qed.

Lemma valid_order_in m ord : M.valid_order T eqb ord m = true -> forall x, In x ord -> M.m_get T eqb m x = true.
Proof.
  unfold M.valid_order. intros V x I. apply andb_true_iff in V. destruct V as [_ V].
  rewrite forallb_forall in V. apply V; exact I.
Qed.

Lemma Has_eq s t : Has (forget s) t eqb = M.Has_raw T eqb s t.
Proof. unfold Has, M.Has_raw. rewrite get2_eq. reflexivity. Qed.

End Elem.
