(* lruStore.Check / Access / Store / Remove / Evict of cache/lru.go: model = generated function
   (see LruTieBase.v for the representation).  Plain equalities, for every store state, key,
   value and heap variant: the same results, the same new c.present / c.access / c.clock, the
   same panic. *)
From Coq Require Import ZArith List Bool Lia.
From Mds Require Import Common.FnRt GenTie.TieLib Gen.FnLru Gen.CacheLru GenTie.LruTieBase.
Import ListNotations.
Local Open Scope Z_scope.

Section Ops.
Context {K V : Type}.
Variable keqb : K -> K -> bool.
Variable kzero : K.
Variable vzero : V.
Variable hv : H.variant.

Notation lru := (C.lru K V).
Notation prio := (C.prio K V).
Notation hp_Peek := (hp_Peek kzero vzero).
Notation hp_Remove := (hp_Remove keqb kzero vzero hv).
Notation hp_Add := (hp_Add keqb hv).
Notation hp_Pop := (hp_Pop keqb kzero vzero hv).

Ltac lunf := unfold CacheLru.check_at, CacheLru.access_clock, CacheLru.access_stamp, CacheLru.access_remove_at,
  CacheLru.store_clock, CacheLru.store_stamp, CacheLru.lremove_at in *.

Theorem C08_lru_check_is_source : forall (s : lru) (k : K),
  Check (C.present s) (C.access s) k keqb hp_Peek vzero
  = embf (fun '(v, ok) => (v, ok, C.present s, C.access s)) (C.lru_check K V keqb vzero s k).
Proof.
  intros [p q clk] k. unfold Check, C.lru_check. cbn [C.present C.access C.clock].
  rewrite get2_eq. destruct (C.map_get K keqb p k) as [pos|]; cbn [negb]; [|reflexivity].
  lunf. unfold LruTieBase.hp_Peek.
  destruct (H.Peek prio q pos) as [[| |e]| |]; reflexivity.
Qed.

Theorem C08_lru_access_is_source : forall (s : lru) (k : K),
  Access (C.present s) (C.access s) (C.clock s) k keqb hp_Remove hp_Add vzero
  = embf (fun '(s', (v, ok)) => (v, ok, C.present s', C.access s', C.clock s'))
         (C.lru_access K V keqb kzero vzero hv s k).
Proof.
  intros [p q clk] k. unfold Access, C.lru_access. cbn [C.present C.access C.clock].
  rewrite get2_eq. destruct (C.map_get K keqb p k) as [pos|]; cbn [negb]; [|reflexivity].
  lunf. unfold LruTieBase.hp_Remove.
  destruct (H.Remove prio hv q pos) as [[[q1 m1] r]| |]; [|reflexivity|reflexivity].
  cbn [C.lift C.cbind].
  assert (A : forall out : prio,
    bind (LruTieBase.hp_Add keqb hv q1 (C.apply_moves K V keqb m1 p)
            (mk_prioKey (clk + 1) (prioKey_key (of_prio out)) (prioKey_value (of_prio out))))
      (fun '(_, c_access, c_present) =>
         Ok (prioKey_value (mk_prioKey (clk + 1) (prioKey_key (of_prio out)) (prioKey_value (of_prio out))),
             true, c_present, c_access, clk + 1))
    = embf (fun '(s', (v, ok)) => (v, ok, C.present s', C.access s', C.clock s'))
        (C.cbind (C.lift (H.Add prio hv q1 (C.Build_prio K V (clk + 1) (C.key out) (C.value out))))
           (fun '(q2, m2, _) =>
              C.COk (C.Build_lru K V (C.apply_moves K V keqb m2 (C.apply_moves K V keqb m1 p)) q2 (clk + 1),
                     (C.value (C.Build_prio K V (clk + 1) (C.key out) (C.value out)), true))))).
  { intros out. unfold LruTieBase.hp_Add, to_prio, of_prio.
    cbn [prioKey_lastAccess prioKey_key prioKey_value].
    destruct (H.Add prio hv q1 _) as [[[q2 m2] pos2]| |]; reflexivity. }
  destruct r as [| |e]; cbn [bind]; [reflexivity | apply A | apply A].
Qed.

Theorem C08_lru_store_is_source : forall (s : lru) (k : K) (v : V),
  Store (C.present s) (C.access s) (C.clock s) k v keqb hp_Add
  = embf (fun s' => (C.present s', C.access s', C.clock s')) (C.lru_store K V keqb hv s k v).
Proof.
  intros [p q clk] k v. unfold Store, C.lru_store. cbn [C.present C.access C.clock].
  rewrite get2_eq. destruct (C.map_get K keqb p k) as [pos|]; [reflexivity|].
  lunf. unfold LruTieBase.hp_Add, to_prio. cbn [prioKey_lastAccess prioKey_key prioKey_value].
  destruct (H.Add prio hv q _) as [[[q1 m1] pos1]| |]; [|reflexivity|reflexivity].
  cbn [C.lift C.cbind bind embf C.present C.access C.clock]. rewrite map_set_eq. reflexivity.
Qed.

Theorem C08_lru_remove_is_source : forall (s : lru) (k : K),
  Remove (Value := V) (C.present s) (C.access s) k keqb hp_Remove
  = embf (fun s' => (C.present s', C.access s')) (C.lru_remove K V keqb hv s k).
Proof.
  intros [p q clk] k. unfold Remove, C.lru_remove. cbn [C.present C.access C.clock].
  rewrite get2_eq. destruct (C.map_get K keqb p k) as [pos|]; [|reflexivity].
  lunf. unfold LruTieBase.hp_Remove.
  destruct (H.Remove prio hv q pos) as [[[q1 m1] r]| |]; [|reflexivity|reflexivity].
  destruct r; cbn [C.lift C.cbind bind embf C.present C.access]; try rewrite map_del_eq; reflexivity.
Qed.

(* the model's Remove keeps the clock *)
Lemma lru_remove_clock : forall (s s' : lru) k, C.lru_remove K V keqb hv s k = C.COk s' -> C.clock s' = C.clock s.
Proof.
  intros [p q clk] s' k. unfold C.lru_remove. cbn [C.present C.access C.clock].
  destruct (C.map_get K keqb p k); [|intros E; inversion E; reflexivity].
  destruct (C.lift _) as [[[q1 m1] r]| |]; cbn [C.cbind]; try discriminate.
  destruct r; intros E; inversion E; reflexivity.
Qed.

Theorem C08_lru_evict_is_source : forall (s : lru),
  Evict (C.present s) (C.access s) hp_Pop keqb
  = embf (fun '(s', (k, v)) => (k, v, C.present s', C.access s')) (C.lru_evict K V keqb hv s).
Proof.
  intros [p q clk]. unfold Evict, C.lru_evict. cbn [C.present C.access C.clock].
  unfold LruTieBase.hp_Pop.
  destruct (H.Pop prio hv q) as [[[q1 m1] o]| |]; [|reflexivity|reflexivity].
  destruct o as [e|]; cbn [C.lift C.cbind bind embf negb C.present C.access]; [|reflexivity].
  unfold of_prio. cbn [prioKey_key prioKey_value]. rewrite map_del_eq. reflexivity.
Qed.

Lemma lru_evict_clock : forall (s s' : lru) e, C.lru_evict K V keqb hv s = C.COk (s', e) -> C.clock s' = C.clock s.
Proof.
  intros [p q clk] s' e. unfold C.lru_evict. cbn [C.present C.access C.clock].
  destruct (C.lift _) as [[[q1 m1] o]| |]; cbn [C.cbind]; try discriminate.
  destruct o; [|discriminate]. intros E; inversion E; reflexivity.
Qed.

End Ops.

Print Assumptions C08_lru_check_is_source.
Print Assumptions C08_lru_access_is_source.
Print Assumptions C08_lru_store_is_source.
Print Assumptions C08_lru_remove_is_source.
Print Assumptions C08_lru_evict_is_source.
