(* Partition of slice/slice.go: model = generated function (see SliceTieBase.v) *)
From Coq Require Import ZArith List Bool Lia ZifyBool.
From Mds Require Import Common.FnRt GenTie.TieLib Gen.FnSlice Gen.SliceIdx GenTie.SliceTieBase.
Import ListNotations.
Local Open Scope Z_scope.

(* ---------------------------------------------------------------- Partition *)
Section Partition.
Context {T : Type}.
Variable keep : T -> bool.

Lemma partition_loop1_eq : forall gas f0 (l : list T) i,
  Partition_loop1 f0 gas l keep i = emb (M.scan_i keep gas l i).
Proof.
  induction gas; intros; simpl; [reflexivity|].
  unfold part_scan_i, part_scan_i_idx, part_i_inc. change (M.zlen l) with (zlen l).
  case_if; simpl; [|reflexivity].
  rewrite get_eq. destruct (M.get l i) as [x| |]; simpl; try reflexivity.
  destruct (keep x); simpl; [apply IHgas|reflexivity].
Qed.

Lemma partition_loop3_eq : forall gas f0 (l : list T) j,
  Partition_loop3 f0 gas l keep j = emb (M.scan_j keep gas l j).
Proof.
  induction gas; intros; simpl; [reflexivity|].
  unfold part_scan_j, part_scan_j_idx, part_j_inc. change (M.zlen l) with (zlen l).
  case_if; simpl; [|reflexivity].
  rewrite get_eq. destruct (M.get l j) as [x| |]; simpl; try reflexivity.
  destruct (keep x); simpl; [reflexivity|apply IHgas].
Qed.

Lemma partition_loop1_mono : forall gas gas' f0 f0' (l : list T) i, (gas <= gas')%nat ->
  res_le (Partition_loop1 f0 gas l keep i) (Partition_loop1 f0' gas' l keep i).
Proof.
  induction gas; intros; [apply res_le_oof|]. destruct gas'; [lia|]. simpl.
  mono. apply IHgas; lia.
Qed.

Lemma partition_loop3_mono : forall gas gas' f0 f0' (l : list T) j, (gas <= gas')%nat ->
  res_le (Partition_loop3 f0 gas l keep j) (Partition_loop3 f0' gas' l keep j).
Proof.
  induction gas; intros; [apply res_le_oof|]. destruct gas'; [lia|]. simpl.
  mono. apply IHgas; lia.
Qed.

(* what Partition returns, from the model's (elements, bounds of the returned vs[:hi:max]) *)
Definition part_finish (v : M.view) (r : list T * option (Z * Z)) : M.res (view * list T) :=
  match snd r with
  | None => M.Ok (vw v, fst r)
  | Some hm => M.bind (M.slice3 v 0 (fst hm) (snd hm)) (fun rv => M.Ok (vw rv, fst r))
  end.

(* how the generated outer loop ends: by the return inside it, or by its condition *)
Definition part_exit (v : M.view) (r : ctl (list T * Z * Z) (view * list T)) : res (view * list T) :=
  match r with
  | Ret x => Ok x
  | Next (vs, i, _) => bind (go_slice3 (vw v) 0 i i) (fun t => Ok (t, vs))
  end.

Lemma slice3_finish v (l : list T) i :
  bind (go_slice3 (vw v) 0 i i) (fun t => Ok (t, l)) = emb (part_finish v (l, Some (i, i))).
Proof.
  unfold part_finish; simpl. rewrite slice3_eq. destruct (M.slice3 v 0 i i); reflexivity.
Qed.

Lemma partition_loop2_le : forall gas f0 v (l : list T) i j, (S (length l) <= f0)%nat ->
  res_le (emb (M.bind (M.part_loop keep gas l i j) (fun r => part_finish v (fst r, Some (snd r)))))
         (bind (Partition_loop2 f0 gas (vw v) keep l i j) (part_exit v)).
Proof.
  induction gas; intros f0 v l i j Hf; [apply res_le_oof|].
  cbn [M.part_loop Partition_loop2].
  unfold part_outer, part_done, part_ret0_hi, part_ret0_max, part_ret1_hi, part_ret1_max,
    part_swap_r0, part_swap_r1, part_swap_l0, part_swap_l1, part_i_inc2, part_j_inc2.
  change (M.zlen l) with (zlen l).
  case_if.
  2:{ cbn [M.bind bind part_exit fst snd]. rewrite slice3_finish. apply res_le_refl. }
  rewrite M_bind_assoc, emb_bind, <- (partition_loop3_eq (S (length l)) f0), bind_assoc.
  apply bind_le; [apply partition_loop3_mono; lia|].
  intros j' _.
  case_if.
  { cbn [M.bind bind part_exit fst snd]. rewrite bind_assoc. cbn [bind part_exit].
    rewrite slice3_finish. apply res_le_refl. }
  rewrite !get_eq.
  destruct (M.get l j') as [a| |]; cbn [M.bind emb bind]; try apply res_le_refl.
  destruct (M.get l i) as [b| |]; cbn [M.bind emb bind]; try apply res_le_refl.
  rewrite set_eq. destruct (M.set l i a) as [l1| |] eqn:E1; cbn [M.bind emb bind]; try apply res_le_refl.
  rewrite set_eq. destruct (M.set l1 j' b) as [l2| |] eqn:E2; cbn [M.bind emb bind]; try apply res_le_refl.
  apply IHgas.
  assert (length l1 = length l) by (apply (go_set_length l l1 i a); rewrite set_eq, E1; reflexivity).
  assert (length l2 = length l1) by (apply (go_set_length l1 l2 j' b); rewrite set_eq, E2; reflexivity).
  lia.
Qed.

Lemma partition_loop2_mono : forall gas gas' f0 f0' v (l : list T) i j, (gas <= gas')%nat -> (f0 <= f0')%nat ->
  res_le (Partition_loop2 f0 gas v keep l i j) (Partition_loop2 f0' gas' v keep l i j).
Proof.
  induction gas; intros; [apply res_le_oof|]. destruct gas'; [lia|]. simpl.
  case_if; [|apply res_le_refl].
  apply bind_le; [apply partition_loop3_mono; lia|]. intros j' _.
  mono. apply IHgas; lia.
Qed.

Theorem C17_partition_is_source : forall (l : list T) (v : M.view) (fuel : nat),
  (S (length l) <= fuel)%nat ->
  res_le (emb (M.bind (M.partition_win keep l) (part_finish v))) (Partition l (vw v) keep fuel).
Proof.
  intros l v fuel Hf. unfold Partition, M.partition_win. cbv zeta.
  unfold part_empty, part_i0, part_j0. change (M.zlen l) with (zlen l).
  case_if; [apply res_le_refl|].
  rewrite M_bind_assoc, emb_bind, <- (partition_loop1_eq (S (length l)) fuel).
  apply bind_le; [apply partition_loop1_mono; lia|].
  intros i _. rewrite M_bind_assoc.
  eapply res_le_trans.
  - apply (partition_loop2_le (S (length l)) fuel v l i (i + 1)). lia.
  - apply bind_le; [apply partition_loop2_mono; lia|]. intros r _. apply res_le_refl.
Qed.

(* the same on a base array: Partition on the window of the view, the result spliced back *)
Theorem C17_partition_view_is_source : forall (b : list T) (v : M.view) (fuel : nat),
  (S (length (M.window b v)) <= fuel)%nat ->
  res_le (embf (fun '(b', rv) => (vw rv, b')) (M.partition keep b v))
         (bind (Partition (M.window b v) (vw v) keep fuel) (fun '(rv, l') => Ok (rv, M.splice b v l'))).
Proof.
  intros b v fuel Hf.
  pose proof (C17_partition_is_source (M.window b v) v fuel Hf) as H.
  unfold M.partition.
  destruct H as [H|H].
  - left. destruct (M.partition_win keep (M.window b v)) as [[l' o]| |]; simpl in *; try discriminate; [|reflexivity].
    unfold part_finish in H; simpl in H. destruct o as [[hi mx]|]; simpl in *; try discriminate.
    destruct (M.slice3 v 0 hi mx); simpl in *; try discriminate. reflexivity.
  - right. rewrite <- H.
    destruct (M.partition_win keep (M.window b v)) as [[l' o]| |]; simpl; try reflexivity.
    unfold part_finish; simpl. destruct o as [[hi mx]|]; simpl; try reflexivity.
    destruct (M.slice3 v 0 hi mx); reflexivity.
Qed.
End Partition.


Print Assumptions C17_partition_is_source.
Print Assumptions C17_partition_view_is_source.
