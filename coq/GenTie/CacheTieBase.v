(* The hand-written model of cache/cache.go (Cache/CacheModel.v: cache_put, cache_get, cache_has,
   cache_remove, cache_clear, cache_len, cache_size) equals the functions generated from the Go
   source (Gen/FnCache.v, regenerated on every run).

   Representation.  The generated functions take the fields c.size, c.limit, c.count and c.sizeOf
   as arguments; c.onEvict is not an argument: its calls are returned in order as a log.  The
   field c.store has the interface type Store[Key, Value]: an abstract state type [St_store] with
   one function argument per method (store_Check, store_Access, store_Store, store_Remove,
   store_Evict : St -> args -> res (results * St)).  The c.mu.Lock(); defer c.mu.Unlock()
   prologue has no effect in the sequential translation (the lock discipline is Gen/CacheLocks.v).

   The ties are proved for EVERY implementation of the store interface that behaves like the
   model's lruStore ([store_ok]: a representation function [rep] of the model's store states and
   five functions that commute with it).  CacheTieCompose.v instantiates this with the functions
   generated from lru.go over the heapq model (and with the model's own functions).

   Results: (Go results, c.store, c.size, c.count, the OnEvict log) on the generated side; the
   model returns a whole cache record: the statements also say that the fields the Go function
   does not assign are unchanged in the model's result. *)
From Coq Require Import ZArith List Bool Lia.
From Mds Require Import Common.FnRt GenTie.TieLib Gen.FnCache Gen.CacheIdx GenTie.LruTieBase.
Import ListNotations.
Local Open Scope Z_scope.

(* the model's bind against the generated bind, results related by g *)
Lemma embf_bind_le {A B A' B'} (g : A -> A') (f : B -> B') (m : C.cres A) (k : A -> C.cres B)
      (r : res A') (k' : A' -> res B') :
  res_le (embf g m) r ->
  (forall a, m = C.COk a -> res_le (embf f (k a)) (k' (g a))) ->
  res_le (embf f (C.cbind m k)) (bind r k').
Proof.
  intros L Kk. destruct m as [a| |]; cbn [embf C.cbind] in *.
  - destruct L as [L|L]; [discriminate|]. rewrite <- L. cbn [bind]. apply Kk; reflexivity.
  - destruct L as [L|L]; [discriminate|]. rewrite <- L. apply res_le_refl.
  - apply res_le_oof.
Qed.

Lemma embf_bind_eq {A B A' B'} (g : A -> A') (f : B -> B') (m : C.cres A) (k : A -> C.cres B)
      (r : res A') (k' : A' -> res B') :
  r = embf g m ->
  (forall a, m = C.COk a -> k' (g a) = embf f (k a)) ->
  bind r k' = embf f (C.cbind m k).
Proof.
  intros -> Kk. destruct m as [a| |]; cbn [embf C.cbind bind]; [apply Kk|..]; reflexivity.
Qed.

Section Abs.
Context {K V : Type}.
Variable keqb : K -> K -> bool.
Variable kzero : K.
Variable vzero : V.
Variable sizeOf : V -> Z.
Variable hv : H.variant.

Notation lru := (C.lru K V).
Notation cache := (C.cache K V).

(* an implementation of the Store interface that behaves like the model's lruStore *)
Definition store_ok {St : Type} (rep : lru -> St)
    (chk : St -> K -> res (V * bool * St)) (acc : St -> K -> res (V * bool * St))
    (sto : St -> K -> V -> res St) (rem : St -> K -> res St) (evi : St -> res (K * V * St)) : Prop :=
  (forall s k, chk (rep s) k = embf (fun '(v, ok) => (v, ok, rep s)) (C.lru_check K V keqb vzero s k)) /\
  (forall s k, acc (rep s) k = embf (fun '(s', (v, ok)) => (v, ok, rep s')) (C.lru_access K V keqb kzero vzero hv s k)) /\
  (forall s k v, sto (rep s) k v = embf rep (C.lru_store K V keqb hv s k v)) /\
  (forall s k, rem (rep s) k = embf rep (C.lru_remove K V keqb hv s k)) /\
  (forall s, evi (rep s) = embf (fun '(s', (k, v)) => (k, v, rep s')) (C.lru_evict K V keqb hv s)).

Section Impl.
Context {St : Type}.
Variable rep : lru -> St.
Variable chk : St -> K -> res (V * bool * St).
Variable acc : St -> K -> res (V * bool * St).
Variable sto : St -> K -> V -> res St.
Variable rem : St -> K -> res St.
Variable evi : St -> res (K * V * St).
Hypothesis OK : store_ok rep chk acc sto rem evi.

Let Hchk := proj1 OK.
Let Hacc := proj1 (proj2 OK).
Let Hsto := proj1 (proj2 (proj2 OK)).
Let Hrem := proj1 (proj2 (proj2 (proj2 OK))).
Let Hevi := proj2 (proj2 (proj2 (proj2 OK))).

(* Has: the answer of store.Check; nothing changes *)
Theorem C08_has_is_source : forall (c : cache) (k : K),
  Has (rep (C.store c)) k chk = embf (fun b => (b, rep (C.store c))) (C.cache_has K V keqb vzero c k).
Proof.
  intros [s size cnt lim] k. unfold Has, C.cache_has. cbn [C.store]. rewrite Hchk.
  destruct (C.lru_check K V keqb vzero s k) as [[v ok]| |]; reflexivity.
Qed.

(* Get: the answer of store.Access; size, count and limit are unchanged *)
Theorem C08_get_is_source : forall (c : cache) (k : K),
  bind (Get (rep (C.store c)) k acc) (fun '(v, ok, st) => Ok (v, ok, st, C.csize c, C.count c, C.limit c))
  = embf (fun '(c', (v, ok)) => (v, ok, rep (C.store c'), C.csize c', C.count c', C.limit c'))
         (C.cache_get K V keqb kzero vzero hv c k).
Proof.
  intros [s size cnt lim] k. unfold Get, C.cache_get. cbn [C.store C.csize C.count C.limit]. rewrite Hacc.
  destruct (C.lru_access K V keqb kzero vzero hv s k) as [[s' [v ok]]| |]; reflexivity.
Qed.

(* Remove: Check, then store.Remove, the callback, size -=, count--; limit is unchanged *)
Theorem C08_remove_is_source : forall (c : cache) (k : K),
  bind (Remove (rep (C.store c)) (C.csize c) (C.count c) sizeOf k chk rem)
       (fun '(b, st, size, cnt, log) => Ok (b, st, size, cnt, C.limit c, log))
  = embf (fun '(c', b, log) => (b, rep (C.store c'), C.csize c', C.count c', C.limit c', log))
         (C.cache_remove K V keqb vzero sizeOf hv c k).
Proof.
  intros [s size cnt lim] k. unfold Remove, C.cache_remove. cbn [C.store C.csize C.count C.limit]. rewrite Hchk.
  destruct (C.lru_check K V keqb vzero s k) as [[old ok]| |]; cbn [embf bind C.cbind]; [|reflexivity|reflexivity].
  destruct ok; [|reflexivity].
  rewrite Hrem. destruct (C.lru_remove K V keqb hv s k) as [s'| |]; reflexivity.
Qed.

Theorem C08_len_is_source : forall (c : cache), Len (C.count c) = C.cache_len K V c.
Proof. reflexivity. Qed.

Theorem C08_size_is_source : forall (c : cache), Size (C.csize c) = C.cache_size K V c.
Proof. reflexivity. Qed.

End Impl.
End Abs.

Print Assumptions C08_has_is_source.
Print Assumptions C08_get_is_source.
Print Assumptions C08_remove_is_source.
Print Assumptions C08_len_is_source.
Print Assumptions C08_size_is_source.
