(* The observers of heapq/heapq.go and Clear: model = generated function (see HeapqTieBase.v).

     Len, IsEmpty   plain equalities
     Front          the model's None is the zero value
     Peek           the model's PeekPanic outcome is the panic("index out of range") statement,
                    PeekNone is (zero, false), PeekSome x is (x, true)
     Clear          q.data[:0] is the model's empty list
     Each           f is a pure function in the generated code, so the loop has no log of its calls;
                    the tie is through its control result: run on q.data from offset 0 it reads
                    q.data[r] for r = 0, 1, ... in order and returns from inside (Ret) exactly at the
                    first element f refuses, otherwise ends with r = len (Next); the model's
                    Each q k, for k the 1-based position of that element (0 if there is none), is the
                    list of the elements the loop passed to f ([visited]). *)
From Coq Require Import ZArith List Bool Lia.
From Mds Require Import Common.FnRt GenTie.TieLib Gen.FnHeapq Gen.HeapqIdx GenTie.HeapqTieBase.
Import ListNotations.
Local Open Scope Z_scope.

Section Queue.
Context {T : Type}.
Implicit Types q : H.queue T.

Theorem C05_Len_is_source : forall q, Len (H.data q) = H.Len T q.
Proof. reflexivity. Qed.

Theorem C05_IsEmpty_is_source : forall q, IsEmpty (H.data q) = H.IsEmpty T q.
Proof. reflexivity. Qed.

Definition front_out (zero : T) (o : option T) : T := match o with Some x => x | None => zero end.

Theorem C05_Front_is_source : forall q (zero : T),
  Front (H.data q) zero = embf (front_out zero) (H.Front T q).
Proof.
  intros. unfold Front, H.Front. unfold Front_empty, Front_index.
  change (H.len (H.data q)) with (zlen (H.data q)).
  case_if; [reflexivity|].
  rewrite get_eq. destruct (H.get (H.data q) 0); reflexivity.
Qed.

Definition peek_out (zero : T) (r : H.res (H.peeked T)) : res (T * bool) :=
  match r with
  | H.Ok H.PeekPanic => Panic (PMsg "index out of range")
  | H.Ok H.PeekNone => Ok (zero, false)
  | H.Ok (H.PeekSome x) => Ok (x, true)
  | H.IndexPanic => Panic PIndex
  | H.OutOfFuel => OutOfFuel
  end.

Theorem C05_Peek_is_source : forall q (n : Z) (zero : T),
  Peek (H.data q) n zero = peek_out zero (H.Peek T q n).
Proof.
  intros. unfold Peek, H.Peek. unfold Peek_negative, Peek_beyond.
  change (H.len (H.data q)) with (zlen (H.data q)).
  case_if; [reflexivity|].
  case_if; [reflexivity|].
  rewrite get_eq. destruct (H.get (H.data q) n); reflexivity.
Qed.

Theorem C05_Clear_is_source : forall q, Clear (H.data q) = Ok (H.data (H.Clear T q)).
Proof.
  intros. unfold Clear, go_sub. cbn [H.Clear H.data].
  pose proof (zlen_nonneg (H.data q)).
  replace ((0 <=? 0) && (0 <=? 0)) with true by reflexivity.
  replace (0 <=? zlen (H.data q)) with true by lia. reflexivity.
Qed.

(* ---------------------------------------------------------------- Each *)
(* the elements handed to f: up to and including the first one it refuses *)
Fixpoint visited (f : T -> bool) (l : list T) : list T :=
  match l with
  | [] => []
  | x :: t => x :: (if f x then visited f t else [])
  end.

(* the 1-based position of the first element f refuses; 0 if it refuses none *)
Fixpoint each_stop (f : T -> bool) (l : list T) : nat :=
  match l with
  | [] => O
  | x :: t => if f x then (match each_stop f t with O => O | S k => S (S k) end) else 1%nat
  end.

Lemma each_model_visited : forall f (l : list T),
  (match each_stop f l with O => l | S k => firstn (S k) l end) = visited f l.
Proof.
  induction l as [|x t IH]; [reflexivity|].
  cbn [each_stop visited]. destruct (f x); [|reflexivity].
  destruct (each_stop f t); cbn [firstn] in *; f_equal; exact IH.
Qed.

Lemma go_get_mid : forall (pre suf : list T) x, go_get (pre ++ x :: suf) (zlen pre) = Ok x.
Proof.
  intros. unfold go_get, zlen. rewrite app_length. cbn [length].
  assert (A : 0 <=? Z.of_nat (length pre) = true) by (apply Z.leb_le; lia).
  assert (B : Z.of_nat (length pre) <? Z.of_nat (length pre + S (length suf)) = true) by (apply Z.ltb_lt; lia).
  rewrite A, B. cbn [andb].
  rewrite Nat2Z.id, nth_error_app2 by lia. rewrite Nat.sub_diag. reflexivity.
Qed.

Lemma zlen_app : forall (a b : list T), zlen (a ++ b) = zlen a + zlen b.
Proof. intros. unfold zlen. rewrite app_length. lia. Qed.

Lemma zlen_cons : forall (x : T) (t : list T), zlen (x :: t) = 1 + zlen t.
Proof. intros. unfold zlen. cbn [length]. lia. Qed.

Lemma Each_loop1_eq : forall (f : T -> bool) (suf pre : list T) (f0 gas : nat),
  (length suf < gas)%nat ->
  Each_loop1 f0 gas (pre ++ suf) f (zlen (pre ++ suf)) (zlen pre)
  = Ok (match each_stop f suf with O => Next (zlen (pre ++ suf)) | S _ => Ret tt end).
Proof.
  induction suf as [|x t IH]; intros pre f0 gas Hg; (destruct gas as [|gas]; [cbn [length] in Hg; lia|]).
  - cbn [Each_loop1 each_stop]. rewrite app_nil_r. rewrite Z.ltb_irrefl. reflexivity.
  - cbn [Each_loop1 each_stop].
    assert (A : zlen pre <? zlen (pre ++ x :: t) = true).
    { apply Z.ltb_lt. rewrite zlen_app, zlen_cons. pose proof (zlen_nonneg t). lia. }
    rewrite A. rewrite go_get_mid. cbn [bind].
    destruct (f x); cbn [negb]; [|reflexivity].
    replace (zlen pre + 1) with (zlen (pre ++ [x])) by (rewrite zlen_app, zlen_cons; unfold zlen; cbn [length]; lia).
    replace (pre ++ x :: t) with ((pre ++ [x]) ++ t) by (rewrite <- app_assoc; reflexivity).
    rewrite IH by (cbn [length] in Hg; lia).
    destruct (each_stop f t); reflexivity.
Qed.

Theorem C05_Each_is_source : forall q (f : T -> bool) (fuel : nat),
  (S (length (H.data q)) <= fuel)%nat ->
  Each_loop1 fuel fuel (H.data q) f (zlen (H.data q)) 0
    = Ok (match each_stop f (H.data q) with O => Next (zlen (H.data q)) | S _ => Ret tt end)
  /\ Each (H.data q) f fuel = Ok tt
  /\ H.Each T q (each_stop f (H.data q)) = visited f (H.data q).
Proof.
  intros q f fuel Hf.
  assert (E : Each_loop1 fuel fuel (H.data q) f (zlen (H.data q)) 0
              = Ok (match each_stop f (H.data q) with O => Next (zlen (H.data q)) | S _ => Ret tt end)).
  { exact (Each_loop1_eq f (H.data q) [] fuel fuel ltac:(lia)). }
  split; [exact E|]. split.
  - unfold Each. rewrite E. destruct (each_stop f (H.data q)); reflexivity.
  - unfold H.Each. rewrite <- each_model_visited. destruct (each_stop f (H.data q)); reflexivity.
Qed.

End Queue.

Print Assumptions C05_Len_is_source.
Print Assumptions C05_IsEmpty_is_source.
Print Assumptions C05_Front_is_source.
Print Assumptions C05_Peek_is_source.
Print Assumptions C05_Clear_is_source.
Print Assumptions C05_Each_is_source.
