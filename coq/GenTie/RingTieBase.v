(* The hand-written pointer-level model of ring/ring.go (Ring/RingModel.v, on the heap of
   Ring/RingBase.v) equals the functions the HEAP BACKEND of the function translator generates from
   the Go source (Gen/FnRing.v, regenerated on every run; translator/fn_heap*.go,
   Common/FnHeap.v).

   Representation.  Both sides keep the cells in a list indexed by address, allocation appends,
   nil = None.  The model's cell is [mkCell val prev next], the generated Record is
   [mk_Ring Value prev next] (the field order of the Go struct): [cenc] converts a cell, [henc]
   a heap.  The model's results are [heap * res A] (the heap survives a panic); the generated
   functions return [FnRt.res (A * heap)] for functions that change the heap and [FnRt.res A] for
   functions that only read it (then the tie also says that the model leaves the heap unchanged):
   [embw] / [embr] map the model's result onto that: nil dereference onto Go's run-time panic
   [PNil], the model's [Fault] (dangling address) onto [PDangling], OutOfFuel onto OutOfFuel.  The
   heap at the moment of a panic is NOT compared (the generated code drops it).

   This file: the primitives (load, store, alloc, pointer comparisons) and model = plain. *)
From Coq Require Import ZArith List Bool Arith Lia.
From Mds Require Import Gen.RingIdx Ring.RingBase.
From Mds Require Ring.RingModel Ring.RingPlain.
From Mds Require Import Common.FnRt Common.FnHeap GenTie.TieLib.
From Mds Require Gen.FnRing.
Import ListNotations.

Module Mo := RingModel.
Module Pl := RingPlain.
Module G := FnRing.

Notation MOk := RingBase.Ok.
Notation MPanic := RingBase.Panic.
Notation MFault := RingBase.Fault.
Notation MFuel := RingBase.OutOfFuel.
Notation mres := RingBase.res.
Notation mbind := RingBase.bind.

Section Base.
Context {T : Type}.

Notation heap := (RingBase.heap T).
Notation cell := (RingBase.cell T).

Definition cenc (c : cell) : G.Ring T := G.mk_Ring (val c) (prev c) (next c).
Definition henc (h : heap) : list (G.Ring T) := map cenc h.

(* the model's result of a function that changes the heap *)
Definition embw {A B} (f : A -> B) (x : heap * mres A) : res (B * list (G.Ring T)) :=
  match x with
  | (h', MOk a) => Ok (f a, henc h')
  | (_, MPanic) => Panic PNil
  | (_, MFault) => Panic PDangling
  | (_, MFuel) => OutOfFuel
  end.

(* the model's result of a function that only reads the heap *)
Definition embr {A B} (f : A -> B) (x : heap * mres A) : res B :=
  match x with
  | (_, MOk a) => Ok (f a)
  | (_, MPanic) => Panic PNil
  | (_, MFault) => Panic PDangling
  | (_, MFuel) => OutOfFuel
  end.

(* ... of a statement block: the heap alone *)
Definition embh {A} (x : heap * mres A) : res (list (G.Ring T)) :=
  match x with
  | (h', MOk _) => Ok (henc h')
  | (_, MPanic) => Panic PNil
  | (_, MFault) => Panic PDangling
  | (_, MFuel) => OutOfFuel
  end.

Definition idf {A} (a : A) : A := a.

(* a computation that leaves the heap as it is *)
Definition keeps {A} (m : RingBase.M T A) : Prop := forall h, fst (m h) = h.

Lemma keeps_ret {A} (a : A) : keeps (ret a).
Proof. intro h. reflexivity. Qed.

Lemma keeps_bind {A B} (m : RingBase.M T A) (k : A -> RingBase.M T B) :
  keeps m -> (forall a, keeps (k a)) -> keeps (mbind m k).
Proof.
  intros Hm Hk h. unfold RingBase.bind. specialize (Hm h).
  destruct (m h) as [h' [a| | |]]; simpl in *; subst; try reflexivity. apply Hk.
Qed.

Lemma keeps_load p : keeps (load p).
Proof. intro h. unfold load. destruct p as [a|]; [|reflexivity]. destruct (lookup h a); reflexivity. Qed.

Lemma keeps_get_next p : keeps (get_next p).
Proof. apply keeps_bind; [apply keeps_load | intro; apply keeps_ret]. Qed.
Lemma keeps_get_prev p : keeps (get_prev p).
Proof. apply keeps_bind; [apply keeps_load | intro; apply keeps_ret]. Qed.
Lemma keeps_get_val p : keeps (get_val p).
Proof. apply keeps_bind; [apply keeps_load | intro; apply keeps_ret]. Qed.
Lemma keeps_heap_size : keeps (@heap_size T).
Proof. intro h. reflexivity. Qed.
Lemma keeps_fault {A} : keeps (@fault T A).
Proof. intro h. reflexivity. Qed.
Lemma keeps_oof {A} : keeps (@out_of_fuel T A).
Proof. intro h. reflexivity. Qed.
Lemma keeps_if {A} (b : bool) (m1 m2 : RingBase.M T A) : keeps m1 -> keeps m2 -> keeps (if b then m1 else m2).
Proof. destruct b; auto. Qed.

(* ---- pointers ---- *)
Lemma enc_inj p q : enc p = enc q -> p = q.
Proof.
  destruct p as [a|], q as [b|]; simpl; intros H; try reflexivity; try discriminate.
  inversion H as [H1]. apply SuccNat2Pos.inj in H1. subst. reflexivity.
Qed.

Lemma enc_eqb p q : (enc p =? enc q)%Z = go_peq p q.
Proof.
  destruct (go_peq p q) eqn:E.
  - apply go_peq_spec in E. subst. apply Z.eqb_refl.
  - apply Z.eqb_neq. intro H. apply enc_inj in H. subst. rewrite go_peq_refl in E. discriminate.
Qed.

Lemma enc_nil p : (enc p =? znil)%Z = go_pnil p.
Proof. destruct p; reflexivity. Qed.

Lemma ptr_eqb_peq p q : ptr_eqb p q = go_peq p q.
Proof. destruct p, q; reflexivity. Qed.

(* ---- the heap primitives ---- *)
Lemma henc_length h : length (henc h) = size h.
Proof. unfold henc, size. apply map_length. Qed.

Lemma henc_nth h a : nth_error (henc h) a = option_map cenc (lookup h a).
Proof. unfold henc, lookup. apply nth_error_map. Qed.

Lemma mupd_eq (h : heap) a c : RingBase.upd h a c = FnRt.upd h a c.
Proof. revert a; induction h as [|x h IH]; intros [|a]; simpl; auto; f_equal; auto. Qed.

Lemma henc_upd h a c : henc (RingBase.upd h a c) = FnRt.upd (henc h) a (cenc c).
Proof. rewrite mupd_eq. unfold henc. apply hupd_map. Qed.

Lemma hget_load {B} p h (k : G.Ring T -> res B) :
  bind (go_hget (henc h) p) k =
  match load p h with
  | (_, MOk c) => k (cenc c)
  | (_, MPanic) => Panic PNil
  | (_, MFault) => Panic PDangling
  | (_, MFuel) => OutOfFuel
  end.
Proof.
  unfold go_hget, load. destruct p as [a|]; [|reflexivity].
  rewrite henc_nth. destruct (lookup h a); reflexivity.
Qed.

Lemma hmod_store p h (gf : G.Ring T -> G.Ring T) (mf : cell -> cell) :
  (forall c, gf (cenc c) = cenc (mf c)) ->
  go_hmod (henc h) p gf =
  match store p mf h with
  | (h', MOk _) => Ok (henc h')
  | (_, MPanic) => Panic PNil
  | (_, MFault) => Panic PDangling
  | (_, MFuel) => OutOfFuel
  end.
Proof.
  intros Hf. unfold go_hmod, store. destruct p as [a|]; [|reflexivity].
  rewrite henc_nth. destruct (lookup h a) as [c|]; simpl; [|reflexivity].
  rewrite Hf, henc_upd. reflexivity.
Qed.

Lemma hnew_alloc h zero :
  go_hnew (henc h) (G.mk_Ring zero None None) = (Some (size h), henc (h ++ [mkCell zero None None])).
Proof.
  unfold go_hnew. rewrite henc_length. unfold henc. rewrite map_app. reflexivity.
Qed.

(* the three stores of the model in the generated form *)
Lemma hmod_set_next {B} p q h (k : list (G.Ring T) -> res B) :
  bind (go_hmod (henc h) p (fun c => G.mk_Ring (G.Ring_Value c) (G.Ring_prev c) q)) k =
  match set_next p q h with
  | (h', MOk _) => k (henc h')
  | (_, MPanic) => Panic PNil
  | (_, MFault) => Panic PDangling
  | (_, MFuel) => OutOfFuel
  end.
Proof.
  unfold set_next. rewrite (hmod_store p h _ (fun c => mkCell (val c) (prev c) q)) by (intros []; reflexivity).
  destruct (store p _ h) as [h' [[]| | |]]; reflexivity.
Qed.

Lemma hmod_set_prev {B} p q h (k : list (G.Ring T) -> res B) :
  bind (go_hmod (henc h) p (fun c => G.mk_Ring (G.Ring_Value c) q (G.Ring_next c))) k =
  match set_prev p q h with
  | (h', MOk _) => k (henc h')
  | (_, MPanic) => Panic PNil
  | (_, MFault) => Panic PDangling
  | (_, MFuel) => OutOfFuel
  end.
Proof.
  unfold set_prev. rewrite (hmod_store p h _ (fun c => mkCell (val c) q (next c))) by (intros []; reflexivity).
  destruct (store p _ h) as [h' [[]| | |]]; reflexivity.
Qed.

Lemma hmod_set_val {B} p v h (k : list (G.Ring T) -> res B) :
  bind (go_hmod (henc h) p (fun c => G.mk_Ring v (G.Ring_prev c) (G.Ring_next c))) k =
  match set_val p v h with
  | (h', MOk _) => k (henc h')
  | (_, MPanic) => Panic PNil
  | (_, MFault) => Panic PDangling
  | (_, MFuel) => OutOfFuel
  end.
Proof.
  unfold set_val. rewrite (hmod_store p h _ (fun c => mkCell v (prev c) (next c))) by (intros []; reflexivity).
  destruct (store p _ h) as [h' [[]| | |]]; reflexivity.
Qed.

(* the same as the last statement of a block *)
Lemma hmod_set_next0 p q h :
  go_hmod (henc h) p (fun c => G.mk_Ring (G.Ring_Value c) (G.Ring_prev c) q) = embh (set_next p q h).
Proof. rewrite <- (bind_ok (go_hmod _ _ _)). rewrite hmod_set_next. destruct (set_next p q h) as [h' [[]| | |]]; reflexivity. Qed.
Lemma hmod_set_prev0 p q h :
  go_hmod (henc h) p (fun c => G.mk_Ring (G.Ring_Value c) q (G.Ring_next c)) = embh (set_prev p q h).
Proof. rewrite <- (bind_ok (go_hmod _ _ _)). rewrite hmod_set_prev. destruct (set_prev p q h) as [h' [[]| | |]]; reflexivity. Qed.
Lemma hmod_set_val0 p v h :
  go_hmod (henc h) p (fun c => G.mk_Ring v (G.Ring_prev c) (G.Ring_next c)) = embh (set_val p v h).
Proof. rewrite <- (bind_ok (go_hmod _ _ _)). rewrite hmod_set_val. destruct (set_val p v h) as [h' [[]| | |]]; reflexivity. Qed.

(* the three loads *)
Lemma hget_next {B} p h (k : G.Ring T -> res B) (k' : ptr -> res B) :
  (forall c, k (cenc c) = k' (next c)) ->
  bind (go_hget (henc h) p) k =
  match get_next p h with
  | (_, MOk x) => k' x
  | (_, MPanic) => Panic PNil
  | (_, MFault) => Panic PDangling
  | (_, MFuel) => OutOfFuel
  end.
Proof.
  intros Hk. rewrite hget_load. unfold get_next, RingBase.bind.
  destruct (load p h) as [h' [c| | |]]; try reflexivity. apply Hk.
Qed.

Lemma hget_prev {B} p h (k : G.Ring T -> res B) (k' : ptr -> res B) :
  (forall c, k (cenc c) = k' (prev c)) ->
  bind (go_hget (henc h) p) k =
  match get_prev p h with
  | (_, MOk x) => k' x
  | (_, MPanic) => Panic PNil
  | (_, MFault) => Panic PDangling
  | (_, MFuel) => OutOfFuel
  end.
Proof.
  intros Hk. rewrite hget_load. unfold get_prev, RingBase.bind.
  destruct (load p h) as [h' [c| | |]]; try reflexivity. apply Hk.
Qed.

Lemma hget_val {B} p h (k : G.Ring T -> res B) (k' : T -> res B) :
  (forall c, k (cenc c) = k' (val c)) ->
  bind (go_hget (henc h) p) k =
  match get_val p h with
  | (_, MOk x) => k' x
  | (_, MPanic) => Panic PNil
  | (_, MFault) => Panic PDangling
  | (_, MFuel) => OutOfFuel
  end.
Proof.
  intros Hk. rewrite hget_load. unfold get_val, RingBase.bind.
  destruct (load p h) as [h' [c| | |]]; try reflexivity. apply Hk.
Qed.

(* a load leaves the heap alone: the heap component of its result is the argument *)
Lemma get_next_heap p (h : heap) : fst (get_next p h) = h.
Proof. apply keeps_get_next. Qed.
Lemma get_prev_heap p (h : heap) : fst (get_prev p h) = h.
Proof. apply keeps_get_prev. Qed.
Lemma get_val_heap p (h : heap) : fst (get_val p h) = h.
Proof. apply keeps_get_val. Qed.

End Base.

(* ---- tactics for the function-by-function proofs ---- *)
Ltac hproj :=
  cbv beta; cbn [cenc RingBase.next RingBase.prev RingBase.val G.Ring_next G.Ring_prev G.Ring_Value].

(* one statement of the generated code (the one at the head of the term) rewritten into the
   model's primitive *)
Ltac gstep_on g :=
  lazymatch g with
  | bind (go_hmod (henc ?h) ?p _) ?k =>
    first [ rewrite (hmod_set_next p _ h k) | rewrite (hmod_set_prev p _ h k) | rewrite (hmod_set_val p _ h k) ]
  | go_hmod (henc ?h) ?p _ =>
    first [ rewrite (hmod_set_next0 p _ h) | rewrite (hmod_set_prev0 p _ h) | rewrite (hmod_set_val0 p _ h) ]
  | bind (go_hget (henc ?h) ?p) ?k =>
    first [ erewrite (hget_next p h k) by (intros []; hproj; reflexivity)
          | erewrite (hget_prev p h k) by (intros []; hproj; reflexivity)
          | erewrite (hget_val p h k) by (intros []; hproj; reflexivity) ]
  | bind (bind (go_hget (henc ?h) ?p) ?k) _ =>
    first [ erewrite (hget_next p h k) by (intros []; hproj; reflexivity)
          | erewrite (hget_prev p h k) by (intros []; hproj; reflexivity)
          | erewrite (hget_val p h k) by (intros []; hproj; reflexivity) ]
  end.
Ltac gstep :=
  rewrite ?bind_assoc; unfold idf;
  match goal with
  | |- ?g = _ => gstep_on g
  | |- res_le _ ?g => gstep_on g
  end.

Ltac fin := first [ reflexivity | apply res_le_refl | apply res_le_oof | (right; reflexivity) | (left; reflexivity) ].

(* case analysis on the model's load [f p h]; the heap it returns is h *)
Ltac mload f lem p h x :=
  let E := fresh "E" in let h' := fresh "h" in
  pose proof (lem p h) as E;
  destruct (f p h) as [h' [x| | |]]; cbn [fst] in E; try subst h'; try fin.

(* case analysis on a store of the model *)
Ltac mstore m h1 :=
  destruct m as [h1 [[]| | |]]; try fin.

(* ---- model = plain (by computation; restated here so that the ties depend on the two
   definition files only) ---- *)
Section ModelPlain.
Variable T : Type.
Variable zero : T.
Lemma mp_new_ring : Mo.new_ring T zero = Pl.new_ring T zero. Proof. reflexivity. Qed.
Lemma mp_new_loop : Mo.new_loop T zero = Pl.new_loop T zero. Proof. reflexivity. Qed.
Lemma mp_new : Mo.new T zero = Pl.new T zero. Proof. reflexivity. Qed.
Lemma mp_of_loop : @Mo.of_loop T = @Pl.of_loop T. Proof. reflexivity. Qed.
Lemma mp_of : Mo.of T zero = Pl.of T zero. Proof. reflexivity. Qed.
Lemma mp_join : @Mo.join T = @Pl.join T. Proof. reflexivity. Qed.
Lemma mp_pop : @Mo.pop T = @Pl.pop T. Proof. reflexivity. Qed.
Lemma mp_next_of : @Mo.next_of T = @Pl.next_of T. Proof. reflexivity. Qed.
Lemma mp_prev_of : @Mo.prev_of T = @Pl.prev_of T. Proof. reflexivity. Qed.
Lemma mp_at_loop_gen : @Mo.at_loop_gen T = @Pl.at_loop_gen T. Proof. reflexivity. Qed.
Lemma mp_at_gen : @Mo.at_gen T = @Pl.at_gen T. Proof. reflexivity. Qed.
Lemma mp_peek_gen : Mo.peek_gen T zero = Pl.peek_gen T zero. Proof. reflexivity. Qed.
Lemma mp_scan_loop A : @Mo.scan_loop T A = @Pl.scan_loop T A. Proof. reflexivity. Qed.
Lemma mp_scan A : @Mo.scan T A = @Pl.scan T A. Proof. reflexivity. Qed.
Lemma mp_each : @Mo.each T = @Pl.each T. Proof. reflexivity. Qed.
Lemma mp_len : @Mo.len T = @Pl.len T. Proof. reflexivity. Qed.
Lemma mp_is_empty : @Mo.is_empty T = @Pl.is_empty T. Proof. reflexivity. Qed.
End ModelPlain.
