(* shell/shell.go, C16: the tokenizer.  The tables update / classOf generated from the composite
   literals (Gen/FnShell.v) are the tables of Gen/ShellTable.v the model uses; one call of
   Scanner.Next of the model (the scanner on its remaining input l) = the generated Next with the
   *bufio.Reader object instantiated as "pop the head of l, io.EOF on the empty list" and the
   token buffer as a byte list; Text, Complete, Err, Rest, Reset.  Plain equalities for every
   scanner state (reachable or not: also stNone with input left, where both sides are the index
   panic of update[stNone][...]), for input bytes below 256 (classOf is an array of 256). *)
From Coq Require Import ZArith NArith List Bool Lia.
From Mds Require Import Common.FnRt GenTie.TieLib Gen.ShellTable Gen.FnShell.
From Mds Require Import Shell.ShellModel Shell.ShellSkel GenTie.ShellTieBase.
Import ListNotations.
Local Open Scope Z_scope.

(* ---- the tables ---- *)
Definition row (s : T.state) : list G.update_elem := nth (Z.to_nat (st_z s)) G.update [].

Lemma row_tie s : go_get G.update (st_z s) = Ok (row s).
Proof. destruct s; reflexivity. Qed.

Definition enc_cell (r : option (T.state * T.action)) : res G.update_elem :=
  match r with
  | Some (s', a) => Ok (G.mk_update_elem (st_z s') (ac_z a))
  | None => Panic PIndex
  end.

Lemma cell_tie s c : go_get (row s) (cl_z c) = enc_cell (T.update s c).
Proof. destruct s, c; reflexivity. Qed.

Theorem C16_update_is_source : forall s c,
  (do t <- go_get G.update (st_z s); go_get t (cl_z c)) = enc_cell (T.update s c).
Proof. intros. rewrite row_tie. cbn [bind]. apply cell_tie. Qed.

Definition class_row_ok (n : nat) : bool :=
  match go_get G.classOf (Z.of_nat n) with
  | Ok z => z =? cl_z (T.class_of (N.of_nat n))
  | _ => false
  end.

Lemma class_table_ok : forallb class_row_ok (seq 0 256) = true.
Proof. vm_compute. reflexivity. Qed.

Theorem C16_classOf_is_source : forall b, (b < 256)%N -> go_get G.classOf (zb b) = Ok (cl_z (T.class_of b)).
Proof.
  intros b Hb.
  pose proof (proj1 (forallb_forall class_row_ok (seq 0 256)) class_table_ok (N.to_nat b)) as P.
  assert (I : In (N.to_nat b) (seq 0 256)) by (apply in_seq; lia).
  specialize (P I). unfold class_row_ok in P.
  rewrite N2Nat.id in P. replace (Z.of_nat (N.to_nat b)) with (zb b) in P by (unfold zb; lia).
  destruct (go_get G.classOf (zb b)) as [z| |]; try discriminate.
  apply Z.eqb_eq in P. subst z. reflexivity.
Qed.

Lemma lookup_tie {A} s c (K : G.update_elem -> res A) : (c < 256)%N ->
  (do t1 <- go_get G.update (st_z s); do t2 <- go_get G.classOf (zb c); do next <- go_get t1 t2; K next)
  = match T.update s (T.class_of c) with
    | Some (s', a) => K (G.mk_update_elem (st_z s') (ac_z a))
    | None => Panic PIndex
    end.
Proof.
  intros Hc. rewrite row_tie. cbn [bind]. rewrite C16_classOf_is_source by exact Hc. cbn [bind].
  rewrite cell_tie. destruct (T.update s (T.class_of c)) as [[s' a]|]; reflexivity.
Qed.

(* ---- the loop of Next ---- *)
Definition emb_next (r : M.next_res)
  : res (ctl (list Z * list Z * Z * go_error) (bool * list Z * list Z * Z * go_error)) :=
  match r with
  | NPanic => Panic PIndex
  | NEmit tok rest s' => Ok (Ret (true, zs rest, zs tok, st_z s', ENil))
  | NEof _ tok s' => Ok (Next ([], zs tok, st_z s', EEOF))
  end.

Lemma next_loop_ok : forall l s acc e fuel gas, bytes_ok l -> (length l < gas)%nat ->
  G.Next__loop1 fuel gas rd_ReadByte bb_WriteByte bb_Write (zs l) (zs acc) (st_z s) e
  = emb_next (H.scan_next l s acc).
Proof.
  induction l as [|c l IH]; intros s acc e fuel gas Hb Hg; (destruct gas as [|gas]; [simpl in Hg; lia|]).
  - reflexivity.
  - apply bytes_ok_cons in Hb. destruct Hb as [Hc Hl].
    cbn [G.Next__loop1 zs map rd_ReadByte bind go_err_eqb go_err_isnil negb]. fold (zs l).
    rewrite lookup_tie by exact Hc. cbn [H.scan_next].
    destruct (T.update s (T.class_of c)) as [[s' a]|]; [|reflexivity].
    cbn [G.update_elem_state G.update_elem_action].
    assert (Hg' : (length l < gas)%nat) by (simpl in Hg; lia).
    destruct a; cbn [ac_z Z.eqb Pos.eqb bind].
    + apply IH; assumption.
    + unfold bb_WriteByte. cbn [bind]. change (zs acc ++ [zb c]) with (zs acc ++ zs [c]). rewrite <- zs_app.
      apply IH; assumption.
    + unfold bb_Write. cbn [bind]. change (zs acc ++ [92; zb c]) with (zs acc ++ zs [92%N; c]). rewrite <- zs_app.
      apply IH; assumption.
    + reflexivity.
Qed.

Lemma scan_next_eof_has : forall l s acc has tok s',
  H.scan_next l s acc = NEof has tok s' -> has = T.eof_has_token s'.
Proof.
  induction l as [|c l IH]; intros s acc has tok s' E; cbn [H.scan_next] in E.
  - inversion E; subst. reflexivity.
  - destruct (T.update s (T.class_of c)) as [[s1 a]|]; [|discriminate].
    destruct a; try discriminate; eapply IH; exact E.
Qed.

Lemma has_token_z s : negb (st_z s =? 1) = T.eof_has_token s.
Proof. destruct s; reflexivity. Qed.

(* ---- Next ---- *)
Definition enc_sc (sc : M.scanner) : list Z * list Z * Z * go_error :=
  (zs (M.inp sc), zs (M.cur sc), st_z (M.st sc), err_z (M.eof sc)).

Definition enc_next (r : option (M.scanner * bool)) : res (bool * list Z * list Z * Z * go_error) :=
  match r with
  | None => Panic PIndex
  | Some (sc', ok) => Ok (ok, zs (M.inp sc'), zs (M.cur sc'), st_z (M.st sc'), err_z (M.eof sc'))
  end.

Lemma next_hand_src sc fuel : bytes_ok (M.inp sc) -> (length (M.inp sc) < fuel)%nat ->
  G.Next_ (zs (M.inp sc)) (zs (M.cur sc)) (st_z (M.st sc)) (err_z (M.eof sc))
    bb_Reset rd_ReadByte bb_WriteByte bb_Write fuel
  = enc_next (H.next sc).
Proof.
  intros Hb Hf. unfold G.Next_, H.next. destruct (M.eof sc) eqn:Ee.
  - cbn [err_z go_err_isnil negb enc_next]. rewrite Ee. reflexivity.
  - cbn [err_z go_err_isnil negb]. unfold bb_Reset. cbn [bind].
    change (@nil Z) with (zs []). rewrite next_loop_ok by assumption.
    destruct (H.scan_next (M.inp sc) (M.st sc) []) as [|tok rest s'|has tok s'] eqn:E.
    + reflexivity.
    + reflexivity.
    + cbn [emb_next bind enc_next M.inp M.cur M.st M.eof err_z zs map].
      rewrite has_token_z, <- (scan_next_eof_has _ _ _ _ _ _ E). reflexivity.
Qed.

(* one call of the model's Next on the remaining input = the generated Next over the popping reader *)
Theorem C16_next_is_source : forall sc fuel, bytes_ok (M.inp sc) -> (length (M.inp sc) < fuel)%nat ->
  G.Next_ (zs (M.inp sc)) (zs (M.cur sc)) (st_z (M.st sc)) (err_z (M.eof sc))
    bb_Reset rd_ReadByte bb_WriteByte bb_Write fuel
  = enc_next (M.next sc).
Proof. intros. rewrite next_hand. apply next_hand_src; assumption. Qed.

(* ---- Text, Complete, Err, Rest, Reset ---- *)
Theorem C16_text_is_source : forall sc,
  G.Text (zs (M.cur sc)) bb_String = Ok (zs (M.text sc), zs (M.cur sc)).
Proof. reflexivity. Qed.

Theorem C16_complete_is_source : forall sc, G.Complete (st_z (M.st sc)) = M.complete sc.
Proof. intros sc. unfold M.complete. destruct (M.st sc); reflexivity. Qed.

(* Err() returns the latch; the model's err_eof is the test Err() == io.EOF, its negation Err() == nil *)
Theorem C16_err_is_source : forall sc,
  G.Err (err_z (M.eof sc)) = err_z (M.err_eof sc) /\
  go_err_eqb (G.Err (err_z (M.eof sc))) EEOF = M.err_eof sc /\
  go_err_isnil (G.Err (err_z (M.eof sc))) = negb (M.err_eof sc).
Proof. intros sc. unfold G.Err, M.err_eof. destruct (M.eof sc); repeat split; reflexivity. Qed.

(* Rest: the Go result is the reader object itself = the unread input; the fields assigned are the
   model's new scanner (whose inp is empty because the model lets the caller read all of it) *)
Theorem C16_rest_is_source : forall sc,
  G.Rest (zs (M.inp sc)) (zs (M.cur sc)) (st_z (M.st sc)) (err_z (M.eof sc)) bb_Reset
  = Ok (zs (snd (M.rest sc)), zs (M.cur (fst (M.rest sc))), st_z (M.st (fst (M.rest sc))), err_z (M.eof (fst (M.rest sc)))).
Proof. reflexivity. Qed.

Theorem C16_reset_is_source : forall sc i,
  G.Reset (zs (M.inp sc)) (zs (M.cur sc)) (st_z (M.st sc)) (err_z (M.eof sc)) (zs i) rd_Reset bb_Reset
  = Ok (enc_sc (M.reset_sc sc i)).
Proof. reflexivity. Qed.

Print Assumptions C16_update_is_source.
Print Assumptions C16_classOf_is_source.
Print Assumptions C16_next_is_source.
Print Assumptions C16_text_is_source.
Print Assumptions C16_complete_is_source.
Print Assumptions C16_err_is_source.
Print Assumptions C16_rest_is_source.
Print Assumptions C16_reset_is_source.
