(* stree: treeToVine generated from the source against the model's tree_to_vine / t2v_loop.

   Go allocates a sentinel (stub), walks along the right spine with one pointer (cur) and
   right-rotates IN PLACE whenever cur.right has a left child (C.left = L.right; L.right = C;
   cur.right = L).  The model keeps the chain built so far as the reversed list of its keys and
   rebuilds the rest.  The tie is proved for a loop started at any cell [cu] whose right pointer
   represents [rest] on a tree-shaped region (trepr, StreeSep.v): afterwards cu.right represents
   what the model's loop (from the empty accumulator) returns, on the same cells; cu kept its key
   and left pointer; nothing else changed. *)
From Coq Require Import ZArith List Bool Arith Lia.
From Mds Require Import Gen.StreeConst Gen.StreeNode.
From Mds Require Import Common.FnRt Common.FnHeap GenTie.TieLib GenTie.StreeTieBase GenTie.StreeSep
  GenTie.StreeTieMutRotate.
Import ListNotations.

Section Vine.
Context {T : Type}.
Variable zero : T.
Notation tree := (SM.tree T).
Notation heap := (list (G.node T)).

(* the model's accumulator only ever grows at the front of the result *)
Lemma t2v_acc : forall (fm : nat) (rest : tree) (acc : list T),
  SM.t2v_loop fm acc rest = SM.bind (SM.t2v_loop fm [] rest) (fun v => SM.Ok (SM.vine_of acc v)).
Proof.
  induction fm as [|fm IH]; intros rest acc.
  - destruct rest; reflexivity.
  - destruct rest as [|cl cx cr]; [reflexivity|]. cbn [SM.t2v_loop]. destruct cl as [|ll lx lr].
    + rewrite (IH cr (cx :: acc)), (IH cr [cx]).
      destruct (SM.t2v_loop fm [] cr); reflexivity.
    + apply IH.
Qed.

(* the three stores of one right rotation; cu, C, L are three different cells *)
Lemma t2v_stores {A} (h : heap) cu cc C cC L cL (k : heap -> res A) :
  nth_error h cu = Some cc -> nth_error h C = Some cC -> nth_error h L = Some cL ->
  cu <> C -> cu <> L -> C <> L ->
  exists h3,
    (do h <- go_hmod h (Some C) (fun t6 => G.mk_node (G.node_X t6) (G.node_right cL) (G.node_right t6));
     do h <- go_hmod h (Some L) (fun t7 => G.mk_node (G.node_X t7) (G.node_left t7) (Some C));
     do h <- go_hmod h (Some cu) (fun t8 => G.mk_node (G.node_X t8) (G.node_left t8) (Some L));
     k h) = k h3 /\
    length h3 = length h /\
    nth_error h3 C = Some (G.mk_node (G.node_X cC) (G.node_right cL) (G.node_right cC)) /\
    nth_error h3 L = Some (G.mk_node (G.node_X cL) (G.node_left cL) (Some C)) /\
    nth_error h3 cu = Some (G.mk_node (G.node_X cc) (G.node_left cc) (Some L)) /\
    (forall j, j <> cu -> j <> C -> j <> L -> nth_error h3 j = nth_error h j).
Proof.
  intros Hcu HC HL N1 N2 N3.
  rewrite (hmod_some h C cC _ HC). cbn [bind]. set (h1 := upd h C _).
  assert (H1L : nth_error h1 L = Some cL) by (unfold h1; rewrite nth_upd_other; [exact HL|congruence]).
  rewrite (hmod_some h1 L cL _ H1L). cbn [bind]. set (h2 := upd h1 L _).
  assert (H2n : nth_error h2 cu = Some cc).
  { unfold h2. rewrite nth_upd_other by congruence. unfold h1. rewrite nth_upd_other by congruence. exact Hcu. }
  rewrite (hmod_some h2 cu cc _ H2n). cbn [bind]. set (h3 := upd h2 cu _).
  exists h3. split; [reflexivity|]. split; [|split; [|split; [|split]]].
  - unfold h3, h2, h1. rewrite !upd_length. reflexivity.
  - unfold h3. rewrite nth_upd_other by congruence. unfold h2. rewrite nth_upd_other by congruence.
    unfold h1. apply (upd_at h C cC _ HC).
  - unfold h3. rewrite nth_upd_other by congruence. unfold h2. apply (upd_at h1 L cL _ H1L).
  - unfold h3. apply (upd_at h2 cu cc _ H2n).
  - intros j J1 J2 J3. unfold h3. rewrite nth_upd_other by congruence. unfold h2. rewrite nth_upd_other by congruence.
    unfold h1. apply nth_upd_other. congruence.
Qed.

Lemma t2v_loop_ok : forall (fm : nat) (rest : tree) (h : heap) (cu : nat) (cc : G.node T) (Fr : list nat)
                           (fuel gas : nat),
  nth_error h cu = Some cc -> trepr h (G.node_right cc) rest Fr -> ~ In cu Fr -> (gas > fm)%nat ->
  rel (fun v (x : option nat * heap) => rot_post h cu cc Fr v (snd x))
      (SM.t2v_loop fm [] rest) (G.treeToVine_loop1 fuel gas (Some cu) h).
Proof.
  induction fm as [|fm IH]; intros rest h cu cc Fr fuel gas Hcu R Ncu Hg;
    (destruct gas as [|gas]; [lia|]); cbn [G.treeToVine_loop1];
    rewrite (hget_some h cu cc Hcu); cbn [bind].
  - destruct rest as [|cl cx cr]; [|exact I].
    apply trepr_leaf_inv in R. destruct R as [E ->]. rewrite E. cbn [go_pnil negb SM.t2v_loop SM.vine_of fold_left].
    apply rel_ok. cbn [snd]. exists cc, []. rewrite E.
    repeat split; auto using incl_refl; try apply frame_refl. constructor.
  - destruct rest as [|cl cx cr].
    { apply trepr_leaf_inv in R. destruct R as [E ->]. rewrite E. cbn [go_pnil negb SM.t2v_loop SM.vine_of fold_left].
      apply rel_ok. cbn [snd]. exists cc, []. rewrite E.
      repeat split; auto using incl_refl; try apply frame_refl. constructor. }
    tnode R C cC Fl Fcr EC HC Hl Hcr NCl NCr Hd1. rewrite EC. cbn [go_pnil negb].
    rewrite (hget_some h C cC HC). cbn [bind].
    assert (N1 : cu <> C) by (intros ->; apply Ncu; left; reflexivity).
    cbn [SM.t2v_loop]. destruct cl as [|ll lx lr].
    + (* C.left == nil: cur = C *)
      apply trepr_leaf_inv in Hl. destruct Hl as [EL ->]. rewrite EL. cbn [go_pnil app] in *.
      rewrite t2v_acc.
      assert (NC : ~ In C Fcr) by exact NCr.
      specialize (IH cr h C cC Fcr fuel gas HC Hcr NC ltac:(lia)).
      eapply rel_map; [exact IH|]. cbn [snd].
      intros v [last h'] [cC' [F' [EC' [EX [ELf [Rv [I1 [I2 [Fr' Len']]]]]]]]]. cbn [snd] in *.
      eexists. split; [reflexivity|]. cbn [SM.vine_of fold_left].
      assert (Hcu' : nth_error h' cu = Some cc).
      { destruct Fr' as [_ Eo]. rewrite Eo; [exact Hcu|apply nth_error_Some; rewrite Hcu; discriminate|].
        intros [X|X]; [congruence|]. apply Ncu. right. exact X. }
      exists cc, (C :: [] ++ F'). split; [exact Hcu'|]. split; [reflexivity|]. split; [reflexivity|].
      split; [|split; [|split; [|split]]].
      * rewrite EC. apply (trepr_mk h' C cC' SM.Leaf v [] F' EC'); auto.
        rewrite ELf, EL. constructor.
      * intros j Hj. pose proof (I1 j). inl. tauto.
      * intros j Hj. pose proof (I2 j). inl. tauto.
      * eapply frame_weaken; [exact Fr'|]. intros j Hj. inl. tauto.
      * exact Len'.
    + (* right rotation *)
      pose proof Hl as Hl0. tnode Hl L cL Fll Flr EL HL Hll Hlr NLl NLr Hd2. rewrite EL. cbn [go_pnil].
      rewrite (hget_some h L cL HL). cbn [bind].
      assert (N2 : cu <> L) by (intros ->; apply Ncu; inl; tauto).
      assert (N3 : C <> L) by (intros ->; apply NCl; left; reflexivity).
      destruct (t2v_stores h cu cc C cC L cL
                  (fun h0 => G.treeToVine_loop1 fuel gas (Some cu) h0) Hcu HC HL N1 N2 N3)
        as [h3 [E [Len3 [E3C [E3L [E3n Eo]]]]]].
      rewrite E. clear E.
      assert (Ag : forall Fj u a, trepr h a u Fj -> (forall i, In i Fj -> i <> cu /\ i <> C /\ i <> L) -> trepr h3 a u Fj).
      { intros Fj u a Ru D. apply (trepr_agree h); [exact Ru|]. intros i Hi. destruct (D i Hi) as [D1 [D2 D3]].
        apply Eo; assumption. }
      assert (R3 : trepr h3 (G.node_right (G.mk_node (G.node_X cc) (G.node_left cc) (Some L)))
                     (SM.Node ll (G.node_X cL) (SM.Node lr (G.node_X cC) cr)) (L :: Fll ++ (C :: Flr ++ Fcr))).
      { cbn [G.node_right].
        apply (trepr_mk h3 L _ ll _ Fll (C :: Flr ++ Fcr) E3L); cbn [G.node_left G.node_right G.node_X]; auto.
        - apply Ag; [exact Hll|]. intros i Hi. repeat split; intros ->; [apply Ncu|apply NCl|apply NLl]; inl; tauto.
        - apply (trepr_mk h3 C _ lr cr Flr Fcr E3C); cbn [G.node_left G.node_right G.node_X]; auto.
          + apply Ag; [exact Hlr|]. intros i Hi. repeat split; intros ->; [apply Ncu|apply NCl|apply NLr]; inl; tauto.
          + apply Ag; [exact Hcr|]. intros i Hi. pose proof (Hd1 L).
            repeat split; intros ->; [apply Ncu|apply NCr|]; inl; tauto.
          + intros X. apply NCl. inl. tauto.
          + intros i Hi X. apply (Hd1 i); inl; tauto.
        - intros X. pose proof (Hd1 L). inl. intuition congruence.
        - intros i Hi X. pose proof (Hd1 i). pose proof (Hd2 i). inl. destruct X as [<-|[X|X]]; tauto. }
      assert (Ncu3 : ~ In cu (L :: Fll ++ (C :: Flr ++ Fcr))) by (intros X; apply Ncu; inl; tauto).
      specialize (IH _ h3 cu _ _ fuel gas E3n R3 Ncu3 ltac:(lia)).
      eapply rel_weaken; [exact IH|]. cbn [snd].
      intros v [last h'] [cc' [F' [Ecc' [EX [ELf [Rv [I1 [I2 [Fr' Len']]]]]]]]]. cbn [snd] in *.
      cbn [G.node_X G.node_left] in EX, ELf.
      exists cc', F'. split; [exact Ecc'|]. split; [exact EX|]. split; [exact ELf|]. split; [exact Rv|].
      split; [|split; [|split]].
      * intros j Hj. apply I1 in Hj. inl. tauto.
      * intros j Hj. apply I2. inl. tauto.
      * destruct Fr' as [_ Eo']. split; [lia|]. intros j Hj Nj.
        rewrite Eo'; [apply Eo| |]; try (intros ->); try (intros X); try lia; apply Nj; inl; tauto.
      * lia.
Qed.

(* func treeToVine[T any](n *node[T]) *node[T]: the stub is a fresh cell beyond the old heap *)
Theorem C02_treeToVine_is_source : forall (t : tree) (h : heap) (n : option nat) (F : list nat) (fuel : nat),
  trepr h n t F -> (fuel > SM.t2v_fuel t)%nat ->
  rel (fun v (x : option nat * heap) =>
         exists F', trepr (snd x) (fst x) v F' /\ incl F' F /\ incl F F' /\ frame h (snd x) F /\
                    length (snd x) = S (length h))
      (SM.tree_to_vine t) (G.treeToVine n h zero fuel).
Proof.
  intros t h n F fuel R Hf. unfold G.treeToVine, SM.tree_to_vine, go_hnew.
  set (stub := length h). set (c0 := G.mk_node zero None n). set (h0 := h ++ [c0]).
  assert (H0 : nth_error h0 stub = Some c0).
  { unfold h0, stub. rewrite nth_error_app2 by lia. rewrite Nat.sub_diag. reflexivity. }
  assert (R0 : trepr h0 (G.node_right c0) t F) by (apply trepr_app; exact R).
  assert (N0 : ~ In stub F) by (intros X; apply (trepr_bound h n t F R) in X; unfold stub in X; lia).
  pose proof (t2v_loop_ok (SM.t2v_fuel t) t h0 stub c0 F fuel fuel H0 R0 N0 Hf) as P.
  destruct (SM.t2v_loop (SM.t2v_fuel t) [] t) as [v| | |]; cbn [rel] in *; auto.
  - destruct P as [[last h'] [E [cc' [F' [Ecc' [_ [_ [Rv [I1 [I2 [Fr' Len']]]]]]]]]]]. cbn [snd] in *.
    rewrite E. cbn [bind]. rewrite (hget_some h' stub cc' Ecc'). cbn [bind].
    eexists. split; [reflexivity|]. cbn [fst snd]. exists F'.
    split; [exact Rv|]. split; [exact I1|]. split; [exact I2|]. split.
    + destruct Fr' as [_ Eo]. split; [rewrite Len'; unfold h0; rewrite app_length; cbn [length]; lia|].
      intros j Hj Nj. rewrite Eo.
      * unfold h0. apply nth_error_app1. exact Hj.
      * unfold h0. rewrite app_length. cbn [length]. lia.
      * intros [X|X]; [unfold stub in X; lia|contradiction].
    + rewrite Len'. unfold h0. rewrite app_length. cbn [length]. lia.
  - rewrite P. reflexivity.
Qed.

End Vine.

Print Assumptions C02_treeToVine_is_source.
