(* C05/C06 at source level: a state machine whose operations CALL THE FUNCTIONS GENERATED from
   heapq/heapq.go (Gen/FnHeapq.v) satisfies the history statements proved of the model.

   The per-function ties (GenTie/HeapqTie*.v) are stated for the variant the source currently is
   ([H.current_variant], read from Gen/HeapqIdx.v) and, where the model picks its own loop fuel,
   as [res_le (emb model) (generated ... fuel)] for fuel above a bound.  Here:

   [gstep zero sp q o] : the model's state (the fields data, cmp), the model's op and out types.
     fuel      [gfuel q o] = 2 + len(q.data)  (OSet vs / ONewWithData c vs: 2 + len(vs)): above every
               bound of the ties.
     OAdd x, OPop, ORemove i, OPeek i, OSet vs, OReorder c, OClear, ONew c, ONewWithData c vs, OLen,
     OIsEmpty  the generated function of that name on (q.data, q.cmp); the calls of q.move it
               returns are the step's move log, in order (NewWithData: dropped, the move function is
               the no-op then - as in the model).
     OFront    the generated Front gives a T (the zero value when empty); the model's out type says
               RVal None for "zero value, queue empty": the generated IsEmpty tells which.
               Pop/Remove/Peek: (x, true) is RVal (Some x), (zero, false) is RVal None.
     RPanic    Remove(n)/Peek(n) with n < 0: the generated function answers
               Panic (PMsg "index out of range") (the panic statement of the source).  The model
               records it as the output RPanic and goes on from the unchanged state (the caller
               recovers).  [gstep] does the same: the generated functions do not return a state at
               a panic; that the state is the one before the call is read off Gen/FnHeapq.v (the
               panic is raised before any field is assigned), it is NOT a consequence of the ties.
     OSet vs   the generated Set takes the rest of q.data's backing array up to cap (a companion
               the other generated functions do not track): [sp q], an ARBITRARY function of the
               state; every statement holds for every [sp].
     OEach k   [not_translated]: the generated Each takes a pure callback and returns unit; the
               model's counting callback cannot be run through it.  C05_Each_is_source (for every
               state, every pure callback) stands for it.
   Not translated at all: Sort, Update (C05_sort and the installation of the callback stay
   model-level + correspondence). *)
From Coq Require Import ZArith List Bool Lia.
From Coq Require String.
From Mds Require Import Common.FnRt GenTie.TieLib Gen.FnHeapq Gen.HeapqIdx GenTie.HeapqTieBase.
From Mds Require Import GenTie.HeapqTieUp GenTie.HeapqTieDown GenTie.HeapqTieObserve GenTie.HeapqTieReorder GenTie.HeapqTieSet.
From Mds Require Heapq.HeapqSpec.
Import ListNotations.
Local Open Scope Z_scope.

Module HS := HeapqSpec.
Notation cv := H.current_variant.

Section Src.
Context {T : Type}.
Variable zero : T.
Notation queue := (H.queue T).
Variable sp : queue -> list T.

Definition mkq (l : list T) (c : T -> T -> Z) : queue := {| H.data := l; H.qcmp := c |}.

Definition oval (x : T) (ok : bool) : option T := if ok then Some x else None.

(* the panic statement of Remove and Peek *)
Definition doc_panic (k : panic_kind) : bool :=
  match k with PMsg m => String.eqb m "index out of range"%string | _ => false end.

Definition not_translated {A : Type} : res A := Panic (PMsg "not translated").

Definition src_op (o : H.op T) : bool := match o with H.OEach _ => false | _ => true end.

Definition gfuel (q : queue) (o : H.op T) : nat :=
  match o with
  | H.OSet vs | H.ONewWithData _ vs => S (S (length vs))
  | _ => S (S (length (H.data q)))
  end.

Definition gstep (q : queue) (o : H.op T) : res (queue * (H.out T * H.moves T)) :=
  let fuel := gfuel q o in
  match o with
  | H.OAdd x =>
    do r <- Add (H.data q) (H.qcmp q) x fuel;
    let '(i, l, m) := r in Ok (mkq l (H.qcmp q), (H.RIdx i, m))
  | H.OPop =>
    do r <- Pop (H.data q) (H.qcmp q) zero fuel;
    let '(x, ok, l, m) := r in Ok (mkq l (H.qcmp q), (H.RVal (oval x ok), m))
  | H.ORemove i =>
    match Remove (H.data q) (H.qcmp q) i zero fuel with
    | Ok (x, ok, l, m) => Ok (mkq l (H.qcmp q), (H.RVal (oval x ok), m))
    | Panic k => if doc_panic k then Ok (q, (H.RPanic, [])) else Panic k
    | OutOfFuel => OutOfFuel
    end
  | H.OPeek i =>
    match Peek (H.data q) i zero with
    | Ok (x, ok) => Ok (q, (H.RVal (oval x ok), []))
    | Panic k => if doc_panic k then Ok (q, (H.RPanic, [])) else Panic k
    | OutOfFuel => OutOfFuel
    end
  | H.OFront =>
    do x <- Front (H.data q) zero;
    Ok (q, (H.RVal (oval x (negb (IsEmpty (H.data q)))), []))
  | H.OSet vs =>
    do r <- Set_ (H.data q) (sp q) (H.qcmp q) vs zero fuel;
    let '(l, _, m) := r in Ok (mkq l (H.qcmp q), (H.RUnit, m))
  | H.OReorder c =>
    do r <- Reorder (H.data q) (H.qcmp q) c fuel;
    let '(l, c', m) := r in Ok (mkq l c', (H.RUnit, m))
  | H.OClear => do l <- Clear (H.data q); Ok (mkq l (H.qcmp q), (H.RUnit, []))
  | H.ONew c => let '(l, c') := New c in Ok (mkq l c', (H.RUnit, []))
  | H.ONewWithData c vs =>
    do r <- NewWithData c vs fuel;
    let '(l, c', _) := r in Ok (mkq l c', (H.RUnit, []))
  | H.OLen => Ok (q, (H.RNum (Len (H.data q)), []))
  | H.OIsEmpty => Ok (q, (H.RBool (IsEmpty (H.data q)), []))
  | H.OEach _ => not_translated
  end.

(* all outputs of a history; a failing step ends the list with its failure (as the model's run) *)
Fixpoint grun (q : queue) (ops : list (H.op T)) : list (res (H.out T * H.moves T)) :=
  match ops with
  | [] => []
  | o :: ops' =>
    match gstep q o with
    | Ok (q', r) => Ok r :: grun q' ops'
    | Panic k => [Panic k]
    | OutOfFuel => [OutOfFuel]
    end
  end.

Fixpoint gexec (q : queue) (ops : list (H.op T)) : res queue :=
  match ops with
  | [] => Ok q
  | o :: ops' => do r <- gstep q o; gexec (fst r) ops'
  end.

(* HeapqSpec.hist and hist_pos with the generated step in the place of the model's *)
Fixpoint ghist (G : queue -> H.op T -> Prop)
               (P : queue -> H.op T -> H.out T -> H.moves T -> queue -> Prop)
               (q : queue) (ops : list (H.op T)) : Prop :=
  match ops with
  | [] => True
  | o :: ops' =>
    G q o -> exists q' r m, gstep q o = Ok (q', (r, m)) /\ P q o r m q' /\ ghist G P q' ops'
  end.

Fixpoint ghist_pos (q : queue) (L : H.moves T) (tr : list T) (ops : list (H.op T)) : Prop :=
  match ops with
  | [] => True
  | o :: ops' =>
    HS.distinct_op T q o ->
    exists q' r m, gstep q o = Ok (q', (r, m)) /\
      let L' := L ++ m in
      let tr' := HS.tracked_after T tr o in
      NoDup (H.data q') /\
      HS.positions_ok T L' tr' (H.data q') /\
      (match o, r with H.OAdd x, H.RIdx i => H.get (H.data q') i = Some x /\ HS.last_report T L' x i | _, _ => True end) /\
      (match o, r with
       | H.ORemove p, r => forall e, In e tr -> In e (H.data q) -> HS.last_report T L e p -> r = H.RVal (Some e) /\ ~ In e (H.data q')
       | _, _ => True end) /\
      ghist_pos q' L' tr' ops'
  end.

(* ---- one step ---- *)
Lemma le_ok {A B} (f : A -> B) (m : H.res A) (g : res B) (a : A) :
  res_le (embf f m) g -> m = H.Ok a -> g = Ok (f a).
Proof. intros L E. subst m. destruct L as [L|L]; [discriminate|]. symmetry; exact L. Qed.

Lemma le_panic {A B} (f : A -> B) (m : H.res A) (g : res B) :
  res_le (embf f m) g -> m = H.IndexPanic -> g = Panic PIndex.
Proof. intros L E. subst m. destruct L as [L|L]; [discriminate|]. symmetry; exact L. Qed.

Lemma mkq_eta (q : queue) : mkq (H.data q) (H.qcmp q) = q.
Proof. destruct q; reflexivity. Qed.

Lemma add_cmp q x q' m r : H.Add T cv q x = H.Ok (q', m, r) -> H.qcmp q' = H.qcmp q.
Proof.
  unfold H.Add. cbv zeta. destruct (H.get (H.data q ++ [x]) (H.len (H.data q))); [|discriminate].
  match goal with |- context[H.bind ?e _] => destruct e as [[[l' m'] r']| |] end; cbn [H.bind]; try discriminate.
  intros E; inversion E; reflexivity.
Qed.

Lemma pop_cmp q q' m r : H.Pop T cv q = H.Ok (q', m, r) -> H.qcmp q' = H.qcmp q.
Proof.
  unfold H.Pop. destruct (Pop_empty (H.len (H.data q))); [intros E; inversion E; reflexivity|].
  destruct (H.pop T cv (H.qcmp q) (H.data q) Pop_index) as [[[l' m'] r']| |]; cbn [H.bind]; try discriminate.
  intros E; inversion E; reflexivity.
Qed.

Lemma remove_cmp q i q' m r : H.Remove T cv q i = H.Ok (q', m, r) -> H.qcmp q' = H.qcmp q.
Proof.
  unfold H.Remove. destruct (Remove_negative i); [intros E; inversion E; reflexivity|].
  destruct (Remove_beyond i (H.len (H.data q))); [intros E; inversion E; reflexivity|].
  destruct (H.pop T cv (H.qcmp q) (H.data q) i) as [[[l' m'] r']| |]; cbn [H.bind]; try discriminate.
  intros E; inversion E; reflexivity.
Qed.

Lemma set_cmp q vs q' m : H.Set_ T q vs = H.Ok (q', m) -> H.qcmp q' = H.qcmp q.
Proof.
  unfold H.Set_.
  match goal with |- context[H.bind ?e _] => destruct e as [[l' m']| |] end; cbn [H.bind]; try discriminate.
  intros E; inversion E; reflexivity.
Qed.

Ltac oof := match goal with |- res_le (embf _ H.OutOfFuel) _ => apply res_le_oof end.

Theorem gstep_le : forall (q : queue) (o : H.op T), src_op o = true ->
  res_le (embf (fun x => x) (H.step T cv q o)) (gstep q o).
Proof.
  intros q o Ho. destruct o; try discriminate Ho; cbn [gstep H.step gfuel].
  - (* Add *)
    pose proof (C05_add_is_source q x (S (S (length (H.data q))))) as L.
    rewrite app_length in L. cbn [length] in L. specialize (L ltac:(lia)).
    destruct (H.Add T cv q x) as [[[q' m] r]| |] eqn:E; cbn [H.bind embf]; [| |apply res_le_oof].
    + rewrite (le_ok _ _ _ _ L eq_refl). cbn [bind add_ret].
      rewrite <- (add_cmp _ _ _ _ _ E), mkq_eta. apply res_le_refl.
    + rewrite (le_panic _ _ _ L eq_refl). apply res_le_refl.
  - (* Pop *)
    pose proof (C05_Pop_is_source q zero (S (S (length (H.data q)))) ltac:(lia)) as L.
    destruct (H.Pop T cv q) as [[[q' m] r]| |] eqn:E; cbn [H.bind embf]; [| |apply res_le_oof].
    + rewrite (le_ok _ _ _ _ L eq_refl). cbn [bind pop_out].
      rewrite <- (pop_cmp _ _ _ _ E). destruct r; cbn [oval]; rewrite mkq_eta; apply res_le_refl.
    + rewrite (le_panic _ _ _ L eq_refl). apply res_le_refl.
  - (* Remove *)
    pose proof (C06_Remove_is_source q i zero (S (S (length (H.data q)))) ltac:(lia)) as L.
    destruct (H.Remove T cv q i) as [[[q' m] r]| |] eqn:E; cbn [H.bind embf]; [| |apply res_le_oof].
    + pose proof (remove_cmp _ _ _ _ _ E) as C.
      destruct r; cbn [remove_out] in L; (destruct L as [L|L]; [discriminate|]); rewrite <- L; cbn [doc_panic String.eqb].
      * (* RemPanic: state unchanged in the model *)
        assert (q' = q /\ m = []) as [-> ->].
        { revert E. unfold H.Remove. destruct (Remove_negative i); [intros E; inversion E; auto|].
          destruct (Remove_beyond i (H.len (H.data q))); [intros E; inversion E|].
          destruct (H.pop T cv (H.qcmp q) (H.data q) i) as [[[l' m'] r']| |]; cbn [H.bind]; intros E; inversion E. }
        apply res_le_refl.
      * rewrite <- C, mkq_eta. apply res_le_refl.
      * rewrite <- C, mkq_eta. apply res_le_refl.
    + cbn [remove_out] in L. destruct L as [L|L]; [discriminate|]. rewrite <- L. apply res_le_refl.
  - (* Peek *)
    rewrite (C05_Peek_is_source q i zero).
    destruct (H.Peek T q i) as [[| |x]| |]; cbn [H.bind embf peek_out doc_panic]; apply res_le_refl.
  - (* Front *)
    rewrite (C05_Front_is_source q zero).
    assert (K : forall r, H.Front T q = H.Ok r -> r = None <-> IsEmpty (H.data q) = true).
    { intros r. unfold H.Front, IsEmpty, Front_empty. change (H.len (H.data q)) with (zlen (H.data q)).
      destruct (zlen (H.data q) =? 0); [intros E; inversion E; split; auto|].
      destruct (H.get (H.data q) Front_index); intros E; inversion E; split; discriminate. }
    destruct (H.Front T q) as [r| |] eqn:E; cbn [H.bind embf bind]; try apply res_le_refl.
    specialize (K r eq_refl). destruct r as [x|]; cbn [front_out].
    + destruct (IsEmpty (H.data q)); [destruct K as [_ K]; discriminate (K eq_refl)|]. apply res_le_refl.
    + destruct K as [K _]. rewrite (K eq_refl). apply res_le_refl.
  - (* Set *)
    pose proof (C05_Set_is_source q (sp q) vs zero (S (S (length vs))) ltac:(lia)) as L.
    destruct (H.Set_ T q vs) as [[q' m]| |] eqn:E; cbn [H.bind embf]; [| |apply res_le_oof].
    + rewrite (le_ok _ _ _ _ L eq_refl). cbn [bind set_ret].
      rewrite <- (set_cmp _ _ _ _ E), mkq_eta. apply res_le_refl.
    + rewrite (le_panic _ _ _ L eq_refl). apply res_le_refl.
  - (* Reorder *)
    pose proof (C05_Reorder_is_source q c (S (S (length (H.data q)))) ltac:(lia)) as L.
    destruct (H.Reorder T q c) as [[q' m]| |] eqn:E; cbn [H.bind embf]; [| |apply res_le_oof].
    + rewrite (le_ok _ _ _ _ L eq_refl). cbn [bind reorder_ret]. rewrite mkq_eta. apply res_le_refl.
    + rewrite (le_panic _ _ _ L eq_refl). apply res_le_refl.
  - (* Clear *)
    rewrite (C05_Clear_is_source q). cbn [bind embf H.Clear H.data]. apply res_le_refl.
  - (* New *)
    rewrite (C05_New_is_source c). cbn [embf H.New H.data H.qcmp]. apply res_le_refl.
  - (* NewWithData *)
    pose proof (C05_NewWithData_is_source c vs (S (S (length vs))) ltac:(lia)) as L.
    destruct (H.NewWithData T c vs) as [[q' m]| |] eqn:E; cbn [H.bind embf]; [| |apply res_le_oof].
    + rewrite (le_ok _ _ _ _ L eq_refl). cbn [bind reorder_ret]. rewrite mkq_eta. apply res_le_refl.
    + rewrite (le_panic _ _ _ L eq_refl). apply res_le_refl.
  - apply res_le_refl.
  - apply res_le_refl.
Qed.

Corollary gstep_ok : forall q o x, src_op o = true -> H.step T cv q o = H.Ok x -> gstep q o = Ok x.
Proof.
  intros q o x Ho E. pose proof (gstep_le q o Ho) as L. rewrite E in L.
  destruct L as [L|L]; [discriminate|]. symmetry; exact L.
Qed.

(* ---- whole histories ---- *)
Theorem ghist_of_hist : forall G P (ops : list (H.op T)) (q : queue),
  forallb src_op ops = true -> HS.hist T G P cv q ops -> ghist G P q ops.
Proof.
  intros G P. induction ops as [|o ops IH]; intros q Hs Hh; [exact I|].
  cbn [forallb] in Hs. apply andb_prop in Hs. destruct Hs as [Ho Hr].
  cbn [ghist HS.hist] in *. intros Hg.
  destruct (Hh Hg) as (q' & r & m & E & HP & Hrest).
  exists q', r, m. split; [exact (gstep_ok _ _ _ Ho E)|]. split; [exact HP|]. apply IH; assumption.
Qed.

Theorem ghist_pos_of_hist_pos : forall (ops : list (H.op T)) (q : queue) (L : H.moves T) (tr : list T),
  forallb src_op ops = true -> HS.hist_pos T cv q L tr ops -> ghist_pos q L tr ops.
Proof.
  induction ops as [|o ops IH]; intros q L tr Hs Hh; [exact I|].
  cbn [forallb] in Hs. apply andb_prop in Hs. destruct Hs as [Ho Hr].
  cbn [ghist_pos HS.hist_pos] in *. intros Hd.
  destruct (Hh Hd) as (q' & r & m & E & H1 & H2 & H3 & H4 & Hrest).
  exists q', r, m. split; [exact (gstep_ok _ _ _ Ho E)|].
  split; [exact H1|]. split; [exact H2|]. split; [exact H3|]. split; [exact H4|]. apply IH; assumption.
Qed.

Theorem grun_ok : forall (ops : list (H.op T)) (q : queue) (outs : list (H.out T * H.moves T)),
  forallb src_op ops = true ->
  H.run T cv q ops = map H.Ok outs -> grun q ops = map Ok outs.
Proof.
  induction ops as [|o ops IH]; intros q outs Hs E.
  - destruct outs; [reflexivity|discriminate E].
  - cbn [forallb] in Hs. apply andb_prop in Hs. destruct Hs as [Ho Hr].
    cbn [grun H.run] in *.
    destruct (H.step T cv q o) as [[q' r]| |] eqn:Es;
      (destruct outs as [|r0 outs]; [discriminate E|]); cbn [map] in E; try discriminate E.
    inversion E; subst r0. rewrite (gstep_ok _ _ _ Ho Es). cbn [map]. f_equal. apply IH; assumption.
Qed.

End Src.

(* ---- composition with Props/C05.v and Props/C06.v (model-level theorems at the current variant) ---- *)
From Mds Require Props.C05 Props.C06 Heapq.HeapqOrder Heapq.HeapqTriggerSpec.

Theorem conservation_source : forall (T : Type) (zero : T) (sp : H.queue T -> list T)
    (ops : list (H.op T)) (q : H.queue T),
  forallb src_op ops = true ->
  ghist zero sp (fun _ _ => True) (fun q o r m q' => HS.conserved T q o r m q' /\ HS.cmp_kept T q o q') q ops.
Proof.
  intros T zero sp ops q Hs. apply ghist_of_hist; [exact Hs|]. exact (C05.C05_conservation T cv ops q).
Qed.

Theorem min_partial_source : forall (T : Type) (zero : T) (sp : H.queue T -> list T)
    (ops : list (H.op T)) (q : H.queue T),
  forallb src_op ops = true -> HeapqOrder.inv T q ->
  ghist zero sp (fun q o => HS.op_wf T o /\ HeapqTriggerSpec.outside_triggers T cv q o) (HS.min_answer T) q ops.
Proof.
  intros T zero sp ops q Hs Hi. apply ghist_of_hist; [exact Hs|]. exact (C05.C05_min_partial T cv ops q Hi).
Qed.

Theorem positions_source : forall (T : Type) (zero : T) (sp : H.queue T -> list T)
    (ops : list (H.op T)) (q : H.queue T) (L : H.moves T) (tr : list T),
  forallb src_op ops = true ->
  NoDup (H.data q) -> HS.positions_ok T L tr (H.data q) -> ghist_pos zero sp q L tr ops.
Proof.
  intros T zero sp ops q L tr Hs Hn Hp. apply ghist_pos_of_hist_pos; [exact Hs|].
  exact (C06.C06_positions T cv ops q L tr Hn Hp).
Qed.

(* from the queue the GENERATED constructor New(c) returns *)
Theorem positions_from_new_source : forall (T : Type) (zero : T) (sp : H.queue T -> list T)
    (c : T -> T -> Z) (ops : list (H.op T)),
  forallb src_op ops = true ->
  ghist_pos zero sp (mkq (fst (New c)) (snd (New c))) [] [] ops.
Proof.
  intros T zero sp c ops Hs. apply ghist_pos_of_hist_pos; [exact Hs|].
  exact (C06.C06_positions_from_new T cv c ops).
Qed.

Theorem positions_after_install_source : forall (T : Type) (zero : T) (sp : H.queue T -> list T)
    (q : H.queue T) (ops : list (H.op T)),
  forallb src_op ops = true -> NoDup (H.data q) -> ghist_pos zero sp q [] [] ops.
Proof.
  intros T zero sp q ops Hs Hn. apply ghist_pos_of_hist_pos; [exact Hs|].
  exact (C06.C06_positions_after_install T cv q ops Hn).
Qed.
