(* LNDSFunc, LISFunc, LNDS, LIS of slice/lis.go: the model (Slice/LisModel.v: run_func over the
   generated definitions of Gen/LisIdx.v) = the functions generated from the whole bodies
   (Gen/FnLis.v), for every element type, EVERY comparison function (no law), every input.

   Shape of the statements (LisTieBase.v): [req (emb (model vs)) (Gen.f vs ... fuel)] for
   fuel >= len(vs) + 2: the model answers [Some out] iff the generated function returns that
   slice, [None] iff it panics, and the generated function never runs out of fuel.  The result of
   the generated functions says WHICH slice is returned: [SlOf vs_v] (the argument itself) on the
   early return -- exactly when the model's generated condition [lnds_empty_cond] holds, where
   the model answers [Some vs] -- and [SlNew out] (a slice made by the function) otherwise.

   The model's `ret` is a [list (option T)] ([None] = a slot not yet written) checked by
   [all_some] at the end; the generated code starts from [repeat zero_T n] as make does.  The
   proof shows that after i rounds of the walk exactly the last i slots are written, so no zero
   value survives and the result does not depend on [zero_T]. *)
From Coq Require Import ZArith List Bool Lia ZifyBool.
From Mds Require Import Common.FnRt GenTie.TieLib Gen.LisIdx Gen.FnLis Gen.FnSlices Slice.LcsModel Slice.LisModel
  GenTie.LisTieBase GenTie.LisTieBisect.
Import ListNotations.
Local Open Scope Z_scope.

Lemma all_some_map_some {A} (l : list A) : all_some (map Some l) = Some l.
Proof. induction l; simpl; [reflexivity|]. rewrite IHl. reflexivity. Qed.

Lemma upd_repeat_last {A} (a x : A) k l : upd (repeat a (S k) ++ l) k x = repeat a k ++ x :: l.
Proof. induction k; simpl; [reflexivity|]. f_equal. exact IHk. Qed.

Lemma go_sub_tail {A} (l : list A) : 1 <= FnRt.zlen l -> go_sub l 1 (FnRt.zlen l) = Ok (skipn 1 l).
Proof.
  intros H. unfold go_sub. replace ((0 <=? 1) && (1 <=? FnRt.zlen l)) with true by lia.
  rewrite Z.leb_refl. f_equal. apply firstn_all2. rewrite skipn_length. unfold FnRt.zlen in *. lia.
Qed.

Lemma go_sub_prefix_req {A} (l : list A) hi : req (emb (zslice_hi l hi)) (go_sub l 0 hi).
Proof.
  unfold zslice_hi, go_sub. change (LcsModel.zlen l) with (FnRt.zlen l).
  destruct (hi <? 0) eqn:E1; simpl.
  - replace (0 <=? hi) with false by lia. exact I.
  - replace (0 <=? hi) with true by lia. simpl.
    destruct (FnRt.zlen l <? hi) eqn:E2; simpl.
    + replace (hi <=? FnRt.zlen l) with false by lia. exact I.
    + replace (hi <=? FnRt.zlen l) with true by lia. simpl. rewrite Z.sub_0_r. reflexivity.
Qed.

Lemma zslice_hi_length {A} (l s : list A) hi : zslice_hi l hi = Some s -> (length s <= length l)%nat.
Proof.
  unfold zslice_hi. destruct ((hi <? 0) || (LcsModel.zlen l <? hi)); intros H; inversion H.
  rewrite firstn_length. lia.
Qed.

(* what the loop lemmas say about two results: same value, or both a panic *)
Definition agree {A B} (P : A -> B -> Prop) (o : option A) (r : res B) : Prop :=
  match o, r with
  | Some a, Ok b => P a b
  | None, Panic _ => True
  | _, _ => False
  end.

Section Lis.
Context {T : Type}.
Variable cmp : T -> T -> Z.
Variable vs : list T.

(* the function literal both functions hand to their search *)
Definition clo : Z -> T -> res Z := fun idx target => bind (go_get vs idx) (fun t => Ok (cmp t target)).

Lemma clo_ok_lnds idx target : req (emb (key_cmp T cmp lnds_gen vs idx target)) (clo idx target).
Proof. unfold key_cmp, clo. req_get vs idx. reflexivity. Qed.

Lemma clo_ok_lis idx target : req (emb (key_cmp T cmp lis_gen_ vs idx target)) (clo idx target).
Proof. unfold key_cmp, clo. req_get vs idx. reflexivity. Qed.

(* ---------------------------------------------------------------- the walk back through prev *)
Lemma lnds_walk_req : forall cnt gas f0 prev i (suf : list T) seqIdx zero,
  length suf = i -> (cnt < gas)%nat ->
  req (emb (obind (back_walk T lnds_gen cnt vs prev (Z.of_nat i) (repeat None cnt ++ map Some suf) seqIdx) all_some))
      (bind (LNDSFunc_loop2 f0 gas vs prev (Z.of_nat (i + cnt)) (repeat zero cnt ++ suf) seqIdx (Z.of_nat i))
            (fun '(r, _, _) => Ok r)).
Proof.
  induction cnt; intros gas f0 prev i suf seqIdx zero Hs Hg; (destruct gas; [lia|]); cbn [back_walk LNDSFunc_loop2].
  - replace (Z.of_nat i <? Z.of_nat (i + 0)) with false by lia.
    cbn [repeat app obind bind]. rewrite all_some_map_some. reflexivity.
  - replace (Z.of_nat i <? Z.of_nat (i + S cnt)) with true by lia.
    req_get vs seqIdx.
    assert (Hlen : forall (A : Type) (a : A) (l : list A), length l = i -> FnRt.zlen (repeat a (S cnt) ++ l) - 1 - Z.of_nat i = Z.of_nat cnt).
    { intros A a l Hl. unfold FnRt.zlen. rewrite app_length, repeat_length. lia. }
    unfold g_ret_idx, lnds_gen, lnds_ret_idx. change (@LcsModel.zlen) with (@FnRt.zlen).
    rewrite (Hlen _ None (map Some suf)) by (rewrite map_length; exact Hs).
    rewrite (Hlen _ zero suf) by exact Hs.
    unfold zupd, go_set. replace (Z.of_nat cnt <? 0) with false by lia.
    rewrite Nat2Z.id.
    rewrite upd_nat_eq by (rewrite app_length, repeat_length; lia).
    replace ((0 <=? Z.of_nat cnt) && (Z.of_nat cnt <? FnRt.zlen (repeat zero (S cnt) ++ suf))) with true
      by (unfold FnRt.zlen; rewrite app_length, repeat_length; lia).
    rewrite !upd_repeat_last. cbn [bind obind emb].
    req_get prev seqIdx.
    change (Some t :: map Some suf) with (map Some (t :: suf)).
    replace (Z.of_nat i + 1) with (Z.of_nat (S i)) by lia.
    replace (i + S cnt)%nat with (S i + cnt)%nat by lia.
    apply IHcnt; simpl; lia.
Qed.

Lemma lis_walk_req : forall cnt gas f0 prev i (suf : list T) seqIdx zero,
  length suf = i -> (cnt < gas)%nat ->
  req (emb (obind (back_walk T lis_gen_ cnt vs prev (Z.of_nat i) (repeat None cnt ++ map Some suf) seqIdx) all_some))
      (bind (LISFunc_loop2 f0 gas vs prev (Z.of_nat (i + cnt)) (repeat zero cnt ++ suf) seqIdx (Z.of_nat i))
            (fun '(r, _, _) => Ok r)).
Proof.
  induction cnt; intros gas f0 prev i suf seqIdx zero Hs Hg; (destruct gas; [lia|]); cbn [back_walk LISFunc_loop2].
  - replace (Z.of_nat i <? Z.of_nat (i + 0)) with false by lia.
    cbn [repeat app obind bind]. rewrite all_some_map_some. reflexivity.
  - replace (Z.of_nat i <? Z.of_nat (i + S cnt)) with true by lia.
    req_get vs seqIdx.
    assert (Hlen : forall (A : Type) (a : A) (l : list A), length l = i -> FnRt.zlen (repeat a (S cnt) ++ l) - 1 - Z.of_nat i = Z.of_nat cnt).
    { intros A a l Hl. unfold FnRt.zlen. rewrite app_length, repeat_length. lia. }
    unfold g_ret_idx, lis_gen_, lis_ret_idx. change (@LcsModel.zlen) with (@FnRt.zlen).
    rewrite (Hlen _ None (map Some suf)) by (rewrite map_length; exact Hs).
    rewrite (Hlen _ zero suf) by exact Hs.
    unfold zupd, go_set. replace (Z.of_nat cnt <? 0) with false by lia.
    rewrite Nat2Z.id.
    rewrite upd_nat_eq by (rewrite app_length, repeat_length; lia).
    replace ((0 <=? Z.of_nat cnt) && (Z.of_nat cnt <? FnRt.zlen (repeat zero (S cnt) ++ suf))) with true
      by (unfold FnRt.zlen; rewrite app_length, repeat_length; lia).
    rewrite !upd_repeat_last. cbn [bind obind emb].
    req_get prev seqIdx.
    change (Some t :: map Some suf) with (map Some (t :: suf)).
    replace (Z.of_nat i + 1) with (Z.of_nat (S i)) by lia.
    replace (i + S cnt)%nat with (S i + cnt)%nat by lia.
    apply IHcnt; simpl; lia.
Qed.

(* ---------------------------------------------------------------- the main loop *)
Definition same_state (bound : nat) (a : list Z * list Z) (b : list Z * list Z * Z) : Prop :=
  let '(t, p) := a in let '(t', p', _) := b in t = t' /\ p = p' /\ (length t <= bound)%nat.

Lemma lnds_loop_agree : forall rng gas f0 r tails prev,
  (length rng < gas)%nat -> (length tails + length rng <= f0)%nat ->
  agree (same_state (length tails + length rng))
        (main_loop T cmp (no_std T) lnds_gen vs rng r (tails, prev))
        (LNDSFunc_loop1 f0 gas vs cmp (r + FnRt.zlen rng) tails prev r).
Proof.
  induction rng as [|x rng IH]; intros gas f0 r tails prev Hg Hf; (destruct gas; [simpl in Hg; lia|]);
    cbn [main_loop LNDSFunc_loop1].
  - replace (r <? r + FnRt.zlen (@nil T)) with false by (unfold FnRt.zlen; simpl; lia).
    simpl. repeat split; lia.
  - replace (r <? r + FnRt.zlen (x :: rng)) with true by (unfold FnRt.zlen; simpl length; lia).
    cbv zeta. unfold step.
    cbn [g_i_incr g_best_idx g_fast_arg0 g_fast_arg1 g_fast_cond g_search_hi g_first_cond g_neg1
      g_pred_idx g_repl_idx lnds_gen].
    unfold lnds_i_incr, lnds_best_idx, lnds_fast_cond, lnds_search_hi,
      lnds_first_cond, lnds_neg1, lnds_pred_idx, lnds_repl_idx.
    change (Z.opp 1) with (-1).
    change (@LcsModel.zlen) with (@FnRt.zlen).
    assert (Hrec : forall t' p', (length t' <= S (length tails))%nat ->
       agree (same_state (length tails + length (x :: rng)))
         (main_loop T cmp (no_std T) lnds_gen vs rng (r + 1) (t', p'))
         (LNDSFunc_loop1 f0 gas vs cmp (r + FnRt.zlen (x :: rng)) t' p' (r + 1))).
    { intros t' p' Hl.
      replace (r + FnRt.zlen (x :: rng)) with (r + 1 + FnRt.zlen rng) by (unfold FnRt.zlen; simpl length; lia).
      specialize (IH gas f0 (r + 1) t' p').
      destruct (main_loop T cmp (no_std T) lnds_gen vs rng (r + 1) (t', p')) as [[t2 p2]|];
        destruct (LNDSFunc_loop1 f0 gas vs cmp (r + 1 + FnRt.zlen rng) t' p' (r + 1)) as [[[t3 p3] r3]| |];
        simpl in IH |- *; try (apply IH; simpl in *; lia).
      destruct IH as (? & ? & ?); [simpl in *; lia | simpl in *; lia |]. repeat split; auto. simpl. lia. }
    destruct (znth tails (FnRt.zlen tails - 1)) as [best|] eqn:Eb.
    2:{ destruct (get_none _ _ Eb) as [k Ek]. rewrite Ek. exact I. }
    rewrite (get_some _ _ _ Eb). cbn [bind].
    destruct (znth vs (r + 1)) as [vi|] eqn:Evi.
    2:{ destruct (get_none _ _ Evi) as [k Ek]. rewrite Ek. exact I. }
    rewrite (get_some _ _ _ Evi). cbn [bind].
    destruct (znth vs best) as [vb|] eqn:Evb.
    2:{ destruct (get_none _ _ Evb) as [k Ek]. rewrite Ek. exact I. }
    rewrite (get_some _ _ _ Evb). cbn [bind].
    change (cmp_sel T cmp (lnds_fast_arg0 0 1) (lnds_fast_arg1 0 1) vi vb) with (Some (cmp vi vb)). cbv iota beta.
    destruct (cmp vi vb >=? 0).
    + (* fast path *)
      destruct (zupd prev (r + 1) best) as [prev'|] eqn:Ep.
      2:{ destruct (set_none _ _ _ Ep) as [k Ek]. rewrite Ek. exact I. }
      rewrite (set_some _ _ _ _ Ep). cbn [bind].
      apply Hrec. rewrite app_length. simpl. lia.
    + (* search and replace *)
      pose proof (go_sub_prefix_req tails (FnRt.zlen tails - 1)) as Hs.
      destruct (zslice_hi tails (FnRt.zlen tails - 1)) as [sub|] eqn:Es;
        destruct (go_sub tails 0 (FnRt.zlen tails - 1)) as [sub'| |]; simpl in Hs; try contradiction; cbn [bind]; try exact I.
      subst sub'. cbn [bind].
      unfold search. cbn [g_nsearch g_right lnds_gen]. unfold lnds_nsearch. change (1 =? 1) with true. cbv iota.
      pose proof (C12_bisectRight_is_source cmp lnds_gen vs clo clo_ok_lnds sub vi f0) as Hb.
      apply zslice_hi_length in Es.
      specialize (Hb ltac:(simpl in Hf; lia)). unfold clo in Hb.
      destruct (bisect_right T cmp lnds_gen vs sub vi) as [ri|];
        match type of Hb with req _ ?g => destruct g as [ri'| |] end; simpl in Hb; try contradiction; cbn [bind]; try exact I.
      subst ri'.
      destruct (ri =? 0).
      * destruct (zupd prev (r + 1) (-1)) as [prev'|] eqn:Ep.
        2:{ destruct (set_none _ _ _ Ep) as [k Ek]. change (Z.opp 1) with (-1) in *. rewrite Ek. exact I. }
        change (Z.opp 1) with (-1) in *. rewrite (set_some _ _ _ _ Ep). cbn [bind].
        destruct (zupd tails ri (r + 1)) as [tails'|] eqn:Et.
        2:{ destruct (set_none _ _ _ Et) as [k Ek]. rewrite Ek. exact I. }
        rewrite (set_some _ _ _ _ Et). cbn [bind].
        apply Hrec. rewrite (zupd_length _ _ _ _ Et). lia.
      * destruct (znth tails (ri - 1)) as [pv|] eqn:Epv.
        2:{ destruct (get_none _ _ Epv) as [k Ek]. rewrite Ek. exact I. }
        rewrite (get_some _ _ _ Epv). cbn [bind].
        destruct (zupd prev (r + 1) pv) as [prev'|] eqn:Ep.
        2:{ destruct (set_none _ _ _ Ep) as [k Ek]. rewrite Ek. exact I. }
        rewrite (set_some _ _ _ _ Ep). cbn [bind].
        destruct (zupd tails ri (r + 1)) as [tails'|] eqn:Et.
        2:{ destruct (set_none _ _ _ Et) as [k Ek]. rewrite Ek. exact I. }
        rewrite (set_some _ _ _ _ Et). cbn [bind].
        apply Hrec. rewrite (zupd_length _ _ _ _ Et). lia.
Qed.

(* LISFunc over ANY implementation of slices.BinarySearchFunc: [std] on the model's side, [bsf] on
   the generated side, related on every slice shorter than the input *)
Section AnyStd.
Variable std : std_search T.
Variable bsf : list Z -> T -> (Z -> T -> res Z) -> res (Z * bool).
Variable bound : nat.
Hypothesis std_ok : forall sub target, (length sub < bound)%nat ->
  req (emb (std vs sub target)) (bind (bsf sub target clo) (fun '(i, _) => Ok i)).

Lemma lis_loop_agree : forall rng gas f0 r tails prev,
  (length rng < gas)%nat -> (length tails + length rng <= bound)%nat ->
  agree (same_state (length tails + length rng))
        (main_loop T cmp std lis_gen_ vs rng r (tails, prev))
        (LISFunc_loop1 f0 gas vs cmp bsf (r + FnRt.zlen rng) tails prev r).
Proof.
  induction rng as [|x rng IH]; intros gas f0 r tails prev Hg Hf; (destruct gas; [simpl in Hg; lia|]);
    cbn [main_loop LISFunc_loop1].
  - replace (r <? r + FnRt.zlen (@nil T)) with false by (unfold FnRt.zlen; simpl; lia).
    simpl. repeat split; lia.
  - replace (r <? r + FnRt.zlen (x :: rng)) with true by (unfold FnRt.zlen; simpl length; lia).
    cbv zeta. unfold step.
    cbn [g_i_incr g_best_idx g_fast_arg0 g_fast_arg1 g_fast_cond g_search_hi g_first_cond g_neg1
      g_pred_idx g_repl_idx lis_gen_].
    unfold lis_i_incr, lis_best_idx, lis_fast_cond, lis_search_hi,
      lis_first_cond, lis_neg1, lis_pred_idx, lis_repl_idx.
    change (Z.opp 1) with (-1).
    change (@LcsModel.zlen) with (@FnRt.zlen).
    assert (Hrec : forall t' p', (length t' <= S (length tails))%nat ->
       agree (same_state (length tails + length (x :: rng)))
         (main_loop T cmp std lis_gen_ vs rng (r + 1) (t', p'))
         (LISFunc_loop1 f0 gas vs cmp bsf (r + FnRt.zlen (x :: rng)) t' p' (r + 1))).
    { intros t' p' Hl.
      replace (r + FnRt.zlen (x :: rng)) with (r + 1 + FnRt.zlen rng) by (unfold FnRt.zlen; simpl length; lia).
      specialize (IH gas f0 (r + 1) t' p').
      destruct (main_loop T cmp std lis_gen_ vs rng (r + 1) (t', p')) as [[t2 p2]|];
        destruct (LISFunc_loop1 f0 gas vs cmp bsf (r + 1 + FnRt.zlen rng) t' p' (r + 1)) as [[[t3 p3] r3]| |];
        simpl in IH |- *; try (apply IH; simpl in *; lia).
      destruct IH as (? & ? & ?); [simpl in *; lia | simpl in *; lia |]. repeat split; auto. simpl. lia. }
    destruct (znth tails (FnRt.zlen tails - 1)) as [best|] eqn:Eb.
    2:{ destruct (get_none _ _ Eb) as [k Ek]. rewrite Ek. exact I. }
    rewrite (get_some _ _ _ Eb). cbn [bind].
    destruct (znth vs (r + 1)) as [vi|] eqn:Evi.
    2:{ destruct (get_none _ _ Evi) as [k Ek]. rewrite Ek. exact I. }
    rewrite (get_some _ _ _ Evi). cbn [bind].
    destruct (znth vs best) as [vb|] eqn:Evb.
    2:{ destruct (get_none _ _ Evb) as [k Ek]. rewrite Ek. exact I. }
    rewrite (get_some _ _ _ Evb). cbn [bind].
    change (cmp_sel T cmp (lis_fast_arg0 0 1) (lis_fast_arg1 0 1) vi vb) with (Some (cmp vi vb)). cbv iota beta.
    destruct (cmp vi vb >? 0).
    + destruct (zupd prev (r + 1) best) as [prev'|] eqn:Ep.
      2:{ destruct (set_none _ _ _ Ep) as [k Ek]. rewrite Ek. exact I. }
      rewrite (set_some _ _ _ _ Ep). cbn [bind].
      apply Hrec. rewrite app_length. simpl. lia.
    + pose proof (go_sub_prefix_req tails (FnRt.zlen tails - 1)) as Hs.
      destruct (zslice_hi tails (FnRt.zlen tails - 1)) as [sub|] eqn:Es;
        destruct (go_sub tails 0 (FnRt.zlen tails - 1)) as [sub'| |]; simpl in Hs; try contradiction; cbn [bind]; try exact I.
      subst sub'. cbn [bind].
      unfold search. cbn [g_nsearch g_right lis_gen_]. unfold lis_nsearch. change (1 =? 1) with true. cbv iota.
      assert (Hsl : (length sub < bound)%nat).
      { unfold zslice_hi in Es. destruct ((FnRt.zlen tails - 1 <? 0) || (LcsModel.zlen tails <? FnRt.zlen tails - 1)) eqn:Eg; [discriminate|].
        inversion Es. rewrite firstn_length. unfold FnRt.zlen in *. simpl in Hf. lia. }
      pose proof (std_ok sub vi Hsl) as Hb. unfold clo in Hb.
      destruct (std vs sub vi) as [ri|];
        match type of Hb with req _ (bind ?g _) => destruct g as [[ri' fnd]| |] end; simpl in Hb; try contradiction; cbn [bind]; try exact I.
      subst ri'.
      destruct (ri =? 0).
      * destruct (zupd prev (r + 1) (-1)) as [prev'|] eqn:Ep.
        2:{ destruct (set_none _ _ _ Ep) as [k Ek]. change (Z.opp 1) with (-1) in *. rewrite Ek. exact I. }
        change (Z.opp 1) with (-1) in *. rewrite (set_some _ _ _ _ Ep). cbn [bind].
        destruct (zupd tails ri (r + 1)) as [tails'|] eqn:Et.
        2:{ destruct (set_none _ _ _ Et) as [k Ek]. rewrite Ek. exact I. }
        rewrite (set_some _ _ _ _ Et). cbn [bind].
        apply Hrec. rewrite (zupd_length _ _ _ _ Et). lia.
      * destruct (znth tails (ri - 1)) as [pv|] eqn:Epv.
        2:{ destruct (get_none _ _ Epv) as [k Ek]. rewrite Ek. exact I. }
        rewrite (get_some _ _ _ Epv). cbn [bind].
        destruct (zupd prev (r + 1) pv) as [prev'|] eqn:Ep.
        2:{ destruct (set_none _ _ _ Ep) as [k Ek]. rewrite Ek. exact I. }
        rewrite (set_some _ _ _ _ Ep). cbn [bind].
        destruct (zupd tails ri (r + 1)) as [tails'|] eqn:Et.
        2:{ destruct (set_none _ _ _ Et) as [k Ek]. rewrite Ek. exact I. }
        rewrite (set_some _ _ _ _ Et). cbn [bind].
        apply Hrec. rewrite (zupd_length _ _ _ _ Et). lia.
Qed.
End AnyStd.
End Lis.
