(* stree at the level of the GENERATED code, SEVERAL trees: the machine of StreeSource.v extended by
   the functions tied in round 6 (GenTie/StreeTieRest.v): Tree.Clone, Tree.InorderAfter as the
   method itself, and (StreeSource2Cursor.v) Tree.Cursor(key), Tree.Root, Cursor.Clone.
   DEFINITIONS ONLY; the simulation is StreeSource2Sim.v, the property files Props/C01_source2.v
   and Props/C03_source2.v.

   State [mst]: ONE node heap and the list of Tree RECORDS (Gen/FnStree.v [G.Tree]: root, β,
   compare, limit, size, max) in order of creation.  Every call takes its arguments from the
   fields of the record the op names (also compare, limit and β: a clone carries the function
   values its receiver had, as `cp := *t` copies them) and writes root, size, max back.

   Ops [mop]:  MClone i            -- the generated Tree_Clone on tree i; the record it returns
                                      becomes the next tree; the heap it returns the new heap;
               MOn i o             -- the op o of StreeSource.v on tree i ([gstep2]: the step of
                                      StreeSource.v, except that InorderAfter calls the generated
                                      METHOD Tree_InorderAfter: key and the iterator's yield).
   An op that names an index no tree has makes no call: output [None].

   Start [minit]: one empty tree (root nil, size 0, max 0, compare = cmp, limit = limit b, β = b:
   what New(β, cmp) builds without keys) on ANY heap h0.  NOT covered (not translated): New (with
   or without keys; variadic keys, slices.SortFunc/CompactFunc, float arithmetic), String.  Every
   further tree of a history is therefore a Clone.

   Reference [mref_step]: one strictly ascending list per tree; Clone copies the list; every
   other op is [ref_step] of StreeSource.v on the list the op names. *)
From Coq Require Import ZArith List Bool Arith.
From Mds Require Import Common.FnRt Common.FnHeap GenTie.StreeTieBase GenTie.StreeTieWalk GenTie.StreeSource.
Import ListNotations.
Local Open Scope Z_scope.

Inductive mop (T : Type) : Type :=
| MClone (i : nat)
| MOn (i : nat) (o : sop T).
Arguments MClone {T} i.
Arguments MOn {T} i o.

Record mst (T : Type) : Type := mk_mst {
  m_heap : list (G.node T);
  m_trees : list (G.Tree T)
}.
Arguments mk_mst {T} m_heap m_trees.
Arguments m_heap {T} m.
Arguments m_trees {T} m.

(* the tree an op may change (Clone changes no existing tree, not even its receiver) *)
Definition mtarget {T : Type} (o : mop T) : option nat :=
  match o with MClone _ => None | MOn i _ => Some i end.

Section Machine2.
Context {T : Type}.
Variable zero : T.

(* the step of StreeSource.v with InorderAfter through the generated method *)
Definition gstep2 (cmp : T -> T -> Z) (limit : Z -> Z -> Z) (b : Z) (st : gst T) (o : sop T) : gst T * gout T :=
  match o with
  | SInorderAfter k stop =>
    g_obs st (G.Tree_InorderAfter (g_root st) cmp k (collect stop) ([], O) (g_heap st) (fuel_for (g_size st)))
          (fun s => GList (rev (fst s)))
  | _ => gstep cmp limit zero b st o
  end.

(* a Tree record as the object the methods work on, and the fields written back *)
Definition tree_gst (h : list (G.node T)) (g : G.Tree T) : gst T :=
  mk_gst h (G.Tree_root g) (G.Tree_size g) (G.Tree_max g).

Definition tree_upd (g : G.Tree T) (st : gst T) : G.Tree T :=
  G.mk_Tree (g_root st) (G.Tree_β g) (G.Tree_compare g) (G.Tree_limit g) (g_size st) (g_max st).

Definition mstep (st : mst T) (o : mop T) : mst T * option (gout T) :=
  match o with
  | MClone i =>
    match nth_error (m_trees st) i with
    | None => (st, None)
    | Some g =>
      match G.Tree_Clone (G.Tree_root g) (G.Tree_β g) (G.Tree_compare g) (G.Tree_limit g)
                         (G.Tree_size g) (G.Tree_max g) (m_heap st) (fuel_for (G.Tree_size g)) with
      | Ok (g', h') => (mk_mst h' (m_trees st ++ [g']), Some GUnit)
      | Panic k => (st, Some (GPanic k))
      | OutOfFuel => (st, Some GFuel)
      end
    end
  | MOn i o' =>
    match nth_error (m_trees st) i with
    | None => (st, None)
    | Some g =>
      let '(s', x) := gstep2 (G.Tree_compare g) (fun _ => G.Tree_limit g) (G.Tree_β g)
                             (tree_gst (m_heap st) g) o' in
      (mk_mst (g_heap s') (SM.set_nth i (tree_upd g s') (m_trees st)), Some x)
    end
  end.

Fixpoint mrun (st : mst T) (ops : list (mop T)) : list (option (gout T)) :=
  match ops with
  | [] => []
  | o :: r => let '(st', x) := mstep st o in x :: mrun st' r
  end.

Fixpoint mexec (st : mst T) (ops : list (mop T)) : mst T :=
  match ops with
  | [] => st
  | o :: r => mexec (fst (mstep st o)) r
  end.

(* one empty tree on the heap h0 *)
Definition minit (cmp : T -> T -> Z) (limit : Z -> Z -> Z) (b : Z) (h0 : list (G.node T)) : mst T :=
  mk_mst h0 [G.mk_Tree None b cmp (limit b) 0 0].

(* ---- the reference: one strictly ascending list per tree ---- *)
Variable cmp : T -> T -> Z.

Definition mref_step (s : list (list T)) (o : mop T) : list (list T) * option (gout T) :=
  match o with
  | MClone i =>
    match nth_error s i with
    | None => (s, None)
    | Some l => (s ++ [l], Some GUnit)
    end
  | MOn i o' =>
    match nth_error s i with
    | None => (s, None)
    | Some l => let '(l', x) := ref_step cmp zero l o' in (SM.set_nth i l' s, Some x)
    end
  end.

Fixpoint mref_run (s : list (list T)) (ops : list (mop T)) : list (option (gout T)) :=
  match ops with
  | [] => []
  | o :: r => let '(s', x) := mref_step s o in x :: mref_run s' r
  end.

Fixpoint mref_exec (s : list (list T)) (ops : list (mop T)) : list (list T) :=
  match ops with
  | [] => s
  | o :: r => mref_exec (fst (mref_step s o)) r
  end.

End Machine2.
