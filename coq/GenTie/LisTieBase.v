(* The hand-written models of slice/lis.go and slice/edit.go (Slice/LisModel.v, Slice/LcsModel.v)
   against the functions generated from the Go source (Gen/FnLis.v, Gen/FnEdit.v): shared part.

   The models answer [option]: [None] stands for "a run-time panic, or the model's own loop fuel
   ran out" (the slices' theorems prove it never happens).  [emb] maps [None] to a panic and [req]
   compares two results up to WHICH run-time panic it is (the models do not say; in the generated
   code it is an index, a slice-bounds or a nil-dereference panic):

     req (emb (model args)) (Gen.f args fuel)

   says: the model answers [Some a] iff the generated function returns [Ok a] (same value), and
   [None] iff it panics; with the fuel bound of the statement the generated function never runs
   out of fuel, and the proofs show that the model's own fuel never runs out either. *)
From Coq Require Import ZArith List Bool Lia ZifyBool.
From Mds Require Import Common.FnRt GenTie.TieLib Slice.LcsModel.
Import ListNotations.
Local Open Scope Z_scope.

Definition emb {A : Type} (o : option A) : res A :=
  match o with Some a => Ok a | None => Panic PIndex end.

Definition req {A : Type} (r r' : res A) : Prop :=
  match r, r' with
  | Ok a, Ok b => a = b
  | Panic _, Panic _ => True
  | OutOfFuel, OutOfFuel => True
  | _, _ => False
  end.

Lemma req_refl {A} (r : res A) : req r r.
Proof. destruct r; simpl; auto. Qed.

Lemma req_sym {A} (r r' : res A) : req r r' -> req r' r.
Proof. destruct r, r'; simpl; auto. Qed.

Lemma req_trans {A} (a b c : res A) : req a b -> req b c -> req a c.
Proof. destruct a, b, c; simpl; intros; subst; auto; contradiction. Qed.

Lemma req_of_eq {A} (r r' : res A) : r = r' -> req r r'.
Proof. intros ->; apply req_refl. Qed.

Lemma req_bind {A B} (m m' : res A) (k k' : A -> res B) :
  req m m' -> (forall a, m' = Ok a -> req (k a) (k' a)) -> req (bind m k) (bind m' k').
Proof.
  destruct m, m'; simpl; intros H K; try contradiction; auto. subst. apply K; reflexivity.
Qed.

Lemma req_bind_same {A B} (m : res A) (k k' : A -> res B) :
  (forall a, m = Ok a -> req (k a) (k' a)) -> req (bind m k) (bind m k').
Proof. intros; apply req_bind; [apply req_refl | assumption]. Qed.

Lemma req_panic_l {A} k (r : res A) : (exists k', r = Panic k') -> req (Panic k) r.
Proof. intros [k' ->]; exact I. Qed.

(* what [req (emb o) r] says, spelled out *)
Lemma req_emb_spec {A} (o : option A) (r : res A) :
  req (emb o) r <-> match o with Some a => r = Ok a | None => exists k, r = Panic k end.
Proof.
  destruct o, r; simpl; split; intros H; try contradiction; try discriminate; auto.
  - subst; reflexivity.
  - inversion H; reflexivity.
  - destruct H; discriminate.
  - eauto.
  - destruct H; discriminate.
Qed.

(* the model's bind on options *)
Definition obind {A B} (o : option A) (k : A -> option B) : option B :=
  match o with Some a => k a | None => None end.

Lemma emb_obind {A B} (o : option A) (k : A -> option B) :
  emb (obind o k) = bind (emb o) (fun a => emb (k a)).
Proof. destruct o; reflexivity. Qed.

(* ---- slices: the models' znth/zupd against go_get/go_set ---- *)
Lemma zlen_eq {A} (l : list A) : LcsModel.zlen l = FnRt.zlen l.
Proof. reflexivity. Qed.

Lemma nth_error_lt_some {A} (l : list A) n : (n < length l)%nat -> exists x, nth_error l n = Some x.
Proof.
  intros H. destruct (nth_error l n) eqn:E; [eauto|]. apply nth_error_None in E. lia.
Qed.

Lemma get_req {A} (l : list A) i : req (emb (znth l i)) (go_get l i).
Proof.
  unfold znth, go_get, FnRt.zlen.
  destruct (i <? 0) eqn:E1.
  - replace (0 <=? i) with false by lia. exact I.
  - replace (0 <=? i) with true by lia. simpl.
    destruct (i <? Z.of_nat (length l)) eqn:E2.
    + destruct (nth_error l (Z.to_nat i)); simpl; auto.
    + destruct (nth_error l (Z.to_nat i)) eqn:E3; simpl; auto.
      assert (Z.to_nat i < length l)%nat by (apply nth_error_Some; congruence). lia.
Qed.

Lemma get_some {A} (l : list A) i x : znth l i = Some x -> go_get l i = Ok x.
Proof. intros H. pose proof (get_req l i) as R. rewrite H in R. destruct (go_get l i); simpl in R; try contradiction. subst; reflexivity. Qed.

Lemma get_none {A} (l : list A) i : znth l i = None -> exists k, go_get l i = Panic k.
Proof. intros H. pose proof (get_req l i) as R. rewrite H in R. destruct (go_get l i); simpl in R; try contradiction. eauto. Qed.

Lemma get_ok_inv {A} (l : list A) i x : go_get l i = Ok x -> znth l i = Some x /\ 0 <= i < FnRt.zlen l.
Proof.
  intros H. pose proof (get_req l i) as R. rewrite H in R.
  destruct (znth l i) eqn:E; simpl in R; try contradiction. subst. split; [reflexivity|].
  unfold go_get in H. destruct ((0 <=? i) && (i <? FnRt.zlen l)) eqn:B; [lia|discriminate].
Qed.

Lemma upd_nat_eq {A} (l : list A) n x : (n < length l)%nat -> upd_nat l n x = Some (upd l n x).
Proof.
  revert n; induction l; intros n H; simpl in *; [lia|].
  destruct n; [reflexivity|]. rewrite IHl by lia. reflexivity.
Qed.

Lemma upd_nat_none {A} (l : list A) n x : (length l <= n)%nat -> upd_nat l n x = None.
Proof.
  revert n; induction l; intros n H; simpl in *; [reflexivity|].
  destruct n; [lia|]. rewrite IHl by lia. reflexivity.
Qed.

Lemma set_req {A} (l : list A) i x : req (emb (zupd l i x)) (go_set l i x).
Proof.
  unfold zupd, go_set, FnRt.zlen.
  destruct (i <? 0) eqn:E1.
  - replace (0 <=? i) with false by lia. exact I.
  - replace (0 <=? i) with true by lia. simpl.
    destruct (i <? Z.of_nat (length l)) eqn:E2.
    + rewrite upd_nat_eq by lia. reflexivity.
    + rewrite upd_nat_none by lia. exact I.
Qed.

Lemma set_some {A} (l l' : list A) i x : zupd l i x = Some l' -> go_set l i x = Ok l'.
Proof. intros H. pose proof (set_req l i x) as R. rewrite H in R. destruct (go_set l i x); simpl in R; try contradiction. subst; reflexivity. Qed.

Lemma set_none {A} (l : list A) i x : zupd l i x = None -> exists k, go_set l i x = Panic k.
Proof. intros H. pose proof (set_req l i x) as R. rewrite H in R. destruct (go_set l i x); simpl in R; try contradiction. eauto. Qed.

Lemma zupd_length {A} (l l' : list A) i x : zupd l i x = Some l' -> length l' = length l.
Proof. intros H. apply set_some in H. apply go_set_length in H. exact H. Qed.

(* one step of a proof of [req (emb model) gen] where both sides read / write the same cell *)
Ltac req_get l i :=
  let E := fresh "E" in
  destruct (znth l i) eqn:E;
  [ rewrite (get_some _ _ _ E); cbn [bind emb obind]
  | let k := fresh "k" in let Ek := fresh "Ek" in
    destruct (get_none _ _ E) as [k Ek]; rewrite Ek; cbn [bind emb obind]; try exact I ].

Ltac req_set l i x :=
  let E := fresh "E" in
  destruct (zupd l i x) eqn:E;
  [ rewrite (set_some _ _ _ _ E); cbn [bind emb obind]
  | let k := fresh "k" in let Ek := fresh "Ek" in
    destruct (set_none _ _ _ E) as [k Ek]; rewrite Ek; cbn [bind emb obind]; try exact I ].
