(* omap/omap.go at the level of the GENERATED code (Gen/FnOmap.v, regenerated on every run by the
   function translator, syntactic backend): definitions shared by the OmapTie files.

   The generated omap functions take the object behind m.m (a *stree.Tree[KV[T,U]]) as an abstract
   state St_m plus ONE FUNCTION ARGUMENT PER stree METHOD they call, and the flag m_nil ("m.m is the
   nil pointer").  Here St_m is instantiated with the generated Tree object [gst] of
   GenTie/StreeSource.v (node heap, t.root, t.size, t.max) and every method argument with the function
   GENERATED from stree's source (Gen/FnStree.v): g_Len, g_Get, g_Replace, g_Remove, g_Clear call
   G.Tree_Len ... G.Tree_Clear on those fields, with fuel_for (t.size) units of fuel, exactly as the
   machine of StreeSource.v does.  The only glue is the change of element type: stree's generic T is
   the pair type K * V of OmapModel.v, the KV record of Gen/FnOmap.v is converted field by field
   (to_pair / of_pair), and t.compare is KV.Compare(cf) = comparison of the keys (OM.kvcmp).

   An Iter's cursor it.c (a *stree.Cursor) is the pair (nil flag, list of node addresses) the
   generated Cursor methods take; c_Valid ... c_Key call G.Cursor_Valid ... G.Cursor_Key on the
   heap of the map's tree. *)
From Coq Require Import ZArith List Bool Arith Lia.
From Mds Require Import Common.FnRt Common.FnHeap GenTie.TieLib GenTie.StreeTieBase GenTie.StreeSep
  GenTie.StreeSource GenTie.StreeSourceSim.
From Mds Require Gen.FnOmap Omap.OmapModel.
Import ListNotations.
Local Open Scope Z_scope.

Module O := FnOmap.
Module OM := OmapModel.

Section OmapTie.
Context {K V : Type}.
Variable kcmp : K -> K -> Z.
Variable limit : Z -> Z -> Z.
Variable zk : K.
Variable zv : V.
Variable b : Z.
Variable h0 : list (G.node (K * V)).

Notation kv := (K * V)%type.
Notation kvcmp := (OM.kvcmp K V kcmp).
Notation zkv := (OM.zkv K V zk zv).

Definition to_pair (e : O.KV K V) : kv := (O.KV_Key e, O.KV_Value e).
Definition of_pair (p : kv) : O.KV K V := O.mk_KV (fst p) (snd p).

(* ---- the methods of m.m, from Gen/FnStree.v ---- *)
Definition g_Len (st : gst kv) : res (Z * gst kv) := Ok (G.Tree_Len (g_size st), st).

Definition g_Get (st : gst kv) (e : O.KV K V) : res (O.KV K V * bool * gst kv) :=
  do r <- G.Tree_Get (g_root st) kvcmp (to_pair e) (g_heap st) zkv (fuel_for (g_size st));
  Ok (of_pair (fst r), snd r, st).

Definition g_upd (r : res (bool * option nat * Z * Z * list (G.node kv))) : res (bool * gst kv) :=
  do x <- r;
  let '(ok, rt, sz, mx, h) := x in Ok (ok, mk_gst h rt sz mx).

Definition g_Replace (st : gst kv) (e : O.KV K V) : res (bool * gst kv) :=
  g_upd (G.Tree_Replace (g_root st) kvcmp (limit b) (g_size st) (g_max st) (to_pair e) (g_heap st) zkv
           (fuel_for (g_size st))).

Definition g_Remove (st : gst kv) (e : O.KV K V) : res (bool * gst kv) :=
  g_upd (G.Tree_Remove (g_root st) b kvcmp (g_size st) (g_max st) (to_pair e) (g_heap st) zkv
           (fuel_for (g_size st))).

Definition g_Clear (st : gst kv) : res (gst kv) :=
  let '(rt, sz, mx) := G.Tree_Clear (g_root st) (g_size st) (g_max st) in
  Ok (mk_gst (g_heap st) rt sz mx).

(* ---- the Map value: the flag "m.m == nil" and the Tree object behind it ---- *)
Definition osim (nil : bool) (st : gst kv) (m : OM.omap K V) : Prop :=
  match m with
  | None => nil = true
  | Some t => nil = false /\ sim b h0 st t /\ exists l, PH.rel kv kvcmp t l
  end.

Lemma kv_preorder : SP.total_preorder kcmp -> SP.total_preorder kvcmp.
Proof.
  intros [F T]. split; unfold OM.kvcmp.
  - intros x y. apply F.
  - intros x y z. apply T.
Qed.

End OmapTie.
