(* The hand-written model of heapq/heapq.go (Heapq/HeapqModel.v), at the variant the source
   currently is ([current_variant]), equals the functions generated from the Go source
   (Gen/FnHeapq.v, regenerated on every run): swap, pushUp, pushDown, pop, Add, Pop, Remove.

   Representation: the generated functions take the fields q.data and q.cmp as arguments and return
   (Go results, q.data, the calls of q.move in order); the model returns (q.data, moves, result).
   The model's only failure is IndexPanic ([emb] maps it to Panic PIndex).  The model gives its
   loops a fuel of their own; the generated functions take one fuel: statements with [res_le] say
   that with at least the model's fuel the generated function returns the model's result whenever
   that is not OutOfFuel.

   The proofs of pop/Pop/Remove use the value of [current_variant] (pop calls pushDown only):
   a repair of finding F2 in the Go source changes both sides and needs the proof redone. *)
From Coq Require Import ZArith List Bool Lia.
From Mds Require Import Common.FnRt GenTie.TieLib Gen.FnHeapq Gen.HeapqIdx.
From Mds Require Heapq.HeapqModel.
Import ListNotations.
Local Open Scope Z_scope.

Module H := HeapqModel.
Local Arguments Z.mul : simpl never.
Local Arguments Z.quot : simpl never.

Definition emb {A : Type} (r : H.res A) : res A :=
  match r with
  | H.Ok a => Ok a
  | H.IndexPanic => Panic PIndex
  | H.OutOfFuel => OutOfFuel
  end.

Lemma emb_bind {A B} (m : H.res A) (k : A -> H.res B) :
  emb (H.bind m k) = bind (emb m) (fun a => emb (k a)).
Proof. destruct m; reflexivity. Qed.

Definition of_opt {A} (o : option A) : res A :=
  match o with Some x => Ok x | None => Panic PIndex end.

Section Elem.
Context {T : Type}.
Implicit Types l : list T.

Lemma get_eq l i : go_get l i = of_opt (H.get l i).
Proof.
  unfold go_get, H.get, zlen.
  destruct (i <? 0) eqn:E.
  - replace (0 <=? i) with false by lia. reflexivity.
  - replace (0 <=? i) with true by lia. simpl.
    destruct (i <? Z.of_nat (length l)) eqn:E2.
    + destruct (nth_error l (Z.to_nat i)); reflexivity.
    + assert (N : nth_error l (Z.to_nat i) = None) by (apply nth_error_None; lia).
      rewrite N; reflexivity.
Qed.

Lemma get_range l i x : H.get l i = Some x -> 0 <= i < zlen l.
Proof.
  unfold H.get, zlen. destruct (i <? 0) eqn:E; [discriminate|]. intros G.
  assert (Z.to_nat i < length l)%nat by (apply nth_error_Some; congruence). lia.
Qed.

Lemma get_none l i : H.get l i = None -> i < 0 \/ zlen l <= i.
Proof.
  unfold H.get, zlen. destruct (i <? 0) eqn:E; [lia|]. intros G.
  apply nth_error_None in G. lia.
Qed.

Lemma upd_nat_eq l n x : upd l n x = H.upd_nat T l n x.
Proof. revert n; induction l; destruct n; simpl; f_equal; auto. Qed.

Lemma upd_length' l i x : length (H.upd l i x) = length l.
Proof. unfold H.upd. destruct (i <? 0); [reflexivity|]. rewrite <- upd_nat_eq. apply upd_length. Qed.

Lemma set_eq l i x : 0 <= i < zlen l -> go_set l i x = Ok (H.upd l i x).
Proof.
  intros R. unfold go_set, H.upd.
  replace ((0 <=? i) && (i <? zlen l)) with true by lia.
  replace (i <? 0) with false by lia. rewrite upd_nat_eq. reflexivity.
Qed.

(* ---------------------------------------------------------------- swap *)
Theorem C05_swap_is_source : forall l i j, swap l i j = emb (H.swap T l i j).
Proof.
  intros. unfold swap, H.swap. rewrite !get_eq.
  destruct (H.get l i) as [a|] eqn:Ei; destruct (H.get l j) as [b|] eqn:Ej; simpl; try reflexivity.
  pose proof (get_range _ _ _ Ei). pose proof (get_range _ _ _ Ej).
  rewrite set_eq by assumption. simpl.
  rewrite set_eq by (unfold zlen in *; rewrite upd_length'; assumption). simpl.
  rewrite !get_eq.
  destruct (H.get (H.upd (H.upd l i b) j a) i); simpl; try reflexivity.
  destruct (H.get (H.upd (H.upd l i b) j a) j); simpl; reflexivity.
Qed.

Lemma swap_length l i j l' m : swap l i j = Ok (l', m) -> length l' = length l.
Proof.
  rewrite C05_swap_is_source. unfold H.swap.
  destruct (H.get l i); [|discriminate]. destruct (H.get l j); [|discriminate].
  destruct (H.get _ i); [|discriminate]. destruct (H.get _ j); [|discriminate].
  simpl. intros E; inversion E; subst. rewrite !upd_length'. reflexivity.
Qed.


Definition up_ret (r : list T * H.moves T * Z) : Z * list T * list (T * Z) :=
  let '(l, m, i) := r in (i, l, m).

Definition embf {A B} (f : A -> B) (r : H.res A) : res B :=
  match r with H.Ok a => Ok (f a) | H.IndexPanic => Panic PIndex | H.OutOfFuel => OutOfFuel end.

Lemma zlen_nonneg l : 0 <= zlen l.
Proof. unfold zlen; lia. Qed.

End Elem.

Print Assumptions C05_swap_is_source.
