(* mbits/mbits.go: the hand-written model (Mbits/MbitsModel.v: zero, leading_zeroes,
   trailing_zeroes) equals the functions generated from the Go source (Gen/FnMbits.v).

   The model works on a memory [mm] and the window [off, off+n) of it that is the slice; the
   generated functions work on the list of the slice's bytes: the ties are for the window that is
   the whole memory (off = 0, n = len mm).  The uint64 access through unsafe.Pointer(&data[i]) is
   [go_load64]/[go_store64] of FnRt.v: the bounds check of data[i], then 8 bytes unchecked -- the
   model's Fault is [Panic PFault].  With at least the model's loop fuel the generated function
   returns the model's result whenever that is not OutOfFuel. *)
From Coq Require Import ZArith List Bool Lia.
From Mds Require Import Common.FnRt GenTie.TieLib Gen.FnMbits Gen.MbitsIdx.
From Mds Require Mbits.BytesBase Mbits.MbitsModel.
Import ListNotations.
Local Open Scope Z_scope.

Module B := BytesBase.
Module MB := MbitsModel.

Definition embf {A C : Type} (f : A -> C) (r : B.res A) : res C :=
  match r with
  | B.Ok a => Ok (f a)
  | B.PanicIndex => Panic PIndex
  | B.Fault => Panic PFault
  | B.OutOfFuel => OutOfFuel
  end.
Notation emb := (embf (fun a => a)).

Lemma emb_bind_le {A C A' C'} (g : A -> A') (f : C -> C') (m : B.res A) (k : A -> B.res C) (r : res A') (k' : A' -> res C') :
  res_le (embf g m) r -> (forall a, m = B.Ok a -> res_le (embf f (k a)) (k' (g a))) ->
  res_le (embf f (B.bind m k)) (bind r k').
Proof.
  intros L K. destruct m as [a| | |]; cbn [embf B.bind] in *.
  - destruct L as [L|L]; [discriminate|]. rewrite <- L. cbn [bind]. apply K; reflexivity.
  - destruct L as [L|L]; [discriminate|]. rewrite <- L. apply res_le_refl.
  - destruct L as [L|L]; [discriminate|]. rewrite <- L. apply res_le_refl.
  - apply res_le_oof.
Qed.

(* ---- byte and word access on the whole memory ---- *)
Lemma le_word_eq bs : go_le_word bs = MB.le_word bs.
Proof. induction bs as [|b t IH]; cbn; [reflexivity | rewrite IH; reflexivity]. Qed.
Lemma le_bytes_eq c v : go_le_bytes c v = MB.le_bytes c v.
Proof. revert v; induction c as [|c IH]; intros v; cbn; [reflexivity | rewrite IH; reflexivity]. Qed.

Lemma rd_byte_eq (l : list Z) i : emb (MB.rd_byte l 0 (zlen l) i) = go_get l i.
Proof.
  unfold MB.rd_byte, go_get, MB.in_window. destruct ((0 <=? i) && (i <? zlen l)) eqn:E; [|reflexivity].
  change (0 + i) with i. destruct (nth_error l (Z.to_nat i)) eqn:N; [reflexivity|].
  apply andb_true_iff in E. destruct E as [E1 E2]. apply Z.leb_le in E1. apply Z.ltb_lt in E2.
  apply nth_error_None in N. unfold zlen in E2. lia.
Qed.

Lemma upd_split (l : list Z) k v : (k < length l)%nat -> upd l k v = firstn k l ++ v :: skipn (S k) l.
Proof.
  revert k; induction l as [|a l IH]; intros [|k] H; cbn in *; try lia; [reflexivity|].
  rewrite IH by lia. reflexivity.
Qed.

Lemma wr_byte_eq (l : list Z) i v : emb (MB.wr_byte l 0 (zlen l) i v) = go_set l i v.
Proof.
  unfold MB.wr_byte, go_set, MB.in_window. destruct ((0 <=? i) && (i <? zlen l)) eqn:E; [|reflexivity].
  change (0 + i) with i. apply andb_true_iff in E. destruct E as [E1 E2]. apply Z.leb_le in E1. apply Z.ltb_lt in E2.
  unfold zlen in E2. assert (K : (Z.to_nat i < length l)%nat) by lia.
  replace (Z.to_nat i <? length l)%nat with true by (symmetry; apply Nat.ltb_lt; exact K).
  cbn [embf]. rewrite upd_split by exact K. reflexivity.
Qed.

Lemma wr_byte_len (l l' : list Z) i v : MB.wr_byte l 0 (zlen l) i v = B.Ok l' -> zlen l' = zlen l.
Proof.
  intros H. pose proof (wr_byte_eq l i v) as E. rewrite H in E. cbn [embf] in E. symmetry in E.
  unfold zlen. rewrite (go_set_length _ _ _ _ E). reflexivity.
Qed.

Lemma rd_word_eq (l : list Z) i : emb (MB.rd_word l 0 (zlen l) i) = go_load64 l i.
Proof.
  unfold MB.rd_word, go_load64, MB.in_window, MB.word_inside. destruct ((0 <=? i) && (i <? zlen l)) eqn:E; [|reflexivity].
  apply andb_true_iff in E. destruct E as [E1 E2]. rewrite E1. cbn [andb]. change (0 + i) with i.
  destruct (i + 8 <=? zlen l) eqn:W; [|reflexivity].
  apply Z.leb_le in E1, W. unfold zlen in W.
  assert (L : length (firstn 8 (skipn (Z.to_nat i) l)) = 8%nat) by (rewrite firstn_length, skipn_length; lia).
  rewrite L. cbn [Nat.eqb embf]. first [reflexivity | rewrite le_word_eq; reflexivity].
Qed.

Lemma wr_word_eq (l : list Z) i v : emb (MB.wr_word l 0 (zlen l) i v) = go_store64 l i v.
Proof.
  unfold MB.wr_word, go_store64, MB.in_window, MB.word_inside. destruct ((0 <=? i) && (i <? zlen l)) eqn:E; [|reflexivity].
  apply andb_true_iff in E. destruct E as [E1 E2]. rewrite E1. cbn [andb]. change (0 + i) with i.
  destruct (i + 8 <=? zlen l) eqn:W; [|reflexivity].
  apply Z.leb_le in E1, W. unfold zlen in W.
  replace (Z.to_nat i + 8 <=? length l)%nat with true by (symmetry; apply Nat.leb_le; lia).
  cbn [embf]. first [reflexivity | rewrite le_bytes_eq; reflexivity].
Qed.

Lemma le_bytes_len c v : length (MB.le_bytes c v) = c.
Proof. revert v; induction c as [|c IH]; intros v; cbn; [reflexivity | rewrite IH; reflexivity]. Qed.

Lemma wr_word_len (l l' : list Z) i v : MB.wr_word l 0 (zlen l) i v = B.Ok l' -> zlen l' = zlen l.
Proof.
  unfold MB.wr_word, MB.in_window, MB.word_inside. destruct ((0 <=? i) && (i <? zlen l)) eqn:E; [|discriminate].
  apply andb_true_iff in E. destruct E as [E1 E2]. rewrite E1. cbn [andb]. change (0 + i) with i.
  destruct (i + 8 <=? zlen l) eqn:W; [|discriminate].
  destruct (Z.to_nat i + 8 <=? length l)%nat eqn:K; [|discriminate]. intros H; inversion H; subst.
  apply Nat.leb_le in K. unfold zlen. rewrite app_length, firstn_length. cbn [length]. rewrite skipn_length. lia.
Qed.

(* ---------------------------------------------------------------- Zero *)
Lemma zero_words_le fuel : forall f gas (l : list Z) n m i, zlen l = n -> (f <= gas)%nat ->
  res_le (emb (MB.zero_words f l 0 n m i)) (Zero_loop1 fuel gas m l i).
Proof.
  induction f as [|f IH]; intros gas l n m i N G; [apply res_le_oof|].
  destruct gas as [|gas]; [lia|]. cbn [MB.zero_words Zero_loop1]. unfold zero_for0, zero_widx, zero_wval, zero_step0.
  case_if; [|apply res_le_refl]. cbv zeta. subst n.
  pose proof (wr_word_eq l i 0) as W. pose proof (rd_byte_eq l i) as R.
  (* &data[i]: the bounds check; then the store *)
  unfold go_get at 1. unfold go_store64 in *. unfold MB.wr_word, MB.in_window in *.
  destruct ((0 <=? i) && (i <? zlen l)) eqn:E.
  - assert (Nn : exists b, nth_error l (Z.to_nat i) = Some b).
    { apply andb_true_iff in E. destruct E as [E1 E2]. apply Z.leb_le in E1. apply Z.ltb_lt in E2. unfold zlen in E2.
      destruct (nth_error l (Z.to_nat i)) eqn:Q; [eexists; reflexivity|]. apply nth_error_None in Q. lia. }
    destruct Nn as [b Nb]. rewrite Nb. cbn [bind].
    destruct (MB.word_inside (zlen l) i) eqn:WI.
    + unfold MB.word_inside in WI. apply andb_true_iff in WI. destruct WI as [_ WI]. rewrite WI in *.
      destruct (Z.to_nat (0 + i) + 8 <=? length l)%nat eqn:K; cbn [embf B.bind] in *.
      * inversion W as [W']. cbn [bind].
        apply IH; [|lia].
        apply Nat.leb_le in K. change (0 + i) with i in K.
        unfold zlen. rewrite app_length, firstn_length. cbn [go_le_bytes app length]. rewrite skipn_length. lia.
      * discriminate.
    + unfold MB.word_inside in WI. apply andb_true_iff in E. destruct E as [E1 _]. rewrite E1 in WI. cbn [andb] in WI.
      rewrite WI in *. cbn [embf B.bind bind]. apply res_le_refl.
  - cbn [embf B.bind bind]. apply res_le_refl.
Qed.

Lemma zero_bytes_le fuel : forall f gas (l : list Z) n i, zlen l = n -> (f <= gas)%nat ->
  res_le (emb (MB.zero_bytes f l 0 n i)) (Zero_loop2 fuel gas n l i).
Proof.
  induction f as [|f IH]; intros gas l n i N G; [apply res_le_oof|].
  destruct gas as [|gas]; [lia|]. cbn [MB.zero_bytes Zero_loop2]. unfold zero_for1, zero_bidx, zero_bval, zero_step1.
  case_if; [|apply res_le_refl]. subst n.
  eapply emb_bind_le; [rewrite wr_byte_eq; apply res_le_refl|].
  intros l' H. apply IH; [apply (wr_byte_len _ _ _ _ H) | lia].
Qed.

Lemma zero_words_len : forall f (l : list Z) n m i l' j, zlen l = n ->
  MB.zero_words f l 0 n m i = B.Ok (l', j) -> zlen l' = n.
Proof.
  induction f as [|f IH]; intros l n m i l' j N H; cbn [MB.zero_words] in H; [discriminate|].
  destruct (zero_for0 i m); [|inversion H; subst; reflexivity].
  destruct (MB.wr_word l 0 n (zero_widx i) zero_wval) as [l3| | |] eqn:W; cbn [B.bind] in H; try discriminate.
  subst n. apply (IH l3 (zlen l) m (zero_step0 i) l' j); [apply (wr_word_len _ _ _ _ W) | exact H].
Qed.

Theorem C20_zero_is_source : forall (l : list Z) (fuel : nat), (MB.loop_fuel (zlen l) <= fuel)%nat ->
  res_le (embf (fun '(l', r) => (r, l')) (MB.zero l 0 (zlen l))) (Zero l fuel).
Proof.
  intros l fuel F. unfold MB.zero, Zero. unfold zero_m, zero_i0, zero_ret. cbv zeta.
  eapply emb_bind_le; [apply (zero_words_le fuel _ fuel l (zlen l)); [reflexivity | exact F]|].
  intros [l1 i] H. cbn beta iota.
  pose proof (zero_words_len _ _ _ _ _ _ _ eq_refl H) as N1.
  eapply emb_bind_le; [apply (zero_bytes_le fuel _ fuel l1 (zlen l)); [exact N1 | exact F]|].
  intros [l2 j] _. cbn beta iota. apply res_le_refl.
Qed.

Print Assumptions C20_zero_is_source.

(* ---------------------------------------------------------------- guard && data[i] == 0 *)
Lemma go_get_no_fault (l : list Z) i : go_get l i <> Panic PFault.
Proof. unfold go_get. destruct ((0 <=? i) && (i <? zlen l)); [destruct (nth_error l (Z.to_nat i))|]; discriminate. Qed.

Lemma cond_eq (l : list Z) (i : Z) (g : bool) :
  emb (B.cond_res (MB.rd_byte l 0 (zlen l) i) (fun c => g && (c =? 0)) (g && (0 =? 0) || g && (1 =? 0)))
  = if g then bind (go_get l i) (fun t => Ok (t =? 0)) else Ok false.
Proof.
  pose proof (rd_byte_eq l i) as R. rewrite <- R.
  assert (C : MB.rd_byte l 0 (zlen l) i = B.PanicIndex \/ exists c, MB.rd_byte l 0 (zlen l) i = B.Ok c).
  { unfold MB.rd_byte, MB.in_window. destruct ((0 <=? i) && (i <? zlen l)) eqn:E; [|left; reflexivity].
    right. change (0 + i) with i. destruct (nth_error l (Z.to_nat i)) eqn:N; [eexists; reflexivity|].
    apply andb_true_iff in E. destruct E as [E1 E2]. apply Z.leb_le in E1. apply Z.ltb_lt in E2.
    apply nth_error_None in N. unfold zlen in E2. lia. }
  destruct C as [C|[c C]]; rewrite C; destruct g; reflexivity.
Qed.

(* ---------------------------------------------------------------- LeadingZeroes *)
Lemma lz_scan_le fuel : forall f gas (l : list Z) i, (f <= gas)%nat ->
  res_le (emb (MB.lz_scan f l 0 (zlen l) i)) (LeadingZeroes_loop2 fuel gas l i).
Proof.
  induction f as [|f IH]; intros gas l i G; [apply res_le_oof|].
  destruct gas as [|gas]; [lia|]. cbn [MB.lz_scan LeadingZeroes_loop2].
  unfold lz_scan_idx, lz_scan_cond, lz_scan_step, lz_ret0.
  eapply emb_bind_le; [rewrite rd_byte_eq; apply res_le_refl|].
  intros c _. destruct (c =? 0); [apply IH; lia | apply res_le_refl].
Qed.

Definition ctl_of {S} (r : Z + S) : ctl S Z := match r with inl x => Ret x | inr s => Next s end.

Lemma lz_words_le fuel : forall f gas (l : list Z) m i, (f <= gas)%nat -> (MB.loop_fuel (zlen l) <= fuel)%nat ->
  res_le (embf ctl_of (MB.lz_words f l 0 (zlen l) m i)) (LeadingZeroes_loop1 fuel gas l m i).
Proof.
  induction f as [|f IH]; intros gas l m i G F; [apply res_le_oof|].
  destruct gas as [|gas]; [lia|]. cbn [MB.lz_words LeadingZeroes_loop1].
  unfold lz_for0, lz_widx, lz_nz, lz_step0. case_if; [|apply res_le_refl].
  eapply emb_bind_le; [rewrite rd_word_eq; apply res_le_refl|].
  intros v _. destruct (negb (v =? 0)).
  - eapply emb_bind_le; [apply lz_scan_le; exact F|]. intros r _. apply res_le_refl.
  - apply IH; [lia | exact F].
Qed.

Lemma lz_tail_le fuel : forall f gas (l : list Z) i, (f <= gas)%nat ->
  res_le (emb (MB.lz_tail f l 0 (zlen l) i)) (LeadingZeroes_loop3 fuel gas l (zlen l) i).
Proof.
  induction f as [|f IH]; intros gas l i G; [apply res_le_oof|].
  destruct gas as [|gas]; [lia|]. cbn [MB.lz_tail LeadingZeroes_loop3].
  unfold lz_tail_idx, lz_tail_cond, lz_tail_step, lz_ret1.
  eapply emb_bind_le; [rewrite (cond_eq l i (i <? zlen l)); apply res_le_refl|].
  intros b _. destruct b; [apply IH; lia | apply res_le_refl].
Qed.

Theorem C20_leading_zeroes_is_source : forall (l : list Z) (fuel : nat), (MB.loop_fuel (zlen l) <= fuel)%nat ->
  res_le (emb (MB.leading_zeroes l 0 (zlen l))) (LeadingZeroes l fuel).
Proof.
  intros l fuel F. unfold MB.leading_zeroes, LeadingZeroes, lz_m. cbv zeta.
  eapply emb_bind_le; [apply (lz_words_le fuel _ fuel l); [exact F | exact F]|].
  intros [x|i] _; cbn [ctl_of]; [apply res_le_refl | apply lz_tail_le; exact F].
Qed.

(* ---------------------------------------------------------------- TrailingZeroes *)
Lemma tz_scan_le fuel : forall f gas (l : list Z) i nz, (f <= gas)%nat ->
  res_le (emb (MB.tz_scan f l 0 (zlen l) i nz))
         (bind (TrailingZeroes_loop2 fuel gas l i nz) (fun '(_, nz') => Ok nz')).
Proof.
  induction f as [|f IH]; intros gas l i nz G; [apply res_le_oof|].
  destruct gas as [|gas]; [lia|]. cbn [MB.tz_scan TrailingZeroes_loop2].
  unfold tz_scan_idx, tz_scan_cond, tz_scan_i, tz_scan_nz, tz_ret0.
  rewrite bind_assoc.
  eapply emb_bind_le; [rewrite rd_byte_eq; apply res_le_refl|].
  intros c _. destruct (c =? 0); [apply IH; lia | apply res_le_refl].
Qed.

Lemma tz_words_le fuel : forall f gas (l : list Z) m i nz, (f <= gas)%nat -> (MB.loop_fuel (zlen l) <= fuel)%nat ->
  res_le (embf (fun r => match r with inl x => Ret x | inr nz' => Next nz' end) (MB.tz_words f l 0 (zlen l) m i nz))
         (bind (TrailingZeroes_loop1 fuel gas l m i nz)
               (fun c => Ok (match c with Ret x => Ret x | Next (_, nz') => Next nz' end))).
Proof.
  induction f as [|f IH]; intros gas l m i nz G F; [apply res_le_oof|].
  destruct gas as [|gas]; [lia|]. cbn [MB.tz_words TrailingZeroes_loop1].
  unfold tz_for0, tz_widx, tz_nzword, tz_step0, tz_word_nz. case_if; [|apply res_le_refl].
  rewrite bind_assoc.
  eapply emb_bind_le; [rewrite rd_word_eq; apply res_le_refl|].
  intros v _. destruct (negb (v =? 0)).
  - rewrite bind_assoc.
    pose proof (tz_scan_le fuel _ fuel l i nz F) as S.
    destruct (MB.tz_scan (MB.loop_fuel (zlen l)) l 0 (zlen l) i nz) as [r| | |]; cbn [embf B.bind] in *;
      destruct (TrailingZeroes_loop2 fuel fuel l i nz) as [[i' nz']| |]; cbn [bind] in *;
      destruct S as [S|S]; try discriminate; try (inversion S; subst); try apply res_le_refl; try apply res_le_oof.
  - apply IH; [lia | exact F].
Qed.

Lemma tz_tail_le fuel : forall f gas (l : list Z) m nz, (f <= gas)%nat ->
  res_le (emb (MB.tz_tail f l 0 (zlen l) m nz))
         (bind (TrailingZeroes_loop3 fuel gas l m nz) (fun '(_, nz') => Ok nz')).
Proof.
  induction f as [|f IH]; intros gas l m nz G; [apply res_le_oof|].
  destruct gas as [|gas]; [lia|]. cbn [MB.tz_tail TrailingZeroes_loop3].
  unfold tz_tail_idx, tz_tail_cond, tz_tail_post, tz_tail_nz, tz_ret1.
  rewrite bind_assoc.
  eapply emb_bind_le; [rewrite (cond_eq l m (m >=? 0)); apply res_le_refl|].
  intros b _. destruct b; [apply IH; lia | apply res_le_refl].
Qed.

Theorem C20_trailing_zeroes_is_source : forall (l : list Z) (fuel : nat), (MB.loop_fuel (zlen l) <= fuel)%nat ->
  res_le (emb (MB.trailing_zeroes l 0 (zlen l))) (TrailingZeroes l fuel).
Proof.
  intros l fuel F. unfold MB.trailing_zeroes, TrailingZeroes, tz_m, tz_i0, tz_nz0, tz_tail_init. cbv zeta.
  pose proof (tz_words_le fuel _ fuel l (zlen l - Z.ldiff (zlen l) 7) (zlen l - 8) 0 F F) as W.
  destruct (MB.tz_words _ _ _ _ _ _ _) as [[x|nz]| | |]; cbn [embf B.bind] in *;
    destruct (TrailingZeroes_loop1 _ _ _ _ _ _) as [[[i' nz']|x']| |]; cbn [bind] in *;
    destruct W as [W|W]; try discriminate; try (inversion W; subst); try apply res_le_refl; try apply res_le_oof.
  pose proof (tz_tail_le fuel _ fuel l (zlen l - Z.ldiff (zlen l) 7 - 1) nz' F) as T.
  destruct (MB.tz_tail _ _ _ _ _ _) as [r| | |]; cbn [embf] in *;
    destruct (TrailingZeroes_loop3 _ _ _ _ _) as [[m' nz2]| |]; cbn [bind] in *;
    destruct T as [T|T]; try discriminate; try (inversion T; subst); try apply res_le_refl; try apply res_le_oof.
Qed.

Print Assumptions C20_leading_zeroes_is_source.
Print Assumptions C20_trailing_zeroes_is_source.
