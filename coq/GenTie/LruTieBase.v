(* The hand-written model of cache/lru.go (Cache/CacheModel.v: lru_check, lru_access, lru_store,
   lru_remove, lru_evict, compare_prio, apply_moves) equals the functions generated from the Go
   source (Gen/FnLru.v, regenerated on every run).

   Representation.  The generated functions take the fields c.present (a [go_map Key Z]), c.clock
   and c.access as arguments.  c.access is a *heapq.Queue of another package: an abstract state
   [St_access] with one function argument per method called (access_Peek, access_Remove,
   access_Add, access_Pop); because the Update callback installed by LRU() writes c.present from
   inside these methods (anchors.d/fn.json: writes:lruStore.access:present), every method takes
   and returns c.present too.  Here they are instantiated with the heapq MODEL
   (Heapq/HeapqModel.v, any variant [hv]) followed by the replay of its move log on c.present
   ([hp_Peek] ... below) -- exactly how CacheModel uses the heap.  The model's record [prio] and the
   generated Record [prioKey] are converted by [to_prio]/[of_prio].

   Failures: [pmsg] maps the model's panic kinds onto the messages of the panic statements of the
   source (so the messages are tied too: the format string of fmt.Sprintf is the message);
   PIndex (a heapq index panic) is FnRt's PIndex. *)
From Coq Require Import ZArith List Bool Lia.
From Mds Require Import Common.FnRt GenTie.TieLib Gen.FnLru Gen.CacheLru.
From Mds Require Heapq.HeapqModel Cache.CacheModel.
Import ListNotations.
Local Open Scope Z_scope.

Module H := HeapqModel.
Module C := CacheModel.

Definition pmsg (k : C.panic_kind) : panic_kind :=
  match k with
  | C.PIndex => PIndex
  | C.PEvictEmpty => PMsg "lru evict: no entries left"
  | C.PStorePresent => PMsg "lru store: unexpected key %v"
  | C.PClearCheck => PMsg "cache: after clear size=%d count=%d"
  | C.PBadLimit => PMsg "cache: limit must be positive"
  end.

Definition embf {A B : Type} (f : A -> B) (r : C.cres A) : res B :=
  match r with
  | C.COk a => Ok (f a)
  | C.CPanic k => Panic (pmsg k)
  | C.CFuel => OutOfFuel
  end.

Lemma embf_cbind {A B D} (m : C.cres A) (k : A -> C.cres B) (f : B -> D) :
  embf f (C.cbind m k) = bind (embf (fun a => a) m) (fun a => embf f (k a)).
Proof. destruct m; reflexivity. Qed.

Section Lru.
Context {K V : Type}.
Variable keqb : K -> K -> bool.
Variable kzero : K.
Variable vzero : V.
Variable hv : H.variant.

Notation prio := (C.prio K V).
Notation queue := (H.queue (C.prio K V)).

Definition to_prio (p : prioKey K V) : prio :=
  C.Build_prio K V (prioKey_lastAccess p) (prioKey_key p) (prioKey_value p).
Definition of_prio (e : prio) : prioKey K V :=
  mk_prioKey (C.lastAccess e) (C.key e) (C.value e).

Lemma to_of_prio e : to_prio (of_prio e) = e.
Proof. destruct e; reflexivity. Qed.
Lemma of_to_prio p : of_prio (to_prio p) = p.
Proof. destruct p; reflexivity. Qed.

(* ---- the Go map: the model's association list is FnRt's ---- *)
Lemma map_get_eq (p : C.pmap K) k : C.map_get K keqb p k = go_map_get keqb p k.
Proof. induction p as [|[k' x] r IH]; simpl; [reflexivity|]. destruct (keqb k' k); [reflexivity | exact IH]. Qed.

Lemma map_set_eq (p : C.pmap K) k x : C.map_set K keqb p k x = go_map_set keqb p k x.
Proof. induction p as [|[k' y] r IH]; simpl; [reflexivity|]. destruct (keqb k' k); [reflexivity | rewrite IH; reflexivity]. Qed.

Lemma map_del_eq (p : C.pmap K) k : C.map_del K keqb p k = go_map_del keqb p k.
Proof. induction p as [|[k' y] r IH]; simpl; [reflexivity|]. destruct (keqb k' k); [exact IH | rewrite IH; reflexivity]. Qed.

Lemma get2_eq (p : C.pmap K) k :
  go_map_get2 keqb 0 p k = match C.map_get K keqb p k with Some x => (x, true) | None => (0, false) end.
Proof. unfold go_map_get2. rewrite map_get_eq. reflexivity. Qed.

(* ---- comparePrio ---- *)
Theorem C08_comparePrio_is_source : forall a b : prio,
  comparePrio (of_prio a) (of_prio b) = C.compare_prio K V a b.
Proof.
  intros [ta ka va] [tb kb vb]. unfold comparePrio, C.compare_prio, go_cmp_int, of_prio.
  cbn [prioKey_lastAccess C.lastAccess]. unfold CacheLru.prio_cmp_left, CacheLru.prio_cmp_right.
  destruct (Z.compare_spec ta tb).
  - subst. rewrite Z.ltb_irrefl. reflexivity.
  - replace (ta <? tb) with true by lia. reflexivity.
  - replace (ta <? tb) with false by lia. replace (tb <? ta) with true by lia. reflexivity.
Qed.

(* ---- the Update callback of LRU(): func(v, pos) { lru.present[v.key] = pos } ---- *)
Theorem C08_lru_update_is_source : forall (m : H.moves prio) (p : C.pmap K),
  C.apply_moves K V keqb m p = fold_left (fun p ep => LRU_lit0 p (of_prio (fst ep)) (snd ep) keqb) m p.
Proof.
  intros m. unfold C.apply_moves. induction m as [|[e i] m IH]; intros p; simpl; [reflexivity|].
  rewrite IH. unfold LRU_lit0 at 2. rewrite map_set_eq. destruct e; reflexivity.
Qed.

(* ---- the heap methods, instantiated with the heapq model + the replay of the move log ---- *)
Definition zero_prio : prio := C.zero_prio K V kzero vzero.
Notation moves_on := (C.apply_moves K V keqb).

Definition hp_Peek (q : queue) (p : go_map K Z) (n : Z) : res (prioKey K V * bool * queue * go_map K Z) :=
  match C.lift (H.Peek prio q n) with
  | C.COk H.PeekPanic => Panic PIndex
  | C.COk H.PeekNone => Ok (of_prio zero_prio, false, q, p)
  | C.COk (H.PeekSome e) => Ok (of_prio e, true, q, p)
  | C.CPanic k => Panic (pmsg k)
  | C.CFuel => OutOfFuel
  end.

Definition hp_Remove (q : queue) (p : go_map K Z) (n : Z) : res (prioKey K V * bool * queue * go_map K Z) :=
  match C.lift (H.Remove prio hv q n) with
  | C.COk (q1, m, H.RemPanic) => Panic PIndex
  | C.COk (q1, m, H.RemNone) => Ok (of_prio zero_prio, false, q1, moves_on m p)
  | C.COk (q1, m, H.RemSome e) => Ok (of_prio e, true, q1, moves_on m p)
  | C.CPanic k => Panic (pmsg k)
  | C.CFuel => OutOfFuel
  end.

Definition hp_Add (q : queue) (p : go_map K Z) (x : prioKey K V) : res (Z * queue * go_map K Z) :=
  match C.lift (H.Add prio hv q (to_prio x)) with
  | C.COk (q1, m, pos) => Ok (pos, q1, moves_on m p)
  | C.CPanic k => Panic (pmsg k)
  | C.CFuel => OutOfFuel
  end.

Definition hp_Pop (q : queue) (p : go_map K Z) : res (prioKey K V * bool * queue * go_map K Z) :=
  match C.lift (H.Pop prio hv q) with
  | C.COk (q1, m, None) => Ok (of_prio zero_prio, false, q1, moves_on m p)
  | C.COk (q1, m, Some e) => Ok (of_prio e, true, q1, moves_on m p)
  | C.CPanic k => Panic (pmsg k)
  | C.CFuel => OutOfFuel
  end.

End Lru.

Print Assumptions C08_comparePrio_is_source.
Print Assumptions C08_lru_update_is_source.
