(* mdiff/format.go: Context.  The function generated from the whole body (early return, optional
   file header, the two section headers with dspan, hasRelevantEdits deciding whether a section
   has lines, the two switches on e.Op with marker and side of every writeLines call) writes
   exactly the model's [context fi cs] into the sink and returns nil. *)
From Coq Require Import ZArith NArith List Bool Lia.
From Mds Require Import Mdiff.FormatModel Gen.MdiffSpan.
From Mds Require Import Common.FnRt Common.FnHeap Common.FnText GenTie.TieLib GenTie.MdiffFmtTieBase
  GenTie.MdiffFmtTieSpan GenTie.MdiffFmtTieLines GenTie.MdiffFmtTieUnified.
Import ListNotations.
Local Open Scope Z_scope.

Section Sink.
Variable cnt : sink -> list Z -> Z.
Variable er : sink -> list Z -> go_xerr.
Notation W := (sink_write cnt er).
Variable time : Type.
Variable time_is_zero : time -> bool.
Variable format_time : time -> bytes.
Variable IsZero : time -> res bool.
Variable Format : time -> list Z -> res (list Z).
Hypothesis IsZero_ok : forall ts, IsZero ts = Ok (time_is_zero ts).
Hypothesis Format_ok : forall ts, Format ts default_time_format = Ok (zb (format_time ts)).

Ltac bytes_eq :=
  cbn [go_sprint flat_map go_fval_text];
  repeat first [rewrite join_lines_app | rewrite join_lines_cons | rewrite zb_app | rewrite app_nil_r | rewrite go_itoa_is_model];
  rewrite <- ?app_assoc; reflexivity.

Ltac op_cases o :=
  destruct o; cbn [eenc G.Edit_Op G.Edit_X G.Edit_Y eop X Y];
  match goal with |- context[op_code ?o] => let v := eval vm_compute in (op_code o) in change (op_code o) with v end;
  cbv zeta; cbn [Z.eqb Pos.eqb bind].

Lemma context_old_loop_ok fuel : forall rest pre gas w,
  (length rest < gas)%nat -> Forall (edit_fuel fuel) rest ->
  G.Context_loop2 fuel gas W (zlen (pre ++ rest)) (map eenc (pre ++ rest)) w (zlen pre)
  = Ok (w ++ zb (join_lines (flat_map cedit_old rest)), zlen (pre ++ rest)).
Proof.
  induction rest as [|e rest IH]; intros pre gas w Hg Hf; (destruct gas as [|gas]; [simpl in Hg; lia|]).
  - cbn [G.Context_loop2]. rewrite app_nil_r, ltb_zlen_end.
    cbn [join_lines flat_map zb map]. rewrite app_nil_r. reflexivity.
  - inversion Hf as [|e' r' [HX HY] Hr]; subst.
    cbn [G.Context_loop2]. rewrite ltb_zlen_mid, go_get_map_mid. cbn [bind].
    rewrite <- (zlen_snoc pre e), (snoc_assoc pre e rest).
    destruct e as [o x y]. cbn [eop X Y] in HX, HY.
    op_cases o.
    + change (go_str "- ") with (zb [45; 32]%N). rewrite C14_writeLines_is_source by exact HX. cbn [bind].
      rewrite IH by (try exact Hr; simpl in Hg; lia).
      cbn [flat_map cedit_old eop X Y]. rewrite <- app_assoc. f_equal. f_equal. bytes_eq.
    + change (go_str "  ") with (zb [32; 32]%N). rewrite C14_writeLines_is_source by exact HX. cbn [bind].
      rewrite IH by (try exact Hr; simpl in Hg; lia).
      cbn [flat_map cedit_old eop X Y]. rewrite <- app_assoc. f_equal. f_equal. bytes_eq.
    + rewrite IH by (try exact Hr; simpl in Hg; lia).
      cbn [flat_map cedit_old eop X Y app]. reflexivity.
    + change (go_str "! ") with (zb [33; 32]%N). rewrite C14_writeLines_is_source by exact HX. cbn [bind].
      rewrite IH by (try exact Hr; simpl in Hg; lia).
      cbn [flat_map cedit_old eop X Y]. rewrite <- app_assoc. f_equal. f_equal. bytes_eq.
Qed.

Lemma context_new_loop_ok fuel : forall rest pre gas w,
  (length rest < gas)%nat -> Forall (edit_fuel fuel) rest ->
  G.Context_loop3 fuel gas W (zlen (pre ++ rest)) (map eenc (pre ++ rest)) w (zlen pre)
  = Ok (w ++ zb (join_lines (flat_map cedit_new rest)), zlen (pre ++ rest)).
Proof.
  induction rest as [|e rest IH]; intros pre gas w Hg Hf; (destruct gas as [|gas]; [simpl in Hg; lia|]).
  - cbn [G.Context_loop3]. rewrite app_nil_r, ltb_zlen_end.
    cbn [join_lines flat_map zb map]. rewrite app_nil_r. reflexivity.
  - inversion Hf as [|e' r' [HX HY] Hr]; subst.
    cbn [G.Context_loop3]. rewrite ltb_zlen_mid, go_get_map_mid. cbn [bind].
    rewrite <- (zlen_snoc pre e), (snoc_assoc pre e rest).
    destruct e as [o x y]. cbn [eop X Y] in HX, HY.
    op_cases o.
    + rewrite IH by (try exact Hr; simpl in Hg; lia).
      cbn [flat_map cedit_new eop X Y app]. reflexivity.
    + change (go_str "  ") with (zb [32; 32]%N). rewrite C14_writeLines_is_source by exact HX. cbn [bind].
      rewrite IH by (try exact Hr; simpl in Hg; lia).
      cbn [flat_map cedit_new eop X Y]. rewrite <- app_assoc. f_equal. f_equal. bytes_eq.
    + change (go_str "+ ") with (zb [43; 32]%N). rewrite C14_writeLines_is_source by exact HY. cbn [bind].
      rewrite IH by (try exact Hr; simpl in Hg; lia).
      cbn [flat_map cedit_new eop X Y]. rewrite <- app_assoc. f_equal. f_equal. bytes_eq.
    + change (go_str "! ") with (zb [33; 32]%N). rewrite C14_writeLines_is_source by exact HY. cbn [bind].
      rewrite IH by (try exact Hr; simpl in Hg; lia).
      cbn [flat_map cedit_new eop X Y]. rewrite <- app_assoc. f_equal. f_equal. bytes_eq.
Qed.

Lemma context_chunks_loop_ok fuel h : forall rest pre ads gas w,
  (length rest < gas)%nat -> Forall (chunk_fuel fuel) rest ->
  cells h ads (pre ++ rest) ->
  G.Context_loop1 fuel gas ads W (zlen ads) h w (zlen pre)
  = Ok (w ++ zb (join_lines (flat_map cchunk_lines rest)), zlen ads).
Proof.
  induction rest as [|c rest IH]; intros pre ads gas w Hg Hf Hc; (destruct gas as [|gas]; [simpl in Hg; lia|]).
  - rewrite app_nil_r in Hc. cbn [G.Context_loop1].
    replace (zlen pre) with (zlen ads) by (unfold zlen; rewrite (cells_length _ _ _ Hc); reflexivity).
    rewrite ltb_zlen_end. cbn [flat_map join_lines zb map]. rewrite app_nil_r. reflexivity.
  - inversion Hf as [|c' r' [HE HEs] Hr]; subst.
    destruct (cells_app_inv _ _ _ _ _ Hc) as (a1 & a & a2 & -> & H1 & Ha & H2 & Hl).
    cbn [G.Context_loop1].
    replace (zlen pre) with (zlen a1) by (unfold zlen; rewrite Hl; reflexivity).
    rewrite ltb_zlen_mid, go_get_mid. cbn [bind sink_write]. rewrite Ha. cbn [bind sink_write]. cbv zeta.
    cbn [henc G.Chunk_LStart G.Chunk_LEnd G.Chunk_RStart G.Chunk_REnd G.Chunk_Edits].
    rewrite !C14_dspan_is_source.
    change 45 with (op_code Drop). change 43 with (op_code Copy).
    rewrite !C14_hasRelevantEdits_is_source by exact HE. cbn [bind].
    rewrite zlen_map.
    pose proof (context_old_loop_ok fuel (edits c) [] fuel) as E2.
    pose proof (context_new_loop_ok fuel (edits c) [] fuel) as E3.
    cbn [app] in E2, E3. change (zlen (@nil (edit line))) with 0 in E2, E3.
    assert (Hold : forall w0,
      (if has_relevant_edits (edits c) Drop
       then bind (G.Context_loop2 fuel fuel W (zlen (edits c)) (map eenc (edits c)) w0 0) (fun '(w1, _) => Ok w1)
       else Ok w0)
      = Ok (w0 ++ zb (join_lines (if has_relevant_edits (edits c) Drop then flat_map cedit_old (edits c) else [])))).
    { intros w0. destruct (has_relevant_edits (edits c) Drop).
      - rewrite E2 by assumption. reflexivity.
      - cbn [join_lines flat_map zb map]. rewrite app_nil_r. reflexivity. }
    assert (Hnew : forall w0,
      (if has_relevant_edits (edits c) Copy
       then bind (G.Context_loop3 fuel fuel W (zlen (edits c)) (map eenc (edits c)) w0 0) (fun '(w1, _) => Ok w1)
       else Ok w0)
      = Ok (w0 ++ zb (join_lines (if has_relevant_edits (edits c) Copy then flat_map cedit_new (edits c) else [])))).
    { intros w0. destruct (has_relevant_edits (edits c) Copy).
      - rewrite E3 by assumption. reflexivity.
      - cbn [join_lines flat_map zb map]. rewrite app_nil_r. reflexivity. }
    rewrite Hold. cbn [bind sink_write]. rewrite Hnew. cbn [bind].
    rewrite <- (zlen_snoc a1 a).
    replace (zlen (a1 ++ [a])) with (zlen (pre ++ [c])) by (unfold zlen; rewrite !app_length, Hl; reflexivity).
    rewrite (snoc_assoc a1 a a2).
    rewrite (IH (pre ++ [c]) ((a1 ++ [a]) ++ a2) gas).
    + rewrite <- !app_assoc. f_equal. f_equal.
      cbn [flat_map]. unfold cchunk_lines, context_old_lo, context_old_hi, context_new_lo, context_new_hi.
      change (go_str "***************") with (zb s_stars15). change (go_str "*** ") with (zb s_sss).
      change (go_str "--- ") with (zb s_mmm).
      change (go_str " ****" ++ [10]) with (zb (s_4stars ++ [10%N])).
      change (go_str " ----" ++ [10]) with (zb (s_4dashes ++ [10%N])).
      change [10] with (zb [10%N]).
      bytes_eq.
    + simpl in Hg; lia.
    + exact Hr.
    + rewrite <- !app_assoc. exact Hc.
Qed.

Lemma context_header_ok w fi :
  (if negb (go_onil (option_map fienc fi))
   then
     bind (go_deref (option_map fienc fi)) (fun t1 =>
     bind (go_deref (option_map fienc fi)) (fun t2 =>
     bind (go_deref (option_map fienc fi)) (fun t3 =>
     bind (G.fmtFileHeader w (go_str "*** ") (go_or_str (G.FileInfo_Left t1) (go_str "a")) (G.FileInfo_LeftTime t2)
             (go_or_str (G.FileInfo_TimeFormat t3) (go_str "2006-01-02 15:04:05.999999 -0700")) W IsZero Format) (fun w =>
     bind (go_deref (option_map fienc fi)) (fun t4 =>
     bind (go_deref (option_map fienc fi)) (fun t5 =>
     bind (go_deref (option_map fienc fi)) (fun t6 =>
     G.fmtFileHeader w (go_str "--- ") (go_or_str (G.FileInfo_Right t4) (go_str "b")) (G.FileInfo_RightTime t5)
             (go_or_str (G.FileInfo_TimeFormat t6) (go_str "2006-01-02 15:04:05.999999 -0700")) W IsZero Format)))))))
   else Ok w)
  = Ok (w ++ zb (join_lines (context_header time_is_zero format_time fi))).
Proof.
  destruct fi as [f|]; cbn [option_map go_onil negb go_deref bind context_header].
  - cbn [fienc G.FileInfo_Left G.FileInfo_Right G.FileInfo_LeftTime G.FileInfo_RightTime G.FileInfo_TimeFormat go_or_str].
    change (go_str "a") with (zb [97%N]). change (go_str "b") with (zb [98%N]).
    change (go_str "*** ") with (zb s_sss). change (go_str "--- ") with (zb s_mmm).
    rewrite !or_str_name.
    rewrite (C14_fmtFileHeader_is_source cnt er time time_is_zero format_time IsZero Format default_time_format IsZero_ok Format_ok).
    cbn [bind].
    rewrite (C14_fmtFileHeader_is_source cnt er time time_is_zero format_time IsZero Format default_time_format IsZero_ok Format_ok).
    f_equal. change [10] with (zb [10%N]). bytes_eq.
  - cbn [join_lines flat_map zb map]. rewrite app_nil_r. reflexivity.
Qed.

Lemma C14_Context_is_source : forall fuel h ads cs w fi,
  chunks_fuel fuel cs -> cells h ads cs ->
  G.Context w ads (option_map fienc fi) W IsZero Format h fuel
  = Ok (None, w ++ zb (context time_is_zero format_time fi cs)).
Proof.
  intros fuel h ads cs w fi [Hl Hf] Hc. unfold G.Context.
  pose proof (cells_length _ _ _ Hc) as Hlen.
  destruct cs as [|c cs].
  - destruct ads; [|discriminate]. cbn [zlen length Z.of_nat Z.eqb]. cbn [context context_lines join_lines flat_map zb map].
    rewrite app_nil_r. reflexivity.
  - destruct ads as [|a ads]; [discriminate|].
    replace (zlen (a :: ads) =? 0) with false by (symmetry; apply Z.eqb_neq; unfold zlen; cbn [length]; lia).
    rewrite context_header_ok. cbn [bind]. cbv zeta.
    change 0 with (zlen (@nil (chunk line))).
    rewrite (context_chunks_loop_ok fuel h (c :: cs) [] (a :: ads) fuel _ Hl Hf Hc). cbn [bind].
    f_equal. f_equal. rewrite <- app_assoc. f_equal.
    unfold context, context_lines. rewrite join_lines_app, zb_app. reflexivity.
Qed.
End Sink.

Print Assumptions C14_Context_is_source.
