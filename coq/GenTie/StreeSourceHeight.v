(* stree, source-level histories: the HEIGHT bound (C02) stated on the heap of the generated code.

   [hreach h p x d] (StreeSource.v): following the left/right fields of the generated cells
   from the pointer p for d steps arrives at the cell x.  After every history of the generated
   Tree methods from the empty tree, every cell reachable from t.root lies at a depth d with
       d <= 1  or  2000^(d-1) <= P * (1000+b)^(d-1)
   ("no key lies deeper than log_{2000/(1000+b)} P + 1", without real numbers), P = the peak of
   t.size since the start / the last Clear / the last time the tree was empty, read off the
   generated object itself ([gpeak]).

   Composition: the simulation of StreeSourceSim.v (the object stands for the model's Tree, the
   region is tree-shaped) + the model's C02_history (Props/C02.v) on the history
   New(b) ; ops-on-tree-0, whose peak list is [gpeak] + depth on the heap <= height of the
   represented tree. *)
From Coq Require Import ZArith List Bool Arith Lia.
From Mds Require Import Gen.StreeConst Gen.StreeNode.
From Mds Require Import Common.FnRt Common.FnHeap GenTie.TieLib GenTie.StreeTieBase GenTie.StreeSep
  GenTie.StreeSource GenTie.StreeSourceSim.
From Mds Require Stree.HeightModel Stree.HeightLimit Stree.HeightBasics Props.C02.
Import ListNotations.
Local Open Scope Z_scope.

Module HM := HeightModel.
Module HL := HeightLimit.

Section HeapDepth.
Context {T : Type}.
Notation heap := (list (G.node T)).

(* a cell reached after d steps sits at depth d of the represented tree: d <= height (edges) *)
Lemma hreach_height (h : heap) : forall (a : option nat) (t : SM.tree T) (F : list nat),
  trepr h a t F -> forall x d, hreach h a x d -> Z.of_nat d <= SM.height t.
Proof.
  intros a t F R.
  induction R as [|a c l r Fl Fr Hn _ IHl _ IHr _ _ _]; intros x d Hr; [inversion Hr|].
  pose proof (HeightBasics.height_ge_m1 T l). pose proof (HeightBasics.height_ge_m1 T r).
  cbn [SM.height].
  inversion Hr as [a0 c0 Hn0|a0 c0 x0 d0 Hn0 Hr0|a0 c0 x0 d0 Hn0 Hr0]; subst.
  - lia.
  - rewrite Hn in Hn0. inversion Hn0; subst c0. specialize (IHl _ _ Hr0). lia.
  - rewrite Hn in Hn0. inversion Hn0; subst c0. specialize (IHr _ _ Hr0). lia.
Qed.

(* every cell of the region is reached, at some depth *)
Lemma trepr_reach (h : heap) : forall (a : option nat) (t : SM.tree T) (F : list nat),
  trepr h a t F -> forall x, In x F -> exists d, hreach h a x d.
Proof.
  intros a t F R.
  induction R as [|a c l r Fl Fr Hn _ IHl _ IHr _ _ _]; intros x Hx; [destruct Hx|].
  destruct Hx as [<-|Hx]; [exists O; eapply hreach_here; exact Hn|].
  apply in_app_iff in Hx. destruct Hx as [Hx|Hx].
  - destruct (IHl x Hx) as [d Hd]. exists (S d). eapply hreach_left; eassumption.
  - destruct (IHr x Hx) as [d Hd]. exists (S d). eapply hreach_right; eassumption.
Qed.
End HeapDepth.

Section Height.
Context {T : Type}.
Variable cmp : T -> T -> Z.
Hypothesis HP : SP.total_preorder cmp.
Variable limit : Z -> Z -> Z.
Hypothesis H1 : HM.limit_H1 limit.
Hypothesis H2 : HM.limit_H2 limit.
Variable zero : T.
Variable b : Z.
Hypothesis Hb : 0 <= b < 1000.
Variable h0 : list (G.node T).
Notation gstep := (gstep cmp limit zero b).
Notation gexec := (gexec cmp limit zero b).
Notation gpeak := (gpeak cmp limit zero b).

(* the model's peak bookkeeping on one tree = the peak read off the generated object *)
Lemma peak_single (ops : list (sop T)) : forall (st : gst T) (t : SM.Tree T) (l : list T) (P : Z),
  sim b h0 st t -> PH.rel T cmp t l ->
  exists t', fold_left (HM.step_peak cmp limit) (map to_op ops) ([t], [P]) = ([t'], [gpeak st P ops]) /\
             sim b h0 (gexec st ops) t'.
Proof.
  induction ops as [|o ops IH]; intros st t l P Hs Hr; [exists t; auto|].
  cbn [map fold_left StreeSource.gpeak StreeSource.gexec].
  destruct (gstep_sim cmp HP limit zero b h0 st t l o Hs Hr) as [st' [t' [Eg [Em Hs']]]].
  destruct (rel_step cmp HP limit t t' l o Hr Em) as [l' Hr'].
  assert (E : HM.step_peak cmp limit ([t], [P]) (to_op o) = ([t'], [gpeak_upd P st'])).
  { unfold HM.step_peak. rewrite Em. cbn [length skipn HM.upd_peaks map app].
    assert (Ep : HM.peak_upd P t' = gpeak_upd P st').
    { unfold HM.peak_upd, gpeak_upd. destruct Hs' as [-> _]. reflexivity. }
    rewrite Ep. destruct o; reflexivity. }
  rewrite E, Eg. cbn [fst]. apply (IH st' t' l' _ Hs' Hr').
Qed.

Theorem height_source (ops : list (sop T)) :
  let st := gexec (ginit h0) ops in
  let P := gpeak (ginit h0) 0 ops in
  g_size st <= P /\
  (exists t F, trepr (g_heap st) (g_root st) t F /\
     (forall x, In x F <-> exists d, hreach (g_heap st) (g_root st) x d)) /\
  forall x d, hreach (g_heap st) (g_root st) x d ->
    (d <= 1)%nat \/ 2000 ^ (Z.of_nat d - 1) <= P * (1000 + b) ^ (Z.of_nat d - 1).
Proof.
  cbn zeta.
  assert (Hb' : 0 <= b <= 1000) by lia.
  destruct (peak_single ops (ginit h0) _ [] 0 (sim_init b h0) (rel_empty cmp b)) as [t' [E Hs]].
  pose proof (C02.C02_history T cmp limit H1 H2 (SM.ONew b [] [] :: map to_op ops)) as HB.
  unfold HM.run_with_peak in HB. cbn [fold_left] in HB.
  assert (E0 : HM.step_peak cmp limit ([], []) (SM.ONew b [] []) = ([SM.mkTree SM.Leaf b 0 0], [0])).
  { unfold HM.step_peak. cbn [SM.step]. rewrite (new_empty cmp b Hb'). reflexivity. }
  rewrite E0, E in HB. cbn [fst snd] in HB.
  inversion HB as [|? ? ? ? HB1 _]; subst. clear HB.
  destruct Hs as [Esz [_ [Ebeta [F [R [_ _]]]]]].
  rewrite Ebeta in HB1. destruct (HB1 Hb) as [HL [_ HH]].
  split; [rewrite Esz; exact HL|]. split.
  - exists (SM.root t'), F. split; [exact R|]. intros x. split.
    + apply (trepr_reach _ _ _ _ R).
    + intros [d Hd]. clear - R Hd. revert x d Hd.
      induction R as [|a c l r Fl Fr Hn _ IHl _ IHr _ _ _]; intros x d Hd; [inversion Hd|].
      inversion Hd as [a0 c0 Hn0|a0 c0 x0 d0 Hn0 Hr0|a0 c0 x0 d0 Hn0 Hr0]; subst.
      * left. reflexivity.
      * rewrite Hn in Hn0. inversion Hn0; subst c0. right. apply in_app_iff. left. eapply IHl; exact Hr0.
      * rewrite Hn in Hn0. inversion Hn0; subst c0. right. apply in_app_iff. right. eapply IHr; exact Hr0.
  - intros x d Hd. pose proof (hreach_height _ _ _ _ R x d Hd) as Hh.
    destruct (le_gt_dec d 1) as [Hle|Hgt]; [left; exact Hle|right].
    destruct HH as [HH|HH]; [lia|].
    apply (HL.Pk_down b _ (Z.of_nat d - 1) (SM.height (SM.root t') - 1)); [lia|lia|exact HH].
Qed.

End Height.

(* with the exact depth limit (what limitFunc computes in floating point): nothing left to assume
   of the limit function *)
Theorem height_source_exact {T : Type} (cmp : T -> T -> Z) (HP : SP.total_preorder cmp) (zero : T) (b : Z)
        (Hb : 0 <= b < 1000) (h0 : list (G.node T)) (ops : list (sop T)) :
  let st := gexec cmp HM.limit_exact zero b (ginit h0) ops in
  let P := gpeak cmp HM.limit_exact zero b (ginit h0) 0 ops in
  g_size st <= P /\
  (exists t F, trepr (g_heap st) (g_root st) t F /\
     (forall x, In x F <-> exists d, hreach (g_heap st) (g_root st) x d)) /\
  forall x d, hreach (g_heap st) (g_root st) x d ->
    (d <= 1)%nat \/ 2000 ^ (Z.of_nat d - 1) <= P * (1000 + b) ^ (Z.of_nat d - 1).
Proof.
  exact (height_source cmp HP HM.limit_exact HL.limit_exact_H1 HL.limit_exact_H2 zero b Hb h0 ops).
Qed.

Print Assumptions height_source.
Print Assumptions height_source_exact.
