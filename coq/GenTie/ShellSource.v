(* shell/shell.go: source-level statements for C15 and C16.  The per-function ties of
   ShellTie{Quote,Next,Split}.v composed with the theorems of Props/C15.v and Props/C16.v, so that
   the property statements are about the functions GENERATED from shell.go (Gen/FnShell.v, over
   the byte-list instantiation of the bytes.Buffer / bufio.Reader objects of ShellTieBase.v) and
   not only about the hand-written model.

   [grun]: a session of Next / Rest calls driven through the generated Next, Text, Complete and
   Rest, from the four scanner fields; after a Rest the caller reads the reader it was handed to
   its end (as the model's [rest] and the correspondence harness do), so the machine continues
   with an empty reader. *)
From Coq Require Import ZArith NArith List Bool Lia.
From Mds Require Import Common.FnRt GenTie.TieLib Gen.ShellTable Gen.FnShell.
From Mds Require Import Shell.ShellModel Shell.ShellSkel Shell.ShellSpec Shell.ShellSession Shell.ShellFinal.
From Mds Require Import GenTie.ShellTieBase GenTie.ShellTieQuote GenTie.ShellTieNext GenTie.ShellTieSplit.
Import ListNotations.
Local Open Scope Z_scope.

(* ---- NewScanner ---- *)
Theorem C16_newscanner_is_source : forall i,
  G.NewScanner (zs i) new_reader [] = Ok (enc_sc (M.new_scanner i)).
Proof. reflexivity. Qed.

(* ---- the bytes Quote / Join write are bytes ---- *)
Lemma quote_loop_bytes_ok : forall s inq h, bytes_ok s -> bytes_ok (H.quote_loop s inq h).
Proof.
  induction s as [|c s IH]; intros inq h Hb; cbn [H.quote_loop].
  - destruct inq; repeat constructor.
  - apply bytes_ok_cons in Hb. destruct Hb as [Hc Hs].
    assert (P39 : (39 < 256)%N) by reflexivity. assert (P92 : (92 < 256)%N) by reflexivity.
    destruct (N.eqb c 39).
    + apply Forall_app. split; [destruct inq; repeat constructor; assumption|].
      repeat constructor; try assumption. apply IH, Hs.
    + destruct (negb inq && h); repeat constructor; try assumption; apply IH, Hs.
Qed.

Lemma quote_bytes_ok s : bytes_ok s -> bytes_ok (H.quote s).
Proof.
  intros Hb. unfold H.quote. destruct s as [|c s].
  - repeat constructor.
  - destruct (negb (H.has_q (c :: s)) && negb (H.has_other (c :: s))); [exact Hb|].
    apply quote_loop_bytes_ok, Hb.
Qed.

Lemma join_tail_bytes_ok : forall ss, (forall s, In s ss -> bytes_ok s) -> bytes_ok (M.join_tail ss).
Proof.
  induction ss as [|s ss IH]; intros Hs; cbn [M.join_tail].
  - constructor.
  - apply Forall_app. split; [repeat constructor|].
    apply Forall_app. split.
    + rewrite quote_buf_hand. apply quote_bytes_ok, Hs. left; reflexivity.
    + apply IH. intros; apply Hs; right; assumption.
Qed.

Lemma join_bytes_ok ss : (forall s, In s ss -> bytes_ok s) -> bytes_ok (M.join ss).
Proof.
  intros Hs. destruct ss as [|s ss]; cbn [M.join]; [constructor|].
  apply Forall_app. split.
  - rewrite quote_buf_hand. apply quote_bytes_ok, Hs. left; reflexivity.
  - apply join_tail_bytes_ok. intros; apply Hs; right; assumption.
Qed.

(* ---- C15 at source level ---- *)
(* the generated Split undoes the generated Join, whatever the pool hands out to either *)
Theorem C15_split_join_source_proof : forall ss b0 sc0 fuelJ fuelS,
  (forall s, In s ss -> bytes_ok s) ->
  (length ss < fuelJ)%nat -> (forall s, In s ss -> (length s < fuelJ)%nat) ->
  (length (M.join ss) + 2 <= fuelS)%nat ->
  exists j back,
    G.Join (map zs ss) b0 bb_Reset bb_WriteString bb_Grow bb_WriteByte bb_String fuelJ = Ok j /\
    G.Split (zs (M.inp sc0)) (zs (M.cur sc0)) (st_z (M.st sc0)) (err_z (M.eof sc0)) j
      rd_Reset bb_Reset new_reader rd_ReadByte bb_WriteByte bb_Write bb_String as_reader fuelS
    = Ok (map zs ss, true, zs (M.inp back), zs (M.cur back), st_z (M.st back), err_z (M.eof back)).
Proof.
  intros ss b0 sc0 fuelJ fuelS Hb HfJ HfJ' HfS.
  pose proof (C16_Split_result_is_source sc0 (M.join ss) fuelS (join_bytes_ok ss Hb) HfS) as S.
  rewrite (split_join_pooled sc0 ss) in S. destruct S as (back & S).
  exists (zs (M.join ss)), back. split; [apply C15_Join_is_source; assumption | exact S].
Qed.

Theorem C15_split_quote_source_proof : forall s b0 sc0 fuelQ fuelS,
  bytes_ok s -> (length s < fuelQ)%nat -> (length (M.quote s) + 2 <= fuelS)%nat ->
  exists q back,
    G.Quote (zs s) b0 bb_Reset bb_WriteString bb_Grow bb_WriteByte bb_String fuelQ = Ok q /\
    G.Split (zs (M.inp sc0)) (zs (M.cur sc0)) (st_z (M.st sc0)) (err_z (M.eof sc0)) q
      rd_Reset bb_Reset new_reader rd_ReadByte bb_WriteByte bb_Write bb_String as_reader fuelS
    = Ok ([zs s], true, zs (M.inp back), zs (M.cur back), st_z (M.st back), err_z (M.eof back)).
Proof.
  intros s b0 sc0 fuelQ fuelS Hb HfQ HfS.
  assert (Bq : bytes_ok (M.quote s)) by (rewrite quote_hand; apply quote_bytes_ok, Hb).
  pose proof (C16_Split_result_is_source sc0 (M.quote s) fuelS Bq HfS) as S.
  assert (E : M.split_from sc0 (M.quote s) = Some ([s], true)).
  { pose proof (split_join_pooled sc0 [s]) as J. cbn [M.join M.join_tail] in J. rewrite app_nil_r in J.
    assert (Q : M.quote_buf s = M.quote s) by (rewrite quote_buf_hand, quote_hand; reflexivity).
    rewrite Q in J. exact J. }
  rewrite E in S. destruct S as (back & S).
  exists (zs (M.quote s)), back. split; [apply C15_Quote_is_source; assumption | exact S].
Qed.

(* what a POSIX shell makes of the output of the generated Quote *)
Theorem C15_posix_source_proof : forall s b0 fuel, (length s < fuel)%nat ->
  exists q, G.Quote (zs s) b0 bb_Reset bb_WriteString bb_Grow bb_WriteByte bb_String fuel = Ok (zs q) /\
            posix_words q = Some [s].
Proof.
  intros s b0 fuel Hf. exists (M.quote s). split; [apply C15_Quote_is_source; exact Hf | apply quote_posix].
Qed.

(* ---- C16 at source level ---- *)
(* the generated Split computes the reference tokenizer, whatever scanner the pool hands out *)
Theorem C16_ref_source_proof : forall sc0 s fuel, bytes_ok s -> (length s + 2 <= fuel)%nat ->
  exists back,
    G.Split (zs (M.inp sc0)) (zs (M.cur sc0)) (st_z (M.st sc0)) (err_z (M.eof sc0)) (zs s)
      rd_Reset bb_Reset new_reader rd_ReadByte bb_WriteByte bb_Write bb_String as_reader fuel
    = Ok (map zs (fst (ref_split s)), snd (ref_split s),
          zs (M.inp back), zs (M.cur back), st_z (M.st back), err_z (M.eof back)).
Proof.
  intros sc0 s fuel Hb Hf.
  pose proof (C16_Split_result_is_source sc0 s fuel Hb Hf) as S.
  rewrite (split_ref_pooled sc0 s) in S. destruct (ref_split s) as [toks ok]. exact S.
Qed.

(* sessions of Next / Rest through the generated methods *)
Inductive gout :=
| GNext (ok : bool) (txt : list Z) (cmpl : bool)
| GRest (r : list Z)
| GPanic (k : panic_kind)
| GFuel.

Definition enc_out (o : M.sc_out) : gout :=
  match o with
  | RNext ok t c => GNext ok (zs t) c
  | RRest r => GRest (zs r)
  | RPanic => GPanic PIndex
  end.

Fixpoint grun (fuel : nat) (b c : list Z) (s : Z) (e : go_error) (ops : list M.sc_op) : list gout :=
  match ops with
  | [] => []
  | ONext :: ops' =>
    match G.Next_ b c s e bb_Reset rd_ReadByte bb_WriteByte bb_Write fuel with
    | Ok (ok, b', c', s', e') =>
      match G.Text c' bb_String with
      | Ok (txt, c'') => GNext ok txt (G.Complete s') :: grun fuel b' c'' s' e' ops'
      | Panic k => [GPanic k]
      | OutOfFuel => [GFuel]
      end
    | Panic k => [GPanic k]
    | OutOfFuel => [GFuel]
    end
  | ORest :: ops' =>
    match G.Rest b c s e bb_Reset with
    | Ok (r, c', s', e') => GRest r :: grun fuel [] c' s' e' ops'
    | Panic k => [GPanic k]
    | OutOfFuel => [GFuel]
    end
  end.

Lemma next_inp sc sc' ok : M.next sc = Some (sc', ok) ->
  (length (M.inp sc') <= length (M.inp sc))%nat /\ (bytes_ok (M.inp sc) -> bytes_ok (M.inp sc')).
Proof.
  rewrite next_hand. intros N. destruct ok.
  - destruct (next_true_measure _ _ N) as (_ & B & L). split; assumption.
  - unfold H.next in N. destruct (M.eof sc).
    + inversion N; subst. split; [lia | auto].
    + destruct (H.scan_next (M.inp sc) (M.st sc) []); inversion N; subst; cbn.
      split; [lia | intros; constructor].
Qed.

Theorem C16_run_is_source : forall ops sc fuel,
  bytes_ok (M.inp sc) -> (length (M.inp sc) < fuel)%nat ->
  grun fuel (zs (M.inp sc)) (zs (M.cur sc)) (st_z (M.st sc)) (err_z (M.eof sc)) ops
  = map enc_out (M.run_ops sc ops).
Proof.
  induction ops as [|op ops IH]; intros sc fuel Hb Hf; [reflexivity|].
  destruct op; cbn [grun M.run_ops].
  - rewrite C16_next_is_source by assumption.
    destruct (M.next sc) as [[sc' ok]|] eqn:N; [|reflexivity].
    cbn [enc_next]. rewrite C16_text_is_source, C16_complete_is_source.
    destruct (next_inp _ _ _ N) as [L B].
    cbn [map enc_out]. f_equal. apply IH; [apply B, Hb | lia].
  - rewrite C16_rest_is_source. destruct (M.rest sc) as [sc' r] eqn:R.
    cbn [fst snd map enc_out]. f_equal.
    assert (I : M.inp sc' = []) by (unfold M.rest in R; inversion R; reflexivity).
    change (@nil Z) with (zs []). rewrite <- I. apply IH; rewrite I; [constructor | simpl; lia].
Qed.

(* every session on a new scanner: the observations of the generated code are accepted by the
   reference session checker, and no call panics *)
Theorem C16_session_source_proof : forall s ops, bytes_ok s ->
  exists b c st e outs,
    G.NewScanner (zs s) new_reader [] = Ok (b, c, st, e) /\
    grun (S (length s)) b c st e ops = map enc_out outs /\
    session_ok s ops outs = true /\ ~ In RPanic outs.
Proof.
  intros s ops Hb.
  exists (zs s), [], 1, ENil, (M.run_ops (M.new_scanner s) ops).
  split; [reflexivity|]. split.
  - apply (C16_run_is_source ops (M.new_scanner s)); [exact Hb | simpl; lia].
  - split; [apply session_ref | apply session_no_panic].
Qed.

(* ---- sessions over the API without Each: Next, Rest, Err, Reset, Scanner.Split ----
   [grunx]: the same machine with Err (the latch compared with io.EOF), Reset (to a fresh reader of
   the session's input src) and Scanner.Split through the generated methods.  Each is left out:
   the generated Each takes a pure callback and does not return the tokens it passed on. *)
Inductive goutx :=
| GXNext (ok : bool) (txt : list Z) (cmpl : bool)
| GXRest (r : list Z)
| GXErr (is_eof : bool)
| GXReset
| GXSplit (toks : list (list Z)) (txt : list Z) (cmpl : bool)
| GXPanic (k : panic_kind)
| GXFuel
| GXNotTranslated.

Definition enc_outx (o : M.sc_outx) : goutx :=
  match o with
  | XRNext ok t c => GXNext ok (zs t) c
  | XRRest r => GXRest (zs r)
  | XRErr b => GXErr b
  | XRReset => GXReset
  | XRSplit toks t c => GXSplit (map zs toks) (zs t) c
  | XREach _ _ _ => GXNotTranslated
  | XRPanic => GXPanic PIndex
  end.

Definition no_each (o : M.sc_opx) : bool := match o with XEach _ => false | _ => true end.

Fixpoint grunx (fuel : nat) (src : list Z) (b c : list Z) (s : Z) (e : go_error) (ops : list M.sc_opx) : list goutx :=
  match ops with
  | [] => []
  | XNext :: ops' =>
    match G.Next_ b c s e bb_Reset rd_ReadByte bb_WriteByte bb_Write fuel with
    | Ok (ok, b', c', s', e') =>
      match G.Text c' bb_String with
      | Ok (txt, c'') => GXNext ok txt (G.Complete s') :: grunx fuel src b' c'' s' e' ops'
      | Panic k => [GXPanic k]
      | OutOfFuel => [GXFuel]
      end
    | Panic k => [GXPanic k]
    | OutOfFuel => [GXFuel]
    end
  | XRest :: ops' =>
    match G.Rest b c s e bb_Reset with
    | Ok (r, c', s', e') => GXRest r :: grunx fuel src [] c' s' e' ops'
    | Panic k => [GXPanic k]
    | OutOfFuel => [GXFuel]
    end
  | XErr :: ops' => GXErr (go_err_eqb (G.Err e) EEOF) :: grunx fuel src b c s e ops'
  | XReset :: ops' =>
    match G.Reset b c s e src rd_Reset bb_Reset with
    | Ok (b', c', s', e') => GXReset :: grunx fuel src b' c' s' e' ops'
    | Panic k => [GXPanic k]
    | OutOfFuel => [GXFuel]
    end
  | XSplit :: ops' =>
    match G.Scanner_Split b c s e bb_Reset rd_ReadByte bb_WriteByte bb_Write bb_String fuel with
    | Ok (toks, b', c', s', e') =>
      match G.Text c' bb_String with
      | Ok (txt, c'') => GXSplit toks txt (G.Complete s') :: grunx fuel src b' c'' s' e' ops'
      | Panic k => [GXPanic k]
      | OutOfFuel => [GXFuel]
      end
    | Panic k => [GXPanic k]
    | OutOfFuel => [GXFuel]
    end
  | XEach _ :: _ => [GXNotTranslated]
  end.

Lemma split_loop_inp : forall f sc toks sc' toks', H.split_loop f sc toks = Some (sc', toks') ->
  (length (M.inp sc') <= length (M.inp sc))%nat /\ (bytes_ok (M.inp sc) -> bytes_ok (M.inp sc')).
Proof.
  induction f as [|f IH]; intros sc toks sc' toks' E; cbn [H.split_loop] in E; [discriminate|].
  destruct (H.next sc) as [[sc1 ok]|] eqn:N; [|discriminate].
  assert (N' : M.next sc = Some (sc1, ok)) by (rewrite next_hand; exact N).
  destruct (next_inp _ _ _ N') as [L B].
  destruct ok.
  - destruct (IH _ _ _ _ E) as [L1 B1]. split; [lia | auto].
  - inversion E; subst. split; assumption.
Qed.

Theorem C16_runx_is_source : forall ops src sc n fuel,
  forallb no_each ops = true ->
  bytes_ok src -> bytes_ok (M.inp sc) ->
  (length src <= n)%nat -> (length (M.inp sc) <= n)%nat -> (n + 2 <= fuel)%nat ->
  grunx fuel (zs src) (zs (M.inp sc)) (zs (M.cur sc)) (st_z (M.st sc)) (err_z (M.eof sc)) ops
  = map enc_outx (M.run_opsx src sc ops).
Proof.
  induction ops as [|op ops IH]; intros src sc n fuel Hne Hbs Hb Hns Hn Hf; [reflexivity|].
  cbn [forallb] in Hne. apply andb_true_iff in Hne. destruct Hne as [Ho Hne].
  destruct op; cbn [grunx M.run_opsx]; try discriminate Ho.
  - rewrite C16_next_is_source by (try assumption; lia).
    destruct (M.next sc) as [[sc' ok]|] eqn:N; [|reflexivity].
    cbn [enc_next]. rewrite C16_text_is_source, C16_complete_is_source.
    destruct (next_inp _ _ _ N) as [L B].
    cbn [map enc_outx]. f_equal. apply (IH src sc' n); auto; lia.
  - rewrite C16_rest_is_source. destruct (M.rest sc) as [sc' r] eqn:R.
    cbn [fst snd map enc_outx]. f_equal.
    assert (I : M.inp sc' = []) by (unfold M.rest in R; inversion R; reflexivity).
    change (@nil Z) with (zs []). rewrite <- I. apply (IH src sc' n); auto; rewrite I; [constructor | simpl; lia].
  - destruct (C16_err_is_source sc) as (_ & E & _). rewrite E.
    cbn [map enc_outx]. f_equal. apply (IH src sc n); auto.
  - rewrite C16_reset_is_source. unfold enc_sc.
    cbn [map enc_outx]. f_equal. apply (IH src (M.reset_sc sc src) n); auto.
  - rewrite C16_scanner_split_is_source by (try assumption; lia).
    destruct (M.scanner_split sc) as [[sc' toks]|] eqn:S; [|reflexivity].
    rewrite C16_text_is_source, C16_complete_is_source.
    cbn [map enc_outx]. f_equal.
    rewrite scanner_split_hand in S. unfold H.scanner_split in S.
    destruct (split_loop_inp _ _ _ _ _ S) as [L B].
    apply (IH src sc' n); auto; lia.
Qed.

(* every session of Next / Rest / Err / Reset / Scanner.Split on a new scanner, through the
   generated methods: accepted by the reference checker of the whole API, no call panics *)
Theorem C16_sessionx_source_proof : forall s ops, bytes_ok s -> forallb no_each ops = true ->
  exists b c st e outs,
    G.NewScanner (zs s) new_reader [] = Ok (b, c, st, e) /\
    grunx (length s + 2) (zs s) b c st e ops = map enc_outx outs /\
    session_okx s ops outs = true /\ ~ In XRPanic outs.
Proof.
  intros s ops Hb Hne.
  exists (zs s), [], 1, ENil, (M.run_opsx s (M.new_scanner s) ops).
  split; [reflexivity|]. split.
  - apply (C16_runx_is_source ops s (M.new_scanner s) (length s)); auto; simpl; lia.
  - split; [apply sessionx_ref | apply sessionx_no_panic].
Qed.

Print Assumptions C16_newscanner_is_source.
Print Assumptions C15_split_join_source_proof.
Print Assumptions C15_split_quote_source_proof.
Print Assumptions C15_posix_source_proof.
Print Assumptions C16_ref_source_proof.
Print Assumptions C16_run_is_source.
Print Assumptions C16_session_source_proof.
Print Assumptions C16_runx_is_source.
Print Assumptions C16_sessionx_source_proof.
