(* Queue.Peek of queue/queue.go: model = generated function (see QueueTieBase.v) *)
From Coq Require Import ZArith List Bool Lia.
From Mds Require Import Common.FnRt GenTie.TieLib Gen.FnQueue Gen.QueueIdx GenTie.QueueTieBase.
Import ListNotations.
Local Open Scope Z_scope.

Section Queue.
Context {T : Type}.
Variable zero : T.
Notation queue := (Q.queue T).
Notation vs := (@Q.vs T).
Notation head := (@Q.head T).
Notation qn := (@Q.n T).
Notation rot := (@rot T).
Notation app_or := (app_or zero).
Notation grow_eq := (grow_eq zero).

Theorem C07_peek_is_source : forall (q : queue) (k : Z),
  Peek (vs q) (head q) (qn q) k zero = embf (fun x => x) (Q.peek Q.idw T zero q k).
Proof.
  intros [l h n] k. unfold Peek, Q.peek. cbn [Q.vs Q.head Q.n]. qunf.
  change (Q.zlen T l) with (zlen l).
  match goal with |- context[if ?c then k + n else k] => set (k' := if c then k + n else k) end.
  case_if; [reflexivity|].
  unfold go_rem, Q.checked_rem.
  destruct (zlen l =? 0); cbn [bind Q.bind embf]; [reflexivity|].
  rewrite get_eq. destruct (Q.idx T l (Z.rem (h + k') (zlen l))); reflexivity.
Qed.

End Queue.

Print Assumptions C07_peek_is_source.
