(* Cache.Clear of cache/cache.go: model = generated function (see CacheTieBase.v); the model's
   PClearCheck is the panic(fmt.Sprintf("cache: after clear size=%d count=%d", ...)) statement. *)
From Coq Require Import ZArith List Bool Lia.
From Mds Require Import Common.FnRt GenTie.TieLib Gen.FnCache Gen.CacheIdx GenTie.LruTieBase GenTie.CacheTieBase.
Import ListNotations.
Local Open Scope Z_scope.

Section Abs.
Context {K V : Type}.
Variable keqb : K -> K -> bool.
Variable kzero : K.
Variable vzero : V.
Variable sizeOf : V -> Z.
Variable hv : H.variant.

Notation lru := (C.lru K V).
Notation cache := (C.cache K V).

Section Impl.
Context {St : Type}.
Variable rep : lru -> St.
Variable chk : St -> K -> res (V * bool * St).
Variable acc : St -> K -> res (V * bool * St).
Variable sto : St -> K -> V -> res St.
Variable rem : St -> K -> res St.
Variable evi : St -> res (K * V * St).
Hypothesis OK : store_ok keqb kzero vzero hv rep chk acc sto rem evi.

Let Hevi := proj2 (proj2 (proj2 (proj2 OK))).

(* for c.count > 0 { ek, ev := c.store.Evict(); c.onEvict(ek, ev); c.size -= c.sizeOf(ev); c.count-- } *)
Lemma clear_loop_le : forall (n fuel gas : nat) (s : lru) (size cnt : Z) (log : list (K * V)),
  (n <= gas)%nat ->
  res_le (embf (fun '(s', size', cnt', log') => (rep s', size', cnt', log'))
               (C.clear_loop K V keqb sizeOf hv n s size cnt log))
         (Clear_loop1 fuel gas sizeOf evi (rep s) size cnt log).
Proof.
  induction n as [|n IH]; intros fuel gas s size cnt log G; [apply res_le_oof|].
  destruct gas as [|gas]; [lia|]. cbn [C.clear_loop Clear_loop1].
  unfold CacheIdx.clear_continue. case_if; [|apply res_le_refl].
  rewrite Hevi. destruct (C.lru_evict K V keqb hv s) as [[s' [ek ev]]| |]; cbn [embf bind C.cbind snd];
    [|apply res_le_refl|apply res_le_refl].
  apply (IH fuel gas s'). lia.
Qed.

Theorem C08_clear_is_source : forall (c : cache) (fuel : nat),
  (S (length (H.data (C.access (C.store c)))) <= fuel)%nat ->
  res_le (embf (fun '(c', log) => (rep (C.store c'), C.csize c', C.count c', C.limit c', log))
               (C.cache_clear K V keqb sizeOf hv c))
         (bind (Clear (rep (C.store c)) (C.csize c) (C.count c) sizeOf evi fuel)
               (fun '(st, size, cnt, log) => Ok (st, size, cnt, C.limit c, log))).
Proof.
  intros [s size cnt lim] fuel G. unfold Clear, C.cache_clear. cbn [C.store C.csize C.count C.limit] in *.
  rewrite bind_assoc.
  eapply embf_bind_le; [apply clear_loop_le; exact G|].
  intros [[[s2 size2] cnt2] log2] _. cbn beta iota.
  unfold CacheIdx.clear_inconsistent. case_if; apply res_le_refl.
Qed.

End Impl.
End Abs.

Print Assumptions C08_clear_is_source.
