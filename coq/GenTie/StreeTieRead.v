(* stree: node.size, Tree.Get, Tree.Min, Tree.Max, Tree.Len, Tree.IsEmpty generated from the source
   return the model's results on the tree the heap represents (see StreeTieBase.v). *)
From Coq Require Import ZArith List Bool Arith Lia.
From Mds Require Import Gen.StreeConst Gen.StreeNode.
From Mds Require Import Common.FnRt Common.FnHeap GenTie.TieLib GenTie.StreeTieBase.
Import ListNotations.
Local Open Scope Z_scope.

Section Read.
Context {T : Type}.
Variable cmp : T -> T -> Z.
Variable zero : T.
Notation tree := (SM.tree T).
Notation heap := (list (G.node T)).

(* func (n *node[T]) size() int: 1 + n.left.size() + n.right.size() *)
Theorem C01_size_is_source : forall (fuel : nat) (h : heap) (a : option nat) (t : tree),
  repr h a t -> (fuel > depth t)%nat -> G.node_size a h fuel = Ok (SM.size t).
Proof.
  induction fuel as [|fuel IH]; intros h a t R Hf; [lia|].
  destruct t as [|l x r]; cbn [G.node_size].
  - apply repr_leaf_inv in R. subst a. reflexivity.
  - rnode R k c Hk Hl Hr. cbn [go_pnil depth] in *. rewrite (hget_repr h k c Hk). cbn [bind].
    rewrite (IH h _ l Hl) by lia. cbn [bind]. rewrite (IH h _ r Hr) by lia. cbn [bind SM.size].
    unfold node_size. reflexivity.
Qed.

(* func (t *Tree[T]) Get(key T) (_ T, ok bool) *)
Definition get_end (t : ctl (option nat) (T * bool)) : res (T * bool) :=
  match t with Ret x => Ok x | Next _ => Ok (zero, false) end.

Lemma get_loop_ok : forall (t : tree) (gas fuel : nat) (h : heap) (a : option nat) (key : T),
  repr h a t -> (gas > depth t)%nat ->
  bind (G.Tree_Get_loop1 fuel gas cmp key h a) get_end =
  Ok (match SM.get cmp key t with Some x => (x, true) | None => (zero, false) end).
Proof.
  induction t as [|l IHl x r IHr]; intros gas fuel h a key R Hg; (destruct gas as [|gas]; [lia|]); cbn [G.Tree_Get_loop1].
  - apply repr_leaf_inv in R. subst a. reflexivity.
  - rnode R k c Hk Hl Hr. cbn [go_pnil negb depth SM.get] in *. rewrite (hget_repr h k c Hk). cbn [bind].
    unfold get_lt, get_gt.
    destruct (cmp key (G.node_X c) <? 0).
    + apply IHl; [exact Hl|lia].
    + destruct (cmp key (G.node_X c) >? 0).
      * apply IHr; [exact Hr|lia].
      * reflexivity.
Qed.

Theorem C01_get_is_source : forall (h : heap) (root : option nat) (t : tree) (key : T) (fuel : nat),
  repr h root t -> (fuel > depth t)%nat ->
  G.Tree_Get root cmp key h zero fuel =
  Ok (match SM.get cmp key t with Some x => (x, true) | None => (zero, false) end).
Proof.
  intros h root t key fuel R Hf. unfold G.Tree_Get.
  rewrite <- (get_loop_ok t fuel fuel h root key R Hf).
  destruct (G.Tree_Get_loop1 fuel fuel cmp key h root) as [[c|x]| |]; reflexivity.
Qed.

(* func (t *Tree[T]) Min() T: for cur.left != nil { cur = cur.left } *)
Lemma min_loop_ok : forall (l : tree) (gas fuel : nat) (h : heap) (k : nat) (c : G.node T) (r : tree),
  nth_error h k = Some c -> repr h (G.node_left c) l -> (gas > depth l)%nat ->
  bind (G.Tree_Min_loop1 fuel gas h (Some k)) (fun cur => bind (go_hget h cur) (fun t3 => Ok (G.node_X t3))) =
  Ok (SM.min_from (G.node_X c) l).
Proof.
  induction l as [|ll IHl x lr _]; intros gas fuel h k c r Hk Hl Hg; (destruct gas as [|gas]; [lia|]); cbn [G.Tree_Min_loop1].
  - apply repr_leaf_inv in Hl. rewrite (hget_repr h k c Hk). cbn [bind]. rewrite Hl. cbn [go_pnil negb bind].
    rewrite (hget_repr h k c Hk). reflexivity.
  - rewrite (hget_repr h k c Hk). cbn [bind].
    rnode Hl k' c' Hk' Hl' Hr'. cbn [go_pnil negb depth SM.min_from] in *.
    apply (IHl gas fuel h k' c' lr Hk' Hl'). lia.
Qed.

Theorem C01_min_is_source : forall (h : heap) (root : option nat) (t : tree) (fuel : nat),
  repr h root t -> (fuel >= depth t)%nat ->
  G.Tree_Min root h zero fuel = Ok (match SM.tree_min t with Some x => x | None => zero end).
Proof.
  intros h root t fuel R Hf. unfold G.Tree_Min. destruct t as [|l x r].
  - apply repr_leaf_inv in R. subst root. reflexivity.
  - rnode R k c Hk Hl Hr. cbn [go_pnil SM.tree_min depth] in *.
    apply (min_loop_ok l fuel fuel h k c r Hk Hl). lia.
Qed.

Lemma max_loop_ok : forall (r : tree) (gas fuel : nat) (h : heap) (k : nat) (c : G.node T),
  nth_error h k = Some c -> repr h (G.node_right c) r -> (gas > depth r)%nat ->
  bind (G.Tree_Max_loop1 fuel gas h (Some k)) (fun cur => bind (go_hget h cur) (fun t3 => Ok (G.node_X t3))) =
  Ok (SM.max_from (G.node_X c) r).
Proof.
  induction r as [|rl _ x rr IHr]; intros gas fuel h k c Hk Hr Hg; (destruct gas as [|gas]; [lia|]); cbn [G.Tree_Max_loop1].
  - apply repr_leaf_inv in Hr. rewrite (hget_repr h k c Hk). cbn [bind]. rewrite Hr. cbn [go_pnil negb bind].
    rewrite (hget_repr h k c Hk). reflexivity.
  - rewrite (hget_repr h k c Hk). cbn [bind].
    rnode Hr k' c' Hk' Hl' Hr'. cbn [go_pnil negb depth SM.max_from] in *.
    apply (IHr gas fuel h k' c' Hk' Hr'). lia.
Qed.

Theorem C01_max_is_source : forall (h : heap) (root : option nat) (t : tree) (fuel : nat),
  repr h root t -> (fuel >= depth t)%nat ->
  G.Tree_Max root h zero fuel = Ok (match SM.tree_max t with Some x => x | None => zero end).
Proof.
  intros h root t fuel R Hf. unfold G.Tree_Max. destruct t as [|l x r].
  - apply repr_leaf_inv in R. subst root. reflexivity.
  - rnode R k c Hk Hl Hr. cbn [go_pnil SM.tree_max depth] in *.
    apply (max_loop_ok r fuel fuel h k c Hk Hr). lia.
Qed.

(* Len, IsEmpty: the cached size *)
Theorem C01_len_is_source : forall (t : SM.Tree T), SM.Len t = G.Tree_Len (SM.tsize t).
Proof. reflexivity. Qed.

Theorem C01_isempty_is_source : forall (t : SM.Tree T), SM.IsEmpty t = G.Tree_IsEmpty (SM.tsize t).
Proof. reflexivity. Qed.

End Read.

Print Assumptions C01_size_is_source.
Print Assumptions C01_get_is_source.
Print Assumptions C01_min_is_source.
Print Assumptions C01_max_is_source.
Print Assumptions C01_len_is_source.
Print Assumptions C01_isempty_is_source.
