(* stree: Tree.Clear and Tree.incSize generated from the source against the model's Clear and
   inc_size_of (field updates of the Tree object; see StreeSep.v for the representation). *)
From Coq Require Import ZArith List Bool Arith Lia.
From Mds Require Import Gen.StreeConst Gen.StreeNode.
From Mds Require Import Common.FnRt Common.FnHeap GenTie.TieLib GenTie.StreeTieBase GenTie.StreeSep.
Import ListNotations.
Local Open Scope Z_scope.

Section Field.
Context {T : Type}.
Notation heap := (list (G.node T)).

(* func (t *Tree[T]) Clear() { t.size = 0; t.max = 0; t.root = nil }: the three fields become the
   model's; the new root (nil) represents the model's new root with an EMPTY footprint in every
   heap (the function does not take the heap: no cell is touched, the old region is dropped) *)
Theorem C01_clear_is_source : forall (t : SM.Tree T) (h : heap) (r : option nat),
  exists a', G.Tree_Clear r (SM.tsize t) (SM.maxsize t) =
             (a', SM.tsize (SM.Clear t), SM.maxsize (SM.Clear t)) /\
             trepr h a' (SM.root (SM.Clear t)) [] /\ SM.beta (SM.Clear t) = SM.beta t.
Proof.
  intros t h r. exists None. split; [reflexivity|]. split; [constructor|reflexivity].
Qed.

(* func (t *Tree[T]) incSize(inserted bool) *)
Theorem C01_incSize_is_source : forall (t : SM.Tree T) (inserted : bool),
  G.Tree_incSize (SM.tsize t) (SM.maxsize t) inserted = SM.inc_size_of t inserted.
Proof.
  intros t inserted. unfold G.Tree_incSize, SM.inc_size_of, inc_size, inc_max_test, inc_max.
  destruct inserted; reflexivity.
Qed.

End Field.

Print Assumptions C01_clear_is_source.
Print Assumptions C01_incSize_is_source.
