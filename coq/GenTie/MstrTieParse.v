(* parseInt and parseStr of mstr/mstr.go: model (unbounded accumulator) = generated function *)
From Coq Require Import ZArith List Bool Lia.
From Mds Require Import Common.FnRt GenTie.TieLib Gen.FnMstr Gen.MstrMasks GenTie.MstrTieBase.
Import ListNotations.
Local Open Scope Z_scope.

Lemma str_at_beyond (s : list Z) i : (i <? zlen s) = false -> B.str_at s i = B.PanicIndex.
Proof. intros E. unfold B.str_at. change (B.zlen s) with (zlen s). rewrite E, andb_false_r. reflexivity. Qed.

Lemma parseInt_loop1_eq : forall gas f0 s i v,
  unb (parseInt_loop1 f0 gas s i v) = MM.pi_loop false gas s i v.
Proof.
  induction gas; intros; [reflexivity|].
  cbn [parseInt_loop1 MM.pi_loop]. unfold pi_for, pi_step, pi_acc, MM.int_of.
  change (B.zlen s) with (zlen s).
  destruct (i <? zlen s) eqn:E.
  - pose proof (get_eq s i) as G.
    destruct (go_get s i) as [c| |]; cbn [unb] in G; rewrite <- G; cbn [bind unb B.bind B.cond_res andb orb]; try reflexivity.
    change (isDigit c) with (is_digit c).
    destruct (is_digit c) eqn:D; [|reflexivity].
    rewrite <- IHgas with (f0 := f0). unfold is_digit in D.
    unfold go_byte. rewrite Z.mod_small by lia. reflexivity.
  - rewrite str_at_beyond by assumption. reflexivity.
Qed.

Lemma parseInt_loop1_mono : forall gas gas' f0 f0' s i v, (gas <= gas')%nat ->
  res_le (parseInt_loop1 f0 gas s i v) (parseInt_loop1 f0' gas' s i v).
Proof.
  induction gas; intros; [apply res_le_oof|]. destruct gas'; [lia|]. simpl.
  mono. apply IHgas; lia.
Qed.

Lemma parseInt_eq s fuel :
  unb (parseInt s fuel) =
  B.bind (MM.pi_loop false fuel s 0 0) (fun '(i, v) =>
  B.bind (B.slice_from s (pi_lo i)) (fun r => B.Ok (pi_val v, r, pi_ok i))).
Proof.
  unfold parseInt. rewrite unb_bind, parseInt_loop1_eq.
  destruct (MM.pi_loop false fuel s 0 0) as [[i v]| | |]; cbn [B.bind]; try reflexivity.
  rewrite unb_bind, substr_from. unfold pi_lo, pi_val, pi_ok.
  destruct (B.slice_from s i); reflexivity.
Qed.

Lemma parseInt_mono s fuel fuel' : (fuel <= fuel')%nat -> res_le (parseInt s fuel) (parseInt s fuel').
Proof. intros. unfold parseInt. mono. apply parseInt_loop1_mono; lia. Qed.

Theorem C20_parseInt_is_source : forall s fuel, (S (length s) <= fuel)%nat ->
  res_leB (MM.parse_int false s) (unb (parseInt s fuel)).
Proof.
  intros. unfold MM.parse_int. rewrite <- parseInt_eq. apply unb_le, parseInt_mono. assumption.
Qed.

Lemma parseStr_loop1_eq : forall gas f0 s i,
  unb (parseStr_loop1 f0 gas s i) = MM.ps_loop gas s i.
Proof.
  induction gas; intros; [reflexivity|].
  cbn [parseStr_loop1 MM.ps_loop]. unfold ps_for, ps_step.
  change (B.zlen s) with (zlen s).
  destruct (i <? zlen s) eqn:E.
  - pose proof (get_eq s i) as G.
    destruct (go_get s i) as [c| |]; cbn [unb] in G; rewrite <- G; cbn [bind unb B.bind B.cond_res andb orb negb]; try reflexivity.
    change (isDigit c) with (is_digit c).
    destruct (is_digit c); cbn [negb]; [reflexivity|]. apply IHgas.
  - rewrite str_at_beyond by assumption. reflexivity.
Qed.

Lemma parseStr_loop1_mono : forall gas gas' f0 f0' s i, (gas <= gas')%nat ->
  res_le (parseStr_loop1 f0 gas s i) (parseStr_loop1 f0' gas' s i).
Proof.
  induction gas; intros; [apply res_le_oof|]. destruct gas'; [lia|]. simpl.
  mono. apply IHgas; lia.
Qed.

Lemma parseStr_eq s fuel :
  unb (parseStr s fuel) =
  B.bind (MM.ps_loop fuel s 0) (fun i =>
  B.bind (B.slice_to s (ps_hi i)) (fun p =>
  B.bind (B.slice_from s (ps_lo i)) (fun r => B.Ok (p, r)))).
Proof.
  unfold parseStr. cbv zeta. rewrite unb_bind, parseStr_loop1_eq.
  destruct (MM.ps_loop fuel s 0) as [i| | |]; cbn [B.bind]; try reflexivity.
  rewrite unb_bind, substr_to. unfold ps_hi, ps_lo.
  destruct (B.slice_to s i); cbn [B.bind]; try reflexivity.
  rewrite unb_bind, substr_from. destruct (B.slice_from s i); reflexivity.
Qed.

Lemma parseStr_mono s fuel fuel' : (fuel <= fuel')%nat -> res_le (parseStr s fuel) (parseStr s fuel').
Proof. intros. unfold parseStr. cbv zeta. mono. apply parseStr_loop1_mono; lia. Qed.

Theorem C20_parseStr_is_source : forall s fuel, (S (length s) <= fuel)%nat ->
  res_leB (MM.parse_str s) (unb (parseStr s fuel)).
Proof.
  intros. unfold MM.parse_str. rewrite <- parseStr_eq. apply unb_le, parseStr_mono. assumption.
Qed.

Print Assumptions C20_parseInt_is_source.
Print Assumptions C20_parseStr_is_source.
