(* mapset.Range of mapset/mapset.go: model = generated function (see MapsetTieBase.v, MapsetTieKeys.v).

   Range's argument is an iter.Seq[T] on which the function does nothing but `for v := range it`:
   the generated function takes the SEQUENCE OF VALUES the iterator yields, option (list T), None
   being the nil function value -- exactly the argument of the model's Range.  For a sequence the
   generated function is the model (the same collect loop as Keys/Values: out.Add(v) per value,
   through the tie of Add); for the nil iterator the generated function panics with Go's
   nil-dereference panic where the model answers PanicNilFunc. *)
From Coq Require Import ZArith List Bool Lia.
From Mds Require Import Common.FnRt GenTie.TieLib Gen.FnMapset Gen.MapsetFacts GenTie.MapsetTieBase GenTie.MapsetTieWrite.
Import ListNotations.
Local Open Scope Z_scope.

Section Range.
Context {T : Type}.
Variable eqb : T -> T -> bool.
Hypothesis eqb_spec : forall x y, eqb x y = true <-> x = y.

Notation gomap := (M.gomap T).
Notation forget := (@forget T).

Lemma range_loop_eq (items : list T) fuel fresh : (1 < fuel)%nat -> forall rest (out : gomap) r gas,
  0 <= r -> skipn (Z.to_nat r) items = rest -> (length rest < gas)%nat ->
  bind (Range_loop1 fuel gas items (zlen items) eqb (forget out) r) (fun '(o, _) => Ok o)
  = embf forget (M.collect_loop T eqb range_ncalls_add out fresh rest).
Proof.
  intros F1. induction rest as [|x rest IH]; intros out r gas R E G; (destruct gas as [|gas]; [cbn in G; lia|]); cbn [Range_loop1].
  - rewrite (skipn_nil_end _ _ R E). reflexivity.
  - destruct (skipn_cons_get _ _ _ _ R E) as [B [Gt S']]. rewrite B, Gt. cbn [bind M.collect_loop].
    rewrite called_1 by reflexivity.
    rewrite (C18_add_is_source eqb eqb_spec out fresh [x] fuel) by (cbn; lia).
    destruct (M.Add T eqb out fresh [x]) as [o| | | | |]; cbn [embf bind M.bind both]; try reflexivity.
    apply IH; [lia | exact S' | cbn in G; lia].
Qed.

Theorem C18_range_is_source : forall (items : list T) (fresh : positive) (fuel : nat),
  (length items < fuel)%nat -> (1 < fuel)%nat ->
  Range (Some items) eqb fuel = embf forget (M.Range T eqb (Some items) fresh).
Proof.
  intros items fresh fuel F F1. unfold Range, M.Range, go_seq. anchors. cbn [bind]. cbv zeta.
  change (@go_nmap_make T unit) with (forget (M.m_make T fresh)).
  pose proof (range_loop_eq items fuel (Pos.succ fresh) F1 items (M.m_make T fresh) 0 fuel (Z.le_refl 0) eq_refl F) as L.
  destruct (Range_loop1 _ _ _ _ _ _ _) as [[o r']| |]; destruct (M.collect_loop _ _ _ _ _ _); cbn [bind embf M.bind] in *;
    try discriminate; anchors; inversion L; subst; reflexivity.
Qed.

(* the nil iterator: Go's nil-dereference panic / the model's PanicNilFunc *)
Theorem C18_range_nil_is_source : forall (fresh : positive) (fuel : nat),
  Range (@None (list T)) eqb fuel = Panic PNil /\ M.Range T eqb None fresh = M.PanicNilFunc.
Proof.
  intros fresh fuel. split; [reflexivity|]. unfold M.Range. anchors. reflexivity.
Qed.

End Range.

Print Assumptions C18_range_is_source.
Print Assumptions C18_range_nil_is_source.
