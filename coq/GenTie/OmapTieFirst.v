(* omap ties: Map.First, Map.Last, Map.Seek.  In omap.go they build `it := &Iter{m: m.m}`: an Iter
   that shares the tree object with the Map.  The translator (directive fresh:, fn_fresh.go)
   translates them as methods of the fresh Iter (Map_First, Map_Last, Map_Seek of Gen/FnOmap.v): it.m
   IS m.m (the literal says so), it.c starts nil.  Given the generated Tree.Root (g_Root: its *Cursor
   result decoded by vdec) and Cursor.Min / Max (c_Min, c_Max), resp. the generated Iter.Seek after
   Map_First, they hand back the Tree object unchanged and a cursor pair that stands for the
   model's mfirst / mlast / mseek cursor and is well-formed.  Composed from C03_tree_root_is_source,
   cstep_sim (C03_min/max_is_source + the invariant) and seek_tie. *)
From Coq Require Import ZArith List Bool Arith Lia.
From Mds Require Import Common.FnRt Common.FnHeap GenTie.TieLib GenTie.StreeTieBase GenTie.StreeSep
  GenTie.StreeTieCursor GenTie.StreeTieRest GenTie.StreeSource GenTie.StreeSourceSim GenTie.StreeSourceCursor
  GenTie.OmapTieBase GenTie.OmapTieIter GenTie.OmapTieSeq.
From Mds Require Gen.FnOmap Omap.OmapModel.
Import ListNotations.
Local Open Scope Z_scope.

Section OmapFirst.
Context {K V : Type}.
Variable kcmp : K -> K -> Z.
Hypothesis HK : SP.total_preorder kcmp.
Variable zk : K.
Variable zv : V.
Variable b : Z.
Variable h0 : list (G.node (K * V)).
Notation kv := (K * V)%type.
Notation kvcmp := (OM.kvcmp K V kcmp).
Notation osim := (osim kcmp b h0).
Notation heap := (list (G.node kv)).
Notation cst := (bool * list (option nat))%type.

Definition g_Root (st : gst kv) : res (cst * gst kv) :=
  Ok (vdec (true, []) (G.Tree_Root (g_root st)), st).
Definition c_Min (h : heap) (fuel : nat) (c : cst) : res cst :=
  do ps <- G.Cursor_Min (fst c) (snd c) h fuel; Ok (fst c, ps).
Definition c_Max (h : heap) (fuel : nat) (c : cst) : res cst :=
  do ps <- G.Cursor_Max (fst c) (snd c) h fuel; Ok (fst c, ps).

Lemma extreme_tie (mv : CM.move) (nil : bool) (st : gst kv) (m : OM.omap K V) :
  osim nil st m ->
  exists c n ps,
    match m with None => SM.Ok CNil | Some t => CM.step (SM.root t) (CM.tree_root (SM.root t)) mv end = SM.Ok c /\
    (if negb nil then
       do x <- g_Root st;
       do ps' <- cstep (g_heap st) (fst (fst x)) (snd (fst x)) mv (fuel_for (g_size st));
       Ok (snd x, (fst (fst x), ps'))
     else Ok (st, (true, []))) = Ok (st, (n, ps)) /\
    crepr (g_heap st) (g_root st) c n ps /\ cwf (OM.mtree K V m) c.
Proof.
  destruct m as [t|]; cbn [OmapTieBase.osim].
  - intros [-> [Hs [l Hr]]]. cbn [negb]. pose proof (rel_depth kvcmp t l Hr) as Hd.
    destruct Hs as [Esz [_ [_ [F [R _]]]]]. pose proof (trepr_repr _ _ _ _ R) as Rr.
    unfold g_Root. cbn [bind fst snd]. unfold OM.kv in *.
    destruct (C03_tree_root_is_source (g_heap st) (g_root st) (SM.root t) (true, []) Rr) as [Cr [W _]].
    destruct (@cstep_sim kv (zk, zv) (g_heap st) (g_root st) (SM.root t) F _ _ _ mv (fuel_for (g_size st)) R Cr W
                ltac:(rewrite Esz; unfold fuel_for, OM.kv in *; lia)) as [c' [ps' [M [G1 [Cr' W']]]]].
    rewrite G1. cbn [bind]. exists c', (fst (vdec (true, []) (G.Tree_Root (g_root st)))), ps'.
    split; [exact M|]. split; [reflexivity|]. split; [exact Cr'|exact W'].
  - intros ->. cbn [negb]. exists CNil, true, []. split; [reflexivity|]. split; [reflexivity|]. split; constructor.
Qed.

Lemma first_tie (nil : bool) (st : gst kv) (m : OM.omap K V) (c0 : cst) :
  osim nil st m ->
  exists c n ps, OM.mfirst K V m = SM.Ok c /\
    O.Map_First st c0 (true, []) nil g_Root (c_Min (g_heap st) (fuel_for (g_size st))) = Ok (st, (n, ps)) /\
    crepr (g_heap st) (g_root st) c n ps /\ cwf (OM.mtree K V m) c.
Proof.
  intros Hs. destruct (extreme_tie CM.MMin nil st m Hs) as [c [n [ps [M [G1 [Cr W]]]]]].
  exists c, n, ps. split; [destruct m; exact M|]. split; [|split; [exact Cr|exact W]].
  rewrite <- G1. unfold O.Map_First, c_Min, g_Root. cbn [bind fst snd cstep]. destruct nil; cbn [negb]; [reflexivity|].
  destruct (G.Cursor_Min _ _ _ _); reflexivity.
Qed.

Lemma last_tie (nil : bool) (st : gst kv) (m : OM.omap K V) (c0 : cst) :
  osim nil st m ->
  exists c n ps, OM.mlast K V m = SM.Ok c /\
    O.Map_Last st c0 (true, []) nil g_Root (c_Max (g_heap st) (fuel_for (g_size st))) = Ok (st, (n, ps)) /\
    crepr (g_heap st) (g_root st) c n ps /\ cwf (OM.mtree K V m) c.
Proof.
  intros Hs. destruct (extreme_tie CM.MMax nil st m Hs) as [c [n [ps [M [G1 [Cr W]]]]]].
  exists c, n, ps. split; [destruct m; exact M|]. split; [|split; [exact Cr|exact W]].
  rewrite <- G1. unfold O.Map_Last, c_Max, g_Root. cbn [bind fst snd cstep]. destruct nil; cbn [negb]; [reflexivity|].
  destruct (G.Cursor_Max _ _ _ _); reflexivity.
Qed.

(* Map.Seek: m.First().Seek(key) *)
Lemma mapseek_tie (nil : bool) (st : gst kv) (m : OM.omap K V) (c0 : cst) (k : K) (fuel : nat) :
  osim nil st m -> (fuel > 0)%nat ->
  exists c n ps, OM.mseek K V kcmp zv m k = SM.Ok c /\
    O.Map_Seek st c0 k (true, []) nil g_Root (c_Min (g_heap st) (fuel_for (g_size st)))
               (g_InorderAfter kcmp) (g_Cursor kcmp) zv fuel = Ok (st, (n, ps)) /\
    crepr (g_heap st) (g_root st) c n ps /\ cwf (OM.mtree K V m) c.
Proof.
  intros Hs Hf. destruct (first_tie nil st m c0 Hs) as [c1 [n1 [ps1 [M1 [G1 _]]]]].
  destruct (seek_tie kcmp HK zv b h0 nil st m (n1, ps1) k fuel Hs Hf) as [c [n [ps [M2 [G2 [Cr W]]]]]].
  exists c, n, ps. split; [unfold OM.mseek; rewrite M1; exact M2|]. split; [|split; [exact Cr|exact W]].
  unfold O.Map_Seek. rewrite G1. cbn [bind]. exact G2.
Qed.

End OmapFirst.
