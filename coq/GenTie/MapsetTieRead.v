(* The observers of mapset/mapset.go: Has, IsEmpty, Len, HasAll, HasAny, Intersects, IsSubset,
   Equals, Append, Slice, and the constructors without a loop (NewSize, Clone):
   model = generated function (see MapsetTieBase.v). *)
From Coq Require Import ZArith List Bool Lia.
From Mds Require Import Common.FnRt GenTie.TieLib Gen.FnMapset Gen.MapsetFacts GenTie.MapsetTieBase.
Import ListNotations.
Local Open Scope Z_scope.

Section Elem.
Context {T : Type}.
Variable eqb : T -> T -> bool.
Hypothesis eqb_spec : forall x y, eqb x y = true <-> x = y.
Variable zero : T.

Notation gomap := (M.gomap T).
Notation forget := (@forget T).
Notation wf := (@wf T).
Notation Has_eq := (Has_eq eqb eqb_spec).
Notation len_eq := (len_eq eqb eqb_spec).
Notation has_eq := (has_eq eqb eqb_spec).
Notation order_check_eq := (order_check_eq eqb eqb_spec).

Definition id_ {A} (a : A) : A := a.

Theorem C18_has_is_source : forall (s : gomap) (t : T),
  Ok (Has (forget s) t eqb) = embf id_ (M.Has T eqb s t).
Proof. intros. unfold M.Has. anchors. rewrite Has_eq. reflexivity. Qed.

Theorem C18_isempty_is_source : forall (s : gomap), wf s ->
  Ok (IsEmpty (forget s) eqb) = embf id_ (M.IsEmpty T s).
Proof. intros s W. unfold M.IsEmpty, IsEmpty. anchors. rewrite len_eq by exact W. reflexivity. Qed.

Theorem C18_len_is_source : forall (s : gomap), wf s ->
  Ok (Len (forget s) eqb) = embf id_ (M.Len T s).
Proof. intros s W. unfold M.Len, Len. anchors. rewrite len_eq by exact W. reflexivity. Qed.

Theorem C18_newsize_is_source : forall (fresh : positive) (n : Z),
  Ok (NewSize (T := T) n) = embf forget (M.NewSize T fresh n).
Proof. intros. unfold M.NewSize. anchors. reflexivity. Qed.

Theorem C18_clone_is_source : forall (s : gomap) (fresh : positive),
  Ok (Clone (forget s)) = embf forget (M.Clone T s fresh).
Proof.
  intros s fresh. unfold M.Clone, Clone. anchors. rewrite isnil_eq. unfold clone_nil.
  destruct s as [[p l]|]; cbn; anchors; reflexivity.
Qed.

(* ---- HasAll ---- *)
Lemma hasall_loop_eq (s : gomap) (ts : list T) fuel : forall items r gas,
  0 <= r -> skipn (Z.to_nat r) ts = items -> (length items < gas)%nat ->
  bind (HasAll_loop1 fuel gas (forget s) ts eqb (zlen ts) r)
       (fun t2 => match t2 with Ret x => Ok x | Next _ => Ok true end)
  = Ok (M.hasall_loop T eqb s items).
Proof.
  induction items as [|x items IH]; intros r gas R E G; (destruct gas as [|gas]; [cbn in G; lia|]); cbn [HasAll_loop1].
  - rewrite (skipn_nil_end _ _ R E). reflexivity.
  - destruct (skipn_cons_get _ _ _ _ R E) as [B [Gt S']]. rewrite B, Gt. cbn [bind M.hasall_loop].
    rewrite Has_eq. unfold hasall_miss. destruct (M.Has_raw T eqb s x); cbn [negb]; [|reflexivity].
    apply IH; [lia | exact S' | cbn in G; lia].
Qed.

Theorem C18_hasall_is_source : forall (s : gomap) (ts : list T) (fuel : nat), wf s -> (length ts < fuel)%nat ->
  HasAll (forget s) ts eqb fuel = embf id_ (M.HasAll T eqb s ts).
Proof.
  intros s ts fuel W F. unfold M.HasAll, HasAll. anchors. rewrite len_eq by exact W.
  unfold hasall_empty, hasall_empty_ret. fold (zlen ts). destruct (M.m_len T s =? 0); [reflexivity|].
  cbv zeta. rewrite (hasall_loop_eq s ts fuel ts 0 fuel); [reflexivity | lia | reflexivity | exact F].
Qed.

(* ---- HasAny ---- *)
Lemma hasany_loop_eq (s : gomap) (ts : list T) fuel : forall items r gas,
  0 <= r -> skipn (Z.to_nat r) ts = items -> (length items < gas)%nat ->
  bind (HasAny_loop1 fuel gas (forget s) ts eqb (zlen ts) r)
       (fun t2 => match t2 with Ret x => Ok x | Next _ => Ok false end)
  = Ok (M.hasany_loop T eqb s items).
Proof.
  induction items as [|x items IH]; intros r gas R E G; (destruct gas as [|gas]; [cbn in G; lia|]); cbn [HasAny_loop1].
  - rewrite (skipn_nil_end _ _ R E). reflexivity.
  - destruct (skipn_cons_get _ _ _ _ R E) as [B [Gt S']]. rewrite B, Gt. cbn [bind M.hasany_loop].
    rewrite Has_eq. unfold hasany_hit. destruct (M.Has_raw T eqb s x); [reflexivity|].
    apply IH; [lia | exact S' | cbn in G; lia].
Qed.

Theorem C18_hasany_is_source : forall (s : gomap) (ts : list T) (fuel : nat), wf s -> (length ts < fuel)%nat ->
  HasAny (forget s) ts eqb fuel = embf id_ (M.HasAny T eqb s ts).
Proof.
  intros s ts fuel W F. unfold M.HasAny, HasAny. anchors. rewrite len_eq by exact W.
  unfold hasany_empty, hasany_empty_ret. destruct (M.m_len T s =? 0); [reflexivity|].
  cbv zeta. rewrite (hasany_loop_eq s ts fuel ts 0 fuel); [reflexivity | lia | reflexivity | exact F].
Qed.

(* ---- loops over a map: `for item := range m` with the order ord; every key of a valid order is
   present, so the skip test of the generated loop never fires here (m is not changed) ---- *)
Lemma intersects_loop_eq (lo hi : gomap) (ord : list T) fuel : forall items r gas,
  (forall x, In x items -> M.m_get T eqb lo x = true) ->
  0 <= r -> skipn (Z.to_nat r) ord = items -> (length items < gas)%nat ->
  bind (Intersects_loop1 fuel gas (forget lo) (forget hi) eqb ord (zlen ord) r)
       (fun t2 => match t2 with Ret x => Ok x | Next _ => Ok false end)
  = Ok (M.intersects_loop T eqb hi items).
Proof.
  induction items as [|x items IH]; intros r gas P R E G; (destruct gas as [|gas]; [cbn in G; lia|]); cbn [Intersects_loop1].
  - rewrite (skipn_nil_end _ _ R E). reflexivity.
  - destruct (skipn_cons_get _ _ _ _ R E) as [B [Gt S']]. rewrite B, Gt. cbn [bind M.intersects_loop].
    rewrite has_eq, (P x (or_introl eq_refl)). cbn [negb]. rewrite Has_eq. unfold intersects_hit.
    destruct (M.Has_raw T eqb hi x); [reflexivity|].
    apply IH; [intros y I; apply P; right; exact I | lia | exact S' | cbn in G; lia].
Qed.

Theorem C18_intersects_is_source : forall (s t : gomap) (ord : list T) (fuel : nat), wf s -> wf t -> (length ord < fuel)%nat ->
  Intersects (forget s) (forget t) eqb ord fuel = embf id_ (M.Intersects T eqb s t ord).
Proof.
  intros s t ord fuel Ws Wt F. unfold M.Intersects, Intersects, M.intersects_operands. anchors.
  rewrite !len_eq by assumption. unfold intersects_swap.
  assert (K : forall lo hi : gomap, wf lo ->
    bind (go_nmap_order_check eqb (forget lo) ord) (fun _ =>
      bind (Intersects_loop1 fuel fuel (forget lo) (forget hi) eqb ord (zlen ord) 0)
        (fun t2 => match t2 with Ret x => Ok x | Next _ => Ok false end))
    = embf id_ (M.m_range T eqb lo ord (fun items => M.Ok (M.intersects_loop T eqb hi items)))).
  { intros lo hi W. rewrite order_check_eq by exact W. unfold M.m_range.
    destruct (M.valid_order T eqb ord lo) eqn:V; [|reflexivity].
    rewrite (intersects_loop_eq lo hi ord fuel ord 0 fuel); [reflexivity | apply (valid_order_in eqb _ _ V) | lia | reflexivity | exact F]. }
  destruct (M.m_len T s >? M.m_len T t); cbv zeta; [apply (K t s Wt) | apply (K s t Ws)].
Qed.

Lemma issubset_loop_eq (s t : gomap) (ord : list T) fuel : forall items r gas,
  (forall x, In x items -> M.m_get T eqb s x = true) ->
  0 <= r -> skipn (Z.to_nat r) ord = items -> (length items < gas)%nat ->
  bind (IsSubset_loop1 fuel gas (forget s) (forget t) eqb ord (zlen ord) r)
       (fun t2 => match t2 with Ret x => Ok x | Next _ => Ok true end)
  = Ok (M.issubset_loop T eqb t items).
Proof.
  induction items as [|x items IH]; intros r gas P R E G; (destruct gas as [|gas]; [cbn in G; lia|]); cbn [IsSubset_loop1].
  - rewrite (skipn_nil_end _ _ R E). reflexivity.
  - destruct (skipn_cons_get _ _ _ _ R E) as [B [Gt S']]. rewrite B, Gt. cbn [bind M.issubset_loop].
    rewrite has_eq, (P x (or_introl eq_refl)). cbn [negb]. rewrite Has_eq. unfold issubset_miss.
    destruct (M.Has_raw T eqb t x); cbn [negb]; [|reflexivity].
    apply IH; [intros y I; apply P; right; exact I | lia | exact S' | cbn in G; lia].
Qed.

Theorem C18_issubset_is_source : forall (s t : gomap) (ord : list T) (fuel : nat), wf s -> wf t -> (length ord < fuel)%nat ->
  IsSubset (forget s) (forget t) eqb ord fuel = embf id_ (M.IsSubset T eqb s t ord).
Proof.
  intros s t ord fuel Ws Wt F. unfold M.IsSubset, IsSubset. anchors. rewrite !len_eq by assumption.
  unfold issubset_empty, issubset_bigger. destruct (M.m_len T s =? 0); [reflexivity|].
  destruct (M.m_len T s >? M.m_len T t); [reflexivity|].
  rewrite order_check_eq by exact Ws. unfold M.m_range. destruct (M.valid_order T eqb ord s) eqn:V; [|reflexivity].
  cbv zeta. rewrite (issubset_loop_eq s t ord fuel ord 0 fuel); [reflexivity | apply (valid_order_in eqb _ _ V) | lia | reflexivity | exact F].
Qed.

Lemma equals_loop_eq (s t : gomap) (ord : list T) fuel : forall items r gas,
  (forall x, In x items -> M.m_get T eqb s x = true) ->
  0 <= r -> skipn (Z.to_nat r) ord = items -> (length items < gas)%nat ->
  bind (Equals_loop1 fuel gas (forget s) (forget t) eqb ord (zlen ord) r)
       (fun t2 => match t2 with Ret x => Ok x | Next _ => Ok true end)
  = Ok (M.equals_loop T eqb t items).
Proof.
  induction items as [|x items IH]; intros r gas P R E G; (destruct gas as [|gas]; [cbn in G; lia|]); cbn [Equals_loop1].
  - rewrite (skipn_nil_end _ _ R E). reflexivity.
  - destruct (skipn_cons_get _ _ _ _ R E) as [B [Gt S']]. rewrite B, Gt. cbn [bind M.equals_loop].
    rewrite has_eq, (P x (or_introl eq_refl)). cbn [negb]. rewrite Has_eq. unfold equals_miss.
    destruct (M.Has_raw T eqb t x); cbn [negb]; [|reflexivity].
    apply IH; [intros y I; apply P; right; exact I | lia | exact S' | cbn in G; lia].
Qed.

Theorem C18_equals_is_source : forall (s t : gomap) (ord : list T) (fuel : nat), wf s -> wf t -> (length ord < fuel)%nat ->
  Equals (forget s) (forget t) eqb ord fuel = embf id_ (M.Equals T eqb s t ord).
Proof.
  intros s t ord fuel Ws Wt F. unfold M.Equals, Equals. anchors. rewrite !len_eq by assumption.
  unfold equals_len_ne. destruct (M.m_len T s =? M.m_len T t); cbn [negb]; [|reflexivity].
  rewrite order_check_eq by exact Ws. unfold M.m_range. destruct (M.valid_order T eqb ord s) eqn:V; [|reflexivity].
  cbv zeta. rewrite (equals_loop_eq s t ord fuel ord 0 fuel); [reflexivity | apply (valid_order_in eqb _ _ V) | lia | reflexivity | exact F].
Qed.

(* ---- Append / Slice: the model's goslice also records nil-ness of the slice; the generated
   list does not: the ties are about the elements ---- *)
Lemma append_loop_eq (s : gomap) (ord : list T) fuel : forall items r gas (vs : M.goslice T),
  (forall x, In x items -> M.m_get T eqb s x = true) ->
  0 <= r -> skipn (Z.to_nat r) ord = items -> (length items < gas)%nat ->
  bind (Append_loop1 fuel gas (forget s) eqb ord (zlen ord) (M.sl_elems T vs) r) (fun '(vs', _) => Ok vs')
  = Ok (M.sl_elems T (M.append_loop T vs items)).
Proof.
  induction items as [|x items IH]; intros r gas vs P R E G; (destruct gas as [|gas]; [cbn in G; lia|]); cbn [Append_loop1].
  - rewrite (skipn_nil_end _ _ R E). reflexivity.
  - destruct (skipn_cons_get _ _ _ _ R E) as [B [Gt S']]. rewrite B, Gt. cbn [bind M.append_loop].
    rewrite has_eq, (P x (or_introl eq_refl)). cbn [negb]. rewrite called_1 by reflexivity.
    change (M.sl_elems T vs ++ [x]) with (M.sl_elems T (M.sl_append T vs x)).
    apply IH; [intros y I; apply P; right; exact I | lia | exact S' | cbn in G; lia].
Qed.

Theorem C18_append_is_source : forall (s : gomap) (vs : M.goslice T) (ord : list T) (fuel : nat), wf s -> (length ord < fuel)%nat ->
  Append (forget s) (M.sl_elems T vs) eqb ord fuel = embf (M.sl_elems T) (M.Append T eqb s vs ord).
Proof.
  intros s vs ord fuel W F. unfold M.Append, Append. anchors. rewrite len_eq by exact W.
  unfold append_empty. destruct (M.m_len T s =? 0); anchors; [reflexivity|].
  rewrite order_check_eq by exact W. unfold M.m_range. destruct (M.valid_order T eqb ord s) eqn:V; [|reflexivity].
  anchors. cbv zeta.
  pose proof (append_loop_eq s ord fuel ord 0 fuel vs (valid_order_in eqb _ _ V) (Z.le_refl 0) eq_refl F) as L.
  destruct (Append_loop1 _ _ _ _ _ _ _ _) as [[vs' r']| |]; cbn [bind] in *; try discriminate.
  inversion L; subst. reflexivity.
Qed.

Theorem C18_slice_is_source : forall (s : gomap) (ord : list T) (fuel : nat), wf s -> (length ord < fuel)%nat ->
  Slice (forget s) ord eqb fuel = embf (M.sl_elems T) (M.Slice T eqb zero s ord).
Proof.
  intros s ord fuel W F. unfold M.Slice, Slice. anchors. rewrite len_eq by exact W.
  unfold slice_empty. destruct (M.m_len T s =? 0) eqn:Z0; anchors; [reflexivity|].
  unfold go_make_check. assert (0 <= M.m_len T s) by (unfold M.m_len; lia).
  replace ((0 <=? 0) && (0 <=? M.m_len T s)) with true by (symmetry; apply andb_true_iff; split; apply Z.leb_le; lia).
  cbn [bind]. change (@nil T) with (M.sl_elems T (Some (repeat zero (Z.to_nat slice_buf_len)))).
  apply C18_append_is_source; assumption.
Qed.

End Elem.

Print Assumptions C18_has_is_source.
Print Assumptions C18_isempty_is_source.
Print Assumptions C18_len_is_source.
Print Assumptions C18_newsize_is_source.
Print Assumptions C18_clone_is_source.
Print Assumptions C18_hasall_is_source.
Print Assumptions C18_hasany_is_source.
Print Assumptions C18_intersects_is_source.
Print Assumptions C18_issubset_is_source.
Print Assumptions C18_equals_is_source.
Print Assumptions C18_append_is_source.
Print Assumptions C18_slice_is_source.
